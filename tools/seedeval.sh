#!/bin/bash
# usage: tools/seedeval.sh <ID> <mN> [tier]   — evaluates a seeded change delivered under /tmp/seedout/<ID>/<mN>
# 1. fresh worktree of /repo HEAD + patch; 2. baseline suite; 3. our check against the worktree.
set -u
ID=$1; M=$2; TIER=${3:-quick}
export GOFLAGS=-mod=mod GOPROXY=off GOSUMDB=off GOTOOLCHAIN=local
SRC=/tmp/seedout/$ID/$M
[ -d $SRC ] || SRC=/verif/seeded/$ID-$M
WT=/tmp/wt/seed-$ID-$M
git -C /repo worktree remove --force $WT 2>/dev/null
git -C /repo worktree add -q $WT HEAD || exit 2
( cd $WT && git apply $SRC/patch.diff ) || { echo "PATCH DOES NOT APPLY"; exit 2; }
echo "== baseline suite with the change"
( cd $WT && go test -json -vet=off -count=1 -timeout 25m ./... 2>/dev/null | python3 -c "
import sys,json
p=f=0
for l in sys.stdin:
    try: e=json.loads(l)
    except: continue
    if e.get('Test') and e.get('Action')=='pass': p+=1
    if e.get('Test') and e.get('Action')=='fail': f+=1; print('FAIL',e['Package'],e['Test'])
print('baseline pass',p,'fail',f)" )
( cd $WT && git status --short | grep -v '^ M' | head -3 )
echo "== check $ID $TIER against the change"
( cd /verif && VERIF_REPO=$WT ./run $ID $TIER 2>&1 | grep -v 'rapid\] draw' | grep 'VIOLATION\|KNOWN-FINDING\|INCONCLUSIVE\|seed=\|_test.go:[0-9]*: [^\[]' | cut -c1-330 | head -8 )
echo "exit=$?"
echo "== demo: see $SRC/run.txt"; cat $SRC/run.txt 2>/dev/null | head -5
# clean up: the scratch worktree and its own build directory
git -C /repo worktree remove --force $WT 2>/dev/null
rm -rf /verif/build/alt-$(printf %s "$WT" | sha1sum | cut -c1-10)

#!/bin/bash
# usage: tools/seedall.sh [key ...]   — re-runs the property's quick check against every stored seeded change
# (/verif/seeded/<ID>-mN) in a scratch worktree of /repo HEAD and prints one line per change:
#   <key> <ID> exit=<0|1|2>   (1 = caught). Worktrees and their build directories are removed afterwards.
set -u
export GOFLAGS=-mod=mod GOPROXY=off GOSUMDB=off GOTOOLCHAIN=local
cd /verif
KEYS="$@"
[ -z "$KEYS" ] && KEYS=$(ls seeded)
for key in $KEYS; do
  ID=${key%%-*}
  WT=/tmp/wt/sa-$key
  git -C /repo worktree remove --force $WT 2>/dev/null
  git -C /repo worktree add -q $WT HEAD || { echo "$key $ID exit=worktree-failed"; continue; }
  if ! ( cd $WT && git apply /verif/seeded/$key/patch.diff ); then echo "$key $ID exit=patch-does-not-apply"; git -C /repo worktree remove --force $WT; continue; fi
  out=$(VERIF_REPO=$WT ./run $ID quick 2>&1); rc=$?
  echo "$key $ID exit=$rc $(echo "$out" | grep -m1 -o 'VIOLATION property=[A-Z0-9]* replay=[^ ]*' | sed 's#replay=.*/replays/#replay=#')"
  alt=/verif/build/alt-$(printf %s "$WT" | sha1sum | cut -c1-10)
  git -C /repo worktree remove --force $WT
  rm -rf "$alt"
done
git -C /repo worktree prune

#!/bin/bash
# usage: tools/seeddemo.sh <ID> <mN>  — confirms the demonstration of a seeded change delivered under /tmp/seedout/<ID>/<mN>:
# it must FAIL in a worktree with the patch and PASS in the same worktree without it. Prints "DEMO with=<rc> without=<rc>".
set -u
ID=$1; M=$2
export GOFLAGS=-mod=mod GOPROXY=off GOSUMDB=off GOTOOLCHAIN=local
SRC=${SEEDSRC:-/tmp/seedout}/$ID/$M
[ -d $SRC ] || SRC=/verif/seeded/$ID-$M
WT=/tmp/wt/demo-$ID-$M
git -C /repo worktree remove --force $WT 2>/dev/null
git -C /repo worktree add -q $WT HEAD || exit 2
cd $WT || exit 2
git apply $SRC/patch.diff || { echo "PATCH DOES NOT APPLY"; exit 2; }
CP=$(grep -E '^#? *cp /tmp/seedout' $SRC/run.txt | sed -E 's/^#? *//; s/ +\(.*$//' | sed "s#/tmp/seedout/$ID/$M#$SRC#g")
GT=$(grep -E '^go test ' $SRC/run.txt | head -1)
[ -z "$GT" ] && { echo "no go test line in run.txt"; exit 2; }
eval "$CP"
eval "$GT" > /tmp/wt/demo-$ID-$M.with.log 2>&1; W=$?
git apply -R $SRC/patch.diff || { echo "cannot revert"; exit 2; }
eval "$GT" > /tmp/wt/demo-$ID-$M.without.log 2>&1; WO=$?
echo "DEMO $ID $M with=$W without=$WO  ($(grep -m1 -E -- '--- FAIL|^FAIL|panic' /tmp/wt/demo-$ID-$M.with.log | cut -c1-120))"
cd /
git -C /repo worktree remove --force $WT
rm -f /tmp/wt/demo-$ID-$M.with.log /tmp/wt/demo-$ID-$M.without.log

// genoverlay builds the `go build -overlay` description used by every check.
//
// Layers (see DESIGN.md §1.1):
//  1. two third-party module-cache files that do not compile / panic in init on
//     the installed toolchain (QUIC is never exercised);
//  2. a new package common/vclock inside the repository's import tree plus
//     mechanically rewritten copies of the repository files that read the wall
//     clock (time.Now/time.Since -> vclock.Now/Since; time.Sleep -> vclock.Sleep
//     in a short list of packages). The copies are generated from the
//     repository's *current working tree* on every run;
//  3. hook files kept under /verif/hooks/<pkg>/, injected as
//     <repo>/<pkg>/zz_verif_<name>.go (tag `verif`).
//
// Exit status 2 = cannot generate (treated as "inconclusive" by the driver).
package main

import (
	"bytes"
	_ "embed"
	"encoding/json"
	"flag"
	"fmt"
	"go/ast"
	"go/format"
	"go/parser"
	"go/token"
	"os"
	"path/filepath"
	"strconv"
	"strings"
)

//go:embed vclock.go.txt
var vclockSrc []byte

// packages whose wall-clock reads are redirected
var nowPkgs = []string{
	"blockchain", "core/appstate", "core/ceremony", "core/upgrade", "core/mempool",
	"consensus", "pengings", "common/pushpull", "protocol",
}

// packages whose time.Sleep is redirected as well (per-package mode, default real)
var sleepPkgs = map[string]bool{"consensus": true, "pengings": true, "common/pushpull": true}

const vclockImport = "github.com/idena-network/idena-go/common/vclock"

func die(format string, a ...interface{}) {
	fmt.Fprintf(os.Stderr, "genoverlay: "+format+"\n", a...)
	os.Exit(2)
}

func main() {
	repo := flag.String("repo", "/repo", "repository root")
	verif := flag.String("verif", "/verif", "verif root")
	out := flag.String("out", "/verif/build/overlay", "output dir")
	modcache := flag.String("modcache", "", "module cache (default $GOMODCACHE or /root/go/pkg/mod)")
	flag.Parse()
	if *modcache == "" {
		*modcache = os.Getenv("GOMODCACHE")
	}
	if *modcache == "" {
		*modcache = "/root/go/pkg/mod"
	}
	if err := os.MkdirAll(*out, 0o755); err != nil {
		die("%v", err)
	}
	replace := map[string]string{}
	// files are only rewritten when their content changes (atomic rename), so that
	// concurrent check runs never see a half-written overlay
	write := func(rel string, data []byte) string {
		p := filepath.Join(*out, rel)
		if old, err := os.ReadFile(p); err == nil && bytes.Equal(old, data) {
			return p
		}
		os.MkdirAll(filepath.Dir(p), 0o755)
		tmp := fmt.Sprintf("%s.%d.tmp", p, os.Getpid())
		if err := os.WriteFile(tmp, data, 0o644); err != nil {
			die("%v", err)
		}
		if err := os.Rename(tmp, p); err != nil {
			die("%v", err)
		}
		return p
	}

	// layer 1
	q := filepath.Join(*modcache, "github.com/lucas-clemente/quic-go@v0.28.0/internal/qtls/go120.go")
	if _, err := os.Stat(q); err == nil {
		replace[q] = write("thirdparty/go120.go", []byte("//go:build go1.20\n\npackage qtls\n"))
	}
	u := filepath.Join(*modcache, "github.com/marten-seemann/qtls-go1-19@v0.1.0-beta.1/unsafe.go")
	if b, err := os.ReadFile(u); err == nil {
		b = bytes.Replace(b, []byte("func init() {"), []byte("func verifDisabledInit() {"), 1)
		replace[u] = write("thirdparty/unsafe.go", b)
	}

	// layer 2
	replace[filepath.Join(*repo, "common/vclock/vclock.go")] = write("vclock/vclock.go", vclockSrc)
	for _, pkg := range nowPkgs {
		dir := filepath.Join(*repo, pkg)
		ents, err := os.ReadDir(dir)
		if err != nil {
			die("read %s: %v", dir, err)
		}
		for _, e := range ents {
			n := e.Name()
			if e.IsDir() || !strings.HasSuffix(n, ".go") || strings.HasSuffix(n, "_test.go") {
				continue
			}
			src := filepath.Join(dir, n)
			b, err := os.ReadFile(src)
			if err != nil {
				die("%v", err)
			}
			if !bytes.Contains(b, []byte("time.")) {
				continue
			}
			nb, changed, err := rewrite(src, b, pkg, sleepPkgs[pkg])
			if err != nil {
				die("rewrite %s: %v", src, err)
			}
			if changed {
				replace[src] = write(filepath.Join("gen", pkg, n), nb)
			}
		}
	}

	// layer 3
	hooks := filepath.Join(*verif, "hooks")
	filepath.Walk(hooks, func(p string, info os.FileInfo, err error) error {
		if err != nil || info.IsDir() || !strings.HasSuffix(p, ".go") {
			return nil
		}
		rel, _ := filepath.Rel(hooks, p)
		pkg := filepath.Dir(rel)
		if _, err := os.Stat(filepath.Join(*repo, pkg)); err != nil {
			die("hook package %s does not exist in repo", pkg)
		}
		replace[filepath.Join(*repo, pkg, "zz_verif_"+filepath.Base(p))] = p
		return nil
	})

	js, _ := json.MarshalIndent(map[string]interface{}{"Replace": replace}, "", " ")
	write("overlay.json", js)
	fmt.Printf("genoverlay: %d entries -> %s\n", len(replace), filepath.Join(*out, "overlay.json"))
}

func rewrite(path string, src []byte, pkg string, sleeps bool) ([]byte, bool, error) {
	fset := token.NewFileSet()
	f, err := parser.ParseFile(fset, path, src, parser.ParseComments)
	if err != nil {
		return nil, false, err
	}
	timeName := ""
	for _, im := range f.Imports {
		if p, _ := strconv.Unquote(im.Path.Value); p == "time" {
			timeName = "time"
			if im.Name != nil {
				timeName = im.Name.Name
			}
		}
	}
	if timeName == "" || timeName == "_" || timeName == "." {
		return nil, false, nil
	}
	changed := false
	isTimeSel := func(e ast.Expr, names ...string) (*ast.SelectorExpr, bool) {
		s, ok := e.(*ast.SelectorExpr)
		if !ok {
			return nil, false
		}
		id, ok := s.X.(*ast.Ident)
		if !ok || id.Name != timeName || id.Obj != nil {
			return nil, false
		}
		for _, n := range names {
			if s.Sel.Name == n {
				return s, true
			}
		}
		return nil, false
	}
	ast.Inspect(f, func(n ast.Node) bool {
		switch x := n.(type) {
		case *ast.CallExpr:
			if sleeps {
				if s, ok := isTimeSel(x.Fun, "Sleep"); ok && len(x.Args) == 1 {
					s.X.(*ast.Ident).Name = "vclock"
					x.Args = []ast.Expr{&ast.BasicLit{Kind: token.STRING, Value: strconv.Quote(pkg)}, x.Args[0]}
					changed = true
					return true
				}
			}
		case *ast.SelectorExpr:
			if s, ok := isTimeSel(x, "Now", "Since"); ok {
				s.X.(*ast.Ident).Name = "vclock"
				changed = true
			}
		}
		return true
	})
	if !changed {
		return nil, false, nil
	}
	// does anything still use the time package?
	stillUsed := false
	ast.Inspect(f, func(n ast.Node) bool {
		if s, ok := n.(*ast.SelectorExpr); ok {
			if id, ok := s.X.(*ast.Ident); ok && id.Name == timeName && id.Obj == nil {
				stillUsed = true
			}
		}
		return true
	})
	// add the vclock import (and drop "time" if now unused) by editing the first import decl
	for _, d := range f.Decls {
		gd, ok := d.(*ast.GenDecl)
		if !ok || gd.Tok != token.IMPORT {
			continue
		}
		var specs []ast.Spec
		for _, s := range gd.Specs {
			is := s.(*ast.ImportSpec)
			if p, _ := strconv.Unquote(is.Path.Value); p == "time" && !stillUsed {
				continue
			}
			specs = append(specs, s)
		}
		specs = append(specs, &ast.ImportSpec{Path: &ast.BasicLit{Kind: token.STRING, Value: strconv.Quote(vclockImport)}})
		gd.Specs = specs
		if !gd.Lparen.IsValid() {
			gd.Lparen = gd.Pos()
			gd.Rparen = gd.End()
		}
		break
	}
	var buf bytes.Buffer
	if err := format.Node(&buf, fset, f); err != nil {
		return nil, false, err
	}
	return buf.Bytes(), true, nil
}

module genoverlay

go 1.23

#!/usr/bin/env python3
"""Stores the confirmed seeded changes under /verif/seeded/<ID>-<mN>/ (patch.diff, demonstration, notes, meta.json).

Source: the deliverables of the seeding sub-agents under /tmp/seedout/<ID>/<mN> (SEEDSRC overrides). The table below is
what I confirmed myself in scratch worktrees of /repo (tools/seeddemo.sh: demonstration fails with / passes without the
patch; tools/seedeval.sh: the pinned 262-test suite with the patch, then the property's quick check against the patched
worktree through VERIF_REPO). Nothing here is ever applied to /repo.
"""
import json, os, shutil, sys, glob

SRC = os.environ.get("SEEDSRC", "/tmp/seedout")
DST = "/verif/seeded"

# id -> (needs, first result of the quick check, what was strengthened (or ""), checks that catch it now)
T = {
 "C01-m1": ("a fork switch during the ceremony that reverts a block with answers, no further answers tx, then a restart mid-ceremony",
            "missed (histories of C01 used a scripted epoch function)",
            "C01 now also runs the real-ceremony reset/restart evaluation of package c17 (TestResetThenRestart, TestEpochReproducible)",
            ["C01 quick (TestResetThenRestart, TestEpochReproducible)", "C17 quick"]),
 "C01-m2": ("a fork on which the number of validated identities changes, validated by a node whose head is on the other branch",
            "missed (C01 applied blocks only on top of the node's own head)",
            "C01 now also runs the fork adoption histories of package c08 (reference node compare)",
            ["C01 quick (TestForkAdoption)", "C08 quick"]),
 "C02-m1": ("a stake replenishment of a committee member in the proposed block", "caught", "", ["C02 quick"]),
 "C02-m2": ("epoch >= 1, long session, two VRF-proved long-answer txs of one sender reaching the proposer out of order as separate decoded objects, the first mined by another node",
            "missed (also after wire copies / later epochs / lossy gossip were added to the histories)",
            "new TestCeremonyPoolsDiverge: world driven to a drawn (epoch, ceremony period), groups of same-kind ceremony txs per sender delivered per node in drawn order with losses",
            ["C02 quick (TestCeremonyPoolsDiverge)"]),
 "C03-m1": ("a block timestamp near the int64 limits (difference wraps)", "missed",
            "hostile timestamp operators added to the tamper enumeration (min/max int64 and neighbours)", ["C03 quick"]),
 "C03-m2": ("a non-empty body cid on a block whose body is empty / body swapped", "caught", "", ["C03 quick"]),
 "C04-m1": ("a contract Send whose destination is the contract itself", "missed (no contract ever paid itself)",
            "C15 generator: contract's own address in address arguments; C04 runs the C15 programs as its contract leg (ledger conservation)",
            ["C04 quick (TestContractProgramsV12)", "C15 quick"]),
 "C04-m2": ("two txs of one sender in one block: a draining SendTx, then a contract tx that burns gas with a budget between real cost and max cost",
            "missed (one contract tx per block)", "C15 generator: draining same-sender prefix in multi-tx blocks; referenced from C04",
            ["C04 quick (TestContractProgramsV12)", "C15 quick"]),
 "C05-m1": ("three txs in one block: contract pays D, plain send credits D, any later successful embedded call", "missed (one contract tx per block)",
            "C15 generator: blocks with a drawn prefix of 1-3 txs, tx under test last, reference = prefix-only block; referenced from C05",
            ["C05 quick (TestContractProgramsV12)", "C15 quick"]),
 "C05-m2": ("a tx object re-signed by another key (cached sender survives)", "caught (after TestSignerIsWhoSignedLast was added in the same round)", "", ["C05 quick"]),
 "C06-m1": ("a tx signed for the next epoch inside a crafted block body", "caught (crafted out-of-sequence / other-epoch bodies)", "", ["C06 quick"]),
 "C06-m2": ("a first tx with nonce > 1 / nonce gap inside a crafted body", "caught", "", ["C06 quick"]),
 "C07-m1": ("one pubkey-to-address cache shared across certificates (fast sync), signatures of an earlier certificate re-used for another block", "caught", "", ["C07 quick"]),
 "C07-m2": ("a discriminated pool owner drawn into the committee without its delegators (> 8 validators)", "caught", "", ["C07 quick"]),
 "C08-m1": ("a fork certified by identities that are validators only in the node's live identity state", "caught", "", ["C08 quick"]),
 "C08-m2": ("adoption of a fork across an identity-update block", "caught", "", ["C08 quick"]),
 "C09-m1": ("a crash inside ResetTo (fork switch) between the state-tree truncation and the head rewrite", "caught", "", ["C09 quick"]),
 "C09-m2": ("a crash at the final batch write of the fast-sync switch with the snapshot > 101 blocks above the old head", "missed (generated gaps were 6-16 blocks)",
            "new TestCrashDuringFastSyncLongGap (histories of 106-124 blocks)", ["C09 quick (TestCrashDuringFastSyncLongGap)"]),
 "C10-m1": ("a pool whose owner is not validated going offline (deleted diff entry of a non-validated address)", "caught", "", ["C10 quick"]),
 "C10-m2": ("a pending online switch of an identity killed in the same block", "caught", "", ["C10 quick"]),
 "C11-m1": ("damage to the tar framing (header / trailer byte, cut inside a header) of an archive with more than one member, behind the first 10000 imported nodes",
            "missed (generated states had < 100 nodes)", "new TestLargeSnapshotCorruption: fixed 11000-account fixture, structure-aware damage", ["C11 quick (TestLargeSnapshotCorruption)"]),
 "C11-m2": ("a reorganisation over an EMPTY block that carried an identity diff", "caught", "", ["C11 quick"]),
 "C13-m1": ("reading the read-only view of the previous head after the next block changed the validator set", "missed",
            "views test now re-reads Readonly(h-1) after block h was committed and compares it with what was committed at h-1", ["C13 quick"]),
 "C13-m2": ("reads between staging a key in a batch and writing the batch", "caught", "", ["C13 quick"]),
 "C16-m1": (">= 2 shards, the shard visited second with > 7 authors", "caught", "", ["C16 quick"]),
 "C16-m2": ("a recipient without a parsable public key (genesis identity) followed by further recipients in the author's list", "missed (every generated candidate had a key)",
            "TestKeyDelivery draws key-less candidates (none / one / few / all)", ["C16 quick (TestKeyDelivery)"]),
 "C17-m1": ("as C01-m1", "caught (reset/restart variant added in the same round)", "", ["C17 quick", "C01 quick"]),
 "C18-m1": ("an identity with >= 2 distinct invitees", "caught", "", ["C18 quick"]),
 "C18-m2": ("a vote with Upgrade != 0", "caught", "", ["C18 quick"]),
 "C19-m1": ("an unkeyed <ns>_unsubscribe on a pub-sub connection with an active subscription", "caught", "", ["C19 quick"]),
 "C19-m2": ("a configured api key spelled like a JSON scalar, sent as a bare literal", "caught", "", ["C19 quick"]),
 "C20-m1": ("item stored between the emission of a fallback request and the registration of its pull (or a holder that never calls RemovePull, as the tx pool)",
            "missed (arrivals only between whole manager steps, DefaultHolder only)",
            "stepped schedule draws in-flight arrivals (hook between makeRequest and RegisterPull) and a pool-like holder", ["C20 quick (TestSteppedSchedule)"]),
 "C20-m2": ("several peers announcing one unknown hash concurrently", "caught", "", ["C20 quick (TestConcurrentRealClock)"]),
}
T.update(json.load(open(os.path.join(os.path.dirname(__file__), "seedstore_extra.json"))) if os.path.exists(os.path.join(os.path.dirname(__file__), "seedstore_extra.json")) else {})


def main():
    os.makedirs(DST, exist_ok=True)
    for key, (needs, first, strengthened, caught_by) in sorted(T.items()):
        pid, m = key.split("-")
        src = os.path.join(SRC, pid, m)
        dst = os.path.join(DST, key)
        if not os.path.exists(os.path.join(src, "patch.diff")):
            if not os.path.exists(os.path.join(dst, "patch.diff")):
                print("skip", key, "(no source)")
                continue
        else:
            os.makedirs(dst, exist_ok=True)
            for f in glob.glob(os.path.join(src, "*")):
                b = os.path.basename(f)
                if b == "patch.diff" or b.endswith("_test.go") or b in ("run.txt", "notes.md"):
                    shutil.copy(f, os.path.join(dst, b))
        title = ""
        np = os.path.join(dst, "notes.md")
        if os.path.exists(np):
            title = open(np).readline().lstrip("# ").strip()
        meta = {
            "property": pid, "id": key, "title": title,
            "needs_to_manifest": needs,
            "what_i_ran": [
                "tools/seeddemo.sh %s %s  -> demonstration FAILS with the patch, PASSES without it (scratch worktree of /repo HEAD)" % (pid, m),
                "tools/seedeval.sh %s %s  -> pinned suite with the patch: 262 pass / 0 fail; then VERIF_REPO=<patched worktree> ./run %s quick" % (pid, m, pid),
            ],
            "quick_check_first_result": first,
            "strengthening": strengthened,
            "caught_by": caught_by,
            "demo_files": "the *_test.go file(s) here; place as run.txt says (tools/seeddemo.sh does it in a scratch worktree)",
        }
        json.dump(meta, open(os.path.join(dst, "meta.json"), "w"), indent=1)
        print("stored", key)


if __name__ == "__main__":
    main()

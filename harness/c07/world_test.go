package c07

// Generated validator sets, the identity state / validators caches built from
// them, and the harness' own model of who sits in the sorted validator list,
// who votes for whom (pools) and who is eligible.

import (
	"bytes"
	"crypto/ecdsa"
	"fmt"
	"math"
	"sort"
	"strings"
	"sync"

	mapset "github.com/deckarep/golang-set"
	"github.com/idena-network/idena-go/blockchain"
	"github.com/idena-network/idena-go/common"
	"github.com/idena-network/idena-go/common/eventbus"
	"github.com/idena-network/idena-go/config"
	"github.com/idena-network/idena-go/core/state"
	"github.com/idena-network/idena-go/core/validators"
	"github.com/idena-network/idena-go/crypto"
	dbm "github.com/tendermint/tm-db"
	"pgregory.net/rapid"

	"verifharness/internal/sim"
)

// ---------------------------------------------------------------- key ring

const ringSize = 509 // prime: every stride walks the whole ring

type ringKey struct {
	key  *ecdsa.PrivateKey
	addr common.Address
}

var (
	ringMu sync.Mutex
	ring   [ringSize]*ringKey
)

func rk(i int) *ringKey {
	ringMu.Lock()
	defer ringMu.Unlock()
	if ring[i] == nil {
		k := sim.DeriveKey(0xC07C07C07, i)
		ring[i] = &ringKey{key: k, addr: crypto.PubkeyToAddress(k.PublicKey)}
	}
	return ring[i]
}

// ---------------------------------------------------------------- spec

// idSpec is one entry of the approved-identities tree. Pool >= 0 makes the
// identity a delegator of Ids[Pool].
type idSpec struct {
	Key       int
	Validated bool
	Online    bool
	Discr     bool
	Pool      int
}

type spec struct {
	Ids       []idSpec
	God       int   // ring index of the god key
	Outsiders []int // ring indexes that appear nowhere in the state
}

func (s *spec) addr(i int) common.Address { return rk(s.Ids[i].Key).addr }

func (s *spec) String() string {
	var sb strings.Builder
	fmt.Fprintf(&sb, "god=%s ids[", rk(s.God).addr.Hex()[:10])
	for i, id := range s.Ids {
		fl := ""
		if id.Validated {
			fl += "V"
		}
		if id.Online {
			fl += "O"
		}
		if id.Discr {
			fl += "D"
		}
		if id.Pool >= 0 {
			fl += fmt.Sprintf(">%d", id.Pool)
		}
		fmt.Fprintf(&sb, "%d:%s:%s ", i, s.addr(i).Hex()[:10], fl)
	}
	sb.WriteString("]")
	return sb.String()
}

// normalize enforces the invariants the block processor maintains on the
// approved-identities tree (see check.json assumptions): a delegator is
// validated and offline and is not itself a pool; only validated identities
// carry the discriminated flag; an address that is not validated is online
// only while it has delegators.
func (s *spec) normalize() {
	isPool := make([]bool, len(s.Ids))
	for i := range s.Ids {
		id := &s.Ids[i]
		if id.Pool >= 0 && (!id.Validated || id.Pool == i || s.Ids[id.Pool].Pool >= 0) {
			id.Pool = -1
		}
	}
	for i := range s.Ids {
		if p := s.Ids[i].Pool; p >= 0 {
			isPool[p] = true
		}
	}
	for i := range s.Ids {
		id := &s.Ids[i]
		if id.Pool >= 0 {
			id.Online = false
		}
		if !id.Validated {
			id.Discr = false
			if !isPool[i] {
				id.Online = false
			}
		}
	}
}

func drawDiscr(t *rapid.T, prof int) bool {
	switch prof {
	case 0:
		return false
	case 1:
		return rapid.IntRange(0, 9).Draw(t, "discr10") == 0
	case 2:
		return rapid.Bool().Draw(t, "discr50")
	case 3:
		return rapid.IntRange(0, 9).Draw(t, "discr90") != 0
	}
	return true
}

var boundaryN = []int{45, 85, 99, 100, 101}
var finalCapN = []int{141, 142, 143, 144, 145}
var bigN = []int{300, 330, 333, 334, 337}

func drawTargetN(t *rapid.T, maxN int) int {
	var n int
	switch c := rapid.IntRange(0, 99).Draw(t, "nClass"); {
	case c < 45:
		n = rapid.IntRange(0, 9).Draw(t, "nSmall")
	case c < 70:
		n = rapid.IntRange(10, 40).Draw(t, "nMid")
	case c < 80:
		n = rapid.SampledFrom(boundaryN).Draw(t, "nBoundary")
	case c < 87:
		n = rapid.SampledFrom(finalCapN).Draw(t, "nFinalCap")
	case c < 93:
		n = rapid.SampledFrom(bigN).Draw(t, "nBig")
	default:
		n = rapid.IntRange(41, 160).Draw(t, "nWide")
	}
	if n > maxN {
		n = maxN
	}
	return n
}

// genSpec draws a validator set. maxN bounds the size of the sorted validator
// list (used by the exhaustive / small-committee tests).
func genSpec(t *rapid.T, maxN int) *spec {
	start := rapid.IntRange(0, ringSize-1).Draw(t, "keyStart")
	stride := rapid.IntRange(1, ringSize-1).Draw(t, "keyStride")
	next := 0
	newKey := func() int {
		k := (start + next*stride) % ringSize
		next++
		if next > ringSize {
			panic("key ring exhausted")
		}
		return k
	}
	s := &spec{}
	target := drawTargetN(t, maxN)
	godOnly := target == 0 || rapid.IntRange(0, 14).Draw(t, "godOnly") == 0
	prof := rapid.SampledFrom([]int{0, 0, 0, 0, 1, 1, 2, 2, 3, 4}).Draw(t, "discrProfile")

	// pools first; they contribute their delegators (and a validated pool
	// address) to the sorted list when the pool address is online
	contributed := 0
	nPools := 0
	if rapid.Bool().Draw(t, "hasPools") {
		nPools = rapid.IntRange(1, 3).Draw(t, "nPools")
	}
	for p := 0; p < nPools; p++ {
		poolIdx := len(s.Ids)
		pool := idSpec{Key: newKey(), Pool: -1}
		pool.Validated = rapid.Bool().Draw(t, "poolValidated")
		pool.Online = !godOnly && rapid.IntRange(0, 4).Draw(t, "poolOnline") != 0
		if pool.Validated {
			pool.Discr = drawDiscr(t, prof)
		}
		s.Ids = append(s.Ids, pool)
		k := rapid.IntRange(1, 5).Draw(t, "nDelegators")
		if rapid.IntRange(0, 9).Draw(t, "bigPool") == 0 {
			k = rapid.IntRange(6, 20).Draw(t, "nDelegatorsBig")
		}
		if maxN < 100 && k > maxN {
			k = maxN
		}
		for d := 0; d < k; d++ {
			s.Ids = append(s.Ids, idSpec{Key: newKey(), Validated: true, Discr: drawDiscr(t, prof), Pool: poolIdx})
		}
		if pool.Online {
			contributed += k
			if pool.Validated {
				contributed++
			}
		}
	}
	if contributed > maxN {
		// too many for a bounded test: switch the last pools off
		for i := len(s.Ids) - 1; i >= 0 && contributed > maxN; i-- {
			if s.Ids[i].Pool < 0 && s.Ids[i].Online {
				cnt := 0
				for j := range s.Ids {
					if s.Ids[j].Pool == i {
						cnt++
					}
				}
				if s.Ids[i].Validated {
					cnt++
				}
				s.Ids[i].Online = false
				contributed -= cnt
			}
		}
	}
	solo := target - contributed
	if solo < 0 || godOnly {
		solo = 0
	}
	for i := 0; i < solo; i++ {
		s.Ids = append(s.Ids, idSpec{Key: newKey(), Validated: true, Online: true, Discr: drawDiscr(t, prof), Pool: -1})
	}
	nOffline := rapid.IntRange(0, 2).Draw(t, "nOffline")
	if godOnly {
		nOffline += rapid.IntRange(0, 5).Draw(t, "nOfflineGodOnly")
	}
	for i := 0; i < nOffline; i++ {
		s.Ids = append(s.Ids, idSpec{Key: newKey(), Validated: true, Online: false, Discr: drawDiscr(t, prof), Pool: -1})
	}
	if godOnly {
		for i := range s.Ids {
			s.Ids[i].Online = false
		}
	}
	s.normalize()
	if len(s.Ids) > 0 && rapid.IntRange(0, 2).Draw(t, "godIsIdentity") == 0 {
		s.God = s.Ids[rapid.IntRange(0, len(s.Ids)-1).Draw(t, "godIdx")].Key
	} else {
		s.God = newKey()
	}
	for i := 0; i < 3; i++ {
		s.Outsiders = append(s.Outsiders, newKey())
	}
	return s
}

// ---------------------------------------------------------------- model

func addrLess(a, b common.Address) bool { return bytes.Compare(a[:], b[:]) < 0 }

func sortAddrs(l []common.Address) []common.Address {
	sort.Slice(l, func(i, j int) bool { return addrLess(l[i], l[j]) })
	return l
}

func setToSorted(s mapset.Set) []common.Address {
	var res []common.Address
	for _, x := range s.ToSlice() {
		res = append(res, x.(common.Address))
	}
	return sortAddrs(res)
}

func addrsString(l []common.Address) string {
	var sb strings.Builder
	for _, a := range l {
		sb.WriteString(a.Hex()[:10])
		sb.WriteByte(' ')
	}
	return sb.String()
}

type model struct {
	s      *spec
	byAddr map[common.Address]int
	isPool []bool
	// listed: members of the online validator list (online validated
	// identities and every delegator of an online pool address)
	listed map[common.Address]bool
	n      int
	online int
}

func newModel(s *spec) *model {
	m := &model{s: s, byAddr: map[common.Address]int{}, isPool: make([]bool, len(s.Ids)), listed: map[common.Address]bool{}}
	for i := range s.Ids {
		m.byAddr[s.addr(i)] = i
		if p := s.Ids[i].Pool; p >= 0 {
			m.isPool[p] = true
		}
	}
	for i, id := range s.Ids {
		if !id.Online {
			continue
		}
		m.online++
		if id.Validated {
			m.listed[s.addr(i)] = true
		}
		if m.isPool[i] {
			for j := range s.Ids {
				if s.Ids[j].Pool == i {
					m.listed[s.addr(j)] = true
				}
			}
		}
	}
	m.n = len(m.listed)
	return m
}

func (m *model) godOnly() bool { return m.online == 0 }

// poolEligible: a pool is eligible while at least one of its members (the pool
// address itself if validated, or any delegator) is validated and not
// discriminated.
func (m *model) poolEligible(pool int) bool {
	if id := m.s.Ids[pool]; id.Validated && !id.Discr {
		return true
	}
	for _, id := range m.s.Ids {
		if id.Pool == pool && id.Validated && !id.Discr {
			return true
		}
	}
	return false
}

// committee derives voters and eligible voters from the drawn members.
func (m *model) committee(original []common.Address) (voters, eligible map[common.Address]bool) {
	voters, eligible = map[common.Address]bool{}, map[common.Address]bool{}
	for _, a := range original {
		i, known := m.byAddr[a]
		if known && m.s.Ids[i].Pool >= 0 {
			p := m.s.Ids[i].Pool
			voters[m.s.addr(p)] = true
			if m.poolEligible(p) {
				eligible[m.s.addr(p)] = true
			}
			continue
		}
		voters[a] = true
		if !known || !m.s.Ids[i].Discr {
			eligible[a] = true
		}
	}
	return
}

// ---------------------------------------------------------------- protocol numbers (reference)

func refCommitteeSize(c *config.ConsensusConf, n int, final bool) int {
	if n <= 8 {
		return n
	}
	pct := c.CommitteePercent
	if final {
		pct = c.FinalCommitteePercent
	}
	size := int(math.Round(float64(n) * pct))
	if size > c.MaxCommitteeSize {
		size = c.MaxCommitteeSize
	}
	return size
}

var smallThreshold = [9]int{1, 1, 2, 2, 3, 3, 4, 4, 5}

func refThreshold(c *config.ConsensusConf, n int, final bool) int {
	if n <= 8 {
		return smallThreshold[n]
	}
	return int(math.Round(float64(refCommitteeSize(c, n, final)) * c.AgreementThreshold))
}

// refRequired is the number of distinct eligible votes a certificate needs:
// the threshold lowered by the share of committee seats that cannot cast an
// eligible vote of their own.
func refRequired(c *config.ConsensusConf, n int, final bool, seats, eligible int) int {
	return refThreshold(c, n, final) - int(math.Round(float64(seats-eligible)*c.AgreementThreshold))
}

// ---------------------------------------------------------------- state + caches

var (
	chainOnce sync.Once
	theCfg    *config.Config
	theChain  *blockchain.Blockchain
)

// chainForConfig returns the process-wide Blockchain object. Certificate
// validation and the committee-size functions read nothing from it but the
// consensus configuration (and Head, which the emission oracle sets).
func chainForConfig() (*blockchain.Blockchain, *config.Config) {
	chainOnce.Do(func() {
		theCfg = &config.Config{
			Network:          0x99,
			Consensus:        blockchain.GetDefaultConsensusConfig(),
			GenesisConf:      &config.GenesisConf{},
			Validation:       &config.ValidationConfig{},
			Blockchain:       &config.BlockchainConfig{},
			OfflineDetection: config.GetDefaultOfflineDetectionConfig(),
			Mempool:          config.GetDefaultMempoolConfig(),
			Sync:             &config.SyncConfig{},
		}
		theChain = blockchain.NewBlockchain(theCfg, dbm.NewMemDB(), nil, nil, nil, nil, eventbus.New(), nil, nil, nil, nil)
	})
	return theChain, theCfg
}

// applySpecDelta makes the identity state reflect `to`, touching only what
// differs from `from` (nil = empty state), through the setters the block
// processor uses.
func applySpecDelta(ids *state.IdentityStateDB, from, to *spec) {
	for i := range to.Ids {
		n := to.Ids[i]
		var o idSpec
		o.Pool = -1
		if from != nil {
			o = from.Ids[i]
		}
		a := to.addr(i)
		if n.Validated != o.Validated {
			ids.SetValidated(a, n.Validated)
		}
		if n.Online != o.Online {
			ids.SetOnline(a, n.Online)
		}
		if n.Discr != o.Discr {
			ids.SetDiscriminated(a, n.Discr)
		}
		if n.Pool != o.Pool {
			if n.Pool >= 0 {
				ids.SetDelegatee(a, to.addr(n.Pool))
			} else {
				ids.RemoveDelegatee(a)
			}
		}
	}
}

func newIdentityState() *state.IdentityStateDB {
	ids, err := state.NewLazyIdentityState(dbm.NewMemDB())
	if err != nil {
		panic(err)
	}
	return ids
}

// loadedCache commits the spec in one go and loads a cache from the tree, as a
// starting node does.
func loadedCache(s *spec) (*state.IdentityStateDB, *validators.ValidatorsCache) {
	ids := newIdentityState()
	applySpecDelta(ids, nil, s)
	if _, _, _, err := ids.Commit(true); err != nil {
		panic(err)
	}
	vc := validators.NewValidatorsCache(ids, rk(s.God).addr)
	vc.Load()
	return ids, vc
}

// replayedCache loads a cache from history[0] and then follows the remaining
// specs block by block through identity-state diffs, as a running node does.
func replayedCache(history []*spec) *validators.ValidatorsCache {
	ids := newIdentityState()
	applySpecDelta(ids, nil, history[0])
	if _, _, _, err := ids.Commit(true); err != nil {
		panic(err)
	}
	vc := validators.NewValidatorsCache(ids, rk(history[0].God).addr)
	vc.Load()
	for i := 1; i < len(history); i++ {
		applySpecDelta(ids, history[i-1], history[i])
		_, _, diff, err := ids.Commit(true)
		if err != nil {
			panic(err)
		}
		vc.UpdateFromIdentityStateDiff(diff)
	}
	return vc
}

// genHistory draws 0..3 earlier versions of the validator set (same
// identities, perturbed flags / delegations, some not yet existing) that
// precede the final one.
func genHistory(t *rapid.T, final *spec) []*spec {
	k := rapid.IntRange(0, 3).Draw(t, "historyLen")
	var pools []int
	for i := range final.Ids {
		if final.Ids[i].Pool >= 0 {
			continue
		}
		pools = append(pools, i)
	}
	res := make([]*spec, 0, k+1)
	for h := 0; h < k; h++ {
		c := &spec{God: final.God, Outsiders: final.Outsiders, Ids: append([]idSpec{}, final.Ids...)}
		if len(c.Ids) > 0 {
			np := rapid.IntRange(0, min(len(c.Ids), 12)).Draw(t, "nPerturbed")
			for j := 0; j < np; j++ {
				i := rapid.IntRange(0, len(c.Ids)-1).Draw(t, "perturbIdx")
				id := &c.Ids[i]
				switch rapid.IntRange(0, 6).Draw(t, "perturbKind") {
				case 0: // not there yet / killed
					*id = idSpec{Key: id.Key, Pool: -1}
				case 1:
					id.Online = !id.Online
				case 2:
					id.Discr = !id.Discr
				case 3:
					id.Validated = !id.Validated
				case 4: // undelegated, maybe mining on its own
					id.Pool = -1
					id.Online = rapid.Bool().Draw(t, "perturbOnline")
				case 5: // delegates to some (other) address
					if len(pools) > 0 {
						id.Pool = rapid.SampledFrom(pools).Draw(t, "perturbPool")
					}
				case 6: // delegates to any address
					id.Pool = rapid.IntRange(0, len(c.Ids)-1).Draw(t, "perturbAnyPool")
				}
			}
		}
		c.normalize()
		res = append(res, c)
	}
	return append(res, final)
}

package c07

import (
	"fmt"
	"testing"

	"github.com/idena-network/idena-go/blockchain/types"
	"github.com/idena-network/idena-go/common"
	"github.com/idena-network/idena-go/crypto"
	"pgregory.net/rapid"

	"verifharness/internal/evid"
)

// allSubsets validates, for one committee, the certificate made of the votes of
// every subset of the committee's voters (eligible or not), and returns how
// many certificates were judged.
func (c *caseCtx) allSubsets(cm *committee, block *types.Header) int {
	voters := mapKeysSorted(cm.voters)
	if len(voters) > 10 {
		c.t.Fatalf("harness: %d voters is too many for subset enumeration", len(voters))
	}
	hdr := c.hdrFor(cm.step, block.Hash())
	votes := make([]*signed, len(voters))
	for i, a := range voters {
		votes[i] = signVote(c.keyOf[a], hdr)
	}
	for mask := 0; mask < 1<<uint(len(voters)); mask++ {
		cc := &certCase{round: c.round, step: cm.step, hash: block.Hash()}
		for i := range voters {
			if mask&(1<<uint(i)) != 0 {
				e := plain(votes[i])
				if !cm.eligible[voters[i]] {
					e.kind = "ineligible-member"
				}
				cc.entries = append(cc.entries, e)
			}
		}
		v := c.judge(fmt.Sprintf("subset %b of voters [%s]", mask, addrsString(voters)), cc, c.prev, block)
		evid.Count("subsets." + v.class + "." + verdictName(v))
	}
	return 1 << uint(len(voters))
}

func fixedSeed(i int) types.Seed {
	var s types.Seed
	copy(s[:], crypto.Keccak256([]byte(fmt.Sprintf("exhaustive-seed-%d", i))))
	return s
}

// TestExhaustiveSmallCommittees — the exhaustive slice. Every validator set of
// n = 0..6 online validated identities without pools, with every pattern of
// discrimination flags (2^n), for steps 1 and Final: every subset of the
// committee's voters (2^n certificates) is validated against the reference.
// A second family adds one pool: s solo identities + one online pool address
// (validated or not) with d delegators, s + d (+1 if the pool address is
// validated) <= 5, every discrimination pattern, every subset of voters.
func TestExhaustiveSmallCommittees(t *testing.T) {
	total, sets := 0, 0
	run := func(sp *spec) {
		sp.normalize()
		for si, step := range []uint8{1, types.Final} {
			c := newCase(t, sp, nil, fixedSeed(si), 7, uint64(si))
			cm := c.committeeFor(step)
			total += c.allSubsets(cm, c.blockA)
		}
		sets++
	}
	key := 0
	nextKey := func() int { key++; return key }
	// family 1: solo identities only
	for n := 0; n <= 6; n++ {
		for mask := 0; mask < 1<<uint(n); mask++ {
			key = 0
			sp := &spec{God: 400, Outsiders: []int{401, 402, 403}}
			for i := 0; i < n; i++ {
				sp.Ids = append(sp.Ids, idSpec{Key: nextKey(), Validated: true, Online: true, Discr: mask&(1<<uint(i)) != 0, Pool: -1})
			}
			run(sp)
			evid.Count("exhaustive.solo-sets")
		}
	}
	// family 2: one pool
	for poolValidated := 0; poolValidated <= 1; poolValidated++ {
		for d := 1; d <= 3; d++ {
			for s := 0; s+d+poolValidated <= 5; s++ {
				members := s + d + poolValidated
				for mask := 0; mask < 1<<uint(members); mask++ {
					key = 0
					bit := 0
					flag := func() bool { b := mask&(1<<uint(bit)) != 0; bit++; return b }
					sp := &spec{God: 400, Outsiders: []int{401, 402, 403}}
					pool := idSpec{Key: nextKey(), Validated: poolValidated == 1, Online: true, Pool: -1}
					if pool.Validated {
						pool.Discr = flag()
					}
					sp.Ids = append(sp.Ids, pool)
					for i := 0; i < d; i++ {
						sp.Ids = append(sp.Ids, idSpec{Key: nextKey(), Validated: true, Discr: flag(), Pool: 0})
					}
					for i := 0; i < s; i++ {
						sp.Ids = append(sp.Ids, idSpec{Key: nextKey(), Validated: true, Online: true, Discr: flag(), Pool: -1})
					}
					run(sp)
					evid.Count("exhaustive.pool-sets")
				}
			}
		}
	}
	evid.EvalN(total)
	evid.Extra("exhaustive.validator-sets", sets)
	evid.Extra("exhaustive.certificates", total)
	t.Logf("exhaustive slice: %d validator sets, %d certificates", sets, total)
}

// TestSmallCommitteeAllSubsets — drawn validator sets (pools, discrimination,
// offline members, god-only) whose sorted validator list has at most 8 members:
// every subset of the committee's voters, for a drawn seed/round/step.
func TestSmallCommitteeAllSubsets(t *testing.T) {
	rapid.Check(t, func(t *rapid.T) {
		sp := genSpec(t, 8)
		c := newCase(t, sp, genHistory(t, sp), drawSeed(t), drawRound(t), rapid.Uint64().Draw(t, "salt"))
		if rapid.IntRange(0, 3).Draw(t, "fastSyncCache") == 0 {
			c.addrCache = map[string]common.Address{}
		}
		step := rapid.SampledFrom(stepChoices).Draw(t, "step")
		cm := c.committeeFor(step)
		c.countWorldClasses(cm)
		block := c.blockA
		if rapid.Bool().Draw(t, "targetEmptyBlock") {
			block = c.blockB
		}
		n := c.allSubsets(cm, block)
		evid.EvalN(n)
		if c.hasPools() || c.hasDiscr() {
			evid.NonTrivial(fmt.Sprintf("subsets|%s|%x|%d|%d", c.key(), c.seed, c.round, step))
			evid.Sample("subsets", fmt.Sprintf("subsets|%s|%x|%d|%d", c.key(), c.seed, c.round, step))
		}
	})
}

// TestCommitteeDeterminism — oracle 4 alone, on many more validator sets and
// (seed, round, step) triples per set than the certificate test affords: the
// cache loaded from the tree, the cache that followed the diffs, and a clone
// return the same committee; its size is the limit; members are online
// validators; voters/eligible voters follow the pool and discrimination rules.
func TestCommitteeDeterminism(t *testing.T) {
	rapid.Check(t, func(t *rapid.T) {
		evid.Eval()
		sp := genSpec(t, 1000)
		history := genHistory(t, sp)
		evid.Count(fmt.Sprintf("determinism.history-len-%d", len(history)-1))
		nTriples := rapid.IntRange(1, 4).Draw(t, "nTriples")
		c := newCase(t, sp, history, drawSeed(t), drawRound(t), 0)
		for i := 0; i < nTriples; i++ {
			if i > 0 {
				c.setTarget(drawSeed(t), drawRound(t), uint64(i))
			}
			for _, step := range []uint8{rapid.SampledFrom(stepChoices).Draw(t, "step"), types.Final} {
				cm := c.committeeFor(step)
				if i == 0 {
					c.countWorldClasses(cm)
				}
				if c.nonTrivial() {
					evid.NonTrivial(fmt.Sprintf("committee|%s|%x|%d|%d", c.key(), c.seed, c.round, step))
					evid.Sample("committee", fmt.Sprintf("committee|%s|%x|%d|%d", c.key(), c.seed, c.round, step))
				}
			}
		}
	})
}

package c07

// C07 — a certificate is accepted iff it holds a quorum of distinct eligible
// committee votes. See check.json for the rule; DESIGN.md "C07" for the plan.

import (
	"fmt"
	"math/big"
	"reflect"
	"sort"
	"strings"
	"testing"
	"time"

	"github.com/idena-network/idena-go/blockchain"
	"github.com/idena-network/idena-go/blockchain/types"
	"github.com/idena-network/idena-go/common"
	"github.com/idena-network/idena-go/common/eventbus"
	"github.com/idena-network/idena-go/common/vclock"
	"github.com/idena-network/idena-go/config"
	"github.com/idena-network/idena-go/consensus"
	"github.com/idena-network/idena-go/core/appstate"
	"github.com/idena-network/idena-go/core/state"
	"github.com/idena-network/idena-go/core/upgrade"
	"github.com/idena-network/idena-go/core/validators"
	"github.com/idena-network/idena-go/crypto"
	"github.com/idena-network/idena-go/pengings"
	"github.com/idena-network/idena-go/stats/collector"
	dbm "github.com/tendermint/tm-db"
	"pgregory.net/rapid"

	"verifharness/internal/evid"
)

func TestMain(m *testing.M) { evid.Main(m) }

type tb interface {
	Fatalf(format string, args ...interface{})
	Helper()
}

// ---------------------------------------------------------------- case context

type committee struct {
	step      uint8
	final     bool
	limit     int
	threshold int
	required  int
	original  []common.Address
	voters    map[common.Address]bool
	eligible  map[common.Address]bool
	order     []common.Address // eligible voters, sorted by address
	nonElig   []common.Address // committee voters that are not eligible, sorted
}

type caseCtx struct {
	t      tb
	sp     *spec
	m      *model
	chain  *blockchain.Blockchain
	cfg    *config.Config
	ids    *state.IdentityStateDB
	vcLoad *validators.ValidatorsCache
	others map[string]*validators.ValidatorsCache // caches built another way; must agree with vcLoad
	seed   types.Seed
	round  uint64
	prev   *types.Header
	blockA *types.Header
	blockB *types.Header
	comm   map[uint8]*committee
	keyOf  map[common.Address]int // address -> ring index, for every key the case knows
	// addrCache != nil: validate the way fast sync does (shared pubkey->address cache)
	addrCache map[string]common.Address
	specKey   string
}

// key is a short digest of the validator set, for case descriptors.
func (c *caseCtx) key() string {
	if c.specKey == "" {
		c.specKey = fmt.Sprintf("%x", crypto.Keccak256([]byte(c.sp.String()))[:12])
	}
	return c.specKey
}

func newCase(t tb, sp *spec, history []*spec, seed types.Seed, round uint64, salt uint64) *caseCtx {
	c := &caseCtx{t: t, sp: sp, m: newModel(sp), keyOf: map[common.Address]int{}, others: map[string]*validators.ValidatorsCache{}}
	c.chain, c.cfg = chainForConfig()
	c.ids, c.vcLoad = loadedCache(sp)
	if history != nil {
		c.others["diffs"] = replayedCache(history)
	}
	c.others["clone"] = c.vcLoad.Clone()
	for i := range sp.Ids {
		c.keyOf[sp.addr(i)] = sp.Ids[i].Key
	}
	c.keyOf[rk(sp.God).addr] = sp.God
	for _, o := range sp.Outsiders {
		c.keyOf[rk(o).addr] = o
	}
	c.setTarget(seed, round, salt)
	return c
}

// setTarget chooses the parent (seed, height round-1) and the two candidate
// blocks of the round the certificates are about.
func (c *caseCtx) setTarget(seed types.Seed, round uint64, salt uint64) {
	c.seed, c.round, c.comm = seed, round, map[uint8]*committee{}
	var ph common.Hash
	ph.SetBytes(crypto.Keccak256([]byte(fmt.Sprintf("parent-%d", salt))))
	c.prev = &types.Header{EmptyBlockHeader: &types.EmptyBlockHeader{ParentHash: ph, Height: round - 1, BlockSeed: seed, Time: 1900000000}}
	if salt%2 == 1 {
		c.prev = &types.Header{ProposedHeader: &types.ProposedHeader{ParentHash: ph, Height: round - 1, BlockSeed: seed, Time: 1900000000, FeePerGas: big.NewInt(10)}}
	}
	c.blockA = &types.Header{ProposedHeader: &types.ProposedHeader{ParentHash: c.prev.Hash(), Height: round, Time: 1900000020, ProposerPubKey: []byte{4, byte(salt)}, FeePerGas: big.NewInt(10)}}
	c.blockB = &types.Header{EmptyBlockHeader: &types.EmptyBlockHeader{ParentHash: c.prev.Hash(), Height: round, Time: 1900000020}}
}

func sameSet(a []common.Address, b []common.Address) bool {
	if len(a) != len(b) {
		return false
	}
	for i := range a {
		if a[i] != b[i] {
			return false
		}
	}
	return true
}

func mapKeysSorted(m map[common.Address]bool) []common.Address {
	res := make([]common.Address, 0, len(m))
	for a := range m {
		res = append(res, a)
	}
	return sortAddrs(res)
}

// committeeFor asks the loaded cache for the committee of (seed, round, step),
// checks it against the harness model and against every cache built another
// way (oracle 4), and derives the number of eligible votes a certificate
// needs (reference).
func (c *caseCtx) committeeFor(step uint8) *committee {
	if cm, ok := c.comm[step]; ok {
		return cm
	}
	t := c.t
	cons := c.cfg.Consensus
	final := step == types.Final
	cm := &committee{step: step, final: final}

	if got := c.vcLoad.ValidatorsSize(); got != c.m.n {
		t.Fatalf("validator list size: cache %d, model %d; %v", got, c.m.n, c.sp)
	}
	if got := c.vcLoad.OnlineSize(); got != c.m.online {
		t.Fatalf("online size: cache %d, model %d; %v", got, c.m.online, c.sp)
	}
	cm.limit = c.chain.GetCommitteeSize(c.vcLoad, final)
	if want := refCommitteeSize(cons, c.m.n, final); cm.limit != want {
		t.Fatalf("committee size for n=%d final=%v: code %d, reference %d", c.m.n, final, cm.limit, want)
	}
	cm.threshold = c.chain.GetCommitteeVotesThreshold(c.vcLoad, final)
	if want := refThreshold(cons, c.m.n, final); cm.threshold != want {
		t.Fatalf("votes threshold for n=%d final=%v: code %d, reference %d", c.m.n, final, cm.threshold, want)
	}
	sv := c.vcLoad.GetOnlineValidators(c.seed, c.round, step, cm.limit)
	if sv == nil {
		t.Fatalf("no committee for n=%d limit=%d; %v", c.m.n, cm.limit, c.sp)
	}
	cm.original = setToSorted(sv.Original)
	codeVoters := setToSorted(sv.Validators)
	codeEligible := setToSorted(sv.ApprovedValidators)

	// same seed + same validator set => same committee, however the cache was built
	again := c.vcLoad.GetOnlineValidators(c.seed, c.round, step, cm.limit)
	check := func(name string, o *validators.StepValidators) {
		if o == nil {
			t.Fatalf("committee determinism: cache %q returns no committee (n=%d limit=%d); %v", name, c.m.n, cm.limit, c.sp)
		}
		if !sameSet(setToSorted(o.Original), cm.original) || !sameSet(setToSorted(o.Validators), codeVoters) || !sameSet(setToSorted(o.ApprovedValidators), codeEligible) {
			t.Fatalf("committee determinism: cache %q differs for seed=%x round=%d step=%d limit=%d\n loaded: members[%s] voters[%s] eligible[%s]\n %s: members[%s] voters[%s] eligible[%s]\n%v",
				name, c.seed[:4], c.round, step, cm.limit, addrsString(cm.original), addrsString(codeVoters), addrsString(codeEligible),
				name, addrsString(setToSorted(o.Original)), addrsString(setToSorted(o.Validators)), addrsString(setToSorted(o.ApprovedValidators)), c.sp)
		}
	}
	check("same cache, second call", again)
	names := make([]string, 0, len(c.others))
	for name := range c.others {
		names = append(names, name)
	}
	sort.Strings(names)
	for _, name := range names {
		vc := c.others[name]
		if vc.ValidatorsSize() != c.m.n || vc.OnlineSize() != c.m.online {
			t.Fatalf("committee determinism: cache %q has %d validators / %d online, loaded cache %d / %d; %v", name, vc.ValidatorsSize(), vc.OnlineSize(), c.m.n, c.m.online, c.sp)
		}
		check(name, vc.GetOnlineValidators(c.seed, c.round, step, c.chain.GetCommitteeSize(vc, final)))
	}

	// model
	if c.m.godOnly() {
		god := rk(c.sp.God).addr
		if len(cm.original) != 1 || cm.original[0] != god {
			t.Fatalf("nobody online: committee must be the god address alone, got [%s]", addrsString(cm.original))
		}
		cm.voters = map[common.Address]bool{god: true}
		cm.eligible = map[common.Address]bool{god: true}
	} else {
		if len(cm.original) != cm.limit {
			t.Fatalf("committee has %d members, limit %d (n=%d)", len(cm.original), cm.limit, c.m.n)
		}
		for _, a := range cm.original {
			if !c.m.listed[a] {
				t.Fatalf("committee member %s is not an online validator; %v", a.Hex(), c.sp)
			}
		}
		cm.voters, cm.eligible = c.m.committee(cm.original)
	}
	if !sameSet(codeVoters, mapKeysSorted(cm.voters)) {
		t.Fatalf("voters of committee [%s]: code [%s], model [%s]; %v", addrsString(cm.original), addrsString(codeVoters), addrsString(mapKeysSorted(cm.voters)), c.sp)
	}
	if !sameSet(codeEligible, mapKeysSorted(cm.eligible)) {
		t.Fatalf("eligible voters of committee [%s]: code [%s], model [%s]; %v", addrsString(cm.original), addrsString(codeEligible), addrsString(mapKeysSorted(cm.eligible)), c.sp)
	}
	cm.required = refRequired(cons, c.m.n, final, len(cm.original), len(cm.eligible))
	cm.order = mapKeysSorted(cm.eligible)
	for _, a := range mapKeysSorted(cm.voters) {
		if !cm.eligible[a] {
			cm.nonElig = append(cm.nonElig, a)
		}
	}
	c.comm[step] = cm
	return cm
}

// ---------------------------------------------------------------- votes and certificates

type signed struct {
	ringIdx int
	addr    common.Address
	hdr     types.VoteHeader
	vote    *types.Vote
}

func signVote(ringIdx int, hdr types.VoteHeader) *signed {
	h := hdr
	v := &types.Vote{Header: &h}
	hash := crypto.SignatureHash(v)
	sig, err := crypto.Sign(hash[:], rk(ringIdx).key)
	if err != nil {
		panic(err)
	}
	v.Signature = sig
	return &signed{ringIdx: ringIdx, addr: rk(ringIdx).addr, hdr: hdr, vote: v}
}

type entry struct {
	s           *signed
	sig         []byte
	turnOffline bool
	upgrade     uint32
	raw         bool // sig is not a plain copy of s' signature: classify by recovery
	kind        string
}

func plain(s *signed) entry {
	return entry{s: s, sig: s.vote.Signature, turnOffline: s.hdr.TurnOffline, upgrade: s.hdr.Upgrade, kind: "genuine"}
}

type certCase struct {
	round   uint64
	step    uint8
	hash    common.Hash
	entries []entry
}

func (cc *certCase) with(e ...entry) *certCase {
	n := *cc
	n.entries = append(append([]entry{}, cc.entries...), e...)
	return &n
}

func (cc *certCase) build() *types.BlockCert {
	cert := &types.BlockCert{Round: cc.round, Step: cc.step, VotedHash: cc.hash}
	for _, e := range cc.entries {
		cert.Signatures = append(cert.Signatures, &types.BlockCertSignature{Signature: e.sig, TurnOffline: e.turnOffline, Upgrade: e.upgrade})
	}
	return cert
}

func (cc *certCase) String() string {
	var sb strings.Builder
	fmt.Fprintf(&sb, "cert{round=%d step=%d hash=%x sigs[", cc.round, cc.step, cc.hash[:4])
	for _, e := range cc.entries {
		who := "-"
		if e.s != nil {
			who = e.s.addr.Hex()[:10]
		}
		fmt.Fprintf(&sb, "%s:%s ", e.kind, who)
	}
	sb.WriteString("]}")
	return sb.String()
}

type refResult struct {
	genuine  int  // distinct eligible voters with a valid signature over this block/parent/round/step
	junkFree bool // every signature is such a vote and no voter appears twice
}

// refEval is the reference predicate's counting half. It knows who signed what
// (the harness made the signatures) and only falls back to public-key recovery
// for byte-level manipulated signatures.
func (c *caseCtx) refEval(cc *certCase, prev, block *types.Header) refResult {
	headerOK := cc.round == block.Height() && cc.hash == block.Hash()
	cm := c.committeeFor(cc.step)
	distinct := map[common.Address]bool{}
	res := refResult{junkFree: true}
	for _, e := range cc.entries {
		recon := types.VoteHeader{Round: cc.round, Step: cc.step, ParentHash: prev.Hash(), VotedHash: cc.hash, TurnOffline: e.turnOffline, Upgrade: e.upgrade}
		var signer common.Address
		valid := false
		if e.raw {
			v := types.Vote{Header: &recon, Signature: e.sig}
			if pk, err := v.PubKey(); err == nil {
				if a, err := crypto.PubKeyBytesToAddress(pk); err == nil {
					signer, valid = a, true
				}
			}
		} else {
			signer, valid = e.s.addr, e.s.hdr == recon
		}
		if valid && headerOK && cm.eligible[signer] && !distinct[signer] {
			distinct[signer] = true
		} else {
			res.junkFree = false
		}
	}
	res.genuine = len(distinct)
	return res
}

type verdict struct {
	accepted bool
	err      error
	ref      refResult
	class    string // "a" must accept, "b" must reject, "c" tolerated
}

// judge validates the certificate and applies the reference predicate:
//
//	(a) junk-free and at least `required` distinct eligible votes  => must be accepted
//	(b) fewer than `required` distinct eligible genuine votes      => must be rejected
//	(c) a genuine quorum plus other signatures                     => either verdict
func (c *caseCtx) judge(label string, cc *certCase, prev, block *types.Header) verdict {
	c.t.Helper()
	cert := cc.build()
	cm := c.committeeFor(cc.step)
	err := c.chain.ValidateBlockCert(prev, block, cert, c.vcLoad, c.addrCache)
	v := verdict{accepted: err == nil, err: err, ref: c.refEval(cc, prev, block)}
	switch {
	case v.ref.genuine < cm.required:
		v.class = "b"
		if v.accepted {
			c.t.Fatalf("%s: ACCEPTED without quorum: %d distinct eligible genuine votes, %d required (threshold %d, n=%d, committee %d, eligible %d, step %d)\n%v\n%v",
				label, v.ref.genuine, cm.required, cm.threshold, c.m.n, len(cm.original), len(cm.eligible), cc.step, cc, c.sp)
		}
	case v.ref.junkFree:
		v.class = "a"
		if !v.accepted {
			c.t.Fatalf("%s: REJECTED (%v) a certificate made of %d distinct eligible genuine votes, %d required (threshold %d, n=%d, committee %d, eligible %d, step %d)\n%v\n%v",
				label, err, v.ref.genuine, cm.required, cm.threshold, c.m.n, len(cm.original), len(cm.eligible), cc.step, cc, c.sp)
		}
	default:
		v.class = "c"
	}
	// Visible in the evidence, not judged (see check.json assumptions): with a
	// required number <= 0 a certificate without a single genuine vote passes.
	if v.accepted && v.ref.genuine == 0 {
		if len(cc.entries) == 0 {
			evid.Count("observation.accepted-with-no-signatures(required<=0)")
		} else {
			evid.Count("observation.accepted-with-only-junk-signatures(required<=0)")
		}
	}
	return v
}

func verdictName(v verdict) string {
	if v.accepted {
		return "accept"
	}
	return "reject"
}

// ---------------------------------------------------------------- generators

var stepChoices = []uint8{1, 1, 2, 3, 4, 7, types.ReductionOne, types.ReductionTwo, types.Final, types.Final, types.Final}

func drawSeed(t *rapid.T) types.Seed {
	var s types.Seed
	copy(s[:], crypto.Keccak256([]byte(fmt.Sprintf("seed-%d", rapid.Uint64().Draw(t, "seed")))))
	return s
}

func drawRound(t *rapid.T) uint64 {
	if rapid.Bool().Draw(t, "smallRound") {
		return uint64(rapid.IntRange(1, 40).Draw(t, "round"))
	}
	return rapid.Uint64Range(41, 1<<40).Draw(t, "roundBig")
}

// drawOrder returns the eligible voters in a drawn order (rotation by a stride
// coprime to the length, optionally reversed).
func drawOrder(t *rapid.T, l []common.Address) []common.Address {
	m := len(l)
	if m <= 1 {
		return append([]common.Address{}, l...)
	}
	start := rapid.IntRange(0, m-1).Draw(t, "orderStart")
	stride := rapid.IntRange(1, m).Draw(t, "orderStride")
	for gcd(stride, m) != 1 {
		stride++
	}
	res := make([]common.Address, m)
	for i := range res {
		res[i] = l[(start+i*stride)%m]
	}
	return res
}

func gcd(a, b int) int {
	for b != 0 {
		a, b = b, a%b
	}
	return a
}

func nBucket(n int) string {
	switch {
	case n == 0:
		return "n.0"
	case n <= 8:
		return "n.1-8"
	case n <= 40:
		return "n.9-40"
	case n <= 150:
		return "n.41-150"
	}
	return "n.151+"
}

func stepClass(step uint8) string {
	switch step {
	case types.Final:
		return "step.final"
	case types.ReductionOne, types.ReductionTwo:
		return "step.reduction"
	}
	return "step.ba"
}

func (c *caseCtx) hasPools() bool {
	for _, p := range c.m.isPool {
		if p {
			return true
		}
	}
	return false
}

func (c *caseCtx) hasDiscr() bool {
	for _, id := range c.sp.Ids {
		if id.Discr {
			return true
		}
	}
	return false
}

func (c *caseCtx) countWorldClasses(cm *committee) {
	evid.Count(nBucket(c.m.n))
	if c.hasPools() {
		evid.Count("pools.present")
		for i, p := range c.m.isPool {
			if !p {
				continue
			}
			id := c.sp.Ids[i]
			if id.Validated {
				evid.Count("pool.address.validated")
			} else {
				evid.Count("pool.address.not-validated")
			}
			if !id.Online {
				evid.Count("pool.offline")
			}
		}
	} else {
		evid.Count("pools.none")
	}
	if c.hasDiscr() {
		evid.Count("discriminated.present")
	} else {
		evid.Count("discriminated.none")
	}
	if c.m.godOnly() {
		evid.Count("mode.god-only")
	} else {
		evid.Count("mode.normal")
	}
	evid.Count(stepClass(cm.step))
	switch {
	case c.m.godOnly():
		evid.Count("committee.god")
	case cm.limit == c.m.n:
		evid.Count("committee.everybody")
	case cm.limit == c.cfg.Consensus.MaxCommitteeSize:
		evid.Count("committee.capped")
	default:
		evid.Count("committee.sampled")
	}
	if len(cm.voters) < len(cm.original) {
		evid.Count("committee.pool-collapsed")
	}
	if len(cm.nonElig) > 0 {
		evid.Count("committee.has-ineligible-voter")
	}
	switch {
	case cm.required <= 0:
		evid.Count("required.nonpositive")
	case cm.required > len(cm.eligible):
		evid.Count("required.unreachable")
	default:
		evid.Count("required.positive")
	}
}

func (c *caseCtx) nonTrivial() bool {
	return c.m.n > 8 || c.hasPools() || c.hasDiscr()
}

// hdrFor is the header an honest committee member signs for block `hash`.
func (c *caseCtx) hdrFor(step uint8, hash common.Hash) types.VoteHeader {
	return types.VoteHeader{Round: c.round, Step: step, ParentHash: c.prev.Hash(), VotedHash: hash}
}

func corruptSig(t *rapid.T, sig []byte) []byte {
	b := append([]byte{}, sig...)
	switch rapid.IntRange(0, 6).Draw(t, "corruptKind") {
	case 0:
		b[rapid.IntRange(0, 31).Draw(t, "byteR")] ^= byte(rapid.IntRange(1, 255).Draw(t, "xor"))
	case 1:
		b[rapid.IntRange(32, 63).Draw(t, "byteS")] ^= byte(rapid.IntRange(1, 255).Draw(t, "xor"))
	case 2:
		b[64] ^= 1
	case 3:
		b[64] = byte(rapid.IntRange(4, 255).Draw(t, "badV"))
	case 4:
		b = b[:rapid.IntRange(0, 64).Draw(t, "truncate")]
	case 5:
		b = make([]byte, 65)
	case 6:
		b = append(b, 0)
	}
	return b
}

var secpN, _ = new(big.Int).SetString("fffffffffffffffffffffffffffffffebaaedce6af48a03bbfd25e8cd0364141", 16)

// malleate returns the other valid encoding (r, N-s, v^1) of an ECDSA signature.
func malleate(sig []byte) []byte {
	b := append([]byte{}, sig...)
	s := new(big.Int).SetBytes(b[32:64])
	s.Sub(secpN, s)
	sb := s.Bytes()
	for i := 32; i < 64; i++ {
		b[i] = 0
	}
	copy(b[64-len(sb):64], sb)
	b[64] ^= 1
	return b
}

var junkKinds = []string{
	"dup-exact", "equivocation", "malleated", "outsider", "non-committee", "ineligible-member", "delegator-key",
	"offline-identity", "sig-other-round", "sig-other-parent", "sig-other-hash", "sig-other-step", "flag-mismatch",
	"corrupted", "cert-other-round", "cert-other-hash", "other-prev", "cert-other-step",
}

// junkEntries builds signatures that must not count for a certificate of
// (step, hash): returns nil when the kind has no instance in this world.
// `fresh` are eligible voters not yet used in the base certificate.
func (c *caseCtx) junkEntries(t *rapid.T, kind string, cm *committee, base *certCase, fresh []common.Address, want int) []entry {
	hdr := c.hdrFor(base.step, base.hash)
	var res []entry
	add := func(e entry) { e.kind = kind; res = append(res, e) }
	pickFrom := func(l []common.Address) {
		for i := 0; i < want && i < len(l); i++ {
			add(plain(signVote(c.keyOf[l[i]], hdr)))
		}
	}
	switch kind {
	case "dup-exact":
		for i := 0; i < want && len(base.entries) > 0; i++ {
			add(base.entries[i%len(base.entries)])
		}
	case "equivocation":
		for i := 0; i < want && i < len(base.entries); i++ {
			h := base.entries[i].s.hdr
			if i%2 == 0 {
				h.TurnOffline = !h.TurnOffline
			} else {
				h.Upgrade += 1 + uint32(i)
			}
			add(plain(signVote(base.entries[i].s.ringIdx, h)))
		}
	case "malleated":
		for i := 0; i < want && i < len(base.entries); i++ {
			e := base.entries[i]
			e.sig = malleate(e.sig)
			e.raw = true
			add(e)
		}
	case "outsider":
		for i := 0; i < want && i < len(c.sp.Outsiders); i++ {
			add(plain(signVote(c.sp.Outsiders[i], hdr)))
		}
	case "non-committee":
		var l []common.Address
		inComm := map[common.Address]bool{}
		for _, a := range cm.original {
			inComm[a] = true
		}
		for i, id := range c.sp.Ids {
			a := c.sp.addr(i)
			if id.Online && id.Validated && !inComm[a] && !cm.voters[a] {
				l = append(l, a)
			}
		}
		pickFrom(l)
	case "ineligible-member":
		pickFrom(cm.nonElig)
	case "delegator-key":
		var l []common.Address
		for _, a := range cm.original {
			if i, ok := c.m.byAddr[a]; ok && c.sp.Ids[i].Pool >= 0 {
				l = append(l, a)
			}
		}
		pickFrom(l)
	case "offline-identity":
		var l []common.Address
		for i, id := range c.sp.Ids {
			if !id.Online && id.Validated && id.Pool < 0 && !cm.voters[c.sp.addr(i)] {
				l = append(l, c.sp.addr(i))
			}
		}
		pickFrom(l)
	case "sig-other-round", "sig-other-parent", "sig-other-hash", "sig-other-step":
		for i := 0; i < want && i < len(fresh); i++ {
			h := hdr
			switch kind {
			case "sig-other-round":
				if rapid.Bool().Draw(t, "roundUp") || h.Round == 0 {
					h.Round++
				} else {
					h.Round--
				}
			case "sig-other-parent":
				h.ParentHash[rapid.IntRange(0, 31).Draw(t, "parentByte")] ^= 0x40
			case "sig-other-hash":
				if h.VotedHash == c.blockA.Hash() {
					h.VotedHash = c.blockB.Hash()
				} else {
					h.VotedHash = c.blockA.Hash()
				}
			case "sig-other-step":
				h.Step = otherStep(t, h.Step)
			}
			e := plain(signVote(c.keyOf[fresh[i]], h))
			add(e)
		}
	case "flag-mismatch":
		for i := 0; i < want && i < len(fresh); i++ {
			e := plain(signVote(c.keyOf[fresh[i]], hdr))
			if i%2 == 0 {
				e.turnOffline = !e.turnOffline
			} else {
				e.upgrade ^= 1 << uint(rapid.IntRange(0, 31).Draw(t, "upgradeBit"))
			}
			add(e)
		}
	case "corrupted":
		for i := 0; i < want && i < len(fresh); i++ {
			e := plain(signVote(c.keyOf[fresh[i]], hdr))
			e.sig = corruptSig(t, e.sig)
			e.raw = true
			add(e)
		}
	}
	return res
}

func otherStep(t *rapid.T, step uint8) uint8 {
	for {
		s := rapid.SampledFrom(stepChoices).Draw(t, "otherStep")
		if s != step {
			return s
		}
	}
}

// ---------------------------------------------------------------- the main property

func TestCertificateQuorum(t *testing.T) {
	rapid.Check(t, func(t *rapid.T) {
		evid.Eval()
		sp := genSpec(t, 1000)
		history := genHistory(t, sp)
		seed := drawSeed(t)
		round := drawRound(t)
		c := newCase(t, sp, history, seed, round, rapid.Uint64().Draw(t, "salt"))
		if rapid.IntRange(0, 3).Draw(t, "fastSyncCache") == 0 {
			c.addrCache = map[string]common.Address{}
			evid.Count("validate.with-address-cache")
		}
		evid.Count(fmt.Sprintf("determinism.history-len-%d", len(history)-1))
		step := rapid.SampledFrom(stepChoices).Draw(t, "step")
		cm := c.committeeFor(step)
		c.countWorldClasses(cm)

		c.certificateOracles(t, cm)
		c.emissionOracle(t, cm)
	})
}

// certificateOracles: oracles 1 (reference predicate, both directions) and 2
// (metamorphic) around the quorum boundary.
func (c *caseCtx) certificateOracles(t *rapid.T, cm *committee) {
	order := drawOrder(t, cm.order)
	m := len(order)
	block := c.blockA
	if rapid.IntRange(0, 3).Draw(t, "targetEmptyBlock") == 0 {
		block = c.blockB
	}
	hdr := c.hdrFor(cm.step, block.Hash())

	// one genuine vote per eligible voter that may be needed
	upTo := min(m, max(cm.required+3, 0))
	flagsProfile := rapid.IntRange(0, 3).Draw(t, "flagsProfile")
	votes := make([]*signed, upTo)
	for i := range votes {
		h := hdr
		if flagsProfile == 1 && i%3 == 0 {
			h.TurnOffline = true
		}
		if flagsProfile >= 2 {
			h.Upgrade = uint32(12 + i%flagsProfile)
		}
		votes[i] = signVote(c.keyOf[order[i]], h)
	}
	prefix := func(k int) *certCase {
		cc := &certCase{round: c.round, step: cm.step, hash: block.Hash()}
		for i := 0; i < k; i++ {
			cc.entries = append(cc.entries, plain(votes[i]))
		}
		return cc
	}

	// what the repository produces from full votes equals what we build by hand
	if upTo > 0 {
		full := types.FullBlockCert{}
		for _, s := range votes {
			full.Votes = append(full.Votes, s.vote)
		}
		if a, b := full.Compress(), prefix(upTo).build(); !reflect.DeepEqual(a, b) {
			t.Fatalf("Compress() of genuine votes differs from the certificate layout assumed by the harness:\n%+v\n%+v", a, b)
		}
	}

	// --- sweep around the boundary: sizes required-2 .. required+2 (plus 0 and all)
	sizes := map[int]bool{}
	for k := cm.required - 2; k <= cm.required+2; k++ {
		if k >= 0 && k <= upTo {
			sizes[k] = true
		}
	}
	sizes[0] = true
	sizes[upTo] = true
	var ks []int
	for k := range sizes {
		ks = append(ks, k)
	}
	sort.Ints(ks)
	accepted := map[int]bool{}
	for _, k := range ks {
		v := c.judge(fmt.Sprintf("junk-free certificate with %d of %d eligible voters", k, m), prefix(k), c.prev, block)
		if v.class == "c" {
			t.Fatalf("harness: junk-free prefix classified as junk: %v", prefix(k))
		}
		accepted[k] = v.accepted
		evid.Count("cert.clean." + verdictName(v))
		if k == cm.required-1 {
			evid.Count("cert.clean.one-below-quorum")
		}
		if k == cm.required && k > 0 {
			evid.Count("cert.clean.exact-quorum")
		}
		if c.nonTrivial() && k >= cm.required-2 && k <= cm.required+2 {
			evid.NonTrivial(fmt.Sprintf("%s|%x|%d|%d|k=%d", c.key(), c.seed, c.round, cm.step, k))
			evid.Sample("certificate", fmt.Sprintf("%s|%x|%d|%d|k=%d", c.key(), c.seed, c.round, cm.step, k))
		}
	}
	// metamorphic, without looking at the reference: once accepted, adding a
	// genuine new eligible vote keeps it accepted ...
	for i := 1; i < len(ks); i++ {
		if accepted[ks[i-1]] && !accepted[ks[i]] {
			t.Fatalf("metamorphic: certificate with %d genuine eligible votes accepted, with %d rejected; %v", ks[i-1], ks[i], c.sp)
		}
	}
	minAcc := -1
	for _, k := range ks {
		if accepted[k] {
			minAcc = k
			break
		}
	}
	if minAcc > 0 && sizes[minAcc-1] {
		// ... inserting it anywhere, not only at the end ...
		if minAcc < upTo {
			pos := rapid.IntRange(0, minAcc).Draw(t, "insertPos")
			cc := prefix(minAcc)
			e := plain(votes[minAcc])
			cc.entries = append(cc.entries[:pos], append([]entry{e}, cc.entries[pos:]...)...)
			if v := c.judge("metamorphic add", cc, c.prev, block); !v.accepted {
				t.Fatalf("metamorphic: adding a genuine eligible vote at position %d turned an accepted certificate into a rejected one (%v); %v", pos, v.err, cc)
			}
			evid.Count("metamorphic.add")
		}
		// ... and removing any single vote from a minimal accepted certificate flips it
		pos := rapid.IntRange(0, minAcc-1).Draw(t, "removePos")
		cc := prefix(minAcc)
		cc.entries = append(cc.entries[:pos], cc.entries[pos+1:]...)
		if v := c.judge("metamorphic remove", cc, c.prev, block); v.accepted {
			t.Fatalf("metamorphic: removing vote %d from a minimal accepted certificate (%d votes) leaves it accepted; %v", pos, minAcc, cc)
		}
		evid.Count("metamorphic.remove")
	}

	// --- junk: try to fill the gap below the quorum with signatures that must not count
	nJunk := rapid.IntRange(1, 3).Draw(t, "nJunkScenarios")
	for j := 0; j < nJunk; j++ {
		kind := rapid.SampledFrom(junkKinds).Draw(t, "junkKind")
		baseK := cm.required - 1
		if rapid.IntRange(0, 3).Draw(t, "junkOnQuorum") == 0 {
			baseK = cm.required
		}
		if rapid.IntRange(0, 5).Draw(t, "junkDeep") == 0 {
			baseK = cm.required - 2
		}
		baseK = max(0, min(baseK, upTo))
		base := prefix(baseK)
		gap := max(1, cm.required-baseK)
		want := gap + rapid.IntRange(0, 1).Draw(t, "junkExtra")
		fresh := order[baseK:]
		var v verdict
		switch kind {
		case "cert-other-round", "cert-other-hash", "cert-other-step", "other-prev":
			v = c.wholeCertJunk(t, kind, cm, order, block)
		default:
			junk := c.junkEntries(t, kind, cm, base, fresh, want)
			if len(junk) == 0 {
				evid.Count("junk." + kind + ".no-instance")
				continue
			}
			cc := base.with(junk...)
			// junk goes to a drawn position, not always to the tail
			if len(cc.entries) > 1 && rapid.Bool().Draw(t, "junkFirst") {
				n := len(junk)
				cc.entries = append(append([]entry{}, cc.entries[len(cc.entries)-n:]...), cc.entries[:len(cc.entries)-n]...)
			}
			v = c.judge("junk "+kind, cc, c.prev, block)
			if c.nonTrivial() {
				evid.NonTrivial(fmt.Sprintf("%s|%x|%d|%d|junk=%s|base=%d|want=%d", c.key(), c.seed, c.round, cm.step, kind, baseK, want))
				evid.Sample("certificate-with-junk", fmt.Sprintf("%s|%x|%d|%d|junk=%s|base=%d|want=%d", c.key(), c.seed, c.round, cm.step, kind, baseK, want))
			}
		}
		evid.Count("junk." + kind + "." + v.class + "." + verdictName(v))
	}
}

// wholeCertJunk: certificates that are internally consistent quorums — but for
// another round, another block, another parent or another step.
func (c *caseCtx) wholeCertJunk(t *rapid.T, kind string, cm *committee, order []common.Address, block *types.Header) verdict {
	k := min(len(order), max(cm.required, 1)+rapid.IntRange(0, 1).Draw(t, "wholeExtra"))
	cc := &certCase{round: c.round, step: cm.step, hash: block.Hash()}
	prev := c.prev
	hdr := c.hdrFor(cm.step, block.Hash())
	signers := order
	switch kind {
	case "cert-other-round":
		if rapid.Bool().Draw(t, "certRoundUp") || cc.round <= 1 {
			cc.round++
		} else {
			cc.round--
		}
		hdr.Round = cc.round
	case "cert-other-hash":
		other := c.blockB
		if block == c.blockB {
			other = c.blockA
		}
		cc.hash = other.Hash()
		hdr.VotedHash = cc.hash
	case "other-prev":
		// votes are genuine for c.prev; the validator is handed another parent with the same seed and height
		if c.prev.EmptyBlockHeader != nil {
			h := *c.prev.EmptyBlockHeader
			h.ParentHash[0] ^= 1
			prev = &types.Header{EmptyBlockHeader: &h}
		} else {
			h := *c.prev.ProposedHeader
			h.ParentHash[0] ^= 1
			prev = &types.Header{ProposedHeader: &h}
		}
	case "cert-other-step":
		// a quorum of this step's committee signs another step; the certificate
		// names that step. Who counts is decided by that step's committee.
		cc.step = otherStep(t, cm.step)
		hdr.Step = cc.step
		if rapid.Bool().Draw(t, "otherStepOwnCommittee") {
			ocm := c.committeeFor(cc.step)
			signers = drawOrder(t, ocm.order)
			k = min(len(signers), max(ocm.required, 1)+rapid.IntRange(-1, 1).Draw(t, "otherStepDelta"))
			k = max(k, 0)
		}
	}
	for i := 0; i < k && i < len(signers); i++ {
		e := plain(signVote(c.keyOf[signers[i]], hdr))
		e.kind = kind
		cc.entries = append(cc.entries, e)
	}
	return c.judge("junk "+kind, cc, prev, block)
}

// ---------------------------------------------------------------- emission (oracle 3)

type fed struct {
	s        *signed
	admitted bool
	kind     string
}

func (c *caseCtx) emissionOracle(t *rapid.T, cm *committee) {
	vclock.Set(time.Unix(1900000100, 0))
	vclock.SetMode("consensus", vclock.Free)
	vclock.SetMode("pengings", vclock.Free)
	defer vclock.Reset()

	bus := eventbus.New()
	app := &appstate.AppState{IdentityState: c.ids, ValidatorsCache: c.vcLoad}
	db := dbm.NewMemDB()
	od := blockchain.NewOfflineDetector(c.cfg, db, app, nil, bus)
	up := upgrade.NewUpgrader(c.cfg, app, db)
	store := pengings.NewVotes(app, bus, od, up)
	store.Initialize(c.prev)
	c.chain.Head = c.prev
	eng := consensus.VerifC07NewVoteCounter(c.chain, c.cfg, app, store, od, collector.NewStatsCollector())

	need := max(cm.required, 1)
	order := drawOrder(t, cm.order)
	m := len(order)
	hA, hB := c.blockA.Hash(), c.blockB.Hash()
	blocks := map[common.Hash]*types.Header{hA: c.blockA, hB: c.blockB}

	var feed []*fed
	add := func(kind string, key int, h types.VoteHeader) *fed {
		f := &fed{s: signVote(key, h), kind: kind}
		feed = append(feed, f)
		return f
	}
	// k eligible voters vote for A ...
	kA := max(0, min(m, need+rapid.IntRange(-2, 2).Draw(t, "votesForA")))
	for i := 0; i < kA; i++ {
		h := c.hdrFor(cm.step, hA)
		h.TurnOffline = i%5 == 4
		add("genuine", c.keyOf[order[i]], h)
	}
	// ... some (possibly the same) vote for B, taken from the end of the order
	kB := 0
	switch rapid.IntRange(0, 5).Draw(t, "votesForB") {
	case 0:
		kB = need - 1
	case 1:
		kB = need
	case 2:
		kB = m
	}
	kB = max(0, min(m, kB))
	for i := 0; i < kB; i++ {
		add("genuine", c.keyOf[order[m-1-i]], c.hdrFor(cm.step, hB))
	}
	// ... and votes that must not help A to a quorum
	rest := order[kA:]
	nj := rapid.IntRange(0, 4).Draw(t, "nFeedJunk")
	for j := 0; j < nj; j++ {
		kind := rapid.SampledFrom([]string{"dup", "equivocation", "ineligible-member", "outsider", "delegator-key", "non-committee",
			"other-step", "other-parent", "next-round", "stale-round", "far-future-round"}).Draw(t, "feedJunkKind")
		h := c.hdrFor(cm.step, hA)
		gap := max(1, need-kA)
		switch kind {
		case "dup":
			if kA > 0 {
				// the same vote again, as a fresh object
				src := feed[rapid.IntRange(0, kA-1).Draw(t, "dupIdx")]
				f := &fed{s: &signed{ringIdx: src.s.ringIdx, addr: src.s.addr, hdr: src.s.hdr, vote: &types.Vote{Header: src.s.vote.Header, Signature: src.s.vote.Signature}}, kind: kind}
				feed = append(feed, f)
			}
		case "equivocation":
			for i := 0; i < gap && i < kA; i++ {
				h2 := feed[i].s.hdr
				h2.TurnOffline = !h2.TurnOffline
				add(kind, feed[i].s.ringIdx, h2)
			}
		case "ineligible-member":
			for i := 0; i < gap && i < len(cm.nonElig); i++ {
				add(kind, c.keyOf[cm.nonElig[i]], h)
			}
		case "outsider":
			for i := 0; i < gap && i < len(c.sp.Outsiders); i++ {
				add(kind, c.sp.Outsiders[i], h)
			}
		case "delegator-key":
			n := 0
			for _, a := range cm.original {
				if i, ok := c.m.byAddr[a]; ok && c.sp.Ids[i].Pool >= 0 && n < gap {
					add(kind, c.keyOf[a], h)
					n++
				}
			}
		case "non-committee":
			n := 0
			inComm := map[common.Address]bool{}
			for _, a := range cm.original {
				inComm[a] = true
			}
			for i, id := range c.sp.Ids {
				a := c.sp.addr(i)
				if id.Online && id.Validated && !inComm[a] && !cm.voters[a] && n < gap {
					add(kind, id.Key, h)
					n++
				}
			}
		case "other-step":
			h.Step = otherStep(t, h.Step)
			for i := 0; i < gap && i < len(rest); i++ {
				add(kind, c.keyOf[rest[i]], h)
			}
		case "other-parent":
			h.ParentHash[3] ^= 0x10
			for i := 0; i < gap && i < len(rest); i++ {
				add(kind, c.keyOf[rest[i]], h)
			}
		case "next-round":
			h.Round++
			for i := 0; i < gap && i < len(rest); i++ {
				add(kind, c.keyOf[rest[i]], h)
			}
		case "stale-round":
			if h.Round > 6 {
				h.Round -= 6
				for i := 0; i < gap && i < len(rest); i++ {
					add(kind, c.keyOf[rest[i]], h)
				}
			}
		case "far-future-round":
			h.Round += 40
			for i := 0; i < gap && i < len(rest); i++ {
				add(kind, c.keyOf[rest[i]], h)
			}
		}
	}
	// arrival order
	if len(feed) > 1 {
		rot := rapid.IntRange(0, len(feed)-1).Draw(t, "feedRotation")
		feed = append(append([]*fed{}, feed[rot:]...), feed[:rot]...)
		if rapid.Bool().Draw(t, "feedReversed") {
			for i, j := 0, len(feed)-1; i < j; i, j = i+1, j-1 {
				feed[i], feed[j] = feed[j], feed[i]
			}
		}
	}

	// Admission itself is not judged: the oracle is conditional on what the
	// pending-votes store admitted (the class counters show what it refused).
	byPtr := map[*types.Vote]*fed{}
	for _, f := range feed {
		f.admitted = store.AddVote(f.s.vote)
		byPtr[f.s.vote] = f
		name := "emission.fed." + f.kind
		if f.kind == "genuine" && f.s.hdr.Round == c.round && cm.eligible[f.s.addr] {
			name = "emission.fed.eligible-current-round"
		}
		if f.admitted {
			evid.Count(name + ".admitted")
		} else {
			evid.Count(name + ".refused")
		}
	}
	// reference: which hashes have a quorum among the admitted votes
	count := map[common.Hash]map[common.Address]bool{}
	for _, f := range feed {
		h := f.s.hdr
		if !f.admitted || h.Round != c.round || h.Step != cm.step || h.ParentHash != c.prev.Hash() || !cm.eligible[f.s.addr] {
			continue
		}
		if count[h.VotedHash] == nil {
			count[h.VotedHash] = map[common.Address]bool{}
		}
		count[h.VotedHash][f.s.addr] = true
	}
	quorum := map[common.Hash]bool{}
	for h, voters := range count {
		if len(voters) >= need {
			quorum[h] = true
		}
	}

	hash, full, err := eng.VerifC07CountVotes(c.round, cm.step, c.prev.Hash(), c.chain.GetCommitteeVotesThreshold(c.vcLoad, cm.final), 1200*time.Millisecond)
	if c.nonTrivial() {
		evid.NonTrivial(fmt.Sprintf("%s|%x|%d|%d|emission kA=%d kB=%d feed=%d", c.key(), c.seed, c.round, cm.step, kA, kB, len(feed)))
		evid.Sample("emission", fmt.Sprintf("%s|%x|%d|%d|emission kA=%d kB=%d feed=%d", c.key(), c.seed, c.round, cm.step, kA, kB, len(feed)))
	}
	if err != nil {
		if len(quorum) > 0 {
			t.Fatalf("emission: a quorum (%d needed) of admitted eligible votes exists for %d block(s) but the vote counter gave up: %v\nvotes for A=%d B=%d; %v",
				need, len(quorum), err, len(count[hA]), len(count[hB]), c.sp)
		}
		evid.Count("emission.none")
		if kA == need-1 {
			evid.Count("emission.none.one-below-quorum")
		}
		return
	}
	evid.Count("emission.emitted")
	if len(quorum) > 1 {
		evid.Count("emission.two-quorums")
	}
	if !quorum[hash] {
		t.Fatalf("emission: certificate emitted for %x without a quorum among admitted votes: %d distinct eligible votes, %d needed (threshold %d, committee %d, eligible %d, n=%d, step %d); %v",
			hash[:4], len(count[hash]), need, cm.threshold, len(cm.original), len(cm.eligible), c.m.n, cm.step, c.sp)
	}
	if full == nil || len(full.Votes) == 0 {
		t.Fatalf("emission: empty certificate returned without error")
	}
	distinct := map[common.Address]bool{}
	for _, v := range full.Votes {
		f := byPtr[v]
		if f == nil {
			t.Fatalf("emission: certificate holds a vote that was never fed")
		}
		h := f.s.hdr
		if !f.admitted || h.Round != c.round || h.Step != cm.step || h.ParentHash != c.prev.Hash() || h.VotedHash != hash {
			t.Fatalf("emission: certificate for %x holds a vote over round=%d step=%d parent=%x hash=%x (admitted=%v, kind %s)", hash[:4], h.Round, h.Step, h.ParentHash[:4], h.VotedHash[:4], f.admitted, f.kind)
		}
		if !cm.eligible[f.s.addr] {
			t.Fatalf("emission: certificate holds a vote of %s who is not an eligible committee member (kind %s); %v", f.s.addr.Hex(), f.kind, c.sp)
		}
		if distinct[f.s.addr] {
			t.Fatalf("emission: certificate holds two votes of %s", f.s.addr.Hex())
		}
		distinct[f.s.addr] = true
	}
	if len(distinct) < cm.required {
		t.Fatalf("emission: certificate holds %d distinct eligible votes, %d required; %v", len(distinct), cm.required, c.sp)
	}
	// and every validator accepts it
	block := blocks[hash]
	cert := full.Compress()
	if err := c.chain.ValidateBlockCert(c.prev, block, cert, c.vcLoad, nil); err != nil {
		t.Fatalf("emission: emitted certificate (%d votes, %d required) is rejected by certificate validation: %v; %v", len(full.Votes), cm.required, err, c.sp)
	}
	if vc := c.others["diffs"]; vc != nil {
		if err := c.chain.ValidateBlockCert(c.prev, block, cert, vc, map[string]common.Address{}); err != nil {
			t.Fatalf("emission: emitted certificate is rejected by a node whose cache followed the diffs: %v; %v", err, c.sp)
		}
	}
	// over the wire
	raw, _ := cert.ToBytes()
	back := new(types.BlockCert)
	if err := back.FromBytes(raw); err != nil {
		t.Fatalf("emission: certificate does not decode: %v", err)
	}
	if err := c.chain.ValidateBlockCert(c.prev, block, back, c.vcLoad, nil); err != nil {
		t.Fatalf("emission: emitted certificate is rejected after an encode/decode round trip: %v", err)
	}
}

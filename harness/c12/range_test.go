package c12

import (
	"fmt"
	"os"
	"sort"
	"strings"
	"testing"
	"time"

	mapset "github.com/deckarep/golang-set"
	"github.com/idena-network/idena-go/blockchain/attachments"
	"github.com/idena-network/idena-go/blockchain/types"
	"github.com/idena-network/idena-go/blockchain/validation"
	"github.com/idena-network/idena-go/common"
	"github.com/idena-network/idena-go/consensus"
	"github.com/idena-network/idena-go/core/state"
	"github.com/idena-network/idena-go/core/state/snapshot"
	"github.com/idena-network/idena-go/keystore"
	"github.com/idena-network/idena-go/log"
	"github.com/idena-network/idena-go/protocol"
	"github.com/idena-network/idena-go/stats/collector"
	"github.com/idena-network/idena-go/subscriptions"
	"pgregory.net/rapid"

	"verifharness/internal/evid"
	"verifharness/internal/sim"
)

// rangeTxTypesBusy keeps the online validator set changing: status toggles dominate.
var rangeTxTypesBusy = []types.TxType{types.OnlineStatusTx, types.OnlineStatusTx, types.OnlineStatusTx, types.OnlineStatusTx, types.OnlineStatusTx, types.SendTx, types.DelegateTx, types.KillTx, types.UndelegateTx, types.InviteTx}

var rangeTxTypes = []types.TxType{types.SendTx, types.SendTx, types.OnlineStatusTx, types.OnlineStatusTx, types.DelegateTx, types.KillTx, types.InviteTx, types.ReplenishStakeTx, types.BurnTx, types.UndelegateTx}

func copyAs(t *rapid.T, w *sim.World, src *sim.Replica, name string, key *sim.Actor) *sim.Replica {
	r := &sim.Replica{W: w, Name: name, Key: key.Key, Addr: key.Addr, DB: sim.CopyDB(src.DB), Ipfs: src.Ipfs, Loc: time.UTC}
	if err := r.Start(); err != nil {
		t.Fatalf("start %s: %v", name, err)
	}
	return r
}

type served struct {
	block *types.Block
	cert  *types.BlockCert
	diff  *state.IdentityStateDiff
}

// extendPeer builds the next honest block on the peer's chain (proposed through a temporary node of an eligible
// actor, or empty), certifies it with real committee votes and inserts it.
func extendPeer(t *rapid.T, w *sim.World, side *sim.Replica, txTypes []types.TxType) served {
	w.Advance(time.Duration(rapid.IntRange(10, 40).Draw(t, "dt")) * time.Second)
	if min := time.Unix(side.Head().Time(), 0).Add(10 * time.Second); w.Now().Before(min) {
		w.SetNow(min)
	}
	var eligible []*sim.Actor
	vc := side.AppState.ValidatorsCache
	for _, a := range w.Actors {
		if vc.IsOnlineIdentity(a.Addr) || side.AppState.State.GodAddress() == a.Addr && vc.OnlineSize() == 0 {
			eligible = append(eligible, a)
		}
	}
	var blk *types.Block
	if len(eligible) > 0 && pick(t, "emptyBlock", 6) != 5 {
		tmp := copyAs(t, w, side, "tmp-proposer", eligible[pick(t, "proposer", len(eligible))])
		for i := pick(t, "nTx", 4); i > 0; i-- {
			tx, _ := w.GenTx(t, tmp, txTypes)
			tmp.Pool.AddExternalTxs(validation.MempoolTx, tx)
		}
		blk = tmp.Propose().Block
	} else {
		blk = side.EmptyBlock()
	}
	cert := w.MakeCert(side, blk, sim.CertValid)
	if err := side.AddBlock(blk); err != nil {
		t.Fatalf("%s refuses its own honest block %s: %v", side.Name, sim.BlockDesc(blk), err)
	}
	return served{blk, cert, side.Chain.GetIdentityDiff(blk.Height())}
}

func rangeDesc(items []*protocol.VerifRangeBlock) string {
	s := ""
	for _, it := range items {
		h, c, d := protocol.VerifC12RangeItem(it)
		s += "{"
		if h == nil {
			s += "header=nil"
		} else {
			s += blockDesc(&types.Block{Header: h, Body: &types.Body{}})
		}
		if c == nil {
			s += " cert=nil"
		} else {
			s += fmt.Sprintf(" cert(step=%d round=%d sigs=%d)", c.Step, c.Round, len(c.Signatures))
		}
		if d == nil {
			s += " diff=nil"
		} else {
			s += " diff["
			for _, v := range d.Values {
				val := "nil"
				if v.Value != nil {
					val = fmt.Sprintf("%x", clip(v.Value, 12))
				}
				s += fmt.Sprintf("(%s del=%v val=%s)", v.Address.Hex()[:8], v.Deleted, val)
			}
			s += "]"
		}
		s += "} "
	}
	return s
}

// TestRanges is the batch / range target: block ranges as a peer serves them
// (honest chain of the peer with real certificates and identity diffs, then
// hostile edits), through the wire encoding and the IsValid gate, into the
// consumers: fork resolver (processBlocks -> ValidateSubChain -> ApplyFork),
// full sync (header + certificate validation, block insertion) and fast sync
// (header + certificate validation, identity-state diff application).
func TestRanges(t *testing.T) {
	rapid.Check(t, func(t *rapid.T) {
		defer func() {
			if r := recover(); r != nil {
				if _, ok := r.(abandon); ok {
					evid.Count("world.abandoned_after_known_finding")
					return
				}
				panic(r)
			}
		}()
		evid.Eval()
		// "busy" worlds: every validated identity goes online at the start and status toggles dominate the traffic, with
		// a status-switch block every second height, so that the ONLINE VALIDATOR SET CHANGES SIZE between the common
		// ancestor / sync start, the blocks of the range and the node's head
		busy := pick(t, "busyValidators", 3) != 2
		txTypes := rangeTxTypes
		if busy {
			txTypes = rangeTxTypesBusy
			evid.Count("range.world.busy_validators")
		}
		h := sim.RunHistory(t, sim.Options{MinActors: 4, MaxActors: 8, Replicas: 1, MaxReplicas: 3, Steps: rapid.IntRange(2, 9).Draw(t, "prefix"), MaxTxPerStep: 4, OnlyTypes: txTypes,
			Params: func(p *sim.Params) {
				p.CeremonyIn = 100000
				if busy {
					p.SwitchRng = 2
				}
				for i := range p.States {
					if i%2 == 1 || busy && i > 0 && i < 5 {
						p.States[i] = state.Verified
						p.Stakes[i] = sim.Dna(int64(10 + i))
						p.Balances[i] = sim.Dna(1000)
					}
				}
			},
			BetweenBlocks: func(h *sim.History) {
				if !busy {
					return
				}
				base := h.W.Replicas[0]
				st := base.ReadState()
				if len(h.Blocks) == 0 {
					// a drawn subset of the validated identities goes online right away
					for _, a := range h.W.Actors {
						if !st.ValidatorsCache.IsValidated(a.Addr) || pick(t, "onlineAtStart", 3) == 2 {
							continue
						}
						tx, err := types.SignTx(&types.Transaction{Type: types.OnlineStatusTx, Epoch: st.State.Epoch(), AccountNonce: base.AppState.NonceCache.GetNonce(a.Addr, st.State.Epoch()) + 1,
							MaxFee: sim.Dna(100), Payload: attachments.CreateOnlineStatusAttachment(true)}, a.Key)
						if err == nil {
							for _, r := range h.W.Replicas {
								r.Pool.AddExternalTxs(validation.MempoolTx, tx)
							}
						}
					}
					return
				}
				// and somebody toggles at (nearly) every step
				for i := pick(t, "nToggles", 3); i > 0; i-- {
					tx, _ := h.W.GenTx(t, base, []types.TxType{types.OnlineStatusTx})
					for _, r := range h.W.Replicas {
						r.Pool.AddExternalTxs(validation.MempoolTx, tx)
					}
				}
			}})
		w := h.W
		base := w.Replicas[0]
		peerSide := copyAs(t, w, base, "peer", w.God)
		common0 := base.Head().Height()
		// shape of the answer: honest, random hostile edits of its elements, or a structural defect of the list
		shape := rapid.SampledFrom([]string{"hostile", "hostile", "hostile", "honest", "gap", "repeated-height", "reversed", "hostile", "honest", "certified-hostile-tip"}).Draw(t, "shape")
		minBlocks := 1
		if shape == "gap" {
			minBlocks = 3
		}
		sizeAtStart := base.AppState.ValidatorsCache.ValidatorsSize()
		evid.Count(fmt.Sprintf("range.online_validators_at_start.%d", sizeAtStart))
		shrinks, grows := false, false
		var chain []served
		for i := rapid.IntRange(minBlocks, 5).Draw(t, "peerBlocks"); i > 0; i-- {
			chain = append(chain, extendPeer(t, w, peerSide, txTypes))
			if n := peerSide.AppState.ValidatorsCache.ValidatorsSize(); n < sizeAtStart && n > 0 {
				shrinks = true
			} else if n > sizeAtStart && sizeAtStart > 0 {
				grows = true
			}
		}
		if shrinks {
			evid.Count("range.validator_set_shrinks_inside_range")
		}
		if grows {
			evid.Count("range.validator_set_grows_inside_range")
		}
		// the message an honest peer would send ...
		r := &protocol.VerifBlockRange{BatchId: 7}
		hasDiff, hasCert := false, false
		for _, s := range chain {
			r.Blocks = append(r.Blocks, protocol.VerifC12NewRangeItem(s.block.Header, s.cert, s.diff))
			hasDiff = hasDiff || !s.diff.Empty()
			hasCert = hasCert || !s.cert.Empty()
		}
		// ... and hostile edits of it
		edit := shape
		switch shape {
		case "hostile":
			hostileRange(t, w, r)
		case "certified-hostile-tip":
			// one more element on top: a header with a hostile edit that the committee of that height CERTIFIED
			// (real votes of the committee members - a colluding quorum; a single peer cannot produce it)
			if tip := certifiedHostileTip(t, w, peerSide); tip != nil {
				r.Blocks = append(r.Blocks, tip.item)
				edit += ":" + tip.label
			}
		case "gap":
			k := 1 + pick(t, "gapAt", len(r.Blocks)-2)
			r.Blocks = append(append([]*protocol.VerifRangeBlock{}, r.Blocks[:k]...), r.Blocks[k+1:]...)
		case "repeated-height":
			k := pick(t, "repeatAt", len(r.Blocks))
			r.Blocks = append(r.Blocks, r.Blocks[k])
		case "reversed":
			for i, j := 0, len(r.Blocks)-1; i < j; i, j = i+1, j-1 {
				r.Blocks[i], r.Blocks[j] = r.Blocks[j], r.Blocks[i]
			}
		}
		evid.Count("range." + strings.SplitN(edit, "(", 2)[0])
		if hasDiff {
			evid.Count("range.with_identity_diff")
		}
		wire := mustBytes(r.ToBytes())
		dec := new(protocol.VerifBlockRange)
		if err := dec.FromBytes(wire); err != nil {
			t.Fatalf("own encoding of a block range does not decode: %v", err)
		}
		in := func() string {
			return fmt.Sprintf("blockRange{%s} (%s, peer chain = common height %d + %d honest blocks) wire=%x", rangeDesc(dec.Blocks), edit, common0, len(chain), clip(wire, 900))
		}
		run := func(entry string, f func()) {
			if verdict(t, guard(entry, in, f), entry, len(wire), in) {
				panic(abandon{})
			}
		}
		var valid bool
		run("blockRange.IsValid", func() { valid = dec.IsValid() })
		if !valid {
			evid.Count("range.gate_rejected")
			return
		}
		evid.Count("range.passed_gate")
		evid.NonTrivial(fmt.Sprintf("range|%s|%s", edit, rangeDesc(dec.Blocks)))
		evid.Sample("range", fmt.Sprintf("range|%s|%s", edit, rangeDesc(dec.Blocks)))

		// consumer 1: the fork resolver (SeekForkedBlocks: header from the wire, body from IPFS, certificate from the wire)
		{
			own := copyAs(t, w, base, "own-fork", w.God)
			// the node's own branch, so that the peer's blocks are a fork
			// (the fork resolver weighs forks that are not longer than the own branch block by block: make that frequent)
			ownLen := pick(t, "ownLen", 4)
			if rapid.Bool().Draw(t, "ownBranchNotShorter") {
				ownLen = len(chain) + pick(t, "ownExtra", 2)
			}
			for i := ownLen; i > 0; i-- {
				w.Advance(15 * time.Second)
				if err := own.AddBlock(own.EmptyBlock()); err != nil {
					t.Fatalf("own empty block: %v", err)
				}
			}
			if live := own.AppState.ValidatorsCache.ValidatorsSize(); sizeAtStart > 0 && live > sizeAtStart {
				evid.Count("range.fork.live_validator_set_larger_than_at_fork_point")
			} else if sizeAtStart > 0 && live < sizeAtStart {
				evid.Count("range.fork.live_validator_set_smaller_than_at_fork_point")
			}
			fs := protocol.NewFullSync(nil, log.New(), own.Chain, own.Ipfs, own.AppState, mapset.NewSet(), 0, collector.NewStatsCollector())
			var bundles []types.BlockBundle
			ok := true
			for _, it := range dec.Blocks {
				hdr, cert, _ := protocol.VerifC12RangeItem(it)
				var blk *types.Block
				var err error
				run("fullSync.GetBlock", func() { blk, err = fs.GetBlock(hdr) })
				if err != nil {
					ok = false // SeekForkedBlocks stops at the first body it cannot load
					break
				}
				bundles = append(bundles, types.BlockBundle{Block: blk, Cert: cert})
			}
			_ = ok
			resolver := consensus.NewForkResolver(nil, nil, own.Chain, collector.NewStatsCollector())
			var err error
			run("ForkResolver.processBlocks", func() { err = resolver.VerifProcessBlocks(bundles) })
			evid.Count("range.reached.ForkResolver.processBlocks")
			if err == nil {
				evid.Count("range.fork_accepted")
				run("ForkResolver.ApplyFork", func() { _, err = resolver.ApplyFork() })
			}
			// Blockchain.ValidateSubChain directly, under processBlocks' own preconditions (non-empty, sorted, sequential)
			seq := len(bundles) > 0
			sorted := append([]types.BlockBundle{}, bundles...)
			sort.SliceStable(sorted, func(i, j int) bool { return sorted[i].Block.Height() < sorted[j].Block.Height() })
			for i := 1; i < len(sorted); i++ {
				if sorted[i].Block.Height() != sorted[i-1].Block.Height()+1 {
					seq = false
				}
			}
			if seq && sorted[0].Block.Height() > 0 {
				own2 := copyAs(t, w, base, "own-subchain", w.God)
				run("Blockchain.ValidateSubChain", func() { err = own2.Chain.ValidateSubChain(sorted[0].Block.Height()-1, sorted) })
				evid.Count("range.reached.ValidateSubChain")
			}
		}

		// consumer 2: full sync (the downloader's applier for short distances), arm by arm as processBatch does
		{
			own := copyAs(t, w, base, "own-full", w.God)
			g := newGossipNode(own)
			pr, _ := g.newPeer("serving-peer") // not registered: BanPeer / requestBatch find nobody to talk to
			fs := protocol.NewFullSync(g.h, log.New(), own.Chain, own.Ipfs, own.AppState, mapset.NewSet(), peerSide.Head().Height(), collector.NewStatsCollector())
			checkState, err := own.AppState.ForCheckWithOverwrite(own.Head().Height())
			if err != nil {
				t.Fatalf("check state: %v", err)
			}
			var deferred []*protocol.VerifRangeBlock
		fullLoop:
			for _, it := range dec.Blocks {
				var err error
				run("fullSync.validateHeader", func() { err = fs.VerifC12ValidateHeader(it, pr) })
				evid.Count("range.reached.fullSync.validateHeader")
				if err != nil {
					break
				}
				fs.VerifC12Defer(it, pr)
				deferred = append(deferred, it)
				_, cert, _ := protocol.VerifC12RangeItem(it)
				if cert.Empty() {
					continue
				}
				// applyDeferredBlocks (without its one-second pause after a refused block)
				for _, d := range deferred {
					hdr, c, _ := protocol.VerifC12RangeItem(d)
					var blk *types.Block
					run("fullSync.GetBlock", func() { blk, err = fs.GetBlock(hdr) })
					if err != nil {
						break fullLoop
					}
					run("Blockchain.AddBlock(sync)", func() { err = own.Chain.AddBlock(blk, checkState, collector.NewStatsCollector()) })
					evid.Count("range.reached.fullSync.AddBlock")
					if err != nil {
						break fullLoop
					}
					evid.Count("range.full_sync_block_inserted")
					if !c.Empty() {
						own.Chain.WriteCertificate(blk.Hash(), c, true)
					}
					run("AppState.FinalizePrecommit", func() { err = checkState.FinalizePrecommit(blk) })
					if err != nil {
						break fullLoop
					}
				}
				deferred = nil
			}
		}

		// consumer 3: fast sync (headers + certificates + identity-state diffs up to a snapshot height)
		{
			own := copyAs(t, w, base, "own-fast", w.God)
			n := newNode(own)
			g := newGossipNode(own)
			pr, _ := g.newPeer("serving-peer")
			tmp := os.Getenv("VERIF_TMP")
			if tmp == "" {
				tmp = os.TempDir()
			}
			ks := keystore.NewKeyStore(tmp+"/ks-fast", keystore.StandardScryptN, keystore.StandardScryptP)
			subs, _ := subscriptions.NewManager(tmp + "/subs-fast")
			manifest := &snapshot.Manifest{Height: peerSide.Head().Height(), Root: peerSide.Head().Root()}
			fs := protocol.NewFastSync(g.h, log.New(), own.Chain, own.Ipfs, own.AppState, mapset.NewSet(), manifest, nil, own.Bus, own.Addr, ks, subs, n.upgrader)
			var err error
			run("fastSync.preConsuming", func() { _, err = fs.VerifC12PreConsuming(own.Head()) })
			if err != nil {
				t.Fatalf("fastSync.preConsuming: %v", err)
			}
			for _, it := range dec.Blocks {
				run("fastSync.validateHeader", func() { err = fs.VerifC12ValidateHeader(it) })
				evid.Count("range.reached.fastSync.validateHeader")
				if err != nil {
					break
				}
				fs.VerifC12Defer(it, pr)
				_, cert, diff := protocol.VerifC12RangeItem(it)
				if cert.Empty() {
					continue
				}
				var from uint64
				run("fastSync.applyDeferredBlocks", func() { from, err = fs.VerifC12ApplyDeferredBlocks() })
				evid.Count("range.reached.fastSync.applyDeferredBlocks")
				if !diff.Empty() {
					evid.Count("range.reached.fastSync.identity_diff_applied")
				}
				_ = from
				if err != nil {
					break
				}
				evid.Count("range.fast_sync_headers_accepted")
			}
			run("fastSync.dropPreliminaries", func() { fs.VerifC12DropPreliminaries() })
		}
		_ = common.Hash{}
	})
}

type hostileTip struct {
	item  *protocol.VerifRangeBlock
	label string
}

// certifiedHostileTip builds the next block on the peer's head with a hostile header edit that leaves the header
// checks of the sync routes intact, and a certificate of the real committee over THAT header.
func certifiedHostileTip(t *rapid.T, w *sim.World, side *sim.Replica) *hostileTip {
	w.Advance(20 * time.Second)
	var eligible []*sim.Actor
	vc := side.AppState.ValidatorsCache
	for _, a := range w.Actors {
		if vc.IsOnlineIdentity(a.Addr) || side.AppState.State.GodAddress() == a.Addr && vc.OnlineSize() == 0 {
			eligible = append(eligible, a)
		}
	}
	if len(eligible) == 0 {
		return nil
	}
	tmp := copyAs(t, w, side, "tmp-tip", eligible[pick(t, "tipProposer", len(eligible))])
	blk := cloneBlock(t, tmp.Propose().Block)
	if blk.Body == nil {
		blk.Body = &types.Body{}
	}
	ph := blk.Header.ProposedHeader
	var label string
	switch pick(t, "tipEdit", 4) {
	case 0, 1:
		label = hostileBloom(t, ph)
	case 2:
		ph.TxReceiptsCid = rapid.SampledFrom([][]byte{{1}, make([]byte, 40), cid1(9)}).Draw(t, "tipReceipts")
		label = "TxReceiptsCid"
	default:
		ph.IpfsHash = rapid.SampledFrom([][]byte{{1}, make([]byte, 40), cid1(9)}).Draw(t, "tipIpfs")
		label = "IpfsHash"
	}
	blk = finishBlock(t, blk, &blockCase{}).block
	cert := w.MakeCert(side, blk, sim.CertValid)
	if cert.Empty() {
		return nil
	}
	evid.Count("range.certified_tip." + strings.SplitN(label, "(", 2)[0])
	return &hostileTip{protocol.VerifC12NewRangeItem(blk.Header, cert, nil), label}
}

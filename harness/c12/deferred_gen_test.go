package c12

// Generators of hostile PAYLOADS of ceremony transactions (evidence maps, short
// and long answers, answer hashes). Every value starts as a well-formed one built
// with the repository's own encoders (common.Bitmap.WriteTo, attachments.*,
// types.NewAnswers) or with the roaring library itself, and is then made hostile.
// Nothing here looks at the code that will read the payload later.

import (
	"bytes"
	"fmt"
	"math"

	"github.com/RoaringBitmap/roaring"
	"github.com/idena-network/idena-go/blockchain/attachments"
	"github.com/idena-network/idena-go/blockchain/types"
	"github.com/idena-network/idena-go/common"
	"pgregory.net/rapid"
)

// pickW draws an index with the given weights (without rapid's bias towards the first and the last alternative).
func pickW(t *rapid.T, label string, weights ...int) int {
	total := 0
	for _, w := range weights {
		total += w
	}
	v := uniform(t, label, 0, total-1)
	for i, w := range weights {
		if v < w {
			return i
		}
		v -= w
	}
	return len(weights) - 1
}

// uniform draws an integer of [lo, hi] without rapid's bias towards small values and bounds
// (used for "truncation at every length").
func uniform(t *rapid.T, label string, lo, hi int) int {
	if hi <= lo {
		return lo
	}
	// rapid's own integer draws prefer small values; a bijective mix (0 stays 0, the shrink target) spreads them evenly
	v := rapid.Uint64().Draw(t, label)
	v ^= v >> 30
	v *= 0xbf58476d1ce4e5b9
	v ^= v >> 27
	v *= 0x94d049bb133111eb
	v ^= v >> 31
	return lo + int(v%uint64(hi-lo+1))
}

const (
	bitmapTagRoaring = byte(0x1) // common.serializeDefault
	bitmapTagBigInt  = byte(0x2) // common.serializeBigInt
)

// bitmapBytes is the repository's own encoding of a set over a universe of n positions.
func bitmapBytes(n int, bits []uint32) []byte {
	bm := common.NewBitmap(uint32(n))
	for _, b := range bits {
		bm.Add(b)
	}
	var buf bytes.Buffer
	bm.WriteTo(&buf)
	return append([]byte(nil), buf.Bytes()...)
}

func roaringBytes(rb *roaring.Bitmap, tag byte) []byte {
	var buf bytes.Buffer
	buf.WriteByte(tag)
	if _, err := rb.WriteTo(&buf); err != nil {
		panic(err)
	}
	return buf.Bytes()
}

// runsBitmap covers [lo, lo+2^k) with run containers (as the library builds and run-optimises it).
func runsBitmap(lo uint64, k int) *roaring.Bitmap {
	rb := roaring.New()
	hi := lo + uint64(1)<<uint(k)
	if hi > 1<<32 {
		hi = 1 << 32
	}
	rb.AddRange(lo, hi)
	rb.RunOptimize()
	return rb
}

// canaryLog2 is the cardinality up to which a tree that expands a received bitmap value by value stays harmless for
// the machine (2^23 values: about half a GiB and a few seconds when expanded into an array and a map). Larger drawn
// cardinalities are preceded by the same shape at 2^20 and 2^23 ("canaries").
const canaryLog2 = 23

type evPayload struct {
	data     []byte
	label    string
	canaries [][]byte // the same hostile shape at harmless cardinalities; evaluated first, directly at the consumer
}

// mixedRoaring is a well-formed bitmap with all three container kinds (array, bitmap, run).
func mixedRoaring(t *rapid.T, label string) *roaring.Bitmap {
	rb := roaring.New()
	for i, cnt := 0, 1+pick(t, label+"ArrayVals", 40); i < cnt; i++ {
		rb.Add(uint32(pick(t, label+"ArrayVal", 1<<16)))
	}
	base := uint64(1+pick(t, label+"BitmapKey", 3)) << 16
	for i := uint64(0); i < 1<<16; i += 2 { // every second value: 32768 values, stays a bitmap container
		rb.Add(uint32(base + i))
	}
	rb.AddRange(uint64(5)<<16+uint64(pick(t, label+"RunLo", 1000)), uint64(5)<<16+uint64(2000+pick(t, label+"RunLen", 60000)))
	if rapid.Bool().Draw(t, label+"RunOptimize") {
		rb.RunOptimize()
	}
	return rb
}

// genEvidence draws the payload of an EvidenceTx for a shard of n candidates. honest is the set the sender would
// truthfully report. limit is the payload limit of the consensus version in force; big says whether a payload of
// more than 64 KiB is still within the budget of the case.
func genEvidence(t *rapid.T, label string, n int, honest []uint32, limit int, big bool) evPayload {
	wellFormed := func() []byte {
		switch pickW(t, label+"Base", 5, 2, 2) {
		case 0:
			return bitmapBytes(n, honest)
		case 1:
			return roaringBytes(mixedRoaring(t, label+"Mixed"), bitmapTagRoaring)
		default:
			// a universe at which the repository's encoder switches between its two serializations
			m := rapid.SampledFrom([]int{1, 2, 7, 8, 9, 63, 64, 65, 127, 128, 129, 1000, 4096, 4097, 65535, 65536, 65537}).Draw(t, label+"BoundaryUniverse")
			var bits []uint32
			switch pick(t, label+"BoundaryFill", 4) {
			case 0:
			case 1:
				bits = []uint32{uint32(m - 1)}
			case 2:
				for i := 0; i < m; i++ {
					bits = append(bits, uint32(i))
				}
			default:
				for i := 0; i < m; i += 1 + pick(t, label+"BoundaryStep", 5) {
					bits = append(bits, uint32(i))
				}
			}
			return bitmapBytes(m, bits)
		}
	}
	clipTo := func(p evPayload) evPayload {
		if len(p.data) > limit {
			// (under the 3 KiB limit of consensus versions 9 and 10 the large shapes do not fit; keep the head: a truncation)
			p.data = p.data[:limit]
			p.label += "+clipped-to-limit"
			p.canaries = nil
		}
		return p
	}
	switch pickW(t, label+"Class", 14, 3, 4, 10, 10, 6, 3, 10, 6, 8, 8, 4, 5) {
	case 0:
		return evPayload{data: bitmapBytes(n, honest), label: "honest"}
	case 1:
		return evPayload{data: nil, label: "empty"}
	case 2:
		return evPayload{data: []byte{byte(rapid.SampledFrom([]int{0, 1, 2, 3, 0x80, 0xff}).Draw(t, label+"Tag"))}, label: "tag-only"}
	case 3:
		b := wellFormed()
		cut := uniform(t, label+"Cut", 1, len(b)-1)
		if cut >= len(b) {
			cut = len(b) - 1
		}
		if cut < 0 {
			cut = 0
		}
		return clipTo(evPayload{data: b[:cut], label: fmt.Sprintf("truncated(%d of %d)", cut, len(b))})
	case 4:
		b, how := mutate(t, wellFormed(), label+"Mutate")
		return clipTo(evPayload{data: b, label: "mutated:" + how})
	case 5:
		// array containers with positions outside the candidate list
		rb := roaring.New()
		for i, cnt := 0, 1+pick(t, label+"OutVals", 6); i < cnt; i++ {
			rb.Add(rapid.SampledFrom([]uint32{uint32(n), uint32(n + 1), uint32(2 * n), 65535, 65536, 65537, 1 << 24, 1 << 31, math.MaxUint32 - 1, math.MaxUint32}).Draw(t, label+"OutVal"))
		}
		for _, b := range honest {
			if rapid.Bool().Draw(t, label+"KeepHonest") {
				rb.Add(b)
			}
		}
		return clipTo(evPayload{data: roaringBytes(rb, bitmapTagRoaring), label: "roaring:out-of-range-values"})
	case 6:
		// bitmap container (more than 4096 values in one chunk), not run-optimised
		rb := roaring.New()
		hi := uint64(4097 + pick(t, label+"BitmapCard", 61439))
		key := uint64(rapid.SampledFrom([]int{0, 0, 1, 0xffff}).Draw(t, label+"BitmapKey")) << 16
		for v := uint64(0); v < hi; v++ {
			if v%3 != 2 {
				rb.Add(uint32(key + v))
			}
		}
		return clipTo(evPayload{data: roaringBytes(rb, bitmapTagRoaring), label: "roaring:bitmap-container"})
	case 7:
		// run containers covering 2^k values
		k := rapid.SampledFrom([]int{4, 12, 16, 17, 20, 22, 23, 24, 26, 28, 31, 32}).Draw(t, label+"RunsLog2")
		if !big && k > 20 {
			k = 20
		}
		lo := uint64(0)
		if k < 32 && rare(t, label+"RunsShifted", 4) {
			lo = uint64(rapid.SampledFrom([]int{1, 65535, 65536, 1 << 20}).Draw(t, label+"RunsLo"))
		}
		p := evPayload{data: roaringBytes(runsBitmap(lo, k), bitmapTagRoaring), label: fmt.Sprintf("roaring:runs[%d,+2^%d)", lo, k)}
		if k > canaryLog2 {
			p.canaries = [][]byte{roaringBytes(runsBitmap(lo, 20), bitmapTagRoaring), roaringBytes(runsBitmap(lo, canaryLog2), bitmapTagRoaring)}
		}
		return clipTo(p)
	case 8:
		// thousands of containers
		cnt := rapid.SampledFrom([]int{100, 1000, 10000, 65535, 65536}).Draw(t, label+"Containers")
		if !big && cnt > 1000 {
			cnt = 1000
		}
		per := 1 + pick(t, label+"PerContainer", 3)
		rb := roaring.New()
		for c := 0; c < cnt; c++ {
			for j := 0; j < per; j++ {
				rb.Add(uint32(c)<<16 | uint32(j*7))
			}
		}
		how := "array"
		if rapid.Bool().Draw(t, label+"ContainersRun") {
			rb.RunOptimize()
			how = "run-optimised"
		}
		return clipTo(evPayload{data: roaringBytes(rb, bitmapTagRoaring), label: fmt.Sprintf("roaring:%d-containers(%s)", cnt, how)})
	case 9:
		// forged counts in the header of a small well-formed roaring serialization: container count, cardinalities,
		// run counts, offsets are 16/32-bit little-endian words in the first bytes
		var rb *roaring.Bitmap
		if rapid.Bool().Draw(t, label+"ForgeMixed") {
			rb = mixedRoaring(t, label+"ForgeBase")
		} else {
			rb = roaring.New()
			for _, b := range honest {
				rb.Add(b)
			}
			rb.Add(uint32(n))
			if rapid.Bool().Draw(t, label+"ForgeRun") {
				rb.AddRange(70000, 70100)
				rb.RunOptimize()
			}
		}
		b := roaringBytes(rb, bitmapTagRoaring)
		head := len(b)
		if head > 40 {
			head = 40
		}
		for i, edits := 0, 1+pick(t, label+"ForgeEdits", 2); i < edits && head > 2; i++ {
			at := 1 + pick(t, label+"ForgeAt", head-2)
			switch pick(t, label+"ForgeWidth", 2) {
			case 0:
				v := rapid.SampledFrom([]uint16{0, 1, 2, 0x0fff, 0x1000, 0x7fff, 0x8000, 0xfffe, 0xffff}).Draw(t, label+"Forge16")
				b[at], b[at+1] = byte(v), byte(v>>8)
			default:
				if at+3 < len(b) {
					v := rapid.SampledFrom([]uint32{0, 1, 0xffff, 0x10000, 0x10001, 0x7fffffff, 0x80000000, 0xffffffff}).Draw(t, label+"Forge32")
					b[at], b[at+1], b[at+2], b[at+3] = byte(v), byte(v>>8), byte(v>>16), byte(v>>24)
				}
			}
		}
		return clipTo(evPayload{data: b, label: "roaring:forged-header"})
	case 10:
		// big-integer serialization
		need := (n + 7) / 8
		var body []byte
		how := ""
		switch pick(t, label+"BigInt", 8) {
		case 0:
			how = "no-body"
		case 1:
			body, how = []byte{byte(pick(t, label+"BigIntByte", 256))}, "one-byte"
		case 2:
			body, how = bytes.Repeat([]byte{0xff}, need), "exact-all-ones"
		case 3:
			body, how = bytes.Repeat([]byte{0xff}, need+1+pick(t, label+"BigIntExtra", 9)), "longer-all-ones"
		case 4:
			body, how = append(make([]byte, 1+pick(t, label+"BigIntZeros", 40)), bytes.Repeat([]byte{0xaa}, need)...), "leading-zeros"
		case 5:
			sz := 4096
			if big {
				sz = rapid.SampledFrom([]int{4096, 65536, 1 << 20, limit - 1}).Draw(t, label+"BigIntHuge")
			}
			body, how = bytes.Repeat([]byte{0xff}, sz), fmt.Sprintf("huge(%d)", sz)
		case 6:
			body, how = junk(t, label+"BigIntJunk", 0, 64), "junk"
		default:
			if need > 1 {
				body, how = bytes.Repeat([]byte{0x55}, need-1), "one-byte-short"
			} else {
				how = "one-byte-short"
			}
		}
		tag := bitmapTagBigInt
		if rare(t, label+"BigIntOtherTag", 4) {
			tag = byte(rapid.SampledFrom([]int{0, 3, 0x7f, 0xff}).Draw(t, label+"BigIntTag"))
			how += fmt.Sprintf("+tag-%#x", tag)
		}
		return clipTo(evPayload{data: append([]byte{tag}, body...), label: "bigint:" + how})
	case 11:
		// one serialization under the tag of the other
		b := wellFormed()
		if len(b) == 0 {
			return evPayload{label: "empty"}
		}
		if b[0] == bitmapTagRoaring {
			b[0] = bitmapTagBigInt
		} else {
			b[0] = bitmapTagRoaring
		}
		return clipTo(evPayload{data: b, label: "swapped-tag"})
	default:
		// a well-formed map of another universe (sender's candidate list of another length)
		m := rapid.SampledFrom([]int{0, 1, n - 1, n + 1, 2 * n, 8*n + 7, 70000}).Draw(t, label+"Universe")
		if m < 0 {
			m = 0
		}
		var bits []uint32
		for i := 0; i < m; i++ {
			if i%2 == 0 || i == m-1 {
				bits = append(bits, uint32(i))
			}
		}
		return clipTo(evPayload{data: bitmapBytes(m, bits), label: fmt.Sprintf("universe-%d-instead-of-%d", m, n)})
	}
}

// answersWith builds answers through the repository's own type for a list of claimed flips.
func answersWith(t *rapid.T, label string, flips int, grades bool) *types.Answers {
	a := types.NewAnswers(uint(flips))
	fill := pick(t, label+"Fill", 4)
	for i := 0; i < flips && i < 5000; i++ {
		switch fill {
		case 0:
			a.Left(uint(i))
		case 1:
			a.Right(uint(i))
		case 2:
			a.Left(uint(i))
			a.Right(uint(i)) // both: not producible by a client, well within the encoding
		default:
			if i%2 == 0 {
				a.Left(uint(i))
			}
		}
		if grades {
			a.Grade(uint(i), types.Grade(1+(i+fill)%5))
		}
	}
	return a
}

// hostileBits draws the answer bit string of a short or long answers attachment for a candidate that has to solve
// `flips` flips; honest is the bit string an honest client would send.
func hostileBits(t *rapid.T, label string, flips int, honest []byte, long bool, limit int, big bool) ([]byte, string) {
	switch pickW(t, label+"Bits", 4, 2, 2, 3, 3, 3, 3, 6, 3, 3) {
	case 0:
		return honest, "honest-bits"
	case 1:
		return nil, "no-bits"
	case 2:
		return []byte{byte(rapid.SampledFrom([]int{0, 1, 0x80, 0xff}).Draw(t, label+"One"))}, "one-byte"
	case 3:
		if len(honest) > 1 {
			if rapid.Bool().Draw(t, label+"CutHigh") {
				return append([]byte(nil), honest[1:]...), "high-byte-cut"
			}
			return append([]byte(nil), honest[:len(honest)-1]...), "low-byte-cut"
		}
		return nil, "no-bits"
	case 4:
		extra := junk(t, label+"Over", 1, 4)
		extra[0] |= 1
		return append(extra, honest...), "bits-beyond-the-list"
	case 5:
		n := len(honest)
		if n == 0 {
			n = 1
		}
		return bytes.Repeat([]byte{0xff}, n*(1+pick(t, label+"OnesTimes", 3))), "all-ones"
	case 6:
		return junk(t, label+"Random", 0, 48), "random-bits"
	case 7:
		// answers for a list of another length (hostile flips count)
		m := rapid.SampledFrom([]int{0, 1, flips - 1, flips + 1, 2 * flips, 3*flips + 1, 255, 256, 1000, 4097, 100000}).Draw(t, label+"Flips")
		if m < 0 {
			m = 0
		}
		if m > 4000 && !big {
			m = 1000
		}
		return answersWith(t, label+"Other", m, long).Bytes(), fmt.Sprintf("answers-for-%d-flips-instead-of-%d", m, flips)
	case 8:
		sz := 2048
		if big {
			sz = rapid.SampledFrom([]int{4096, 65536, 1 << 20, limit - 300}).Draw(t, label+"Huge")
		}
		if sz > limit-300 {
			sz = limit - 300
		}
		return bytes.Repeat([]byte{byte(rapid.SampledFrom([]int{0xff, 0x01, 0x92}).Draw(t, label+"HugeByte"))}, sz), fmt.Sprintf("huge-bits(%d)", sz)
	default:
		if long && flips > 0 {
			// every grade field set to a drawn value, 6 and 7 included (no such grade)
			a := types.NewAnswers(uint(flips))
			g := pick(t, label+"Grade", 8)
			bits := a.Bits
			for i := 0; i < flips; i++ {
				for b := 0; b < 3; b++ {
					if g&(1<<uint(b)) != 0 {
						bits.SetBit(bits, i*3+flips*2+b, 1)
					}
				}
				if i%2 == 0 {
					a.Left(uint(i))
				} else {
					a.Right(uint(i))
				}
			}
			return a.Bytes(), fmt.Sprintf("every-grade-%d", g)
		}
		return flipBits(t, honest, label+"Flip"), "bit-flips"
	}
}

type shortHonest struct {
	bits []byte
	rnd  uint64
}

// genShort draws the payload of a SubmitShortAnswersTx.
func genShort(t *rapid.T, label string, flips int, h shortHonest, limit int, big bool) ([]byte, string) {
	enc := func(bits []byte, rnd uint64, client uint32) []byte {
		// (ClientType travels as uint32 and is cut to a byte by the reader)
		if client <= 255 {
			return attachments.CreateShortAnswerAttachment(bits, rnd, byte(client))
		}
		b := attachments.CreateShortAnswerAttachment(bits, rnd, 0)
		return append(b, 0x18, 0xff, 0xff, 0xff, 0xff, 0x0f) // field 3 (client type) = 2^32-1
	}
	switch pickW(t, label+"Class", 4, 12, 3, 2, 6, 3, 2) {
	case 0:
		return enc(h.bits, h.rnd, 1), "honest"
	case 1:
		bits, how := hostileBits(t, label, flips, h.bits, false, limit, big)
		return enc(bits, h.rnd, 1), how
	case 2:
		rnd := rapid.SampledFrom([]uint64{0, 1, h.rnd + 1, h.rnd ^ (1 << 63), math.MaxUint64}).Draw(t, label+"Rnd")
		return enc(h.bits, rnd, 1), fmt.Sprintf("rnd-%d", rnd)
	case 3:
		c := rapid.SampledFrom([]uint32{0, 2, 255, 256, math.MaxUint32}).Draw(t, label+"Client")
		return enc(h.bits, h.rnd, c), fmt.Sprintf("client-type-%d", c)
	case 4:
		b, how := mutate(t, enc(h.bits, h.rnd, 1), label+"Mutate")
		return b, "mutated:" + how
	case 5:
		// unknown fields after the known ones
		b := enc(h.bits, h.rnd, 1)
		b = append(b, 0x78, 0x01)                      // field 15, varint
		b = append(b, 0x82, 0x01, 0x03, 'a', 'b', 'c') // field 16, bytes
		b = append(b, 0x0a, byte(len(h.bits)))         // field 1 again (last wins)
		return append(b, h.bits...), "unknown-and-repeated-fields"
	default:
		// a well-formed attachment of another kind
		if rapid.Bool().Draw(t, label+"AsLong") {
			b, _ := (&attachments.LongAnswerAttachment{Answers: h.bits, Proof: junk(t, label+"P", 129, 129), Key: junk(t, label+"K", 32, 32), Salt: junk(t, label+"S", 32, 32)}).ToBytes()
			return b, "long-attachment-as-short"
		}
		return bitmapBytes(flips+1, []uint32{0}), "evidence-map-as-short"
	}
}

type longHonest struct {
	bits  []byte
	proof []byte
	key   []byte
	salt  []byte
}

// genLong draws the payload of a SubmitLongAnswersTx. vrf offers hostile VRF proof constants (cryptoconst_test.go).
func genLong(t *rapid.T, label string, flips int, h longHonest, vrf vrfCtx, limit int, big bool) ([]byte, string) {
	enc := func(a longHonest) []byte {
		b, err := (&attachments.LongAnswerAttachment{Answers: a.bits, Proof: a.proof, Key: a.key, Salt: a.salt}).ToBytes()
		if err != nil {
			panic(err)
		}
		return b
	}
	switch pickW(t, label+"Class", 4, 12, 4, 4, 4, 6, 3, 2) {
	case 0:
		return enc(h), "honest"
	case 1:
		bits, how := hostileBits(t, label, flips, h.bits, true, limit, big)
		h.bits = bits
		return enc(h), how
	case 2:
		n := rapid.SampledFrom([]int{0, 1, 31, 32, 33, 64, 65, 1024}).Draw(t, label+"KeyLen")
		if n == 32 {
			h.key = make([]byte, 32) // the zero scalar
		} else {
			h.key = junk(t, label+"Key", n, n)
		}
		return enc(h), fmt.Sprintf("key-of-%d-bytes", n)
	case 3:
		n := rapid.SampledFrom([]int{0, 1, 31, 33, 1024}).Draw(t, label+"SaltLen")
		h.salt = junk(t, label+"Salt", n, n)
		return enc(h), fmt.Sprintf("salt-of-%d-bytes", n)
	case 4:
		switch pick(t, label+"Proof", 3) {
		case 0:
			n := rapid.SampledFrom([]int{0, 1, 64, 128, 129, 130, 1024}).Draw(t, label+"ProofLen")
			h.proof = junk(t, label+"ProofJunk", n, n)
			return enc(h), fmt.Sprintf("proof-junk-of-%d-bytes", n)
		default:
			p, how := hostileVrfProof(t, label+"ProofConst", vrf)
			h.proof = p
			return enc(h), "proof:" + how
		}
	case 5:
		b, how := mutate(t, enc(h), label+"Mutate")
		return b, "mutated:" + how
	case 6:
		return junk(t, label+"Junk", 1, 64), "not-an-attachment"
	default:
		if rapid.Bool().Draw(t, label+"AsShort") {
			return attachments.CreateShortAnswerAttachment(h.bits, 7, 1), "short-attachment-as-long"
		}
		return bitmapBytes(flips+1, []uint32{0}), "evidence-map-as-long"
	}
}

// genHash draws the payload of a SubmitAnswersHashTx.
func genHash(t *rapid.T, label string, honest []byte) ([]byte, string) {
	switch pickW(t, label+"Class", 4, 4, 2, 1, 1, 1) {
	case 0:
		return honest, "honest"
	case 1:
		return junk(t, label+"Random", 32, 32), "random-hash"
	case 2:
		return make([]byte, 32), "zero-hash"
	case 3:
		return junk(t, label+"Short", 31, 31), "31-bytes"
	case 4:
		return junk(t, label+"Long", 33, 33), "33-bytes"
	default:
		return nil, "empty"
	}
}

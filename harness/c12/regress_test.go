package c12

import (
	"bytes"
	"crypto/ecdsa"
	"encoding/binary"
	"encoding/hex"
	"fmt"
	"math/big"
	"math/rand"
	"testing"
	"time"

	mapset "github.com/deckarep/golang-set"
	"github.com/idena-network/idena-go/blockchain"
	"github.com/idena-network/idena-go/blockchain/types"
	"github.com/idena-network/idena-go/common"
	"github.com/idena-network/idena-go/consensus"
	"github.com/idena-network/idena-go/core/state"
	"github.com/idena-network/idena-go/core/state/snapshot"
	"github.com/idena-network/idena-go/crypto"
	"github.com/idena-network/idena-go/crypto/ecies"
	"github.com/idena-network/idena-go/crypto/vrf/p256"
	"github.com/idena-network/idena-go/keystore"
	"github.com/idena-network/idena-go/log"
	"github.com/idena-network/idena-go/protocol"
	"github.com/idena-network/idena-go/stats/collector"
	"github.com/idena-network/idena-go/subscriptions"
	"github.com/klauspost/compress/s2"

	"verifharness/internal/evid"
	"verifharness/internal/sim"
)

// fixedWorld: god a0 plus n-1 further Verified identities with stake and balance, no ceremony in reach.
func fixedWorld(t testing.TB, n int) (*sim.World, *sim.Replica, *sim.Replica) {
	p := sim.Params{KeySeed: 12, NActors: n, Profile: "v12", SwitchRng: 3, DelegRng: 2, DiscrRng: 3, SnapRng: 1000,
		Start: time.Date(2030, 1, 5, 12, 0, 0, 0, time.UTC).Unix(), CeremonyIn: 100000, Interval: 3600, LotteryDur: 30, ShortDur: 30, LongDur: 30}
	for i := 0; i < n; i++ {
		p.States = append(p.States, state.Verified)
		p.Balances = append(p.Balances, sim.Dna(1000))
		p.Stakes = append(p.Stakes, sim.Dna(10))
	}
	w := sim.NewWorld(p)
	a, err := w.AddReplica("A", w.God.Key, nil)
	if err != nil {
		t.Fatal(err)
	}
	b, err := w.AddReplica("B", w.Actors[1].Key, nil)
	if err != nil {
		t.Fatal(err)
	}
	w.Advance(20 * time.Second)
	return w, a, b
}

func reencode(t testing.TB, b *types.Block) *types.Block {
	data, err := b.ToBytes()
	if err != nil {
		t.Fatal(err)
	}
	dec := new(types.Block)
	if err := dec.FromBytes(data); err != nil {
		t.Fatal(err)
	}
	if dec.Body == nil {
		dec.Body = &types.Body{}
	}
	return dec
}

func mustNotPanic(t *testing.T, entry string, f func()) {
	t.Helper()
	evid.Eval()
	o := guard(entry, func() string { return "" }, f)
	if o.panicked {
		fn, _ := repoFrame(o.stack)
		t.Fatalf("%s panicked: %v (first repository frame: %s)\n%s", entry, o.val, fn, trimStack(o.stack))
	}
}

// Shrunk failure (TestObjects): an honest block of an eligible proposer whose
// header additionally carries the flag OfflineCommit but no offline address.
// Everything block validation compares is intact (the seed proof covers the
// parent seed only, the offline flags are masked out of the flag comparison),
// so validation reaches applyGlobalParams, which dereferenced the absent
// address. The offline detector refuses such a header for proposals of the
// current round, but blocks delivered by a peer as a fork (ForkResolver ->
// ValidateSubChain) or during sync are validated without it.
func TestRegressionOfflineCommitWithoutAddress(t *testing.T) {
	w, a, b := fixedWorld(t, 3)
	_ = w
	blk := reencode(t, a.Propose().Block)
	blk.Header.ProposedHeader.Flags |= types.OfflineCommit
	blk.Header.ProposedHeader.OfflineAddr = nil
	blk = reencode(t, blk)
	if !blk.IsValid() {
		t.Fatalf("setup: block does not pass the IsValid gate")
	}
	mustNotPanic(t, "Blockchain.ValidateBlock(OfflineCommit, OfflineAddr=nil)", func() {
		_, _ = b.Chain.ValidateBlock(blk, nil, collector.NewStatsCollector())
	})
	mustNotPanic(t, "ForkResolver.processBlocks(OfflineCommit, OfflineAddr=nil)", func() {
		resolver := consensus.NewForkResolver(nil, nil, b.Chain, collector.NewStatsCollector())
		_ = resolver.VerifProcessBlocks([]types.BlockBundle{{Block: blk}})
	})
}

// Shrunk failure (TestObjects; hypothesis H2): a block whose body holds an
// ActivationTx without recipient and with a public key as payload.
// validateActivationTx compared the key's address with *tx.To before testing
// tx.To for nil; block processing has no recover (the mempool has).
func TestRegressionActivationWithoutRecipient(t *testing.T) {
	w, a, b := fixedWorld(t, 3)
	sender := w.Actors[2]
	tx, err := types.SignTx(&types.Transaction{Type: types.ActivationTx, AccountNonce: 1, Epoch: 0, To: nil, Payload: sender.Pub, MaxFee: big.NewInt(0)}, sender.Key)
	if err != nil {
		t.Fatal(err)
	}
	data, _ := tx.ToBytes()
	dec := new(types.Transaction)
	if err := dec.FromBytes(data); err != nil || dec.To != nil {
		t.Fatalf("setup: tx does not survive its encoding: %v", err)
	}
	blk := reencode(t, a.Propose().Block)
	blk.Body.Transactions = []*types.Transaction{dec}
	setCommitments(b, blk)
	blk = reencode(t, blk)
	mustNotPanic(t, "Blockchain.ValidateBlock(ActivationTx, To=nil)", func() {
		_, _ = b.Chain.ValidateBlock(blk, nil, collector.NewStatsCollector())
	})
	mustNotPanic(t, "TxPool.Validate(ActivationTx, To=nil)", func() { _ = b.Pool.Validate(dec) })
}

// returnsWithin runs f on its own goroutine and reports whether it came back
// within the (very generous) limit. A goroutine cannot be stopped: on failure
// it keeps spinning until the test process ends.
func returnsWithin(limit time.Duration, f func()) bool {
	done := make(chan struct{})
	go func() {
		defer close(done)
		defer func() { recover() }()
		f()
	}()
	select {
	case <-done:
		return true
	case <-time.After(limit):
		return false
	}
}

// Failure found by TestObjects (watchdog): Blockchain.ValidateProposerProof
// ignored the error of the VRF verification and went on with the all-zero hash;
// for a proposer that is a pool (modifier = pool size > 1) HashToFloat takes the
// modifier-th root of 0 with a Newton iteration whose stopping rule (relative
// step below 2^-128) is never met for 0: the peer's reader goroutine spins
// forever. A proposer proof of the right length (129 bytes) that does not verify
// is enough; it reaches ValidateProposerProof from the ProposeProof and the
// ProposeBlock message (Proposals.AddProposeProof / AddProposedBlock).
// The function returns in microseconds when it terminates; 20 s is the limit.
func TestRegressionProposerProofOfPoolTerminates(t *testing.T) {
	// a0 becomes a pool of two delegators, then receives a proof proposal signed by the pool
	w, a, _ := fixedWorld(t, 3)
	pool := w.God
	for i, d := range w.Actors[1:3] {
		to := pool.Addr
		tx, err := types.SignTx(&types.Transaction{Type: types.DelegateTx, AccountNonce: 1, To: &to, MaxFee: sim.Dna(100)}, d.Key)
		if err != nil {
			t.Fatal(err)
		}
		if err := a.Pool.AddInternalTx(tx); err != nil {
			t.Fatalf("delegate tx %d: %v", i, err)
		}
	}
	for h := 0; !(a.AppState.ValidatorsCache.IsPool(pool.Addr) && a.AppState.ValidatorsCache.PoolSize(pool.Addr) > 1); h++ {
		if h > 12 {
			t.Fatalf("setup: a0 never became a pool")
		}
		var blk *types.Block
		if a.CanPropose() {
			blk = a.Propose().Block
		} else {
			blk = a.EmptyBlock()
		}
		if err := a.AddBlock(blk); err != nil {
			t.Fatalf("setup: block %d refused: %v", blk.Height(), err)
		}
		w.Advance(20 * time.Second)
	}
	proof := make([]byte, 129) // right length, does not verify
	evid.Eval()
	if !returnsWithin(20*time.Second, func() { _ = a.Chain.ValidateProposerProof(proof, pool.Pub) }) {
		t.Fatalf("Blockchain.ValidateProposerProof(129 zero bytes, key of a pool of size %d) does not return", a.AppState.ValidatorsCache.PoolSize(pool.Addr))
	}
	n := newNode(a)
	pp := &types.ProofProposal{Proof: proof, Round: a.Chain.Round()}
	signProof(pp, pool)
	evid.Eval()
	if !returnsWithin(20*time.Second, func() { n.proposals().AddProposeProof(pp) }) {
		t.Fatalf("Proposals.AddProposeProof(proof that does not verify, signed by a pool) does not return")
	}
}

// Failure found by TestFrames (hypothesis H4): protocol.Decode hands a compressed
// frame to s2.Decode(nil, ...), which allocates the decoded length CLAIMED by the
// block header before looking at any data. The transport caps the compressed
// frame (8 MiB) only, so a 10-byte frame makes the receiver allocate and zero
// 256 MiB (up to 4 GiB - 1 with the largest claim a 64-bit build accepts).
func TestRegressionDecodeForgedLength(t *testing.T) {
	for _, claim := range []uint64{1 << 28, 1<<28 + 1<<27} {
		var v [10]byte
		n := binary.PutUvarint(v[:], claim)
		frame := append(append([]byte{1}, v[:n]...), 0xde, 0xad, 0xbe, 0xef)
		evid.Eval()
		var err error
		o := guard("protocol.Decode", func() string { return "" }, func() { _, err = protocol.Decode(frame) })
		if o.panicked {
			t.Fatalf("protocol.Decode panicked: %v", o.val)
		}
		if o.alloc > allocCap {
			t.Fatalf("protocol.Decode(% x) allocated %d MiB for a %d-byte frame claiming a decoded length of %d (verdict: %v); cap for any frame up to 8 MiB: %d MiB", frame, o.alloc>>20, len(frame), claim, err, allocCap>>20)
		}
	}
	// what a correct peer can send still decodes: 6 MiB of incompressible content, compressed and plain
	msg := make([]byte, 6<<20)
	rand.New(rand.NewSource(1)).Read(msg)
	for _, frame := range [][]byte{append([]byte{1}, s2.Encode(nil, msg)...), append([]byte{0}, msg...)} {
		evid.Eval()
		out, err := protocol.Decode(frame)
		if err != nil || !bytes.Equal(out, msg) {
			t.Fatalf("a %d-byte frame of a correct sender does not decode: %v", len(frame), err)
		}
	}
}

// Shrunk failure (TestRanges): while fast syncing, a peer answers a block range
// request with an honest header and its honest certificate (both public) and an
// identity-state diff holding one entry {address, Deleted: false, Value: absent}.
// The diff is applied (IdentityStateDB.AddDiff -> tree.Set(key, nil)) in order to
// compare the resulting root with the header; the IAVL tree panics on a nil
// value ("Attempt to store nil value"). processBatch runs on the downloader's
// goroutine without recover.
func TestRegressionFastSyncDiffWithoutValue(t *testing.T) {
	w, a, b := fixedWorld(t, 3)
	blk := a.Propose().Block
	cert := w.MakeCert(a, blk, sim.CertValid)
	if cert.Empty() {
		t.Fatalf("setup: no certificate")
	}
	if err := a.AddBlock(blk); err != nil {
		t.Fatalf("setup: %v", err)
	}
	r := &protocol.VerifBlockRange{BatchId: 1, Blocks: []*protocol.VerifRangeBlock{protocol.VerifC12NewRangeItem(blk.Header, cert,
		&state.IdentityStateDiff{Values: []*state.IdentityStateDiffValue{{Address: w.Actors[2].Addr, Deleted: false, Value: nil}}})}}
	wire, err := r.ToBytes()
	if err != nil {
		t.Fatal(err)
	}
	dec := new(protocol.VerifBlockRange)
	if err := dec.FromBytes(wire); err != nil || !dec.IsValid() || len(dec.Blocks) != 1 {
		t.Fatalf("setup: the range does not pass decoding and the IsValid gate: %v", err)
	}
	n := newNode(b)
	g := newGossipNode(b)
	pr, _ := g.newPeer("serving-peer")
	ks := keystore.NewKeyStore(t.TempDir()+"/ks", keystore.StandardScryptN, keystore.StandardScryptP)
	subs, _ := subscriptions.NewManager(t.TempDir())
	fs := protocol.NewFastSync(g.h, log.New(), b.Chain, b.Ipfs, b.AppState, mapset.NewSet(), &snapshot.Manifest{Height: blk.Height(), Root: blk.Root()}, nil, b.Bus, b.Addr, ks, subs, n.upgrader)
	if _, err := fs.VerifC12PreConsuming(b.Head()); err != nil {
		t.Fatalf("setup: preConsuming: %v", err)
	}
	if err := fs.VerifC12ValidateHeader(dec.Blocks[0]); err != nil {
		t.Fatalf("setup: honest header with its honest certificate refused: %v", err)
	}
	fs.VerifC12Defer(dec.Blocks[0], pr)
	mustNotPanic(t, "fastSync.applyDeferredBlocks(diff entry without value)", func() { _, err = fs.VerifC12ApplyDeferredBlocks() })
	if err == nil {
		t.Fatalf("a diff that does not lead to the header's identity root was accepted")
	}
}

// Found by reading while building TestFrames, confirmed here: the BlocksRange arm
// of IdenaGossipHandler.handle pushes every element of the message into the
// channel of the request it answers (`batch.headers <- b`). The channel holds
// to-from+1 elements (100 for a fork request) and its consumer stops reading
// after that many. A peer that answers with more elements than were asked for
// blocks its own reader goroutine for good: runListening never returns, the peer
// is never unregistered (it keeps its slot in the peer set and in the connection
// manager after the remote side has gone), the goroutine is never released.
// handle returns in microseconds when it terminates; 20 s is the limit.
func TestRegressionRangeLongerThanRequested(t *testing.T) {
	w, a, b := fixedWorld(t, 3)
	var blocks []*types.Block
	for i := 0; i < 3; i++ {
		blk := a.Propose().Block
		if err := a.AddBlock(blk); err != nil {
			t.Fatalf("setup: %v", err)
		}
		blocks = append(blocks, blk)
		w.Advance(20 * time.Second)
	}
	g := newGossipNode(b)
	pr, stream := g.newPeer("serving-peer")
	if err := g.h.VerifC12Register(pr); err != nil {
		t.Fatal(err)
	}
	// the node asks for exactly one block ...
	batch, err := g.h.GetBlocksRange(pr.VerifC12PeerID(), 1, 1)
	if err != nil {
		t.Fatal(err)
	}
	// ... and the peer answers with three
	r := &protocol.VerifBlockRange{BatchId: protocol.VerifC12LastBatchId()}
	for _, blk := range blocks {
		r.Blocks = append(r.Blocks, protocol.VerifC12NewRangeItem(blk.Header, nil, nil))
	}
	payload, _ := r.ToBytes()
	msg, _ := (&protocol.Msg{Code: protocol.BlocksRange, Payload: payload}).ToBytes()
	stream.feed(protocol.Encode(protocol.BlocksRange, msg))
	evid.Eval()
	var herr error
	if !returnsWithin(20*time.Second, func() { herr = g.h.VerifC12Handle(pr) }) {
		t.Fatalf("IdenaGossipHandler.handle does not return for a BlocksRange message with 3 elements answering a request for 1 (blocked sending into the request's channel)")
	}
	items, _ := batch.VerifC12Delivered()
	t.Logf("handle returned %v; %d element(s) delivered to the request", herr, len(items))
	if len(items) > 1 {
		t.Fatalf("%d elements delivered to a request for 1", len(items))
	}
}

// frameVrfZeroScalar is the input the native fuzz target (thorough tier) found: a ProposeProof frame whose 129-byte
// VRF proof starts with 32 zero bytes (s = 0), round 5, with a signature that recovers to some key.
const frameVrfZeroScalar = "00080312cc010a86010a810100000000000000000000000000000000000000000000000000000000000000000000000000000000000000000000000000000000000000000000040404040404040404040404000000000000000000000000000000008000000000000000000000000000000000000000000000000000000000000000000000000000000000000010051241788525ab85c5cdf0f878dd1ce5275bb1a69fc243466184f1320f1ced9605d30d4785be3d5e7671e419bda233cab53c038b340af0d196f0e6bf563839117ac08d01"

// Failure found by FuzzFrame: p256.ProofToHash multiplied the public key by the scalar s taken from the proof;
// for s = 0 (and for out-of-range scalars / points that are not on the curve) the multiplication returns nil, nil,
// which BitCurve.Add dereferenced (handle -> Proposals.AddProposeProof -> ValidateProposerProof -> ProofToHash ->
// BitCurve.Add -> addJacobian), on the gossip goroutine that has no recover.
func TestRegressionVrfProofZeroScalar(t *testing.T) {
	fuzzSetup(t)
	frame, err := hex.DecodeString(frameVrfZeroScalar)
	if err != nil {
		t.Fatal(err)
	}
	if r := fuzzNode.r.Chain.Round(); r != 5 {
		t.Fatalf("setup: the fixed node is in round %d, the saved frame is a proof proposal for round 5", r)
	}
	raw, err := protocol.Decode(frame)
	msg := new(protocol.Msg)
	if err != nil || msg.FromBytes(raw) != nil || msg.Code != protocol.ProposeProof {
		t.Fatalf("setup: the saved frame is not a ProposeProof message: %v", err)
	}
	pp := new(types.ProofProposal)
	if err := pp.FromBytes(msg.Payload); err != nil || len(pp.Proof) != 129 || !bytes.Equal(pp.Proof[:32], make([]byte, 32)) || pp.Round != 5 {
		t.Fatalf("setup: unexpected proof proposal in the saved frame: %v", err)
	}
	fuzzStream.feed(frame)
	mustNotPanic(t, "IdenaGossipHandler.handle(ProposeProof, VRF proof with s = 0)", func() { _ = fuzzNode.h.VerifC12Handle(fuzzPeer) })
}

// The generators of hostile cryptographic constants produce what they say (self-check of the harness).
func TestConstGeneratorsSane(t *testing.T) {
	key := sim.DeriveKey(77, 1)
	// a sealed ECIES ciphertext with a symmetric part of at least one block decrypts with the library
	em := append(make([]byte, 16), []byte("hello world")...)
	ct := eciesSeal(&key.PublicKey, big.NewInt(12345), em)
	if _, err := ecies.ImportECDSA(key).Decrypt(ct, nil, nil); err != nil {
		t.Fatalf("eciesSeal does not build an authentic ciphertext: %v", err)
	}
	// an honest VRF proof verifies; the "other-key" / "other-message" proofs do not
	msg := []byte("message")
	honest := evalVrf(key, msg)
	v, _ := p256.NewVRFVerifier(&key.PublicKey)
	if _, err := v.ProofToHash(msg, honest); err != nil {
		t.Fatalf("honest proof does not verify: %v", err)
	}
	if _, err := v.ProofToHash(msg, evalVrf(constKey2, msg)); err == nil {
		t.Fatalf("proof of another key verifies")
	}
	if len(vrfClasses) < 30 || len(sigClasses) < 25 || len(eciesClasses) < 15 || len(pointConsts(nil)) < 15 {
		t.Fatalf("constant tables shrank")
	}
}

// degenerateVrfProof is an honest proof of key for msg with t replaced by s*k (negate: -s*k) mod N, so that the
// two points the verifier adds, [t]G and [s]([k]G), are equal (opposite).
func degenerateVrfProof(key *ecdsa.PrivateKey, msg []byte, negate bool) []byte {
	p := evalVrf(key, msg)
	s := new(big.Int).SetBytes(p[0:32])
	tt := new(big.Int).Mul(s, key.D)
	if negate {
		tt.Neg(tt)
	}
	copy(p[32:64], pad32(tt.Mod(tt, curveN)))
	return p
}

// Failure found by TestFrames / TestObjects once the generators put hostile constants into cryptographic fields:
// p256.ProofToHash adds [t]G and [s]([k]G) (and [t]H and [s]VRF) with BitCurve.Add, whose formulas do not cover
// equal or opposite points: z3 = 0, ModInverse returns nil, affineFromJacobian dereferences it. Whoever knows the
// private key k the proof is checked against picks any s and t = +-s*k mod N. No identity is needed: a ProposeProof
// message is verified against the key recovered from its own signature, a header's seed proof against the
// ProposerPubKey of the same header (ValidateHeader, before the proposer is looked up) - gossip goroutine, fork
// resolver and sync, all without recover.
func TestRegressionVrfProofEqualPoints(t *testing.T) {
	w, a, b := fixedWorld(t, 3)
	attacker := sim.DeriveKey(4242, 1) // a key that is no identity and holds no coins
	g := newGossipNode(b)
	pr, stream := g.newPeer("hostile-peer")
	head := b.Chain.Head
	proposerData := append(append(head.Seed().Bytes(), common.ToBytes(blockchain.ProposerRole)...), common.ToBytes(head.Height()+1)...)
	for _, negate := range []bool{false, true} {
		// (a) ProposeProof message
		pp := &types.ProofProposal{Proof: degenerateVrfProof(attacker, proposerData, negate), Round: b.Chain.Round()}
		h := crypto.SignatureHash(pp)
		pp.Signature, _ = crypto.Sign(h[:], attacker)
		payload, _ := pp.ToBytes()
		msg, _ := (&protocol.Msg{Code: protocol.ProposeProof, Payload: payload}).ToBytes()
		stream.feed(protocol.Encode(protocol.ProposeProof, msg))
		mustNotPanic(t, "IdenaGossipHandler.handle(ProposeProof, proof with t = +-s*k)", func() { _ = g.h.VerifC12Handle(pr) })
		// (b) header of a block served as a fork: the attacker's key as proposer key, seed proof with t = +-s*k
		blk := reencode(t, a.Propose().Block)
		ph := blk.Header.ProposedHeader
		ph.ProposerPubKey = crypto.FromECDSAPub(&attacker.PublicKey)
		ph.SeedProof = degenerateVrfProof(attacker, seedData(b.Head()), negate)
		blk = reencode(t, blk)
		mustNotPanic(t, "Blockchain.ValidateHeader(seed proof with t = +-s*k)", func() { _ = b.Chain.ValidateHeader(blk.Header, b.Head()) })
		mustNotPanic(t, "ForkResolver.processBlocks(seed proof with t = +-s*k)", func() {
			_ = consensus.NewForkResolver(nil, nil, b.Chain, collector.NewStatsCollector()).VerifProcessBlocks([]types.BlockBundle{{Block: blk}})
		})
	}
	_ = w
	// honest proofs still verify
	v, _ := p256.NewVRFVerifier(&attacker.PublicKey)
	if _, err := v.ProofToHash(proposerData, evalVrf(attacker, proposerData)); err != nil {
		t.Fatalf("an honest proof does not verify: %v", err)
	}
}

// Failure found by TestObjects (hostile ECIES constants): the author of a flip publishes its "public" flip key (a
// private scalar) and a package of private keys encrypted to it. ecies.Decrypt authenticates the symmetric part
// (iv | ciphertext) but never checks that it holds at least the iv: a correctly authenticated package whose
// symmetric part is shorter than one cipher block (anybody who knows the published scalar can build one) makes
// symDecrypt compute a negative length (makeslice: len out of range). KeysPool.GetEncryptedPrivateFlipKey runs
// it when the ceremony asks for the author's key (the same Decrypt opens flip contents in decryptFlip).
func TestRegressionEciesShortSymmetricPart(t *testing.T) {
	key := sim.DeriveKey(4242, 2)
	for _, n := range []int{1, 15, 16} {
		ct := eciesSeal(&key.PublicKey, big.NewInt(777), make([]byte, n))
		evid.Eval()
		var err error
		var m []byte
		o := guard("ecies.Decrypt", func() string { return "" }, func() { m, err = ecies.ImportECDSA(key).Decrypt(ct, nil, nil) })
		if o.panicked {
			fn, _ := repoFrame(o.stack)
			t.Fatalf("ecies.Decrypt of an authenticated ciphertext with a %d-byte symmetric part panicked: %v (first repository frame: %s)", n, o.val, fn)
		}
		if n < 16 && err == nil {
			t.Fatalf("a symmetric part of %d bytes (shorter than the iv) decrypted to %x", n, m)
		}
	}
}

// Shrunk failure (TestSequences, head delivery via the fork route): a fork answer holding one header whose height is
// one the node has no block for (0; equally any height below what a fast-synced node stores) and that is not above
// the node's head. ForkResolver.checkForkSize compares the fork with the own chain block by block and called
// IsEmpty() on the nil result of Blockchain.GetBlockByHeight.
func TestRegressionForkBelowStoredChain(t *testing.T) {
	w, a, b := fixedWorld(t, 3)
	for i := 0; i < 2; i++ {
		blk := a.Propose().Block
		for _, r := range []*sim.Replica{a, b} {
			if err := r.AddBlock(blk); err != nil {
				t.Fatalf("setup: %v", err)
			}
		}
		w.Advance(20 * time.Second)
	}
	blk := reencode(t, a.Propose().Block)
	blk.Header.ProposedHeader.Height = 0
	blk = reencode(t, blk)
	if !blk.IsValid() || b.Chain.GetBlockByHeight(0) != nil {
		t.Fatalf("setup: block does not pass the gate / the node stores a block at height 0")
	}
	var err error
	mustNotPanic(t, "ForkResolver.processBlocks(header with height 0)", func() {
		err = consensus.NewForkResolver(nil, nil, b.Chain, collector.NewStatsCollector()).VerifProcessBlocks([]types.BlockBundle{{Block: blk}})
	})
	if err == nil {
		t.Fatalf("a fork starting below the stored chain was accepted")
	}
}

// Failure found by TestRanges (shape certified-hostile-tip; hint of a seeding agent): fastSync.applyDeferredBlocks
// rebuilds the transaction bloom filter of a header from TxBloom in 8-byte words without looking at its length; 1-7
// bytes give a filter of zero bits, and testing it (testBloom -> SerializableBF.Has -> bloom.Test: location % m)
// divides by zero on the downloader goroutine. The header has to come with a certificate of the committee of its
// height over exactly this header (fast sync checks header + certificate only, never the body), i.e. it takes a
// colluding quorum (or the god key of a network without online validators) - not a single peer.
func TestRegressionFastSyncShortBloom(t *testing.T) {
	w, a, b := fixedWorld(t, 3)
	for _, n := range []int{1, 7} {
		blk := reencode(t, a.Propose().Block)
		blk.Header.ProposedHeader.TxBloom = bytes.Repeat([]byte{0xff}, n)
		blk = reencode(t, blk)
		cert := w.MakeCert(a, blk, sim.CertValid)
		if cert.Empty() {
			t.Fatalf("setup: no certificate")
		}
		r := &protocol.VerifBlockRange{BatchId: 1, Blocks: []*protocol.VerifRangeBlock{protocol.VerifC12NewRangeItem(blk.Header, cert, nil)}}
		wire, _ := r.ToBytes()
		dec := new(protocol.VerifBlockRange)
		if err := dec.FromBytes(wire); err != nil || !dec.IsValid() {
			t.Fatalf("setup: the range does not pass decoding and the IsValid gate: %v", err)
		}
		n2 := newNode(b)
		g := newGossipNode(b)
		pr, _ := g.newPeer("serving-peer")
		ks := keystore.NewKeyStore(t.TempDir()+"/ks", keystore.StandardScryptN, keystore.StandardScryptP)
		subs, _ := subscriptions.NewManager(t.TempDir())
		fs := protocol.NewFastSync(g.h, log.New(), b.Chain, b.Ipfs, b.AppState, mapset.NewSet(), &snapshot.Manifest{Height: blk.Height(), Root: blk.Root()}, nil, b.Bus, b.Addr, ks, subs, n2.upgrader)
		if _, err := fs.VerifC12PreConsuming(b.Head()); err != nil {
			t.Fatalf("setup: preConsuming: %v", err)
		}
		if err := fs.VerifC12ValidateHeader(dec.Blocks[0]); err != nil {
			t.Fatalf("setup: certified header refused: %v", err)
		}
		fs.VerifC12Defer(dec.Blocks[0], pr)
		mustNotPanic(t, fmt.Sprintf("fastSync.applyDeferredBlocks(TxBloom of %d bytes)", n), func() { _, _ = fs.VerifC12ApplyDeferredBlocks() })
		fs.VerifC12DropPreliminaries()
	}
}

package c12

import (
	"encoding/hex"
	"math/big"
	"sync"
	"testing"
	"time"

	"github.com/golang/protobuf/proto"
	"github.com/idena-network/idena-go/blockchain/attachments"
	"github.com/idena-network/idena-go/blockchain/types"
	"github.com/idena-network/idena-go/common"
	"github.com/idena-network/idena-go/common/vclock"
	"github.com/idena-network/idena-go/core/state/snapshot"
	"github.com/idena-network/idena-go/crypto"
	models "github.com/idena-network/idena-go/protobuf"
	"github.com/idena-network/idena-go/protocol"
	"github.com/klauspost/compress/s2"

	"verifharness/internal/evid"
	"verifharness/internal/sim"
)

// Native fuzz target (thorough tier): the same frame route and oracle as
// TestFrames on one fixed node per process, seeded with a valid encoding of
// every message code (plain and compressed). The driver's build has no coverage
// instrumentation, so the mutation is not coverage guided.

var (
	fuzzOnce   sync.Once
	fuzzNode   *gossipNode
	fuzzPeer   *protocol.VerifC12Peer
	fuzzStream *fakeStream
	fuzzPoint  *point
	fuzzSeeds  [][]byte
	fuzzBatch  *protocol.VerifC12Batch
)

func fuzzSetup(tb testing.TB) {
	fuzzOnce.Do(func() {
		w, a, b := fixedWorld(tb, 4)
		var blocks []*types.Block
		for i := 0; i < 3; i++ {
			to := w.Actors[2].Addr
			tx, _ := types.SignTx(&types.Transaction{Type: types.SendTx, AccountNonce: uint32(i + 1), To: &to, Amount: big.NewInt(1), MaxFee: sim.Dna(10)}, w.Actors[3].Key)
			a.Pool.AddInternalTx(tx)
			blk := a.Propose().Block
			for _, r := range []*sim.Replica{a, b} {
				if err := r.AddBlock(blk); err != nil {
					tb.Fatalf("setup: %v", err)
				}
			}
			blocks = append(blocks, blk)
			w.Advance(20 * time.Second)
		}
		vclock.SetMode("pengings", vclock.Free)
		g := newGossipNode(b)
		pr, stream := g.newPeer("fuzzing-peer")
		if err := g.h.VerifC12Register(pr); err != nil {
			tb.Fatal(err)
		}
		fuzzNode, fuzzPeer, fuzzStream = g, pr, stream
		fuzzPoint = &point{w: w, v: g.node}
		// seeds: one valid message per code
		add := func(code uint64, payload []byte, err error) {
			if err != nil {
				tb.Fatalf("seed for code %d: %v", code, err)
			}
			msg, _ := (&protocol.Msg{Code: code, Payload: payload}).ToBytes()
			fuzzSeeds = append(fuzzSeeds, append([]byte{0}, msg...), append([]byte{1}, s2.Encode(nil, msg)...))
		}
		prop := a.Propose()
		p, err := prop.ToBytes()
		add(protocol.ProposeBlock, p, err)
		pp := &types.ProofProposal{Proof: make([]byte, 129), Round: b.Chain.Round()}
		signProof(pp, w.God)
		p, err = pp.ToBytes()
		add(protocol.ProposeProof, p, err)
		vote := &types.Vote{Header: &types.VoteHeader{Round: b.Chain.Round(), Step: types.Final, ParentHash: b.Head().Hash(), VotedHash: prop.Block.Hash()}}
		signVote(vote, w.God)
		p, err = vote.ToBytes()
		add(protocol.Vote, p, err)
		to := w.Actors[1].Addr
		tx, _ := types.SignTx(&types.Transaction{Type: types.SendTx, AccountNonce: 1, To: &to, Amount: big.NewInt(5), MaxFee: sim.Dna(10)}, w.Actors[2].Key)
		p, err = tx.ToBytes()
		add(protocol.NewTx, p, err)
		p, err = proto.Marshal(&models.ProtoGetBlockByHashRequest{Hash: blocks[0].Hash().Bytes()})
		add(protocol.GetBlockByHash, p, err)
		p, err = proto.Marshal(&models.ProtoGetBlocksRangeRequest{BatchId: 1, From: 1, To: 3})
		add(protocol.GetBlocksRange, p, err)
		r := &protocol.VerifBlockRange{BatchId: 1}
		for _, blk := range blocks {
			r.Blocks = append(r.Blocks, protocol.VerifC12NewRangeItem(blk.Header, &types.BlockCert{Round: blk.Height(), Step: types.Final, VotedHash: blk.Hash(), Signatures: []*types.BlockCertSignature{{Signature: make([]byte, 65)}}}, a.Chain.GetIdentityDiff(blk.Height())))
		}
		p, err = r.ToBytes()
		add(protocol.BlocksRange, p, err)
		ftx, _ := types.SignTx(&types.Transaction{Type: types.SubmitFlipTx, AccountNonce: 1, MaxFee: sim.Dna(10), Payload: attachments.CreateFlipSubmitAttachment(cid1(1), 0)}, w.Actors[1].Key)
		p, err = (&types.Flip{Tx: ftx, PublicPart: []byte{1, 2, 3}, PrivatePart: []byte{4}}).ToBytes()
		add(protocol.FlipBody, p, err)
		fk, _ := types.SignFlipKey(&types.PublicFlipKey{Key: crypto.FromECDSA(w.Actors[1].Key), Epoch: 0}, w.Actors[1].Key)
		p, err = fk.ToBytes()
		add(protocol.FlipKey, p, err)
		p, err = (&snapshot.Manifest{Root: blocks[0].Root(), Height: 2, CidV2: cid1(5)}).ToBytes()
		add(protocol.SnapshotManifest, p, err)
		p, err = proto.Marshal(&models.ProtoGetForkBlockRangeRequest{BatchId: 2, Blocks: [][]byte{blocks[1].Hash().Bytes(), blocks[0].Hash().Bytes()}})
		add(protocol.GetForkBlockRange, p, err)
		pk, _ := types.SignFlipKeysPackage(&types.PrivateFlipKeysPackage{Data: []byte{1, 2, 3, 4}, Epoch: 0}, w.Actors[1].Key)
		p, err = pk.ToBytes()
		add(protocol.FlipKeysPackage, p, err)
		ph := &protocol.VerifPushPullHash{Type: protocol.VerifPushType(6), Hash: tx.Hash128()}
		p, err = ph.ToBytes()
		add(protocol.Push, p, err)
		add(protocol.Pull, p, err)
		p, err = blocks[2].ToBytes()
		add(protocol.Block, p, err)
		p, err = (&protocol.VerifUpdateShardId{ShardId: common.ShardId(1)}).ToBytes()
		add(protocol.UpdateShardId, p, err)
		phb, _ := ph.ToBytes()
		p, err = (&protocol.VerifMsgBatch{Data: []*protocol.VerifBatchItem{{Payload: phb}, {Payload: phb, ShardId: 1}}}).ToBytes()
		add(protocol.BatchPush, p, err)
		fkb, _ := fk.ToBytes()
		p, err = (&protocol.VerifMsgBatch{Data: []*protocol.VerifBatchItem{{Payload: fkb}}}).ToBytes()
		add(protocol.BatchFlipKey, p, err)
		p, err = (&protocol.VerifDisconnect{Reason: "bye"}).ToBytes()
		add(protocol.Disconnect, p, err)
		p, err = (&protocol.VerifHandshakeData{NetworkId: 0x99, Height: 3, GenesisBlock: blocks[0].Hash(), AppVersion: "1.1.0"}).ToBytes()
		add(protocol.Handshake, p, err)
		// crashers found so far (kept in the corpus)
		if b, err := hex.DecodeString(frameVrfZeroScalar); err == nil {
			fuzzSeeds = append(fuzzSeeds, b)
		}
	})
}

func fuzzOneFrame(t testing.TB, frame []byte) {
	if len(frame) > frameCap {
		return
	}
	evid.Eval()
	in := func() string { return (&frameCase{what: "fuzz", frame: frame}).String() }
	o := guard("protocol.Decode", in, func() { _, _ = protocol.Decode(frame) })
	if verdict(t, o, "protocol.Decode", len(frame), in) {
		return // listed as a known finding
	}
	// a request is outstanding at the peer, so that range answers are delivered
	if fuzzBatch == nil {
		b, err := fuzzNode.h.GetBlocksRange(fuzzPeer.VerifC12PeerID(), 1, 2)
		if err != nil {
			t.Fatalf("GetBlocksRange: %v", err)
		}
		fuzzBatch = b
	}
	fuzzStream.feed(frame)
	o = guard("IdenaGossipHandler.handle", in, func() { _ = fuzzNode.h.VerifC12Handle(fuzzPeer) })
	if verdict(t, o, "IdenaGossipHandler.handle", len(frame), in) {
		return // listed as a known finding
	}
	if _, closed := fuzzBatch.VerifC12Delivered(); closed {
		fuzzBatch = nil
	}
	o = guard("Flipper.writeLoop(addNewFlip)", in, func() {
		for {
			if more, _ := fuzzNode.flipper.VerifC12DrainOne(); !more {
				return
			}
		}
	})
	if verdict(t, o, "Flipper.writeLoop(addNewFlip)", len(frame), in) {
		return // listed as a known finding
	}
	o = guard("OfflineDetector/Upgrader.processVote", in, func() {
		for fuzzNode.offline.VerifC12DrainVote() {
		}
		for fuzzNode.upgrader.VerifC12DrainVote() {
		}
	})
	if verdict(t, o, "OfflineDetector/Upgrader.processVote", len(frame), in) {
		return // listed as a known finding
	}
}

func FuzzFrame(f *testing.F) {
	fuzzSetup(f)
	for _, s := range fuzzSeeds {
		f.Add(s)
	}
	f.Fuzz(func(t *testing.T, frame []byte) { fuzzOneFrame(t, frame) })
}

// TestFuzzSeeds runs the seed corpus of FuzzFrame through the oracle (every tier) and
// checks that every seed passes decoding and the gate of its code.
func TestFuzzSeeds(t *testing.T) {
	fuzzSetup(t)
	for _, s := range fuzzSeeds {
		if _, err := protocol.Decode(s); err != nil {
			t.Fatalf("seed does not decode: %v", err)
		}
		fuzzOneFrame(t, s)
	}
	if len(fuzzSeeds) != 2*20+1 {
		t.Fatalf("%d seeds, want one plain and one compressed per message code plus the saved crasher (41)", len(fuzzSeeds))
	}
}

package c12

// Plain regressions for the two repaired defects in the deferred consumers of mined EvidenceTx payloads
// (known_findings.json: c12.common.Bitmap.*.nil-deref / fix eed0339c, c12.alloc.core.appstate.EvidenceMap.
// CalculateApprovedCandidates / fix fba22396). Both run the ceremony route of TestDeferredCeremony on a fixed epoch
// and are judged by the same oracle, so that a regression is reported under the same finding key.

import (
	"bytes"
	"fmt"
	"testing"
	"time"

	"github.com/idena-network/idena-go/blockchain/attachments"
	"github.com/idena-network/idena-go/blockchain/types"
	"github.com/idena-network/idena-go/common/vclock"
	"github.com/idena-network/idena-go/config"
	"github.com/idena-network/idena-go/core/state"
	"github.com/idena-network/idena-go/crypto"

	"verifharness/internal/evid"
	"verifharness/internal/sim"
)

// fixedEpoch: n Verified identities with three flips each, one shard, epoch 1, long session.
func fixedEpoch(n int) *dSpec {
	s := &dSpec{KeySeed: 12, Epoch: 1, Version: config.ConsensusV12, ShardsNum: 1, Period: state.LongSessionPeriod, ValidationT: 1893456000}
	s.LotterySeed = bytes.Repeat([]byte{7}, 32)
	copy(s.WordsSeed[:], bytes.Repeat([]byte{9}, 32))
	for i := 0; i < n; i++ {
		key := sim.DeriveKey(s.KeySeed, i)
		id := dIdent{Key: key, Addr: crypto.PubkeyToAddress(key.PublicKey), Pub: crypto.FromECDSAPub(&key.PublicKey), State: state.Verified, Shard: 1, Required: 3,
			Stake: sim.Dna(100), Balance: sim.Dna(10), Scores: []byte{0xC6, 0xC6, 0xC6}}
		for j := 0; j < 3; j++ {
			id.Flips = append(id.Flips, []byte{0x01, 0x55, 1, byte(i), byte(j), 12})
		}
		s.Idents = append(s.Idents, id)
	}
	s.God = s.Idents[0].Addr
	s.index()
	return s
}

// minedEvidenceEpoch: everybody takes part honestly; identity `sender` sends the given evidence payload instead of its
// own map. The epoch is evaluated without and with a restart before the validation-finished block.
func minedEvidenceEpoch(t *testing.T, sender int, payload []byte, label string) {
	defer func() {
		time.Local = time.UTC
		vclock.Reset()
	}()
	time.Local = time.UTC
	s := fixedEpoch(5)
	vclock.Set(time.Unix(s.ValidationT+600, 0).UTC())
	ledger, as := dBuildLedger(s)
	g := dFreshNode(s, ledger, dLotteryHeight)
	tables := g.vc.VerifC17Shards()
	present := map[int]bool{}
	for k := range tables[0].Candidates {
		present[k] = true
	}
	var txs []*dTx
	for _, c := range dCandidates(s, tables) {
		h := honestPayloads(s, &tables[c.shard], c, present, int64(c.ident)+1)
		long, _ := (&attachments.LongAnswerAttachment{Answers: h.long.bits, Proof: h.long.proof, Key: h.long.key, Salt: h.long.salt}).ToBytes()
		txs = append(txs,
			&dTx{From: c.ident, Type: types.SubmitAnswersHashTx, Payload: h.hash, Label: "honest"},
			&dTx{From: c.ident, Type: types.SubmitShortAnswersTx, Payload: attachments.CreateShortAnswerAttachment(h.short.bits, h.short.rnd, 1), Label: "honest"},
			&dTx{From: c.ident, Type: types.SubmitLongAnswersTx, Payload: long, Label: "honest"})
		if c.ident == sender {
			txs = append(txs, &dTx{From: c.ident, Type: types.EvidenceTx, Payload: payload, Label: label, Hostile: true})
		} else {
			txs = append(txs, &dTx{From: c.ident, Type: types.EvidenceTx, Payload: bitmapBytes(len(tables[c.shard].Candidates), h.evidence), Label: "honest"})
		}
	}
	gate(s, g, txs)
	for _, x := range txs {
		if x.refused != nil {
			t.Fatalf("setup: %s of id%d is refused for a block: %v", typeName(x.Type), x.From, x.refused)
		}
	}
	dSealLedger(s, as, txs)
	for _, restart := range []int{-1, 1} {
		evid.Eval()
		res := runDeferred(t, s, ledger, tables, txs, dOptions{Split: []int{len(txs) / 2, len(txs) - len(txs)/2}, RestartK: restart, Words: 2})
		if res.abandoned {
			t.Fatalf("the epoch step did not complete")
		}
		if res.validated == 0 {
			t.Fatalf("setup: nobody is validated in an epoch in which everybody answered (restart=%d)", restart)
		}
	}
}

// A mined EvidenceTx whose payload is the roaring tag followed by a roaring serialization that ends early: the header
// announces a run container, the runs are missing. Bitmap.Read ignored the decoding error and kept a bitmap with an
// unset container; CalculateApprovedCandidates then dereferenced it while the validation-finished block was applied.
func TestRegressionEvidenceTruncatedBitmap(t *testing.T) {
	full := roaringBytes(runsBitmap(0, 4), bitmapTagRoaring) // tag | cookie+count | is-run bits | key, cardinality | number of runs | one run
	for _, cut := range []int{len(full) - 4, len(full) - 6, len(full) - 1} {
		minedEvidenceEpoch(t, 1, append([]byte(nil), full[:cut]...), fmt.Sprintf("truncated(%d of %d)", cut, len(full)))
	}
	// array-container flavour: two containers announced, the values of the first are missing
	rb := runsBitmap(0, 1)
	rb.Add(70000)
	full = roaringBytes(rb, bitmapTagRoaring)
	for cut := 1; cut < len(full); cut++ {
		minedEvidenceEpoch(t, 1, append([]byte(nil), full[:cut]...), fmt.Sprintf("truncated(%d of %d)", cut, len(full)))
	}
}

// A mined EvidenceTx whose payload is a COMPLETE roaring serialization with one bitmap container (5000 values) whose
// header understates the cardinality (4097): found by TestDeferredEvidenceDirect on the tree without fix fba22396.
// ToArray sized its result by the announced cardinalities and ran over it (index out of range) in
// CalculateApprovedCandidates; the decoding itself succeeds, so the repair of Bitmap.Read does not cover it.
func TestRegressionEvidenceUnderstatedCardinality(t *testing.T) {
	rb := runsBitmap(0, 1)
	rb.Remove(0)
	rb.Remove(1)
	for v := uint32(0); v < 5000; v++ {
		rb.Add(v)
	}
	payload := roaringBytes(rb, bitmapTagRoaring) // tag | cookie | containers | key | cardinality-1 | offset | 8192 bytes
	if len(payload) != 1+4+4+2+2+4+8192 || payload[11] != byte(4999&0xff) || payload[12] != byte(4999>>8) {
		t.Fatalf("setup: unexpected serialization (%d bytes, cardinality field %x)", len(payload), payload[11:13])
	}
	payload[11], payload[12] = 0x00, 0x10 // announces 4097 values
	minedEvidenceEpoch(t, 1, payload, "roaring:forged-header(cardinality 4097 of 5000)")
}

// A mined EvidenceTx whose payload is a roaring bitmap of run containers covering [0, 2^23): 1.9 KB on the chain.
// CalculateApprovedCandidates expanded every received bitmap into an array and counted every value in a map
// (2^23 values: about half a GiB; the payload limit allows 2^32) while the validation-finished block was applied.
func TestRegressionEvidenceRunBitmapAllocation(t *testing.T) {
	payload := roaringBytes(runsBitmap(0, canaryLog2), bitmapTagRoaring)
	if len(payload) > 4096 {
		t.Fatalf("setup: payload of %d bytes", len(payload))
	}
	minedEvidenceEpoch(t, 1, payload, fmt.Sprintf("roaring:runs[0,+2^%d)", canaryLog2))
}

// Package c12 checks property C12: no message from the network can crash the
// node. Every entry point is run under a recover at the target boundary; a
// recovered panic whose stack has a frame of the repository is the violation.
package c12

import (
	"fmt"
	"os"
	"path/filepath"
	"runtime"
	"runtime/debug"
	"strings"
	"sync/atomic"
	"testing"
	"time"

	"verifharness/internal/evid"
	"verifharness/internal/kf"
)

func TestMain(m *testing.M) {
	startWatchdog()
	evid.Main(m)
}

const (
	repoModule = "github.com/idena-network/idena-go/"
	// absolute allocation cap for one received frame (<= 8 MiB, the transport's frame cap): see DESIGN.md, C12
	allocCap     = 192 << 20
	frameCap     = 8 << 20
	keyDecodeLen = "c12.decode-allocates-claimed-length"
)

type fataler interface {
	Fatalf(format string, args ...interface{})
	Helper()
}

// outcome of one guarded call.
type outcome struct {
	panicked bool
	val      interface{}
	stack    string
	alloc    uint64 // bytes allocated on the heap during the call
}

// call describes the entry-point call in flight (read by the watchdog).
type call struct {
	start time.Time
	entry string
	input func() string
}

var inFlight atomic.Pointer[call]

// hangLimit is the wall time after which a single entry-point call is declared
// hung. Calls normally take micro- to milliseconds (the slowest, certificates
// with thousands of signatures, well under a second), so the limit is four to
// six orders of magnitude away from anything that terminates; it only turns an
// endless run into a reported violation. A hung goroutine cannot be stopped in
// Go, so the watchdog reports and ends the process (no shrinking).
var hangLimit = 60 * time.Second

func startWatchdog() {
	go func() {
		for {
			time.Sleep(time.Second)
			c := inFlight.Load()
			if c == nil || time.Since(c.start) < hangLimit {
				continue
			}
			buf := make([]byte, 1<<20)
			buf = buf[:runtime.Stack(buf, true)]
			fn := "unknown"
			for _, g := range strings.Split(string(buf), "\n\n") {
				if strings.Contains(g, "c12.guard") {
					fn = hangFrame(g)
					buf = []byte(g)
					break
				}
			}
			key := "c12.hang." + sanitize(fn)
			evid.Count("hang." + key)
			evid.Flush()
			// (the driver classifies a line starting with "panic: " on a dying process as a violation)
			fmt.Fprintf(os.Stderr, "\npanic: FINDING property=C12 key=%s: %s did not return within %v\ninput: %s\ninnermost repository frame: %s\n%s\n", key, c.entry, hangLimit, c.input(), fn, trimStack(string(buf)))
			os.Exit(2)
		}
	}()
}

// arithmetic one-liners of common/math never are the root of a hang: name their caller
var mathHelpers = map[string]bool{"Sub": true, "Mul": true, "Add": true, "Div": true, "Pow": true, "Abs": true, "Lesser": true, "New": true, "Zero": true}

func hangFrame(goroutine string) string {
	for _, f := range framesAfterPanic(goroutine) {
		if !strings.HasPrefix(f.fn, repoModule) {
			continue
		}
		short := strings.TrimPrefix(f.fn, repoModule)
		if strings.HasPrefix(short, "common/vclock.") || strings.HasPrefix(filepath.Base(f.file), "zz_verif_") {
			continue
		}
		if strings.HasPrefix(short, "common/math.") && mathHelpers[strings.TrimPrefix(short, "common/math.")] {
			continue
		}
		return short
	}
	return "unknown"
}

// guard runs f with a recover at the target boundary and measures the heap
// allocated meanwhile (TotalAlloc is monotonic; the targets are single-threaded).
func guard(entry string, input func() string, f func()) (o outcome) {
	var m0, m1 runtime.MemStats
	runtime.ReadMemStats(&m0)
	inFlight.Store(&call{time.Now(), entry, input})
	func() {
		defer func() {
			if r := recover(); r != nil {
				o.panicked = true
				o.val = r
				o.stack = string(debug.Stack())
			}
		}()
		f()
	}()
	inFlight.Store(nil)
	runtime.ReadMemStats(&m1)
	o.alloc = m1.TotalAlloc - m0.TotalAlloc
	return
}

// guardFast is guard without the allocation measurement (ReadMemStats stops the world).
func guardFast(entry string, input func() string, f func()) (o outcome) {
	inFlight.Store(&call{time.Now(), entry, input})
	defer func() {
		if r := recover(); r != nil {
			o.panicked = true
			o.val = r
			o.stack = string(debug.Stack())
		}
		inFlight.Store(nil)
	}()
	f()
	return
}

type frame struct {
	fn   string // full function name
	file string
}

// framesAfterPanic parses debug.Stack() output and returns the frames below the
// panic() call (the code that panicked, innermost first).
func framesAfterPanic(stack string) []frame {
	lines := strings.Split(stack, "\n")
	var all []frame
	for i := 1; i+1 < len(lines); i++ {
		l := lines[i]
		if l == "" || strings.HasPrefix(l, "\t") || strings.HasPrefix(l, "goroutine ") {
			continue
		}
		next := lines[i+1]
		if !strings.HasPrefix(next, "\t") {
			continue
		}
		fn := l
		if strings.HasPrefix(fn, "created by ") {
			fn = strings.TrimPrefix(fn, "created by ")
			if j := strings.Index(fn, " in goroutine"); j >= 0 {
				fn = fn[:j]
			}
		} else if j := strings.LastIndex(fn, "("); j > 0 {
			fn = fn[:j]
		}
		file := strings.TrimSpace(next)
		if j := strings.LastIndex(file, ":"); j > 0 {
			file = file[:j]
		}
		all = append(all, frame{fn, file})
		i++
	}
	// cut everything up to and including the (last) panic frame
	start := 0
	for i, f := range all {
		if f.fn == "panic" || f.fn == "runtime.gopanic" || f.fn == "runtime.sigpanic" || strings.HasPrefix(f.fn, "runtime.panic") || strings.HasPrefix(f.fn, "runtime.goPanic") {
			start = i + 1
		}
	}
	return all[start:]
}

// repoFrame returns the innermost frame that belongs to the repository proper:
// not the injected virtual clock, not an injected hook trampoline, and not the
// repository's in-memory IPFS test double.
func repoFrame(stack string) (string, bool) {
	for _, f := range framesAfterPanic(stack) {
		if !strings.HasPrefix(f.fn, repoModule) {
			continue
		}
		short := strings.TrimPrefix(f.fn, repoModule)
		if strings.HasPrefix(short, "common/vclock.") || strings.HasPrefix(filepath.Base(f.file), "zz_verif_") {
			continue
		}
		if strings.HasPrefix(short, "ipfs.(*memoryIpfs)") {
			return short, false
		}
		return short, true
	}
	return "", false
}

func panicClass(v interface{}) string {
	s := fmt.Sprint(v)
	switch {
	case strings.Contains(s, "nil pointer dereference"):
		return "nil-deref"
	case strings.Contains(s, "index out of range"):
		return "index-out-of-range"
	case strings.Contains(s, "slice bounds out of range"):
		return "slice-bounds"
	case strings.Contains(s, "divide by zero"):
		return "div-by-zero"
	case strings.Contains(s, "nil map"):
		return "nil-map"
	case strings.Contains(s, "makeslice") || strings.Contains(s, "makechan"):
		return "make-len"
	case strings.Contains(s, "interface conversion"):
		return "type-assertion"
	case strings.Contains(s, "closed channel"):
		return "closed-channel"
	case strings.Contains(s, "out of memory"):
		return "oom"
	}
	if _, ok := v.(runtime.Error); ok {
		return "runtime-error"
	}
	return "explicit-panic"
}

// sanitize keeps finding keys stable and readable.
func sanitize(fn string) string {
	r := strings.NewReplacer("(*", "", ")", "", "/", ".", "[...]", "")
	return r.Replace(fn)
}

// verdict evaluates the oracle on a guarded call. It returns true when the
// caller has to abandon the current world (a recovered panic may have left locks held).
// frameLen < 0 means "not a frame-level call" (the allocation cap still applies, with the frame cap as size).
func verdict(t fataler, o outcome, entry string, frameLen int, input func() string) (abandon bool) {
	t.Helper()
	if o.panicked {
		fn, ok := repoFrame(o.stack)
		if !ok {
			t.Fatalf("harness defect (or test double artefact): panic outside the repository in %s: %v\ninput: %s\n%s", entry, o.val, input(), o.stack)
		}
		key := "c12." + sanitize(fn) + "." + panicClass(o.val)
		evid.Count("panic." + key)
		if kf.Report(t, "C12", key, "%s panicked: %v\ninput: %s\nfirst repository frame: %s\n%s", entry, o.val, input(), fn, trimStack(o.stack)) {
			return true
		}
		return true
	}
	if frameLen <= frameCap && o.alloc > allocCap {
		evid.Count("alloc.over_cap")
		t.Fatalf("FINDING property=C12 key=c12.alloc-out-of-proportion: %s allocated %d MiB for an input of %d bytes (cap %d MiB)\ninput: %s", entry, o.alloc>>20, frameLen, allocCap>>20, input())
	}
	return false
}

func trimStack(s string) string {
	lines := strings.Split(s, "\n")
	if len(lines) > 44 {
		lines = lines[:44]
	}
	return strings.Join(lines, "\n")
}

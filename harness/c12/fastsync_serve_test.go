package c12

import (
	"bytes"
	"fmt"
	"os"
	"testing"
	"time"

	mapset "github.com/deckarep/golang-set"
	"github.com/idena-network/idena-go/blockchain/attachments"
	"github.com/idena-network/idena-go/blockchain/types"
	"github.com/idena-network/idena-go/blockchain/validation"
	"github.com/idena-network/idena-go/common"
	"github.com/idena-network/idena-go/core/state"
	"github.com/idena-network/idena-go/core/state/snapshot"
	"github.com/idena-network/idena-go/keystore"
	"github.com/idena-network/idena-go/log"
	"github.com/idena-network/idena-go/protocol"
	"github.com/idena-network/idena-go/subscriptions"
	dbm "github.com/tendermint/tm-db"
	"pgregory.net/rapid"

	"verifharness/internal/evid"
	"verifharness/internal/sim"
)

var serveTxTypes = []types.TxType{types.OnlineStatusTx, types.OnlineStatusTx, types.OnlineStatusTx, types.OnlineStatusTx, types.DelegateTx, types.UndelegateTx, types.KillTx, types.InviteTx, types.SendTx, types.KillDelegatorTx}

func diffBytes(d *state.IdentityStateDiff) []byte {
	if d.Empty() {
		return nil
	}
	b, _ := d.ToBytes()
	return b
}

// TestFastSyncedNodeServesDiffs (property C11, clause "replaying the identity
// diffs a node stores and serves on top of the previous identity state
// reproduces the header identity roots") runs the REAL fast-sync applier of
// protocol/fast.go: node A holds an honest populated history (status switches
// are applied at every height divisible by the switch range whatever the block
// is, so empty blocks and proposed blocks without transactions carry identity
// diffs too); node B, a copy of A at an early height, fast-syncs A's range
// (A's headers, real certificates, A's stored diffs, through the wire encoding
// and the IsValid gate; preConsuming, then validateHeader / defer /
// applyDeferredBlocks in processBatch's order). Afterwards, for every height of
// the range, the diff B stores (what provideBlocks would serve to the next
// node) must equal A's, and replayed in order on a preliminary copy of the
// identity state at B's original head (node C) it must reproduce every header's
// identity root, exactly as fastSync.validateIdentityState checks it.
func TestFastSyncedNodeServesDiffs(t *testing.T) {
	rapid.Check(t, func(t *rapid.T) {
		evid.Eval()
		splitAt := rapid.IntRange(1, 4).Draw(t, "splitAfterBlocks")
		var early dbm.DB
		certs := map[common.Hash]*types.BlockCert{}
		h := sim.RunHistory(t, sim.Options{MinActors: 4, MaxActors: 8, Replicas: 1, MaxReplicas: 3, Steps: splitAt + rapid.IntRange(4, 14).Draw(t, "rangeLen"), MaxTxPerStep: 3, OnlyTypes: serveTxTypes,
			Params: func(p *sim.Params) {
				if pick(t, "ceremonySoon", 4) != 3 {
					p.CeremonyIn = 100000
				}
				p.SwitchRng = uint64(2 + pick(t, "switchRange", 2))
				p.DelegRng = uint64(2 + pick(t, "delegationRange", 2))
				for i := range p.States {
					if i > 0 && i < 5 {
						p.States[i] = state.Verified
						p.Stakes[i] = sim.Dna(int64(10 + i))
						p.Balances[i] = sim.Dna(1000)
					}
				}
			},
			BetweenBlocks: func(h *sim.History) {
				base := h.W.Replicas[0]
				st := base.ReadState()
				if len(h.Blocks) == 0 {
					for _, a := range h.W.Actors {
						if !st.ValidatorsCache.IsValidated(a.Addr) || pick(t, "onlineAtStart", 3) == 2 {
							continue
						}
						tx, err := types.SignTx(&types.Transaction{Type: types.OnlineStatusTx, Epoch: st.State.Epoch(), AccountNonce: base.AppState.NonceCache.GetNonce(a.Addr, st.State.Epoch()) + 1,
							MaxFee: sim.Dna(100), Payload: attachments.CreateOnlineStatusAttachment(true)}, a.Key)
						if err == nil {
							for _, r := range h.W.Replicas {
								r.Pool.AddExternalTxs(validation.MempoolTx, tx)
							}
						}
					}
				}
			},
			BeforeDeliver: func(h *sim.History, proposer *sim.Replica, blk *types.Block) bool {
				// the committee certifies every block (votes are cast before the block is inserted)
				certs[blk.Hash()] = h.W.MakeCert(h.W.Replicas[0], blk, sim.CertValid)
				return true
			},
			AfterBlock: func(h *sim.History, blk *types.Block) {
				if len(h.Blocks) == splitAt {
					early = sim.CopyDB(h.W.Replicas[0].DB)
				}
			}})
		w := h.W
		a := w.Replicas[0]
		if early == nil {
			t.Fatalf("no early copy taken")
		}
		start := func(name string, db dbm.DB) *sim.Replica {
			r := &sim.Replica{W: w, Name: name, Key: w.God.Key, Addr: w.God.Addr, DB: db, Ipfs: a.Ipfs, Loc: time.UTC}
			if err := r.Start(); err != nil {
				t.Fatalf("start %s: %v", name, err)
			}
			return r
		}
		b := start("B", sim.CopyDB(early))
		c := start("C", sim.CopyDB(early))
		from, to := b.Head().Height()+1, a.Head().Height()
		// The harness can certify a block only with keys it owns. When an address outside the actor set is the only
		// online validator (a pool around a fresh address), no certificate exists for that round: the served range ends
		// before the first block that needs one, and at a block that has one.
		for hh := from; hh <= to; hh++ {
			hdr := a.Chain.GetBlockHeaderByHeight(hh)
			if hdr == nil {
				t.Fatalf("A has no header at %d", hh)
			}
			needs := hdr.Flags().HasFlag(types.IdentityUpdate|types.Snapshot|types.NewGenesis) || hdr.ProposedHeader != nil && hdr.ProposedHeader.Upgrade > 0
			if needs && certs[hdr.Hash()].Empty() {
				to = hh - 1
				evid.Count("serve.range_ends_before_uncertifiable_block")
				break
			}
		}
		for to >= from && certs[a.Chain.GetBlockHeaderByHeight(to).Hash()].Empty() {
			to--
		}
		if to < from {
			evid.Count("serve.no_certifiable_range")
			return
		}
		// what A serves (provideBlocks): header, certificate, stored diff
		r := &protocol.VerifBlockRange{BatchId: 1}
		var want []*state.IdentityStateDiff
		for hh := from; hh <= to; hh++ {
			hdr := a.Chain.GetBlockHeaderByHeight(hh)
			if hdr == nil {
				t.Fatalf("A has no header at %d", hh)
			}
			cert := certs[hdr.Hash()]
			required := hdr.Flags().HasFlag(types.IdentityUpdate|types.Snapshot|types.NewGenesis) || hdr.ProposedHeader != nil && hdr.ProposedHeader.Upgrade > 0 || hh == to
			if !required && pick(t, "serveCert", 3) == 0 {
				cert = nil // certificates of ordinary blocks are not kept forever
			}
			if required && cert.Empty() {
				t.Fatalf("no certificate for block %d (%s)", hh, sim.FlagNames(hdr.Flags()))
			}
			d := a.Chain.GetIdentityDiff(hh)
			want = append(want, d)
			r.Blocks = append(r.Blocks, protocol.VerifC12NewRangeItem(hdr, cert, d))
			if !d.Empty() {
				evid.Count("serve.blocks_with_diff")
				if hdr.EmptyBlockHeader != nil {
					evid.Count("serve.empty_block_with_diff")
				} else if len(hdr.ProposedHeader.TxBloom) == 0 {
					evid.Count("serve.txless_proposed_block_with_diff")
				} else {
					evid.Count("serve.proposed_block_with_txs_and_diff")
				}
			}
		}
		dec := new(protocol.VerifBlockRange)
		if err := dec.FromBytes(mustBytes(r.ToBytes())); err != nil || !dec.IsValid() || len(dec.Blocks) != len(r.Blocks) {
			t.Fatalf("A's range does not pass its own encoding and the gate: %v", err)
		}
		// B fast-syncs it through protocol/fast.go
		g := newGossipNode(b)
		n := newNode(b)
		pr, _ := g.newPeer("A")
		tmp := os.Getenv("VERIF_TMP")
		if tmp == "" {
			tmp = os.TempDir()
		}
		ks := keystore.NewKeyStore(tmp+"/ks-serve", keystore.StandardScryptN, keystore.StandardScryptP)
		subs, _ := subscriptions.NewManager(tmp + "/subs-serve")
		fs := protocol.NewFastSync(g.h, log.New(), b.Chain, b.Ipfs, b.AppState, mapset.NewSet(), &snapshot.Manifest{Height: to, Root: a.Chain.GetBlockHeaderByHeight(to).Root()}, nil, b.Bus, b.Addr, ks, subs, n.upgrader)
		if _, err := fs.VerifC12PreConsuming(b.Head()); err != nil {
			t.Fatalf("preConsuming: %v", err)
		}
		for i, it := range dec.Blocks {
			if err := fs.VerifC12ValidateHeader(it); err != nil {
				t.Fatalf("fast sync refuses the honest header %d: %v\n%s", from+uint64(i), err, h.Summary())
			}
			fs.VerifC12Defer(it, pr)
			if _, cert, _ := protocol.VerifC12RangeItem(it); !cert.Empty() {
				if at, err := fs.VerifC12ApplyDeferredBlocks(); err != nil {
					t.Fatalf("fast sync fails to apply the honest range at %d: %v\n%s", at, err, h.Summary())
				}
			}
		}
		// (1) B stores, hence serves, the same diffs as A
		for i, wd := range want {
			hh := from + uint64(i)
			got := b.Chain.GetIdentityDiff(hh)
			if got.Empty() != wd.Empty() || !bytes.Equal(diffBytes(got), diffBytes(wd)) {
				hdr := a.Chain.GetBlockHeaderByHeight(hh)
				kind := "proposed block"
				if hdr.EmptyBlockHeader != nil {
					kind = "empty block"
				} else if len(hdr.ProposedHeader.TxBloom) == 0 {
					kind = "proposed block without transactions"
				}
				t.Fatalf("the fast-synced node stores a different identity diff than its source at height %d (%s, flags %s): source has %d entries, synced node has %d\n%s", hh, kind, sim.FlagNames(hdr.Flags()), lenDiff(wd), lenDiff(got), h.Summary())
			}
		}
		// (2) replaying what B serves on top of the identity state at B's original head reproduces every header's identity root
		pre, err := c.AppState.IdentityState.CreatePreliminaryCopy(c.Head().Height())
		if err != nil {
			t.Fatalf("preliminary copy: %v", err)
		}
		for hh := from; hh <= to; hh++ {
			hdr := b.Chain.GetBlockHeaderByHeight(hh)
			if hdr == nil {
				t.Fatalf("the fast-synced node has no header at %d", hh)
			}
			d := b.Chain.GetIdentityDiff(hh)
			pre.AddDiff(hh, d)
			if pre.Root() != hdr.IdentityRoot() {
				t.Fatalf("replaying the identity diffs the fast-synced node serves does not reproduce the identity root of header %d (%s): %x, header has %x\n%s", hh, sim.FlagNames(hdr.Flags()), pre.Root(), hdr.IdentityRoot(), h.Summary())
			}
			if !d.Empty() {
				pre.CommitTree(int64(hh))
			}
			evid.Count("serve.heights_replayed")
		}
		fs.VerifC12DropPreliminaries()
		evid.NonTrivial(fmt.Sprintf("serve|%d|%d|%s", from, to, h.Descriptor()))
	})
}

func lenDiff(d *state.IdentityStateDiff) int {
	if d == nil {
		return 0
	}
	return len(d.Values)
}

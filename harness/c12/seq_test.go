package c12

import (
	"fmt"
	"math"
	"strings"
	"testing"
	"time"

	mapset "github.com/deckarep/golang-set"
	"github.com/idena-network/idena-go/blockchain/attachments"
	"github.com/idena-network/idena-go/blockchain/types"
	"github.com/idena-network/idena-go/blockchain/validation"
	"github.com/idena-network/idena-go/common"
	"github.com/idena-network/idena-go/common/vclock"
	"github.com/idena-network/idena-go/config"
	"github.com/idena-network/idena-go/consensus"
	"github.com/idena-network/idena-go/core/state"
	"github.com/idena-network/idena-go/log"
	"github.com/idena-network/idena-go/protocol"
	"github.com/idena-network/idena-go/stats/collector"
	"pgregory.net/rapid"

	"verifharness/internal/evid"
	"verifharness/internal/sim"
)

// TestSequences is the stateful variant of the object / frame / range targets:
// hostile-but-accepted objects are allowed to BECOME STATE of the node under
// test - the head block (delivered as a fork, by sync, or as a block fetched by
// hash: the routes that do not consult the offline detector / upgrader), the
// content of the transaction pool, pending and accepted proposals and proofs,
// votes counted by the offline detector and the upgrader, flip keys and key
// packages - and further generated messages for the next round are then
// delivered through the real gossip handler against that state. The same
// panic / hang / allocation oracle guards every call of the whole sequence.

var seqTxTypes = []types.TxType{types.OnlineStatusTx, types.OnlineStatusTx, types.OnlineStatusTx, types.SendTx, types.SendTx, types.DelegateTx, types.InviteTx, types.ReplenishStakeTx, types.BurnTx, types.KillTx, types.UndelegateTx}

type seqCtx struct {
	t        *rapid.T
	w        *sim.World
	own      *sim.Replica // the node under test
	peerSide *sim.Replica // the rest of the network: source of honest blocks and proposals, follows what the node accepts
	g        *gossipNode
	pr       *protocol.VerifC12Peer
	stream   *fakeStream
	theme    string
	trace    []string
}

func (s *seqCtx) note(format string, a ...interface{}) {
	s.trace = append(s.trace, fmt.Sprintf(format, a...))
}

func (s *seqCtx) in(step string) func() string {
	return func() string {
		return fmt.Sprintf("%s\nsequence so far (theme %s, head %d):\n  %s", step, s.theme, s.own.Head().Height(), strings.Join(s.trace, "\n  "))
	}
}

func (s *seqCtx) run(entry string, step string, f func()) {
	in := s.in(step)
	if verdict(s.t, guard(entry, in, f), entry, -1, in) {
		panic(abandon{})
	}
}

// eligible returns the actors that may propose on the peer side's head.
func (s *seqCtx) eligible() []*sim.Actor {
	var res []*sim.Actor
	vc := s.peerSide.AppState.ValidatorsCache
	for _, a := range s.w.Actors {
		if vc.IsOnlineIdentity(a.Addr) || s.peerSide.AppState.State.GodAddress() == a.Addr && vc.OnlineSize() == 0 {
			res = append(res, a)
		}
	}
	return res
}

func (s *seqCtx) onlineActors() []*sim.Actor {
	var res []*sim.Actor
	for _, a := range s.w.Actors {
		if s.peerSide.AppState.ValidatorsCache.IsOnlineIdentity(a.Addr) {
			res = append(res, a)
		}
	}
	return res
}

func (s *seqCtx) advance() {
	t, w := s.t, s.w
	w.Advance(time.Duration(rapid.IntRange(10, 40).Draw(t, "dt")) * time.Second)
	if min := time.Unix(s.peerSide.Head().Time(), 0).Add(10 * time.Second); w.Now().Before(min) {
		w.SetNow(min)
	}
}

// offlineEdit applies a drawn member of the offline-flag family to a proposed header.
func (s *seqCtx) offlineEdit(ph *types.ProposedHeader, choices []string, label string) string {
	t := s.t
	e := rapid.SampledFrom(choices).Draw(t, label)
	addrOf := func(kind string) *common.Address {
		switch kind {
		case "online":
			if on := s.onlineActors(); len(on) > 0 {
				a := on[pick(t, label+"Online", len(on))].Addr
				return &a
			}
			a := s.w.Actors[pick(t, label+"Actor", len(s.w.Actors))].Addr
			return &a
		case "head":
			if h := s.own.Head().OfflineAddr(); h != nil {
				a := *h
				return &a
			}
			return nil
		case "absent":
			a := common.Address{0xee, 0x01}
			return &a
		}
		return nil
	}
	switch e {
	case "honest":
	case "OfflinePropose+addr=nil":
		ph.Flags |= types.OfflinePropose
		ph.OfflineAddr = nil
	case "OfflinePropose+addr=online":
		ph.Flags |= types.OfflinePropose
		ph.OfflineAddr = addrOf("online")
	case "OfflinePropose+addr=absent":
		ph.Flags |= types.OfflinePropose
		ph.OfflineAddr = addrOf("absent")
	case "OfflineCommit+addr=nil":
		ph.Flags |= types.OfflineCommit
		ph.OfflineAddr = nil
	case "OfflineCommit+addr=online":
		ph.Flags |= types.OfflineCommit
		ph.OfflineAddr = addrOf("online")
	case "OfflineCommit+addr=head":
		ph.Flags |= types.OfflineCommit
		ph.OfflineAddr = addrOf("head")
	case "both-flags+addr=online":
		ph.Flags |= types.OfflineCommit | types.OfflinePropose
		ph.OfflineAddr = addrOf("online")
	case "addr-without-flag":
		ph.OfflineAddr = addrOf("online")
	}
	return e
}

// editHeader applies a theme-dependent hostile edit that a route without offline detector / upgrader may accept.
func (s *seqCtx) editHeader(b *types.Block, forHead bool, label string) string {
	t := s.t
	ph := b.Header.ProposedHeader
	theme := s.theme
	if theme == "mixed" || theme == "pool" || theme == "keys" {
		theme = rapid.SampledFrom([]string{"offline", "upgrade", "generic", "honest", "honest"}).Draw(t, label+"Sub")
	}
	switch theme {
	case "offline":
		if forHead {
			return s.offlineEdit(ph, []string{"OfflinePropose+addr=nil", "OfflinePropose+addr=nil", "OfflinePropose+addr=online", "OfflinePropose+addr=absent", "addr-without-flag", "OfflineCommit+addr=online", "honest"}, label)
		}
		return s.offlineEdit(ph, []string{"OfflineCommit+addr=online", "OfflineCommit+addr=online", "OfflineCommit+addr=head", "OfflineCommit+addr=nil", "OfflinePropose+addr=online", "OfflinePropose+addr=nil", "both-flags+addr=online", "honest"}, label)
	case "upgrade":
		e := rapid.SampledFrom([]string{"Upgrade=target", "Upgrade=11", "Upgrade=1", "Upgrade=max", "NewGenesis", "honest"}).Draw(t, label)
		switch e {
		case "Upgrade=target":
			ph.Upgrade = uint32(s.g.upgrader.Target())
		case "Upgrade=11":
			ph.Upgrade = 11
		case "Upgrade=1":
			ph.Upgrade = 1
		case "Upgrade=max":
			ph.Upgrade = math.MaxUint32
		case "NewGenesis":
			ph.Flags |= types.NewGenesis
		}
		return e
	case "generic":
		if l := headerOps[pick(t, label+"Op", len(headerOps))](t, s.w, s.own.Head(), b); l != "" {
			return l
		}
	}
	return "honest"
}

// candidate builds the honest next block / proposal on the peer side's head: proposed by an eligible actor that wins
// the sortition if there is one, through a temporary node holding that actor's key; pending transactions of the
// node under test are offered to the builder (pool content flows into blocks).
func (s *seqCtx) candidate() (*sim.Replica, *types.BlockProposal, []byte) {
	t, w := s.t, s.w
	el := s.eligible()
	if len(el) == 0 {
		return nil, nil, nil
	}
	start := pick(t, "firstCandidate", len(el))
	var tmp *sim.Replica
	var proof []byte
	for i := 0; i < len(el); i++ {
		a := el[(start+i)%len(el)]
		tmp = copyAs(t, w, s.peerSide, "tmp-"+a.String(), a)
		// a node started on a copy of the database begins with the world's initial consensus rules: bring it to the
		// rules the network switched to when an upgrade block was accepted earlier in the sequence (a restarted real
		// node reads the version from its configuration)
		for v := tmp.Cfg.Consensus.Version + 1; v <= s.peerSide.Cfg.Consensus.Version; v++ {
			config.ApplyConsensusVersion(v, tmp.Cfg.Consensus)
		}
		if ok, p := tmp.Chain.GetProposerSortition(); ok {
			proof = p
			break
		}
	}
	for _, tx := range s.own.Pool.GetPendingTransaction(true, true, common.MultiShard, false) {
		tmp.Pool.AddExternalTxs(validation.MempoolTx, tx)
	}
	for i := pick(t, "nHonestTx", 3); i > 0; i-- {
		tx, _ := w.GenTx(t, tmp, seqTxTypes)
		tmp.Pool.AddExternalTxs(validation.MempoolTx, tx)
	}
	if proof == nil {
		proof = []byte{}
	}
	return tmp, tmp.Chain.ProposeBlock(proof), proof
}

// deliverHead lets a (possibly hostile) block become the head of the node through a drawn route.
func (s *seqCtx) deliverHead() {
	t, w := s.t, s.w
	s.advance()
	tmp, prop, _ := s.candidate()
	var honest *types.Block
	if prop != nil {
		honest = prop.Block
	} else {
		honest = s.peerSide.EmptyBlock()
	}
	blk := cloneBlock(t, honest)
	if blk.Body == nil {
		blk.Body = &types.Body{}
	}
	edit := "honest"
	if !blk.IsEmpty() {
		edit = s.editHeader(blk, true, "headEdit")
	}
	if blk.Header == nil || !blk.Header.IsValid() || blk.Body == nil {
		edit += "(gate-rejected)"
		blk = cloneBlock(t, honest)
		if blk.Body == nil {
			blk.Body = &types.Body{}
		}
	} else {
		blk = finishBlock(t, blk, &blockCase{}).block
		if blk.Body == nil {
			blk.Body = &types.Body{}
		}
	}
	_ = tmp
	cert := w.MakeCert(s.peerSide, blk, sim.CertValid)
	if len(blk.Body.Transactions) > 0 {
		s.own.Ipfs.Add(blk.Body.ToBytes(), false) // the serving peer provides the body under the header's cid
	}
	route := rapid.SampledFrom([]string{"fork", "sync", "block"}).Draw(t, "route")
	step := fmt.Sprintf("deliver head via %s: %s edit=%s", route, blockDesc(blk), edit)
	var err error
	switch route {
	case "fork":
		resolver := consensus.NewForkResolver(nil, nil, s.own.Chain, collector.NewStatsCollector())
		s.run("ForkResolver.processBlocks", step, func() { err = resolver.VerifProcessBlocks([]types.BlockBundle{{Block: blk, Cert: cert}}) })
		if err == nil {
			s.run("ForkResolver.ApplyFork", step, func() { _, err = resolver.ApplyFork() })
		}
	case "sync":
		r := &protocol.VerifBlockRange{BatchId: 1, Blocks: []*protocol.VerifRangeBlock{protocol.VerifC12NewRangeItem(blk.Header, cert, nil)}}
		dec := new(protocol.VerifBlockRange)
		if e := dec.FromBytes(mustBytes(r.ToBytes())); e != nil || !dec.IsValid() {
			t.Fatalf("range of one valid header does not pass decoding and the gate: %v", e)
		}
		fs := protocol.NewFullSync(s.g.h, log.New(), s.own.Chain, s.own.Ipfs, s.own.AppState, mapset.NewSet(), blk.Height(), collector.NewStatsCollector())
		s.run("fullSync.validateHeader", step, func() { err = fs.VerifC12ValidateHeader(dec.Blocks[0], s.pr) })
		if err == nil {
			hdr, _, _ := protocol.VerifC12RangeItem(dec.Blocks[0])
			var body *types.Block
			s.run("fullSync.GetBlock", step, func() { body, err = fs.GetBlock(hdr) })
			if err == nil {
				checkState, e := s.own.AppState.ForCheckWithOverwrite(s.own.Head().Height())
				if e != nil {
					t.Fatalf("check state: %v", e)
				}
				s.run("Blockchain.AddBlock(sync)", step, func() { err = s.own.Chain.AddBlock(body, checkState, collector.NewStatsCollector()) })
			}
		}
	default:
		s.run("Blockchain.AddBlock", step, func() { err = s.own.Chain.AddBlock(blk, nil, collector.NewStatsCollector()) })
	}
	accepted := s.own.Head().Hash() == blk.Hash()
	res := "refused"
	if accepted {
		res = "accepted"
	}
	editClass := strings.SplitN(edit, "|", 2)[0]
	evid.Count("seq.head." + route + "." + res)
	evid.Count("seq.head.edit." + editClass + "." + res)
	s.note("head %d via %s edit=%s -> %s (%v)", blk.Height(), route, edit, res, err)
	if accepted {
		if edit != "honest" && !strings.HasSuffix(edit, "(gate-rejected)") {
			evid.Count("seq.hostile_head_accepted")
		}
		if e := s.peerSide.AddBlock(blk); e != nil {
			t.Fatalf("the rest of the network refuses a block the node under test accepted via %s: %v\n%s", route, e, s.in(step)())
		}
	} else {
		// the honest original becomes the head everywhere
		if e := s.peerSide.AddBlock(honest); e != nil {
			t.Fatalf("honest block refused by the peer side: %v", e)
		}
		s.run("Blockchain.AddBlock(honest)", step, func() { err = s.own.Chain.AddBlock(honest, nil, collector.NewStatsCollector()) })
		if s.own.Head().Hash() != honest.Hash() {
			t.Fatalf("honest block refused by the node under test after it refused the hostile one: %v\n%s", err, s.in(step)())
		}
	}
	// what the engine does when a round completes
	height := s.own.Head().Height()
	s.run("Proposals/Votes.CompleteRound + pending", step, func() {
		s.g.props.CompleteRound(height)
		s.g.votes.CompleteRound(height)
		s.g.props.ProcessPendingProofs()
		s.g.props.ProcessPendingBlocks()
	})
}

func (s *seqCtx) deliver(code uint64, payload []byte, step string) error {
	msg := mustBytes((&protocol.Msg{Code: code, Payload: payload}).ToBytes())
	s.stream.feed(protocol.Encode(code, msg))
	var herr error
	s.run("IdenaGossipHandler.handle", step, func() { herr = s.g.h.VerifC12Handle(s.pr) })
	s.run("Flipper.writeLoop(addNewFlip)", step, func() {
		for {
			if more, _ := s.g.flipper.VerifC12DrainOne(); !more {
				return
			}
		}
	})
	s.run("OfflineDetector/Upgrader.processVote", step, func() {
		for s.g.offline.VerifC12DrainVote() {
		}
		for s.g.upgrader.VerifC12DrainVote() {
		}
	})
	return herr
}

// messages delivers 2-5 messages for the next round through the real handler, then plays the engine's next steps.
func (s *seqCtx) messages() {
	t, w := s.t, s.w
	s.advance()
	tmp, prop, proof := s.candidate()
	p := &point{t: t, w: w, v: s.g.node, proposer: tmp, honest: prop, proof: proof}
	if len(proof) == 0 {
		p.proof = nil
	}
	m := &msgSource{t: t, w: w, g: s.g, p: p}
	round := s.own.Chain.Round()
	var winnerPub []byte
	if prop != nil {
		winnerPub = prop.Block.Header.ProposedHeader.ProposerPubKey
	}
	kinds := []string{"proposal", "proposal", "proposal", "proof", "vote", "vote", "tx", "tx", "flipkey", "package", "future-proposal"}
	switch s.theme {
	case "pool":
		kinds = []string{"tx", "tx", "tx", "tx", "proposal", "vote"}
	case "keys":
		kinds = []string{"flipkey", "package", "flip", "tx", "proposal"}
	}
	for i := rapid.IntRange(2, 5).Draw(t, "nMessages"); i > 0; i-- {
		kind := rapid.SampledFrom(kinds).Draw(t, "messageKind")
		evid.Eval()
		switch kind {
		case "proposal", "future-proposal":
			if prop == nil {
				evid.Count("seq.msg.proposal.no_proposer")
				continue
			}
			b := cloneBlock(t, prop.Block)
			if b.Body == nil {
				b.Body = &types.Body{}
			}
			edit := s.editHeader(b, false, "proposalEdit")
			editClass := strings.SplitN(edit, "|", 2)[0]
			if kind == "future-proposal" && b.Header != nil && b.Header.ProposedHeader != nil {
				b.Header.ProposedHeader.Height += uint64(1 + pick(t, "ahead", 2))
				edit += "+future"
				evid.Count("seq.msg.proposal_for_future_round")
			}
			if len(proof) == 0 {
				edit += "(no sortition)"
				evid.Count("seq.msg.proposal_without_sortition")
			}
			signed := p.signProposal(b, proof)
			step := fmt.Sprintf("ProposeBlock round %d: %s edit=%s", round, blockDesc(b), edit)
			herr := s.deliver(protocol.ProposeBlock, mustBytes(signed.ToBytes()), step)
			added := false
			if b.Header.IsValid() {
				if _, e := s.g.props.GetBlockByHash(round, b.Hash()); e == nil {
					added = true
				}
			}
			res := "not-added"
			if added {
				res = "added"
			}
			evid.Count("seq.msg.proposal." + editClass + "." + res)
			if added && len(s.trace) > 0 && strings.Contains(strings.Join(s.trace, ";"), "-> accepted") {
				evid.Count("seq.proposal_added_after_delivered_head")
			}
			s.note("proposal edit=%s -> handle=%v %s", edit, herr, res)
		case "proof":
			signer := w.Actors[pick(t, "proofSigner", len(w.Actors))]
			if tmp != nil && pick(t, "byWinner", 2) == 0 {
				signer = w.ByAddr[tmp.Addr]
			}
			pf, pl := p.hostileProof("seqProof", signer.Key)
			pp := &types.ProofProposal{Proof: pf, Round: round + uint64(pick(t, "proofAhead", 2))}
			signProof(pp, signer)
			step := fmt.Sprintf("ProposeProof round %d by %s %s", pp.Round, signer, pl)
			herr := s.deliver(protocol.ProposeProof, mustBytes(pp.ToBytes()), step)
			evid.Count("seq.msg.proof")
			s.note("proof %s by %s -> handle=%v", pl, signer, herr)
		case "vote":
			voted := common.Hash{7}
			if prop != nil {
				voted = prop.Block.Hash()
			}
			head := s.own.Head()
			vote := &types.Vote{Header: &types.VoteHeader{Round: round, Step: uint8(rapid.SampledFrom([]int{1, types.ReductionOne, types.ReductionTwo, types.Final}).Draw(t, "voteStep")),
				ParentHash: head.Hash(), VotedHash: rapid.SampledFrom([]common.Hash{voted, head.Hash(), {}}).Draw(t, "votedHash"),
				TurnOffline: rapid.Bool().Draw(t, "turnOffline"), Upgrade: uint32(rapid.SampledFrom([]uint64{0, 0, 11, 12, uint64(s.g.upgrader.Target()), math.MaxUint32}).Draw(t, "voteUpgrade"))}}
			voter := w.Actors[pick(t, "voter", len(w.Actors))]
			signVote(vote, voter)
			step := fmt.Sprintf("Vote %+v by %s", *vote.Header, voter)
			herr := s.deliver(protocol.Vote, mustBytes(vote.ToBytes()), step)
			evid.Count("seq.msg.vote")
			s.note("vote offline=%v upgrade=%d voted=%x by %s -> handle=%v", vote.Header.TurnOffline, vote.Header.Upgrade, vote.Header.VotedHash[:2], voter, herr)
		case "tx":
			c := genHostileTx(t, w, s.own, nil)
			step := "NewTx " + c.String()
			before := s.g.txCount.calls
			herr := s.deliver(protocol.NewTx, c.wire, step)
			evid.Count("seq.msg.tx")
			if _, ok := poolHas(s.own, c.tx); ok {
				evid.Count("seq.msg.tx.in_pool")
			}
			s.note("tx %s %v -> handle=%v reached pool=%v", typeName(c.typ), c.labels, herr, s.g.txCount.calls > before)
		case "flipkey", "package", "flip":
			code := map[string]uint64{"flipkey": protocol.FlipKey, "package": protocol.FlipKeysPackage, "flip": protocol.FlipBody}[kind]
			payload, what := m.payload(code)
			step := fmt.Sprintf("%s (%s) %x", codeName(code), what, clip(payload, 300))
			herr := s.deliver(code, payload, step)
			evid.Count("seq.msg." + kind)
			s.note("%s -> handle=%v", kind, herr)
		}
	}
	// the engine's next steps on what it has collected for the round
	if prop != nil {
		var blk *types.Block
		var err error
		s.run("Proposals.GetProposedBlock", "engine: take the best proposal of the round", func() { blk, err = s.g.props.GetProposedBlock(round, winnerPub, time.Millisecond) })
		if err == nil && blk != nil {
			evid.Count("seq.engine.proposed_block_valid")
			if rapid.Bool().Draw(t, "consensusOnProposal") {
				s.run("Blockchain.AddBlock(consensus)", "engine: insert the proposal the round agreed on: "+blockDesc(blk), func() { err = s.own.Chain.AddBlock(blk, nil, collector.NewStatsCollector()) })
				if s.own.Head().Hash() == blk.Hash() {
					evid.Count("seq.head.proposal.accepted")
					s.note("head %d via proposal route", blk.Height())
					if e := s.peerSide.AddBlock(blk); e != nil {
						t.Fatalf("the rest of the network refuses the proposal the node under test inserted: %v\n%s", e, s.in("")())
					}
					height := blk.Height()
					s.run("Proposals/Votes.CompleteRound + pending", "engine: round completed", func() {
						s.g.props.CompleteRound(height)
						s.g.votes.CompleteRound(height)
						s.g.props.ProcessPendingProofs()
						s.g.props.ProcessPendingBlocks()
					})
				}
			}
		}
	}
	// the node builds blocks itself from what its pool holds by now
	if s.theme == "pool" || pick(t, "buildOwn", 3) == 0 {
		s.run("Blockchain.ProposeBlock", "node builds a proposal from its pool", func() { s.own.Chain.ProposeBlock([]byte{}) })
		s.run("Blockchain.GenerateEmptyBlock", "node builds the empty block", func() { s.own.Chain.GenerateEmptyBlock() })
		evid.Count("seq.own_block_built")
	}
}

func poolHas(r *sim.Replica, tx *types.Transaction) (int, bool) {
	for i, x := range r.Pool.GetPendingTransaction(true, true, common.MultiShard, false) {
		if x.Hash() == tx.Hash() {
			return i, true
		}
	}
	return 0, false
}

func TestSequences(t *testing.T) {
	rapid.Check(t, func(t *rapid.T) {
		defer func() {
			if r := recover(); r != nil {
				if _, ok := r.(abandon); ok {
					evid.Count("world.abandoned_after_known_finding")
					return
				}
				panic(r)
			}
		}()
		far := pick(t, "ceremonySoon", 4) != 3
		h := sim.RunHistory(t, sim.Options{MinActors: 4, MaxActors: 7, Replicas: 1, MaxReplicas: 3, Steps: rapid.IntRange(4, 9).Draw(t, "prefix"), MaxTxPerStep: 4, OnlyTypes: seqTxTypes,
			Params: func(p *sim.Params) {
				if far {
					p.CeremonyIn = 100000
				} else if p.CeremonyIn > 1000 {
					p.CeremonyIn = 300
				}
				p.SwitchRng = 2
				for i := range p.States {
					if i%2 == 1 || i == 2 {
						p.States[i] = state.Verified
						p.Stakes[i] = sim.Dna(int64(10 + i))
						p.Balances[i] = sim.Dna(1000)
					}
				}
			},
			BetweenBlocks: func(h *sim.History) {
				if len(h.Blocks) != 0 {
					return
				}
				// validated identities go online right away, so that there are online identities / committees later
				base := h.W.Replicas[0]
				st := base.ReadState()
				for _, a := range h.W.Actors {
					if !st.ValidatorsCache.IsValidated(a.Addr) {
						continue
					}
					tx, err := types.SignTx(&types.Transaction{Type: types.OnlineStatusTx, Epoch: st.State.Epoch(), AccountNonce: base.AppState.NonceCache.GetNonce(a.Addr, st.State.Epoch()) + 1,
						MaxFee: sim.Dna(100), Payload: attachments.CreateOnlineStatusAttachment(true)}, a.Key)
					if err == nil {
						for _, r := range h.W.Replicas {
							r.Pool.AddExternalTxs(validation.MempoolTx, tx)
						}
					}
				}
			}})
		w := h.W
		base := w.Replicas[0]
		vclock.SetMode("pengings", vclock.Free)
		s := &seqCtx{t: t, w: w}
		s.own = copyAs(t, w, base, "own", w.God)
		s.peerSide = copyAs(t, w, base, "peer", w.God)
		s.g = newGossipNode(s.own)
		s.pr, s.stream = s.g.newPeer("peer")
		if err := s.g.h.VerifC12Register(s.pr); err != nil {
			t.Fatalf("register peer: %v", err)
		}
		s.theme = rapid.SampledFrom([]string{"offline", "offline", "offline", "upgrade", "generic", "mixed", "pool", "keys"}).Draw(t, "theme")
		evid.Count("seq.theme." + s.theme)
		if len(s.onlineActors()) > 0 {
			evid.Count("seq.world_with_online_identities")
		}
		evid.Count("seq.period." + sim.PeriodName(s.own.ReadState().State.ValidationPeriod()))
		rounds := rapid.IntRange(2, 4).Draw(t, "rounds")
		for r := 0; r < rounds; r++ {
			evid.Count("seq.round")
			if pick(t, "deliverHead", 4) != 3 {
				evid.Eval()
				s.deliverHead()
			}
			s.messages()
		}
		evid.NonTrivial("seq|" + s.theme + "|" + strings.Join(s.trace, ";"))
		evid.Sample("sequence", "seq|"+s.theme+"|"+strings.Join(s.trace, ";"))
	})
}

package c12

import (
	"crypto/ecdsa"
	"fmt"
	"math"
	mrand "math/rand"
	"strings"
	"testing"
	"time"

	"github.com/idena-network/idena-go/blockchain"
	"github.com/idena-network/idena-go/blockchain/attachments"
	"github.com/idena-network/idena-go/blockchain/fee"
	"github.com/idena-network/idena-go/blockchain/types"
	"github.com/idena-network/idena-go/blockchain/validation"
	"github.com/idena-network/idena-go/common"
	"github.com/idena-network/idena-go/common/vclock"
	"github.com/idena-network/idena-go/core/flip"
	"github.com/idena-network/idena-go/core/mempool"
	"github.com/idena-network/idena-go/core/state"
	"github.com/idena-network/idena-go/core/upgrade"
	"github.com/idena-network/idena-go/crypto"
	"github.com/idena-network/idena-go/crypto/ecies"
	"github.com/idena-network/idena-go/pengings"
	"github.com/idena-network/idena-go/secstore"
	"github.com/idena-network/idena-go/stats/collector"
	"github.com/libp2p/go-libp2p-core/peer"
	"github.com/pkg/errors"
	"pgregory.net/rapid"

	"verifharness/internal/evid"
	"verifharness/internal/sim"
)

// node is a replica together with the message consumers node.NewNodeWithInjections
// builds around the same database / state / bus (sim.Replica.Start builds the rest).
type node struct {
	r        *sim.Replica
	sec      *secstore.SecStore
	offline  *blockchain.OfflineDetector
	upgrader *upgrade.Upgrader
	votes    *pengings.Votes
	keys     *mempool.KeysPool
	flipper  *flip.Flipper
}

func newNode(r *sim.Replica) *node {
	n := &node{r: r}
	n.sec = secstore.NewSecStore()
	n.sec.AddKey(crypto.FromECDSA(r.Key))
	n.offline = blockchain.NewOfflineDetector(r.Cfg, r.DB, r.AppState, n.sec, r.Bus)
	n.upgrader = upgrade.NewUpgrader(r.Cfg, r.AppState, r.DB)
	n.votes = pengings.NewVotes(r.AppState, r.Bus, n.offline, n.upgrader)
	n.votes.Initialize(r.Chain.Head)
	n.keys = mempool.NewKeysPool(r.DB, r.AppState, r.Bus, n.sec)
	n.keys.Initialize(r.Chain.Head)
	n.flipper = flip.VerifC12NewFlipper(r.DB, r.Ipfs, n.keys, r.Pool, n.sec, r.AppState, r.Bus)
	n.flipper.Initialize()
	return n
}

func (n *node) proposals() *pengings.Proposals {
	p, _ := pengings.NewProposals(n.r.Chain, n.r.AppState, n.offline, n.upgrader, collector.NewStatsCollector())
	return p
}

func copyReplica(t *rapid.T, w *sim.World, src *sim.Replica) *sim.Replica {
	r := &sim.Replica{W: w, Name: "copy-of-" + src.Name, Key: src.Key, Addr: src.Addr, DB: sim.CopyDB(src.DB), Ipfs: src.Ipfs, Loc: time.UTC}
	if err := r.Start(); err != nil {
		t.Fatalf("start copy: %v", err)
	}
	return r
}

var kindNames = map[validation.TxType]string{validation.InBlockTx: "InBlock", validation.MempoolTx: "Mempool", validation.InboundTx: "Inbound"}

// reachedTypeValidator mirrors the order of checks in validation.ValidateTx: it
// says whether err can only have come from (or after) the type-specific validator.
func reachedTypeValidator(st *state.StateDB, tx *types.Transaction, kind validation.TxType, upgrade11 bool, err error) bool {
	if err == nil {
		return true
	}
	switch errors.Cause(err) {
	case validation.InvalidSignature, validation.NegativeValue, validation.InvalidEpoch, validation.InvalidNonce, validation.InvalidMaxFee,
		validation.TooHighMaxFee, validation.BigFee, validation.InsufficientFunds:
		return false
	case validation.InvalidPayload:
		max := validation.MaxPayloadSize
		if upgrade11 {
			max = validation.MaxPayloadSizeUpgrade11
		}
		return len(tx.Payload) <= max
	case validation.LateTx:
		p := st.ValidationPeriod()
		if !validation.CeremonialTxs[tx.Type] && kind != validation.InBlockTx && (p == state.FlipLotteryPeriod || p == state.ShortSessionPeriod) {
			return false
		}
		return true
	}
	return err.Error() != "unknown tx type"
}

func setCommitments(r *sim.Replica, b *types.Block) {
	h := b.Header.ProposedHeader
	h.TxHash = types.DeriveSha(types.Transactions(b.Body.Transactions))
	h.IpfsHash = nil
	if len(b.Body.Transactions) > 0 {
		if c, err := r.Ipfs.Cid(b.Body.ToBytes()); err == nil {
			h.IpfsHash = c.Bytes()
		}
	}
	h.TxBloom = blockchain.VerifCalculateTxBloom(b, nil)
}

type point struct {
	t        *rapid.T
	w        *sim.World
	v        *node // the receiving node
	proposer *sim.Replica
	honest   *types.BlockProposal // honest proposal for the next round (nil when nobody can propose)
	proof    []byte               // the proposer's sortition proof, if it won
	period   string
	fresh    bool
}

func (p *point) stateClass() string {
	if p.fresh {
		return "fresh"
	}
	return "populated." + p.period
}

// run executes one entry point under the oracle (recover, allocation cap, watchdog).
func (p *point) run(entry string, input func() string, f func()) {
	if verdict(p.t, guard(entry, input, f), entry, -1, input) {
		panic(abandon{})
	}
}

// runFast is run without the allocation measurement.
func (p *point) runFast(entry string, input func() string, f func()) {
	if verdict(p.t, guardFast(entry, input, f), entry, -1, input) {
		panic(abandon{})
	}
}

// TestObjects is the object target: structurally valid, semantically hostile
// objects against the validators, block validation and the pools of a node
// holding a fresh or a populated state.
func TestObjects(t *testing.T) {
	rapid.Check(t, func(t *rapid.T) {
		defer func() {
			if r := recover(); r != nil {
				if _, ok := r.(abandon); ok {
					evid.Count("world.abandoned_after_known_finding")
					return
				}
				panic(r)
			}
		}()
		steps := rapid.SampledFrom([]int{0, 0, 4, 9, 15, 22}).Draw(t, "historySteps")
		opt := sim.Options{MinActors: 3, MaxActors: 8, Replicas: 2, MaxReplicas: 4, Steps: steps, MaxTxPerStep: 5}
		soon := rapid.Bool().Draw(t, "ceremonySoon")
		opt.Params = func(p *sim.Params) {
			if soon && p.CeremonyIn > 1000 {
				p.CeremonyIn = 300
			}
		}
		nodes := map[*sim.Replica]*node{}
		evalAt := func(w *sim.World, n int, fresh bool) {
			p := &point{t: t, w: w, fresh: fresh}
			vclock.SetMode("pengings", vclock.Free) // Proposals.GetProposedBlock polls with sleeps: let them advance the virtual clock
			p.proposer = w.Proposer(t, 4)
			var vr *sim.Replica
			for _, r := range w.Replicas {
				if r != p.proposer {
					vr = r
					break
				}
			}
			if nodes[vr] == nil {
				nodes[vr] = newNode(vr)
			}
			p.v = nodes[vr]
			p.period = sim.PeriodName(vr.ReadState().State.ValidationPeriod())
			if p.proposer != nil {
				p.honest = p.proposer.Propose()
				if ok, proof := p.proposer.Chain.GetProposerSortition(); ok {
					p.proof = proof
				}
			}
			evid.Count("point." + p.stateClass())
			{
				// the flip-key exchange, for (at most two) authors that have flips at this point
				st := vr.ReadState()
				played := 0
				for _, a := range w.Actors {
					if played < 2 && len(st.State.GetIdentity(a.Addr).Flips) > 0 {
						evid.Eval()
						p.keysScenario(a)
						played++
					}
				}
			}
			if len(w.Contracts) > 0 {
				evid.Count("point.feature.contract_deployed")
			}
			{
				st := vr.ReadState()
				flips, invites, pools, delegated := false, false, false, false
				for _, a := range w.Actors {
					id := st.State.GetIdentity(a.Addr)
					flips = flips || len(id.Flips) > 0
					invites = invites || id.State == state.Invite || len(id.Invitees) > 0
					pools = pools || st.ValidatorsCache.IsPool(a.Addr)
					delegated = delegated || id.Delegatee() != nil
				}
				for k, v := range map[string]bool{"flips": flips, "invitations": invites, "pools": pools, "delegations": delegated} {
					if v {
						evid.Count("point.feature." + k)
					}
				}
			}
			for i := 0; i < n; i++ {
				evid.Eval()
				switch c := pick(t, "objectClass", 20); {
				case c < 11:
					p.evalTx()
				case c < 15:
					p.evalHeader()
				case c < 16:
					p.evalProof()
				case c < 17:
					p.evalVote()
				case c < 18:
					p.evalCert()
				case c < 19:
					p.evalKeys()
				default:
					p.evalFlip()
				}
			}
		}
		opt.BetweenBlocks = func(h *sim.History) {
			// make the features the validators look at likely to exist later on: contracts, flips, pools, invitations
			if len(h.Blocks) < 4 {
				for _, typ := range []types.TxType{types.DeployContractTx, types.SubmitFlipTx, types.DelegateTx, types.InviteTx} {
					tx, _ := h.W.GenTx(t, h.W.Replicas[0], []types.TxType{typ})
					for _, r := range h.W.Replicas {
						r.Pool.AddExternalTxs(validation.MempoolTx, tx)
					}
				}
			}
			if rapid.IntRange(0, 3).Draw(t, "evalHere") == 0 {
				evalAt(h.W, rapid.IntRange(3, 10).Draw(t, "nObjects"), false)
			}
		}
		h := sim.RunHistory(t, opt)
		// after the history: a block must be producible now
		w := h.W
		w.Advance(time.Duration(rapid.IntRange(10, 40).Draw(t, "dt")) * time.Second)
		if min := time.Unix(w.Replicas[0].Head().Time(), 0).Add(10 * time.Second); w.Now().Before(min) {
			w.SetNow(min)
		}
		evalAt(w, rapid.IntRange(12, 40).Draw(t, "nObjectsAtEnd"), steps == 0)
	})
}

// ---------------------------------------------------------------------------

func (p *point) evalTx() {
	t, w, v := p.t, p.w, p.v.r
	appended := p.honest != nil && len(p.honest.Block.Body.Transactions) > 0 && pick(t, "appendToBody", 2) == 0
	var before []*types.Transaction
	if appended {
		before = p.honest.Block.Body.Transactions
	}
	c := genHostileTx(t, w, v, before)
	tn := typeName(c.typ)
	evid.Count("tx.type." + tn)
	for _, l := range c.labels {
		evid.Count("tx." + tn + "." + l)
	}
	in := func() string { return c.String() + " state=" + p.stateClass() }
	sender, _ := types.Sender(c.tx)
	if sender != (common.Address{}) {
		evid.Count("tx.signature_recovered")
	}
	// (a) the validator itself, on a read-only view of the head
	reachedInBlock := false
	for _, kind := range []validation.TxType{validation.InBlockTx, validation.MempoolTx, validation.InboundTx} {
		st := v.ReadState()
		minFee := fee.GetFeePerGasForNetwork(st.ValidatorsCache.NetworkSize())
		var err error
		p.runFast("validation.ValidateTx("+kindNames[kind]+")", in, func() { err = validation.ValidateTx(st, c.tx, minFee, kind) })
		reached := reachedTypeValidator(st.State, c.tx, kind, v.Cfg.Consensus.EnableUpgrade11, err)
		if reached {
			evid.Count("tx.reached_validator." + tn)
			verdictName := "rejected"
			if err == nil {
				verdictName = "accepted"
				evid.Count("tx.accepted." + tn)
			}
			evid.NonTrivial(fmt.Sprintf("tx|%s|%s|%v|%s|%s", tn, kindNames[kind], c.labels, verdictName, p.stateClass()))
			evid.Sample("object.tx", fmt.Sprintf("tx|%s|%s|%v|%s|%s", tn, kindNames[kind], c.labels, verdictName, p.stateClass()))
			if kind == validation.InBlockTx {
				reachedInBlock = true
			}
		}
	}
	// the pool's own entries: Validate (the flip handler's route, no recover) and the gossip route
	var perr error
	p.runFast("TxPool.Validate", in, func() { perr = v.Pool.Validate(c.tx) })
	if pick(t, "offerToPool", 4) == 0 {
		kind := rapid.SampledFrom([]validation.TxType{validation.InboundTx, validation.MempoolTx}).Draw(t, "poolKind")
		p.runFast("TxPool.AddExternalTxs", in, func() { perr = v.Pool.AddExternalTxs(kind, c.tx) })
		if perr == nil {
			evid.Count("tx.pool_accepted." + tn)
		}
	}
	// (b) a block assembled around it, validated by another node
	if p.honest == nil {
		evid.Count("tx.no_proposer_for_block")
		return
	}
	b := cloneBlock(t, p.honest.Block)
	if b.Body == nil {
		b.Body = &types.Body{}
	}
	mode := "alone"
	if appended {
		b.Body.Transactions = append(b.Body.Transactions, c.tx)
		mode = "appended"
	} else {
		b.Body.Transactions = []*types.Transaction{c.tx}
	}
	setCommitments(v, b)
	bc := finishBlock(t, b, &blockCase{labels: append([]string{"hostile-tx-" + mode}, c.labels...)})
	if !bc.block.IsValid() {
		t.Fatalf("assembled block does not pass the IsValid gate: %s", bc)
	}
	evid.Count("block.with_hostile_tx." + mode)
	inB := func() string { return bc.String() + "\n  tx: " + c.String() + " state=" + p.stateClass() }
	var err error
	p.run("Blockchain.ValidateBlock", inB, func() { _, err = v.Chain.ValidateBlock(bc.block, nil, collector.NewStatsCollector()) })
	if reachedInBlock {
		evid.Count("block.tx_reached_validator." + tn)
		evid.NonTrivial(fmt.Sprintf("blocktx|%s|%s|%v|%v|%s", tn, mode, c.labels, err == nil, p.stateClass()))
		evid.Sample("object.blocktx", fmt.Sprintf("blocktx|%s|%s|%v|%v|%s", tn, mode, c.labels, err == nil, p.stateClass()))
	}
	if err == nil {
		evid.Count("block.with_hostile_tx.accepted")
	}
	if err == nil || pick(t, "addBlockAnyway", 12) == 0 {
		cp := copyReplica(t, w, v)
		p.run("Blockchain.AddBlock", inB, func() { err = cp.Chain.AddBlock(bc.block, nil, collector.NewStatsCollector()) })
		evid.Count("block.add_block_called")
	}
}

func (p *point) signProposal(b *types.Block, proof []byte) *types.BlockProposal {
	prop := &types.BlockProposal{Block: b, Proof: proof}
	signer := p.w.ByAddr[p.proposer.Addr]
	if b != nil && b.Header != nil && b.Header.ProposedHeader != nil {
		if addr, err := crypto.PubKeyBytesToAddress(b.Header.ProposedHeader.ProposerPubKey); err == nil {
			if a := p.w.ByAddr[addr]; a != nil {
				signer = a
			}
		}
	}
	h := crypto.SignatureHash(prop)
	sig, err := crypto.Sign(h[:], signer.Key)
	if err != nil {
		p.t.Fatalf("sign proposal: %v", err)
	}
	prop.Signature = sig
	return prop
}

// proposerData is the message a proposer's sortition proof is checked against on the receiving node.
func (p *point) proposerData() []byte {
	head := p.v.r.Chain.Head
	return append(append(head.Seed().Bytes(), common.ToBytes(blockchain.ProposerRole)...), common.ToBytes(head.Height()+1)...)
}

// hostileProof draws a sortition proof; key is the key the receiver will verify it against (nil if unknown).
func (p *point) hostileProof(label string, key *ecdsa.PrivateKey) ([]byte, string) {
	t := p.t
	switch pick(t, label, 10) {
	case 6, 7, 8, 9:
		c := vrfCtx{key: key, msg: p.proposerData()}
		if p.proposer != nil && key != nil && p.proposer.Key == key {
			c.honest = p.proof
		}
		proof, l := hostileVrfProof(t, label, c)
		return proof, "proof=" + l
	case 0:
		return nil, "proof=nil"
	case 1:
		return junk(t, label+"Junk", 1, 140), "proof=junk"
	case 2:
		return junk(t, label+"Junk129", 129, 129), "proof=junk129"
	case 3:
		if len(p.proof) > 0 {
			return flipBits(t, p.proof, label+"Flip"), "proof=bitflip"
		}
	}
	if len(p.proof) > 0 {
		return p.proof, "proof=real"
	}
	return []byte{}, "proof=empty"
}

func (p *point) evalHeader() {
	t, w, v := p.t, p.w, p.v.r
	if p.honest == nil {
		evid.Count("hdr.no_proposer")
		return
	}
	c := genHostileHeaderBlock(t, w, v.Head(), p.honest.Block)
	for _, l := range c.labels {
		evid.Count("hdr." + l)
	}
	in := func() string { return c.String() + " state=" + p.stateClass() }
	b := c.block
	desc := fmt.Sprintf("hdr|%v|%s", c.labels, p.stateClass())
	// sync routes check Header.IsValid (blockRange.IsValid), then ValidateHeader
	if b.Header.IsValid() {
		var err error
		p.runFast("Blockchain.ValidateHeader", in, func() { err = v.Chain.ValidateHeader(b.Header, v.Head()) })
		evid.Count("hdr.reached.ValidateHeader")
		if err == nil {
			evid.Count("hdr.ValidateHeader_accepted")
		}
		evid.NonTrivial(desc + fmt.Sprintf("|ValidateHeader|%v", err == nil))
	} else {
		evid.Count("hdr.gate_rejected.Header.IsValid")
	}
	if b.IsValid() {
		var err error
		p.run("Blockchain.ValidateBlock", in, func() { _, err = v.Chain.ValidateBlock(b, nil, collector.NewStatsCollector()) })
		evid.Count("hdr.reached.ValidateBlock")
		if err == nil {
			evid.Count("hdr.ValidateBlock_accepted")
		}
		evid.NonTrivial(desc + fmt.Sprintf("|ValidateBlock|%v", err == nil))
		if err == nil || pick(t, "addBlockAnyway", 8) == 0 {
			cp := copyReplica(t, w, v)
			p.run("Blockchain.AddBlock", in, func() { err = cp.Chain.AddBlock(b, nil, collector.NewStatsCollector()) })
			evid.Count("hdr.reached.AddBlock")
		}
	} else {
		evid.Count("hdr.gate_rejected.Block.IsValid")
	}
	// as a proposal of the current round
	var proofKey *ecdsa.PrivateKey
	if b.Header != nil && b.Header.ProposedHeader != nil {
		if addr, err := crypto.PubKeyBytesToAddress(b.Header.ProposedHeader.ProposerPubKey); err == nil && w.ByAddr[addr] != nil {
			proofKey = w.ByAddr[addr].Key
		}
	}
	proof, pl := p.hostileProof("proposalProof", proofKey)
	var prop *types.BlockProposal
	if b.Header == nil && pick(t, "nilBlockProposal", 2) == 0 {
		prop = p.signProposal(nil, proof)
	} else {
		prop = p.signProposal(b, proof)
	}
	if pick(t, "proposalSigHostile", 10) == 0 {
		var l string
		prop.Signature, l = hostileSig(t, prop.Signature, "proposalSig")
		pl += "+" + l
	}
	wire, err := prop.ToBytes()
	if err != nil {
		t.Fatalf("encode proposal: %v", err)
	}
	dec := new(types.BlockProposal)
	if err := dec.FromBytes(wire); err != nil {
		t.Fatalf("own encoding of a proposal does not decode: %v", err)
	}
	inP := func() string {
		return fmt.Sprintf("proposal{%s %s} wire=%x state=%s", blockDesc(dec.Block), pl, clip(wire, 600), p.stateClass())
	}
	var valid bool
	p.runFast("BlockProposal.IsValid", inP, func() { valid = dec.IsValid() })
	if !valid {
		evid.Count("proposal.gate_rejected")
		return
	}
	evid.Count("proposal.reached.AddProposedBlock")
	var added, pending bool
	props := p.v.proposals()
	p.run("Proposals.AddProposedBlock", inP, func() { added, pending = props.AddProposedBlock(dec, peer.ID("hostile-peer"), w.Now()) })
	if added {
		evid.Count("proposal.added")
		// the engine's next step on an added proposal
		p.run("Proposals.GetProposedBlock", inP, func() {
			_, _ = props.GetProposedBlock(dec.Block.Height(), dec.Block.Header.ProposedHeader.ProposerPubKey, time.Millisecond)
		})
	}
	if pending {
		evid.Count("proposal.pending")
		p.run("Proposals.ProcessPendingBlocks", inP, func() { props.ProcessPendingBlocks() })
	}
	evid.NonTrivial(desc + fmt.Sprintf("|proposal|%s|%v|%v", pl, added, pending))
}

func (p *point) evalProof() {
	t, w := p.t, p.w
	round := p.v.r.Chain.Round()
	a := w.Actors[pick(t, "proofSigner", len(w.Actors))]
	if p.proposer != nil && pick(t, "byProposer", 2) == 0 {
		a = w.ByAddr[p.proposer.Addr]
	}
	proof, pl := p.hostileProof("proofProposal", a.Key)
	pp := &types.ProofProposal{Proof: proof, Round: rapid.SampledFrom([]uint64{round, round, round, round + 1, round + 29, round + 30, 0, math.MaxUint64}).Draw(t, "proofRound")}
	h := crypto.SignatureHash(pp)
	sig, _ := crypto.Sign(h[:], a.Key)
	var sl string
	pp.Signature, sl = hostileSig(t, sig, "proofSig")
	wire, _ := pp.ToBytes()
	dec := new(types.ProofProposal)
	if err := dec.FromBytes(wire); err != nil {
		t.Fatalf("own encoding of a proof proposal does not decode: %v", err)
	}
	evid.Count("proof." + pl)
	evid.Count("proof." + sl)
	in := func() string {
		return fmt.Sprintf("proofProposal{round=%d (current %d) %s %s signer=%s} wire=%x", dec.Round, round, pl, sl, a, wire)
	}
	props := p.v.proposals()
	var added, pending bool
	p.run("Proposals.AddProposeProof", in, func() { added, pending = props.AddProposeProof(dec) })
	evid.Count("proof.reached.AddProposeProof")
	if added {
		evid.Count("proof.added")
	}
	if pending {
		p.run("Proposals.ProcessPendingProofs", in, func() { props.ProcessPendingProofs() })
	}
	evid.NonTrivial(fmt.Sprintf("proof|%s|%s|%d|%v|%v", pl, sl, int64(dec.Round-round), added, pending))
}

func (p *point) drainVotes(in func() string) {
	p.runFast("OfflineDetector/Upgrader.processVote", in, func() {
		for p.v.offline.VerifC12DrainVote() {
		}
		for p.v.upgrader.VerifC12DrainVote() {
		}
	})
}

func (p *point) evalVote() {
	t, w, v := p.t, p.w, p.v.r
	head := v.Head()
	voted := common.Hash{1}
	if p.honest != nil {
		voted = p.honest.Block.Hash()
	}
	vote := &types.Vote{Header: &types.VoteHeader{
		Round:       rapid.SampledFrom([]uint64{head.Height() + 1, head.Height() + 1, head.Height(), head.Height() + 31, head.Height() + 32, 0, math.MaxUint64}).Draw(t, "voteRound"),
		Step:        uint8(rapid.SampledFrom([]int{1, types.ReductionOne, types.ReductionTwo, types.Final, 0, 7}).Draw(t, "voteStep")),
		ParentHash:  rapid.SampledFrom([]common.Hash{head.Hash(), {}, {2}}).Draw(t, "voteParent"),
		VotedHash:   rapid.SampledFrom([]common.Hash{voted, {}, {3}}).Draw(t, "votedHash"),
		TurnOffline: rapid.Bool().Draw(t, "turnOffline"),
		Upgrade:     uint32(rapid.SampledFrom([]uint64{0, 0, 10, 11, 12, 13, math.MaxUint32}).Draw(t, "voteUpgrade")),
	}}
	a := w.Actors[pick(t, "voter", len(w.Actors))]
	signVote(vote, a)
	var sl string
	vote.Signature, sl = hostileSig(t, vote.Signature, "voteSig")
	hl := "header"
	if pick(t, "nilVoteHeader", 8) == 0 {
		vote.Header = nil
		hl = "header=nil"
	}
	wire, err := vote.ToBytes()
	if err != nil {
		t.Fatalf("encode vote: %v", err)
	}
	dec := new(types.Vote)
	if err := dec.FromBytes(wire); err != nil {
		t.Fatalf("own encoding of a vote does not decode: %v", err)
	}
	evid.Count("vote." + hl)
	evid.Count("vote." + sl)
	in := func() string {
		return fmt.Sprintf("vote{%+v %s voter=%s} wire=%x head=%d", dec.Header, sl, a, wire, head.Height())
	}
	if !dec.IsValid() {
		evid.Count("vote.gate_rejected")
		return
	}
	var added bool
	p.runFast("Votes.AddVote", in, func() { added = p.v.votes.AddVote(dec) })
	evid.Count("vote.reached.AddVote")
	if added {
		evid.Count("vote.added")
	}
	p.drainVotes(in)
	evid.NonTrivial(fmt.Sprintf("vote|%s|%d|%d|%v|%d|%v", sl, int64(dec.Header.Round-head.Height()), dec.Header.Step, dec.Header.TurnOffline, dec.Header.Upgrade, added))
}

func (p *point) evalCert() {
	t, w, v := p.t, p.w, p.v.r
	var blk *types.Block
	if p.honest != nil && pick(t, "certForEmpty", 4) != 0 {
		blk = p.honest.Block
	} else {
		blk = v.EmptyBlock()
	}
	mode := sim.CertMode(rapid.SampledFrom([]string{"valid", "valid", "under-quorum", "forged", "wrong-hash", "empty"}).Draw(t, "certMode"))
	cert := w.MakeCert(v, blk, mode)
	labels := []string{string(mode)}
	for i := pick(t, "nCertOps", 3); i > 0; i-- {
		switch pick(t, "certOp", 7) {
		case 0:
			cert.Signatures = append(cert.Signatures, &types.BlockCertSignature{})
			labels = append(labels, "+empty-signature")
		case 1:
			s, l := hostileSig(t, make([]byte, 65), "certSig")
			cert.Signatures = append(cert.Signatures, &types.BlockCertSignature{Signature: s, TurnOffline: rapid.Bool().Draw(t, "certOffline"), Upgrade: uint32(pick(t, "certUpgrade", 14))})
			labels = append(labels, "+"+l)
		case 2:
			if len(cert.Signatures) > 0 {
				cert.Signatures = append(cert.Signatures, cert.Signatures[pick(t, "dupSig", len(cert.Signatures))])
				labels = append(labels, "+duplicate-signature")
			}
		case 3:
			if len(cert.Signatures) > 0 {
				i := pick(t, "flipSig", len(cert.Signatures))
				s := *cert.Signatures[i]
				s.Signature = flipBits(t, s.Signature, "certSigFlip")
				cert.Signatures[i] = &s
				labels = append(labels, "signature-bitflip")
			}
		case 4:
			cert.Step = uint8(rapid.SampledFrom([]int{0, 1, types.ReductionOne, types.ReductionTwo, types.Final}).Draw(t, "certStep"))
			labels = append(labels, "step")
		case 5:
			cert.Round = rapid.SampledFrom([]uint64{0, blk.Height() + 1, math.MaxUint64}).Draw(t, "certRound")
			labels = append(labels, "round")
		default:
			n := rapid.SampledFrom([]int{100, 1000, 3000}).Draw(t, "manySigs")
			for j := 0; j < n; j++ {
				cert.Signatures = append(cert.Signatures, &types.BlockCertSignature{Signature: []byte{byte(j), byte(j >> 8)}})
			}
			labels = append(labels, "many-signatures")
		}
	}
	wire, err := cert.ToBytes()
	if err != nil {
		t.Fatalf("encode cert: %v", err)
	}
	dec := new(types.BlockCert)
	if err := dec.FromBytes(wire); err != nil {
		t.Fatalf("own encoding of a certificate does not decode: %v", err)
	}
	for _, l := range labels {
		evid.Count("cert." + l)
	}
	if dec.Empty() {
		evid.Count("cert.gate_rejected.empty") // every caller tests Empty() first
		return
	}
	in := func() string {
		return fmt.Sprintf("cert{round=%d step=%d voted=%x sigs=%d %v} for %s wire=%x", dec.Round, dec.Step, dec.VotedHash[:4], len(dec.Signatures), labels, sim.BlockDesc(blk), clip(wire, 500))
	}
	var cache map[string]common.Address
	if rapid.Bool().Draw(t, "withAddrCache") {
		cache = map[string]common.Address{}
	}
	p.run("Blockchain.ValidateBlockCert", in, func() { err = v.Chain.ValidateBlockCert(v.Head(), blk.Header, dec, v.AppState.ValidatorsCache, cache) })
	evid.Count("cert.reached.ValidateBlockCert")
	if err == nil {
		evid.Count("cert.accepted")
	}
	evid.NonTrivial(fmt.Sprintf("cert|%v|%v|%v", labels, blk.IsEmpty(), err == nil))
}

func (p *point) evalKeys() {
	t, w, v := p.t, p.w, p.v.r
	st := v.ReadState()
	epoch := st.State.Epoch()
	// prefer senders that have flips (the pools refuse everybody else)
	var withFlips []*sim.Actor
	for _, a := range w.Actors {
		if len(st.State.GetIdentity(a.Addr).Flips) > 0 {
			withFlips = append(withFlips, a)
		}
	}
	a := w.Actors[pick(t, "keySender", len(w.Actors))]
	if len(withFlips) > 0 && pick(t, "senderWithFlips", 4) != 0 {
		a = withFlips[pick(t, "flipAuthor", len(withFlips))]
		evid.Count("keys.sender_with_flips")
	}
	ep := uint16(rapid.SampledFrom([]int{int(epoch), int(epoch), int(epoch), int(epoch) + 1, 0, math.MaxUint16}).Draw(t, "keyEpoch"))
	flipKey := sim.DeriveKey(w.P.KeySeed^0x77, a.Idx)
	if pick(t, "publicKeyMsg", 2) == 0 {
		k := &types.PublicFlipKey{Epoch: ep}
		switch pick(t, "flipKeyClass", 9) {
		case 6, 7, 8:
			k.Key, _ = hostilePrivScalar(t, "flipKeyScalar")
		case 0:
			k.Key = nil
		case 1:
			k.Key = junk(t, "junkKey", 1, 70)
		case 2:
			k.Key = make([]byte, 32) // not a valid scalar
		case 3:
			k.Key = make([]byte, 1000)
		default:
			k.Key = crypto.FromECDSA(flipKey)
		}
		signed, _ := types.SignFlipKey(k, a.Key)
		var sl string
		signed.Signature, sl = hostileSig(t, signed.Signature, "flipKeySig")
		wire, _ := signed.ToBytes()
		dec := new(types.PublicFlipKey)
		if err := dec.FromBytes(wire); err != nil {
			t.Fatalf("own encoding of a flip key does not decode: %v", err)
		}
		in := func() string {
			return fmt.Sprintf("publicFlipKey{key(%d)=%x epoch=%d (current %d) %s sender=%s} wire=%x", len(dec.Key), clip(dec.Key, 8), dec.Epoch, epoch, sl, a, wire)
		}
		var err error
		p.runFast("KeysPool.AddPublicFlipKey", in, func() { err = p.v.keys.AddPublicFlipKey(dec, false) })
		evid.Count("keys.public.reached")
		if err == nil {
			evid.Count("keys.public.accepted")
		}
		p.runFast("KeysPool.GetPublicFlipKey", in, func() { p.v.keys.GetPublicFlipKey(a.Addr) })
		evid.NonTrivial(fmt.Sprintf("pubkey|%d|%d|%s|%v", len(dec.Key), int(dec.Epoch)-int(epoch), sl, err == nil))
		return
	}
	pkg := &types.PrivateFlipKeysPackage{Epoch: ep}
	class := pick(t, "packageClass", 9)
	switch class {
	case 6, 7, 8:
		pkg.Data, _ = hostileEcies(t, "package", flipKey, nil)
	case 0:
		pkg.Data = nil
	case 1:
		pkg.Data = junk(t, "junkPackage", 1, 300)
	case 2:
		pkg.Data = make([]byte, 100*1024+1)
	case 3:
		pkg.Data = make([]byte, 100*1024)
	default:
		pub := ecies.ImportECDSA(flipKey)
		var pairs [][]byte
		for i := pick(t, "nRecipients", 4); i > 0; i-- {
			pairs = append(pairs, rapid.SampledFrom([][]byte{{}, {1, 2, 3}, make([]byte, 113)}).Draw(t, "encryptedPair"))
		}
		arr, _ := (&mempool.VerifKeysArray{Pairs: pairs}).ToBytes()
		// (mempool.EncryptPrivateKeysPackage with a reproducible randomness source)
		pkg.Data, _ = ecies.Encrypt(mrand.New(mrand.NewSource(int64(rapid.Uint32().Draw(t, "eciesSeed")))), &pub.PublicKey, arr, nil, nil)
		if class == 5 {
			pkg.Data = flipBits(t, pkg.Data, "packageFlip")
		}
	}
	// the author's public key is usually known by the time its package is used
	if pick(t, "publicKeyKnown", 3) != 0 {
		k, _ := types.SignFlipKey(&types.PublicFlipKey{Key: crypto.FromECDSA(flipKey), Epoch: epoch}, a.Key)
		p.runFast("KeysPool.AddPublicFlipKey", func() string { return "honest public flip key of " + a.String() }, func() { _ = p.v.keys.AddPublicFlipKey(k, false) })
	}
	signed, _ := types.SignFlipKeysPackage(pkg, a.Key)
	var sl string
	signed.Signature, sl = hostileSig(t, signed.Signature, "packageSig")
	wire, _ := signed.ToBytes()
	dec := new(types.PrivateFlipKeysPackage)
	if err := dec.FromBytes(wire); err != nil {
		t.Fatalf("own encoding of a keys package does not decode: %v", err)
	}
	in := func() string {
		return fmt.Sprintf("keysPackage{data(%d) class=%d epoch=%d (current %d) %s sender=%s} wire=%x", len(dec.Data), class, dec.Epoch, epoch, sl, a, clip(wire, 300))
	}
	var err error
	p.runFast("KeysPool.AddPrivateKeysPackage", in, func() { err = p.v.keys.AddPrivateKeysPackage(dec, false) })
	evid.Count("keys.package.reached")
	if err == nil {
		evid.Count("keys.package.accepted")
	}
	// what the ceremony does with a stored package once the author's public key is known
	for idx := 0; idx < 4; idx++ {
		var got []byte
		p.runFast("KeysPool.GetEncryptedPrivateFlipKey", in, func() { got = p.v.keys.GetEncryptedPrivateFlipKey(idx, a.Addr) })
		if got != nil {
			evid.Count("keys.package.key_extracted")
		}
	}
	evid.NonTrivial(fmt.Sprintf("package|%d|%d|%s|%v", class, int(dec.Epoch)-int(epoch), sl, err == nil))
}

// keysScenario plays, for one author that has flips, the sequence the flip-key exchange consists of: the author's
// public flip key, then its package of private keys (hostile content), then the extraction of the entries the
// ceremony asks for.
func (p *point) keysScenario(a *sim.Actor) {
	t, w := p.t, p.w
	epoch := p.v.r.ReadState().State.Epoch()
	p.v.keys.Clear() // "sender has already published his keys" otherwise
	flipKey := sim.DeriveKey(w.P.KeySeed^0x77, a.Idx)
	pub := ecies.ImportECDSA(flipKey)
	k, _ := types.SignFlipKey(&types.PublicFlipKey{Key: crypto.FromECDSA(flipKey), Epoch: epoch}, a.Key)
	var err error
	p.runFast("KeysPool.AddPublicFlipKey", func() string { return "honest public flip key of " + a.String() }, func() { err = p.v.keys.AddPublicFlipKey(k, false) })
	if err != nil {
		evid.Count("keys.scenario.public_key_refused")
		return
	}
	var pairs [][]byte
	for i := pick(t, "nPairs", 5); i > 0; i-- {
		pairs = append(pairs, rapid.SampledFrom([][]byte{{}, {1, 2, 3}, make([]byte, 113)}).Draw(t, "pair"))
	}
	arr, _ := (&mempool.VerifKeysArray{Pairs: pairs}).ToBytes()
	class := rapid.SampledFrom([]string{"encrypted-array", "ecies-constant", "encrypted-junk", "encrypted-empty", "bitflip", "truncated", "junk", "ecies-constant", "ecies-constant"}).Draw(t, "scenarioPackage")
	seed := int64(rapid.Uint32().Draw(t, "eciesSeed"))
	var data []byte
	switch class {
	case "encrypted-array", "bitflip", "truncated":
		data, _ = ecies.Encrypt(mrand.New(mrand.NewSource(seed)), &pub.PublicKey, arr, nil, nil)
		if class == "bitflip" {
			data = flipBits(t, data, "scenarioFlip")
		} else if class == "truncated" && len(data) > 1 {
			data = data[:pick(t, "scenarioCut", len(data))]
		}
	case "ecies-constant":
		honest, _ := ecies.Encrypt(mrand.New(mrand.NewSource(seed)), &pub.PublicKey, arr, nil, nil)
		var l string
		data, l = hostileEcies(t, "scenario", flipKey, honest)
		class += ":" + l
	case "encrypted-junk":
		data, _ = ecies.Encrypt(mrand.New(mrand.NewSource(seed)), &pub.PublicKey, junk(t, "scenarioPlain", 1, 60), nil, nil)
	case "encrypted-empty":
		data, _ = ecies.Encrypt(mrand.New(mrand.NewSource(seed)), &pub.PublicKey, nil, nil, nil)
	default:
		data = junk(t, "scenarioJunk", 1, 200)
	}
	pkg, _ := types.SignFlipKeysPackage(&types.PrivateFlipKeysPackage{Data: data, Epoch: epoch}, a.Key)
	wire, _ := pkg.ToBytes()
	dec := new(types.PrivateFlipKeysPackage)
	if err := dec.FromBytes(wire); err != nil {
		t.Fatalf("own encoding of a keys package does not decode: %v", err)
	}
	in := func() string {
		return fmt.Sprintf("keysPackage{data(%d)=%x class=%s pairs=%d epoch=%d sender=%s (public flip key published before)} wire=%x", len(dec.Data), clip(dec.Data, 200), class, len(pairs), dec.Epoch, a, clip(wire, 400))
	}
	p.runFast("KeysPool.AddPrivateKeysPackage", in, func() { err = p.v.keys.AddPrivateKeysPackage(dec, false) })
	evid.Count("keys.scenario." + class)
	if err != nil {
		evid.Count("keys.scenario.package_refused")
		return
	}
	evid.Count("keys.scenario.package_accepted")
	for idx := 0; idx < 5; idx++ {
		var got []byte
		p.runFast("KeysPool.GetEncryptedPrivateFlipKey", in, func() { got = p.v.keys.GetEncryptedPrivateFlipKey(idx, a.Addr) })
		if got != nil {
			evid.Count("keys.scenario.key_extracted")
		}
	}
	evid.NonTrivial(fmt.Sprintf("keys-scenario|%s|%d", class, len(pairs)))
}

func (p *point) evalFlip() {
	t, w, v := p.t, p.w, p.v.r
	f := &types.Flip{
		PublicPart:  rapid.SampledFrom([][]byte{nil, {1, 2, 3}, make([]byte, 2000)}).Draw(t, "flipPublic"),
		PrivatePart: rapid.SampledFrom([][]byte{nil, {4, 5}, make([]byte, 2000)}).Draw(t, "flipPrivate"),
	}
	label := ""
	switch pick(t, "flipClass", 6) {
	case 0:
		label = "tx=nil"
	case 1:
		f.Tx = genHostileTx(t, w, v, nil).tx
		label = "tx=hostile"
	case 2:
		f.PublicPart = make([]byte, common.MaxFlipSize+1)
		fallthrough
	default:
		// a flip whose tx names the flip's content, as the pool expects; the tx itself may still be hostile
		base, info := w.GenTx(t, v, []types.TxType{types.SubmitFlipTx})
		data, _ := (&flip.IpfsFlip{PublicPart: f.PublicPart, PrivatePart: f.PrivatePart, PubKey: info.Sender.Pub}).ToBytes()
		c, _ := v.Ipfs.Cid(data)
		tx := &types.Transaction{AccountNonce: base.AccountNonce, Epoch: base.Epoch, Type: base.Type, To: base.To, Amount: base.Amount, MaxFee: base.MaxFee, Tips: base.Tips}
		tx.Payload = attachments.CreateFlipSubmitAttachment(c.Bytes(), uint8(pick(t, "flipPair", 12)))
		label = "tx=linked"
		switch pick(t, "linkedHostile", 6) {
		case 0:
			tx.Type = txTypes[pick(t, "linkedType", len(txTypes))]
			label += "+type=" + typeName(tx.Type)
		case 1:
			a := w.Actors[pick(t, "linkedTo", len(w.Actors))].Addr
			tx.To = &a
			label += "+to"
		case 2:
			tx.MaxFee = nil
			label += "+maxFee=nil"
		}
		tx = roundTripTx(t, tx)
		signed, err := types.SignTx(tx, info.Sender.Key)
		if err != nil {
			t.Fatalf("sign: %v", err)
		}
		f.Tx = signed
	}
	wire, err := f.ToBytes()
	if err != nil {
		t.Fatalf("encode flip: %v", err)
	}
	dec := new(types.Flip)
	if err := dec.FromBytes(wire); err != nil {
		t.Fatalf("own encoding of a flip does not decode: %v", err)
	}
	evid.Count("flip." + strings.SplitN(label, "+", 2)[0])
	if !dec.IsValid() {
		evid.Count("flip.gate_rejected")
		return
	}
	in := func() string {
		return fmt.Sprintf("flip{%s public=%d private=%d tx=%s} wire=%x", label, len(dec.PublicPart), len(dec.PrivatePart), (&txCase{tx: dec.Tx, sender: &sim.Actor{}}).String(), clip(wire, 300))
	}
	p.run("Flipper.addNewFlip", in, func() { err = p.v.flipper.VerifC12AddNewFlip(dec) })
	evid.Count("flip.reached.addNewFlip")
	if err == nil {
		evid.Count("flip.accepted")
	}
	evid.NonTrivial(fmt.Sprintf("flip|%s|%v", label, err == nil))
}

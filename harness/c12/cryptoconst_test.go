package c12

import (
	"crypto/ecdsa"
	"crypto/hmac"
	"crypto/sha256"
	"math/big"

	"github.com/idena-network/idena-go/crypto"
	"github.com/idena-network/idena-go/crypto/vrf/p256"
	"pgregory.net/rapid"

	"verifharness/internal/evid"
	"verifharness/internal/sim"
)

// keys for constants that are not bound to a key of the world
var (
	constKey  = sim.DeriveKey(0xc12, 1)
	constKey2 = sim.DeriveKey(0xc12, 2)
)

// Hostile CONSTANTS for the cryptographic fields a message carries (VRF proof,
// seed proof, signature, public key, private scalar, encrypted key package):
// values an honest sender never produces, that random mutation practically
// never hits, and that sit exactly on the edges the curve arithmetic has
// (zero / order / field prime / point at infinity / equal and opposite points).

var (
	curveN = crypto.S256().Params().N
	curveP = crypto.S256().Params().P
	ff32   = func() []byte {
		b := make([]byte, 32)
		for i := range b {
			b[i] = 0xff
		}
		return b
	}()
)

func pad32(x *big.Int) []byte {
	b := new(big.Int).Mod(x, new(big.Int).Lsh(big.NewInt(1), 256)).Bytes()
	out := make([]byte, 32)
	copy(out[32-len(b):], b)
	return out
}

func bigAdd(x *big.Int, d int64) *big.Int { return new(big.Int).Add(x, big.NewInt(d)) }

func point65(x, y *big.Int) []byte {
	return append(append([]byte{4}, pad32(x)...), pad32(y)...)
}

// scalarConsts: name -> 32-byte scalar.
var scalarConsts = []struct {
	name string
	val  func() []byte
}{
	{"0", func() []byte { return make([]byte, 32) }},
	{"1", func() []byte { return pad32(big.NewInt(1)) }},
	{"N-1", func() []byte { return pad32(bigAdd(curveN, -1)) }},
	{"N", func() []byte { return pad32(curveN) }},
	{"N+1", func() []byte { return pad32(bigAdd(curveN, 1)) }},
	{"ff", func() []byte { return append([]byte{}, ff32...) }},
}

// pointConsts: name -> 65 bytes standing where an uncompressed point is expected.
func pointConsts(honest []byte) []struct {
	name string
	val  []byte
} {
	g := crypto.S256().Params()
	hx, hy := new(big.Int).Set(g.Gx), new(big.Int).Set(g.Gy)
	if len(honest) == 65 {
		hx, hy = new(big.Int).SetBytes(honest[1:33]), new(big.Int).SetBytes(honest[33:])
	}
	swap := func(prefix byte) []byte {
		b := point65(hx, hy)
		b[0] = prefix
		return b
	}
	return []struct {
		name string
		val  []byte
	}{
		{"(0,0)", point65(big.NewInt(0), big.NewInt(0))},
		{"not-on-curve", point65(hx, bigAdd(hy, 1))},
		{"(1,1)", point65(big.NewInt(1), big.NewInt(1))},
		{"x=P", point65(curveP, hy)},
		{"x+P", point65(new(big.Int).Add(hx, curveP), hy)}, // the same point with x not reduced (only fits when x is small: wraps otherwise)
		{"x=ff", append(append([]byte{4}, ff32...), pad32(hy)...)},
		{"y=P", point65(hx, curveP)},
		{"all-zero", make([]byte, 65)},
		{"all-ff", append(append([]byte{0xff}, ff32...), ff32...)},
		{"prefix=02", swap(2)},
		{"prefix=03", swap(3)},
		{"prefix=00", swap(0)},
		{"prefix=06", swap(6)},
		{"generator", point65(g.Gx, g.Gy)},
		{"negated", point65(hx, new(big.Int).Sub(curveP, hy))},
		{"truncated-1", point65(hx, hy)[:64]},
		{"overlong+1", append(point65(hx, hy), 0)},
		{"compressed", append([]byte{2 + byte(hy.Bit(0))}, pad32(hx)...)},
	}
}

// vrfCtx is what a hostile prover knows: its own key (nil when the field is not bound to a key of the world),
// the message the verifier will check against, an honest proof for (key, msg) and honest proofs for another key /
// another message.
type vrfCtx struct {
	key    *ecdsa.PrivateKey
	msg    []byte
	honest []byte
	other  *ecdsa.PrivateKey
}

func evalVrf(key *ecdsa.PrivateKey, msg []byte) []byte {
	if key == nil {
		return nil
	}
	s, err := p256.NewVRFSigner(key)
	if err != nil {
		return nil
	}
	_, proof := s.Evaluate(msg)
	return proof
}

var vrfClasses = []string{
	"all-zero", "all-ff", "s=0", "s=1", "s=N-1", "s=N", "s=N+1", "s=ff", "t=0", "t=1", "t=N-1", "t=N", "t=N+1", "t=ff",
	"point=(0,0)", "point=not-on-curve", "point=(1,1)", "point=x=P", "point=x=ff", "point=y=P", "point=prefix=02", "point=prefix=03", "point=prefix=00",
	"point=generator", "point=negated", "point=own-pubkey",
	"other-key", "other-message", "truncated-1", "overlong+1",
	"t=s*k", "t=-s*k", "vrf=(t/s)H", "vrf=-(t/s)H", "s=0,t=0", "s=N,t=N",
}

// hostileVrfProof returns a 129-byte (or off-by-one) proof of the drawn class, built around an honest proof.
func hostileVrfProof(t *rapid.T, label string, c vrfCtx) ([]byte, string) {
	class := vrfClasses[pick(t, label+"VrfClass", len(vrfClasses))]
	honest := c.honest
	if len(honest) != 129 {
		honest = evalVrf(c.key, c.msg)
	}
	if len(honest) != 129 {
		// no key at hand: an honest proof of a fixed key for the message
		honest = evalVrf(constKey, c.msg)
	}
	key := c.key
	if key == nil {
		key = constKey
	}
	cmsg := c.msg
	p := append([]byte{}, honest...)
	setS := func(b []byte) { copy(p[0:32], b) }
	setT := func(b []byte) { copy(p[32:64], b) }
	setPoint := func(b []byte) { p = append(p[:64:64], b...) }
	scalar := func(name string) []byte {
		for _, s := range scalarConsts {
			if s.name == name {
				return s.val()
			}
		}
		panic("no scalar " + name)
	}
	switch {
	case class == "all-zero":
		p = make([]byte, 129)
	case class == "all-ff":
		for i := range p {
			p[i] = 0xff
		}
	case class == "s=0,t=0":
		setS(scalar("0"))
		setT(scalar("0"))
	case class == "s=N,t=N":
		setS(scalar("N"))
		setT(scalar("N"))
	case len(class) > 2 && class[:2] == "s=":
		setS(scalar(class[2:]))
	case class == "t=s*k" || class == "t=-s*k":
		// [t]G equals / is opposite to [s]([k]G): the two points the verifier adds coincide / cancel
		s := new(big.Int).SetBytes(p[0:32])
		tt := new(big.Int).Mul(s, key.D)
		if class == "t=-s*k" {
			tt.Neg(tt)
		}
		setT(pad32(tt.Mod(tt, curveN)))
	case len(class) > 2 && class[:2] == "t=":
		setT(scalar(class[2:]))
	case class == "vrf=(t/s)H" || class == "vrf=-(t/s)H":
		// [t]H equals / is opposite to [s]VRF in the verifier's second addition
		s := new(big.Int).SetBytes(p[0:32])
		tt := new(big.Int).SetBytes(p[32:64])
		if sinv := new(big.Int).ModInverse(s, curveN); sinv != nil {
			c := new(big.Int).Mul(tt, sinv)
			c.Mod(c, curveN)
			hx, hy := p256.H1(cmsg)
			if vx, vy := crypto.S256().ScalarMult(hx, hy, pad32(c)); vx != nil {
				if class == "vrf=-(t/s)H" {
					vy = new(big.Int).Sub(curveP, vy)
				}
				setPoint(point65(vx, vy))
			}
		}
	case class == "other-key":
		other := c.other
		if other == nil || other == c.key {
			other = constKey2
		}
		if op := evalVrf(other, c.msg); len(op) == 129 {
			p = op
		}
	case class == "other-message":
		if op := evalVrf(key, append(append([]byte{}, c.msg...), 1)); len(op) == 129 {
			p = op
		}
	case class == "truncated-1":
		p = p[:128]
	case class == "overlong+1":
		p = append(p, 0)
	case class == "point=own-pubkey":
		setPoint(point65(key.PublicKey.X, key.PublicKey.Y))
	case len(class) > 6 && class[:6] == "point=":
		for _, pc := range pointConsts(p[64:]) {
			if pc.name == class[6:] && len(pc.val) == 65 {
				setPoint(pc.val)
			}
		}
	}
	evid.Count("const.vrf." + class)
	return p, "vrf:" + class
}

// ---------------------------------------------------------------------------
// ECDSA signatures (r | s | v, 65 bytes)

var sigClasses = []string{
	"all-zero", "all-ff", "r=0", "r=1", "r=N-1", "r=N", "r=N+1", "r=P", "r=ff", "s=0", "s=1", "s=N-1", "s=N", "s=N+1", "s=ff", "s=N-s",
	"v=2", "v=3", "v=4", "v=27", "v=28", "v=255", "v-flipped", "truncated-1", "overlong+1", "other-message", "other-key",
}

// hostileEcdsaSig returns a signature of the drawn class built around an honest one; sign signs other data with the honest key.
func hostileEcdsaSig(t *rapid.T, label string, honest []byte, key *ecdsa.PrivateKey) ([]byte, string) {
	class := sigClasses[pick(t, label+"SigClass", len(sigClasses))]
	if len(honest) != 65 {
		h := sha256.Sum256([]byte(label))
		honest, _ = crypto.Sign(h[:], constKey)
	}
	p := append([]byte{}, honest...)
	scalar := func(name string) []byte {
		if name == "P" {
			return pad32(curveP)
		}
		for _, s := range scalarConsts {
			if s.name == name {
				return s.val()
			}
		}
		panic("no scalar " + name)
	}
	switch {
	case class == "all-zero":
		p = make([]byte, 65)
	case class == "all-ff":
		for i := range p {
			p[i] = 0xff
		}
	case class == "s=N-s":
		// the other valid encoding of the same signature (malleability): s' = N - s, recovery bit flipped
		s := new(big.Int).SetBytes(p[32:64])
		copy(p[32:64], pad32(new(big.Int).Sub(curveN, s)))
		p[64] ^= 1
	case class[:2] == "r=":
		copy(p[0:32], scalar(class[2:]))
	case class[:2] == "s=":
		copy(p[32:64], scalar(class[2:]))
	case class == "v-flipped":
		p[64] ^= 1
	case class[:2] == "v=":
		p[64] = map[string]byte{"v=2": 2, "v=3": 3, "v=4": 4, "v=27": 27, "v=28": 28, "v=255": 255}[class]
	case class == "truncated-1":
		p = p[:64]
	case class == "overlong+1":
		p = append(p, 0)
	case class == "other-message":
		if key != nil {
			h := sha256.Sum256(honest)
			p, _ = crypto.Sign(h[:], key)
		}
	case class == "other-key":
		h := sha256.Sum256([]byte(label))
		p, _ = crypto.Sign(h[:], constKey2)
	}
	evid.Count("const.sig." + class)
	return p, "sig:" + class
}

// ---------------------------------------------------------------------------
// public keys

// hostilePubKey returns bytes of the drawn class standing where a 65-byte public key is expected.
func hostilePubKey(t *rapid.T, label string, honest []byte) ([]byte, string) {
	cs := pointConsts(honest)
	c := cs[pick(t, label+"PubClass", len(cs))]
	evid.Count("const.pubkey." + c.name)
	return c.val, "pubkey:" + c.name
}

// hostilePrivScalar returns 32 bytes of the drawn class standing where a private scalar is published (public flip key).
func hostilePrivScalar(t *rapid.T, label string) ([]byte, string) {
	c := scalarConsts[pick(t, label+"ScalarClass", len(scalarConsts))]
	evid.Count("const.scalar." + c.name)
	return c.val(), "scalar:" + c.name
}

// ---------------------------------------------------------------------------
// ECIES ciphertexts (R | iv+ciphertext | tag), parameters of crypto/ecies for secp256k1: AES-128-CTR, SHA-256

// eciesSeal builds a ciphertext with a VALID tag around an arbitrary symmetric part em (iv | ct), for the
// recipient pub, with the ephemeral scalar r - what a sender that knows the recipient's public key can always do.
func eciesSeal(pub *ecdsa.PublicKey, r *big.Int, em []byte) []byte {
	curve := crypto.S256()
	rx, ry := curve.ScalarBaseMult(pad32(r))
	zx, _ := curve.ScalarMult(pub.X, pub.Y, pad32(r))
	if rx == nil || zx == nil {
		return nil
	}
	z := pad32(zx)
	// concatKDF(sha256, z, nil, 32): one block with counter 1
	h := sha256.New()
	h.Write([]byte{0, 0, 0, 1})
	h.Write(z)
	k := h.Sum(nil)
	kmh := sha256.Sum256(k[16:32])
	mac := hmac.New(sha256.New, kmh[:])
	mac.Write(em)
	tag := mac.Sum(nil)
	return append(append(point65(rx, ry), em...), tag...)
}

var eciesClasses = []string{
	"all-zero", "all-ff", "R=(0,0)", "R=not-on-curve", "R=x=P", "R=prefix=02", "R=prefix=03", "R=generator", "R=recipient",
	"sealed-em=1", "sealed-em=15", "sealed-em=16", "sealed-em=17", "sealed-junk", "truncated-1", "overlong+1", "tag-zero", "minimal-length",
}

// hostileEcies returns a ciphertext of the drawn class for the recipient key (whose private scalar the sender knows
// in the flip key exchange: the "public" flip key is a published private scalar).
func hostileEcies(t *rapid.T, label string, recipient *ecdsa.PrivateKey, honest []byte) ([]byte, string) {
	class := eciesClasses[pick(t, label+"EciesClass", len(eciesClasses))]
	r := big.NewInt(int64(2 + pick(t, label+"Ephemeral", 1000)))
	if len(honest) < 65+16+32 {
		honest = eciesSeal(&recipient.PublicKey, r, make([]byte, 40))
	}
	p := append([]byte{}, honest...)
	setR := func(b []byte) { p = append(append([]byte{}, b...), p[65:]...) }
	switch {
	case class == "all-zero":
		p = make([]byte, len(p))
	case class == "all-ff":
		for i := range p {
			p[i] = 0xff
		}
	case class == "R=recipient":
		setR(point65(recipient.PublicKey.X, recipient.PublicKey.Y))
	case class[:2] == "R=":
		for _, pc := range pointConsts(p[:65]) {
			if pc.name == class[2:] && len(pc.val) == 65 {
				setR(pc.val)
			}
		}
	case class == "sealed-junk":
		p = eciesSeal(&recipient.PublicKey, r, junk(t, label+"SealedJunk", 16, 80))
	case len(class) > 10 && class[:10] == "sealed-em=":
		n := map[string]int{"sealed-em=1": 1, "sealed-em=15": 15, "sealed-em=16": 16, "sealed-em=17": 17}[class]
		// a symmetric part shorter than / exactly / just above one cipher block (the iv), correctly authenticated
		p = eciesSeal(&recipient.PublicKey, r, make([]byte, n))
	case class == "truncated-1":
		p = p[:len(p)-1]
	case class == "overlong+1":
		p = append(p, 0)
	case class == "tag-zero":
		copy(p[len(p)-32:], make([]byte, 32))
	case class == "minimal-length":
		p = p[:65+32+1]
	}
	evid.Count("const.ecies." + class)
	return p, "ecies:" + class
}

package c12

// Targets for the DEFERRED CONSUMERS of mined payloads.
//
// The other targets of this package judge a hostile object at the moment it is received, validated or mined. The
// payloads of the four ceremony transaction types are hardly looked at then (validateEvidenceTx,
// validateSubmitAnswersHashTx, validateSubmitShortAnswersTx, validateSubmitLongAnswersTx check sender, period and, at
// most, that the attachment decodes); they are stored in the epoch database and interpreted when the
// validation-finished block is applied, by every node: ValidationCeremony.ApplyNewEpoch and what it calls
// (readEvidenceMaps -> EvidenceMap.CalculateApprovedCandidates -> common.Bitmap.Read; qualification.qualifyFlips /
// qualifyCandidate -> attachments.Parse*AnswerBytesAttachment -> types.NewAnswersFromBits; vrf.HashFromProof; answer
// hashes and salts), followed by the chain's own epoch step (Blockchain.applyNewEpoch: rewards etc. from the result).
//
// TestDeferredCeremony reaches these consumers the way a node does (construction as in package c17, which runs the
// real ValidationCeremony over generated epochs): generated ledger -> real lottery -> ceremony transactions of honest
// and hostile candidates, each gated by the real validation.ValidateTx for a block -> delivered in blocks to the
// ceremony's block handler (processCeremonyTxs, qualification.persist) -> optionally a restart (answers, evidence and
// lottery identities re-read from the epoch database) -> Blockchain.applyNewEpoch with ValidationCeremony.ApplyNewEpoch
// as epoch function on a check state. TestDeferredEvidenceDirect calls EvidenceMap.CalculateApprovedCandidates
// directly (between the epoch database and this function the ceremony only forwards the stored bytes of senders that
// are candidates of the shard), which allows thousands of candidates and hundreds of maps per call.

import (
	"crypto/ecdsa"
	"fmt"
	"math/big"
	"math/rand"
	"sort"
	"strings"
	"sync"
	"testing"
	"time"

	"github.com/idena-network/idena-go/blockchain"
	"github.com/idena-network/idena-go/blockchain/attachments"
	"github.com/idena-network/idena-go/blockchain/fee"
	"github.com/idena-network/idena-go/blockchain/types"
	"github.com/idena-network/idena-go/blockchain/validation"
	"github.com/idena-network/idena-go/common"
	"github.com/idena-network/idena-go/common/eventbus"
	"github.com/idena-network/idena-go/common/vclock"
	"github.com/idena-network/idena-go/config"
	"github.com/idena-network/idena-go/core/appstate"
	"github.com/idena-network/idena-go/core/ceremony"
	"github.com/idena-network/idena-go/core/flip"
	"github.com/idena-network/idena-go/core/mempool"
	"github.com/idena-network/idena-go/core/state"
	"github.com/idena-network/idena-go/crypto"
	"github.com/idena-network/idena-go/crypto/vrf"
	"github.com/idena-network/idena-go/secstore"
	dbm "github.com/tendermint/tm-db"
	"pgregory.net/rapid"

	"verifharness/internal/evid"
	"verifharness/internal/kf"
	"verifharness/internal/sim"
)

// ---------------------------------------------------------------------------
// case description

type dIdent struct {
	Key       *ecdsa.PrivateKey
	Addr      common.Address
	Pub       []byte
	State     state.IdentityState
	Shard     common.ShardId
	Required  uint8
	Flips     [][]byte
	Stake     *big.Int
	Balance   *big.Int
	Birthday  uint16
	Scores    []byte
	Delegatee *common.Address
}

type dSpec struct {
	KeySeed     uint64
	Epoch       uint16
	Version     config.ConsensusVerson
	ShardsNum   uint32
	God         common.Address
	Idents      []dIdent
	LotterySeed []byte
	WordsSeed   types.Seed
	Period      state.ValidationPeriod
	ValidationT int64

	byAddr    map[common.Address]int
	copiedCid bool // two authors of a shard hold the same flip cid
}

func (s *dSpec) index() {
	s.byAddr = map[common.Address]int{}
	for i := range s.Idents {
		s.byAddr[s.Idents[i].Addr] = i
	}
}

var dStateNames = map[state.IdentityState]string{state.Undefined: "Undefined", state.Invite: "Invite", state.Candidate: "Candidate", state.Verified: "Verified",
	state.Suspended: "Suspended", state.Killed: "Killed", state.Zombie: "Zombie", state.Newbie: "Newbie", state.Human: "Human"}

func (s *dSpec) describe() string {
	var b strings.Builder
	fmt.Fprintf(&b, "epoch=%d consensus=v%d shards=%d period=%d identities=%d keySeed=%d\n", s.Epoch, s.Version, s.ShardsNum, s.Period, len(s.Idents), s.KeySeed)
	for i := range s.Idents {
		if i >= 24 {
			fmt.Fprintf(&b, "  ... %d more identities\n", len(s.Idents)-i)
			break
		}
		id := &s.Idents[i]
		fmt.Fprintf(&b, "  id%d %x %s shard=%d requiredFlips=%d flips=%d birthday=%d delegated=%v\n", i, id.Addr[:4], dStateNames[id.State], id.Shard, id.Required, len(id.Flips), id.Birthday, id.Delegatee != nil)
	}
	return b.String()
}

// dTx is one ceremony transaction of the epoch.
type dTx struct {
	From    int
	Type    types.TxType
	Payload []byte
	Label   string
	Hostile bool
	tx      *types.Transaction // signed and decoded from its own wire encoding
	refused error              // verdict of validation.ValidateTx(InBlockTx); refused transactions are not mined
}

func describeTxs(txs []*dTx) string {
	var b strings.Builder
	shown := 0
	for _, x := range txs {
		if !x.Hostile {
			continue
		}
		if shown++; shown > 12 {
			b.WriteString("  ...\n")
			break
		}
		verdict := "mined"
		if x.refused != nil {
			verdict = "refused: " + x.refused.Error()
		}
		fmt.Fprintf(&b, "  id%d %s hostile=%s payload(%d)=%x [%s]\n", x.From, typeName(x.Type), x.Label, len(x.Payload), clip(x.Payload, 96), verdict)
	}
	return b.String()
}

// ---------------------------------------------------------------------------
// node dependencies that take no part in the evaluation (as in c17)

type dIdleSyncer struct{}

func (dIdleSyncer) IsSyncing() bool { return false }

var (
	dOnce    sync.Once
	dSec     *secstore.SecStore
	dFlipper *flip.Flipper
)

func dDeps() {
	dOnce.Do(func() {
		k := sim.DeriveKey(0xC12C12C12, 0) // the node's own key: an outsider that never takes part in the ceremony
		dSec = secstore.NewSecStore()
		dSec.AddKey(crypto.FromECDSA(k))
		dFlipper = flip.NewFlipper(dbm.NewMemDB(), sim.NewIpfs(), nil, nil, dSec, nil, eventbus.New())
	})
}

func dConfig(s *dSpec) *config.Config {
	cons := *config.ConsensusVersions[s.Version]
	return &config.Config{
		Consensus: &cons,
		Validation: &config.ValidationConfig{
			ValidationInterval:   time.Hour,
			FlipLotteryDuration:  5 * time.Minute,
			ShortSessionDuration: 2 * time.Minute,
			LongSessionDuration:  30 * time.Minute,
		},
		Sync: &config.SyncConfig{},
	}
}

// ---------------------------------------------------------------------------
// ledger: version 1 = identities as they were when the flip lottery ran (the state ceremony transactions are
// validated against here), version 2 = additionally the "has sent ceremony transaction" bits the chain sets for every
// mined ceremony transaction; the validation-finished block (height 3) is applied on version 2.

const (
	dLotteryHeight = 1
	dLedgerHeight  = 2
	dEpochHeight   = 3
)

func dBuildLedger(s *dSpec) (dbm.DB, *appstate.AppState) {
	db := dbm.NewMemDB()
	as, err := appstate.NewAppState(db, eventbus.New())
	if err != nil {
		panic(err)
	}
	if err := as.Initialize(0); err != nil {
		panic(err)
	}
	st := as.State
	st.SetGlobalEpoch(s.Epoch)
	st.SetGodAddress(s.God)
	if s.ShardsNum > 1 {
		st.SetShardsNum(s.ShardsNum)
	}
	st.SetValidationPeriod(s.Period)
	st.SetNextValidationTime(time.Unix(s.ValidationT, 0).UTC())
	st.SetFlipWordsSeed(s.WordsSeed)
	for i := range s.Idents {
		id := &s.Idents[i]
		st.SetState(id.Addr, id.State)
		st.SetPubKey(id.Addr, append([]byte(nil), id.Pub...))
		if s.ShardsNum > 1 {
			st.SetShardId(id.Addr, id.Shard)
		}
		st.SetRequiredFlips(id.Addr, id.Required)
		for j, cid := range id.Flips {
			st.AddFlip(id.Addr, append([]byte(nil), cid...), uint8(j))
		}
		if id.Stake.Sign() > 0 {
			st.AddStake(id.Addr, new(big.Int).Set(id.Stake))
		}
		if id.Balance.Sign() > 0 {
			st.AddBalance(id.Addr, new(big.Int).Set(id.Balance))
		}
		st.SetBirthday(id.Addr, id.Birthday)
		for _, sc := range id.Scores {
			st.AddNewScore(id.Addr, sc)
		}
		if id.Delegatee != nil {
			st.SetDelegatee(id.Addr, *id.Delegatee)
			if s.Epoch > 0 {
				st.SetDelegationEpoch(id.Addr, s.Epoch-1)
			}
		}
		if id.State.NewbieOrBetter() {
			as.IdentityState.SetValidated(id.Addr, true)
			if id.Delegatee != nil {
				as.IdentityState.SetDelegatee(id.Addr, *id.Delegatee)
			}
		}
	}
	if len(s.Idents) == 0 {
		st.AddBlockBit(true)
	}
	if err := as.Commit(nil); err != nil {
		panic(err)
	}
	if !st.HasVersion(dLotteryHeight) {
		panic("harness: ledger version 1 was not saved")
	}
	return db, as
}

func dSealLedger(s *dSpec, as *appstate.AppState, mined []*dTx) {
	for _, x := range mined {
		as.State.SetValidationTxBit(s.Idents[x.From].Addr, x.Type)
	}
	if len(mined) == 0 {
		as.State.AddBlockBit(false) // something must change, otherwise no new version is saved
	}
	if err := as.Commit(nil); err != nil {
		panic(err)
	}
	if !as.State.HasVersion(dLedgerHeight) {
		panic("harness: ledger version 2 was not saved")
	}
}

// ---------------------------------------------------------------------------
// node = application state + ceremony object over one database (constructed as c17 does)

type dNode struct {
	db       dbm.DB
	cfg      *config.Config
	appState *appstate.AppState
	vc       *ceremony.ValidationCeremony
}

func dOpenNode(s *dSpec, db dbm.DB, height uint64) *dNode {
	dDeps()
	bus := eventbus.New()
	as, err := appstate.NewAppState(db, bus)
	if err != nil {
		panic(err)
	}
	if err := as.Initialize(height); err != nil {
		panic(err)
	}
	cfg := dConfig(s)
	kp := mempool.NewKeysPool(db, as, bus, dSec)
	vc := ceremony.NewValidationCeremony(as, bus, dFlipper, dSec, db, nil, nil, dIdleSyncer{}, kp, cfg)
	vc.VerifC17Open()
	return &dNode{db: db, cfg: cfg, appState: as, vc: vc}
}

// dFreshNode: a node that has seen the lottery block (seed written as handleFlipLotteryPeriod does, then the lottery).
func dFreshNode(s *dSpec, ledger dbm.DB, height uint64) *dNode {
	n := dOpenNode(s, sim.CopyDB(ledger), height)
	n.vc.VerifC17EpochDb().WriteLotterySeed(append([]byte(nil), s.LotterySeed...))
	n.vc.VerifC17FlipLottery()
	if !n.vc.VerifC17LotteryFinished() {
		panic("harness: lottery did not run")
	}
	return n
}

func dBlocks(s *dSpec, mined []*dTx, split []int) []*types.Block {
	var res []*types.Block
	pos := 0
	for bi, size := range split {
		var txs []*types.Transaction
		for k := 0; k < size && pos < len(mined); k++ {
			txs = append(txs, mined[pos].tx)
			pos++
		}
		res = append(res, &types.Block{
			Header: &types.Header{ProposedHeader: &types.ProposedHeader{Height: uint64(100 + bi), Time: s.ValidationT + int64(20*bi)}},
			Body:   &types.Body{Transactions: txs},
		})
	}
	if pos != len(mined) {
		panic("harness: split does not cover the mined transactions")
	}
	return res
}

// applyEpoch is the epoch step of the validation-finished block on a check state: Blockchain.applyNewEpoch with the
// ceremony's ApplyNewEpoch as epoch function, then the state's Precommit (the last step of applyBlockOnState).
func (n *dNode) applyEpoch(s *dSpec, cs *appstate.AppState) {
	block := &types.Block{
		Header: &types.Header{ProposedHeader: &types.ProposedHeader{Height: dEpochHeight, Time: s.ValidationT + 3600, Flags: types.ValidationFinished}},
		Body:   &types.Body{},
	}
	blockchain.VerifC12ApplyNewEpoch(n.cfg, n.vc.ApplyNewEpoch, cs, block)
	cs.Precommit()
}

// ---------------------------------------------------------------------------
// oracle for deferred consumers: crash and watchdog as everywhere in this package; the allocation cap is the same
// (192 MiB for hostile input of at most 8 MiB), the key names the consumer: c12.alloc.<consumer>.

const (
	consumerApproved = "core/appstate.(*EvidenceMap).CalculateApprovedCandidates"
	consumerEpoch    = "core/ceremony.(*ValidationCeremony).ApplyNewEpoch"
)

func verdictDeferred(t fataler, o outcome, consumer, entry string, hostileBytes int, input func() string) (abandon bool) {
	t.Helper()
	if o.panicked {
		return verdict(t, o, entry, -1, input)
	}
	if hostileBytes <= frameCap && o.alloc > allocCap {
		key := "c12.alloc." + sanitize(consumer)
		evid.Count("alloc." + key)
		kf.Report(t, "C12", key, "%s allocated %d MiB while reading mined payloads of %d hostile bytes (cap %d MiB)\ninput: %s", entry, o.alloc>>20, hostileBytes, allocCap>>20, input())
		return true
	}
	return false
}

var dEvidence = appstate.NewEvidenceMap(eventbus.New())

// approvedDirect is the direct call of the evidence consumer.
func approvedDirect(t fataler, candidates []common.Address, maps [][]byte, hostileBytes int, what string, input func() string) (abandon bool) {
	t.Helper()
	o := guard("EvidenceMap.CalculateApprovedCandidates", input, func() {
		_ = dEvidence.CalculateApprovedCandidates(candidates, maps)
	})
	evid.Count("def.reached.CalculateApprovedCandidates." + what)
	return verdictDeferred(t, o, consumerApproved, fmt.Sprintf("EvidenceMap.CalculateApprovedCandidates(%d candidates, %d maps)", len(candidates), len(maps)), hostileBytes, input)
}

// ---------------------------------------------------------------------------
// the ceremony route

type dOptions struct {
	Split    []int // block sizes
	RestartK int   // blocks delivered before the node is restarted (-1: no restart)
	Words    int   // flips whose key words are asked for after the evaluation
}

type dResult struct {
	validated int // identities that are Newbie or better after the epoch step
	abandoned bool
}

// runDeferred drives one epoch. Every call into the repository that touches mined payloads runs under guard.
func runDeferred(t fataler, s *dSpec, ledger dbm.DB, tables []ceremony.VerifC17Shard, txs []*dTx, opt dOptions) (res dResult) {
	t.Helper()
	var mined []*dTx
	hostileBytes := 0
	for _, x := range txs {
		if x.refused == nil {
			mined = append(mined, x)
			if x.Hostile {
				hostileBytes += len(x.Payload)
			}
		}
	}
	input := func() string {
		return fmt.Sprintf("%s ceremony transactions with hostile payloads:\n%s blocks=%v restartAfter=%d", s.describe(), describeTxs(txs), opt.Split, opt.RestartK)
	}
	blocks := dBlocks(s, mined, opt.Split)
	n := dFreshNode(s, ledger, dLedgerHeight)
	deliver := func(n *dNode, bs []*types.Block) bool {
		for _, b := range bs {
			b := b
			o := guardFast("ValidationCeremony.addBlock", input, func() { n.vc.VerifC17AddBlock(b) })
			if verdictDeferred(t, o, consumerEpoch, "ValidationCeremony.addBlock (processCeremonyTxs, persist)", hostileBytes, input) {
				return false
			}
		}
		return true
	}
	if opt.RestartK < 0 {
		if !deliver(n, blocks) {
			return dResult{abandoned: true}
		}
	} else {
		k := opt.RestartK
		if k > len(blocks) {
			k = len(blocks)
		}
		if !deliver(n, blocks[:k]) {
			return dResult{abandoned: true}
		}
		// restart: a new ceremony object over the same database restores answers, evidence and lottery identities
		m := dOpenNode(s, n.db, dLedgerHeight)
		o := guard("ValidationCeremony.restoreState", input, func() { m.vc.VerifC17Restore() })
		if verdictDeferred(t, o, consumerEpoch, "ValidationCeremony.restoreState (qualification.restore, calculateCeremonyCandidates)", hostileBytes, input) {
			return dResult{abandoned: true}
		}
		if !m.vc.VerifC17LotteryFinished() {
			t.Fatalf("harness: restarted node did not recompute the lottery\n%s", input())
		}
		evid.Count("def.restart")
		if k > 0 && !deliver(m, blocks[k-1:k]) { // Initialize re-delivers the head block
			return dResult{abandoned: true}
		}
		if !deliver(m, blocks[k:]) {
			return dResult{abandoned: true}
		}
		n = m
	}

	cs, err := n.appState.ForCheck(dLedgerHeight)
	if err != nil {
		t.Fatalf("harness: ForCheck: %v", err)
	}
	o := guard("Blockchain.applyNewEpoch", input, func() { n.applyEpoch(s, cs) })
	if o.panicked {
		verdictDeferred(t, o, consumerEpoch, "Blockchain.applyNewEpoch -> ValidationCeremony.ApplyNewEpoch (validation-finished block)", hostileBytes, input)
		return dResult{abandoned: true}
	}
	if hostileBytes <= frameCap && o.alloc > allocCap {
		// attribute the allocation: the evidence consumer alone, on what the epoch database holds
		consumer := consumerEpoch
		stored := n.vc.VerifC17EpochDb().ReadEvidenceMaps()
		for _, sh := range tables {
			in := map[common.Address]bool{}
			for _, c := range sh.Candidates {
				in[c] = true
			}
			var maps [][]byte
			for _, m := range stored {
				if in[m.Sender] {
					maps = append(maps, m.Map)
				}
			}
			cands := sh.Candidates
			d := guard("EvidenceMap.CalculateApprovedCandidates", input, func() { _ = dEvidence.CalculateApprovedCandidates(cands, maps) })
			if !d.panicked && d.alloc > allocCap {
				consumer = consumerApproved
				break
			}
		}
		verdictDeferred(t, o, consumer, "Blockchain.applyNewEpoch -> ValidationCeremony.ApplyNewEpoch (validation-finished block)", hostileBytes, input)
		return dResult{abandoned: true}
	}
	for i := range s.Idents {
		if cs.State.GetIdentity(s.Idents[i].Addr).State.NewbieOrBetter() {
			res.validated++
		}
	}

	// the evaluation again (another block proposal / validation of the same height: per-height cache)
	cs2, err := n.appState.ForCheck(dLedgerHeight)
	if err != nil {
		t.Fatalf("harness: ForCheck: %v", err)
	}
	o = guardFast("Blockchain.applyNewEpoch#2", input, func() { n.applyEpoch(s, cs2) })
	if verdictDeferred(t, o, consumerEpoch, "Blockchain.applyNewEpoch (second evaluation of the height)", hostileBytes, input) {
		return dResult{abandoned: true}
	}

	// key words of flips are derived from the author's mined short answers (GetFlipWords -> qualification.GetWordsRnd)
	asked := 0
	for _, sh := range tables {
		for _, cid := range sh.Flips {
			if asked >= opt.Words {
				break
			}
			asked++
			cid := cid
			o := guardFast("ValidationCeremony.GetFlipWords", input, func() { _, _, _ = n.vc.GetFlipWords(cid) })
			if verdictDeferred(t, o, consumerEpoch, "ValidationCeremony.GetFlipWords", hostileBytes, input) {
				return dResult{abandoned: true}
			}
		}
	}
	return res
}

// ---------------------------------------------------------------------------
// generators: ledger

func drawEpochSpec(t *rapid.T) *dSpec {
	s := &dSpec{}
	s.KeySeed = rapid.Uint64().Draw(t, "keySeed")
	var n int
	sizeClass := pickW(t, "sizeClass", 2, 4, 50, 30, 3)
	switch sizeClass {
	case 0:
		n = 0
	case 1:
		n = 1
	case 2:
		n = rapid.IntRange(2, 8).Draw(t, "identitiesFew")
	case 3:
		n = rapid.IntRange(9, 40).Draw(t, "identitiesDozens")
	default:
		n = rapid.IntRange(100, 260).Draw(t, "identitiesHundreds")
	}
	s.Epoch = rapid.SampledFrom([]uint16{1, 0, 2, 3, 92, 93, 150}).Draw(t, "epoch")
	s.Version = rapid.SampledFrom([]config.ConsensusVerson{config.ConsensusV12, config.ConsensusV12, config.ConsensusV12, config.ConsensusV11, config.ConsensusV10, config.ConsensusV9}).Draw(t, "consensus")
	s.ShardsNum = uint32(rapid.SampledFrom([]int{1, 1, 1, 2, 3}).Draw(t, "shards"))
	if sizeClass == 4 {
		s.Epoch = rapid.SampledFrom([]uint16{0, 0, 1}).Draw(t, "epochOfLargeWorld") // (no VRF proofs to make and verify for hundreds of senders)
	}
	s.Period = rapid.SampledFrom([]state.ValidationPeriod{state.AfterLongSessionPeriod, state.LongSessionPeriod}).Draw(t, "period")
	s.ValidationT = 1893456000 + int64(rapid.IntRange(0, 7*86400).Draw(t, "validationTime"))
	s.LotterySeed = junk(t, "lotterySeed", 32, 32)
	copy(s.WordsSeed[:], junk(t, "wordsSeed", 32, 32))
	shardMode := make([]int, s.ShardsNum+1) // 0 normal, 1 no flips at all, 2 one flip
	for sh := 1; sh <= int(s.ShardsNum); sh++ {
		shardMode[sh] = pickW(t, "shardMode", 7, 2, 1)
	}
	statuses := []state.IdentityState{state.Verified, state.Newbie, state.Candidate, state.Human, state.Suspended, state.Zombie, state.Invite, state.Undefined}
	oneFlipGiven := map[common.ShardId]bool{}
	for i := 0; i < n; i++ {
		key := sim.DeriveKey(s.KeySeed, i)
		id := dIdent{Key: key, Addr: crypto.PubkeyToAddress(key.PublicKey), Pub: crypto.FromECDSAPub(&key.PublicKey)}
		id.State = statuses[pickW(t, "status", 6, 4, 4, 3, 2, 2, 1, 1)]
		id.Shard = common.ShardId(1 + rapid.IntRange(0, int(s.ShardsNum)-1).Draw(t, "shard"))
		canAuthor := id.State != state.Candidate && id.State != state.Invite && id.State != state.Undefined
		made := 0
		switch shardMode[id.Shard] {
		case 0:
			if canAuthor {
				id.Required = []uint8{3, 4, 5, 0, 1}[pickW(t, "required", 6, 1, 1, 1, 1)]
				made = int(id.Required)
				switch pickW(t, "made", 8, 1, 1) {
				case 1:
					made = rapid.IntRange(0, int(id.Required)).Draw(t, "madeFewer")
				case 2:
					// the additional flips a Verified (1) or Human (2) identity may submit
					if id.State == state.Verified {
						made++
					} else if id.State == state.Human {
						made += 2
					}
				}
			}
		case 1:
			if canAuthor && rare(t, "lackingInFlipless", 4) {
				id.Required = 3
			}
		case 2:
			if canAuthor && !oneFlipGiven[id.Shard] {
				oneFlipGiven[id.Shard] = true
				id.Required = uint8(rapid.IntRange(0, 1).Draw(t, "requiredOfSingleAuthor"))
				made = 1
			}
		}
		for j := 0; j < made; j++ {
			cid := []byte{0x01, 0x55, byte(id.Shard), byte(i), byte(i >> 8), byte(j), 0, 0, 0, 0, 0, 0, 0, 0}
			for k := 0; k < 8; k++ {
				cid[6+k] = byte(s.KeySeed >> (8 * k))
			}
			if j == 0 && i > 0 && len(s.Idents[i-1].Flips) > 0 && s.Idents[i-1].Shard == id.Shard && rare(t, "copiedFlipCid", 5) {
				// the cid another author has submitted already (validateSubmitFlipTx compares with the sender's own flips only)
				cid = append([]byte(nil), s.Idents[i-1].Flips[0]...)
				s.copiedCid = true
			}
			id.Flips = append(id.Flips, cid)
		}
		switch pickW(t, "stake", 2, 1, 4) {
		case 0:
			id.Stake = big.NewInt(0)
		case 1:
			id.Stake = big.NewInt(int64(rapid.IntRange(1, 1000).Draw(t, "stakeWei")))
		default:
			id.Stake = sim.Dna(int64(rapid.IntRange(1, 3000).Draw(t, "stakeDna")))
		}
		if rapid.Bool().Draw(t, "hasBalance") {
			id.Balance = sim.Dna(int64(rapid.IntRange(1, 500).Draw(t, "balanceDna")))
		} else {
			id.Balance = big.NewInt(0)
		}
		if canAuthor {
			if age := rapid.IntRange(0, 12).Draw(t, "age"); int(s.Epoch) >= age {
				id.Birthday = s.Epoch - uint16(age)
			}
			for k, cnt := 0, rapid.IntRange(0, 10).Draw(t, "scoresCount"); k < cnt; k++ {
				id.Scores = append(id.Scores, []byte{0xC6, 0xC6, 0xA6, 0x86, 0x66, 0x05}[pick(t, "score", 6)])
			}
		}
		s.Idents = append(s.Idents, id)
	}
	s.index()
	outsider := func(k int) common.Address {
		return crypto.PubkeyToAddress(sim.DeriveKey(s.KeySeed^0x9e3779b97f4a7c15, 1000+k).PublicKey)
	}
	if n > 0 && pickW(t, "god", 3, 1) == 0 {
		s.God = s.Idents[0].Addr
	} else {
		s.God = outsider(0)
	}
	// a few delegations to a pool (an identity of the world or an outsider)
	if n > 1 {
		for i := range s.Idents {
			id := &s.Idents[i]
			if id.State == state.Undefined || id.State == state.Invite || !rare(t, "delegates", 5) {
				continue
			}
			var p common.Address
			if rapid.Bool().Draw(t, "poolIsOutsider") {
				p = outsider(1)
			} else {
				p = s.Idents[(i+1)%n].Addr
				if s.Idents[(i+1)%n].Delegatee != nil {
					continue // no chains
				}
			}
			id.Delegatee = &p
		}
	}
	return s
}

// ---------------------------------------------------------------------------
// generators: ceremony transactions

type dCandidate struct {
	ident int
	shard int // index into tables
	idx   int // index inside the shard's candidate list
}

func dCandidates(s *dSpec, tables []ceremony.VerifC17Shard) []dCandidate {
	var res []dCandidate
	for si, sh := range tables {
		for k, a := range sh.Candidates {
			res = append(res, dCandidate{ident: s.byAddr[a], shard: si, idx: k})
		}
	}
	return res
}

type honestSet struct {
	hash     []byte
	short    shortHonest
	long     longHonest
	evidence []uint32
}

// honestPayloads: what an honest client of the candidate sends (answers close to a per-flip truth, grade D mostly).
func honestPayloads(s *dSpec, sh *ceremony.VerifC17Shard, c dCandidate, present map[int]bool, seed int64) honestSet {
	rng := rand.New(rand.NewSource(seed))
	truth := func(flip int) types.Answer {
		if (uint64(flip)*2654435761+uint64(s.LotterySeed[0]))%2 == 0 {
			return types.Left
		}
		return types.Right
	}
	answer := func(flip int) types.Answer {
		if rng.Intn(100) < 90 {
			return truth(flip)
		}
		return types.Answer(rng.Intn(3))
	}
	fill := func(list []int, grades bool) []byte {
		a := types.NewAnswers(uint(len(list)))
		increased := false
		for i, f := range list {
			switch answer(f) {
			case types.Left:
				a.Left(uint(i))
			case types.Right:
				a.Right(uint(i))
			}
			if grades {
				switch {
				case rng.Intn(25) == 0:
					a.Grade(uint(i), types.GradeReported)
				case !increased && rng.Intn(8) == 0:
					a.Grade(uint(i), types.GradeA)
					increased = true
				case rng.Intn(12) != 0:
					a.Grade(uint(i), types.GradeD)
				}
			}
		}
		return a.Bytes()
	}
	id := &s.Idents[c.ident]
	var h honestSet
	h.short.bits = fill(sh.ShortFlips[c.idx], false)
	h.long.bits = fill(sh.LongFlips[c.idx], true)
	if s.Epoch > 0 {
		h.long.proof = evalVrf(id.Key, s.WordsSeed[:]) // (verified by validateSubmitLongAnswersTx from epoch 1 on)
	} else {
		h.long.proof = make([]byte, 129)
		rng.Read(h.long.proof)
	}
	vh, err := vrf.HashFromProof(h.long.proof)
	if err != nil {
		panic(err)
	}
	h.short.rnd = ceremony.VerifC17WordsRnd(vh)
	h.long.salt = make([]byte, 32)
	rng.Read(h.long.salt)
	h.long.key = make([]byte, 32)
	rng.Read(h.long.key)
	hash := crypto.Hash(append(append([]byte(nil), h.short.bits...), h.long.salt...))
	h.hash = hash[:]
	for k := range sh.Candidates {
		in := present[k]
		if rng.Intn(100) < 4 {
			in = !in
		}
		if in {
			h.evidence = append(h.evidence, uint32(k))
		}
	}
	return h
}

func payloadLimit(v config.ConsensusVerson) int {
	if v >= config.ConsensusV11 {
		return validation.MaxPayloadSizeUpgrade11
	}
	return validation.MaxPayloadSize
}

func dSign(s *dSpec, x *dTx, nonce uint32) {
	tx := &types.Transaction{AccountNonce: nonce, Epoch: s.Epoch, Type: x.Type, Payload: x.Payload}
	signed, err := types.SignTx(tx, s.Idents[x.From].Key)
	if err != nil {
		panic(err)
	}
	x.tx = sim.WireCopyTx(signed)
	x.Payload = x.tx.Payload
}

// drawCeremonyTxs draws who takes part, who is hostile and what every candidate sends. It returns the transactions in
// arrival order together with the canaries of oversized evidence shapes (evaluated first by the caller).
func drawCeremonyTxs(t *rapid.T, s *dSpec, tables []ceremony.VerifC17Shard) (txs []*dTx, canaries []evCanary) {
	cands := dCandidates(s, tables)
	if len(cands) == 0 {
		return nil, nil
	}
	limit := payloadLimit(s.Version)
	hostile := map[int]bool{}
	// two of three hostile senders are drawn among the candidates the chain accepts evidence from (validateEvidenceTx:
	// not a Candidate, not delegated, not a Newbie after epoch 2)
	var evidenceSenders []dCandidate
	for _, c := range cands {
		id := &s.Idents[c.ident]
		if id.Delegatee == nil && id.State != state.Candidate && (id.State != state.Newbie || s.Epoch <= 2) {
			evidenceSenders = append(evidenceSenders, c)
		}
	}
	drawHostile := func(label string) {
		if len(evidenceSenders) > 0 && pickW(t, label+"Eligible", 2, 1) == 0 {
			hostile[evidenceSenders[pick(t, label, len(evidenceSenders))].ident] = true
			return
		}
		hostile[cands[pick(t, label, len(cands))].ident] = true
	}
	switch pickW(t, "hostileSenders", 1, 6, 3, 1) {
	case 0:
	case 1:
		drawHostile("hostileOne")
	case 2:
		for i, cnt := 0, 2+pick(t, "hostileCount", 4); i < cnt; i++ {
			drawHostile("hostileSome")
		}
	default:
		for _, c := range cands {
			if len(hostile) < 24 {
				hostile[c.ident] = true
			}
		}
	}
	// who sends an answer hash at all (the "present" set honest evidence reports)
	absent := map[int]bool{}
	present := make([]map[int]bool, len(tables))
	for i := range present {
		present[i] = map[int]bool{}
	}
	for _, c := range cands {
		if !hostile[c.ident] && pickW(t, "absent", 9, 1) == 1 {
			absent[c.ident] = true
			continue
		}
		present[c.shard][c.idx] = true
	}
	bigBudget := 2 // payloads above 64 KiB per case: the hostile bytes of a case stay below 8 MiB
	for _, c := range cands {
		if absent[c.ident] {
			continue
		}
		sh := &tables[c.shard]
		h := honestPayloads(s, sh, c, present[c.shard], int64(s.KeySeed)^int64(c.ident)*7919)
		id := &s.Idents[c.ident]
		label := fmt.Sprintf("id%d", c.ident)
		add := func(typ types.TxType, payload []byte, how string) {
			x := &dTx{From: c.ident, Type: typ, Payload: payload, Label: how, Hostile: how != "honest"}
			if len(payload) > 64<<10 {
				bigBudget--
			}
			txs = append(txs, x)
		}
		if !hostile[c.ident] {
			partial := pickW(t, "honestPartial", 90, 4, 3, 3) // full / no long answers / no short answers / no evidence
			add(types.SubmitAnswersHashTx, h.hash, "honest")
			if partial != 2 {
				add(types.SubmitShortAnswersTx, attachments.CreateShortAnswerAttachment(h.short.bits, h.short.rnd, 1), "honest")
			}
			if partial != 1 {
				b, _ := (&attachments.LongAnswerAttachment{Answers: h.long.bits, Proof: h.long.proof, Key: h.long.key, Salt: h.long.salt}).ToBytes()
				add(types.SubmitLongAnswersTx, b, "honest")
			}
			if partial != 3 {
				add(types.EvidenceTx, bitmapBytes(len(sh.Candidates), h.evidence), "honest")
			}
			continue
		}
		// a hostile candidate: every transaction type it sends is honest or hostile
		sends := rapid.IntRange(1, 15).Draw(t, label+"Sends") // bit set of the four types
		if rapid.Bool().Draw(t, label+"SendsAll") {
			sends = 15
		}
		if sends&1 != 0 {
			p, how := genHash(t, label+"Hash", h.hash)
			add(types.SubmitAnswersHashTx, p, how)
		}
		if sends&2 != 0 {
			p, how := genShort(t, label+"Short", len(sh.ShortFlips[c.idx]), h.short, limit, bigBudget > 0)
			add(types.SubmitShortAnswersTx, p, how)
		}
		if sends&4 != 0 {
			other := s.Idents[(c.ident+1)%len(s.Idents)].Key
			ctx := vrfCtx{key: id.Key, msg: s.WordsSeed[:], honest: nil, other: other}
			if s.Epoch > 0 {
				ctx.honest = h.long.proof
			}
			p, how := genLong(t, label+"Long", len(sh.LongFlips[c.idx]), h.long, ctx, limit, bigBudget > 0)
			add(types.SubmitLongAnswersTx, p, how)
		}
		if sends&8 != 0 {
			ev := genEvidence(t, label+"Evidence", len(sh.Candidates), h.evidence, limit, bigBudget > 0)
			add(types.EvidenceTx, ev.data, ev.label)
			for _, cn := range ev.canaries {
				canaries = append(canaries, evCanary{candidates: sh.Candidates, data: cn, label: ev.label})
			}
		}
	}
	// arrival order: a drawn permutation
	if len(txs) > 1 {
		idx := make([]int, len(txs))
		for i := range idx {
			idx[i] = i
		}
		perm := rapid.Permutation(idx).Draw(t, "arrival")
		ordered := make([]*dTx, len(txs))
		for i, p := range perm {
			ordered[i] = txs[p]
		}
		txs = ordered
	}
	return txs, canaries
}

type evCanary struct {
	candidates []common.Address
	data       []byte
	label      string
}

// gate signs every transaction and asks the real validator whether a block may contain it on the lottery-time state.
func gate(s *dSpec, g *dNode, txs []*dTx) {
	validation.SetAppConfig(g.cfg)
	minFee := fee.GetFeePerGasForNetwork(g.appState.ValidatorsCache.NetworkSize())
	nonces := map[int]uint32{}
	for _, x := range txs {
		nonces[x.From]++
		dSign(s, x, nonces[x.From])
		x.refused = validation.ValidateTx(g.appState, x.tx, minFee, validation.InBlockTx)
		verdict := "accepted"
		if x.refused != nil {
			verdict = "refused"
		}
		kind := "honest"
		if x.Hostile {
			kind = "hostile"
		}
		evid.Count(fmt.Sprintf("def.gate.%s.%s.%s", typeName(x.Type), kind, verdict))
	}
}

func drawSplit(t *rapid.T, n int) []int {
	if n == 0 {
		return []int{0}
	}
	blocks := rapid.IntRange(1, 5).Draw(t, "blocks")
	split := make([]int, blocks)
	for i := 0; i < n; i++ {
		split[pick(t, "blockOf", blocks)]++
	}
	return split
}

func sizeClassName(n int) string {
	switch {
	case n == 0:
		return "0"
	case n == 1:
		return "1"
	case n <= 8:
		return "few"
	case n <= 60:
		return "dozens"
	case n <= 1000:
		return "hundreds"
	}
	return "thousands"
}

func labelClass(l string) string {
	for i, c := range l {
		if c == '(' || c == '[' || (c >= '0' && c <= '9' && i > 0 && l[i-1] == '-') {
			return strings.TrimRight(l[:i], "-")
		}
	}
	return l
}

// TestDeferredCeremony: generated epochs with hostile payloads in mined ceremony transactions, evaluated by the real
// ValidationCeremony when the validation-finished block is applied.
func TestDeferredCeremony(t *testing.T) {
	rapid.Check(t, func(t *rapid.T) {
		defer func() {
			time.Local = time.UTC
			vclock.Reset()
		}()
		time.Local = time.UTC
		evid.Eval()
		s := drawEpochSpec(t)
		vclock.Set(time.Unix(s.ValidationT+600, 0).UTC())
		ledger, as := dBuildLedger(s)
		g := dFreshNode(s, ledger, dLotteryHeight) // lottery tables + the state transactions are validated against
		tables := g.vc.VerifC17Shards()
		txs, canaries := drawCeremonyTxs(t, s, tables)
		gate(s, g, txs)
		var mined []*dTx
		for _, x := range txs {
			if x.refused == nil {
				mined = append(mined, x)
			}
		}
		dSealLedger(s, as, mined)
		opt := dOptions{Split: drawSplit(t, len(mined)), RestartK: -1, Words: 3}
		if rapid.Bool().Draw(t, "restart") {
			opt.RestartK = rapid.IntRange(0, len(opt.Split)).Draw(t, "restartAfterBlocks")
		}

		// classes
		nc, nf := 0, 0
		for _, sh := range tables {
			nc += len(sh.Candidates)
			nf += len(sh.Flips)
			evid.Count("def.shard.candidates." + sizeClassName(len(sh.Candidates)))
			evid.Count("def.shard.flips." + sizeClassName(len(sh.Flips)))
		}
		evid.Count("def.epoch.candidates." + sizeClassName(nc))
		evid.Count(fmt.Sprintf("def.consensus.v%d", s.Version))
		if s.copiedCid {
			evid.Count("def.ledger.flip-cid-of-another-author")
		}
		if s.Epoch == 0 {
			evid.Count("def.epoch.0")
		} else {
			evid.Count("def.epoch.1+")
		}
		var desc []string
		minedHostile := 0
		for _, x := range mined {
			if x.Hostile {
				minedHostile++
				evid.Count("def.mined." + typeName(x.Type) + "." + labelClass(x.Label))
				desc = append(desc, typeName(x.Type)+":"+x.Label)
				if len(x.Payload) > 64<<10 {
					evid.Count("def.mined.payload-above-64KiB")
				}
			}
		}
		evid.CountN("def.mined.hostile", minedHostile)

		// oversized evidence shapes: the same shape at harmless cardinalities first, directly at the consumer
		for _, cn := range canaries {
			cn := cn
			in := func() string {
				return fmt.Sprintf("mined EvidenceTx payload (%d bytes, canary of %s) = %x read for %d candidates", len(cn.data), cn.label, clip(cn.data, 96), len(cn.candidates))
			}
			if approvedDirect(t, cn.candidates, [][]byte{cn.data}, len(cn.data), "canary", in) {
				return
			}
		}
		res := runDeferred(t, s, ledger, tables, txs, opt)
		if res.abandoned {
			return
		}
		evid.Count("def.reached.ApplyNewEpoch")
		if res.validated > 0 {
			evid.Count("def.outcome.somebody-validated")
		} else {
			evid.Count("def.outcome.nobody-validated")
		}
		if minedHostile > 0 {
			evid.Count("def.reached.ApplyNewEpoch.with-hostile-payloads")
			sort.Strings(desc)
			evid.NonTrivial(fmt.Sprintf("ceremony|%s|%s|v%d|%v", sizeClassName(nc), sizeClassName(nf), s.Version, desc))
			evid.Sample("deferred-ceremony", map[string]interface{}{"identities": len(s.Idents), "candidates": nc, "flips": nf, "epoch": s.Epoch, "consensus": s.Version,
				"shards": s.ShardsNum, "mined": len(mined), "hostile": desc, "blocks": opt.Split, "restartAfter": opt.RestartK})
		}
	})
}

// TestDeferredEvidenceDirect: EvidenceMap.CalculateApprovedCandidates on generated candidate lists and map sets.
func TestDeferredEvidenceDirect(t *testing.T) {
	rapid.Check(t, func(t *rapid.T) {
		evid.Eval()
		var n int
		switch pickW(t, "candidatesClass", 2, 3, 20, 25, 25, 10, 3) {
		case 0:
			n = 0
		case 1:
			n = 1
		case 2:
			n = rapid.IntRange(2, 12).Draw(t, "few")
		case 3:
			n = rapid.IntRange(13, 100).Draw(t, "dozens")
		case 4:
			n = rapid.IntRange(101, 1000).Draw(t, "hundreds")
		case 5:
			n = rapid.IntRange(1001, 6000).Draw(t, "thousands")
		default:
			n = rapid.SampledFrom([]int{4095, 4096, 4097, 65535, 65536, 65537}).Draw(t, "boundary")
		}
		candidates := make([]common.Address, n)
		for i := range candidates {
			candidates[i][0], candidates[i][1], candidates[i][2], candidates[i][19] = byte(i), byte(i>>8), byte(i>>16), 0xc1
		}
		var honestCount int
		switch pickW(t, "honestMapsClass", 3, 3, 10, 6, 2) {
		case 0:
			honestCount = 0
		case 1:
			honestCount = 1
		case 2:
			honestCount = rapid.IntRange(2, 8).Draw(t, "honestFew")
		case 3:
			honestCount = rapid.IntRange(9, 60).Draw(t, "honestDozens")
		default:
			honestCount = rapid.IntRange(100, 400).Draw(t, "honestHundreds")
		}
		for n*honestCount > 1<<21 {
			honestCount /= 2
		}
		limit := rapid.SampledFrom([]int{validation.MaxPayloadSizeUpgrade11, validation.MaxPayloadSizeUpgrade11, validation.MaxPayloadSize}).Draw(t, "payloadLimit")
		seed := rapid.Int64().Draw(t, "honestSeed")
		rng := rand.New(rand.NewSource(seed))
		var maps [][]byte
		for i := 0; i < honestCount; i++ {
			var bits []uint32
			for k := 0; k < n; k++ {
				if rng.Intn(100) < 85 {
					bits = append(bits, uint32(k))
				}
			}
			maps = append(maps, bitmapBytes(n, bits))
		}
		hostileCount := 1 + pickW(t, "hostileMaps", 6, 3, 1)
		if hostileCount == 3 {
			hostileCount = 3 + pick(t, "hostileMany", 20)
		}
		var honestBits []uint32
		for k := 0; k < n; k += 2 {
			honestBits = append(honestBits, uint32(k))
		}
		hostileBytes, bigBudget := 0, 2
		var labels []string
		for i := 0; i < hostileCount; i++ {
			ev := genEvidence(t, fmt.Sprintf("map%d", i), n, honestBits, limit, bigBudget > 0)
			if len(ev.data) > 64<<10 {
				bigBudget--
			}
			for _, cn := range ev.canaries {
				cn := cn
				in := func() string {
					return fmt.Sprintf("EvidenceTx payload (%d bytes, canary of %s) = %x read for %d candidates", len(cn), ev.label, clip(cn, 96), n)
				}
				if approvedDirect(t, candidates, [][]byte{cn}, len(cn), "canary", in) {
					return
				}
			}
			data := ev.data
			if len(data) == 0 {
				// a transaction decoded from the wire holds a nil payload, and the epoch database does not store an absent value
				// (WriteEvidenceMap drops the error): no empty map reaches the consumer in a node (the ceremony route has the case)
				evid.Count("def.direct.map.empty-not-stored")
				continue
			}
			hostileBytes += len(data)
			labels = append(labels, ev.label)
			evid.Count("def.direct.map." + labelClass(ev.label))
			pos := 0
			if len(maps) > 0 {
				pos = pick(t, "hostilePos", len(maps)+1)
			}
			maps = append(maps[:pos:pos], append([][]byte{data}, maps[pos:]...)...)
		}
		evid.Count("def.direct.candidates." + sizeClassName(n))
		evid.Count("def.direct.maps." + sizeClassName(len(maps)))
		in := func() string {
			var b strings.Builder
			fmt.Fprintf(&b, "%d candidates, %d maps (honest seed %d), hostile: %v\n", n, len(maps), seed, labels)
			for i, m := range maps {
				if i < 40 {
					fmt.Fprintf(&b, "  map%d (%d bytes) %x\n", i, len(m), clip(m, 96))
				}
			}
			return b.String()
		}
		if approvedDirect(t, candidates, maps, hostileBytes, "direct", in) {
			return
		}
		sort.Strings(labels)
		evid.NonTrivial(fmt.Sprintf("direct|%s|%s|%v", sizeClassName(n), sizeClassName(len(maps)), labels))
	})
}

package c12

import (
	"bytes"
	"fmt"
	"math"
	"math/big"
	"strings"

	"github.com/idena-network/idena-go/blockchain/attachments"
	"github.com/idena-network/idena-go/blockchain/types"
	"github.com/idena-network/idena-go/common"
	"github.com/idena-network/idena-go/crypto"
	"github.com/idena-network/idena-go/crypto/vrf/p256"
	"github.com/idena-network/idena-go/rlp"
	"github.com/idena-network/idena-go/vm/embedded"
	"pgregory.net/rapid"

	"verifharness/internal/sim"
)

var txTypes = []types.TxType{
	types.SendTx, types.ActivationTx, types.InviteTx, types.KillTx, types.SubmitFlipTx, types.SubmitAnswersHashTx,
	types.SubmitShortAnswersTx, types.SubmitLongAnswersTx, types.EvidenceTx, types.OnlineStatusTx, types.KillInviteeTx,
	types.ChangeGodAddressTx, types.BurnTx, types.ChangeProfileTx, types.DeleteFlipTx, types.DeployContractTx,
	types.CallContractTx, types.TerminateContractTx, types.DelegateTx, types.UndelegateTx, types.KillDelegatorTx,
	types.StoreToIpfsTx, types.ReplenishStakeTx,
}

func typeName(t types.TxType) string {
	if n, ok := sim.TxTypeNames[t]; ok {
		return n
	}
	return "Unknown"
}

func pick(t *rapid.T, label string, n int) int { return rapid.IntRange(0, n-1).Draw(t, label) }

// rare is true with a probability of roughly 1/(2n): rapid's integer draws favour small values and the bounds,
// so the rare alternative is a value in the upper middle of the range.
func rare(t *rapid.T, label string, n int) bool {
	return rapid.IntRange(0, n-1).Draw(t, label) == (2*n)/3
}

// abandon is thrown (and recovered at the top of the case) to leave a world
// after a recovered panic of the code under test.
type abandon struct{}

func junk(t *rapid.T, label string, min, max int) []byte {
	return rapid.SliceOfN(rapid.Byte(), min, max).Draw(t, label)
}

func flipBits(t *rapid.T, b []byte, label string) []byte {
	c := append([]byte{}, b...)
	if len(c) == 0 {
		return []byte{byte(pick(t, label+"Byte", 256))}
	}
	n := 1 + pick(t, label+"N", 3)
	for i := 0; i < n; i++ {
		p := pick(t, label+"Pos", len(c))
		c[p] ^= 1 << uint(pick(t, label+"Bit", 8))
	}
	return c
}

// cid1 is a parseable CIDv1 (raw, sha2-256).
func cid1(seed ...byte) []byte {
	h := crypto.Keccak256(seed)
	return append([]byte{0x01, 0x55, 0x12, 0x20}, h...)
}

// ---------------------------------------------------------------------------
// transactions

type txCase struct {
	tx     *types.Transaction // decoded from its own wire encoding
	sender *sim.Actor
	labels []string // hostile fields applied
	typ    types.TxType
	wire   []byte
}

func (c *txCase) String() string {
	tx := c.tx
	to := "nil"
	if tx.To != nil {
		to = tx.To.Hex()
	}
	return fmt.Sprintf("tx{type=%s(%d) sender=%s nonce=%d epoch=%d to=%s amount=%v maxFee=%v tips=%v payload(%d)=%x useRlp=%v sig(%d)} hostile=%v wire=%x",
		typeName(tx.Type), tx.Type, c.sender, tx.AccountNonce, tx.Epoch, to, tx.Amount, tx.MaxFee, tx.Tips, len(tx.Payload), clip(tx.Payload, 80), tx.UseRlp, len(tx.Signature), c.labels, clip(c.wire, 400))
}

func clip(b []byte, n int) []byte {
	if len(b) > n {
		return b[:n]
	}
	return b
}

func huge(t *rapid.T, label string) *big.Int {
	switch pick(t, label, 4) {
	case 0:
		return new(big.Int).Lsh(big.NewInt(1), 200)
	case 1:
		return new(big.Int).Lsh(big.NewInt(1), 255) // top bit of a 256-bit word set ("negative-looking")
	case 2:
		return new(big.Int).Sub(new(big.Int).Lsh(big.NewInt(1), 256), big.NewInt(1))
	default:
		return new(big.Int).Lsh(big.NewInt(1), 2047)
	}
}

// longSeed is the message long-session VRF proofs are checked against on the state in use (set by genHostileTx).
var longSeed []byte

// otherPayload returns a well-formed attachment of some (usually different) tx type.
func otherPayload(t *rapid.T, w *sim.World, sender *sim.Actor) ([]byte, string) {
	switch pick(t, "otherPayload", 14) {
	case 0:
		return sender.Pub, "own-pubkey"
	case 1:
		return w.Actors[pick(t, "pubOf", len(w.Actors))].Pub, "actor-pubkey"
	case 2:
		return crypto.CompressPubkey(&sender.Key.PublicKey), "compressed-pubkey"
	case 3:
		return attachments.CreateOnlineStatusAttachment(rapid.Bool().Draw(t, "online")), "online-att"
	case 4:
		return attachments.CreateBurnAttachment(rapid.SampledFrom([]string{"", "k", strings.Repeat("x", 300)}).Draw(t, "burnKey")), "burn-att"
	case 5:
		return attachments.CreateFlipSubmitAttachment(rapid.SampledFrom([][]byte{nil, {1}, cid1(1), junk(t, "flipCid", 0, 40)}).Draw(t, "fcid"), uint8(pick(t, "pair", 256))), "flip-att"
	case 6:
		return attachments.CreateDeleteFlipAttachment(rapid.SampledFrom([][]byte{nil, {1}, cid1(2)}).Draw(t, "dcid")), "deleteflip-att"
	case 7:
		return attachments.CreateShortAnswerAttachment(junk(t, "answers", 0, 20), rapid.Uint64().Draw(t, "rnd"), 0), "short-att"
	case 8:
		proof := junk(t, "lproof", 0, 90)
		label := "long-att"
		if rapid.Bool().Draw(t, "longVrfConst") && longSeed != nil {
			var l string
			proof, l = hostileVrfProof(t, "longProof", vrfCtx{key: sender.Key, msg: longSeed})
			label += "+" + l
		}
		b, _ := (&attachments.LongAnswerAttachment{Answers: junk(t, "lanswers", 0, 20), Proof: proof, Key: junk(t, "lkey", 0, 40), Salt: rapid.SampledFrom([][]byte{nil, {1, 2, 3}}).Draw(t, "lsalt")}).ToBytes()
		return b, label
	case 9:
		args := [][]byte{}
		for i := pick(t, "nArgs", 5); i > 0; i-- {
			args = append(args, rapid.SampledFrom([][]byte{nil, {}, {1}, sender.Addr.Bytes(), common.ToBytes(uint64(1)), make([]byte, 33)}).Draw(t, "arg"))
		}
		codeHashes := []common.Hash{embedded.TimeLockContract, embedded.OracleVotingContract, embedded.OracleLockContract, embedded.RefundableOracleLockContract, embedded.MultisigContract, {}, {0xff}}
		att := attachments.CreateDeployContractAttachment(codeHashes[pick(t, "codeHash", len(codeHashes))], rapid.SampledFrom([][]byte{nil, {0, 0x61, 0x73, 0x6d, 1, 0, 0, 0}, {1, 2, 3}}).Draw(t, "code"), rapid.SampledFrom([][]byte{nil, {1}}).Draw(t, "dnonce"), args...)
		b, _ := att.ToBytes()
		return b, "deploy-att"
	case 10:
		args := [][]byte{}
		for i := pick(t, "nArgs", 5); i > 0; i-- {
			args = append(args, rapid.SampledFrom([][]byte{nil, {}, {1}, sender.Addr.Bytes(), common.ToBytes(uint64(1)), make([]byte, 33)}).Draw(t, "arg"))
		}
		att := attachments.CreateCallContractAttachment(rapid.SampledFrom([]string{"", "transfer", "deposit", "startVoting", "sendVote", "finishVoting", "terminate", "add", "send", "push", "\x00"}).Draw(t, "method"), args...)
		b, _ := att.ToBytes()
		return b, "call-att"
	case 11:
		att := attachments.CreateTerminateContractAttachment(rapid.SampledFrom([][]byte{nil, {1}, sender.Addr.Bytes()}).Draw(t, "targ"))
		b, _ := att.ToBytes()
		return b, "terminate-att"
	case 12:
		return attachments.CreateStoreToIpfsAttachment(rapid.SampledFrom([][]byte{nil, {1}, cid1(3), junk(t, "scid", 0, 40)}).Draw(t, "scidSel"), uint32(rapid.SampledFrom([]uint64{0, 1, 1 << 20, math.MaxUint32}).Draw(t, "ssize"))), "ipfs-att"
	default:
		return attachments.CreateChangeProfileAttachment(rapid.SampledFrom([][]byte{nil, {1}, cid1(4)}).Draw(t, "pcid")), "profile-att"
	}
}

// rlpSigHash is the legacy signature hash selected by the wire flag UseRlp.
func rlpSigHash(tx *types.Transaction) common.Hash {
	return rlp.Hash([]interface{}{tx.AccountNonce, tx.Epoch, tx.Type, tx.To, tx.Amount, tx.MaxFee, tx.Tips, tx.Payload})
}

// genHostileTx draws a structurally valid, semantically hostile transaction:
// a valid-ish transaction of a drawn type (sim.GenTx) with 1-3 hostile field
// choices on top, signed by a real key of the world, and passed through its
// own wire encoding. inBody are transactions that precede it in a block body.
func genHostileTx(t *rapid.T, w *sim.World, r *sim.Replica, inBody []*types.Transaction) *txCase {
	typ := txTypes[pick(t, "hostileTxType", len(txTypes))]
	base, info := w.GenTx(t, r, []types.TxType{typ})
	sender := info.Sender
	st := r.ReadState()
	seed := st.State.FlipWordsSeed()
	longSeed = seed[:]
	bal := st.State.GetBalance(sender.Addr)
	tx := &types.Transaction{AccountNonce: base.AccountNonce, Epoch: base.Epoch, Type: base.Type, To: base.To, Amount: base.Amount, MaxFee: base.MaxFee, Tips: base.Tips, Payload: base.Payload}
	c := &txCase{sender: sender, typ: typ}
	if info.Hostile != "" {
		c.labels = append(c.labels, "sim:"+info.Hostile)
	}
	// nonce: valid for inclusion right after inBody, more often than not
	stateNonce := st.State.GetNonce(sender.Addr)
	if st.State.GetEpoch(sender.Addr) < st.State.Epoch() {
		stateNonce = 0
	}
	for _, x := range inBody {
		if s, _ := types.Sender(x); s == sender.Addr {
			stateNonce++
		}
	}
	switch pick(t, "noncePolicy", 8) {
	case 0:
		// keep the pool-level nonce of sim.GenTx
	case 1:
		tx.AccountNonce = 0
		c.labels = append(c.labels, "nonce=0")
	case 2:
		tx.AccountNonce = math.MaxUint32
		c.labels = append(c.labels, "nonce=max")
	default:
		tx.AccountNonce = stateNonce + 1
	}
	nHostile := 1 + pick(t, "nHostile", 3)
	for i := 0; i < nHostile; i++ {
		switch pick(t, "hostileField", 9) {
		case 0, 1: // recipient
			switch pick(t, "toClass", 7) {
			case 0:
				tx.To = nil
				c.labels = append(c.labels, "to=nil")
			case 1:
				a := common.Address{}
				tx.To = &a
				c.labels = append(c.labels, "to=zero")
			case 2:
				a := sender.Addr
				tx.To = &a
				c.labels = append(c.labels, "to=self")
			case 3:
				a := st.State.GodAddress()
				tx.To = &a
				c.labels = append(c.labels, "to=god")
			case 4:
				a := w.NewActor().Addr
				tx.To = &a
				c.labels = append(c.labels, "to=absent")
			case 5:
				if len(w.Contracts) > 0 {
					a := w.Contracts[pick(t, "toContract", len(w.Contracts))]
					tx.To = &a
					c.labels = append(c.labels, "to=contract")
				} else {
					a := common.Address{0xff, 0xff, 0xff, 0xff, 0xff, 0xff, 0xff, 0xff, 0xff, 0xff, 0xff, 0xff, 0xff, 0xff, 0xff, 0xff, 0xff, 0xff, 0xff, 0xff}
					tx.To = &a
					c.labels = append(c.labels, "to=ff")
				}
			default:
				a := w.Actors[pick(t, "toActor", len(w.Actors))].Addr
				tx.To = &a
				c.labels = append(c.labels, "to=actor")
			}
		case 2: // amount
			switch pick(t, "amountClass", 6) {
			case 0:
				tx.Amount = nil
				c.labels = append(c.labels, "amount=nil")
			case 1:
				tx.Amount = big.NewInt(0)
				c.labels = append(c.labels, "amount=0")
			case 2:
				tx.Amount = big.NewInt(1)
				c.labels = append(c.labels, "amount=1")
			case 3:
				tx.Amount = new(big.Int).Set(bal)
				c.labels = append(c.labels, "amount=balance")
			case 4:
				tx.Amount = new(big.Int).Add(bal, big.NewInt(1))
				c.labels = append(c.labels, "amount=balance+1")
			default:
				tx.Amount = huge(t, "hugeAmount")
				c.labels = append(c.labels, "amount=huge")
			}
		case 3: // max fee
			switch pick(t, "maxFeeClass", 4) {
			case 0:
				tx.MaxFee = nil
				c.labels = append(c.labels, "maxFee=nil")
			case 1:
				tx.MaxFee = big.NewInt(0)
				c.labels = append(c.labels, "maxFee=0")
			case 2:
				tx.MaxFee = huge(t, "hugeMaxFee")
				c.labels = append(c.labels, "maxFee=huge")
			default:
				tx.MaxFee = new(big.Int).Set(bal)
				c.labels = append(c.labels, "maxFee=balance")
			}
		case 4: // tips
			switch pick(t, "tipsClass", 4) {
			case 0:
				tx.Tips = nil
				c.labels = append(c.labels, "tips=nil")
			case 1:
				tx.Tips = big.NewInt(0)
				c.labels = append(c.labels, "tips=0")
			case 2:
				tx.Tips = big.NewInt(1)
				c.labels = append(c.labels, "tips=1")
			default:
				tx.Tips = huge(t, "hugeTips")
				c.labels = append(c.labels, "tips=huge")
			}
		case 5, 6: // payload
			switch pick(t, "payloadClass", 9) {
			case 0:
				tx.Payload = nil
				c.labels = append(c.labels, "payload=nil")
			case 1:
				tx.Payload = junk(t, "junkPayload", 1, 70)
				c.labels = append(c.labels, "payload=junk")
			case 2:
				tx.Payload = flipBits(t, tx.Payload, "payloadFlip")
				c.labels = append(c.labels, "payload=bitflip")
			case 3:
				if len(tx.Payload) > 1 {
					tx.Payload = tx.Payload[:pick(t, "payloadCut", len(tx.Payload))]
				}
				c.labels = append(c.labels, "payload=truncated")
			case 4:
				tx.Payload = append(append([]byte{}, tx.Payload...), tx.Payload...)
				c.labels = append(c.labels, "payload=doubled")
			case 5:
				if pick(t, "reallyOversized", 6) == 0 {
					n := 3*1024 + 1
					if r.Cfg.Consensus.EnableUpgrade11 && pick(t, "3MiB", 4) == 0 {
						n = 3*1024*1024 + 1
					}
					tx.Payload = make([]byte, n)
					c.labels = append(c.labels, "payload=oversized")
				} else {
					tx.Payload = bytes.Repeat([]byte{0x0a, 0x7f}, 1000)
					c.labels = append(c.labels, "payload=big")
				}
			default:
				var l string
				tx.Payload, l = otherPayload(t, w, sender)
				c.labels = append(c.labels, "payload="+l)
			}
		case 7: // type confusion: same fields under another (or an unknown) type
			if pick(t, "unknownType", 4) == 0 {
				tx.Type = types.TxType(rapid.SampledFrom([]int{23, 24, 255, 256, 65535}).Draw(t, "unknownTypeVal"))
				c.labels = append(c.labels, "type=unknown")
			} else {
				tx.Type = txTypes[pick(t, "confusedType", len(txTypes))]
				c.labels = append(c.labels, "type="+typeName(tx.Type))
			}
		default: // epoch
			switch pick(t, "epochClass", 3) {
			case 0:
				tx.Epoch++
				c.labels = append(c.labels, "epoch+1")
			case 1:
				tx.Epoch--
				c.labels = append(c.labels, "epoch-1")
			default:
				tx.Epoch = math.MaxUint16
				c.labels = append(c.labels, "epoch=max")
			}
		}
	}
	// only what can be decoded from bytes a peer sends is in the domain: normalise the unsigned fields through the
	// wire encoding first, sign what a receiver will see, and pass the signed object through the encoding again
	tx = roundTripTx(t, tx)
	// signature: a real key of the world unless drawn otherwise
	switch pick(t, "sigClass", 24) {
	case 5, 6:
		signed, err := types.SignTx(tx, sender.Key)
		if err != nil {
			t.Fatalf("sign: %v", err)
		}
		tx = signed
		var l string
		tx.Signature, l = hostileEcdsaSig(t, "txSig", tx.Signature, sender.Key)
		c.labels = append(c.labels, l)
	case 0:
		tx.Signature = nil
		c.labels = append(c.labels, "sig=nil")
	case 1:
		tx.Signature = junk(t, "junkSig", 1, 70)
		c.labels = append(c.labels, "sig=junk")
	case 2:
		tx.Signature = make([]byte, 65)
		c.labels = append(c.labels, "sig=zero65")
	case 3, 4:
		tx.UseRlp = true
		h := rlpSigHash(tx)
		sig, err := crypto.Sign(h[:], sender.Key)
		if err != nil {
			t.Fatalf("sign: %v", err)
		}
		tx.Signature = sig
		c.labels = append(c.labels, "useRlp")
	default:
		signed, err := types.SignTx(tx, sender.Key)
		if err != nil {
			t.Fatalf("sign: %v", err)
		}
		tx = signed
	}
	wire, err := tx.ToBytes()
	if err != nil {
		t.Fatalf("encode tx: %v", err)
	}
	dec := new(types.Transaction)
	if err := dec.FromBytes(wire); err != nil {
		t.Fatalf("own encoding of a tx does not decode: %v", err)
	}
	c.tx, c.wire = dec, wire
	c.typ = dec.Type
	return c
}

func roundTripTx(t *rapid.T, tx *types.Transaction) *types.Transaction {
	wire, err := tx.ToBytes()
	if err != nil {
		t.Fatalf("encode tx: %v", err)
	}
	dec := new(types.Transaction)
	if err := dec.FromBytes(wire); err != nil {
		t.Fatalf("own encoding of a tx does not decode: %v", err)
	}
	return dec
}

// ---------------------------------------------------------------------------
// blocks

func cloneBlock(t *rapid.T, b *types.Block) *types.Block {
	data, err := b.ToBytes()
	if err != nil {
		t.Fatalf("encode block: %v", err)
	}
	c := new(types.Block)
	if err := c.FromBytes(data); err != nil {
		t.Fatalf("decode block: %v", err)
	}
	return c
}

// headerOps are hostile edits of a proposed header. Each returns a label, or "" when not applicable.
type headerOp func(t *rapid.T, w *sim.World, prev *types.Header, b *types.Block) string

func seedData(prev *types.Header) []byte {
	return append(prev.Seed().Bytes(), common.ToBytes(prev.Height()+1)...)
}

func setProposer(a *sim.Actor, prev *types.Header, ph *types.ProposedHeader) bool {
	signer, err := p256.NewVRFSigner(a.Key)
	if err != nil {
		return false
	}
	seedData := append(prev.Seed().Bytes(), common.ToBytes(prev.Height()+1)...)
	hash, proof := signer.Evaluate(seedData)
	ph.ProposerPubKey = a.Pub
	ph.BlockSeed = hash
	ph.SeedProof = proof
	return true
}

var headerOps = []headerOp{
	func(t *rapid.T, w *sim.World, prev *types.Header, b *types.Block) string {
		ph := b.Header.ProposedHeader
		ph.Flags |= types.OfflineCommit
		ph.OfflineAddr = nil
		return "OfflineCommit+addr=nil"
	},
	func(t *rapid.T, w *sim.World, prev *types.Header, b *types.Block) string {
		ph := b.Header.ProposedHeader
		ph.Flags |= types.OfflinePropose
		ph.OfflineAddr = nil
		return "OfflinePropose+addr=nil"
	},
	func(t *rapid.T, w *sim.World, prev *types.Header, b *types.Block) string {
		ph := b.Header.ProposedHeader
		ph.Flags |= rapid.SampledFrom([]types.BlockFlag{types.OfflineCommit, types.OfflinePropose, types.OfflineCommit | types.OfflinePropose}).Draw(t, "offlineFlag")
		a := rapid.SampledFrom([]common.Address{{}, w.Actors[pick(t, "offAddr", len(w.Actors))].Addr, {0xee}}).Draw(t, "offlineAddr")
		ph.OfflineAddr = &a
		return "Offline*+addr"
	},
	func(t *rapid.T, w *sim.World, prev *types.Header, b *types.Block) string {
		ph := b.Header.ProposedHeader
		a := w.Actors[pick(t, "offAddr", len(w.Actors))].Addr
		ph.OfflineAddr = &a
		return "addr-without-flag"
	},
	func(t *rapid.T, w *sim.World, prev *types.Header, b *types.Block) string {
		ph := b.Header.ProposedHeader
		switch pick(t, "pubKeyClass", 10) {
		case 6, 7, 8:
			var l string
			ph.ProposerPubKey, l = hostilePubKey(t, "proposerPub", ph.ProposerPubKey)
			return "ProposerPubKey=" + l
		case 9:
			// anybody's key (no identity needed to get as far as the seed proof) with a hostile seed proof for that key
			a := w.Actors[pick(t, "pubActor", len(w.Actors))]
			if !setProposer(a, prev, ph) {
				return ""
			}
			var l string
			ph.SeedProof, l = hostileVrfProof(t, "seedProof", vrfCtx{key: a.Key, msg: seedData(prev), honest: ph.SeedProof})
			return "proposer=other-actor+SeedProof=" + l
		case 0:
			ph.ProposerPubKey = nil
			return "ProposerPubKey=nil"
		case 1:
			ph.ProposerPubKey = junk(t, "junkPub", 1, 70)
			return "ProposerPubKey=junk"
		case 2:
			k := make([]byte, 65)
			k[0] = 4
			ph.ProposerPubKey = k
			return "ProposerPubKey=04+zeros"
		case 3:
			a := w.Actors[pick(t, "pubActor", len(w.Actors))]
			ph.ProposerPubKey = crypto.CompressPubkey(&a.Key.PublicKey)
			return "ProposerPubKey=compressed"
		case 4:
			ph.ProposerPubKey = w.Actors[pick(t, "pubActor", len(w.Actors))].Pub
			return "ProposerPubKey=other-actor"
		default:
			a := w.Actors[pick(t, "pubActor", len(w.Actors))]
			if !setProposer(a, prev, ph) {
				return ""
			}
			return "proposer=other-actor+seed"
		}
	},
	func(t *rapid.T, w *sim.World, prev *types.Header, b *types.Block) string {
		ph := b.Header.ProposedHeader
		switch pick(t, "seedProofClass", 8) {
		case 4, 5, 6, 7:
			c := vrfCtx{msg: seedData(prev), honest: ph.SeedProof}
			if addr, err := crypto.PubKeyBytesToAddress(ph.ProposerPubKey); err == nil {
				if a := w.ByAddr[addr]; a != nil {
					c.key = a.Key
				}
			}
			if c.key == nil {
				c.honest = nil
			}
			var l string
			ph.SeedProof, l = hostileVrfProof(t, "seedProof", c)
			return "SeedProof=" + l
		case 0:
			ph.SeedProof = nil
			return "SeedProof=nil"
		case 1:
			if len(ph.SeedProof) > 1 {
				ph.SeedProof = ph.SeedProof[:pick(t, "proofCut", len(ph.SeedProof))]
			}
			return "SeedProof=short"
		case 2:
			ph.SeedProof = junk(t, "junkProof", 1, 140)
			return "SeedProof=junk"
		default:
			ph.SeedProof = flipBits(t, ph.SeedProof, "proofFlip")
			return "SeedProof=bitflip"
		}
	},
	func(t *rapid.T, w *sim.World, prev *types.Header, b *types.Block) string {
		ph := b.Header.ProposedHeader
		switch pick(t, "feeClass", 4) {
		case 0:
			ph.FeePerGas = nil
			return "FeePerGas=nil"
		case 1:
			ph.FeePerGas = big.NewInt(0)
			return "FeePerGas=0"
		case 2:
			ph.FeePerGas = huge(t, "hugeFee")
			return "FeePerGas=huge"
		default:
			ph.FeePerGas = big.NewInt(1)
			return "FeePerGas=1"
		}
	},
	func(t *rapid.T, w *sim.World, prev *types.Header, b *types.Block) string {
		ph := b.Header.ProposedHeader
		ph.Upgrade = uint32(rapid.SampledFrom([]uint64{1, 9, 10, 11, 12, 13, math.MaxUint32}).Draw(t, "upgrade"))
		return "Upgrade"
	},
	func(t *rapid.T, w *sim.World, prev *types.Header, b *types.Block) string {
		ph := b.Header.ProposedHeader
		f := rapid.SampledFrom([]types.BlockFlag{types.NewGenesis, types.IdentityUpdate, types.FlipLotteryStarted, types.ShortSessionStarted, types.LongSessionStarted, types.AfterLongSessionStarted, types.ValidationFinished, types.Snapshot, 1 << 10, 1 << 31, math.MaxUint32}).Draw(t, "flag")
		ph.Flags ^= f
		return "Flags^=" + sim.FlagNames(f)
	},
	func(t *rapid.T, w *sim.World, prev *types.Header, b *types.Block) string {
		ph := b.Header.ProposedHeader
		switch pick(t, "cidField", 3) {
		case 0:
			ph.IpfsHash = rapid.SampledFrom([][]byte{nil, {1}, cid1(9), make([]byte, 40)}).Draw(t, "ipfsHash")
			return "IpfsHash"
		case 1:
			ph.TxReceiptsCid = rapid.SampledFrom([][]byte{nil, {1}, cid1(9), make([]byte, 40)}).Draw(t, "receiptsCid")
			return "TxReceiptsCid"
		default:
			return hostileBloom(t, ph)
		}
	},
	func(t *rapid.T, w *sim.World, prev *types.Header, b *types.Block) string {
		ph := b.Header.ProposedHeader
		switch pick(t, "numField", 6) {
		case 0:
			ph.Height = 0
			return "Height=0"
		case 1:
			ph.Height = math.MaxUint64
			return "Height=max"
		case 2:
			ph.Height++
			return "Height+1"
		case 3:
			ph.Time = 0
			return "Time=0"
		case 4:
			ph.Time = math.MinInt64
			return "Time=min"
		default:
			ph.Time = math.MaxInt64
			return "Time=max"
		}
	},
	func(t *rapid.T, w *sim.World, prev *types.Header, b *types.Block) string {
		ph := b.Header.ProposedHeader
		switch pick(t, "variant", 4) {
		case 0:
			b.Header.EmptyBlockHeader = &types.EmptyBlockHeader{ParentHash: ph.ParentHash, Height: ph.Height, Root: ph.Root, IdentityRoot: ph.IdentityRoot, BlockSeed: ph.BlockSeed, Time: ph.Time, Flags: ph.Flags}
			return "both-variants"
		case 1:
			b.Header.ProposedHeader = nil
			return "neither-variant"
		case 2:
			b.Header = nil
			return "Header=nil"
		default:
			b.Body = nil
			return "Body=nil"
		}
	},
	func(t *rapid.T, w *sim.World, prev *types.Header, b *types.Block) string {
		ph := b.Header.ProposedHeader
		// an empty-block header carrying proposed-block facts
		b.Header = &types.Header{EmptyBlockHeader: &types.EmptyBlockHeader{ParentHash: ph.ParentHash, Height: ph.Height, Root: ph.Root, IdentityRoot: ph.IdentityRoot, BlockSeed: ph.BlockSeed, Time: ph.Time,
			Flags: ph.Flags | rapid.SampledFrom([]types.BlockFlag{0, types.OfflineCommit, types.OfflinePropose, types.NewGenesis, types.ValidationFinished}).Draw(t, "emptyFlag")}}
		return "as-empty-header"
	},
}

type blockCase struct {
	block  *types.Block // decoded from its own wire encoding
	labels []string
	wire   []byte
}

func (c *blockCase) String() string {
	return fmt.Sprintf("block{%s} hostile=%v wire=%x", blockDesc(c.block), c.labels, clip(c.wire, 600))
}

func blockDesc(b *types.Block) string {
	if b == nil {
		return "nil"
	}
	if b.Header == nil {
		return "header=nil"
	}
	s := ""
	if ph := b.Header.ProposedHeader; ph != nil {
		off := "nil"
		if ph.OfflineAddr != nil {
			off = ph.OfflineAddr.Hex()
		}
		s += fmt.Sprintf("proposed{height=%d time=%d flags=%s(%d) offlineAddr=%s pubKey(%d)=%x seedProof(%d) feePerGas=%v upgrade=%d ipfsHash(%d) bloom(%d) receiptsCid(%d)}",
			ph.Height, ph.Time, sim.FlagNames(ph.Flags), ph.Flags, off, len(ph.ProposerPubKey), clip(ph.ProposerPubKey, 8), len(ph.SeedProof), ph.FeePerGas, ph.Upgrade, len(ph.IpfsHash), len(ph.TxBloom), len(ph.TxReceiptsCid))
	}
	if eh := b.Header.EmptyBlockHeader; eh != nil {
		s += fmt.Sprintf("empty{height=%d time=%d flags=%s(%d)}", eh.Height, eh.Time, sim.FlagNames(eh.Flags), eh.Flags)
	}
	if b.Body == nil {
		s += " body=nil"
	} else {
		s += fmt.Sprintf(" txs=%d", len(b.Body.Transactions))
		for _, tx := range b.Body.Transactions {
			to := "nil"
			if tx.To != nil {
				to = tx.To.Hex()[:10]
			}
			s += fmt.Sprintf(" %s(to=%s,payload=%d)", typeName(tx.Type), to, len(tx.Payload))
		}
	}
	return s
}

// genHostileHeaderBlock applies 1-2 hostile header edits to a copy of an honest proposed block.
func genHostileHeaderBlock(t *rapid.T, w *sim.World, prev *types.Header, honest *types.Block) *blockCase {
	b := cloneBlock(t, honest)
	if b.Body == nil {
		b.Body = &types.Body{}
	}
	c := &blockCase{}
	n := 1 + pick(t, "nHeaderOps", 2)
	for i := 0; i < n; i++ {
		if b.Header == nil || b.Header.ProposedHeader == nil {
			break
		}
		if l := headerOps[pick(t, "headerOp", len(headerOps))](t, w, prev, b); l != "" {
			c.labels = append(c.labels, l)
		}
	}
	return finishBlock(t, b, c)
}

func finishBlock(t *rapid.T, b *types.Block, c *blockCase) *blockCase {
	wire, err := b.ToBytes()
	if err != nil {
		t.Fatalf("encode block: %v", err)
	}
	dec := new(types.Block)
	if err := dec.FromBytes(wire); err != nil {
		t.Fatalf("own encoding of a block does not decode: %v", err)
	}
	c.block, c.wire = dec, wire
	return c
}

// ---------------------------------------------------------------------------
// votes, certificates, proofs, keys

func signVote(v *types.Vote, a *sim.Actor) {
	h := crypto.SignatureHash(v)
	sig, err := crypto.Sign(h[:], a.Key)
	if err != nil {
		panic(err)
	}
	v.Signature = sig
}

func hostileSig(t *rapid.T, real []byte, label string) ([]byte, string) {
	switch pick(t, label, 11) {
	case 8, 9, 10:
		return hostileEcdsaSig(t, label, real, nil)
	case 0:
		return nil, "sig=nil"
	case 1:
		return junk(t, label+"Junk", 1, 70), "sig=junk"
	case 2:
		return make([]byte, 65), "sig=zero65"
	case 3:
		return flipBits(t, real, label+"Flip"), "sig=bitflip"
	case 4:
		if len(real) > 1 {
			return real[:len(real)-1], "sig=short"
		}
	}
	return real, "sig=real"
}

func signProof(pp *types.ProofProposal, a *sim.Actor) {
	h := crypto.SignatureHash(pp)
	sig, err := crypto.Sign(h[:], a.Key)
	if err != nil {
		panic(err)
	}
	pp.Signature = sig
}

// hostileBloom sets a TxBloom of a drawn length class: the filter is rebuilt from these bytes in 8-byte words
// (fast sync), so the lengths around the word size matter besides absent and huge.
func hostileBloom(t *rapid.T, ph *types.ProposedHeader) string {
	n := rapid.SampledFrom([]int{0, 1, 7, 8, 9, 15, 16, 64, 1 << 16}).Draw(t, "bloomLen")
	fill := byte(rapid.SampledFrom([]int{0, 0xff, 0x55}).Draw(t, "bloomFill"))
	if n == 0 {
		ph.TxBloom = nil
	} else {
		ph.TxBloom = bytes.Repeat([]byte{fill}, n)
	}
	return fmt.Sprintf("TxBloom(len=%d)", n)
}

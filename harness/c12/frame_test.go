package c12

import (
	"bytes"
	"crypto/ecdsa"
	"encoding/binary"
	"fmt"
	"io"
	"math"
	"strings"
	"testing"
	"time"

	"github.com/golang/protobuf/proto"
	"github.com/idena-network/idena-go/blockchain/types"
	"github.com/idena-network/idena-go/blockchain/validation"
	"github.com/idena-network/idena-go/common"
	"github.com/idena-network/idena-go/common/vclock"
	"github.com/idena-network/idena-go/core/mempool"
	"github.com/idena-network/idena-go/core/state"
	"github.com/idena-network/idena-go/core/state/snapshot"
	"github.com/idena-network/idena-go/crypto"
	"github.com/idena-network/idena-go/pengings"
	models "github.com/idena-network/idena-go/protobuf"
	"github.com/idena-network/idena-go/protocol"
	"github.com/klauspost/compress/s2"
	"github.com/libp2p/go-libp2p-core/network"
	"github.com/libp2p/go-libp2p-core/peer"
	lp2pproto "github.com/libp2p/go-libp2p-core/protocol"
	ma "github.com/multiformats/go-multiaddr"
	"pgregory.net/rapid"

	"verifharness/internal/evid"
	"verifharness/internal/kf"
	"verifharness/internal/sim"
)

// ---------------------------------------------------------------------------
// a peer that exists only as a byte stream

type fakeConn struct {
	network.Conn
	id peer.ID
}

func (c fakeConn) RemotePeer() peer.ID { return c.id }
func (c fakeConn) RemoteMultiaddr() ma.Multiaddr {
	a, _ := ma.NewMultiaddr("/ip4/127.0.0.1/tcp/40404")
	return a
}

type fakeStream struct {
	network.Stream
	in      bytes.Buffer
	conn    fakeConn
	written int
}

func (s *fakeStream) Read(p []byte) (int, error) {
	if s.in.Len() == 0 {
		return 0, io.EOF
	}
	return s.in.Read(p)
}
func (s *fakeStream) Write(p []byte) (int, error) { s.written += len(p); return len(p), nil }
func (s *fakeStream) Close() error                { return nil }
func (s *fakeStream) Reset() error                { return nil }
func (s *fakeStream) Conn() network.Conn          { return s.conn }
func (s *fakeStream) Protocol() lp2pproto.ID      { return protocol.IdenaProtocol }

// feed puts one frame on the stream the way the transport delivers it (4-byte big-endian length prefix, msgio).
func (s *fakeStream) feed(frame []byte) {
	var l [4]byte
	binary.BigEndian.PutUint32(l[:], uint32(len(frame)))
	s.in.Reset()
	s.in.Write(l[:])
	s.in.Write(frame)
}

type noCeremony struct{}

func (noCeremony) IsRunning() bool { return false }

// countingTxPool / countingKeysPool sit at the handler's pool interfaces, in front of the
// synchronous pools, and count what arrives behind the decode + IsValid gates.
type countingTxPool struct {
	*mempool.TxPool
	calls int
}

func (p *countingTxPool) AddExternalTxs(txType validation.TxType, txs ...*types.Transaction) error {
	p.calls++
	return p.TxPool.AddExternalTxs(txType, txs...)
}

type countingKeysPool struct {
	*mempool.KeysPool
	pub, priv int
}

func (p *countingKeysPool) AddPublicFlipKey(key *types.PublicFlipKey, own bool) error {
	p.pub++
	return p.KeysPool.AddPublicFlipKey(key, own)
}
func (p *countingKeysPool) AddPrivateKeysPackage(pkg *types.PrivateFlipKeysPackage, own bool) error {
	p.priv++
	return p.KeysPool.AddPrivateKeysPackage(pkg, own)
}

// gossipNode is a node with the real gossip handler on top.
type gossipNode struct {
	*node
	h        *protocol.IdenaGossipHandler
	props    *pengings.Proposals // the handler's (persistent) proposal store
	txCount  *countingTxPool
	keyCount *countingKeysPool
}

func newGossipNode(r *sim.Replica) *gossipNode {
	n := newNode(r)
	g := &gossipNode{node: n}
	g.props = n.proposals()
	g.h = protocol.NewIdenaGossipHandler(nil, nil, r.Cfg.P2P, r.Chain, g.props, n.votes, r.Pool, n.flipper, r.Bus, n.keys, "1.1.0", noCeremony{})
	g.txCount = &countingTxPool{TxPool: r.Pool}
	g.keyCount = &countingKeysPool{KeysPool: n.keys}
	g.h.VerifC12SetSyncPools(g.txCount, g.keyCount)
	return g
}

func (g *gossipNode) newPeer(name string) (*protocol.VerifC12Peer, *fakeStream) {
	s := &fakeStream{conn: fakeConn{id: peer.ID(name)}}
	return g.h.VerifC12NewPeer(s), s
}

// ---------------------------------------------------------------------------
// messages

var codeNames = map[uint64]string{
	protocol.Handshake: "Handshake", protocol.ProposeBlock: "ProposeBlock", protocol.ProposeProof: "ProposeProof", protocol.Vote: "Vote",
	protocol.NewTx: "NewTx", protocol.GetBlockByHash: "GetBlockByHash", protocol.GetBlocksRange: "GetBlocksRange", protocol.BlocksRange: "BlocksRange",
	protocol.FlipBody: "FlipBody", protocol.FlipKey: "FlipKey", protocol.SnapshotManifest: "SnapshotManifest", protocol.GetForkBlockRange: "GetForkBlockRange",
	protocol.FlipKeysPackage: "FlipKeysPackage", protocol.Push: "Push", protocol.Pull: "Pull", protocol.Block: "Block", protocol.UpdateShardId: "UpdateShardId",
	protocol.BatchPush: "BatchPush", protocol.BatchFlipKey: "BatchFlipKey", protocol.Disconnect: "Disconnect",
}

var allCodes = []uint64{
	protocol.ProposeBlock, protocol.ProposeProof, protocol.Vote, protocol.NewTx, protocol.GetBlockByHash, protocol.GetBlocksRange,
	protocol.BlocksRange, protocol.FlipBody, protocol.FlipKey, protocol.SnapshotManifest, protocol.GetForkBlockRange, protocol.FlipKeysPackage,
	protocol.Push, protocol.Pull, protocol.Block, protocol.UpdateShardId, protocol.BatchPush, protocol.BatchFlipKey, protocol.Disconnect, protocol.Handshake,
}

func codeName(c uint64) string {
	if n, ok := codeNames[c]; ok {
		return n
	}
	return "unknown"
}

// hasConsumer: codes whose payload is handed to a validator / pool / store behind the gate.
var hasConsumer = map[uint64]bool{
	protocol.ProposeBlock: true, protocol.ProposeProof: true, protocol.Vote: true, protocol.NewTx: true, protocol.GetBlockByHash: true,
	protocol.GetBlocksRange: true, protocol.BlocksRange: true, protocol.FlipBody: true, protocol.FlipKey: true, protocol.SnapshotManifest: true,
	protocol.GetForkBlockRange: true, protocol.FlipKeysPackage: true, protocol.Push: true, protocol.Pull: true, protocol.Block: true,
	protocol.BatchPush: true, protocol.BatchFlipKey: true,
}

type msgSource struct {
	t     *rapid.T
	w     *sim.World
	g     *gossipNode
	p     *point // the object generators' view of the same node
	chain []*types.Block
	certs map[common.Hash]*types.BlockCert
	// a request for a block range is outstanding at the peer under this id
	batchId uint32
	batch   *protocol.VerifC12Batch
}

func mustBytes(b []byte, err error) []byte {
	if err != nil {
		panic(err)
	}
	return b
}

func (m *msgSource) someHash() common.Hash {
	t := m.t
	switch pick(t, "hashClass", 4) {
	case 0:
		return m.g.r.Head().Hash()
	case 1:
		if len(m.chain) > 0 {
			return m.chain[pick(t, "chainBlock", len(m.chain))].Hash()
		}
	case 2:
		return common.Hash{}
	}
	var h common.Hash
	copy(h[:], junk(t, "junkHash", 32, 32))
	return h
}

func (m *msgSource) pushHash() *protocol.VerifPushPullHash {
	t := m.t
	ph := &protocol.VerifPushPullHash{Type: protocol.VerifPushType(rapid.SampledFrom([]int{1, 2, 3, 4, 5, 6, 6, 6, 0, 7, 255}).Draw(t, "pushType"))}
	switch pick(t, "pushHashClass", 3) {
	case 0:
		// something the node holds: a pending transaction
		if txs := m.g.r.Pool.GetPendingTransaction(true, true, common.MultiShard, false); len(txs) > 0 {
			ph.Hash = txs[pick(t, "pendingTx", len(txs))].Hash128()
			break
		}
		fallthrough
	default:
		copy(ph.Hash[:], junk(t, "junkHash128", 16, 16))
	}
	return ph
}

// rangeOf builds a BlocksRange message out of the node's own recent chain (what an honest peer would answer).
func (m *msgSource) rangeOf(batchId uint32, from, to int) *protocol.VerifBlockRange {
	r := &protocol.VerifBlockRange{BatchId: batchId}
	for i := from; i <= to && i < len(m.chain); i++ {
		b := m.chain[i]
		r.Blocks = append(r.Blocks, protocol.VerifC12NewRangeItem(b.Header, m.certs[b.Hash()], m.g.r.Chain.GetIdentityDiff(b.Height())))
	}
	return r
}

// payload draws a valid encoding of a message of the given code (built from the object generators, honest or hostile).
func (m *msgSource) payload(code uint64) ([]byte, string) {
	t, w, p := m.t, m.w, m.p
	v := m.g.r
	switch code {
	case protocol.ProposeBlock:
		if p.honest == nil {
			return nil, "none"
		}
		if pick(t, "honestProposal", 3) == 0 {
			return mustBytes(p.honest.ToBytes()), "honest"
		}
		c := genHostileHeaderBlock(t, w, v.Head(), p.honest.Block)
		var proofKey *ecdsa.PrivateKey
		if c.block.Header != nil && c.block.Header.ProposedHeader != nil {
			if addr, err := crypto.PubKeyBytesToAddress(c.block.Header.ProposedHeader.ProposerPubKey); err == nil && w.ByAddr[addr] != nil {
				proofKey = w.ByAddr[addr].Key
			}
		}
		proof, _ := p.hostileProof("frameProposalProof", proofKey)
		return mustBytes(p.signProposal(c.block, proof).ToBytes()), "hostile-header"
	case protocol.ProposeProof:
		signer := w.Actors[pick(t, "proofSigner", len(w.Actors))]
		proof, _ := p.hostileProof("frameProof", signer.Key)
		pp := &types.ProofProposal{Proof: proof, Round: v.Chain.Round() + uint64(pick(t, "roundAhead", 2))}
		signProof(pp, signer)
		return mustBytes(pp.ToBytes()), "proof"
	case protocol.Vote:
		head := v.Head()
		vote := &types.Vote{Header: &types.VoteHeader{Round: head.Height() + 1, Step: uint8(rapid.SampledFrom([]int{1, types.ReductionOne, types.Final}).Draw(t, "step")), ParentHash: head.Hash(), VotedHash: m.someHash(),
			TurnOffline: rapid.Bool().Draw(t, "off"), Upgrade: uint32(pick(t, "upg", 14))}}
		signVote(vote, w.Actors[pick(t, "voter", len(w.Actors))])
		if pick(t, "voteSigConst", 4) == 3 {
			vote.Signature, _ = hostileEcdsaSig(t, "frameVoteSig", vote.Signature, nil)
		}
		if pick(t, "voteHeaderAbsent", 8) == 7 {
			vote.Header = nil
			return mustBytes(vote.ToBytes()), "vote-without-header"
		}
		return mustBytes(vote.ToBytes()), "vote"
	case protocol.NewTx:
		c := genHostileTx(t, w, v, nil)
		return c.wire, "hostile-tx"
	case protocol.GetBlockByHash:
		h := m.someHash()
		return mustBytes(proto.Marshal(&models.ProtoGetBlockByHashRequest{Hash: rapid.SampledFrom([][]byte{h[:], h[:5], nil, make([]byte, 100)}).Draw(t, "hashBytes")})), "query"
	case protocol.GetBlocksRange:
		head := v.Head().Height()
		return mustBytes(proto.Marshal(&models.ProtoGetBlocksRangeRequest{BatchId: uint32(pick(t, "batchId", 4)),
			From: rapid.SampledFrom([]uint64{0, 1, head, head + 1, math.MaxUint64}).Draw(t, "from"), To: rapid.SampledFrom([]uint64{0, 1, head, head + 5, math.MaxUint64}).Draw(t, "to")})), "query"
	case protocol.BlocksRange:
		if len(m.chain) == 0 {
			return mustBytes((&protocol.VerifBlockRange{BatchId: 1}).ToBytes()), "empty-range"
		}
		from := pick(t, "rangeFrom", len(m.chain))
		id := m.batchId
		if pick(t, "foreignBatchId", 4) == 3 {
			id += uint32(1 + pick(t, "batchIdOff", 3))
		}
		r := m.rangeOf(id, from, from+pick(t, "rangeLen", 4))
		label := "honest-range"
		if pick(t, "hostileRange", 2) == 0 {
			label = "hostile-range"
			hostileRange(t, w, r)
		}
		return mustBytes(r.ToBytes()), label
	case protocol.FlipBody:
		f := &types.Flip{PublicPart: junk(t, "pub", 0, 50), PrivatePart: junk(t, "priv", 0, 50)}
		if pick(t, "flipTxNil", 4) != 0 {
			f.Tx = genHostileTx(t, w, v, nil).tx
		}
		return mustBytes(f.ToBytes()), "flip"
	case protocol.FlipKey:
		a := w.Actors[pick(t, "keySender", len(w.Actors))]
		keyBytes := rapid.SampledFrom([][]byte{nil, make([]byte, 32), crypto.FromECDSA(a.Key), make([]byte, 33)}).Draw(t, "flipKey")
		if rapid.Bool().Draw(t, "flipKeyConst") {
			keyBytes, _ = hostilePrivScalar(t, "frameFlipKey")
		}
		k, _ := types.SignFlipKey(&types.PublicFlipKey{Key: keyBytes, Epoch: uint16(int(v.ReadState().State.Epoch()) + pick(t, "epochAhead", 2))}, a.Key)
		return mustBytes(k.ToBytes()), "flipkey"
	case protocol.SnapshotManifest:
		return mustBytes((&snapshot.Manifest{Root: m.someHash(), Height: rapid.SampledFrom([]uint64{0, 1, v.Head().Height(), math.MaxUint64}).Draw(t, "manifestHeight"),
			CidV2: rapid.SampledFrom([][]byte{nil, {1}, cid1(7), make([]byte, 1000)}).Draw(t, "manifestCid")}).ToBytes()), "manifest"
	case protocol.GetForkBlockRange:
		q := &models.ProtoGetForkBlockRangeRequest{BatchId: uint32(pick(t, "batchId", 4))}
		for i := rapid.SampledFrom([]int{0, 1, 3, 100, 2000}).Draw(t, "nForkHashes"); i > 0; i-- {
			h := m.someHash()
			q.Blocks = append(q.Blocks, rapid.SampledFrom([][]byte{h[:], h[:7], nil}).Draw(t, "forkHash"))
		}
		return mustBytes(proto.Marshal(q)), "query"
	case protocol.FlipKeysPackage:
		a := w.Actors[pick(t, "pkgSender", len(w.Actors))]
		pkgData := junk(t, "pkgData", 0, 200)
		if rapid.Bool().Draw(t, "pkgConst") {
			pkgData, _ = hostileEcies(t, "framePkg", sim.DeriveKey(w.P.KeySeed^0x77, a.Idx), nil)
		}
		k, _ := types.SignFlipKeysPackage(&types.PrivateFlipKeysPackage{Data: pkgData, Epoch: uint16(int(v.ReadState().State.Epoch()) + pick(t, "epochAhead", 2))}, a.Key)
		return mustBytes(k.ToBytes()), "package"
	case protocol.Push, protocol.Pull:
		return mustBytes(m.pushHash().ToBytes()), "hash"
	case protocol.Block:
		if p.honest == nil || pick(t, "chainBlockMsg", 3) == 0 {
			if len(m.chain) > 0 {
				return mustBytes(m.chain[pick(t, "blockOfChain", len(m.chain))].ToBytes()), "chain-block"
			}
			return mustBytes(v.EmptyBlock().ToBytes()), "empty-block"
		}
		return genHostileHeaderBlock(t, w, v.Head(), p.honest.Block).wire, "hostile-header"
	case protocol.UpdateShardId:
		return mustBytes((&protocol.VerifUpdateShardId{ShardId: common.ShardId(rapid.SampledFrom([]uint64{0, 1, 2, math.MaxUint32}).Draw(t, "shard"))}).ToBytes()), "shard"
	case protocol.BatchPush, protocol.BatchFlipKey:
		b := &protocol.VerifMsgBatch{}
		for i := rapid.SampledFrom([]int{0, 1, 3, 100}).Draw(t, "batchLen"); i > 0; i-- {
			var item []byte
			if code == protocol.BatchPush {
				item = mustBytes(m.pushHash().ToBytes())
			} else {
				item, _ = m.payload(protocol.FlipKey)
			}
			if pick(t, "junkItem", 10) == 0 {
				item = junk(t, "junkBatchItem", 0, 30)
			}
			b.Data = append(b.Data, &protocol.VerifBatchItem{Payload: item, ShardId: common.ShardId(pick(t, "itemShard", 3))})
		}
		return mustBytes(b.ToBytes()), "batch"
	case protocol.Disconnect:
		return mustBytes((&protocol.VerifDisconnect{Reason: rapid.SampledFrom([]string{"", "bye", strings.Repeat("x", 5000), "\u00e9\u4e16"}).Draw(t, "reason")}).ToBytes()), "reason"
	case protocol.Handshake:
		return mustBytes((&protocol.VerifHandshakeData{NetworkId: 0x99, Height: 1, AppVersion: "1.0.0"}).ToBytes()), "handshake"
	}
	return junk(t, "unknownCodePayload", 0, 60), "junk"
}

// hostileRange edits a decoded-looking block range: absent header / certificate / diff, hostile certificate and diff entries.
func hostileRange(t *rapid.T, w *sim.World, r *protocol.VerifBlockRange) {
	for i := 1 + pick(t, "nRangeOps", 2); i > 0 && len(r.Blocks) > 0; i-- {
		k := pick(t, "rangeItem", len(r.Blocks))
		h, c, d := protocol.VerifC12RangeItem(r.Blocks[k])
		switch pick(t, "rangeOp", 14) {
		case 8:
			// a diff with many entries
			d = &state.IdentityStateDiff{}
			for j := rapid.SampledFrom([]int{2, 100, 5000}).Draw(t, "diffLen"); j > 0; j-- {
				var a common.Address
				a[0], a[1], a[19] = byte(j), byte(j>>8), 0x5a
				d.Values = append(d.Values, &state.IdentityStateDiffValue{Address: a, Deleted: j%3 == 0, Value: []byte{8, byte(j % 8)}})
			}
		case 9:
			// entries of the honest diff repeated / with a second, different value for the same address
			if d != nil && len(d.Values) > 0 {
				dd := &state.IdentityStateDiff{Values: append([]*state.IdentityStateDiffValue{}, d.Values...)}
				x := *d.Values[pick(t, "dupDiffEntry", len(d.Values))]
				if rapid.Bool().Draw(t, "otherValue") {
					x.Value = []byte{8, byte(pick(t, "flagsVal", 8))}
				}
				if rapid.Bool().Draw(t, "dupFirst") {
					dd.Values = append([]*state.IdentityStateDiffValue{&x}, dd.Values...)
				} else {
					dd.Values = append(dd.Values, &x)
				}
				d = dd
			}
		case 10:
			// a no-op deletion of an address that has no entry
			dd := &state.IdentityStateDiff{}
			if d != nil {
				dd.Values = append(dd.Values, d.Values...)
			}
			dd.Values = append(dd.Values, &state.IdentityStateDiffValue{Address: common.Address{0xab, 0xcd}, Deleted: true, Value: rapid.SampledFrom([][]byte{nil, {1}}).Draw(t, "deletedValue")})
			d = dd
		case 11:
			// hostile header edit (the object target's operators)
			if h != nil && h.ProposedHeader != nil {
				hb := mustBytes(h.ToBytes())
				nh := new(types.Header)
				_ = nh.FromBytes(hb)
				blk := &types.Block{Header: nh, Body: &types.Body{}}
				prev := &types.Header{EmptyBlockHeader: &types.EmptyBlockHeader{Height: nh.Height() - 1}}
				headerOps[pick(t, "rangeHeaderOp", len(headerOps))](t, w, prev, blk)
				h = blk.Header
			}
		case 12:
			// drop the element (gap) or move it to the end (disorder)
			rest := append(append([]*protocol.VerifRangeBlock{}, r.Blocks[:k]...), r.Blocks[k+1:]...)
			if rapid.Bool().Draw(t, "moveToEnd") {
				rest = append(rest, r.Blocks[k])
			}
			r.Blocks = rest
			continue
		case 13:
			if c != nil {
				cc := *c
				switch pick(t, "certField", 3) {
				case 0:
					cc.Step = uint8(rapid.SampledFrom([]int{0, 1, types.ReductionOne, types.ReductionTwo}).Draw(t, "rangeCertStep"))
				case 1:
					cc.Round++
				default:
					cc.VotedHash[0] ^= 1
				}
				c = &cc
			}
		case 0:
			h = nil
		case 1:
			c = nil
		case 2:
			c = &types.BlockCert{}
		case 3:
			if c != nil {
				cc := *c
				cc.Signatures = append(append([]*types.BlockCertSignature{}, c.Signatures...), &types.BlockCertSignature{Signature: junk(t, "certJunkSig", 0, 70)})
				c = &cc
			}
		case 4:
			d = &state.IdentityStateDiff{Values: []*state.IdentityStateDiffValue{{Address: w.Actors[pick(t, "diffAddr", len(w.Actors))].Addr, Deleted: rapid.Bool().Draw(t, "diffDeleted"),
				Value: rapid.SampledFrom([][]byte{nil, {}, {1}, {8, 1}, {0xff, 0xff}, make([]byte, 100)}).Draw(t, "diffValue")}}}
		case 5:
			d = nil
		case 6:
			if h != nil {
				hb := mustBytes(h.ToBytes())
				nh := new(types.Header)
				_ = nh.FromBytes(hb)
				if nh.ProposedHeader != nil {
					nh.ProposedHeader.Flags |= rapid.SampledFrom([]types.BlockFlag{types.OfflineCommit, types.OfflinePropose, types.IdentityUpdate, types.NewGenesis, types.Snapshot}).Draw(t, "rangeFlag")
				} else if nh.EmptyBlockHeader != nil {
					nh.EmptyBlockHeader.Flags |= rapid.SampledFrom([]types.BlockFlag{types.OfflineCommit, types.IdentityUpdate, types.NewGenesis}).Draw(t, "rangeFlag")
				}
				h = nh
			}
		default:
			// repeat the element
			r.Blocks = append(r.Blocks, r.Blocks[k])
			continue
		}
		r.Blocks[k] = protocol.VerifC12NewRangeItem(h, c, d)
	}
}

// ---------------------------------------------------------------------------
// byte-level mutation

func mutate(t *rapid.T, b []byte, label string) ([]byte, string) {
	c := append([]byte{}, b...)
	switch pick(t, label+"Mut", 9) {
	case 0:
		return flipBits(t, c, label+"Flip"), "bitflip"
	case 1:
		if len(c) > 0 {
			return c[:pick(t, label+"Cut", len(c))], "truncate"
		}
		return c, "truncate"
	case 2:
		return append(c, junk(t, label+"Tail", 1, 20)...), "trailing-junk"
	case 3:
		// length-prefix / tag edits: set a byte to a boundary value
		if len(c) > 0 {
			c[pick(t, label+"Pos", len(c))] = byte(rapid.SampledFrom([]int{0, 1, 0x7f, 0x80, 0xff}).Draw(t, label+"Val"))
		}
		return c, "byte-boundary"
	case 4:
		// field duplication: the same encoding twice (protobuf merges: repeated fields double, scalars last-wins)
		return append(c, b...), "doubled"
	case 5:
		if len(c) > 2 {
			i := pick(t, label+"From", len(c)-1)
			j := i + 1 + pick(t, label+"Len", len(c)-i-1)
			return append(c[:j:j], c[i:]...), "segment-duplicated"
		}
		return c, "segment-duplicated"
	case 6:
		if len(c) > 2 {
			i := pick(t, label+"From", len(c)-1)
			j := i + 1 + pick(t, label+"Len", len(c)-i-1)
			return append(c[:i:i], c[j:]...), "segment-removed"
		}
		return c, "segment-removed"
	case 7:
		// insert a varint that claims a huge length after a length-delimited tag
		if len(c) > 1 {
			i := pick(t, label+"At", len(c))
			ins := rapid.SampledFrom([][]byte{{0xff, 0xff, 0xff, 0xff, 0x0f}, {0xff, 0xff, 0xff, 0xff, 0xff, 0xff, 0xff, 0xff, 0xff, 0x01}, {0x80, 0x80, 0x80, 0x80, 0x10}}).Draw(t, label+"Varint")
			return append(append(append([]byte{}, c[:i]...), ins...), c[i:]...), "huge-varint"
		}
		return c, "huge-varint"
	default:
		return junk(t, label+"AllJunk", 0, 80), "all-junk"
	}
}

// forgedClaims are the hostile decoded-length claims of an s2/snappy block (DESIGN.md: above the cap, yet cheap).
var forgedClaims = []uint64{1 << 28, 1<<28 + 1<<27}

type frameCase struct {
	code    uint64
	what    string
	muts    []string
	frame   []byte
	payload []byte
}

func (f *frameCase) String() string {
	return fmt.Sprintf("frame{code=%s(%d) source=%s mutations=%v len=%d bytes=%x}", codeName(f.code), f.code, f.what, f.muts, len(f.frame), clip(f.frame, 700))
}

func (m *msgSource) frame() *frameCase {
	t := m.t
	f := &frameCase{}
	// forged length prefix: a 9..14 byte frame claiming a huge decoded size
	if rare(t, "forgedClaim", 100) {
		claim := forgedClaims[pick(t, "claim", len(forgedClaims))]
		var v [10]byte
		n := binary.PutUvarint(v[:], claim)
		f.frame = append(append([]byte{1}, v[:n]...), junk(t, "afterClaim", 4, 8)...)
		f.code, f.what, f.muts = 0, "forged-decoded-length", []string{fmt.Sprintf("claim=%d", claim)}
		return f
	}
	f.code = allCodes[pick(t, "code", len(allCodes))]
	if rare(t, "unknownCode", 30) {
		f.code = rapid.SampledFrom([]uint64{0, 0x15, 0xff, math.MaxUint64}).Draw(t, "unknownCodeVal")
	}
	f.payload, f.what = m.payload(f.code)
	payload := f.payload
	if pick(t, "mutatePayload", 5) < 2 {
		var l string
		payload, l = mutate(t, payload, "payload")
		f.muts = append(f.muts, "payload:"+l)
	}
	code := f.code
	if rare(t, "swapCode", 10) {
		// the same payload under another code (type confusion between message structs)
		code = allCodes[pick(t, "otherCode", len(allCodes))]
		f.muts = append(f.muts, "code:"+codeName(f.code)+"->"+codeName(code))
		f.code = code
	}
	msg := mustBytes((&protocol.Msg{Code: code, ShardId: common.ShardId(pick(t, "msgShard", 3)), Payload: payload}).ToBytes())
	if rare(t, "mutateMsg", 8) {
		var l string
		msg, l = mutate(t, msg, "msg")
		f.muts = append(f.muts, "msg:"+l)
	}
	switch pick(t, "compression", 8) {
	case 0, 1, 2:
		f.frame = append([]byte{0}, msg...)
		f.muts = append(f.muts, "plain")
	case 3, 4, 5:
		f.frame = append([]byte{1}, s2.Encode(nil, msg)...)
		f.muts = append(f.muts, "s2")
	case 6:
		f.frame = append([]byte{1}, s2.EncodeSnappy(nil, msg)...)
		f.muts = append(f.muts, "snappy")
	default:
		f.frame = protocol.Encode(code, msg) // the sender's own choice
		f.muts = append(f.muts, "encode")
	}
	if rare(t, "mutateFrame", 8) {
		var l string
		f.frame, l = mutate(t, f.frame, "frame")
		f.muts = append(f.muts, "frame:"+l)
	}
	return f
}

// ---------------------------------------------------------------------------

// TestFrames is the frame target: byte strings through the real gossip handler
// (protoPeer.ReadMsg -> Decode -> Msg.FromBytes -> IdenaGossipHandler.handle) of a
// node with real pools, on a stream that exists only as bytes.
func TestFrames(t *testing.T) {
	rapid.Check(t, func(t *rapid.T) {
		defer func() {
			if r := recover(); r != nil {
				if _, ok := r.(abandon); ok {
					evid.Count("world.abandoned_after_known_finding")
					return
				}
				panic(r)
			}
		}()
		steps := rapid.SampledFrom([]int{0, 3, 7, 12, 18}).Draw(t, "historySteps")
		opt := sim.Options{MinActors: 3, MaxActors: 8, Replicas: 2, MaxReplicas: 4, Steps: steps, MaxTxPerStep: 5}
		soon := rapid.Bool().Draw(t, "ceremonySoon")
		opt.Params = func(p *sim.Params) {
			if soon && p.CeremonyIn > 1000 {
				p.CeremonyIn = 300
			}
		}
		h := sim.RunHistory(t, opt)
		w := h.W
		w.Advance(time.Duration(rapid.IntRange(10, 40).Draw(t, "dt")) * time.Second)
		if min := time.Unix(w.Replicas[0].Head().Time(), 0).Add(10 * time.Second); w.Now().Before(min) {
			w.SetNow(min)
		}
		vclock.SetMode("pengings", vclock.Free)
		p := &point{t: t, w: w, fresh: steps == 0}
		p.proposer = w.Proposer(t, 4)
		var vr *sim.Replica
		for _, r := range w.Replicas {
			if r != p.proposer {
				vr = r
				break
			}
		}
		g := newGossipNode(vr)
		p.v = g.node
		p.period = sim.PeriodName(vr.ReadState().State.ValidationPeriod())
		if p.proposer != nil {
			p.honest = p.proposer.Propose()
			if ok, proof := p.proposer.Chain.GetProposerSortition(); ok {
				p.proof = proof
			}
		}
		m := &msgSource{t: t, w: w, g: g, p: p, chain: h.Blocks, certs: map[common.Hash]*types.BlockCert{}}
		pr, stream := g.newPeer("hostile-peer")
		if err := g.h.VerifC12Register(pr); err != nil {
			t.Fatalf("register peer: %v", err)
		}
		n := rapid.IntRange(20, 60).Draw(t, "nFrames")
		for i := 0; i < n; i++ {
			evid.Eval()
			if m.batch == nil {
				// the node has a request outstanding at this peer: for its fork (as the fork resolver does, 100 elements
				// at most) or for the next 1-3 blocks (as the downloader / block seeker do); generated answers may be longer
				// than the request
				var b *protocol.VerifC12Batch
				var err error
				if pick(t, "shortRequest", 3) == 2 {
					from := vr.Head().Height() + 1
					b, err = g.h.GetBlocksRange(pr.VerifC12PeerID(), from, from+uint64(pick(t, "requestLen", 3)))
				} else {
					b, err = g.h.GetForkBlockRange(pr.VerifC12PeerID(), vr.Chain.GetTopBlockHashes(100))
				}
				if err != nil {
					t.Fatalf("request a block range: %v", err)
				}
				m.batch, m.batchId = b, protocol.VerifC12LastBatchId()
			}
			f := m.frame()
			cn := codeName(f.code)
			evid.Count("frame.generated." + cn)
			for _, mu := range f.muts {
				if strings.Contains(mu, ":") && !strings.HasPrefix(mu, "code:") {
					evid.Count("frame.mutation." + mu)
				}
			}
			in := func() string { return f.String() + " state=" + p.stateClass() }
			// the decoder on its own: the allocation oracle names it when it is the culprit
			var raw []byte
			var derr error
			o := guard("protocol.Decode", in, func() { raw, derr = protocol.Decode(f.frame) })
			if !o.panicked && len(f.frame) <= frameCap && o.alloc > allocCap {
				evid.Count("alloc.decode_over_cap")
				if kf.Report(t, "C12", keyDecodeLen, "protocol.Decode allocated %d MiB for a frame of %d bytes (cap for any frame up to 8 MiB: %d MiB): the decoded length is taken from the block header and allocated before any data is checked\ninput: %s", o.alloc>>20, len(f.frame), allocCap>>20, in()) {
					continue
				}
			}
			if verdict(t, o, "protocol.Decode", len(f.frame), in) {
				panic(abandon{})
			}
			decodedCode := uint64(math.MaxUint64)
			if derr == nil {
				msg := new(protocol.Msg)
				var merr error
				o := guardFast("Msg.FromBytes", in, func() { merr = msg.FromBytes(raw) })
				if verdict(t, o, "Msg.FromBytes", len(f.frame), in) {
					panic(abandon{})
				}
				if merr == nil {
					decodedCode = msg.Code
					evid.Count("frame.decoded." + codeName(msg.Code))
					if msg.Code == protocol.Handshake {
						// handle ignores it; readStatus decodes it at connection time
						o := guardFast("handshakeData.FromBytes", in, func() { _ = new(protocol.VerifHandshakeData).FromBytes(msg.Payload) })
						if verdict(t, o, "handshakeData.FromBytes", len(f.frame), in) {
							panic(abandon{})
						}
					}
				}
			}
			// the handler, exactly one iteration of runListening
			txCalls, pubCalls, privCalls := g.txCount.calls, g.keyCount.pub, g.keyCount.priv
			queued := pr.VerifC12QueuedRequests()
			stream.feed(f.frame)
			var herr error
			o = guard("IdenaGossipHandler.handle", in, func() { herr = g.h.VerifC12Handle(pr) })
			if verdict(t, o, "IdenaGossipHandler.handle", len(f.frame), in) {
				panic(abandon{})
			}
			// consumers that run on worker goroutines in the node: same code, calling goroutine
			o = guard("Flipper.writeLoop", in, func() {
				for {
					if more, _ := g.flipper.VerifC12DrainOne(); !more {
						return
					}
					evid.Count("frame.reached.flipper")
				}
			})
			if verdict(t, o, "Flipper.writeLoop(addNewFlip)", len(f.frame), in) {
				panic(abandon{})
			}
			p.drainVotes(in)
			if items, closed := m.batch.VerifC12Delivered(); closed {
				evid.Count("frame.range_delivered_to_batch")
				evid.CountN("frame.range_blocks_delivered", len(items))
				m.batch = nil
			}
			if herr == nil && decodedCode != math.MaxUint64 {
				dn := codeName(decodedCode)
				evid.Count("frame.passed_gate." + dn)
				if hasConsumer[decodedCode] {
					evid.Count("frame.reached_consumer." + dn)
					evid.NonTrivial(fmt.Sprintf("frame|%s|%s|%v|%v|%v|%v|%d", dn, f.what, f.muts, g.txCount.calls > txCalls, g.keyCount.pub > pubCalls, g.keyCount.priv > privCalls, pr.VerifC12QueuedRequests()-queued))
					evid.Sample("frame", fmt.Sprintf("frame|%s|%s|%v|%v|%v|%v|%d", dn, f.what, f.muts, g.txCount.calls > txCalls, g.keyCount.pub > pubCalls, g.keyCount.priv > privCalls, pr.VerifC12QueuedRequests()-queued))
				}
			} else if herr != nil {
				switch {
				case strings.HasPrefix(herr.Error(), "1 - "):
					evid.Count("frame.decode_error." + codeName(decodedCode))
				case strings.HasPrefix(herr.Error(), "2 - "):
					evid.Count("frame.gate_rejected." + codeName(decodedCode))
				default:
					evid.Count("frame.frame_error")
				}
			}
			if g.txCount.calls > txCalls {
				evid.Count("frame.reached.txpool")
			}
			if g.keyCount.pub > pubCalls || g.keyCount.priv > privCalls {
				evid.Count("frame.reached.keyspool")
			}
			if pr.VerifC12QueuedRequests() > queued {
				evid.Count("frame.answered." + codeName(decodedCode))
			}
		}
	})
}

// Package c16 checks property C16: the flip lottery is a deterministic function
// of the seed, assigns only existing flips, has no duplicates per candidate
// and session, respects the short-session quota, gives everybody a long list
// when the shard has flips, and is consistent with the recipient lists the
// flip authors encrypt their keys for (with real encryption / extraction /
// decryption in the crypto leg).
//
// The lottery is run through ceremony.VerifC16Run, which repeats the middle
// part of calculateCeremonyCandidates on the repository's own functions; the
// solver-facing lists and the recipient lists are read through the exported
// methods the node itself uses (GetShort/LongFlipsToSolve,
// PrivateEncryptionKeyCandidates, GetFlipKeys).
package c16

import (
	"bytes"
	"crypto/ecdsa"
	"encoding/binary"
	"encoding/hex"
	"fmt"
	"strings"
	"testing"

	"github.com/idena-network/idena-go/blockchain/types"
	"github.com/idena-network/idena-go/common"
	"github.com/idena-network/idena-go/common/eventbus"
	"github.com/idena-network/idena-go/core/appstate"
	"github.com/idena-network/idena-go/core/ceremony"
	"github.com/idena-network/idena-go/core/mempool"
	"github.com/idena-network/idena-go/core/state"
	"github.com/idena-network/idena-go/crypto"
	"github.com/idena-network/idena-go/crypto/ecies"
	"github.com/idena-network/idena-go/database"
	"github.com/idena-network/idena-go/events"
	"github.com/idena-network/idena-go/secstore"
	dbm "github.com/tendermint/tm-db"
	"pgregory.net/rapid"

	"verifharness/internal/evid"
	"verifharness/internal/kf"
)

func TestMain(m *testing.M) { evid.Main(m) }

// quota is the short-session quota the node passes to the lottery.
var quota = int(common.ShortSessionFlipsCount() + common.ShortSessionExtraFlipsCount())

const keyZeroFlipPlaceholder = "c16.zero-flip-shard-gets-placeholder"

// ---------------------------------------------------------------------------
// layouts
// ---------------------------------------------------------------------------

type ident struct {
	Addr   common.Address
	PubKey []byte
	Key    *ecdsa.PrivateKey // crypto leg only
	Shard  common.ShardId
	State  state.IdentityState
	Done   bool // HasDoneAllRequiredFlips
	Flips  [][]byte
	IsCand bool // by construction: what the node must make of (State, Done)
}

type layout struct {
	ShardsNum uint32
	Idents    []ident // in the order the node reads them
	Seed      []byte
	Shared    int // flips whose cid was replaced by the cid of another identity's flip (drawSharedCids)
}

// shardModel is what the harness expects the node to derive from the layout
// (candidate order, flip order); built from the generator's own bookkeeping.
type shardModel struct {
	id         common.ShardId
	cands      []*ident
	flips      [][]byte
	flipAuthor []int   // candidate index per flip
	flipsOf    [][]int // flip indices per candidate
	cidIndex   map[string]int
	pubIndex   map[string]int
	authors    int
	// A cid may have been submitted by several identities (consensus refuses only a cid the sender itself already
	// has). The lottery identifies a flip by its cid: canon[f] is the index all copies of flip f resolve to (the last
	// copy in reading order, as in cidIndex), holders[cid] the candidates who submitted it.
	canon     []int
	holders   map[string][]int
	addrIndex map[common.Address]int
	sharedCid int // cids of the shard held by more than one candidate
}

func buildModels(l *layout) map[common.ShardId]*shardModel {
	res := map[common.ShardId]*shardModel{}
	for s := uint32(1); s <= l.ShardsNum; s++ {
		res[common.ShardId(s)] = &shardModel{id: common.ShardId(s), cidIndex: map[string]int{}, pubIndex: map[string]int{},
			holders: map[string][]int{}, addrIndex: map[common.Address]int{}}
	}
	for i := range l.Idents {
		id := &l.Idents[i]
		if !id.IsCand {
			continue
		}
		m := res[id.Shard]
		ci := len(m.cands)
		m.cands = append(m.cands, id)
		m.pubIndex[string(id.PubKey)] = ci
		m.addrIndex[id.Addr] = ci
		var own []int
		for _, cid := range id.Flips {
			m.cidIndex[string(cid)] = len(m.flips)
			m.holders[string(cid)] = append(m.holders[string(cid)], ci)
			own = append(own, len(m.flips))
			m.flips = append(m.flips, cid)
			m.flipAuthor = append(m.flipAuthor, ci)
		}
		m.flipsOf = append(m.flipsOf, own)
		if len(id.Flips) > 0 {
			m.authors++
		}
	}
	for _, m := range res {
		m.canon = make([]int, len(m.flips))
		for f, cid := range m.flips {
			m.canon[f] = m.cidIndex[string(cid)]
			if m.canon[f] == f && len(m.holders[string(cid)]) > 1 {
				m.sharedCid++
			}
		}
	}
	return res
}

// sharedFlips lists the flip indices of the shard whose cid somebody else in the shard submitted as well.
func (m *shardModel) sharedFlips() []int {
	var r []int
	for f, cid := range m.flips {
		if len(m.holders[string(cid)]) > 1 {
			r = append(r, f)
		}
	}
	return r
}

func (l *layout) describe() string {
	var sb strings.Builder
	fmt.Fprintf(&sb, "shards=%d seed=%s idents=[", l.ShardsNum, hex.EncodeToString(l.Seed))
	occ := map[string]int{}
	if l.Shared > 0 {
		for i := range l.Idents {
			for _, cid := range l.Idents[i].Flips {
				occ[string(cid)]++
			}
		}
	}
	for i := range l.Idents {
		id := &l.Idents[i]
		if !id.IsCand {
			fmt.Fprintf(&sb, "x%d:%d:%d", id.Shard, id.State, len(id.Flips))
		} else {
			fmt.Fprintf(&sb, "%d:%d", id.Shard, len(id.Flips))
		}
		for j, cid := range id.Flips {
			if occ[string(cid)] > 1 {
				fmt.Fprintf(&sb, "~%d", j) // flip j is also somebody else's
			}
		}
		sb.WriteString(" ")
	}
	sb.WriteString("]")
	return sb.String()
}

// summary is the compact, human readable form used in failure messages.
func (l *layout) summary() string {
	ms := buildModels(l)
	var sb strings.Builder
	fmt.Fprintf(&sb, "seed=%s shards=%d", hex.EncodeToString(l.Seed), l.ShardsNum)
	for s := uint32(1); s <= l.ShardsNum; s++ {
		m := ms[common.ShardId(s)]
		fmt.Fprintf(&sb, " | shard %d: candidates=%d flipsPerCandidate=%v", s, len(m.cands), flipCounts(m))
		if sh := m.sharedFlips(); len(sh) > 0 {
			fmt.Fprintf(&sb, " flipsWithACidSubmittedTwice=%v(canonical %v)", sh, canonList(m, sh))
		}
	}
	nc := 0
	for i := range l.Idents {
		if !l.Idents[i].IsCand {
			nc++
		}
	}
	fmt.Fprintf(&sb, " | nonCandidates=%d", nc)
	return sb.String()
}

func flipCounts(m *shardModel) []int {
	r := make([]int, len(m.cands))
	for i := range m.cands {
		r[i] = len(m.flipsOf[i])
	}
	return r
}

// ---------------------------------------------------------------------------
// running the lottery
// ---------------------------------------------------------------------------

type world struct {
	lot  *ceremony.VerifC16Lottery
	vc   *ceremony.ValidationCeremony
	pool *mempool.KeysPool
}

type failer interface {
	Fatalf(format string, args ...interface{})
	Helper()
}

func cloneBytes(b []byte) []byte { return append([]byte(nil), b...) }

// evaluate builds every input afresh (new database, new state, new slices) and
// runs the lottery the way the node does after a restart in the lottery period
// (identities and seed read back from the epoch database).
func evaluate(t failer, l *layout) *world {
	t.Helper()
	db := dbm.NewMemDB()
	bus := eventbus.New()
	appState, err := appstate.NewAppState(db, bus)
	if err != nil {
		t.Fatalf("harness: NewAppState: %v", err)
	}
	if err := appState.Initialize(0); err != nil {
		t.Fatalf("harness: appState.Initialize: %v", err)
	}
	if l.ShardsNum > 1 {
		appState.State.SetShardsNum(l.ShardsNum)
		for i := range l.Idents {
			appState.State.SetShardId(l.Idents[i].Addr, l.Idents[i].Shard)
		}
	}
	epochDb := database.NewEpochDb(db, 0)
	epochDb.WriteLotterySeed(cloneBytes(l.Seed))
	list := make([]database.DbLotteryIdentity, 0, len(l.Idents))
	for i := range l.Idents {
		id := &l.Idents[i]
		item := database.DbLotteryIdentity{
			Address:                 id.Addr,
			ShiftedShardId:          id.Shard,
			PubKey:                  cloneBytes(id.PubKey),
			State:                   uint8(id.State),
			HasDoneAllRequiredFlips: id.Done,
		}
		for _, cid := range id.Flips {
			item.FlipCids = append(item.FlipCids, cloneBytes(cid))
		}
		list = append(list, item)
	}
	epochDb.WriteLotteryIdentities(list)
	pool := mempool.NewKeysPool(db, appState, bus, nil)
	lot := ceremony.VerifC16Run(appState, epochDb, pool, true)
	if lot == nil {
		t.Fatalf("harness: lottery did not run (no seed)")
	}
	return &world{lot: lot, vc: lot.Ceremony(), pool: pool}
}

// ---------------------------------------------------------------------------
// determinism
// ---------------------------------------------------------------------------

func eqLists(a, b [][]int) bool {
	if len(a) != len(b) {
		return false
	}
	for i := range a {
		if !eqInts(a[i], b[i]) {
			return false
		}
	}
	return true
}

func eqInts(a, b []int) bool {
	if len(a) != len(b) {
		return false
	}
	for i := range a {
		if a[i] != b[i] {
			return false
		}
	}
	return true
}

func eqMaps(a, b map[int][]int) bool {
	if len(a) != len(b) {
		return false
	}
	for k, v := range a {
		w, ok := b[k]
		if !ok || !eqInts(v, w) {
			return false
		}
	}
	return true
}

func checkSame(t failer, l *layout, w1, w2 *world, what string) {
	t.Helper()
	for s := uint32(1); s <= l.ShardsNum; s++ {
		id := common.ShardId(s)
		if !eqLists(w1.lot.ShortFlipsPerCandidate(id), w2.lot.ShortFlipsPerCandidate(id)) {
			t.Fatalf("determinism (%s): short lists differ in shard %d\n 1st: %v\n 2nd: %v\n%s", what, s,
				w1.lot.ShortFlipsPerCandidate(id), w2.lot.ShortFlipsPerCandidate(id), l.summary())
		}
		if !eqLists(w1.lot.LongFlipsPerCandidate(id), w2.lot.LongFlipsPerCandidate(id)) {
			t.Fatalf("determinism (%s): long lists differ in shard %d\n 1st: %v\n 2nd: %v\n%s", what, s,
				w1.lot.LongFlipsPerCandidate(id), w2.lot.LongFlipsPerCandidate(id), l.summary())
		}
		if !eqMaps(w1.lot.CandidatesPerAuthor(id), w2.lot.CandidatesPerAuthor(id)) {
			t.Fatalf("determinism (%s): recipients per author differ in shard %d\n 1st: %v\n 2nd: %v\n%s", what, s,
				w1.lot.CandidatesPerAuthor(id), w2.lot.CandidatesPerAuthor(id), l.summary())
		}
		if !eqMaps(w1.lot.AuthorsPerCandidate(id), w2.lot.AuthorsPerCandidate(id)) {
			t.Fatalf("determinism (%s): authors per candidate differ in shard %d\n%s", what, s, l.summary())
		}
	}
}

// ---------------------------------------------------------------------------
// oracle
// ---------------------------------------------------------------------------

type shardFacts struct {
	n, authors, flips  int
	topUp              bool
	placeholderForeign int // long list is the placeholder and flip 0 is by an author who does not encrypt for the candidate
	placeholderOwn     int // long list is [0], nothing was left for the long session, flip 0 is by one of the candidate's authors
	zeroFlipKnown      bool
	sharedCids         int            // cids held by more than one candidate of the shard
	sharedBoth         int            // candidates who have two holders of one cid among their authors (the lottery meets the flip twice)
	sharedOtherAuthor  int            // assigned shared flips which the node's flip -> author table attributes to a holder who does not encrypt for the candidate
	recipients         []map[int]bool // per author (candidate index): set of recipients; nil for non-authors
	recipientList      [][]int
	short, long        [][]int
}

func (f *shardFacts) nonTrivial() bool {
	if f.sharedBoth > 0 {
		return true
	}
	if f.authors < 1 || f.authors >= f.n {
		return false
	}
	return f.authors <= 7 || f.flips == 1 || f.topUp
}

func hasDup(a []int) bool {
	seen := make(map[int]struct{}, len(a))
	for _, x := range a {
		if _, ok := seen[x]; ok {
			return true
		}
		seen[x] = struct{}{}
	}
	return false
}

func toSet(a []int) map[int]bool {
	r := make(map[int]bool, len(a))
	for _, x := range a {
		r[x] = true
	}
	return r
}

// canonList maps flip indices to the index all copies of the same cid resolve to (identity when cids are distinct).
func canonList(m *shardModel, a []int) []int {
	r := make([]int, len(a))
	for i, x := range a {
		r[i] = m.canon[x]
	}
	return r
}

// checkShard evaluates every clause of the statement that does not need real
// cryptography on one shard. It returns facts used for class counting and by
// the crypto leg.
func checkShard(t failer, l *layout, w *world, m *shardModel) *shardFacts {
	t.Helper()
	sid := m.id
	n, F := len(m.cands), len(m.flips)
	facts := &shardFacts{n: n, authors: m.authors, flips: F}
	fail := func(format string, args ...interface{}) {
		t.Helper()
		t.Fatalf("shard %d: "+format+"\n%s", append(append([]interface{}{sid}, args...), l.summary())...)
	}

	// (0) the harness' reading of the layout coincides with the node's.
	if !w.lot.HasShard(sid) {
		fail("harness: node has no such shard")
	}
	cands := w.lot.Candidates(sid)
	if len(cands) != n {
		fail("harness: node sees %d candidates, model %d", len(cands), n)
	}
	for i, c := range cands {
		if c.Address != m.cands[i].Addr || !bytes.Equal(c.PubKey, m.cands[i].PubKey) || c.IsAuthor != (len(m.cands[i].Flips) > 0) {
			fail("harness: candidate %d differs from model", i)
		}
	}
	nodeFlips := w.lot.Flips(sid)
	if len(nodeFlips) != F {
		fail("harness: node sees %d flips, model %d", len(nodeFlips), F)
	}
	for i := range nodeFlips {
		if !bytes.Equal(nodeFlips[i], m.flips[i]) {
			fail("harness: flip %d differs from model", i)
		}
	}

	short := w.lot.ShortFlipsPerCandidate(sid)
	long := w.lot.LongFlipsPerCandidate(sid)
	facts.short, facts.long = short, long
	if len(short) != n || len(long) != n {
		fail("lottery returned %d short and %d long lists for %d candidates", len(short), len(long), n)
	}

	// solver-facing lists, as cid lists and translated back to flip indices
	solverLists := func(get func(common.Address, common.ShardId) [][]byte, session string) [][]int {
		res := make([][]int, n)
		for c := 0; c < n; c++ {
			cids := get(m.cands[c].Addr, sid)
			for _, cid := range cids {
				idx, ok := m.cidIndex[string(cid)]
				if !ok {
					fail("candidate %d is handed a %s-session flip %x that nobody in the shard submitted", c, session, cid)
				}
				res[c] = append(res[c], idx)
			}
		}
		return res
	}
	solverShort := solverLists(w.vc.GetShortFlipsToSolve, "short")
	solverLong := solverLists(w.vc.GetLongFlipsToSolve, "long")

	cpa := w.lot.CandidatesPerAuthor(sid)

	// ---- shard without flips: nothing may be assigned ----
	if F == 0 {
		for c := 0; c < n; c++ {
			if len(solverShort[c]) != 0 || len(solverLong[c]) != 0 {
				fail("no flips in the shard, but candidate %d is handed short=%v long=%v", c, solverShort[c], solverLong[c])
			}
			if len(short[c]) != 0 {
				fail("no flips in the shard, but candidate %d has short index list %v", c, short[c])
			}
		}
		if len(cpa) != 0 {
			fail("no flips in the shard, but recipient lists exist: %v", cpa)
		}
		// Any long index list other than empty or the placeholder [0] is a deviation of its own.
		withPlaceholder := -1
		for c := 0; c < n; c++ {
			switch {
			case len(long[c]) == 0:
			case len(long[c]) == 1 && long[c][0] == 0:
				if withPlaceholder < 0 {
					withPlaceholder = c
				}
			default:
				fail("no flips in the shard, but candidate %d has long index list %v", c, long[c])
			}
		}
		if withPlaceholder >= 0 {
			// The index lists the qualification later reads name flip 0 of a shard that has no flip.
			if kf.Report(t, "C16", keyZeroFlipPlaceholder,
				"shard %d has %d candidates and no flip, yet the lottery's long-session index list of candidate %d is %v (GetFlipsDistribution placeholder, lottery.go:265); the lists handed to solvers are empty\n%s",
				sid, n, withPlaceholder, long[withPlaceholder], l.summary()) {
				facts.zeroFlipKnown = true
			}
		}
		return facts
	}

	// ---- recipients: the lists the authors encrypt for, as the node computes them ----
	facts.recipients = make([]map[int]bool, n)
	facts.recipientList = make([][]int, n)
	totalPairs := 0
	for a := 0; a < n; a++ {
		if len(m.flipsOf[a]) == 0 {
			continue
		}
		pubKeys, err := w.vc.PrivateEncryptionKeyCandidates(m.cands[a].Addr)
		if err != nil {
			// no recipients: fine as long as none of a's flips is assigned (checked below)
			facts.recipients[a] = map[int]bool{}
			continue
		}
		set := make(map[int]bool, len(pubKeys))
		lst := make([]int, 0, len(pubKeys))
		perAuthor := w.lot.CandidatesPerAuthor(sid)[a]
		for j, pk := range pubKeys {
			ci, ok := m.pubIndex[string(pk)]
			if !ok {
				fail("author %d encrypts for a public key that is not a candidate of the shard: %x", a, pk)
			}
			if len(pk) == 0 {
				// several candidates may have no registered key (genesis identities): the key does not name the
				// candidate then, the position in the author's recipient list does
				if j >= len(perAuthor) || perAuthor[j] < 0 || perAuthor[j] >= n || len(m.cands[perAuthor[j]].PubKey) != 0 {
					fail("author %d: recipient %d has no key but the recipient list does not name a key-less candidate there", a, j)
				}
				ci = perAuthor[j]
			}
			set[ci] = true
			lst = append(lst, ci)
		}
		facts.recipients[a] = set
		facts.recipientList[a] = lst
		totalPairs += len(lst)
	}
	facts.topUp = m.authors > 7 && totalPairs > n*quota

	// authorsOf[c]: authors who encrypt for c
	authorsOf := make([][]int, n)
	for a := 0; a < n; a++ {
		for _, c := range facts.recipientList[a] {
			if len(authorsOf[c]) == 0 || authorsOf[c][len(authorsOf[c])-1] != a {
				if !containsInt(authorsOf[c], a) {
					authorsOf[c] = append(authorsOf[c], a)
				}
			}
		}
	}

	// A flip is a cid. When several candidates submitted the same cid, "the flip's author" of the statement is read
	// as: some holder of the cid (the lottery reaches a flip only through an author it gave to the candidate).
	holdersOf := func(f int) []int { return m.holders[string(m.flips[f])] }
	encryptsFor := func(f, c int) bool {
		for _, a := range holdersOf(f) {
			if facts.recipients[a][c] {
				return true
			}
		}
		return false
	}
	recipientsOfHolders := func(f int) [][]int {
		var r [][]int
		for _, a := range holdersOf(f) {
			r = append(r, facts.recipientList[a])
		}
		return r
	}
	facts.sharedCids = m.sharedCid
	if m.sharedCid > 0 {
		for c := 0; c < n; c++ {
			both := false
			for _, a := range authorsOf[c] {
				for _, f := range m.flipsOf[a] {
					k := 0
					for _, h := range holdersOf(f) {
						if containsInt(authorsOf[c], h) {
							k++
						}
					}
					if k > 1 {
						both = true
					}
				}
			}
			if both {
				facts.sharedBoth++
			}
		}
	}

	// solverLevel: the lists are the cid lists handed to the solver translated back (always canonical indices);
	// otherwise the lottery's own index lists, where the placeholder is the literal index 0.
	clauses := func(level string, solverLevel bool, short, long [][]int) (foreign, own int) {
		for c := 0; c < n; c++ {
			for _, lst := range [][]int{short[c], long[c]} {
				for _, f := range lst {
					if f < 0 || f >= F {
						fail("%s: candidate %d is assigned flip index %d, shard has %d flips (short=%v long=%v)", level, c, f, F, short[c], long[c])
					}
				}
			}
			// the same flip (cid) twice, under one index or under the indices of two copies
			if hasDup(canonList(m, short[c])) {
				fail("%s: candidate %d has a flip twice in its short list %v", level, c, short[c])
			}
			if hasDup(canonList(m, long[c])) {
				fail("%s: candidate %d has a flip twice in its long list %v", level, c, long[c])
			}
			if len(short[c]) > quota {
				fail("%s: candidate %d has %d short flips, quota is %d: %v", level, c, len(short[c]), quota, short[c])
			}
			if len(long[c]) == 0 {
				fail("%s: shard has %d flips but candidate %d has an empty long list", level, F, c)
			}

			sset, lset := toSet(canonList(m, short[c])), toSet(canonList(m, long[c]))
			// placeholder, recognised structurally: the long list is exactly [0] and every flip of every
			// author who encrypts for c is already in c's short list (nothing was left for the long session).
			nothingLeft := true
			for _, a := range authorsOf[c] {
				for _, f := range m.flipsOf[a] {
					if !sset[m.canon[f]] {
						nothingLeft = false
					}
				}
			}
			placeholder := len(long[c]) == 1 && nothingLeft &&
				(long[c][0] == 0 || (solverLevel && m.canon[long[c][0]] == m.canon[0]))

			for _, f := range short[c] {
				if !encryptsFor(f, c) {
					fail("%s: candidate %d has flip %d of author(s) %v in its short list %v, but they encrypt only for %v", level, c, f, holdersOf(f), short[c], recipientsOfHolders(f))
				}
			}
			for _, f := range long[c] {
				if encryptsFor(f, c) {
					continue
				}
				if placeholder {
					foreign++
					continue
				}
				fail("%s: candidate %d has flip %d of author(s) %v in its long list %v (short %v), but they encrypt only for %v, and the list is not the placeholder",
					level, c, f, holdersOf(f), long[c], short[c], recipientsOfHolders(f))
			}
			if placeholder && encryptsFor(0, c) && len(authorsOf[c]) >= quota {
				own++
			}
			// vice versa: every author who encrypts for c has a flip in c's lists
			for _, a := range authorsOf[c] {
				found := false
				for _, f := range m.flipsOf[a] {
					if sset[m.canon[f]] || lset[m.canon[f]] {
						found = true
						break
					}
				}
				if !found {
					fail("%s: author %d encrypts its key for candidate %d, but none of its flips %v is in the candidate's lists short=%v long=%v",
						level, a, c, m.flipsOf[a], short[c], long[c])
				}
			}
		}
		return
	}
	facts.placeholderForeign, facts.placeholderOwn = clauses("lottery index lists", false, short, long)
	clauses("lists handed to the solver", true, solverShort, solverLong)

	// the slot the node computes for a recipient is the recipient's slot
	for a := 0; a < n; a++ {
		if len(facts.recipientList[a]) == 0 {
			continue
		}
		seen := map[int]bool{}
		for _, c := range facts.recipientList[a] {
			if seen[c] {
				continue
			}
			seen[c] = true
			idx := w.lot.PrivateKeyPackageIndex(m.cands[c].Addr, m.cands[a].Addr)
			if idx < 0 || idx >= len(facts.recipientList[a]) || facts.recipientList[a][idx] != c {
				fail("recipient %d of author %d is sent to package slot %d; recipients are %v", c, a, idx, facts.recipientList[a])
			}
		}
	}
	// flip -> author lookup the node uses for key retrieval: the one who submitted the flip, or one of them
	for f, cid := range m.flips {
		addr, ok := w.lot.FlipAuthor(sid, cid)
		ai, known := m.addrIndex[addr]
		if !ok || !known || !containsInt(holdersOf(f), ai) {
			fail("harness: node attributes flip %d to %v, model to candidate(s) %v", f, addr, holdersOf(f))
		}
	}
	// counted only (the statement does not say whose key opens a flip that two identities submitted): an assigned
	// shared flip that GetFlipKeys would look up at a holder who does not encrypt for the candidate
	if m.sharedCid > 0 {
		for c := 0; c < n; c++ {
			for _, f := range append(append([]int{}, solverShort[c]...), solverLong[c]...) {
				if len(holdersOf(f)) < 2 {
					continue
				}
				addr, _ := w.lot.FlipAuthor(sid, m.flips[f])
				if !facts.recipients[m.addrIndex[addr]][c] {
					facts.sharedOtherAuthor++
				}
			}
		}
	}
	return facts
}

func containsInt(a []int, x int) bool {
	for _, y := range a {
		if y == x {
			return true
		}
	}
	return false
}

// countClasses records the path classes of one shard.
func countClasses(prefix string, f *shardFacts) {
	c := func(s string) { evid.Count(prefix + s) }
	switch {
	case f.n == 0:
		c("shard.no-candidates")
	case f.authors == 0:
		c("shard.zero-flips")
	case f.flips == 1:
		c("shard.one-flip")
	}
	switch {
	case f.n == 0:
	case f.authors == 0:
		c("authors.0")
	case f.authors == 1:
		c("authors.1")
	case f.authors <= 6:
		c("authors.2-6")
	case f.authors == 7:
		c("authors.7")
	case f.authors == 8:
		c("authors.8")
	default:
		c("authors.9+")
	}
	if f.n > 0 && f.authors == f.n {
		c("authors.all")
	}
	if f.authors > 0 && f.authors <= 7 {
		c("path.few-authors")
	}
	if f.authors > 7 {
		if f.topUp {
			c("path.top-up")
		} else {
			c("path.many-authors-no-top-up")
		}
	}
	if f.placeholderForeign > 0 {
		c("placeholder.used-foreign-author")
	}
	if f.placeholderOwn > 0 {
		c("placeholder.used-own-author")
	}
	if f.zeroFlipKnown {
		c("placeholder.zero-flip-shard(known)")
	}
	if f.sharedCids > 0 {
		c("shared.shard-with-a-cid-of-two-authors")
		if f.sharedBoth > 0 {
			c("shared.candidate-given-both-authors")
		}
		if f.sharedOtherAuthor > 0 {
			c("shared.node-looks-key-up-at-non-encrypting-holder")
		}
	}
	switch {
	case f.n <= 6:
		c("size.0-6")
	case f.n <= 16:
		c("size.7-16")
	case f.n <= 60:
		c("size.17-60")
	case f.n <= 200:
		c("size.61-200")
	default:
		c("size.201-400")
	}
	if f.nonTrivial() {
		c("nontrivial-shard")
	}
}

// checkLayout = two evaluations on independently rebuilt inputs + the oracle.
func checkLayout(t failer, l *layout, prefix string) (*world, map[common.ShardId]*shardModel, map[common.ShardId]*shardFacts) {
	t.Helper()
	w1 := evaluate(t, l)
	w2 := evaluate(t, l)
	checkSame(t, l, w1, w2, "same inputs rebuilt as fresh slices, fresh database and state")
	models := buildModels(l)
	if w1.lot.ShardsCount() != int(l.ShardsNum) {
		t.Fatalf("harness: node has %d shards, layout %d", w1.lot.ShardsCount(), l.ShardsNum)
	}
	facts := map[common.ShardId]*shardFacts{}
	nonTrivial := false
	for s := uint32(1); s <= l.ShardsNum; s++ {
		sid := common.ShardId(s)
		f := checkShard(t, l, w1, models[sid])
		facts[sid] = f
		countClasses(prefix, f)
		if f.nonTrivial() {
			nonTrivial = true
		}
	}
	if l.ShardsNum > 1 {
		evid.Count(prefix + "layout.two-shards")
	}
	for i := range l.Idents {
		if !l.Idents[i].IsCand {
			evid.Count(prefix + "layout.with-non-candidates")
			break
		}
	}
	if l.Shared > 0 {
		evid.Count(prefix + "layout.with-shared-cids")
	}
	if nonTrivial {
		evid.NonTrivial(l.describe())
	}
	return w1, models, facts
}

// ---------------------------------------------------------------------------
// generators
// ---------------------------------------------------------------------------

type shardSpec struct {
	n        int
	flipsPer []int // per candidate, 0 = not an author
}

func minInt(a, b int) int {
	if a < b {
		return a
	}
	return b
}

// pick returns a selector in [0,n) that is close to uniform: rapid's integer
// generators favour small values, which is wanted for sizes but not for the
// choice between path classes, so the drawn word is hashed first.
func pick(t *rapid.T, label string, n int) int {
	u := rapid.Uint64().Draw(t, label)
	x := h("pick", u)
	return int(binary.LittleEndian.Uint64(x[:8]) % uint64(n))
}

func drawShardSpec(t *rapid.T, maxN int, tag string) shardSpec {
	var n int
	sel := pick(t, tag+"sizeSel", 100)
	switch {
	case sel < 3:
		n = 0
	case sel < 25:
		n = rapid.IntRange(1, minInt(12, maxN)).Draw(t, tag+"n")
	case sel < 45:
		n = rapid.SampledFrom([]int{1, 2, 3, 7, 8, 9, 10, 12, 13, 14, 15, 16, 17, 104, 105}).Draw(t, tag+"n")
		n = minInt(n, maxN)
	case sel < 72:
		n = rapid.IntRange(minInt(13, maxN), minInt(60, maxN)).Draw(t, tag+"n")
	case sel < 91:
		n = rapid.IntRange(minInt(61, maxN), minInt(200, maxN)).Draw(t, tag+"n")
	default:
		n = maxN - rapid.IntRange(0, maxN/2).Draw(t, tag+"n")
	}
	spec := shardSpec{n: n, flipsPer: make([]int, n)}
	if n == 0 {
		return spec
	}
	modes := []string{"0", "1", "2", "7", "8", "9", "all", "all-1", "rand", "rand", "oneflip", "ones8"}
	mode := modes[pick(t, tag+"authorsMode", len(modes))]
	k := 0
	flipsMode := []int{1, 2, 3, 5, 0, 0}[pick(t, tag+"flipsMode", 6)] // 0 = mixed
	switch mode {
	case "0":
		k = 0
	case "1", "2", "7", "8", "9":
		k = int(mode[0] - '0')
	case "all":
		k = n
	case "all-1":
		k = n - 1
	case "rand":
		k = rapid.IntRange(0, n).Draw(t, tag+"authors")
	case "oneflip":
		k, flipsMode = 1, 1
	case "ones8": // eight or a few more one-flip authors: the short session can use up everything
		k, flipsMode = rapid.IntRange(8, 10).Draw(t, tag+"authors"), 1
	}
	k = minInt(k, n)
	var pos []int
	switch []string{"first", "last", "scattered"}[pick(t, tag+"placement", 3)] {
	case "first":
		for i := 0; i < k; i++ {
			pos = append(pos, i)
		}
	case "last":
		for i := n - k; i < n; i++ {
			pos = append(pos, i)
		}
	default:
		all := make([]int, n)
		for i := range all {
			all[i] = i
		}
		pos = rapid.Permutation(all).Draw(t, tag+"perm")[:k]
	}
	for _, p := range pos {
		if flipsMode > 0 {
			spec.flipsPer[p] = flipsMode
		} else {
			spec.flipsPer[p] = rapid.IntRange(1, 5).Draw(t, tag+"flips")
		}
	}
	return spec
}

var candidateStates = []state.IdentityState{state.Newbie, state.Verified, state.Human, state.Suspended, state.Zombie}

func h(parts ...interface{}) [32]byte {
	return crypto.Hash([]byte(fmt.Sprint(parts...)))
}

func makeCid(salt uint64, shard, cand, j int) []byte {
	x := h("cid", salt, shard, cand, j)
	return append([]byte{0x01, 0x70, 0x12, 0x20}, x[:]...)
}

func deriveKey(parts ...interface{}) *ecdsa.PrivateKey {
	for i := 0; ; i++ {
		x := h(append([]interface{}{"key", i}, parts...)...)
		k, err := crypto.ToECDSA(x[:])
		if err == nil {
			return k
		}
	}
}

// makeIdent fills address / public key: real keys when withKeys, otherwise
// hash-derived bytes (the lottery never parses them).
func makeIdent(salt uint64, shard, serial int, withKeys bool) ident {
	id := ident{Shard: common.ShardId(shard)}
	if withKeys {
		id.Key = deriveKey(salt, shard, serial)
		id.Addr = crypto.PubkeyToAddress(id.Key.PublicKey)
		id.PubKey = crypto.FromECDSAPub(&id.Key.PublicKey)
		return id
	}
	a := h("addr", salt, shard, serial)
	copy(id.Addr[:], a[:20])
	b := h("pub", salt, shard, serial)
	id.PubKey = append(append([]byte{0x04}, a[:]...), b[:]...)
	return id
}

func buildLayout(salt uint64, specs []shardSpec, seed []byte, withKeys bool) (*layout, [][]ident) {
	l := &layout{ShardsNum: uint32(len(specs)), Seed: seed}
	per := make([][]ident, len(specs))
	for si, spec := range specs {
		for c := 0; c < spec.n; c++ {
			id := makeIdent(salt, si+1, c, withKeys)
			id.IsCand, id.Done = true, true
			if spec.flipsPer[c] == 0 {
				// candidates proper have no flips; everybody else in a validating state may have none either
				x := h("st", salt, si, c)
				if x[0]%3 == 0 {
					id.State = state.Candidate
				} else {
					id.State = candidateStates[int(x[1])%len(candidateStates)]
				}
			} else {
				x := h("st", salt, si, c)
				id.State = candidateStates[int(x[1])%len(candidateStates)]
			}
			for j := 0; j < spec.flipsPer[c]; j++ {
				id.Flips = append(id.Flips, makeCid(salt, si+1, c, j))
			}
			per[si] = append(per[si], id)
		}
	}
	return l, per
}

func drawSeed(t *rapid.T) []byte {
	seed := make([]byte, 32)
	switch pick(t, "seedKind", 10) {
	case 0:
		v := rapid.SampledFrom([]uint64{0, 1, 2, ^uint64(0), 1 << 63, 1<<63 - 1}).Draw(t, "seed64")
		binary.LittleEndian.PutUint64(seed, v)
	case 1:
		binary.LittleEndian.PutUint64(seed, rapid.Uint64().Draw(t, "seed64"))
	default:
		copy(seed, rapid.SliceOfN(rapid.Byte(), 32, 32).Draw(t, "seed"))
	}
	return seed
}

func drawLayout(t *rapid.T, maxN int, withKeys bool) *layout {
	salt := rapid.Uint64().Draw(t, "salt")
	shards := 1
	if pick(t, "twoShards", 5) == 0 {
		shards = 2
	}
	specs := make([]shardSpec, shards)
	for i := range specs {
		specs[i] = drawShardSpec(t, maxN, fmt.Sprintf("s%d.", i+1))
	}
	l, per := buildLayout(salt, specs, drawSeed(t), withKeys)

	// order in which the node reads the identities: the order inside a shard is the candidate index
	if shards == 1 {
		l.Idents = per[0]
	} else {
		switch rapid.SampledFrom([]string{"1then2", "2then1", "alternate"}).Draw(t, "interleave") {
		case "1then2":
			l.Idents = append(append([]ident{}, per[0]...), per[1]...)
		case "2then1":
			l.Idents = append(append([]ident{}, per[1]...), per[0]...)
		default:
			i, j := 0, 0
			for i < len(per[0]) || j < len(per[1]) {
				if i < len(per[0]) {
					l.Idents = append(l.Idents, per[0][i])
					i++
				}
				if j < len(per[1]) {
					l.Idents = append(l.Idents, per[1][j])
					j++
				}
			}
		}
	}

	// identities the node must leave out: wrong status, or required flips not made (their flips do not take part)
	if pick(t, "withNonCandidates", 6) == 0 {
		k := rapid.IntRange(1, 3).Draw(t, "nonCandidates")
		for x := 0; x < k; x++ {
			shard := rapid.IntRange(1, shards).Draw(t, "ncShard")
			id := makeIdent(salt, shard, 100000+x, withKeys)
			if rapid.Bool().Draw(t, "ncLazy") {
				id.State = rapid.SampledFrom(candidateStates).Draw(t, "ncState")
				id.Done = false
			} else {
				id.State = rapid.SampledFrom([]state.IdentityState{state.Undefined, state.Invite, state.Killed}).Draw(t, "ncState")
				id.Done = rapid.Bool().Draw(t, "ncDone")
			}
			nf := rapid.IntRange(0, 2).Draw(t, "ncFlips")
			for j := 0; j < nf; j++ {
				id.Flips = append(id.Flips, makeCid(salt, shard, 100000+x, j))
			}
			at := rapid.IntRange(0, len(l.Idents)).Draw(t, "ncAt")
			l.Idents = append(l.Idents, ident{})
			copy(l.Idents[at+1:], l.Idents[at:])
			l.Idents[at] = id
		}
	}

	// the same flip submitted by more than one identity
	if pick(t, "withSharedCids", 4) == 0 {
		drawSharedCids(t, l)
	}
	return l
}

// drawSharedCids makes 1..3 identities "copycats": one of their flips gets the cid of a flip of another identity
// (mostly of the same shard). Consensus accepts that: validateSubmitFlipTx refuses only a cid the SENDER has
// already submitted (and a repeated word pair); only the node-local flipper refuses a cid it knows. An identity
// never holds a cid twice.
func drawSharedCids(t *rapid.T, l *layout) {
	var holders []int
	for i := range l.Idents {
		if len(l.Idents[i].Flips) > 0 {
			holders = append(holders, i)
		}
	}
	if len(holders) < 2 {
		return
	}
	k := rapid.IntRange(1, 3).Draw(t, "sharedCount")
	for x := 0; x < k; x++ {
		b := holders[rapid.IntRange(0, len(holders)-1).Draw(t, "copycat")]
		anyShard := pick(t, "sharedAnyShard", 6) == 0
		var sources []int
		for _, i := range holders {
			if i != b && (anyShard || l.Idents[i].Shard == l.Idents[b].Shard) {
				sources = append(sources, i)
			}
		}
		if len(sources) == 0 {
			continue
		}
		a := sources[rapid.IntRange(0, len(sources)-1).Draw(t, "copiedFrom")]
		src := l.Idents[a].Flips[rapid.IntRange(0, len(l.Idents[a].Flips)-1).Draw(t, "copiedFlip")]
		has := false
		for _, cid := range l.Idents[b].Flips {
			if bytes.Equal(cid, src) {
				has = true
			}
		}
		if has {
			continue
		}
		j := rapid.IntRange(0, len(l.Idents[b].Flips)-1).Draw(t, "copycatFlip")
		flips := make([][]byte, len(l.Idents[b].Flips)) // the slice may be shared with the generator's bookkeeping
		copy(flips, l.Idents[b].Flips)
		flips[j] = cloneBytes(src)
		l.Idents[b].Flips = flips
		l.Shared++
	}
}

// ---------------------------------------------------------------------------
// tests
// ---------------------------------------------------------------------------

// TestLotteryLayouts: generated shard layouts, all clauses except real cryptography.
func TestLotteryLayouts(t *testing.T) {
	rapid.Check(t, func(t *rapid.T) {
		l := drawLayout(t, 400, false)
		evid.Eval()
		_, models, facts := checkLayout(t, l, "")
		for s := uint32(1); s <= l.ShardsNum; s++ {
			sid := common.ShardId(s)
			f := facts[sid]
			class := ""
			switch {
			case f.placeholderForeign > 0:
				class = "placeholder"
			case f.flips == 1 && f.n > 1:
				class = "one-flip"
			case f.topUp && f.authors < f.n:
				class = "top-up"
			case f.nonTrivial():
				class = "few-authors"
			}
			if class == "" {
				continue
			}
			c := map[string]interface{}{"seed": hex.EncodeToString(l.Seed), "shards": l.ShardsNum, "shard": s, "candidates": f.n, "authors": f.authors, "flips": f.flips}
			if f.n <= 30 {
				c["flipsPerCandidate"] = flipCounts(models[sid])
			}
			evid.Sample(class, c)
		}
	})
}

var exhaustiveSeeds = func() [][]byte {
	var r [][]byte
	for i := 0; i < 3; i++ {
		x := h("c16-exhaustive-seed", i)
		r = append(r, x[:])
	}
	return r
}()

// TestLotteryExhaustiveSmall: every single-shard layout with at most 6
// candidates, every author subset, 1 or 2 flips per author, three fixed seeds.
func TestLotteryExhaustiveSmall(t *testing.T) {
	count := 0
	for n := 0; n <= 6; n++ {
		// flips per candidate in {0,1,2}: 0 = not an author
		total := 1
		for i := 0; i < n; i++ {
			total *= 3
		}
		for code := 0; code < total; code++ {
			spec := shardSpec{n: n, flipsPer: make([]int, n)}
			x := code
			for i := 0; i < n; i++ {
				spec.flipsPer[i] = x % 3
				x /= 3
			}
			for si, seed := range exhaustiveSeeds {
				l, per := buildLayout(uint64(si), []shardSpec{spec}, seed, false)
				l.Idents = per[0]
				evid.Eval()
				checkLayout(t, l, "exhaustive.")
				count++
			}
		}
	}
	evid.CountN("exhaustive.layouts-x-seeds", count)
	if count != 1093*3 {
		t.Fatalf("harness: enumerated %d cases, expected %d", count, 1093*3)
	}
}

// TestKeyDelivery: real encryption of the author's key package for the
// recipient list, extraction at the slot the node computes, decryption.
func TestKeyDelivery(t *testing.T) {
	rapid.Check(t, func(t *rapid.T) {
		l := drawLayout(t, 24, true)
		// candidates without a registered public key (identities allocated in genesis never sent an activation tx):
		// nothing can be encrypted for them, everybody else must still find its own slot
		kl := rapid.SampledFrom([]string{"none", "none", "one", "few", "few", "all"}).Draw(t, "keyless")
		if len(l.Idents) == 0 {
			kl = "none"
		}
		switch kl {
		case "one", "few":
			k := 1
			if kl == "few" {
				k = rapid.IntRange(2, 4).Draw(t, "keylessCount")
			}
			for x := 0; x < k; x++ {
				l.Idents[rapid.IntRange(0, len(l.Idents)-1).Draw(t, "keylessIdx")].PubKey = nil
			}
		case "all":
			for i := range l.Idents {
				l.Idents[i].PubKey = nil
			}
		}
		evid.Eval()
		w, models, facts := checkLayout(t, l, "crypto.")
		outsider := deriveKey("outsider", hex.EncodeToString(l.Seed))
		for s := uint32(1); s <= l.ShardsNum; s++ {
			sid := common.ShardId(s)
			m, f := models[sid], facts[sid]
			if f.flips == 0 {
				continue
			}
			var authors []int
			for a := 0; a < f.n; a++ {
				if len(m.flipsOf[a]) > 0 {
					authors = append(authors, a)
				}
			}
			// up to three authors per shard, drawn
			picks := len(authors)
			if picks > 3 {
				picks = 3
			}
			start := rapid.IntRange(0, len(authors)-1).Draw(t, "firstAuthor")
			for p := 0; p < picks; p++ {
				a := authors[(start+p)%len(authors)]
				checkAuthorPackage(t, l, w, m, f, a, outsider)
			}
		}
	})
}

func decryptWith(key *ecdsa.PrivateKey, data []byte) ([]byte, error) {
	// what secstore.DecryptMessage does with the node's key
	return ecies.ImportECDSA(key).Decrypt(data, nil, nil)
}

func checkAuthorPackage(t *rapid.T, l *layout, w *world, m *shardModel, f *shardFacts, a int, outsider *ecdsa.PrivateKey) {
	fail := func(format string, args ...interface{}) {
		t.Helper()
		t.Fatalf("shard %d author %d: "+format+"\n%s", append(append([]interface{}{m.id, a}, args...), l.summary())...)
	}
	author := m.cands[a]
	pubKeys, err := w.vc.PrivateEncryptionKeyCandidates(author.Addr)
	if err != nil {
		// an author nobody has to solve (checkShard has verified that none of its flips is assigned)
		evid.Count("crypto.author-without-recipients")
		return
	}
	flipPub := ecies.ImportECDSA(deriveKey("flip-public", author.Addr.Hex()))
	flipPriv := ecies.ImportECDSA(deriveKey("flip-private", author.Addr.Hex()))
	wantPub := crypto.FromECDSA(flipPub.ExportECDSA())

	data := mempool.EncryptPrivateKeysPackage(flipPub, flipPriv, pubKeys)
	// arrival order: the package may arrive after somebody has already looked one of the author's flips up
	switch order := rapid.SampledFrom([]string{"package-first", "lookup-before-package", "lookup-before-package"}).Draw(t, "arrivalOrder"); order {
	case "package-first":
		w.pool.VerifC16PutKeys(author.Addr, &types.PublicFlipKey{Key: wantPub}, &types.PrivateFlipKeysPackage{Data: data})
	default:
		w.pool.VerifC16PutPublicKey(author.Addr, &types.PublicFlipKey{Key: wantPub})
		if early := w.pool.GetEncryptedPrivateFlipKey(rapid.IntRange(0, len(pubKeys)).Draw(t, "earlySlot"), author.Addr); len(early) != 0 {
			fail("a key is handed out before the author's package has arrived")
		}
		w.pool.VerifC16PutPackage(author.Addr, &types.PrivateFlipKeysPackage{Data: data})
		evid.Count("crypto.order.lookup-before-package")
	}
	verifyDelivery(t, "crypto.", l, w, m, f, a, &publishedKeys{flipPub: flipPub, flipPriv: flipPriv, pubKeys: pubKeys, data: data}, outsider)
}

// publishedKeys is what an author has published for one ceremony.
type publishedKeys struct {
	flipPub, flipPriv *ecies.PrivateKey
	pubKeys           [][]byte // the recipient list the package was encrypted for
	data              []byte   // PrivateFlipKeysPackage.Data
}

// verifyDelivery is the delivery oracle for one author whose public flip key and keys package the pool of w holds:
// every slot the pool serves is the slot of the published package; every recipient decrypts its slot, also through
// the node's retrieval path GetFlipKeys for every assigned flip; nobody else opens anything.
func verifyDelivery(t failer, prefix string, l *layout, w *world, m *shardModel, f *shardFacts, a int, p *publishedKeys, outsider *ecdsa.PrivateKey) {
	t.Helper()
	fail := func(format string, args ...interface{}) {
		t.Helper()
		t.Fatalf("shard %d author %d: "+format+"\n%s", append(append([]interface{}{m.id, a}, args...), l.summary())...)
	}
	author := m.cands[a]
	flipPub, data, pubKeys := p.flipPub, p.data, p.pubKeys
	want := crypto.FromECDSA(p.flipPriv.ExportECDSA())
	wantPub := crypto.FromECDSA(flipPub.ExportECDSA())
	evid.Count(prefix + "packages")
	evid.CountN(prefix+"package-slots", len(pubKeys))

	slots := make([][]byte, len(pubKeys))
	for i := range pubKeys {
		enc, err := mempool.VerifC16GetEncryptedKeyFromPackage(flipPub, data, i)
		if err != nil {
			fail("slot %d of %d cannot be extracted: %v", i, len(pubKeys), err)
		}
		slots[i] = enc
		if viaPool := w.pool.GetEncryptedPrivateFlipKey(i, author.Addr); !bytes.Equal(viaPool, enc) {
			fail("slot %d: pool lookup and package extraction disagree (the pool serves %d bytes, slot %d of the author's package has %d)", i, len(viaPool), i, len(enc))
		}
	}
	if enc, err := mempool.VerifC16GetEncryptedKeyFromPackage(flipPub, data, len(pubKeys)); err == nil && len(enc) > 0 {
		fail("extraction past the last slot (%d) returned data", len(pubKeys))
	}
	if enc := w.pool.GetEncryptedPrivateFlipKey(len(pubKeys), author.Addr); len(enc) > 0 {
		fail("pool lookup past the last slot (%d) of the author's package returned data", len(pubKeys))
	}

	for c := 0; c < f.n; c++ {
		cand := m.cands[c]
		// a's flips in c's lists. A flip that several identities submitted counts for the holder at whom the node looks
		// its key up (for all other flips checkShard has verified that this is the one who submitted it).
		var assigned []int
		for _, lst := range [][]int{f.short[c], f.long[c]} {
			for _, fl := range lst {
				if !containsInt(m.holders[string(m.flips[fl])], a) || containsInt(assigned, fl) {
					continue
				}
				if addr, ok := w.lot.FlipAuthor(m.id, m.flips[fl]); ok && addr == author.Addr {
					assigned = append(assigned, fl)
				}
			}
		}
		if f.recipients[a][c] {
			idx := w.lot.PrivateKeyPackageIndex(cand.Addr, author.Addr)
			if idx < 0 || idx >= len(slots) {
				fail("recipient %d gets package slot %d of %d", c, idx, len(slots))
			}
			if len(cand.PubKey) == 0 {
				// no key to encrypt for: its slot is a placeholder (outside the statement: the candidate has no key)
				if len(slots[idx]) != 0 {
					if plain, err := decryptWith(cand.Key, slots[idx]); err == nil && bytes.Equal(plain, want) {
						fail("recipient %d has no registered key yet decrypts slot %d", c, idx)
					}
				}
				evid.Count(prefix + "keyless-recipient-slot")
				continue
			}
			plain, err := decryptWith(cand.Key, slots[idx])
			if err != nil || !bytes.Equal(plain, want) {
				fail("recipient %d cannot decrypt its slot %d: err=%v", c, idx, err)
			}
			evid.Count(prefix + "recipient-decrypts")
			// the node's own retrieval path, per assigned flip
			for _, fl := range assigned {
				pub, enc, err := w.vc.GetFlipKeys(cand.Addr, m.flips[fl])
				if err != nil {
					fail("recipient %d: GetFlipKeys for assigned flip %d fails: %v", c, fl, err)
				}
				if !bytes.Equal(pub, wantPub) {
					fail("recipient %d: GetFlipKeys returns a wrong public flip key for flip %d", c, fl)
				}
				plain, err := decryptWith(cand.Key, enc)
				if err != nil || !bytes.Equal(plain, want) {
					fail("recipient %d cannot decrypt the key GetFlipKeys returns for assigned flip %d: err=%v", c, fl, err)
				}
				evid.Count(prefix + "getflipkeys-decrypts")
			}
			continue
		}
		// non-recipient: no slot opens, and the node's retrieval path gives it nothing it can open
		for i, enc := range slots {
			if plain, err := decryptWith(cand.Key, enc); err == nil && bytes.Equal(plain, want) {
				fail("candidate %d is not a recipient but decrypts slot %d", c, i)
			}
		}
		evid.Count(prefix + "non-recipient-candidate-rejected")
		for _, fl := range m.flipsOf[a] {
			_, enc, err := w.vc.GetFlipKeys(cand.Addr, m.flips[fl])
			if err == nil {
				if plain, err := decryptWith(cand.Key, enc); err == nil && bytes.Equal(plain, want) {
					fail("candidate %d is not a recipient but obtains the key of flip %d through GetFlipKeys", c, fl)
				}
			}
		}
		if len(assigned) > 0 {
			// only possible for the placeholder (checkShard has verified that)
			evid.Count(prefix + "placeholder-flip-without-key")
		}
	}
	for i, enc := range slots {
		if plain, err := decryptWith(outsider, enc); err == nil && bytes.Equal(plain, want) {
			fail("an outsider key decrypts slot %d", i)
		}
	}
	evid.Count(prefix + "outsider-rejected")
}

// ---------------------------------------------------------------------------
// one key pool through several ceremonies
// ---------------------------------------------------------------------------

// lifetime is one node process: a state, one KeysPool and the ceremonies it lives through. Everything goes through
// the entry points the node uses: identities and flips are in the (committed) state, the lottery reads them from
// there, keys and packages arrive as signed gossip messages through AddPublicFlipKey / AddPrivateKeysPackage, the
// epoch ends with the state changes of a new epoch and KeysPool.Clear() (ValidationCeremony.completeEpoch).
type lifetime struct {
	t        *rapid.T
	salt     uint64
	db       dbm.DB
	bus      eventbus.Bus
	appState *appstate.AppState
	secStore *secstore.SecStore
	pool     *mempool.KeysPool
	height   uint64
	shards   uint32
	people   []ident // sorted by address: the order in which the state is iterated
	required []bool  // RequiredFlips was raised for the identity in the current epoch
	history  strings.Builder
}

func (lt *lifetime) fatalf(format string, args ...interface{}) {
	lt.t.Helper()
	lt.t.Fatalf(format+"\nhistory of the process:%s", append(args, lt.history.String())...)
}

func (lt *lifetime) logf(format string, args ...interface{}) {
	fmt.Fprintf(&lt.history, "\n  "+format, args...)
}

// block commits the pending state changes as the next block and announces it (the pool follows the head).
func (lt *lifetime) block() {
	if err := lt.appState.Commit(nil); err != nil {
		lt.fatalf("harness: commit: %v", err)
	}
	lt.height++
	lt.bus.Publish(&events.NewBlockEvent{Block: &types.Block{Header: lt.head()}})
}

func (lt *lifetime) head() *types.Header {
	return &types.Header{ProposedHeader: &types.ProposedHeader{Height: lt.height}}
}

// startPool is what the node does with its key pool at start-up.
func (lt *lifetime) startPool() {
	lt.pool = mempool.NewKeysPool(lt.db, lt.appState, lt.bus, lt.secStore)
	lt.pool.Initialize(lt.head())
}

func newLifetime(t *rapid.T) *lifetime {
	lt := &lifetime{t: t, salt: rapid.Uint64().Draw(t, "salt"), db: dbm.NewMemDB(), bus: eventbus.New(), shards: 1}
	var err error
	if lt.appState, err = appstate.NewAppState(lt.db, lt.bus); err != nil {
		t.Fatalf("harness: NewAppState: %v", err)
	}
	if err = lt.appState.Initialize(0); err != nil {
		t.Fatalf("harness: appState.Initialize: %v", err)
	}
	if pick(t, "twoShards", 6) == 0 {
		lt.shards = 2
		lt.appState.State.SetShardsNum(2)
	}
	n := rapid.IntRange(2, 12).Draw(t, "people")
	for i := 0; i < n; i++ {
		shard := 1
		if lt.shards == 2 {
			shard = rapid.IntRange(1, 2).Draw(t, "shard")
		}
		id := makeIdent(lt.salt, shard, i, true)
		// mostly identities that can make flips; a few candidates proper
		if rapid.IntRange(0, 5).Draw(t, "status") == 5 {
			id.State = state.Candidate
		} else {
			id.State = rapid.SampledFrom(candidateStates).Draw(t, "state")
		}
		lt.people = append(lt.people, id)
	}
	sortIdents(lt.people)
	lt.required = make([]bool, n)
	for i := range lt.people {
		id := &lt.people[i]
		lt.appState.State.SetState(id.Addr, id.State)
		lt.appState.State.SetPubKey(id.Addr, id.PubKey)
		if lt.shards == 2 {
			lt.appState.State.SetShardId(id.Addr, id.Shard)
		}
	}
	lt.secStore = secstore.NewSecStore()
	lt.secStore.AddKey(crypto.FromECDSA(deriveKey("node", lt.salt)))
	lt.block()
	lt.startPool()
	lt.logf("%d identities, %d shard(s), pool started at height %d", n, lt.shards, lt.height)
	return lt
}

func sortIdents(a []ident) {
	for i := 1; i < len(a); i++ {
		for j := i; j > 0 && bytes.Compare(a[j].Addr[:], a[j-1].Addr[:]) < 0; j-- {
			a[j], a[j-1] = a[j-1], a[j]
		}
	}
}

// sent is what an author has sent out in one epoch.
type sent struct {
	key *types.PublicFlipKey
	pkg *types.PrivateFlipKeysPackage
}

// TestKeyPoolAcrossEpochs: one process (one KeysPool, one state) lives through 2..4 validation ceremonies over a
// fixed population. Every epoch draws who makes how many flips (fresh cids) and a fresh seed; the lottery is run on
// the committed state (and, after a drawn restart inside the epoch, again from the persisted lottery identities:
// both runs must agree); a drawn subset of the authors publishes public flip key and keys package as signed gossip
// messages in a drawn arrival order, with drawn duplicate deliveries and replays of the author's messages of the
// previous epoch; then all clauses are evaluated (checkShard, verifyDelivery). The epoch ends the way
// applyNewEpoch / completeEpoch end it: flips cleared, epoch incremented, KeysPool.Clear() - or, drawn rarely, the
// process is restarted instead.
func TestKeyPoolAcrossEpochs(t *testing.T) {
	rapid.Check(t, func(t *rapid.T) {
		evid.Eval()
		lt := newLifetime(t)
		outsider := deriveKey("outsider", lt.salt)
		epochs := rapid.IntRange(2, 4).Draw(t, "epochs")
		lastSent := map[common.Address]*sent{} // previous epoch
		lookedUp := map[common.Address]bool{}  // authors whose slots were looked up in the previous epoch of THIS pool
		republished, desc := 0, fmt.Sprintf("epochs salt=%d shards=%d", lt.salt, lt.shards)
		for e := 0; e < epochs; e++ {
			epoch := lt.appState.State.Epoch()
			// ---- flips of this epoch ----
			l := &layout{ShardsNum: lt.shards, Seed: drawSeed(t)}
			for i := range lt.people {
				id := lt.people[i] // copy
				id.Done, id.Flips = true, nil
				nf := 0
				if id.State != state.Candidate {
					nf = rapid.SampledFrom([]int{1, 0, 2, 1, 3, 0, 1}).Draw(t, "flips")
				}
				for j := 0; j < nf; j++ {
					cid := makeCid(lt.salt, int(id.Shard), i, int(epoch)*8+j)
					id.Flips = append(id.Flips, cid)
					lt.appState.State.AddFlip(id.Addr, cid, uint8(j))
				}
				// now and then somebody has not made the flips required from it: not a candidate of this ceremony
				if rapid.IntRange(0, 9).Draw(t, "lazy") == 9 {
					lt.appState.State.SetRequiredFlips(id.Addr, uint8(nf+1))
					lt.required[i], id.Done = true, false
				}
				id.IsCand = id.Done
				l.Idents = append(l.Idents, id)
			}
			lt.block()
			lt.logf("epoch %d (height %d): %s", epoch, lt.height, l.summary())

			// ---- lottery on the committed state ----
			epochDb := database.NewEpochDb(lt.db, epoch)
			epochDb.WriteLotterySeed(cloneBytes(l.Seed))
			run := func(restore bool) *world {
				lot := ceremony.VerifC16Run(lt.appState, epochDb, lt.pool, restore)
				if lot == nil {
					lt.fatalf("harness: lottery did not run (no seed)")
				}
				return &world{lot: lot, vc: lot.Ceremony(), pool: lt.pool}
			}
			w := run(false)
			models := buildModels(l)
			facts := map[common.ShardId]*shardFacts{}
			check := func() {
				for s := uint32(1); s <= lt.shards; s++ {
					facts[common.ShardId(s)] = checkShard(lt, l, w, models[common.ShardId(s)])
				}
			}
			check()
			for s := uint32(1); s <= lt.shards; s++ {
				countClasses("epochs.", facts[common.ShardId(s)])
			}
			desc += fmt.Sprintf(" | %s", l.describe())

			// ---- publication ----
			published := map[common.Address]*publishedKeys{}
			nowSent := map[common.Address]*sent{}
			var order []int // candidate positions in l.Idents of the publishing authors, in arrival order
			for i := range l.Idents {
				if l.Idents[i].IsCand && len(l.Idents[i].Flips) > 0 && rapid.IntRange(0, 4).Draw(t, "publishes") > 0 {
					order = append(order, i)
				}
			}
			if len(order) > 1 {
				order = rapid.Permutation(order).Draw(t, "arrival")
			}
			if len(order) > 6 {
				order = order[:6]
			}
			for _, i := range order {
				author := &l.Idents[i]
				pubKeys, err := w.vc.PrivateEncryptionKeyCandidates(author.Addr)
				if err != nil {
					evid.Count("epochs.author-without-recipients")
					continue
				}
				p := &publishedKeys{
					flipPub:  ecies.ImportECDSA(deriveKey("flip-public", author.Addr.Hex(), epoch)),
					flipPriv: ecies.ImportECDSA(deriveKey("flip-private", author.Addr.Hex(), epoch)),
					pubKeys:  pubKeys,
				}
				p.data = mempool.EncryptPrivateKeysPackage(p.flipPub, p.flipPriv, pubKeys)
				key, err1 := types.SignFlipKey(&types.PublicFlipKey{Key: crypto.FromECDSA(p.flipPub.ExportECDSA()), Epoch: epoch}, author.Key)
				pkg, err2 := types.SignFlipKeysPackage(&types.PrivateFlipKeysPackage{Data: p.data, Epoch: epoch}, author.Key)
				if err1 != nil || err2 != nil {
					lt.fatalf("harness: signing: %v %v", err1, err2)
				}
				fresh := func(m *sent) *sent { // a message as it comes off the wire (no cached sender, flags unset)
					return &sent{
						key: &types.PublicFlipKey{Key: m.key.Key, Epoch: m.key.Epoch, Signature: m.key.Signature},
						pkg: &types.PrivateFlipKeysPackage{Data: m.pkg.Data, Epoch: m.pkg.Epoch, Signature: m.pkg.Signature},
					}
				}
				mine := &sent{key: key, pkg: pkg}
				nowSent[author.Addr] = mine
				old := lastSent[author.Addr]
				replay := func(when string) {
					// a peer that is behind gossips what the author sent in the previous epoch
					if old != nil && rapid.IntRange(0, 5).Draw(t, "replay-"+when) == 5 {
						o := fresh(old)
						_ = lt.pool.AddPublicFlipKey(o.key, false)
						_ = lt.pool.AddPrivateKeysPackage(o.pkg, false)
						evid.Count("epochs.replay-of-previous-epoch." + when)
						lt.logf("  replay of %s's messages of the previous epoch (%s)", author.Addr.Hex(), when)
					}
				}
				replay("before")
				addKey := func() {
					if err := lt.pool.AddPublicFlipKey(fresh(mine).key, false); err != nil {
						lt.fatalf("epoch %d: the public flip key of author %s (has flips, signed, current epoch) is refused: %v", epoch, author.Addr.Hex(), err)
					}
				}
				addPkg := func() {
					if err := lt.pool.AddPrivateKeysPackage(fresh(mine).pkg, false); err != nil {
						lt.fatalf("epoch %d: the keys package of author %s (has flips, signed, current epoch) is refused: %v", epoch, author.Addr.Hex(), err)
					}
				}
				arrival := rapid.SampledFrom([]string{"package-first", "key-first", "lookup-between"}).Draw(t, "arrivalOrder")
				switch arrival {
				case "package-first":
					addPkg()
					addKey()
				case "key-first":
					addKey()
					addPkg()
				default:
					addKey()
					if early := lt.pool.GetEncryptedPrivateFlipKey(rapid.IntRange(0, len(pubKeys)).Draw(t, "earlySlot"), author.Addr); len(early) != 0 {
						lt.fatalf("epoch %d: a key of author %s is handed out before its package of this epoch has arrived", epoch, author.Addr.Hex())
					}
					addPkg()
					evid.Count("epochs.order.lookup-before-package")
				}
				lt.logf("  author %s publishes for %d recipients (%s)", author.Addr.Hex(), len(pubKeys), arrival)
				if rapid.IntRange(0, 5).Draw(t, "duplicate") == 5 {
					d := fresh(mine)
					_ = lt.pool.AddPrivateKeysPackage(d.pkg, false)
					_ = lt.pool.AddPublicFlipKey(d.key, false)
					evid.Count("epochs.duplicate-delivery")
				}
				replay("after")
				published[author.Addr] = p
				if old != nil {
					evid.Count("epochs.author-publishes-again")
					if lookedUp[author.Addr] {
						republished++
						evid.Count("epochs.author-publishes-again-after-lookups-and-clear")
					}
				}
			}

			// ---- restart inside the epoch: the pool reloads what it persisted, the lottery is restored ----
			if rapid.IntRange(0, 7).Draw(t, "restartInside") == 7 {
				lt.startPool()
				w2 := run(true)
				checkSame(lt, l, w, w2, "lottery from the committed state vs. restored from the persisted lottery identities after a restart")
				w = w2
				check()
				evid.Count("epochs.restart-inside-epoch")
				lt.logf("  restart inside the epoch")
			}

			// ---- delivery ----
			nextLooked := map[common.Address]bool{}
			for s := uint32(1); s <= lt.shards; s++ {
				m, f := models[common.ShardId(s)], facts[common.ShardId(s)]
				for a := 0; a < f.n; a++ {
					if p := published[m.cands[a].Addr]; p != nil {
						verifyDelivery(lt, "epochs.", l, w, m, f, a, p, outsider)
						nextLooked[m.cands[a].Addr] = true
					}
				}
			}
			evid.Count("epochs.ceremonies")
			if len(published) == 0 {
				evid.Count("epochs.ceremony-without-publication")
			}

			// ---- the epoch ends ----
			for i := range lt.people {
				if len(l.Idents[i].Flips) > 0 {
					lt.appState.State.ClearFlips(lt.people[i].Addr)
				}
				if lt.required[i] {
					lt.appState.State.SetRequiredFlips(lt.people[i].Addr, 0)
					lt.required[i] = false
				}
			}
			lt.appState.State.IncEpoch()
			lt.block()
			if rapid.IntRange(0, 5).Draw(t, "restartBetween") == 5 {
				lt.startPool()
				nextLooked = map[common.Address]bool{}
				evid.Count("epochs.restart-between-epochs")
				lt.logf("epoch %d is over: process restarted", epoch)
			} else {
				lt.pool.Clear()
				evid.Count("epochs.pool-cleared")
				lt.logf("epoch %d is over: pool cleared", epoch)
			}
			lastSent, lookedUp = nowSent, nextLooked
		}
		if republished > 0 {
			evid.NonTrivial(desc)
		}
	})
}

// Fatalf / Helper make lifetime usable where the oracles take a failer: the history of the process is appended.
func (lt *lifetime) Fatalf(format string, args ...interface{}) {
	lt.t.Helper()
	lt.fatalf(format, args...)
}

func (lt *lifetime) Helper() {}

// TestSharedCidFixedLayouts: fixed layouts in which one author's flip carries the cid of another author's flip (the
// shape the generated layouts of drawSharedCids reach): few and many authors, copycat before and after the original.
func TestSharedCidFixedLayouts(t *testing.T) {
	count := 0
	for _, sz := range [][2]int{{2, 2}, {3, 2}, {5, 3}, {12, 7}, {12, 9}, {30, 12}, {30, 30}} {
		n, k := sz[0], sz[1]
		for _, flips := range []int{1, 2, 3} {
			for _, pair := range [][2]int{{0, 1}, {1, 0}, {0, k - 1}, {k - 1, k / 2}} {
				from, to := pair[0], pair[1]
				if from == to {
					continue
				}
				for si, seed := range exhaustiveSeeds {
					spec := shardSpec{n: n, flipsPer: make([]int, n)}
					for i := 0; i < k; i++ {
						spec.flipsPer[i] = flips
					}
					l, per := buildLayout(uint64(100+si), []shardSpec{spec}, seed, false)
					l.Idents = per[0]
					l.Idents[to].Flips[flips-1] = cloneBytes(l.Idents[from].Flips[0])
					l.Shared = 1
					evid.Eval()
					checkLayout(t, l, "fixed-shared.")
					count++
				}
			}
		}
	}
	evid.CountN("fixed-shared.layouts-x-seeds", count)
}

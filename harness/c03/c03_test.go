package c03

import (
	"bytes"
	"fmt"
	"math"
	"math/big"
	"strings"
	"testing"
	"time"

	"github.com/idena-network/idena-go/blockchain"
	"github.com/idena-network/idena-go/blockchain/fee"
	"github.com/idena-network/idena-go/blockchain/types"
	"github.com/idena-network/idena-go/common"
	"github.com/idena-network/idena-go/crypto/vrf/p256"
	dbm "github.com/tendermint/tm-db"
	"pgregory.net/rapid"

	"verifharness/internal/evid"
	"verifharness/internal/sim"
)

func TestMain(m *testing.M) { evid.Main(m) }

func clone(t *rapid.T, b *types.Block) *types.Block {
	data, err := b.ToBytes()
	if err != nil {
		t.Fatalf("encode block: %v", err)
	}
	c := new(types.Block)
	if err := c.FromBytes(data); err != nil {
		t.Fatalf("decode block: %v", err)
	}
	if c.Body == nil {
		c.Body = &types.Body{}
	}
	return c
}

type tamper struct {
	field, op string
	apply     func(b *types.Block) bool // false = not applicable to this block
}

func flipBit(x []byte, pos int) []byte {
	y := append([]byte{}, x...)
	if len(y) == 0 {
		return []byte{1}
	}
	y[pos%len(y)] ^= 1 << uint(pos%8)
	return y
}

// key spaces outside the claim (not named by the property statement)
var excluded = [][]byte{[]byte("activity"), []byte("applytxlog"), []byte("blacktx")}

func image(d dbm.DB) map[string]string {
	res := map[string]string{}
	it, err := d.Iterator(nil, nil)
	if err != nil {
		panic(err)
	}
	defer it.Close()
next:
	for ; it.Valid(); it.Next() {
		for _, p := range excluded {
			if bytes.HasPrefix(it.Key(), p) {
				continue next
			}
		}
		res[string(it.Key())] = string(it.Value())
	}
	return res
}

func sameImage(a, b map[string]string) string {
	for k, v := range a {
		if w, ok := b[k]; !ok {
			return fmt.Sprintf("key %x removed", k)
		} else if w != v {
			return fmt.Sprintf("key %x changed", k)
		}
	}
	for k := range b {
		if _, ok := a[k]; !ok {
			return fmt.Sprintf("key %x added", k)
		}
	}
	return ""
}

func recomputeCommitments(r *sim.Replica, b *types.Block, bloomToo bool) {
	h := b.Header.ProposedHeader
	h.TxHash = types.DeriveSha(types.Transactions(b.Body.Transactions))
	if c, err := r.Ipfs.Cid(b.Body.ToBytes()); err == nil {
		h.IpfsHash = c.Bytes()
		if len(b.Body.Transactions) == 0 {
			h.IpfsHash = nil
		}
	}
	if bloomToo {
		h.TxBloom = blockchain.VerifCalculateTxBloom(b, nil)
	}
}

// A block with any inconsistent derived field is rejected and the rejection
// leaves head, state and stored indexes untouched; the honest original still
// inserts afterwards.
func TestTamperedBlocksRejected(t *testing.T) {
	rapid.Check(t, func(t *rapid.T) {
		opt := sim.Options{MinActors: 3, MaxActors: 9, Replicas: 2, MaxReplicas: 4, Steps: 22, MaxTxPerStep: 6}
		opt.BeforeDeliver = func(h *sim.History, proposer *sim.Replica, blk *types.Block) bool {
			return tamperAndCheck(t, h, proposer, blk)
		}
		sim.RunHistory(t, opt)
	})
}

// tamperAndCheck is the BeforeDeliver hook of the history-based variants: the complete operator set applied to deep
// copies of the honest block blk, each copy offered to a replica that did not build it. It returns true: the honest
// original is delivered afterwards and must still insert everywhere.
func tamperAndCheck(t *rapid.T, h *sim.History, proposer *sim.Replica, blk *types.Block) bool {
	w := h.W
	v := w.Replicas[1] // the validating replica
	if proposer == v {
		v = w.Replicas[0]
	}
	interesting := len(blk.Body.Transactions) > 0 || blk.Header.Flags() != 0
	{
		// (remember who is an eligible proposer on this head: keys whose eligibility lapses later are tried again then)
		s, vc := stateView(v)
		noteEligible(w, s, vc)
	}
	// tamper every interesting block and a sample of the plain ones
	if !interesting && rapid.IntRange(0, 3).Draw(t, "tamperPlain") != 0 {
		return true
	}
	ops := tamperOps(t, h, v, blk)
	return offerTampered(t, h, v, blk, ops, interesting)
}

// tamperOps builds the complete operator set for the honest block blk as seen by the node v (at the parent of blk).
func tamperOps(t *rapid.T, h *sim.History, v *sim.Replica, blk *types.Block) []tamper {
	w := h.W
	prev := v.Head()
	pos := rapid.IntRange(0, 255).Draw(t, "bitPos")
	var other *types.Block
	if len(h.Blocks) > 0 {
		other = h.Blocks[rapid.IntRange(0, len(h.Blocks)-1).Draw(t, "otherBlock")]
	}
	var ops []tamper
	add := func(field, op string, f func(b *types.Block) bool) { ops = append(ops, tamper{field, op, f}) }
	hashField := func(name string, get func(b *types.Block) *common.Hash, fromOther func(o *types.Block) common.Hash) {
		add(name, "bitflip", func(b *types.Block) bool { p := get(b); copy(p[:], flipBit(p[:], pos)); return true })
		add(name, "zero", func(b *types.Block) bool { p := get(b); *p = common.Hash{}; return true })
		add(name, "inc", func(b *types.Block) bool { p := get(b); p[31]++; return true })
		if other != nil && fromOther != nil {
			add(name, "from-other-block", func(b *types.Block) bool { p := get(b); *p = fromOther(other); return true })
		}
	}
	flagOps := func(get func(b *types.Block) *types.BlockFlag) {
		for _, f := range []types.BlockFlag{types.IdentityUpdate, types.FlipLotteryStarted, types.ShortSessionStarted, types.LongSessionStarted, types.AfterLongSessionStarted, types.ValidationFinished, types.Snapshot, types.NewGenesis} {
			f := f
			add("Flags", "toggle-"+sim.FlagNames(f), func(b *types.Block) bool { p := get(b); *p ^= f; return true })
		}
	}
	if blk.IsEmpty() {
		eh := func(b *types.Block) *types.EmptyBlockHeader { return b.Header.EmptyBlockHeader }
		hashField("ParentHash", func(b *types.Block) *common.Hash { return &eh(b).ParentHash }, func(o *types.Block) common.Hash { return o.Hash() })
		hashField("Root", func(b *types.Block) *common.Hash { return &eh(b).Root }, func(o *types.Block) common.Hash { return o.Root() })
		hashField("IdentityRoot", func(b *types.Block) *common.Hash { return &eh(b).IdentityRoot }, func(o *types.Block) common.Hash { return o.IdentityRoot() })
		hashField("BlockSeed", func(b *types.Block) *common.Hash { return (*common.Hash)(&eh(b).BlockSeed) }, func(o *types.Block) common.Hash { return common.Hash(o.Seed()) })
		add("Height", "+1", func(b *types.Block) bool { eh(b).Height++; return true })
		add("Height", "-1", func(b *types.Block) bool { eh(b).Height--; return true })
		add("Time", "+1", func(b *types.Block) bool { eh(b).Time++; return true })
		add("Time", "-1", func(b *types.Block) bool { eh(b).Time--; return true })
		flagOps(func(b *types.Block) *types.BlockFlag { return &eh(b).Flags })
		// a header carrying BOTH parts: the honest empty part plus a proposed part (another block's, re-pointed
		// at this parent, or a made-up one): the hash the validator compares must cover what gets stored
		if other != nil && other.Header.ProposedHeader != nil {
			add("Header", "add-proposed-part-from-other-block", func(b *types.Block) bool {
				cp := *other.Header.ProposedHeader
				cp.Height, cp.ParentHash = eh(b).Height, eh(b).ParentHash
				b.Header.ProposedHeader = &cp
				return true
			})
		}
		add("Header", "add-made-up-proposed-part", func(b *types.Block) bool {
			b.Header.ProposedHeader = &types.ProposedHeader{Height: eh(b).Height, ParentHash: eh(b).ParentHash, Time: eh(b).Time, ProposerPubKey: w.Actors[0].Pub,
				Root: eh(b).Root, IdentityRoot: eh(b).IdentityRoot, Upgrade: uint32(pos)}
			return true
		})
		// an empty block has no body: transactions attached to it are never applied, yet must not be indexed
		add("Body", "append-tx-to-empty-block", func(b *types.Block) bool {
			to := w.Actors[1].Addr
			stx := v.ReadState()
			tx, _ := types.SignTx(&types.Transaction{Type: types.SendTx, Epoch: stx.State.Epoch(), AccountNonce: stx.State.GetNonce(w.Actors[0].Addr) + 1, To: &to, Amount: big.NewInt(1), MaxFee: sim.Dna(100)}, w.Actors[0].Key)
			b.Body.Transactions = append(b.Body.Transactions, tx)
			return true
		})
	} else {
		ph := func(b *types.Block) *types.ProposedHeader { return b.Header.ProposedHeader }
		hashField("ParentHash", func(b *types.Block) *common.Hash { return &ph(b).ParentHash }, func(o *types.Block) common.Hash { return o.Hash() })
		hashField("Root", func(b *types.Block) *common.Hash { return &ph(b).Root }, func(o *types.Block) common.Hash { return o.Root() })
		hashField("IdentityRoot", func(b *types.Block) *common.Hash { return &ph(b).IdentityRoot }, func(o *types.Block) common.Hash { return o.IdentityRoot() })
		hashField("TxHash", func(b *types.Block) *common.Hash { return &ph(b).TxHash }, func(o *types.Block) common.Hash {
			if o.Header.ProposedHeader != nil {
				return o.Header.ProposedHeader.TxHash
			}
			return common.Hash{9}
		})
		hashField("BlockSeed", func(b *types.Block) *common.Hash { return (*common.Hash)(&ph(b).BlockSeed) }, func(o *types.Block) common.Hash { return common.Hash(o.Seed()) })
		add("Height", "+1", func(b *types.Block) bool { ph(b).Height++; return true })
		add("Height", "-1", func(b *types.Block) bool { ph(b).Height--; return true })
		add("Height", "zero", func(b *types.Block) bool { ph(b).Height = 0; return true })
		// timestamp window violations
		add("Time", "prev+9s", func(b *types.Block) bool { ph(b).Time = prev.Time() + 9; return true })
		add("Time", "prev", func(b *types.Block) bool { ph(b).Time = prev.Time(); return true })
		add("Time", "now+121s", func(b *types.Block) bool { ph(b).Time = w.Now().Unix() + 121; return true })
		add("Time", "zero", func(b *types.Block) bool { ph(b).Time = 0; return true })
		// hostile constants: far past / far future, where duration arithmetic saturates or wraps
		add("Time", "prev-1", func(b *types.Block) bool { ph(b).Time = prev.Time() - 1; return true })
		add("Time", "-1", func(b *types.Block) bool { ph(b).Time = -1; return true })
		add("Time", "min-int64", func(b *types.Block) bool { ph(b).Time = math.MinInt64; return true })
		add("Time", "min-int64+prev-1", func(b *types.Block) bool { ph(b).Time = math.MinInt64 + prev.Time() - 1; return prev.Time() > 1 })
		add("Time", "min-int64+drawn", func(b *types.Block) bool { ph(b).Time = math.MinInt64 + int64(pos)*(prev.Time()/256+1); return true })
		add("Time", "max-int64", func(b *types.Block) bool { ph(b).Time = math.MaxInt64; return true })
		add("Time", "max-int64-drawn", func(b *types.Block) bool { ph(b).Time = math.MaxInt64 - int64(pos); return true })
		add("Time", "now+1y", func(b *types.Block) bool { ph(b).Time = w.Now().Unix() + 365*24*3600; return true })
		flagOps(func(b *types.Block) *types.BlockFlag { return &ph(b).Flags })
		// a header carrying BOTH parts: the proposed block plus the empty block header of this round
		add("Header", "add-empty-part", func(b *types.Block) bool {
			e := v.EmptyBlock()
			if e.Header.EmptyBlockHeader == nil || e.Height() != b.Height() {
				return false
			}
			cp := *e.Header.EmptyBlockHeader
			b.Header.EmptyBlockHeader = &cp
			return true
		})
		bytesField := func(name string, get func(b *types.Block) *[]byte, fromOther func(o *types.ProposedHeader) []byte) {
			add(name, "bitflip", func(b *types.Block) bool { p := get(b); *p = flipBit(*p, pos); return true })
			add(name, "nil", func(b *types.Block) bool {
				p := get(b)
				if len(*p) == 0 {
					return false
				}
				*p = nil
				return true
			})
			add(name, "truncate", func(b *types.Block) bool {
				p := get(b)
				if len(*p) < 2 {
					return false
				}
				*p = (*p)[:len(*p)-1]
				return true
			})
			if other != nil && other.Header.ProposedHeader != nil {
				add(name, "from-other-block", func(b *types.Block) bool {
					p := get(b)
					o := fromOther(other.Header.ProposedHeader)
					if bytes.Equal(o, *p) {
						return false
					}
					*p = append([]byte{}, o...)
					return true
				})
			}
		}
		bytesField("TxBloom", func(b *types.Block) *[]byte { return &ph(b).TxBloom }, func(o *types.ProposedHeader) []byte { return o.TxBloom })
		bytesField("IpfsHash", func(b *types.Block) *[]byte { return &ph(b).IpfsHash }, func(o *types.ProposedHeader) []byte { return o.IpfsHash })
		bytesField("TxReceiptsCid", func(b *types.Block) *[]byte { return &ph(b).TxReceiptsCid }, func(o *types.ProposedHeader) []byte { return o.TxReceiptsCid })
		bytesField("SeedProof", func(b *types.Block) *[]byte { return &ph(b).SeedProof }, func(o *types.ProposedHeader) []byte { return o.SeedProof })
		// two fields tampered together: a zero seed with a proof that does not verify (a verifier that ignores the
		// proof error compares the seed with the zero value it gets back)
		for _, pv := range []string{"nil", "empty", "zeros", "truncated", "bitflip", "from-other-block"} {
			pv := pv
			add("BlockSeed+SeedProof", "zero-seed+"+pv+"-proof", func(b *types.Block) bool {
				h := ph(b)
				h.BlockSeed = types.Seed{}
				switch pv {
				case "nil":
					h.SeedProof = nil
				case "empty":
					h.SeedProof = []byte{}
				case "zeros":
					h.SeedProof = make([]byte, len(h.SeedProof))
				case "truncated":
					if len(h.SeedProof) < 2 {
						return false
					}
					h.SeedProof = h.SeedProof[:len(h.SeedProof)-1]
				case "bitflip":
					h.SeedProof = flipBit(h.SeedProof, pos)
				case "from-other-block":
					if other == nil || other.Header.ProposedHeader == nil || bytes.Equal(other.Header.ProposedHeader.SeedProof, h.SeedProof) {
						return false
					}
					h.SeedProof = append([]byte{}, other.Header.ProposedHeader.SeedProof...)
				}
				return true
			})
		}
		// on a state that has no fee rate yet (the first proposed blocks of a chain) a stated rate equal to the
		// network minimum is as wrong as any other non-zero rate
		add("FeePerGas", "network-minimum-on-state-without-rate", func(b *types.Block) bool {
			cur := v.ReadState()
			if f := cur.State.FeePerGas(); f != nil && f.Sign() != 0 {
				return false
			}
			ph(b).FeePerGas = fee.GetFeePerGasForNetwork(cur.ValidatorsCache.NetworkSize())
			return ph(b).FeePerGas.Sign() != 0
		})
		// a stated, non-zero but wrong fee rate (an absent rate is the proposer's free choice)
		add("FeePerGas", "+1", func(b *types.Block) bool {
			f := ph(b).FeePerGas
			if f == nil || f.Sign() == 0 {
				ph(b).FeePerGas = big.NewInt(1 + int64(pos))
				return v.ReadState().State.FeePerGas().Cmp(ph(b).FeePerGas) != 0
			}
			ph(b).FeePerGas = new(big.Int).Add(f, big.NewInt(1))
			return true
		})
		add("FeePerGas", "-1", func(b *types.Block) bool {
			f := ph(b).FeePerGas
			if f == nil || f.Cmp(big.NewInt(2)) < 0 {
				return false
			}
			ph(b).FeePerGas = new(big.Int).Sub(f, big.NewInt(1))
			return true
		})
		// ineligible proposers (judged on the validator set loaded from v's identity state at its head, see stateView),
		// with seed and proof recomputed for their key
		st, vc := stateView(v)
		ever := noteEligible(w, st, vc)
		var lapsed, never []*sim.Actor
		for _, a := range w.Actors {
			a := a
			if eligibleByState(st, vc, a.Addr) {
				continue
			}
			if ever[a.Addr] > 0 {
				lapsed = append(lapsed, a)
			} else {
				never = append(never, a)
			}
			class := "non-identity"
			if vc.IsValidated(a.Addr) {
				class = "offline-identity"
			}
			add("ProposerPubKey", class, func(b *types.Block) bool {
				signer, err := p256.NewVRFSigner(a.Key)
				if err != nil {
					return false
				}
				seedData := append(prev.Seed().Bytes(), common.ToBytes(prev.Height()+1)...)
				hash, proof := signer.Evaluate(seedData)
				ph(b).ProposerPubKey = a.Pub
				ph(b).BlockSeed = hash
				ph(b).SeedProof = proof
				return true
			})
		}
		// ... and with the whole block built by the ineligible key's own node on this head (coinbase-dependent roots
		// and all commitments consistent): every key whose eligibility lapsed earlier in the history, one drawn other
		selfBuilders := lapsed
		if len(never) > 0 {
			selfBuilders = append(append([]*sim.Actor{}, lapsed...), never[rapid.IntRange(0, len(never)-1).Draw(t, "selfBuilder")])
		}
		for _, a := range selfBuilders {
			a := a
			kind := "never-eligible"
			if ever[a.Addr] > 0 {
				kind = "lapsed"
			}
			add("ProposerPubKey", "self-built-by-"+kind+"-"+ineligibleClass(st, vc, a.Addr), func(b *types.Block) bool {
				own, err := selfBuilt(v, a, len(b.Body.Transactions) > 0, pos%2 == 0)
				if err != nil {
					t.Fatalf("own node of %s on a copy of %s does not start: %v", a, v.Name, err)
				}
				b.Header, b.Body = own.Header, own.Body
				return true
			})
		}
		// body edits, with and without recomputing the transaction commitment (and body cid, bloom)
		n := len(blk.Body.Transactions)
		for _, rec := range []string{"", "+txhash", "+txhash+cid+bloom"} {
			rec := rec
			fix := func(b *types.Block) {
				switch rec {
				case "+txhash":
					b.Header.ProposedHeader.TxHash = types.DeriveSha(types.Transactions(b.Body.Transactions))
				case "+txhash+cid+bloom":
					recomputeCommitments(v, b, len(b.Body.Transactions) == 0 || b.Header.ProposedHeader.TxReceiptsCid == nil)
				}
			}
			if n > 0 {
				i := pos % n
				add("Body", "drop-tx"+rec, func(b *types.Block) bool {
					b.Body.Transactions = append(append([]*types.Transaction{}, b.Body.Transactions[:i]...), b.Body.Transactions[i+1:]...)
					fix(b)
					return true
				})
				add("Body", "duplicate-tx"+rec, func(b *types.Block) bool {
					b.Body.Transactions = append(b.Body.Transactions, b.Body.Transactions[i])
					fix(b)
					return true
				})
			}
			// (all of them gone: without the differential that backs the single drop with everything recomputed)
			if n > 1 && rec != "+txhash+cid+bloom" {
				add("Body", "drop-all-txs"+rec, func(b *types.Block) bool {
					b.Body.Transactions = nil
					fix(b)
					return true
				})
			}
			// reordering with ALL commitments recomputed yields a different but consistent block when the two
			// transactions commute (tx order is the proposer's choice), so it is not a negative
			if n > 1 && rec != "+txhash+cid+bloom" {
				i, j := pos%n, (pos/7+1)%n
				if i != j {
					add("Body", "swap-txs"+rec, func(b *types.Block) bool {
						if b.Body.Transactions[i].Hash() == b.Body.Transactions[j].Hash() {
							return false
						}
						b.Body.Transactions[i], b.Body.Transactions[j] = b.Body.Transactions[j], b.Body.Transactions[i]
						fix(b)
						return true
					})
				}
			}
			add("Body", "append-foreign-epoch-tx"+rec, func(b *types.Block) bool {
				to := w.Actors[1].Addr
				sender := w.Actors[0]
				tx, _ := types.SignTx(&types.Transaction{Type: types.SendTx, Epoch: st.State.Epoch() + 1, AccountNonce: 1, To: &to, Amount: big.NewInt(1), MaxFee: sim.Dna(100)}, sender.Key)
				b.Body.Transactions = append(b.Body.Transactions, tx)
				fix(b)
				return true
			})
			add("Body", "append-unaffordable-tx"+rec, func(b *types.Block) bool {
				to := w.Actors[0].Addr
				sender := w.Actors[len(w.Actors)-1]
				bal := st.State.GetBalance(sender.Addr)
				nonce := st.State.GetNonce(sender.Addr) + 1
				if st.State.GetEpoch(sender.Addr) < st.State.Epoch() {
					nonce = 1
				}
				for _, x := range b.Body.Transactions {
					if s, _ := types.Sender(x); s == sender.Addr {
						return false
					}
				}
				tx, _ := types.SignTx(&types.Transaction{Type: types.SendTx, Epoch: st.State.Epoch(), AccountNonce: nonce, To: &to, Amount: new(big.Int).Add(bal, sim.Dna(1)), MaxFee: sim.Dna(100)}, sender.Key)
				b.Body.Transactions = append(b.Body.Transactions, tx)
				fix(b)
				return true
			})
		}
	}

	return ops
}

// offerTampered applies every operator to a deep copy of blk and offers the copy to v (see tamperAndCheck).
func offerTampered(t *rapid.T, h *sim.History, v *sim.Replica, blk *types.Block, ops []tamper, interesting bool) bool {
	calls := drawCallHistory(t, v, blk)
	before := image(v.DB)
	headBefore, rootBefore, idRootBefore := v.Head().Hash(), v.AppState.State.Root(), v.AppState.IdentityState.Root()
	verBefore := v.AppState.State.Version()
	cells := 0
	for i, op := range ops {
		c := clone(t, blk)
		if !op.apply(c) {
			continue
		}
		// (a header with two parts keeps the hash of its proposed part: compare the headers' encodings too; a reordered
		// body has the length of the original: compare the bodies' encodings)
		hb1, _ := c.Header.ToBytes()
		hb2, _ := blk.Header.ToBytes()
		if c.Hash() == blk.Hash() && bytes.Equal(c.Body.ToBytes(), blk.Body.ToBytes()) && bytes.Equal(hb1, hb2) {
			evid.Count("tamper.discarded_identical")
			continue
		}
		evid.Eval()
		cells++
		cell := op.field + "/" + op.op
		evid.Count("cell." + cell)
		// what this node was asked before (the honest original validated, as a node does with the proposal of the
		// round), and through which entry shape the copy arrives (see order_test.go)
		callsBefore := calls.before(t, i)
		shape := calls.shape(i)
		calls.note(c, shape)
		desc := fmt.Sprintf("%s of %s [earlier calls on this node at this head: %s; the copy arrives with %s]", cell, sim.BlockDesc(blk), callsBefore, shape)
		if err := validateVia(v, c, shape); err == nil {
			// A body without one of its transactions and with ALL commitments recomputed is a different but
			// consistent block when that transaction leaves no trace in the resulting state (e.g. a free
			// transaction of an account that the same, validation-finishing block clears as dust): then every
			// derived field does equal the recomputation. Decided by a differential: both blocks are inserted
			// on copies and must give the same ledger.
			if op.op == "drop-tx+txhash+cid+bloom" && sameLedgerAfter(v, blk, c) {
				evid.Count("tamper.dropped_tx_without_effect")
				continue
			}
			t.Fatalf("tampered block accepted by validation: %s\nhistory:\n%s", desc, h.Summary())
		}
		if err := addVia(v, c, shape); err == nil {
			t.Fatalf("tampered block inserted: %s\nhistory:\n%s", desc, h.Summary())
		}
		if v.Head().Hash() != headBefore || v.AppState.State.Root() != rootBefore || v.AppState.IdentityState.Root() != idRootBefore || v.AppState.State.Version() != verBefore {
			t.Fatalf("rejected tampered block changed head/state: %s", desc)
		}
		if d := sameImage(before, image(v.DB)); d != "" {
			t.Fatalf("rejected tampered block left a trace in the database (%s): %s", d, desc)
		}
		if interesting {
			evid.NonTrivial(cell + "|" + sim.FlagNames(blk.Header.Flags()) + "|" + fmt.Sprint(len(blk.Body.Transactions) > 0) + "|" + fmt.Sprint(blk.IsEmpty()))
		}
	}
	if !blk.IsEmpty() && len(blk.Header.ProposedHeader.TxReceiptsCid) > 0 {
		evid.Count("block.with_receipts_tampered")
		for i := 0; i < cells; i++ {
			evid.Count("cells_on_blocks_with_receipts")
		}
	}
	if interesting {
		evid.Count("block.interesting_tampered")
		evid.Sample("tampered-block", fmt.Sprintf("%s: %d tampers", sim.BlockDesc(blk), cells))
	} else {
		evid.Count("block.plain_tampered")
	}
	_ = strings.Join
	_ = time.Second
	return true // the honest original is delivered now and must still insert everywhere
}

// sameLedgerAfter inserts a and b on two copies of v and reports whether both are accepted and lead to the same
// roots and the same ledger contents.
func sameLedgerAfter(v *sim.Replica, a, b *types.Block) bool {
	mk := func() *sim.Replica {
		r := &sim.Replica{W: v.W, Name: "differential", Key: v.Key, Addr: v.Addr, Loc: time.UTC, DB: sim.CopyDB(v.DB), Ipfs: v.Ipfs}
		if err := r.Start(); err != nil {
			panic(err)
		}
		return r
	}
	ra, rb := mk(), mk()
	if ra.AddBlock(a) != nil || rb.AddBlock(b) != nil {
		return false
	}
	if ra.AppState.State.Root() != rb.AppState.State.Root() || ra.AppState.IdentityState.Root() != rb.AppState.IdentityState.Root() {
		return false
	}
	if ra.AppState.State.Root() != a.Root() || rb.AppState.State.Root() != b.Root() {
		return false
	}
	return len(sim.DiffImages(sim.Image(ra.ReadState()), sim.Image(rb.ReadState()), v.W.Name)) == 0
}

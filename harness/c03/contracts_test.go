package c03

import (
	"fmt"
	"os"
	"testing"

	"github.com/idena-network/idena-go/blockchain/types"
	"pgregory.net/rapid"

	"verifharness/internal/evid"
	"verifharness/internal/sim"
)

// contractHeavy is the transaction mix of the histories whose blocks carry receipts: deployments, calls and
// terminations of embedded contracts (successful and failing ones: both leave a receipt) between payments.
var contractHeavy = []types.TxType{types.DeployContractTx, types.DeployContractTx, types.DeployContractTx, types.CallContractTx, types.CallContractTx,
	types.TerminateContractTx, types.SendTx, types.SendTx, types.OnlineStatusTx}

// Blocks with receipts. In the undirected histories one block in sixty carries a contract transaction, so the derived
// fields that only such blocks state (the receipts cid, the receipt part of the bloom filter, the gas-dependent fee
// rate) are perturbed on a handful of blocks per run. Here the histories are steered to contract transactions; the
// operator set and the oracle are the ones of TestTamperedBlocksRejected, applied to every block.
func TestTamperedContractBlocksRejected(t *testing.T) {
	rapid.Check(t, func(t *rapid.T) {
		opt := sim.Options{MinActors: 3, MaxActors: 7, Replicas: 2, MaxReplicas: 4, Steps: 12, MaxTxPerStep: 5, OnlyTypes: contractHeavy, Params: func(p *sim.Params) {
			// mostly no ceremony inside the history (its periods refuse everything but ceremony transactions)
			p.CeremonyIn = int64(rapid.SampledFrom([]int{100000, 100000, 100000, 900}).Draw(t, "ceremonyIn"))
			for i := range p.Balances {
				// (a deployment locks a stake of 3e6 x the fee rate - tens of thousands of coins in a network this small -
				// and pays for gas: accounts that can afford neither never get one admitted)
				if i%4 != 3 && p.Balances[i].Cmp(sim.Dna(100000)) < 0 {
					p.Balances[i] = sim.Dna(int64(rapid.IntRange(100000, 1000000).Draw(t, "contractUserBalance")))
				}
			}
		}}
		withReceipts := 0
		opt.BeforeDeliver = func(h *sim.History, proposer *sim.Replica, blk *types.Block) bool {
			if !blk.IsEmpty() && len(blk.Header.ProposedHeader.TxReceiptsCid) > 0 {
				withReceipts++
			}
			return tamperAndCheck(t, h, proposer, blk)
		}
		h := sim.RunHistory(t, opt)
		if withReceipts > 0 {
			evid.Count("history.with_receipt_blocks")
		}
		for _, o := range h.Offered {
			if o.Info.Type == types.DeployContractTx || o.Info.Type == types.CallContractTx || o.Info.Type == types.TerminateContractTx {
				res := "admitted"
				if o.Err != nil {
					res = "refused"
					if os.Getenv("C03_TRACE") != "" {
						res += ": " + o.Err.Error() + " " + o.Info.String()
						if o.Err.Error() == "insufficient funds" && o.Info.Hostile == "" {
							res += fmt.Sprintf(" amount=%v maxfee=%v tips=%v bal(end)=%v sender=%v", o.Tx.Amount, o.Tx.MaxFee, o.Tx.Tips, h.W.Replicas[0].AppState.State.GetBalance(o.Info.Sender.Addr), o.Info.Sender)
						}
					}
				}
				evid.Count("contract_offer." + sim.TxTypeNames[o.Info.Type] + "." + res)
			}
		}
		for _, b := range h.Blocks {
			for _, tx := range b.Body.Transactions {
				if tx.Type == types.DeployContractTx || tx.Type == types.CallContractTx || tx.Type == types.TerminateContractTx {
					evid.Count("contract_tx_mined." + sim.TxTypeNames[tx.Type])
				}
			}
		}
	})
}

package c03

import (
	"fmt"
	"math/big"
	"testing"
	"time"

	"github.com/idena-network/idena-go/blockchain/attachments"
	"github.com/idena-network/idena-go/blockchain/fee"
	"github.com/idena-network/idena-go/blockchain/types"
	"github.com/idena-network/idena-go/blockchain/validation"
	"github.com/idena-network/idena-go/common"
	"github.com/idena-network/idena-go/core/appstate"
	"github.com/idena-network/idena-go/core/state"
	"github.com/idena-network/idena-go/core/validators"
	"pgregory.net/rapid"

	"verifharness/internal/evid"
	"verifharness/internal/sim"
)

// "The proposer is eligible" is judged on what the validating node derives from ITS OWN STATE at its head: the
// validator set loaded from the identity state (what the node holds after a restart at this head), not the long-lived
// set it maintains incrementally from block to block. On a correct node both agree; the oracle must not borrow its
// verdict from the structure whose upkeep is part of what is being checked.
func stateView(v *sim.Replica) (*appstate.AppState, *validators.ValidatorsCache) {
	s := v.ReadState()
	vc := validators.NewValidatorsCache(v.AppState.IdentityState, s.State.GodAddress())
	vc.Load()
	return s, vc
}

func eligibleByState(s *appstate.AppState, vc *validators.ValidatorsCache, addr common.Address) bool {
	return vc.IsOnlineIdentity(addr) || s.State.GodAddress() == addr && vc.OnlineSize() == 0
}

// ineligibleClass names why an address may not propose on this state.
func ineligibleClass(s *appstate.AppState, vc *validators.ValidatorsCache, addr common.Address) string {
	id := s.State.GetIdentity(addr)
	switch {
	case id.State == state.Killed:
		if vc.IsPool(addr) {
			return "terminated-owner-of-living-pool"
		}
		return "terminated-identity"
	case id.State == state.Undefined:
		if vc.IsPool(addr) {
			return "non-identity-pool-owner"
		}
		return "non-identity"
	case id.Delegatee() != nil:
		return "delegator"
	case vc.IsPool(addr):
		return "offline-pool-owner"
	case vc.IsValidated(addr):
		return "offline-identity"
	}
	return "not-validated-identity"
}

// everEligible remembers, per world, which addresses were eligible proposers at some earlier head of the history: 0 =
// never, 1 = eligible at the head last looked at, 1+n = ineligible for the n-th look in a row.
var everEligible = map[*sim.World]map[common.Address]int{}

func noteEligible(w *sim.World, s *appstate.AppState, vc *validators.ValidatorsCache) map[common.Address]int {
	m, ok := everEligible[w]
	if !ok {
		m = map[common.Address]int{}
		everEligible = map[*sim.World]map[common.Address]int{w: m} // one world at a time
	}
	for _, a := range w.Actors {
		if eligibleByState(s, vc, a.Addr) {
			m[a.Addr] = 1
		}
	}
	return m
}

// selfBuilt is the block the holder of key a builds on v's head with its own node: a node started on a copy of v's
// database with that key, holding v's pending transactions. Unlike an honest block re-signed for another key, every
// derived field of it (roots including the block reward of ITS coinbase, commitments, flags, seed and proof) is
// consistent; the only thing wrong with it is who built it.
//
// The own node either has just been started on that head (its validator set is loaded from the identity state), or -
// sameAge - has been running as long as v: then its long-lived validator set is what a node maintains incrementally
// over these blocks, i.e. a copy of v's.
func selfBuilt(v *sim.Replica, a *sim.Actor, withTxs, sameAge bool) (*types.Block, error) {
	r := &sim.Replica{W: v.W, Name: "own-node-of-" + a.String(), Key: a.Key, Addr: a.Addr, Loc: time.UTC, DB: sim.CopyDB(v.DB), Ipfs: v.Ipfs}
	if err := r.Start(); err != nil {
		return nil, err
	}
	if r.Head().Hash() != v.Head().Hash() {
		return nil, fmt.Errorf("copy starts at another head")
	}
	if sameAge {
		r.AppState.ValidatorsCache = v.AppState.ValidatorsCache.Clone()
	}
	if withTxs {
		for _, tx := range v.Pool.GetPendingTransaction(true, true, 0, false) {
			r.Pool.AddExternalTxs(validation.MempoolTx, sim.WireCopyTx(tx))
		}
	}
	return sim.WireCopy(r.Propose().Block), nil
}

type nodeSnapshot struct {
	head         common.Hash
	root, idRoot common.Hash
	version      int64
	idVersion    uint64
	image        map[string]string
}

func snapshotOf(v *sim.Replica) nodeSnapshot {
	return nodeSnapshot{head: v.Head().Hash(), root: v.AppState.State.Root(), idRoot: v.AppState.IdentityState.Root(), version: v.AppState.State.Version(),
		idVersion: v.AppState.IdentityState.Version(), image: image(v.DB)}
}

func (a nodeSnapshot) diff(b nodeSnapshot) string {
	switch {
	case a.head != b.head:
		return "head moved"
	case a.root != b.root || a.idRoot != b.idRoot:
		return "canonical state roots changed"
	case a.version != b.version || a.idVersion != b.idVersion:
		return fmt.Sprintf("state tree versions changed (%d/%d -> %d/%d)", a.version, a.idVersion, b.version, b.idVersion)
	}
	return sameImage(a.image, b.image)
}

// checkIneligibleProposers offers v one self-built block per ineligible key: every key whose eligibility lapsed
// earlier in this history, and up to `others` drawn keys that never were eligible (plus a key the chain has never seen).
// Both entry points must refuse it and the refusal must leave no trace.
func checkIneligibleProposers(t *rapid.T, h *sim.History, v *sim.Replica, others int) (lapsedClasses []string) {
	w := h.W
	s, vc := stateView(v)
	ever := noteEligible(w, s, vc)
	var lapsed, never []*sim.Actor
	for _, a := range w.Actors {
		switch {
		case eligibleByState(s, vc, a.Addr):
			evid.Count("proposer.eligible_by_state")
		case ever[a.Addr] > 0:
			ever[a.Addr]++
			lapsed = append(lapsed, a)
		default:
			never = append(never, a)
		}
	}
	cands := append([]*sim.Actor{}, lapsed...)
	for k := 0; k < others && len(never) > 0; k++ {
		i := rapid.IntRange(0, len(never)-1).Draw(t, "neverEligible")
		cands = append(cands, never[i])
		never = append(never[:i:i], never[i+1:]...)
	}
	if len(cands) == 0 {
		return nil
	}
	before := snapshotOf(v)
	for _, a := range cands {
		class := ineligibleClass(s, vc, a.Addr)
		kind := "never-eligible"
		if ever[a.Addr] > 0 {
			kind = "lapsed"
			if a.Addr == w.God.Addr && s.State.GodAddress() != a.Addr && !vc.IsValidated(a.Addr) {
				class = "former-god"
			}
		}
		withTxs := rapid.Bool().Draw(t, "selfBuiltWithTxs")
		// the age of the own node (see selfBuilt): drawn; both for a key whose eligibility lapsed within the last 3 blocks
		ages := []bool{rapid.Bool().Draw(t, "ownNodeSameAge")}
		if n := ever[a.Addr]; n > 1 && n <= 4 {
			ages = []bool{true, false}
		}
		for _, sameAge := range ages {
			checkSelfBuilt(t, h, v, s, vc, a, kind, class, withTxs, sameAge, before)
		}
		if kind == "lapsed" {
			lapsedClasses = append(lapsedClasses, class)
		}
	}
	return lapsedClasses
}

func checkSelfBuilt(t *rapid.T, h *sim.History, v *sim.Replica, s *appstate.AppState, vc *validators.ValidatorsCache, a *sim.Actor, kind, class string, withTxs, sameAge bool, before nodeSnapshot) {
	blk, err := selfBuilt(v, a, withTxs, sameAge)
	if err != nil {
		t.Fatalf("own node of %s on a copy of %s does not start: %v", a, v.Name, err)
	}
	evid.Eval()
	cell := "ProposerPubKey/self-built-by-" + kind + "-" + class
	evid.Count("cell." + cell)
	desc := fmt.Sprintf("%s: %s built by %s (own node as old as the validating one: %v) on the head of %s (identity state %d, online by state: %v, online in the node's long-lived validator set: %v)",
		cell, sim.BlockDesc(blk), a, sameAge, v.Name, s.State.GetIdentityState(a.Addr), vc.IsOnlineIdentity(a.Addr), v.AppState.ValidatorsCache.IsOnlineIdentity(a.Addr))
	if err := v.Validate(blk); err == nil {
		t.Fatalf("block of an ineligible proposer accepted by validation: %s\nhistory:\n%s", desc, h.Summary())
	}
	if err := v.AddBlock(blk); err == nil {
		t.Fatalf("block of an ineligible proposer inserted: %s\nhistory:\n%s", desc, h.Summary())
	}
	if d := before.diff(snapshotOf(v)); d != "" {
		t.Fatalf("refused block of an ineligible proposer left a trace (%s): %s\nhistory:\n%s", d, desc, h.Summary())
	}
	if kind == "lapsed" {
		evid.NonTrivial(cell + "|" + fmt.Sprint(len(blk.Body.Transactions) > 0) + "|" + sim.FlagNames(blk.Header.Flags()) + "|" + fmt.Sprint(vc.OnlineSize() > 0) + "|" + fmt.Sprint(sameAge))
	}
}

var identityHeavy = []types.TxType{types.SendTx, types.OnlineStatusTx, types.OnlineStatusTx, types.DelegateTx, types.DelegateTx, types.UndelegateTx, types.KillTx,
	types.KillDelegatorTx, types.ReplenishStakeTx, types.InviteTx, types.ActivationTx, types.KillInviteeTx, types.ChangeGodAddressTx}

// Keys whose eligibility lapsed. The undirected histories reach "an online identity that others delegated to, and that
// then leaves the identity state while its pool lives on" a few times per thousand blocks, because every step needs the
// relationship built by the steps before (status switch block, delegation switch block). Here the sequence of INTENTS
// is generated - go online / offline, delegate (to an online identity, a pool, anybody), undelegate, terminate oneself,
// terminate a delegator, hand the god role over, undirected transactions, let blocks pass - each realised as a real
// signed transaction of a drawn actor for which it is enabled on the current state; a drawn part of the steps follows up
// on a relationship that exists right now (an online pool: its owner terminates itself / goes offline / hands over / its
// delegators leave; an online identity: somebody delegates to it; an offline pool: the owner goes online). After every
// block each key that was an eligible proposer earlier in the history and is not any more by the node's identity state,
// and two drawn keys that never were, presents the block its own node builds on that head.
func TestLapsedProposersRejected(t *testing.T) {
	rapid.Check(t, func(t *rapid.T) {
		opt := sim.Options{MinActors: 5, MaxActors: 9, Replicas: 2, MaxReplicas: 5, Steps: 0, Params: func(p *sim.Params) {
			p.CeremonyIn = 100000
			for i := range p.States {
				if i > 0 && i%4 != 0 {
					p.States[i] = rapid.SampledFrom([]state.IdentityState{state.Verified, state.Verified, state.Human, state.Newbie}).Draw(t, "genesisState")
					p.Stakes[i] = sim.Dna(int64(10 + i))
				}
				if p.Balances[i] == nil || p.Balances[i].Cmp(sim.Dna(200)) < 0 {
					p.Balances[i] = sim.Dna(1000)
				}
			}
		}}
		h := sim.RunHistory(t, opt)
		w := h.W
		r := w.Replicas[0]
		nonces := map[common.Address]uint32{}
		desc := ""
		lapsedChecked := 0
		lapsedSeen := map[string]bool{}

		mkTx := func(a *sim.Actor, typ types.TxType, to *common.Address, payload []byte, amount *big.Int) *types.Transaction {
			s := r.ReadState()
			epoch := s.State.Epoch()
			n := nonces[a.Addr]
			if sn := r.AppState.NonceCache.GetNonce(a.Addr, epoch); sn > n {
				n = sn
			}
			tx := &types.Transaction{Type: typ, Epoch: epoch, AccountNonce: n + 1, To: to, Payload: payload, Amount: amount}
			netSize := s.ValidatorsCache.NetworkSize()
			cur := fee.CalculateFee(netSize, s.State.FeePerGas(), tx)
			if min := fee.CalculateFee(netSize, fee.GetFeePerGasForNetwork(netSize), tx); min.Cmp(cur) > 0 {
				cur = min
			}
			tx.MaxFee = new(big.Int).Mul(cur, big.NewInt(2))
			signed, err := types.SignTx(tx, a.Key)
			if err != nil {
				t.Fatalf("sign: %v", err)
			}
			return signed
		}
		submit := func(what string, tx *types.Transaction, a *sim.Actor) {
			if err := r.Pool.AddExternalTxs(validation.InboundTx, tx); err != nil {
				evid.Count("intent.refused." + what)
				return
			}
			for _, x := range w.Replicas[1:] {
				x.Pool.AddExternalTxs(validation.InboundTx, sim.WireCopyTx(tx))
			}
			nonces[a.Addr] = tx.AccountNonce
			evid.Count("intent.accepted." + what)
			desc += what + ";"
		}
		pick := func(label string, ok func(a *sim.Actor, id state.Identity) bool) *sim.Actor {
			s := r.ReadState()
			var xs []*sim.Actor
			for _, a := range w.Actors {
				if ok(a, s.State.GetIdentity(a.Addr)) {
					xs = append(xs, a)
				}
			}
			if len(xs) == 0 {
				return nil
			}
			return xs[rapid.IntRange(0, len(xs)-1).Draw(t, label)]
		}
		check := func() {
			// the node that judges: mostly the one that has lived through the whole history, else a drawn one
			v := r
			if len(w.Replicas) > 1 && rapid.IntRange(0, 3).Draw(t, "judgeOther") == 0 {
				v = w.Replicas[rapid.IntRange(1, len(w.Replicas)-1).Draw(t, "judge")]
			}
			for _, c := range checkIneligibleProposers(t, h, v, 2) {
				lapsedChecked++
				lapsedSeen[c] = true
			}
		}
		block := func() {
			w.Advance(time.Duration(rapid.IntRange(10, 30).Draw(t, "dt")) * time.Second)
			if min := time.Unix(r.Head().Time(), 0).Add(10 * time.Second); w.Now().Before(min) {
				w.SetNow(min)
			}
			var blk *types.Block
			if p := w.Proposer(t, opt.MaxReplicas); p != nil && rapid.IntRange(0, 11).Draw(t, "emptyRound") != 0 {
				if p != r {
					// (a node started for this proposer a moment ago has an empty pool: it works from the main node's)
					for _, tx := range r.Pool.GetPendingTransaction(true, true, 0, false) {
						p.Pool.AddExternalTxs(validation.MempoolTx, sim.WireCopyTx(tx))
					}
				}
				blk = p.Propose().Block
			} else {
				blk = r.EmptyBlock()
			}
			for _, x := range w.Replicas {
				if err := x.AddBlock(blk); err != nil {
					t.Fatalf("honest block %s refused by %s: %v\n%s", sim.BlockDesc(blk), x.Name, err, h.Summary())
				}
			}
			h.Blocks = append(h.Blocks, blk)
			w.NoteBlock(r, blk)
			if blk.Header.Flags().HasFlag(types.IdentityUpdate) {
				evid.Count("lifecycle.identity_update_block")
			}
			check()
		}
		delegatorsOf := func(s *appstate.AppState, vc *validators.ValidatorsCache, owner common.Address) (ds []*sim.Actor) {
			for _, d := range w.Actors {
				if vc.Delegator(d.Addr) == owner && d.Addr != owner {
					ds = append(ds, d)
				}
			}
			return ds
		}

		check()
		steps := rapid.IntRange(12, 40).Draw(t, "intents")
		for i := 0; i < steps; i++ {
			s, vc := stateView(r)
			intent := rapid.SampledFrom([]string{"online", "online", "online", "offline", "delegate", "delegate", "delegate", "undelegate", "kill", "killDelegator",
				"changeGod", "noise", "blocks", "blocks", "blocks"}).Draw(t, "intent")
			var onlinePools, offlinePools, onlineSolo []*sim.Actor
			for _, a := range w.Actors {
				switch {
				case vc.IsPool(a.Addr) && vc.IsOnlineIdentity(a.Addr):
					onlinePools = append(onlinePools, a)
				case vc.IsPool(a.Addr):
					offlinePools = append(offlinePools, a)
				case vc.IsOnlineIdentity(a.Addr):
					onlineSolo = append(onlineSolo, a)
				}
			}
			var target *sim.Actor
			if rapid.IntRange(0, 2).Draw(t, "followUp") != 2 {
				switch {
				case len(onlinePools) > 0 && rapid.IntRange(0, 2).Draw(t, "lapseNow") != 0:
					target = onlinePools[rapid.IntRange(0, len(onlinePools)-1).Draw(t, "onlinePool")]
					intent = rapid.SampledFrom([]string{"ownerKill", "ownerKill", "ownerKill", "ownerOffline", "exodus", "ownerChangeGod"}).Draw(t, "lapse")
				case len(onlineSolo) > 0 && rapid.Bool().Draw(t, "formPool"):
					target = onlineSolo[rapid.IntRange(0, len(onlineSolo)-1).Draw(t, "onlineSolo")]
					intent = "delegateTo"
				case len(offlinePools) > 0:
					target = offlinePools[rapid.IntRange(0, len(offlinePools)-1).Draw(t, "offlinePool")]
					intent = "ownerOnline"
				case vc.OnlineSize() == 0:
					intent = "online"
				}
			}
			switch intent {
			case "online", "offline":
				on := intent == "online"
				a := pick("switcher", func(a *sim.Actor, id state.Identity) bool {
					return (vc.IsValidated(a.Addr) || vc.IsPool(a.Addr)) && id.Delegatee() == nil && vc.IsOnlineIdentity(a.Addr) != on && !s.State.HasStatusSwitchAddresses(a.Addr)
				})
				if a != nil {
					submit(intent, mkTx(a, types.OnlineStatusTx, nil, attachments.CreateOnlineStatusAttachment(on), nil), a)
				}
			case "ownerOnline", "ownerOffline":
				if !s.State.HasStatusSwitchAddresses(target.Addr) {
					submit(intent, mkTx(target, types.OnlineStatusTx, nil, attachments.CreateOnlineStatusAttachment(intent == "ownerOnline"), nil), target)
				}
			case "delegate", "delegateTo":
				a := pick("delegator", func(a *sim.Actor, id state.Identity) bool {
					return id.State != state.Undefined && id.State != state.Killed && id.Delegatee() == nil && !vc.IsPool(a.Addr) && s.State.DelegationSwitch(a.Addr) == nil && a != target
				})
				b := target
				if b == nil {
					class := rapid.SampledFrom([]string{"online", "pool", "validated", "any"}).Draw(t, "delegateeClass")
					b = pick("delegatee", func(b *sim.Actor, id state.Identity) bool {
						if b == a || id.Delegatee() != nil {
							return false
						}
						switch class {
						case "online":
							return vc.IsOnlineIdentity(b.Addr)
						case "pool":
							return vc.IsPool(b.Addr)
						case "validated":
							return id.State.NewbieOrBetter()
						}
						return true
					})
				}
				if a != nil && b != nil {
					to := b.Addr
					submit(intent, mkTx(a, types.DelegateTx, &to, nil, nil), a)
				}
			case "undelegate":
				a := pick("undelegator", func(a *sim.Actor, id state.Identity) bool {
					return id.Delegatee() != nil || s.State.DelegationSwitch(a.Addr) != nil
				})
				if a != nil {
					submit(intent, mkTx(a, types.UndelegateTx, nil, nil, nil), a)
				}
			case "kill", "ownerKill":
				a := target
				if a == nil {
					a = pick("suicide", func(a *sim.Actor, id state.Identity) bool {
						return id.State == state.Verified || id.State == state.Human || id.State == state.Suspended || id.State == state.Zombie
					})
				}
				if a != nil {
					if id := s.State.GetIdentityState(a.Addr); id == state.Verified || id == state.Human || id == state.Suspended || id == state.Zombie {
						submit(intent, mkTx(a, types.KillTx, nil, nil, nil), a)
					}
				}
			case "exodus":
				// every delegator of one online pool leaves in the same block: terminates itself, undelegates, or is
				// terminated by the pool
				ds := delegatorsOf(s, vc, target.Addr)
				for _, d := range ds {
					switch rapid.SampledFrom([]string{"kill", "killDelegator", "undelegate"}).Draw(t, "leaves") {
					case "kill":
						submit("exodus.kill", mkTx(d, types.KillTx, nil, nil, nil), d)
					case "killDelegator":
						to := d.Addr
						submit("exodus.killDelegator", mkTx(target, types.KillDelegatorTx, &to, nil, nil), target)
					default:
						submit("exodus.undelegate", mkTx(d, types.UndelegateTx, nil, nil, nil), d)
					}
				}
				if rapid.Bool().Draw(t, "ownerLeavesToo") {
					submit("exodus.ownerKill", mkTx(target, types.KillTx, nil, nil, nil), target)
				}
			case "killDelegator":
				a := pick("poolOwner", func(a *sim.Actor, id state.Identity) bool { return vc.IsPool(a.Addr) })
				if a != nil {
					d := pick("victim", func(d *sim.Actor, id state.Identity) bool { x := id.Delegatee(); return x != nil && *x == a.Addr })
					if d != nil {
						to := d.Addr
						submit(intent, mkTx(a, types.KillDelegatorTx, &to, nil, nil), a)
					}
				}
			case "changeGod", "ownerChangeGod":
				if a := w.ByAddr[s.State.GodAddress()]; a != nil && (intent == "ownerChangeGod" || rapid.IntRange(0, 1).Draw(t, "reallyChangeGod") == 0) {
					if b := pick("newGod", func(b *sim.Actor, id state.Identity) bool { return b != a }); b != nil {
						to := b.Addr
						submit("changeGod", mkTx(a, types.ChangeGodAddressTx, &to, nil, nil), a)
					}
				}
			case "noise":
				for k := rapid.IntRange(1, 3).Draw(t, "noiseTxs"); k > 0; k-- {
					tx, _ := w.GenTx(t, r, identityHeavy)
					if r.Pool.AddExternalTxs(validation.InboundTx, tx) == nil {
						for _, x := range w.Replicas[1:] {
							x.Pool.AddExternalTxs(validation.InboundTx, sim.WireCopyTx(tx))
						}
					}
				}
			case "blocks":
				for k := rapid.IntRange(1, 4).Draw(t, "blocks"); k > 0; k-- {
					block()
				}
				continue
			}
			if rapid.IntRange(0, 2).Draw(t, "blockAfterIntent") != 2 {
				block()
			}
		}
		for k := 0; k < 5; k++ {
			block()
		}
		if lapsedChecked > 0 {
			evid.Count("lifecycle.history_with_lapsed_proposer")
			for _, c := range []string{"terminated-owner-of-living-pool", "non-identity-pool-owner", "terminated-identity", "non-identity", "delegator", "offline-pool-owner", "offline-identity",
				"not-validated-identity", "former-god"} {
				if lapsedSeen[c] {
					evid.Count("lifecycle.history_with_lapsed." + c)
				}
			}
			evid.Sample("lapsed-proposers", fmt.Sprintf("blocks=%d lapsed-proposer blocks=%d intents=%s", len(h.Blocks), lapsedChecked, desc))
		}
	})
}

package c03

import (
	"math/big"
	"testing"
	"time"

	"github.com/idena-network/idena-go/blockchain/attachments"
	"github.com/idena-network/idena-go/blockchain/types"
	"github.com/idena-network/idena-go/common"
	"github.com/idena-network/idena-go/core/state"
	"github.com/idena-network/idena-go/vm/embedded"
	"pgregory.net/rapid"

	"verifharness/internal/evid"
	"verifharness/internal/sim"
)

// Two fixed histories (regressions of shapes the generated variants found in seeded changes; the generated variants
// reach them on their own, these only make the two shapes independent of the seed).

type fixedWorld struct {
	t      *rapid.T
	h      *sim.History
	w      *sim.World
	r      *sim.Replica
	nonces map[*sim.Actor]uint32
}

func newFixedWorld(t *rapid.T, actors, replicas int, balance int64) *fixedWorld {
	opt := sim.Options{MinActors: actors, MaxActors: actors, Replicas: replicas, MaxReplicas: replicas, Steps: 0, Params: func(p *sim.Params) {
		*p = sim.Params{KeySeed: 303, NActors: actors, Profile: "v12", SwitchRng: 2, DelegRng: 2, DiscrRng: 3, SnapRng: 1000,
			Start: time.Date(2030, 1, 5, 12, 0, 0, 0, time.UTC).Unix(), CeremonyIn: 100000, Interval: 3600, LotteryDur: 30, ShortDur: 30, LongDur: 30}
		for i := 0; i < actors; i++ {
			p.States = append(p.States, state.Verified)
			p.Balances = append(p.Balances, sim.Dna(balance))
			p.Stakes = append(p.Stakes, sim.Dna(10))
		}
	}}
	h := sim.RunHistory(t, opt)
	return &fixedWorld{t: t, h: h, w: h.W, r: h.W.Replicas[0], nonces: map[*sim.Actor]uint32{}}
}

func (f *fixedWorld) tx(a *sim.Actor, typ types.TxType, to *sim.Actor, payload []byte, amount *big.Int) *types.Transaction {
	f.nonces[a]++
	tx := &types.Transaction{Type: typ, AccountNonce: f.nonces[a], MaxFee: sim.Dna(100), Payload: payload, Amount: amount}
	if to != nil {
		x := to.Addr
		tx.To = &x
	}
	s, err := types.SignTx(tx, a.Key)
	if err != nil {
		f.t.Fatal(err)
	}
	return s
}

// propose builds the next block with the node of the first eligible actor (a node started on a copy of the main
// node's database), holding exactly txs.
func (f *fixedWorld) propose(txs ...*types.Transaction) (*sim.Replica, *types.Block) {
	t, w, r := f.t, f.w, f.r
	w.Advance(20 * time.Second)
	s, vc := stateView(r)
	for _, a := range w.Actors {
		if !eligibleByState(s, vc, a.Addr) {
			continue
		}
		p := &sim.Replica{W: w, Name: "proposer(" + a.String() + ")", Key: a.Key, Addr: a.Addr, Loc: time.UTC, DB: sim.CopyDB(r.DB), Ipfs: r.Ipfs}
		if err := p.Start(); err != nil {
			t.Fatal(err)
		}
		for _, tx := range txs {
			if err := p.Pool.AddInternalTx(tx); err != nil {
				t.Fatalf("scenario: the pool refuses %s: %v", sim.TxTypeNames[tx.Type], err)
			}
		}
		blk := p.Propose().Block
		if len(blk.Body.Transactions) != len(txs) {
			t.Fatalf("scenario: block %d holds %d of %d txs", blk.Height(), len(blk.Body.Transactions), len(txs))
		}
		return p, blk
	}
	t.Fatalf("scenario: nobody is eligible")
	return nil, nil
}

func (f *fixedWorld) deliver(blk *types.Block) {
	for _, x := range f.w.Replicas {
		if err := x.AddBlock(blk); err != nil {
			f.t.Fatalf("honest block %s refused by %s: %v\n%s", sim.BlockDesc(blk), x.Name, err, f.h.Summary())
		}
	}
	f.h.Blocks = append(f.h.Blocks, blk)
	f.w.NoteBlock(f.r, blk)
}

// a1 goes online and a2 delegates to it; once a1 is an online pool it terminates itself: the pool lives on (a2 stays
// delegated), a1 has left the identity state. Its eligibility has lapsed: the block its own node builds next is refused.
func TestFixedTerminatedOwnerOfLivingPool(t *testing.T) {
	rapid.Check(t, func(t *rapid.T) {
		f := newFixedWorld(t, 3, 1, 1000)
		a1, a2 := f.w.Actors[1], f.w.Actors[2]
		step := func(txs ...*types.Transaction) {
			_, blk := f.propose(txs...)
			f.deliver(blk)
			checkIneligibleProposers(t, f.h, f.r, 1)
		}
		checkIneligibleProposers(t, f.h, f.r, 1)
		step(f.tx(a1, types.OnlineStatusTx, nil, attachments.CreateOnlineStatusAttachment(true), nil), f.tx(a2, types.DelegateTx, a1, nil, nil))
		for i := 0; i < 4; i++ {
			step()
		}
		if vc := f.r.AppState.ValidatorsCache; !vc.IsOnlineIdentity(a1.Addr) || !vc.IsPool(a1.Addr) {
			t.Fatalf("scenario: a1 is not an online pool (online=%v pool=%v)", vc.IsOnlineIdentity(a1.Addr), vc.IsPool(a1.Addr))
		}
		step(f.tx(a1, types.KillTx, nil, nil, nil))
		s, vc := stateView(f.r)
		if eligibleByState(s, vc, a1.Addr) || !vc.IsPool(a1.Addr) || s.IdentityState.IsOnline(a1.Addr) {
			t.Fatalf("scenario: after its termination a1 should be the ineligible owner of a living pool")
		}
		evid.Count("fixed.terminated_owner_of_living_pool")
		step()
		step()
	})
}

// A block that deploys an embedded contract states the cid of its receipts: the complete operator set on it.
func TestFixedBlockWithReceipts(t *testing.T) {
	rapid.Check(t, func(t *rapid.T) {
		f := newFixedWorld(t, 2, 2, 1000000)
		a0, a1 := f.w.Actors[0], f.w.Actors[1]
		_, blk := f.propose(f.tx(a0, types.SendTx, a1, nil, sim.Dna(1)))
		f.deliver(blk)
		rate := f.r.ReadState().State.FeePerGas()
		if rate == nil {
			rate = new(big.Int)
		}
		stake := new(big.Int).Add(new(big.Int).Mul(rate, big.NewInt(3000000)), sim.Dna(1))
		att := attachments.CreateDeployContractAttachment(embedded.TimeLockContract, nil, nil, common.ToBytes(uint64(f.w.Now().Unix()+1000)))
		payload, _ := att.ToBytes()
		p, blk := f.propose(f.tx(a0, types.DeployContractTx, nil, payload, stake), f.tx(a1, types.SendTx, a0, nil, sim.Dna(2)))
		if len(blk.Header.ProposedHeader.TxReceiptsCid) == 0 {
			t.Fatalf("scenario: the block with the deployment states no receipts cid")
		}
		evid.Count("fixed.block_with_receipts")
		tamperAndCheck(t, f.h, p, blk)
		f.deliver(blk)
		for _, tx := range blk.Body.Transactions {
			if tx.Type == types.DeployContractTx && f.r.Chain.GetReceipt(tx.Hash()) == nil {
				t.Fatalf("the receipt of the honest original is not readable after its insertion")
			}
		}
	})
}

package c03

import (
	"fmt"
	"math/big"
	"testing"
	"time"

	"github.com/idena-network/idena-go/blockchain/attachments"
	"github.com/idena-network/idena-go/blockchain/types"
	"github.com/idena-network/idena-go/common"
	"github.com/idena-network/idena-go/core/state"
	"github.com/idena-network/idena-go/vm/embedded"
	"pgregory.net/rapid"

	"verifharness/internal/evid"
	"verifharness/internal/sim"
)

// Fixed histories (regressions of shapes the generated variants found in seeded changes; the generated variants
// reach them on their own, these only make the shapes independent of the seed).

type fixedWorld struct {
	t      *rapid.T
	h      *sim.History
	w      *sim.World
	r      *sim.Replica
	nonces map[*sim.Actor]uint32
}

func newFixedWorld(t *rapid.T, actors, replicas int, balance int64) *fixedWorld {
	opt := sim.Options{MinActors: actors, MaxActors: actors, Replicas: replicas, MaxReplicas: replicas, Steps: 0, Params: func(p *sim.Params) {
		*p = sim.Params{KeySeed: 303, NActors: actors, Profile: "v12", SwitchRng: 2, DelegRng: 2, DiscrRng: 3, SnapRng: 1000,
			Start: time.Date(2030, 1, 5, 12, 0, 0, 0, time.UTC).Unix(), CeremonyIn: 100000, Interval: 3600, LotteryDur: 30, ShortDur: 30, LongDur: 30}
		for i := 0; i < actors; i++ {
			p.States = append(p.States, state.Verified)
			p.Balances = append(p.Balances, sim.Dna(balance))
			p.Stakes = append(p.Stakes, sim.Dna(10))
		}
	}}
	h := sim.RunHistory(t, opt)
	return &fixedWorld{t: t, h: h, w: h.W, r: h.W.Replicas[0], nonces: map[*sim.Actor]uint32{}}
}

func (f *fixedWorld) tx(a *sim.Actor, typ types.TxType, to *sim.Actor, payload []byte, amount *big.Int) *types.Transaction {
	f.nonces[a]++
	tx := &types.Transaction{Type: typ, AccountNonce: f.nonces[a], MaxFee: sim.Dna(100), Payload: payload, Amount: amount}
	if to != nil {
		x := to.Addr
		tx.To = &x
	}
	s, err := types.SignTx(tx, a.Key)
	if err != nil {
		f.t.Fatal(err)
	}
	return s
}

// propose builds the next block with the node of the first eligible actor (a node started on a copy of the main
// node's database), holding exactly txs.
func (f *fixedWorld) propose(txs ...*types.Transaction) (*sim.Replica, *types.Block) {
	t, w, r := f.t, f.w, f.r
	w.Advance(20 * time.Second)
	s, vc := stateView(r)
	for _, a := range w.Actors {
		if !eligibleByState(s, vc, a.Addr) {
			continue
		}
		p := &sim.Replica{W: w, Name: "proposer(" + a.String() + ")", Key: a.Key, Addr: a.Addr, Loc: time.UTC, DB: sim.CopyDB(r.DB), Ipfs: r.Ipfs}
		if err := p.Start(); err != nil {
			t.Fatal(err)
		}
		for _, tx := range txs {
			if err := p.Pool.AddInternalTx(tx); err != nil {
				t.Fatalf("scenario: the pool refuses %s: %v", sim.TxTypeNames[tx.Type], err)
			}
		}
		blk := p.Propose().Block
		if len(blk.Body.Transactions) != len(txs) {
			t.Fatalf("scenario: block %d holds %d of %d txs", blk.Height(), len(blk.Body.Transactions), len(txs))
		}
		return p, blk
	}
	t.Fatalf("scenario: nobody is eligible")
	return nil, nil
}

func (f *fixedWorld) deliver(blk *types.Block) {
	for _, x := range f.w.Replicas {
		if err := x.AddBlock(blk); err != nil {
			f.t.Fatalf("honest block %s refused by %s: %v\n%s", sim.BlockDesc(blk), x.Name, err, f.h.Summary())
		}
	}
	f.h.Blocks = append(f.h.Blocks, blk)
	f.w.NoteBlock(f.r, blk)
}

// a1 goes online and a2 delegates to it; once a1 is an online pool it terminates itself: the pool lives on (a2 stays
// delegated), a1 has left the identity state. Its eligibility has lapsed: the block its own node builds next is refused.
func TestFixedTerminatedOwnerOfLivingPool(t *testing.T) {
	rapid.Check(t, func(t *rapid.T) {
		f := newFixedWorld(t, 3, 1, 1000)
		a1, a2 := f.w.Actors[1], f.w.Actors[2]
		step := func(txs ...*types.Transaction) {
			_, blk := f.propose(txs...)
			f.deliver(blk)
			checkIneligibleProposers(t, f.h, f.r, 1)
		}
		checkIneligibleProposers(t, f.h, f.r, 1)
		step(f.tx(a1, types.OnlineStatusTx, nil, attachments.CreateOnlineStatusAttachment(true), nil), f.tx(a2, types.DelegateTx, a1, nil, nil))
		for i := 0; i < 4; i++ {
			step()
		}
		if vc := f.r.AppState.ValidatorsCache; !vc.IsOnlineIdentity(a1.Addr) || !vc.IsPool(a1.Addr) {
			t.Fatalf("scenario: a1 is not an online pool (online=%v pool=%v)", vc.IsOnlineIdentity(a1.Addr), vc.IsPool(a1.Addr))
		}
		step(f.tx(a1, types.KillTx, nil, nil, nil))
		s, vc := stateView(f.r)
		if eligibleByState(s, vc, a1.Addr) || !vc.IsPool(a1.Addr) || s.IdentityState.IsOnline(a1.Addr) {
			t.Fatalf("scenario: after its termination a1 should be the ineligible owner of a living pool")
		}
		evid.Count("fixed.terminated_owner_of_living_pool")
		step()
		step()
	})
}

// A block that deploys an embedded contract states the cid of its receipts: the complete operator set on it.
func TestFixedBlockWithReceipts(t *testing.T) {
	rapid.Check(t, func(t *rapid.T) {
		f := newFixedWorld(t, 2, 2, 1000000)
		a0, a1 := f.w.Actors[0], f.w.Actors[1]
		_, blk := f.propose(f.tx(a0, types.SendTx, a1, nil, sim.Dna(1)))
		f.deliver(blk)
		rate := f.r.ReadState().State.FeePerGas()
		if rate == nil {
			rate = new(big.Int)
		}
		stake := new(big.Int).Add(new(big.Int).Mul(rate, big.NewInt(3000000)), sim.Dna(1))
		att := attachments.CreateDeployContractAttachment(embedded.TimeLockContract, nil, nil, common.ToBytes(uint64(f.w.Now().Unix()+1000)))
		payload, _ := att.ToBytes()
		p, blk := f.propose(f.tx(a0, types.DeployContractTx, nil, payload, stake), f.tx(a1, types.SendTx, a0, nil, sim.Dna(2)))
		if len(blk.Header.ProposedHeader.TxReceiptsCid) == 0 {
			t.Fatalf("scenario: the block with the deployment states no receipts cid")
		}
		evid.Count("fixed.block_with_receipts")
		tamperAndCheck(t, f.h, p, blk)
		f.deliver(blk)
		for _, tx := range blk.Body.Transactions {
			if tx.Type == types.DeployContractTx && f.r.Chain.GetReceipt(tx.Hash()) == nil {
				t.Fatalf("the receipt of the honest original is not readable after its insertion")
			}
		}
	})
}

// The node validates the proposal of the round when it arrives; a block with the same header and an edited body that is
// offered afterwards (nothing in the header recomputed) is refused like any other body edit. The same for the empty
// block of the round with a transaction attached.
func TestFixedBodyTwinAfterProposalValidated(t *testing.T) {
	rapid.Check(t, func(t *rapid.T) {
		f := newFixedWorld(t, 3, 2, 1000)
		a0, a1, a2 := f.w.Actors[0], f.w.Actors[1], f.w.Actors[2]
		_, blk := f.propose(f.tx(a0, types.SendTx, a1, nil, sim.Dna(1)), f.tx(a1, types.SendTx, a2, nil, sim.Dna(2)), f.tx(a2, types.SendTx, a0, nil, sim.Dna(3)))
		v := f.w.Replicas[1]
		before := snapshotOf(v)
		refused := func(what string, c *types.Block) {
			evid.Eval()
			if err := v.Validate(c); err == nil {
				t.Fatalf("%s: accepted by validation", what)
			}
			if err := v.AddBlock(c); err == nil {
				t.Fatalf("%s: inserted", what)
			}
			if d := before.diff(snapshotOf(v)); d != "" {
				t.Fatalf("%s: the refusal left a trace (%s)", what, d)
			}
		}
		for round := 1; round <= 2; round++ {
			if err := v.Validate(blk); err != nil {
				t.Fatalf("honest proposal refused by validation: %v", err)
			}
			txs := blk.Body.Transactions
			for _, e := range []struct {
				name string
				txs  []*types.Transaction
			}{{"drop last", []*types.Transaction{txs[0], txs[1]}}, {"drop all", nil}, {"duplicate", []*types.Transaction{txs[0], txs[1], txs[2], txs[2]}},
				{"reorder", []*types.Transaction{txs[1], txs[0], txs[2]}}, {"drop and reorder", []*types.Transaction{txs[2], txs[0]}}} {
				c := clone(t, blk)
				c.Body.Transactions = e.txs
				refused(fmt.Sprintf("proposal validated %d times, then its header with the body edited (%s)", round, e.name), c)
			}
		}
		e := v.EmptyBlock()
		if err := v.Validate(e); err != nil {
			t.Fatalf("empty block of the round refused by validation: %v", err)
		}
		c := clone(t, e)
		c.Body.Transactions = []*types.Transaction{f.tx(a0, types.SendTx, a2, nil, sim.Dna(1))}
		refused("empty block of the round validated, then the same header with a transaction attached", c)
		evid.Count("fixed.body_twin_after_proposal_validated")
		f.deliver(blk)
	})
}

// A check state of the caller whose identity tree holds one record too many, and the block consistent with it (the honest
// block with the identity root of the drifted tree): it passes the validation on the caller's state and the comparison
// of the state root, and is stopped by the comparison of the identity root - which has to roll back the state tree too.
// The round then ends with the empty block, which must insert.
func TestFixedSecondIdentityRootComparison(t *testing.T) {
	rapid.Check(t, func(t *rapid.T) {
		f := newFixedWorld(t, 3, 2, 1000)
		a0, a1 := f.w.Actors[0], f.w.Actors[1]
		_, blk := f.propose(f.tx(a0, types.SendTx, a1, nil, sim.Dna(1)))
		v := f.w.Replicas[1]
		fl := &follower{t: t, h: f.h, r: v}
		fl.offerDrifted(blk, drift{trees: "identity", idOp: "toggle-validated", addr: common.Address{0x7, 0x7, 0x7}, who: "an address the chain has never seen", shape: shapeForCheck})
		if fl.driftRejected != 1 {
			t.Fatalf("scenario: the drifted block was not stopped by the second comparison of the roots")
		}
		evid.Count("fixed.second_identity_root_comparison")
		e := v.EmptyBlock()
		if err := v.AddBlock(e); err != nil {
			t.Fatalf("the empty block of the round is refused after the rejection: %v", err)
		}
		if v.AppState.State.Root() != e.Root() || v.AppState.IdentityState.Root() != e.IdentityRoot() {
			t.Fatalf("canonical roots are not the inserted empty block's")
		}
	})
}

package c03

import (
	"fmt"

	"github.com/idena-network/idena-go/blockchain/types"
	"github.com/idena-network/idena-go/core/appstate"
	"github.com/idena-network/idena-go/stats/collector"
	"pgregory.net/rapid"

	"verifharness/internal/evid"
	"verifharness/internal/sim"
)

// Entry shapes and call order.
//
// A node is not asked about a tampered block out of the blue. It validates the proposal of the round when it arrives
// (pengings.Proposals -> ValidateBlock(block, nil)), possibly more than once, possibly the empty block of the round as
// well, and is asked to insert a block when the round ends (AddBlock(block, nil)); a syncing node inserts through a
// check state of its own (protocol/full.go: AddBlock(block, checkState)). The verdict on a block must not depend on what
// the node was asked before at the same head, nor on the entry it arrives through. Both are drawn per tampered block:
// the honest original validated before the tampered copies (never / once / again before every k-th copy; with a nil
// check state, a check state of the caller, or alternating), and the entry shape of each copy (nil check state, a fresh
// check state of the caller taken with ForCheck or with ForCheckWithOverwrite).

const (
	shapeNil       = "a nil check state"
	shapeForCheck  = "a fresh check state of the caller (ForCheck)"
	shapeOverwrite = "a fresh check state of the caller (ForCheckWithOverwrite)"
)

// freshCheckState is a check state as a caller of ValidateBlock / AddBlock takes it at the node's head.
func freshCheckState(v *sim.Replica, shape string) (*appstate.AppState, error) {
	if shape == shapeOverwrite {
		return v.AppState.ForCheckWithOverwrite(v.Head().Height())
	}
	return v.AppState.ForCheck(v.Head().Height())
}

func validateVia(v *sim.Replica, b *types.Block, shape string) error {
	if shape == shapeNil {
		return v.Validate(b)
	}
	cs, err := freshCheckState(v, shape)
	if err != nil {
		panic(fmt.Sprintf("%s at the head of %s: %v", shape, v.Name, err))
	}
	_, err = v.Chain.ValidateBlock(sim.WireCopy(b), cs, collector.NewStatsCollector())
	return err
}

func addVia(v *sim.Replica, b *types.Block, shape string) error {
	if shape == shapeNil {
		return v.AddBlock(b)
	}
	cs, err := freshCheckState(v, shape)
	if err != nil {
		panic(fmt.Sprintf("%s at the head of %s: %v", shape, v.Name, err))
	}
	return v.Chain.AddBlock(sim.WireCopy(b), cs, collector.NewStatsCollector())
}

type callHistory struct {
	v         *sim.Replica
	blk       *types.Block
	other     *types.Block // another valid block of this round (the empty block when blk is a proposal), or nil
	mode      string
	k, off    int
	how       string
	otherToo  bool
	shapeOff  int
	honest    int // validations of the honest original so far
	honestNil int // ... of them with a nil check state
}

var entryShapes = []string{shapeNil, shapeNil, shapeNil, shapeNil, shapeNil, shapeNil, shapeNil, shapeNil, shapeForCheck, shapeForCheck, shapeOverwrite, shapeOverwrite}

func drawCallHistory(t *rapid.T, v *sim.Replica, blk *types.Block) *callHistory {
	c := &callHistory{v: v, blk: blk}
	c.mode = rapid.SampledFrom([]string{"never", "once", "every-kth", "every-kth"}).Draw(t, "honestValidatedBefore")
	c.k = rapid.IntRange(1, 6).Draw(t, "honestValidatedEvery")
	c.off = rapid.IntRange(0, 5).Draw(t, "honestValidatedFirst") % c.k
	c.how = rapid.SampledFrom([]string{shapeNil, shapeNil, shapeForCheck, "alternating"}).Draw(t, "honestValidatedWith")
	c.otherToo = rapid.IntRange(0, 2).Draw(t, "otherBlockOfTheRoundValidatedToo") == 0
	c.shapeOff = rapid.IntRange(0, len(entryShapes)-1).Draw(t, "entryShape")
	if c.otherToo && !blk.IsEmpty() {
		if e := v.EmptyBlock(); e.Height() == blk.Height() {
			c.other = e
		}
	}
	evid.Count("order.honest_validated_before_tampered." + c.mode)
	return c
}

// shape is the entry shape of the i-th tampered copy.
func (c *callHistory) shape(i int) string { return entryShapes[(c.shapeOff+i)%len(entryShapes)] }

// before makes the calls that precede the i-th tampered copy and describes all calls made so far.
func (c *callHistory) before(t *rapid.T, i int) string {
	due := false
	switch c.mode {
	case "once":
		due = c.honest == 0
	case "every-kth":
		due = i%c.k == c.off
	}
	if due {
		how := c.how
		if how == "alternating" {
			how = []string{shapeNil, shapeForCheck, shapeOverwrite}[c.honest%3]
		}
		if c.other != nil && c.honest%2 == 1 {
			if err := validateVia(c.v, c.other, how); err != nil {
				t.Fatalf("the empty block of the round is refused by validation on %s (%d validations of the proposal and tampered copies of it before): %v", c.v.Name, c.honest, err)
			}
			evid.Count("order.other_valid_block_validated")
		}
		if err := validateVia(c.v, c.blk, how); err != nil {
			t.Fatalf("honest original %s refused by validation with %s on %s after %d earlier validations of it and %d tampered copies: %v", sim.BlockDesc(c.blk), how, c.v.Name, c.honest, i, err)
		}
		c.honest++
		if how == shapeNil {
			c.honestNil++
		}
		evid.Count("order.honest_validation." + map[string]string{shapeNil: "nil", shapeForCheck: "for-check", shapeOverwrite: "for-check-with-overwrite"}[how])
	}
	if c.honest == 0 {
		return "none"
	}
	return fmt.Sprintf("honest original validated %d times (%d with a nil check state), the empty block of the round validated too: %v", c.honest, c.honestNil, c.other != nil)
}

// note counts the copies that differ from a block this node has validated before in the body only.
func (c *callHistory) note(cp *types.Block, shape string) {
	if cp.Header.Hash() != c.blk.Header.Hash() {
		return
	}
	switch {
	case c.honestNil > 0 && shape == shapeNil:
		evid.Count("order.same_header_twin_after_honest_validation.nil_then_nil")
	case c.honest > 0:
		evid.Count("order.same_header_twin_after_honest_validation.other_shapes")
	default:
		evid.Count("order.same_header_twin_without_earlier_validation")
	}
}

package c03

import (
	"fmt"
	"strings"
	"testing"
	"time"

	"github.com/idena-network/idena-go/blockchain/types"
	"github.com/idena-network/idena-go/common"
	"github.com/idena-network/idena-go/core/appstate"
	"github.com/idena-network/idena-go/core/validators"
	"github.com/idena-network/idena-go/stats/collector"
	"pgregory.net/rapid"

	"verifharness/internal/evid"
	"verifharness/internal/sim"
)

// Check states of the caller.
//
// AddBlock(block, checkState) and ValidateBlock(block, checkState) are called with a nil check state by the consensus
// engine and the proposal handling, and with a check state of the caller by the block downloader (protocol/full.go: one
// check state taken with ForCheckWithOverwrite per batch, handed to AddBlock for every block of the batch and advanced
// with FinalizePrecommit after each insertion). The histories above only ever use the nil shape on long-lived nodes.
// Here a further node FOLLOWS a generated history the way the downloader does: every honest block is inserted through
// a long-lived check state (batches of drawn length, the first block of a batch meets a fresh one, the others a reused
// one). Before each honest block the node is offered
//   - drawn tampered copies (operators of the complete set) through the very check state the honest block will meet;
//   - the block that is consistent with a DRIFTED check state: a check state of the caller whose trees are not a
//     faithful copy of the node's canonical ones (one drawn write committed to the identity tree, the state tree, or
//     both), with the honest block's two roots replaced by the roots that drifted state computes for it. Such a block
//     passes the validation on the caller's state by construction; its roots are not what the node recomputes from
//     ITS OWN state, so the insertion must stop it (the second root comparison of AddBlock exists for this) and roll
//     everything back;
//   - on a copy of the node: a drawn sequence of validations of the two valid blocks of the round (the proposal and
//     the empty block; nil and caller's check states) followed by the insertion of a drawn one of them.
// Every refusal must leave head, both canonical roots, both tree versions and the database image as they were; the
// honest original is inserted afterwards (through the check state) and the node's roots must be the block's.

type follower struct {
	t     *rapid.T
	h     *sim.History
	r     *sim.Replica
	cs    *appstate.AppState // the long-lived check state of the current batch; nil = the next block starts a batch
	left  int                // blocks left in the batch
	used  int                // honest blocks this check state has seen
	shape string

	blocks, reusedInserts, driftRejected int
}

func newFollower(t *rapid.T, h *sim.History) *follower {
	src := h.W.Replicas[len(h.W.Replicas)-1]
	r := &sim.Replica{W: h.W, Name: "follower", Key: src.Key, Addr: src.Addr, Loc: time.UTC, DB: sim.CopyDB(src.DB), Ipfs: src.Ipfs}
	if err := r.Start(); err != nil {
		t.Fatalf("follower does not start on a copy of %s: %v", src.Name, err)
	}
	if r.Head().Hash() != src.Head().Hash() {
		t.Fatalf("follower starts at another head than %s", src.Name)
	}
	return &follower{t: t, h: h, r: r}
}

func (f *follower) checkState() *appstate.AppState {
	if f.cs == nil {
		f.shape = rapid.SampledFrom([]string{shapeOverwrite, shapeOverwrite, shapeForCheck}).Draw(f.t, "batchCheckState")
		cs, err := freshCheckState(f.r, f.shape)
		if err != nil {
			f.t.Fatalf("%s at the head of the follower: %v", f.shape, err)
		}
		f.cs, f.left, f.used = cs, rapid.IntRange(1, 6).Draw(f.t, "batchLength"), 0
	}
	return f.cs
}

func (f *follower) describeCheckState() string {
	return fmt.Sprintf("the check state of the batch (%s, %d honest blocks inserted through it before)", f.shape, f.used)
}

func (f *follower) mustBeUnchanged(before nodeSnapshot, what string) {
	if d := before.diff(snapshotOf(f.r)); d != "" {
		f.t.Fatalf("refused block left a trace on the node (%s): %s\nhistory:\n%s", d, what, f.h.Summary())
	}
}

// tampered: drawn operators of the complete set, each copy inserted through the batch's check state. (The downloader
// throws a check state away after a failed insertion, so each copy after the first meets a fresh one.)
func (f *follower) tampered(blk *types.Block) {
	t := f.t
	// (a refused copy ends the batch: two blocks in three are left alone so that check states do get reused)
	if rapid.IntRange(0, 2).Draw(t, "tamperedThroughCheckState") != 0 {
		return
	}
	n := rapid.IntRange(1, 4).Draw(t, "tamperedCopies")
	ops := tamperOps(t, f.h, f.r, blk)
	before := snapshotOf(f.r)
	for k := 0; k < n; k++ {
		op := ops[rapid.IntRange(0, len(ops)-1).Draw(t, "op")]
		if op.op == "drop-tx+txhash+cid+bloom" {
			continue // may be a consistent block (see offerTampered), judged there
		}
		c := clone(t, blk)
		if !op.apply(c) {
			continue
		}
		hb1, _ := c.Header.ToBytes()
		hb2, _ := blk.Header.ToBytes()
		if string(hb1) == string(hb2) && string(c.Body.ToBytes()) == string(blk.Body.ToBytes()) {
			continue
		}
		// a node that follows the chain may also have heard the proposal of the round
		heard := rapid.IntRange(0, 3).Draw(t, "heardTheProposal") == 0
		if heard {
			if err := f.r.Validate(blk); err != nil {
				t.Fatalf("honest original %s refused by validation on the follower: %v", sim.BlockDesc(blk), err)
			}
		}
		cs := f.checkState()
		kind := "reused"
		if f.used == 0 {
			kind = "fresh"
		}
		evid.Eval()
		evid.Count("checkstate.tampered_through_" + kind + "_check_state")
		what := fmt.Sprintf("%s/%s of %s inserted through %s (honest original validated before: %v)", op.field, op.op, sim.BlockDesc(blk), f.describeCheckState(), heard)
		if err := f.r.Chain.AddBlock(sim.WireCopy(c), cs, collector.NewStatsCollector()); err == nil {
			t.Fatalf("tampered block inserted: %s\nhistory:\n%s", what, f.h.Summary())
		}
		f.cs = nil
		f.mustBeUnchanged(before, what)
		evid.NonTrivial("through-check-state|" + kind + "|" + op.field + "/" + op.op + "|" + fmt.Sprint(blk.IsEmpty()) + "|" + fmt.Sprint(len(blk.Body.Transactions) > 0))
	}
}

type drift struct {
	trees    string // "identity", "state", "both"
	idOp     string
	stOp     string
	addr     common.Address
	addr2    common.Address
	who      string
	reloadVC bool
	shape    string
}

func (f *follower) drawDrift() drift {
	t, w := f.t, f.h.W
	d := drift{}
	d.trees = rapid.SampledFrom([]string{"identity", "identity", "state", "both"}).Draw(t, "driftedTrees")
	d.idOp = rapid.SampledFrom([]string{"toggle-validated", "toggle-online", "toggle-discriminated", "set-delegatee", "remove"}).Draw(t, "identityTreeWrite")
	d.stOp = rapid.SampledFrom([]string{"add-balance", "add-stake", "bump-nonce"}).Draw(t, "stateTreeWrite")
	if i := rapid.IntRange(-1, len(w.Actors)-1).Draw(t, "driftAddr"); i >= 0 {
		d.addr, d.who = w.Actors[i].Addr, w.Actors[i].String()
	} else {
		d.addr, d.who = common.Address{0x7, 0x7, byte(rapid.IntRange(0, 255).Draw(t, "stranger"))}, "an address the chain has never seen"
	}
	d.addr2 = w.Actors[rapid.IntRange(0, len(w.Actors)-1).Draw(t, "driftAddr2")].Addr
	d.reloadVC = rapid.IntRange(0, 3).Draw(t, "validatorSetLoadedFromDriftedTree") == 0
	d.shape = rapid.SampledFrom([]string{shapeForCheck, shapeOverwrite}).Draw(t, "driftedCheckState")
	return d
}

func (d drift) String() string {
	s := d.shape + " with "
	switch d.trees {
	case "identity":
		s += "the identity tree drifted (" + d.idOp + ")"
	case "state":
		s += "the state tree drifted (" + d.stOp + ")"
	default:
		s += "both trees drifted (" + d.idOp + ", " + d.stOp + ")"
	}
	s += " at " + d.who
	if d.reloadVC {
		s += ", validator set loaded from the drifted tree"
	}
	return s
}

// build makes the drifted check state; called twice with the same drift it gives two equal ones.
func (d drift) build(r *sim.Replica) (*appstate.AppState, error) {
	cs, err := freshCheckState(r, d.shape)
	if err != nil {
		return nil, err
	}
	if d.trees != "state" {
		is := cs.IdentityState
		switch d.idOp {
		case "toggle-validated":
			is.SetValidated(d.addr, !is.IsValidated(d.addr))
		case "toggle-online":
			is.SetOnline(d.addr, !is.IsOnline(d.addr))
		case "toggle-discriminated":
			is.SetDiscriminated(d.addr, !cs.ValidatorsCache.IsDiscriminated(d.addr))
		case "set-delegatee":
			is.SetDelegatee(d.addr, d.addr2)
		case "remove":
			if is.IsValidated(d.addr) || is.IsOnline(d.addr) || is.Delegatee(d.addr) != nil {
				is.Remove(d.addr)
			} else {
				is.SetValidated(d.addr, true) // (nothing to remove: a record too many instead of one too few)
			}
		}
		is.Precommit(true)
	}
	if d.trees != "identity" {
		st := cs.State
		switch d.stOp {
		case "add-balance":
			st.AddBalance(d.addr, sim.Dna(1))
		case "add-stake":
			st.AddStake(d.addr, sim.Dna(1))
		case "bump-nonce":
			st.SetNonce(d.addr, st.GetNonce(d.addr)+1)
		}
		st.Precommit(true)
	}
	if d.reloadVC {
		cs.ValidatorsCache = validators.NewValidatorsCache(cs.IdentityState, cs.State.GodAddress())
		cs.ValidatorsCache.Load()
	}
	return cs, nil
}

// drifted: the block that is consistent with a drifted check state of the caller.
func (f *follower) drifted(blk *types.Block) {
	t := f.t
	if rapid.IntRange(0, 2).Draw(t, "driftExperiment") == 2 {
		return
	}
	f.offerDrifted(blk, f.drawDrift())
}

func (f *follower) offerDrifted(blk *types.Block, d drift) {
	t := f.t
	before := snapshotOf(f.r)
	// what the drifted state computes for the honest block (the validation stops at the comparison of the roots and
	// leaves the computed trees in the check state)
	trial, err := d.build(f.r)
	if err != nil {
		t.Fatalf("%s at the head of the follower: %v", d.shape, err)
	}
	_, err = f.r.Chain.ValidateBlock(sim.WireCopy(blk), trial, collector.NewStatsCollector())
	if err == nil {
		evid.Count("checkstate.drift.without_effect_on_roots")
		f.mustBeUnchanged(before, "validation of the honest original on "+d.String())
		return
	}
	if msg := err.Error(); !strings.Contains(msg, "invalid block roots") && !strings.Contains(msg, "empty blocks' hashes mismatch") {
		// the honest block is invalid on the drifted state for another reason than its roots (its proposer is not
		// eligible there, a transaction does not apply, ...): no block is consistent with that state
		evid.Count("checkstate.drift.block_invalid_on_drifted_state")
		return
	}
	twin := clone(t, blk)
	if twin.IsEmpty() {
		twin.Header.EmptyBlockHeader.Root, twin.Header.EmptyBlockHeader.IdentityRoot = trial.State.Root(), trial.IdentityState.Root()
	} else {
		twin.Header.ProposedHeader.Root, twin.Header.ProposedHeader.IdentityRoot = trial.State.Root(), trial.IdentityState.Root()
	}
	if twin.Hash() == blk.Hash() {
		evid.Count("checkstate.drift.block_invalid_on_drifted_state")
		return
	}
	// Is the block a negative? AddBlock applies the WRITES the validation computed on the caller's state, whole records,
	// to the node's own trees. Where the drifted record is one the block itself rewrites, the block's writes carry the
	// drift along and the node ends at the block's roots: the comparison of the roots has nothing to see, and the
	// statement (which speaks of the node's own state) does not say what such a caller should get. Decided without
	// AddBlock: the writes computed on an equal drifted state, applied to a faithful copy of the node's state.
	probe, err := d.build(f.r)
	if err != nil {
		t.Fatalf("%s at the head of the follower: %v", d.shape, err)
	}
	stDiff, idDiff, _, err := f.r.Chain.VerifValidateBlock(probe, sim.WireCopy(twin), f.r.Head())
	if err != nil {
		evid.Count("checkstate.drift.no_block_consistent_with_drifted_state")
		return
	}
	faithful, err := f.r.AppState.ForCheck(f.r.Head().Height())
	if err != nil {
		t.Fatalf("ForCheck at the head of the follower: %v", err)
	}
	faithful.State.AddDiff(stDiff)
	faithful.IdentityState.AddDiff(twin.Height(), idDiff)
	if faithful.State.Root() == twin.Root() && faithful.IdentityState.Root() == twin.IdentityRoot() {
		evid.Count("checkstate.drift.carried_by_the_blocks_own_writes")
		return
	}
	cs, err := d.build(f.r)
	if err != nil {
		t.Fatalf("%s at the head of the follower: %v", d.shape, err)
	}
	evid.Eval()
	what := fmt.Sprintf("%s with the roots computed by the caller's check state (state root %v, identity root %v), inserted through %s", sim.BlockDesc(blk),
		map[bool]string{true: "as in the honest block", false: "differs"}[twin.Root() == blk.Root()], map[bool]string{true: "as in the honest block", false: "differs"}[twin.IdentityRoot() == blk.IdentityRoot()], d)
	err = f.r.Chain.AddBlock(sim.WireCopy(twin), cs, collector.NewStatsCollector())
	if err == nil {
		t.Fatalf("block whose roots are not the ones the node recomputes from its own state inserted: %s\nhistory:\n%s", what, f.h.Summary())
	}
	stopped := "validation"
	switch {
	case strings.Contains(err.Error(), "invalid block identity root"):
		stopped = "second_check_identity_root"
	case strings.Contains(err.Error(), "invalid block root") && !strings.Contains(err.Error(), "roots"):
		stopped = "second_check_state_root"
	}
	evid.Count("checkstate.drift." + d.trees + ".stopped_by_" + stopped)
	f.mustBeUnchanged(before, what+" (refused: "+err.Error()+")")
	if stopped != "validation" {
		f.driftRejected++
		evid.NonTrivial("drift|" + d.trees + "|" + d.idOp + "|" + d.stOp + "|" + stopped + "|" + fmt.Sprint(blk.IsEmpty()) + "|" + fmt.Sprint(len(blk.Body.Transactions) > 0) + "|" + sim.FlagNames(blk.Header.Flags()))
	}
}

// otherOrders: on a copy of the node, a drawn sequence of validations of the valid blocks of this round followed by
// the insertion of a drawn one of them. Validating a block must not change what happens to another one (or to the same
// one) afterwards.
func (f *follower) otherOrders(blk *types.Block) {
	t := f.t
	if rapid.IntRange(0, 3).Draw(t, "orderExperiment") != 0 {
		return
	}
	c := &sim.Replica{W: f.h.W, Name: "copy-of-follower", Key: f.r.Key, Addr: f.r.Addr, Loc: time.UTC, DB: sim.CopyDB(f.r.DB), Ipfs: f.r.Ipfs}
	if err := c.Start(); err != nil {
		t.Fatalf("copy of the follower does not start: %v", err)
	}
	valid := []*types.Block{blk}
	names := []string{"the block of the history"}
	if !blk.IsEmpty() {
		valid = append(valid, c.EmptyBlock())
		names = append(names, "the empty block of the round")
	}
	shapes := []string{shapeNil, shapeNil, shapeForCheck, shapeOverwrite}
	calls := ""
	for k := rapid.IntRange(1, 4).Draw(t, "validations"); k > 0; k-- {
		i := rapid.IntRange(0, len(valid)-1).Draw(t, "validated")
		shape := rapid.SampledFrom(shapes).Draw(t, "validatedWith")
		if err := validateVia(c, valid[i], shape); err != nil {
			t.Fatalf("%s (%s) refused by validation with %s after [%s]: %v\nhistory:\n%s", names[i], sim.BlockDesc(valid[i]), shape, calls, err, f.h.Summary())
		}
		calls += "validate " + names[i] + " with " + shape + "; "
	}
	i := rapid.IntRange(0, len(valid)-1).Draw(t, "inserted")
	shape := rapid.SampledFrom(shapes).Draw(t, "insertedWith")
	evid.Eval()
	evid.Count("order.insertion_after_validations")
	if err := addVia(c, valid[i], shape); err != nil {
		t.Fatalf("%s (%s) refused by insertion with %s after [%s]: %v\nhistory:\n%s", names[i], sim.BlockDesc(valid[i]), shape, calls, err, f.h.Summary())
	}
	in := valid[i]
	if c.Head().Hash() != in.Hash() || c.AppState.State.Root() != in.Root() || c.AppState.IdentityState.Root() != in.IdentityRoot() {
		t.Fatalf("after [%s insert %s with %s] head / canonical roots are not the inserted block's\nhistory:\n%s", calls, names[i], shape, f.h.Summary())
	}
	// the stored indexes are the inserted block's: its transactions, none of the other block's
	for j, b := range valid {
		for _, tx := range b.Body.Transactions {
			if idx := c.Chain.GetTxIndex(tx.Hash()); (idx != nil) != (j == i) {
				t.Fatalf("after [%s insert %s with %s] the transaction index of a transaction of %s: present=%v\nhistory:\n%s", calls, names[i], shape, names[j], idx != nil, f.h.Summary())
			}
		}
	}
	if stored := c.Chain.GetBlock(in.Hash()); stored == nil || stored.Body == nil && len(in.Body.Transactions) > 0 || stored.Body != nil && string(stored.Body.ToBytes()) != string(in.Body.ToBytes()) {
		t.Fatalf("after [%s insert %s with %s] the stored block does not read back with the body it was inserted with\nhistory:\n%s", calls, names[i], shape, f.h.Summary())
	}
	if len(valid) > 1 && strings.Contains(calls, names[1-i]) {
		evid.Count("order.other_block_validated_before_insertion")
		evid.NonTrivial("order|validated-other-then-inserted|" + fmt.Sprint(i) + "|" + shape + "|" + fmt.Sprint(len(blk.Body.Transactions) > 0))
	}
}

// honest: the honest block is inserted through the check state of the batch, which is advanced as the downloader does.
func (f *follower) honest(blk *types.Block) {
	t := f.t
	cs := f.checkState()
	kind := "reused"
	if f.used == 0 {
		kind = "fresh"
	}
	if err := f.r.Chain.AddBlock(sim.WireCopy(blk), cs, collector.NewStatsCollector()); err != nil {
		t.Fatalf("honest original %s refused by the follower, inserted through %s: %v\nhistory:\n%s", sim.BlockDesc(blk), f.describeCheckState(), err, f.h.Summary())
	}
	if f.r.Head().Hash() != blk.Hash() || f.r.AppState.State.Root() != blk.Root() || f.r.AppState.IdentityState.Root() != blk.IdentityRoot() {
		t.Fatalf("after the insertion of %s through %s head / canonical roots are not the block's\nhistory:\n%s", sim.BlockDesc(blk), f.describeCheckState(), f.h.Summary())
	}
	if err := cs.FinalizePrecommit(blk); err != nil {
		t.Fatalf("check state of the batch cannot be advanced over %s: %v", sim.BlockDesc(blk), err)
	}
	evid.Count("checkstate.honest_inserted_through_" + kind + "_check_state")
	if kind == "reused" {
		f.reusedInserts++
	}
	f.used++
	f.left--
	if f.left <= 0 {
		f.cs = nil
	}
	f.blocks++
}

func TestCallerCheckStates(t *testing.T) {
	rapid.Check(t, func(t *rapid.T) {
		opt := sim.Options{MinActors: 3, MaxActors: 8, Replicas: 2, MaxReplicas: 4, Steps: 16, MaxTxPerStep: 5}
		if rapid.IntRange(0, 2).Draw(t, "identityHeavy") == 0 {
			opt.OnlyTypes = identityHeavy
		}
		var f *follower
		opt.BeforeDeliver = func(h *sim.History, proposer *sim.Replica, blk *types.Block) bool {
			if f == nil {
				f = newFollower(t, h)
			}
			{
				s, vc := stateView(f.r)
				noteEligible(h.W, s, vc)
			}
			f.tampered(blk)
			f.drifted(blk)
			f.otherOrders(blk)
			f.honest(blk)
			return true
		}
		h := sim.RunHistory(t, opt)
		if f == nil {
			return
		}
		if last := h.W.Replicas[0]; f.r.Head().Hash() != last.Head().Hash() || f.r.AppState.State.Root() != last.AppState.State.Root() {
			t.Fatalf("the follower ends at another head / state than %s", last.Name)
		}
		if f.reusedInserts > 0 {
			evid.Count("checkstate.history_with_reused_check_state")
		}
		if f.driftRejected > 0 {
			evid.Count("checkstate.history_with_drift_stopped_by_second_check")
		}
		evid.Sample("follower", fmt.Sprintf("blocks=%d through a reused check state=%d drifted blocks stopped by the second comparison=%d", f.blocks, f.reusedInserts, f.driftRejected))
	})
}

package c18

// The table of encodable types covered by check C18 and, per type, the fields
// that are deliberately NOT part of the encoding (with the reason).

import (
	"reflect"
	"sort"
	"strings"

	"github.com/golang/protobuf/proto"
	"github.com/idena-network/idena-go/blockchain/attachments"
	"github.com/idena-network/idena-go/blockchain/types"
	"github.com/idena-network/idena-go/common"
	"github.com/idena-network/idena-go/core/flip"
	"github.com/idena-network/idena-go/core/mempool"
	"github.com/idena-network/idena-go/core/profile"
	"github.com/idena-network/idena-go/core/state"
	"github.com/idena-network/idena-go/core/state/snapshot"
	"github.com/idena-network/idena-go/deferredtx"
	models "github.com/idena-network/idena-go/protobuf"
	"github.com/idena-network/idena-go/protocol"
	"pgregory.net/rapid"
)

func mk[T any](name string, enc func(*T) ([]byte, error), dec func(*T, []byte) error, opts ...func(*spec)) *spec {
	sp := &spec{
		name: name,
		typ:  reflect.TypeOf((*T)(nil)).Elem(),
		enc:  func(o interface{}) ([]byte, error) { return enc(o.(*T)) },
		dec: func(b []byte) (interface{}, error) {
			x := new(T)
			err := dec(x, b)
			return x, err
		},
		skip: map[string]string{}, ranges: map[string][2]uint64{}, nonNil: map[string]bool{}, valueOnlyMaps: map[string]bool{},
	}
	for _, o := range opts {
		o(sp)
	}
	return sp
}

func skip(path, reason string) func(*spec) { return func(s *spec) { s.skip[path] = reason } }
func nonNil(path string) func(*spec)       { return func(s *spec) { s.nonNil[path] = true } }
func hashOf(h hashSpec) func(*spec)        { return func(s *spec) { s.hashes = append(s.hashes, h) } }

func init() {
	// A header is either an empty-block header or a proposed header; the other shapes
	// (both, neither) are encodable too and are kept as rare cases.
	typeFix[reflect.TypeOf(types.Header{})] = func(g *genCtx, v reflect.Value) {
		h := v.Addr().Interface().(*types.Header)
		gen := func(dst interface{}) {
			save := g.bias
			if g.bias == 2 {
				g.bias = 0
			}
			g.fill(reflect.ValueOf(dst).Elem(), ".Header.fix", 1)
			g.bias = save
		}
		switch k := rapid.IntRange(0, 19).Draw(g.t, "headerKind"); {
		case k <= 8: // proposed
			h.EmptyBlockHeader = nil
			if h.ProposedHeader == nil {
				h.ProposedHeader = new(types.ProposedHeader)
				gen(h.ProposedHeader)
			}
		case k <= 17: // empty
			h.ProposedHeader = nil
			if h.EmptyBlockHeader == nil {
				h.EmptyBlockHeader = new(types.EmptyBlockHeader)
				gen(h.EmptyBlockHeader)
			}
		case k == 18: // as generated (often both)
		default:
			h.EmptyBlockHeader, h.ProposedHeader = nil, nil
		}
	}
}

// receiptsBox wraps the list type types.TxReceipts (its FromBytes returns a new list).
type receiptsBox struct{ Receipts types.TxReceipts }

func headerValid(h *types.Header) bool { return h != nil && h.IsValid() }

func h32(h common.Hash) []byte     { return h[:] }
func h16(h common.Hash128) []byte  { return h[:] }

var specs = buildSpecs()

func buildSpecs() []*spec {
	var l []*spec
	add := func(s *spec) { l = append(l, s) }

	// ------------------------------------------------- blockchain/types
	add(mk("types.Transaction", (*types.Transaction).ToBytes, (*types.Transaction).FromBytes,
		hashOf(hashSpec{name: "Hash", fn: func(o interface{}) []byte { return h32(o.(*types.Transaction).Hash()) }}),
		hashOf(hashSpec{name: "Hash128", fn: func(o interface{}) []byte { return h16(o.(*types.Transaction).Hash128()) }}),
	))
	add(mk("types.Header", (*types.Header).ToBytes, (*types.Header).FromBytes,
		hashOf(hashSpec{name: "Hash", fn: func(o interface{}) []byte { return h32(o.(*types.Header).Hash()) },
			valid: func(o interface{}) bool { return headerValid(o.(*types.Header)) }}),
	))
	add(mk("types.Block", (*types.Block).ToBytes, (*types.Block).FromBytes,
		hashOf(hashSpec{name: "Hash128", fn: func(o interface{}) []byte { return h16(o.(*types.Block).Hash128()) }}),
		hashOf(hashSpec{name: "Hash", fn: func(o interface{}) []byte { return h32(o.(*types.Block).Hash()) },
			// the block hash is the header hash BY DESIGN (the header commits to the body through TxHash/IpfsHash)
			covers: func(p string) bool { return strings.HasPrefix(p, ".Header.") },
			valid:  func(o interface{}) bool { return headerValid(o.(*types.Block).Header) }}),
	))
	add(mk("types.Body", func(b *types.Body) ([]byte, error) { return b.ToBytes(), nil },
		func(b *types.Body, d []byte) error { b.FromBytes(d); return nil }))
	add(mk("types.Vote", (*types.Vote).ToBytes, (*types.Vote).FromBytes,
		hashOf(hashSpec{name: "Hash128", fn: func(o interface{}) []byte { return h16(o.(*types.Vote).Hash128()) }}),
		hashOf(hashSpec{name: "Hash", fn: func(o interface{}) []byte { return h32(o.(*types.Vote).Hash()) },
			// Vote.Hash = H(signature hash || recovered voter): every header field is covered;
			// the signature only through the voter it recovers to.
			covers: func(p string) bool { return strings.HasPrefix(p, ".Header.") },
			valid:  func(o interface{}) bool { return o.(*types.Vote).Header != nil }}),
	))
	add(mk("types.BlockCert", (*types.BlockCert).ToBytes, (*types.BlockCert).FromBytes))
	add(mk("types.BlockProposal", (*types.BlockProposal).ToBytes, (*types.BlockProposal).FromBytes,
		nonNil(".Block"))) // a proposal without a block does not exist (ToBytes writes the same bytes for nil and empty block)
	add(mk("types.ProofProposal", (*types.ProofProposal).ToBytes, (*types.ProofProposal).FromBytes,
		hashOf(hashSpec{name: "Hash128", fn: func(o interface{}) []byte { return h16(o.(*types.ProofProposal).Hash128()) }})))
	add(mk("types.PublicFlipKey", (*types.PublicFlipKey).ToBytes, (*types.PublicFlipKey).FromBytes,
		hashOf(hashSpec{name: "Hash", fn: func(o interface{}) []byte { return h32(o.(*types.PublicFlipKey).Hash()) }})))
	add(mk("types.PrivateFlipKeysPackage", (*types.PrivateFlipKeysPackage).ToBytes, (*types.PrivateFlipKeysPackage).FromBytes,
		hashOf(hashSpec{name: "Hash128", fn: func(o interface{}) []byte { return h16(o.(*types.PrivateFlipKeysPackage).Hash128()) }})))
	add(mk("types.Flip", (*types.Flip).ToBytes, (*types.Flip).FromBytes,
		hashOf(hashSpec{name: "Hash128", fn: func(o interface{}) []byte { return h16(o.(*types.Flip).Hash128()) }})))
	add(mk("types.TxReceipts", func(b *receiptsBox) ([]byte, error) { return b.Receipts.ToBytes() },
		func(b *receiptsBox, d []byte) error { b.Receipts = types.TxReceipts{}.FromBytes(d); return nil }))
	add(mk("types.TxReceipt", (*types.TxReceipt).ToBytes, (*types.TxReceipt).FromBytes))
	add(mk("types.TransactionIndex", (*types.TransactionIndex).ToBytes, (*types.TransactionIndex).FromBytes))
	add(mk("types.TxReceiptIndex", (*types.TxReceiptIndex).ToBytes, (*types.TxReceiptIndex).FromBytes))
	add(mk("types.SavedTransaction", (*types.SavedTransaction).ToBytes, (*types.SavedTransaction).FromBytes))
	add(mk("types.BurntCoins", (*types.BurntCoins).ToBytes, (*types.BurntCoins).FromBytes))
	add(mk("types.SavedEvent", (*types.SavedEvent).ToBytes, (*types.SavedEvent).FromBytes))
	add(mk("types.ActivityMonitor", (*types.ActivityMonitor).ToBytes, (*types.ActivityMonitor).FromBytes))
	add(mk("types.UpgradeVotes", upgradeVotesCanonicalBytes,
		func(u *types.UpgradeVotes, d []byte) error { u.Dict = map[common.Address]uint32{}; return u.FromBytes(d) }))

	// ------------------------------------------------------- core/state
	add(mk("state.Account", (*state.Account).ToBytes, (*state.Account).FromBytes))
	add(mk("state.Identity", (*state.Identity).ToBytes, (*state.Identity).FromBytes,
		skip(".metadata", "in-memory scratch value set by the ceremony through SetMetadata; documented as not persisted")))
	add(mk("state.Global", (*state.Global).ToBytes, (*state.Global).FromBytes, func(s *spec) {
		// ToBytes writes the shard sizes of shards 1..ShardsNum, so ShardsNum is kept small and the
		// size table holds exactly those shards (that is how SetShardsNum/SetShardSize are used).
		s.ranges[".ShardsNum"] = [2]uint64{0, 8}
		s.valueOnlyMaps[".ShardSizes"] = true
		s.dependent = map[string]bool{".ShardsNum": true}
		s.fix = func(_ *rapid.T, o interface{}) {
			g := o.(*state.Global)
			var vals []uint32
			var keys []common.ShardId
			for k := range g.ShardSizes {
				keys = append(keys, k)
			}
			sort.Slice(keys, func(i, j int) bool { return keys[i] < keys[j] })
			for _, k := range keys {
				vals = append(vals, g.ShardSizes[k])
			}
			var m map[common.ShardId]uint32
			if g.ShardsNum > 0 || g.ShardSizes != nil {
				m = map[common.ShardId]uint32{}
			}
			for i := uint32(1); i <= g.ShardsNum; i++ {
				v := i*1000 + 7
				if len(vals) > 0 {
					v = vals[int(i-1)%len(vals)] + (i-1)/uint32(len(vals))
				}
				m[common.ShardId(i)] = v
			}
			g.ShardSizes = m
		}
	}))
	add(mk("state.ApprovedIdentity", (*state.ApprovedIdentity).ToBytes, (*state.ApprovedIdentity).FromBytes))
	add(mk("state.IdentityStatusSwitch", (*state.IdentityStatusSwitch).ToBytes, (*state.IdentityStatusSwitch).FromBytes))
	add(mk("state.DelegationSwitch", (*state.DelegationSwitch).ToBytes, (*state.DelegationSwitch).FromBytes))
	add(mk("state.DelayedPenalties", (*state.DelayedPenalties).ToBytes, (*state.DelayedPenalties).FromBytes))
	add(mk("state.BurntCoins", (*state.BurntCoins).ToBytes, (*state.BurntCoins).FromBytes))
	add(mk("state.IdentityStateDiff", (*state.IdentityStateDiff).ToBytes, (*state.IdentityStateDiff).FromBytes))
	add(mk("snapshot.Manifest", (*snapshot.Manifest).ToBytes, (*snapshot.Manifest).FromBytes,
		skip(".Cid", "dead legacy (v1) field: no statement of the repository reads or writes it; the schema dropped its number")))

	// --------------------------------------------------------- protocol
	add(mk("protocol.Msg", (*protocol.Msg).ToBytes, (*protocol.Msg).FromBytes))
	add(mk("protocol.handshakeData", (*protocol.VerifHandshakeData).ToBytes, (*protocol.VerifHandshakeData).FromBytes))
	add(mk("protocol.pushPullHash", (*protocol.VerifPushPullHash).ToBytes, (*protocol.VerifPushPullHash).FromBytes))
	add(mk("protocol.updateShardId", (*protocol.VerifUpdateShardId).ToBytes, (*protocol.VerifUpdateShardId).FromBytes))
	add(mk("protocol.msgBatch", (*protocol.VerifMsgBatch).ToBytes, (*protocol.VerifMsgBatch).FromBytes))
	add(mk("protocol.disconnect", (*protocol.VerifDisconnect).ToBytes, (*protocol.VerifDisconnect).FromBytes))
	add(mk("protocol.blockRange", (*protocol.VerifBlockRange).ToBytes, (*protocol.VerifBlockRange).FromBytes))

	// ------------------------------------------------------ attachments
	add(mk("attachments.ShortAnswer", (*attachments.ShortAnswerAttachment).ToBytes, (*attachments.ShortAnswerAttachment).FromBytes))
	add(mk("attachments.LongAnswer", (*attachments.LongAnswerAttachment).ToBytes, (*attachments.LongAnswerAttachment).FromBytes))
	add(mk("attachments.FlipSubmit", (*attachments.FlipSubmitAttachment).ToBytes, (*attachments.FlipSubmitAttachment).FromBytes))
	add(mk("attachments.OnlineStatus", (*attachments.OnlineStatusAttachment).ToBytes, (*attachments.OnlineStatusAttachment).FromBytes))
	add(mk("attachments.Burn", (*attachments.BurnAttachment).ToBytes, (*attachments.BurnAttachment).FromBytes))
	add(mk("attachments.ChangeProfile", (*attachments.ChangeProfileAttachment).ToBytes, (*attachments.ChangeProfileAttachment).FromBytes))
	add(mk("attachments.DeleteFlip", (*attachments.DeleteFlipAttachment).ToBytes, (*attachments.DeleteFlipAttachment).FromBytes))
	add(mk("attachments.CallContract", (*attachments.CallContractAttachment).ToBytes, (*attachments.CallContractAttachment).FromBytes))
	add(mk("attachments.DeployContract", (*attachments.DeployContractAttachment).ToBytes, (*attachments.DeployContractAttachment).FromBytes))
	add(mk("attachments.TerminateContract", (*attachments.TerminateContractAttachment).ToBytes, (*attachments.TerminateContractAttachment).FromBytes))
	add(mk("attachments.StoreToIpfs", (*attachments.StoreToIpfsAttachment).ToBytes, (*attachments.StoreToIpfsAttachment).FromBytes))

	// ------------------------------------- further stored / published objects
	add(mk("flip.IpfsFlip", (*flip.IpfsFlip).ToBytes, (*flip.IpfsFlip).FromBytes))
	add(mk("profile.Profile", (*profile.Profile).ToBytes, (*profile.Profile).FromBytes))
	add(mk("mempool.keysArray", (*mempool.VerifKeysArray).ToBytes, (*mempool.VerifKeysArray).FromBytes))
	add(mk("deferredtx.DeferredTxs", func(d *deferredtx.DeferredTxs) ([]byte, error) { return d.ToBytes(), nil },
		(*deferredtx.DeferredTxs).FromBytes,
		skip(".Txs[].sendTry", "node-local retry counter of the deferred-tx job, deliberately restarted after a restart; not consensus data"),
		skip(".Txs[].removed", "node-local tombstone of the deferred-tx job; removed entries are filtered before saving"),
	))
	// more objects per test case for the consensus-critical types with many fields
	for name, w := range map[string]int{"types.Transaction": 3, "types.Header": 3, "types.Block": 2, "types.Vote": 2,
		"types.BlockCert": 2, "types.BlockProposal": 2, "types.TxReceipt": 2, "state.Account": 2, "state.Identity": 3,
		"state.Global": 3, "state.ApprovedIdentity": 2, "protocol.blockRange": 2, "protocol.handshakeData": 2} {
		found := false
		for _, s := range l {
			if s.name == name {
				s.weight, found = w, true
			}
		}
		if !found {
			panic("weight for unknown type " + name)
		}
	}
	return l
}

// upgradeVotesCanonicalBytes is UpgradeVotes.ToBytes with the entries sorted by
// voter: the repository serialises this node-local set in Go map iteration
// order (nothing hashes, signs or transmits those bytes), so byte identity is
// demanded up to the order of the entries only.
func upgradeVotesCanonicalBytes(u *types.UpgradeVotes) ([]byte, error) {
	b, err := u.ToBytes()
	if err != nil {
		return nil, err
	}
	m := new(models.ProtoUpgradeVotes)
	if err := proto.Unmarshal(b, m); err != nil {
		return nil, err
	}
	sort.SliceStable(m.Votes, func(i, j int) bool { return string(m.Votes[i].Voter) < string(m.Votes[j].Voter) })
	return proto.Marshal(m)
}

package c18

import (
	"bytes"
	"fmt"
	"sort"
	"strings"
	"testing"

	"github.com/idena-network/idena-go/blockchain/types"
	"pgregory.net/rapid"

	"verifharness/internal/evid"
)

func TestMain(m *testing.M) { evid.Main(m) }

const maxMutantsPerObject = 24

var optCache = map[string][]string{}

func optPaths(sp *spec) []string {
	if p, ok := optCache[sp.name]; ok {
		return p
	}
	p := optionalPaths(sp)
	optCache[sp.name] = p
	return p
}

func safeEnc(sp *spec, obj interface{}) (b []byte, err error) {
	defer func() {
		if r := recover(); r != nil {
			err = fmt.Errorf("PANIC in encode: %v", r)
		}
	}()
	return sp.enc(obj)
}

func safeDec(sp *spec, b []byte) (obj interface{}, err error) {
	defer func() {
		if r := recover(); r != nil {
			err = fmt.Errorf("PANIC in decode: %v", r)
		}
	}()
	return sp.dec(b)
}

func safeHash(h hashSpec, obj interface{}) (out []byte, err error) {
	defer func() {
		if r := recover(); r != nil {
			err = fmt.Errorf("PANIC in %s: %v", h.name, r)
		}
	}()
	return h.fn(obj), nil
}

// checkObject runs oracles (1) (2) (3) on one generated object of the type.
func checkObject(t *rapid.T, sp *spec) {
	evid.Eval()
	x := generate(t, sp)
	evid.Count("type." + sp.name)
	classify(sp, x)

	b, err := safeEnc(sp, x)
	if err != nil {
		t.Fatalf("%s: encode failed: %v", sp.name, err)
	}
	y, err := safeDec(sp, b)
	if err != nil {
		t.Fatalf("%s: decoding its own encoding failed: %v (bytes %x)", sp.name, err, b)
	}
	// (1) semantic equality
	if d := semDiffObj(sp, x, y); d != "" {
		t.Fatalf("%s: decode(encode(x)) is not equal to x at %s (encoding %s)", sp.name, d, short(b))
	}
	// (2) byte identity
	b2, err := safeEnc(sp, y)
	if err != nil {
		t.Fatalf("%s: re-encode failed: %v", sp.name, err)
	}
	if !bytes.Equal(b, b2) {
		t.Fatalf("%s: encode(decode(encode(x))) differs from encode(x):\n %x\n %x", sp.name, b, b2)
	}
	// encoding is a function of the value (no hidden state): encode twice
	if b3, _ := safeEnc(sp, deepCopy(sp, x)); !bytes.Equal(b, b3) {
		t.Fatalf("%s: two encodings of the same value differ:\n %x\n %x", sp.name, b, b3)
	}
	// object hashes are stable over the round trip
	hx := make([][]byte, len(sp.hashes))
	for i, h := range sp.hashes {
		if h.valid != nil && !h.valid(x) {
			continue
		}
		var err1, err2 error
		var hy []byte
		hx[i], err1 = safeHash(h, x)
		hy, err2 = safeHash(h, y)
		if err1 != nil || err2 != nil {
			t.Fatalf("%s.%s: %v %v", sp.name, h.name, err1, err2)
		}
		if !bytes.Equal(hx[i], hy) {
			t.Fatalf("%s.%s changes over encode/decode: %x vs %x", sp.name, h.name, hx[i], hy)
		}
		evid.Count("hash-stable." + sp.name + "." + h.name)
	}

	// (3) field sensitivity: one field changed at a time
	ls := leaves(sp, x)
	idx := make([]int, 0, maxMutantsPerObject)
	if len(ls) <= maxMutantsPerObject {
		for i := range ls {
			idx = append(idx, i)
		}
	} else {
		for i := 0; i < maxMutantsPerObject; i++ {
			idx = append(idx, rapid.IntRange(0, len(ls)-1).Draw(t, "leaf"))
		}
	}
	for _, i := range idx {
		l := ls[i]
		m := deepCopy(sp, x)
		desc := mutate(t, sp, navigate(m, l.steps), l.path)
		if desc == "" {
			continue
		}
		if semDiffObj(sp, x, m) == "" {
			t.Fatalf("harness error: mutation %q of %s did not change the value", desc, l.dyn)
		}
		bm, err := safeEnc(sp, m)
		if err != nil {
			t.Fatalf("%s: encode of mutant (%s: %s) failed: %v", sp.name, l.dyn, desc, err)
		}
		if bytes.Equal(bm, b) {
			t.Fatalf("%s: field %s is not part of the encoding: changing it (%s) leaves the bytes unchanged (%s)", sp.name, l.dyn, desc, short(b))
		}
		// the mutant survives its own round trip (the changed value is really carried)
		if !sp.dependent[l.path] {
			my, err := safeDec(sp, bm)
			if err != nil {
				t.Fatalf("%s: decode of mutant (%s: %s) failed: %v", sp.name, l.dyn, desc, err)
			}
			if d := semDiffObj(sp, m, my); d != "" {
				t.Fatalf("%s: mutant (%s: %s) does not round-trip: %s", sp.name, l.dyn, desc, d)
			}
		}
		for hi, h := range sp.hashes {
			if hx[hi] == nil || (h.valid != nil && !h.valid(m)) || (h.covers != nil && !h.covers(l.path)) {
				continue
			}
			hm, err := safeHash(h, m)
			if err != nil {
				t.Fatalf("%s.%s on mutant: %v", sp.name, h.name, err)
			}
			if bytes.Equal(hm, hx[hi]) {
				t.Fatalf("%s.%s does not commit to field %s: changing it (%s) leaves the hash %x", sp.name, h.name, l.dyn, desc, hm)
			}
			evid.Count("hash-sensitive." + sp.name + "." + h.name)
		}
		evid.Count("mutants." + sp.name)
	}

	// non-trivial: at least half of the optional fields present
	opt := optPaths(sp)
	mask, present := presence(sp, x, opt)
	if 2*present >= len(opt) {
		evid.NonTrivial(sp.name + "|" + mask)
		evid.Count("nontrivial." + sp.name)
	}
	if len(opt) > 0 {
		switch present {
		case len(opt):
			evid.Count("presence.all-optional-present")
		case 0:
			evid.Count("presence.no-optional-present")
		}
	}
	if len(b) > 2000 {
		evid.Count("size.encoding>2000B")
	}
	evid.Sample(sp.name, map[string]interface{}{"presence": mask, "encoded_len": len(b), "leaves": len(ls)})
}

func classify(sp *spec, x interface{}) {
	switch o := x.(type) {
	case *types.Header:
		evid.Count("header." + headerKind(o))
	case *types.Block:
		if o.Header != nil {
			evid.Count("block.header." + headerKind(o.Header))
		} else {
			evid.Count("block.header.nil")
		}
	case *types.Transaction:
		if o.UseRlp {
			evid.Count("tx.UseRlp")
		}
	}
}

func headerKind(h *types.Header) string {
	switch {
	case h.EmptyBlockHeader != nil && h.ProposedHeader != nil:
		return "both"
	case h.EmptyBlockHeader != nil:
		return "empty"
	case h.ProposedHeader != nil:
		return "proposed"
	}
	return "neither"
}

// Every encodable type: decode(encode(x)) == x, encode(decode(encode(x))) ==
// encode(x), and every single-field change changes the bytes and the hashes.
func TestRoundTrip(t *testing.T) {
	rapid.Check(t, func(t *rapid.T) {
		// one object (or `weight` objects) of every type per test case, so that the
		// per-type counts are balanced
		for _, sp := range specs {
			n := sp.weight
			if n == 0 {
				n = 1
			}
			for i := 0; i < n; i++ {
				checkObject(t, sp)
			}
		}
	})
}

// Plain: lists, for the evidence file, every struct field the engine covers
// and every field excluded by design, and fails when a type has a field the
// engine can neither generate nor finds in the exclusion table.
func TestFieldTable(t *testing.T) {
	excl := map[string]string{}
	total := 0
	var names []string
	for _, sp := range specs {
		cov, ex := allFieldPaths(sp)
		total += len(cov)
		for p, r := range ex {
			excl[sp.name+p] = r
		}
		names = append(names, fmt.Sprintf("%s(%d fields)", sp.name, len(cov)))
		evid.CountN("fields-covered."+sp.name, len(cov))
		for _, p := range cov {
			if strings.HasSuffix(p, "!unsupported") {
				t.Fatalf("%s: field %s has a kind the engine cannot generate and is not listed as excluded by design", sp.name, strings.TrimSuffix(p, "!unsupported"))
			}
		}
	}
	sort.Strings(names)
	evid.Extra("types", strings.Join(names, ", "))
	evid.Extra("excluded_fields_by_design", excl)
	evid.Extra("fields_covered_total", total)
	evid.EvalN(len(specs))
}

package c18

import (
	"testing"

	"github.com/idena-network/idena-go/blockchain/types"

	"verifharness/internal/evid"
	"verifharness/internal/kf"
)

// SavedTransaction.ToBytes supports a missing transaction (it guards
// `s.Tx != nil`), but FromBytes guards `protoObj != nil` instead of
// `protoObj.Tx != nil` and dereferences the missing message: the type cannot
// decode its own encoding when the optional Tx field is nil. Repo.SaveTx, the
// only producer in the repository, always passes a transaction, so the main
// generator keeps Tx non-nil and this shape is probed here.
func TestSavedTransactionWithoutTx(t *testing.T) {
	evid.Eval()
	evid.Count("known-shape.SavedTransaction.Tx-nil")
	s := &types.SavedTransaction{Timestamp: 7}
	b, err := s.ToBytes()
	if err != nil {
		t.Fatalf("encode: %v", err)
	}
	var decErr interface{}
	func() {
		defer func() { decErr = recover() }()
		d := new(types.SavedTransaction)
		if err := d.FromBytes(b); err != nil {
			decErr = err
			return
		}
		if d.Tx != nil || d.Timestamp != 7 {
			decErr = "decoded to a different object"
		}
	}()
	if decErr != nil {
		if kf.Report(t, "C18", "c18.savedtransaction.tx-nil-decode-panics",
			"types.SavedTransaction{Tx: nil, Timestamp: 7} encodes to %x but decoding its own encoding fails: %v (FromBytes tests `protoObj != nil` where `protoObj.Tx != nil` is meant; unreachable through Repo.SaveTx)", b, decErr) {
			return
		}
	}
}

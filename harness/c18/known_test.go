package c18

import (
	"testing"

	"github.com/idena-network/idena-go/blockchain/types"

	"verifharness/internal/evid"
)

// Regression (found by this check, repaired by fix commit 919f1200):
// SavedTransaction.ToBytes supports a missing transaction (it guards
// `s.Tx != nil`), but FromBytes guarded `protoObj != nil` instead of
// `protoObj.Tx != nil` and dereferenced the missing message, so the type could
// not decode its own encoding when the optional Tx field was nil.
func TestSavedTransactionWithoutTx(t *testing.T) {
	evid.Eval()
	evid.Count("regression.SavedTransaction.Tx-nil")
	s := &types.SavedTransaction{Timestamp: 7}
	b, err := s.ToBytes()
	if err != nil {
		t.Fatalf("encode: %v", err)
	}
	defer func() {
		if r := recover(); r != nil {
			t.Fatalf("types.SavedTransaction{Tx: nil, Timestamp: 7} encodes to %x but decoding its own encoding panics: %v", b, r)
		}
	}()
	d := new(types.SavedTransaction)
	if err := d.FromBytes(b); err != nil {
		t.Fatalf("decode of own encoding %x: %v", b, err)
	}
	if d.Tx != nil || d.Timestamp != 7 {
		t.Fatalf("decoded to a different object: %+v", d)
	}
}

package c18

import (
	"sort"
	"testing"

	"github.com/idena-network/idena-go/common"
	"github.com/idena-network/idena-go/core/state"
	dbm "github.com/tendermint/tm-db"
	"pgregory.net/rapid"

	"verifharness/internal/evid"
)

// Bulk read-back: several generated identities / accounts committed to one state tree and read back through the
// state database's iteration API (the way epoch changes, rewards and snapshots read them) must each be semantically
// equal to the committed object - the object of one address may not pick up anything from its neighbours - and must
// re-encode to the committed bytes.
func TestStateBulkReadBack(t *testing.T) {
	rapid.Check(t, func(t *rapid.T) {
		evid.Eval()
		n := rapid.IntRange(2, 7).Draw(t, "objects")
		idSpec, accSpec := specByName("state.Identity"), specByName("state.Account")
		type item struct {
			addr common.Address
			id   interface{}
			idB  []byte
			acc  interface{}
			accB []byte
		}
		var items []item
		var diff []*state.StateTreeDiff
		seen := map[common.Address]bool{}
		for i := 0; i < n; i++ {
			var addr common.Address
			copy(addr[:], rapid.SliceOfN(rapid.Byte(), 20, 20).Draw(t, "addr"))
			if seen[addr] {
				continue
			}
			seen[addr] = true
			it := item{addr: addr}
			it.id = generate(t, idSpec)
			b, err := idSpec.enc(it.id)
			if err != nil {
				t.Fatalf("encode identity: %v", err)
			}
			if len(b) > 0 {
				it.idB = b
				diff = append(diff, &state.StateTreeDiff{Key: state.StateDbKeys.IdentityKey(addr), Value: b})
			}
			it.acc = generate(t, accSpec)
			if b, err = accSpec.enc(it.acc); err != nil {
				t.Fatalf("encode account: %v", err)
			}
			if len(b) > 0 {
				it.accB = b
				diff = append(diff, &state.StateTreeDiff{Key: state.StateDbKeys.AddressKey(addr), Value: b})
			}
			items = append(items, it)
		}
		sdb, err := state.NewLazy(dbm.NewMemDB())
		if err != nil {
			t.Fatalf("NewLazy: %v", err)
		}
		sdb.AddDiff(diff)
		if _, _, err := sdb.CommitTree(1); err != nil {
			t.Fatalf("CommitTree: %v", err)
		}
		sort.Slice(items, func(i, j int) bool { return string(items[i].addr[:]) < string(items[j].addr[:]) })
		byAddr := map[common.Address]*item{}
		for i := range items {
			byAddr[items[i].addr] = &items[i]
		}
		gotIds := 0
		sdb.IterateOverIdentities(func(addr common.Address, identity state.Identity) {
			it := byAddr[addr]
			if it == nil || it.idB == nil {
				t.Fatalf("IterateOverIdentities yields %x, which was not committed", addr)
			}
			gotIds++
			cp := identity
			if d := semDiffObj(idSpec, it.id, &cp); d != "" {
				t.Fatalf("identity %x read back by IterateOverIdentities (one of %d committed) differs from the committed object at %s", addr[:4], len(items), d)
			}
			if b, err := idSpec.enc(&cp); err != nil || string(b) != string(it.idB) {
				t.Fatalf("identity %x read back by IterateOverIdentities does not re-encode to the committed bytes", addr[:4])
			}
		})
		gotAccs := 0
		sdb.IterateOverAccounts(func(addr common.Address, account state.Account) {
			it := byAddr[addr]
			if it == nil || it.accB == nil {
				t.Fatalf("IterateOverAccounts yields %x, which was not committed", addr)
			}
			gotAccs++
			cp := account
			if d := semDiffObj(accSpec, it.acc, &cp); d != "" {
				t.Fatalf("account %x read back by IterateOverAccounts (one of %d committed) differs from the committed object at %s", addr[:4], len(items), d)
			}
			if b, err := accSpec.enc(&cp); err != nil || string(b) != string(it.accB) {
				t.Fatalf("account %x read back by IterateOverAccounts does not re-encode to the committed bytes", addr[:4])
			}
		})
		wantIds, wantAccs := 0, 0
		for _, it := range items {
			if it.idB != nil {
				wantIds++
			}
			if it.accB != nil {
				wantAccs++
			}
		}
		if gotIds != wantIds || gotAccs != wantAccs {
			t.Fatalf("iteration yields %d identities and %d accounts, committed %d and %d", gotIds, gotAccs, wantIds, wantAccs)
		}
		evid.CountN("bulk.identities", gotIds)
		evid.CountN("bulk.accounts", gotAccs)
		if gotIds >= 2 {
			evid.Count("bulk.case_with_several_identities")
			evid.NonTrivial("bulk|" + string(rune('0'+gotIds)) + "|" + string(rune('0'+gotAccs)))
		}
	})
}

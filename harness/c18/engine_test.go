package c18

// Reflection engine of check C18: a generator, a semantic comparer, a deep
// copier and a single-field mutator that work on ANY Go struct type, including
// unexported fields (reached through unsafe). Because every struct field is
// visited automatically, a field that exists in the Go struct but is not part
// of the encoding makes decode(encode(x)) differ from x, and a field dropped
// consistently by both directions makes the single-field mutant encode to the
// same bytes. Fields that are deliberately not encoded (caches) have to be
// listed in the spec's skip table together with the reason.

import (
	"bytes"
	"errors"
	"fmt"
	"math/big"
	"reflect"
	"sort"
	"strings"
	"sync/atomic"
	"time"
	"unicode/utf8"
	"unsafe"

	"pgregory.net/rapid"
)

var (
	typAtomicValue = reflect.TypeOf(atomic.Value{})
	typBigIntPtr   = reflect.TypeOf((*big.Int)(nil))
	typTime        = reflect.TypeOf(time.Time{})
	typError       = reflect.TypeOf((*error)(nil)).Elem()
)

type hashSpec struct {
	name   string
	fn     func(obj interface{}) []byte
	covers func(path string) bool       // nil = every encoded field
	valid  func(obj interface{}) bool   // nil = always defined
}

type spec struct {
	name string
	typ  reflect.Type // struct type
	// enc/dec use the type's own methods. obj is a pointer to typ.
	enc func(obj interface{}) ([]byte, error)
	dec func(b []byte) (interface{}, error)
	// hashes of the object that have to be stable over a round trip and
	// sensitive to the fields they cover.
	hashes []hashSpec
	// static field path -> reason why the field is not part of the encoding
	// BY DESIGN. Nothing else is excluded.
	skip map[string]string
	// static path -> inclusive range of an unsigned field (domain restriction).
	ranges map[string][2]uint64
	// static paths of pointers that real callers never leave nil.
	nonNil map[string]bool
	// static paths of maps whose key set is determined by other fields
	// (only values are mutated).
	valueOnlyMaps map[string]bool
	// static paths whose mutation leaves the domain (another field depends on
	// them): the mutant must still encode differently but need not round-trip.
	dependent map[string]bool
	// domain fix-up applied after generation (never after mutation).
	fix func(t *rapid.T, obj interface{})
	// how many objects of the type one test case generates
	weight int
}

// typeFix holds domain fix-ups that apply to every value of a struct type,
// wherever it is nested (run right after the value is filled).
var typeFix = map[reflect.Type]func(g *genCtx, v reflect.Value){}

// field returns a settable handle of field i, exported or not.
func field(v reflect.Value, i int) reflect.Value {
	f := v.Field(i)
	if f.CanSet() {
		return f
	}
	return reflect.NewAt(f.Type(), unsafe.Pointer(f.UnsafeAddr())).Elem()
}

func isByteSlice(t reflect.Type) bool {
	return t.Kind() == reflect.Slice && t.Elem().Kind() == reflect.Uint8
}
func isByteArray(t reflect.Type) bool {
	return t.Kind() == reflect.Array && t.Elem().Kind() == reflect.Uint8
}

func isOpaqueLeaf(t reflect.Type) bool {
	if t == typBigIntPtr || t == typTime || t == typError {
		return true
	}
	switch t.Kind() {
	case reflect.Bool, reflect.Uint, reflect.Uint8, reflect.Uint16, reflect.Uint32, reflect.Uint64,
		reflect.Int, reflect.Int8, reflect.Int16, reflect.Int32, reflect.Int64, reflect.String:
		return true
	}
	return isByteSlice(t) || isByteArray(t)
}

// ---------------------------------------------------------------- generation

type genCtx struct {
	t    *rapid.T
	sp   *spec
	k    uint64 // counter behind the field-wise distinguishing values
	bias int    // 0 mixed, 1 everything present, 2 sparse
}

func (g *genCtx) absent(path string) bool {
	switch g.bias {
	case 1:
		return false
	case 2:
		return rapid.IntRange(0, 9).Draw(g.t, "absent") < 7
	}
	return rapid.IntRange(0, 9).Draw(g.t, "absent") < 2
}

func (g *genCtx) next() uint64 {
	g.k++
	return g.k
}

func maxOfBits(bits int) uint64 {
	if bits >= 64 {
		return ^uint64(0)
	}
	return (uint64(1) << uint(bits)) - 1
}

func (g *genCtx) uintVal(path string, bits int) uint64 {
	lo, hi := uint64(0), maxOfBits(bits)
	if r, ok := g.sp.ranges[path]; ok {
		lo, hi = r[0], r[1]
	}
	k := g.next()
	switch m := rapid.IntRange(0, 9).Draw(g.t, "umode"); {
	case m == 0:
		return lo
	case m == 1:
		return hi
	case m <= 5:
		// distinguishing: non-zero, different for every field of the object
		v := (k*0x9E3779B97F4A7C15)>>uint(64-minInt(bits, 64)) | 1
		if bits <= 8 {
			v = (k*37)%255 + 1
		}
		if v < lo || v > hi {
			v = lo + (v % (hi - lo + 1))
		}
		return v
	default:
		if hi == ^uint64(0) && lo == 0 {
			return rapid.Uint64().Draw(g.t, "u")
		}
		return rapid.Uint64Range(lo, hi).Draw(g.t, "u")
	}
}

func minInt(a, b int) int {
	if a < b {
		return a
	}
	return b
}

func (g *genCtx) intVal(bits int) int64 {
	k := g.next()
	max := int64(maxOfBits(bits - 1))
	switch m := rapid.IntRange(0, 9).Draw(g.t, "imode"); {
	case m == 0:
		return 0
	case m == 1:
		return max
	case m == 2:
		return -max - 1
	case m <= 6:
		return int64((k * 0x9E3779B97F4A7C15) >> uint(65-bits)) | 1
	default:
		return rapid.Int64Range(-max-1, max).Draw(g.t, "i")
	}
}

func (g *genCtx) fixedBytes(n int) []byte {
	k := g.next()
	b := make([]byte, n)
	switch m := rapid.IntRange(0, 9).Draw(g.t, "amode"); {
	case m == 0:
	case m == 1:
		for i := range b {
			b[i] = 0xff
		}
	case m <= 6:
		for i := range b {
			b[i] = byte(k)*17 + byte(i) + 1
		}
		b[0] |= 1 // leading byte non-zero
	default:
		copy(b, rapid.SliceOfN(rapid.Byte(), n, n).Draw(g.t, "a"))
	}
	return b
}

func (g *genCtx) byteSlice(path string) []byte {
	if g.absent(path) {
		if rapid.Bool().Draw(g.t, "emptyNotNil") {
			return []byte{}
		}
		return nil
	}
	k := g.next()
	switch m := rapid.IntRange(0, 19).Draw(g.t, "bmode"); {
	case m == 0:
		return []byte{0}
	case m == 1: // long
		n := rapid.IntRange(300, 3000).Draw(g.t, "blong")
		b := make([]byte, n)
		for i := range b {
			b[i] = byte(k) + byte(i*7)
		}
		return b
	case m == 2: // natural sizes of keys, hashes, signatures, cids
		n := []int{20, 32, 33, 36, 65}[rapid.IntRange(0, 4).Draw(g.t, "bnat")]
		b := make([]byte, n)
		for i := range b {
			b[i] = byte(k)*13 + byte(i) + 1
		}
		return b
	case m <= 10:
		n := 1 + int(k%9)
		b := make([]byte, n)
		for i := range b {
			b[i] = byte(k)*29 + byte(i)*3 + 1
		}
		return b
	default:
		return rapid.SliceOfN(rapid.Byte(), 1, 48).Draw(g.t, "b")
	}
}

func (g *genCtx) bigInt(path string) *big.Int {
	if g.absent(path) {
		if rapid.Bool().Draw(g.t, "zeroNotNil") {
			return new(big.Int)
		}
		return nil
	}
	k := g.next()
	switch m := rapid.IntRange(0, 9).Draw(g.t, "zmode"); {
	case m == 0:
		return big.NewInt(1)
	case m == 1: // 2^256-1
		return new(big.Int).Sub(new(big.Int).Lsh(big.NewInt(1), 256), big.NewInt(1))
	case m == 2: // long
		return new(big.Int).Add(new(big.Int).Lsh(big.NewInt(1), 2048), new(big.Int).SetUint64(k))
	case m <= 6:
		return new(big.Int).SetUint64(k*0x9E3779B97F4A7C15 | 1)
	default:
		b := rapid.SliceOfN(rapid.Byte(), 1, 40).Draw(g.t, "z")
		v := new(big.Int).SetBytes(b)
		if v.Sign() == 0 {
			v.SetUint64(k)
		}
		return v
	}
}

func (g *genCtx) str(path string) string {
	if g.absent(path) {
		return ""
	}
	k := g.next()
	switch m := rapid.IntRange(0, 9).Draw(g.t, "smode"); {
	case m <= 4:
		return fmt.Sprintf("s%d", k)
	case m == 5:
		return strings.Repeat("long-"+fmt.Sprint(k), 50)
	case m == 6:
		return fmt.Sprintf("ключ-%d-鍵", k)
	default:
		s := strings.ToValidUTF8(rapid.String().Draw(g.t, "s"), "?")
		if s == "" || !utf8.ValidString(s) {
			s = "x"
		}
		return s
	}
}

func (g *genCtx) fill(v reflect.Value, path string, depth int) {
	if _, ok := g.sp.skip[path]; ok {
		return
	}
	t := v.Type()
	switch {
	case t == typAtomicValue:
		return
	case t == typBigIntPtr:
		if x := g.bigInt(path); x != nil {
			v.Set(reflect.ValueOf(x))
		}
		return
	case t == typTime:
		v.Set(reflect.ValueOf(time.Unix(rapid.Int64Range(-(1<<35), 1<<35).Draw(g.t, "time"), 0)))
		return
	case t == typError:
		if !g.absent(path) {
			s := g.str(path)
			if s == "" {
				s = "e"
			}
			v.Set(reflect.ValueOf(errors.New(s)))
		}
		return
	}
	switch t.Kind() {
	case reflect.Bool:
		v.SetBool(rapid.Bool().Draw(g.t, "bool"))
	case reflect.Uint, reflect.Uint8, reflect.Uint16, reflect.Uint32, reflect.Uint64:
		v.SetUint(g.uintVal(path, t.Bits()))
	case reflect.Int, reflect.Int8, reflect.Int16, reflect.Int32, reflect.Int64:
		v.SetInt(g.intVal(t.Bits()))
	case reflect.String:
		v.SetString(g.str(path))
	case reflect.Array:
		if !isByteArray(t) {
			panic("c18 engine: unsupported array at " + path)
		}
		reflect.Copy(v, reflect.ValueOf(g.fixedBytes(t.Len())))
	case reflect.Slice:
		if isByteSlice(t) {
			b := g.byteSlice(path)
			if b != nil {
				v.SetBytes(b)
			}
			return
		}
		if g.absent(path) {
			if rapid.Bool().Draw(g.t, "emptySlice") {
				v.Set(reflect.MakeSlice(t, 0, 0))
			}
			return
		}
		n := rapid.IntRange(1, 3).Draw(g.t, "len")
		if depth <= 1 && rapid.IntRange(0, 39).Draw(g.t, "longSlice") == 0 {
			n = rapid.IntRange(10, 40).Draw(g.t, "llen")
		}
		s := reflect.MakeSlice(t, n, n)
		for i := 0; i < n; i++ {
			g.fillElem(s.Index(i), path+"[]", depth+1)
		}
		v.Set(s)
	case reflect.Map:
		if g.absent(path) {
			if rapid.Bool().Draw(g.t, "emptyMap") {
				v.Set(reflect.MakeMap(t))
			}
			return
		}
		n := rapid.IntRange(1, 3).Draw(g.t, "mlen")
		m := reflect.MakeMap(t)
		for i := 0; i < n; i++ {
			key := reflect.New(t.Key()).Elem()
			g.fillElem(key, path+"{key}", depth+1)
			val := reflect.New(t.Elem()).Elem()
			g.fillElem(val, path+"{}", depth+1)
			m.SetMapIndex(key, val)
		}
		v.Set(m)
	case reflect.Ptr:
		if !g.sp.nonNil[path] && g.absent(path) {
			return
		}
		nv := reflect.New(t.Elem())
		g.fill(nv.Elem(), path, depth)
		v.Set(nv)
	case reflect.Struct:
		for i := 0; i < t.NumField(); i++ {
			g.fill(field(v, i), path+"."+t.Field(i).Name, depth)
		}
		if f := typeFix[t]; f != nil {
			f(g, v)
		}
	default:
		panic(fmt.Sprintf("c18 engine: field %s of kind %s is neither generated nor listed as excluded", path, t.Kind()))
	}
}

// fillElem fills a slice element / map key / map value: pointer elements are
// never nil (no caller of the repository puts nil elements into these lists).
func (g *genCtx) fillElem(v reflect.Value, path string, depth int) {
	if v.Kind() == reflect.Ptr && v.Type() != typBigIntPtr {
		nv := reflect.New(v.Type().Elem())
		g.fill(nv.Elem(), path, depth)
		v.Set(nv)
		return
	}
	if isByteSlice(v.Type()) {
		// elements of [][]byte: mostly present
		save := g.bias
		if g.bias == 0 && rapid.IntRange(0, 9).Draw(g.t, "elemPresent") > 0 {
			g.bias = 1
		}
		g.fill(v, path, depth)
		g.bias = save
		return
	}
	g.fill(v, path, depth)
}

// generate draws one object of the spec's type.
func generate(t *rapid.T, sp *spec) interface{} {
	g := &genCtx{t: t, sp: sp}
	switch b := rapid.IntRange(0, 9).Draw(t, "bias"); {
	case b <= 2:
		g.bias = 1
	case b == 3:
		g.bias = 2
	}
	obj := reflect.New(sp.typ)
	g.fill(obj.Elem(), "", 0)
	if sp.fix != nil {
		sp.fix(t, obj.Interface())
	}
	return obj.Interface()
}

// ------------------------------------------------------------------ deep copy

func deepCopy(sp *spec, src interface{}) interface{} {
	s := reflect.ValueOf(src)
	d := reflect.New(s.Type().Elem())
	copyInto(sp, d.Elem(), s.Elem(), "")
	return d.Interface()
}

func copyInto(sp *spec, dst, src reflect.Value, path string) {
	t := src.Type()
	switch {
	case t == typAtomicValue:
		return // caches are never copied
	case t == typBigIntPtr:
		if !src.IsNil() {
			dst.Set(reflect.ValueOf(new(big.Int).Set(src.Interface().(*big.Int))))
		}
		return
	case t == typTime, t == typError:
		dst.Set(src)
		return
	}
	if _, ok := sp.skip[path]; ok {
		return
	}
	switch t.Kind() {
	case reflect.Slice:
		if src.IsNil() {
			return
		}
		n := src.Len()
		s := reflect.MakeSlice(t, n, n)
		if isByteSlice(t) {
			reflect.Copy(s, src)
		} else {
			for i := 0; i < n; i++ {
				copyInto(sp, s.Index(i), src.Index(i), path+"[]")
			}
		}
		dst.Set(s)
	case reflect.Map:
		if src.IsNil() {
			return
		}
		m := reflect.MakeMap(t)
		it := src.MapRange()
		for it.Next() {
			val := reflect.New(t.Elem()).Elem()
			copyInto(sp, val, it.Value(), path+"{}")
			m.SetMapIndex(it.Key(), val)
		}
		dst.Set(m)
	case reflect.Ptr:
		if src.IsNil() {
			return
		}
		nv := reflect.New(t.Elem())
		copyInto(sp, nv.Elem(), src.Elem(), path)
		dst.Set(nv)
	case reflect.Struct:
		for i := 0; i < t.NumField(); i++ {
			copyInto(sp, field(dst, i), fieldRO(src, i), path+"."+t.Field(i).Name)
		}
	default:
		dst.Set(src)
	}
}

// fieldRO returns a readable handle of field i (works on non-addressable map
// values too as long as the field is exported; unexported fields need an
// addressable parent, which all engine values are).
func fieldRO(v reflect.Value, i int) reflect.Value {
	f := v.Field(i)
	if f.CanInterface() {
		return f
	}
	if f.CanAddr() {
		return reflect.NewAt(f.Type(), unsafe.Pointer(f.UnsafeAddr())).Elem()
	}
	// copy the parent into an addressable temporary
	tmp := reflect.New(v.Type()).Elem()
	tmp.Set(v)
	f = tmp.Field(i)
	return reflect.NewAt(f.Type(), unsafe.Pointer(f.UnsafeAddr())).Elem()
}

// --------------------------------------------------------- semantic equality

func bigOrZero(v reflect.Value) *big.Int {
	if v.IsNil() {
		return new(big.Int)
	}
	return v.Interface().(*big.Int)
}

// semDiff returns "" when a and b are semantically equal, otherwise the path
// and the values of the first difference. nil and empty lists are equal, nil
// and zero amounts are equal, errors are equal when their texts are, times when
// their unix seconds are; caches and the spec's skip list are ignored.
func semDiff(sp *spec, a, b reflect.Value, path, dyn string) string {
	t := a.Type()
	if _, ok := sp.skip[path]; ok {
		return ""
	}
	switch {
	case t == typAtomicValue:
		return ""
	case t == typBigIntPtr:
		if bigOrZero(a).Cmp(bigOrZero(b)) != 0 {
			return fmt.Sprintf("%s: %v vs %v", dyn, bigOrZero(a), bigOrZero(b))
		}
		return ""
	case t == typTime:
		x, y := a.Interface().(time.Time), b.Interface().(time.Time)
		if x.Unix() != y.Unix() {
			return fmt.Sprintf("%s: %v vs %v", dyn, x.Unix(), y.Unix())
		}
		return ""
	case t == typError:
		var x, y string
		if !a.IsNil() {
			x = "E:" + a.Interface().(error).Error()
		}
		if !b.IsNil() {
			y = "E:" + b.Interface().(error).Error()
		}
		if x != y {
			return fmt.Sprintf("%s: %q vs %q", dyn, x, y)
		}
		return ""
	}
	switch t.Kind() {
	case reflect.Bool:
		if a.Bool() != b.Bool() {
			return fmt.Sprintf("%s: %v vs %v", dyn, a.Bool(), b.Bool())
		}
	case reflect.Uint, reflect.Uint8, reflect.Uint16, reflect.Uint32, reflect.Uint64:
		if a.Uint() != b.Uint() {
			return fmt.Sprintf("%s: %v vs %v", dyn, a.Uint(), b.Uint())
		}
	case reflect.Int, reflect.Int8, reflect.Int16, reflect.Int32, reflect.Int64:
		if a.Int() != b.Int() {
			return fmt.Sprintf("%s: %v vs %v", dyn, a.Int(), b.Int())
		}
	case reflect.String:
		if a.String() != b.String() {
			return fmt.Sprintf("%s: %q vs %q", dyn, a.String(), b.String())
		}
	case reflect.Array:
		for i := 0; i < t.Len(); i++ {
			if a.Index(i).Uint() != b.Index(i).Uint() {
				return fmt.Sprintf("%s: %x vs %x", dyn, arrBytes(a), arrBytes(b))
			}
		}
	case reflect.Slice:
		if isByteSlice(t) {
			if !bytes.Equal(a.Bytes(), b.Bytes()) {
				return fmt.Sprintf("%s: %s vs %s", dyn, short(a.Bytes()), short(b.Bytes()))
			}
			return ""
		}
		if a.Len() != b.Len() {
			return fmt.Sprintf("%s: %d elements vs %d", dyn, a.Len(), b.Len())
		}
		for i := 0; i < a.Len(); i++ {
			if d := semDiff(sp, a.Index(i), b.Index(i), path+"[]", fmt.Sprintf("%s[%d]", dyn, i)); d != "" {
				return d
			}
		}
	case reflect.Map:
		if sp.valueOnlyMaps[path] {
			// lookup table read with m[k]: a missing key and a zero value are the same
			zero := reflect.Zero(t.Elem())
			for _, m := range []reflect.Value{a, b} {
				for _, k := range sortedKeys(m) {
					av, bv := a.MapIndex(k), b.MapIndex(k)
					if !av.IsValid() {
						av = zero
					}
					if !bv.IsValid() {
						bv = zero
					}
					if d := semDiff(sp, av, bv, path+"{}", fmt.Sprintf("%s{%v}", dyn, k.Interface())); d != "" {
						return d
					}
				}
			}
			return ""
		}
		if a.Len() != b.Len() {
			return fmt.Sprintf("%s: %d keys vs %d", dyn, a.Len(), b.Len())
		}
		for _, k := range sortedKeys(a) {
			bv := b.MapIndex(k)
			if !bv.IsValid() {
				return fmt.Sprintf("%s: key %v missing", dyn, k.Interface())
			}
			av := a.MapIndex(k)
			if d := semDiff(sp, av, bv, path+"{}", fmt.Sprintf("%s{%v}", dyn, k.Interface())); d != "" {
				return d
			}
		}
	case reflect.Ptr:
		if a.IsNil() != b.IsNil() {
			return fmt.Sprintf("%s: nil=%v vs nil=%v", dyn, a.IsNil(), b.IsNil())
		}
		if !a.IsNil() {
			return semDiff(sp, a.Elem(), b.Elem(), path, dyn)
		}
	case reflect.Struct:
		for i := 0; i < t.NumField(); i++ {
			n := t.Field(i).Name
			if d := semDiff(sp, fieldRO(a, i), fieldRO(b, i), path+"."+n, dyn+"."+n); d != "" {
				return d
			}
		}
	case reflect.Interface:
		if a.IsNil() != b.IsNil() {
			return fmt.Sprintf("%s: interface nil=%v vs nil=%v", dyn, a.IsNil(), b.IsNil())
		}
	default:
		panic("c18 engine: cannot compare " + path)
	}
	return ""
}

func semDiffObj(sp *spec, a, b interface{}) string {
	return semDiff(sp, reflect.ValueOf(a).Elem(), reflect.ValueOf(b).Elem(), "", sp.name)
}

func arrBytes(v reflect.Value) []byte {
	b := make([]byte, v.Len())
	for i := range b {
		b[i] = byte(v.Index(i).Uint())
	}
	return b
}

func short(b []byte) string {
	if b == nil {
		return "nil"
	}
	if len(b) > 24 {
		return fmt.Sprintf("%x..(%d bytes)", b[:24], len(b))
	}
	return fmt.Sprintf("%x", b)
}

func sortedKeys(m reflect.Value) []reflect.Value {
	ks := m.MapKeys()
	sort.Slice(ks, func(i, j int) bool { return keyString(ks[i]) < keyString(ks[j]) })
	return ks
}

func keyString(k reflect.Value) string {
	switch k.Kind() {
	case reflect.Uint, reflect.Uint8, reflect.Uint16, reflect.Uint32, reflect.Uint64:
		return fmt.Sprintf("%020d", k.Uint())
	case reflect.Array:
		tmp := reflect.New(k.Type()).Elem()
		tmp.Set(k)
		return fmt.Sprintf("%x", arrBytes(tmp))
	case reflect.String:
		return k.String()
	}
	return fmt.Sprint(k.Interface())
}

// ------------------------------------------------------- leaves and mutation

type step struct {
	kind int // 0 field, 1 index, 2 deref
	idx  int
}

type leaf struct {
	steps []step
	path  string // static path (matches the spec tables)
	dyn   string // path with indices, for messages
}

func appendStep(s []step, st step) []step {
	n := make([]step, len(s)+1)
	copy(n, s)
	n[len(s)] = st
	return n
}

// leaves enumerates every location of obj whose change is a semantic change:
// scalar fields, byte strings, amounts, pointers (nil <-> present), list
// lengths, maps.
func leaves(sp *spec, obj interface{}) []leaf {
	var out []leaf
	var walk func(v reflect.Value, steps []step, path, dyn string)
	walk = func(v reflect.Value, steps []step, path, dyn string) {
		if _, ok := sp.skip[path]; ok {
			return
		}
		t := v.Type()
		if t == typAtomicValue {
			return
		}
		if isOpaqueLeaf(t) || t.Kind() == reflect.Map {
			out = append(out, leaf{steps, path, dyn})
			return
		}
		switch t.Kind() {
		case reflect.Ptr:
			if !sp.nonNil[path] || v.IsNil() {
				out = append(out, leaf{steps, path, dyn + "(nil<->set)"})
			}
			if !v.IsNil() {
				walk(v.Elem(), appendStep(steps, step{2, 0}), path, dyn)
			}
		case reflect.Slice:
			out = append(out, leaf{steps, path, dyn + "(len)"})
			for i := 0; i < v.Len(); i++ {
				e, st := v.Index(i), appendStep(steps, step{1, i})
				if e.Kind() == reflect.Ptr && e.Type() != typBigIntPtr {
					// list elements are never nil: no nil<->set toggle
					walk(e.Elem(), appendStep(st, step{2, 0}), path+"[]", fmt.Sprintf("%s[%d]", dyn, i))
					continue
				}
				walk(e, st, path+"[]", fmt.Sprintf("%s[%d]", dyn, i))
			}
		case reflect.Struct:
			for i := 0; i < t.NumField(); i++ {
				n := t.Field(i).Name
				walk(field(v, i), appendStep(steps, step{0, i}), path+"."+n, dyn+"."+n)
			}
		case reflect.Interface:
			// only reachable when not skipped
			panic("c18 engine: interface field " + path + " must be listed as excluded")
		default:
			panic("c18 engine: unsupported kind at " + path)
		}
	}
	walk(reflect.ValueOf(obj).Elem(), nil, "", sp.name)
	return out
}

func navigate(obj interface{}, steps []step) reflect.Value {
	v := reflect.ValueOf(obj).Elem()
	for _, s := range steps {
		switch s.kind {
		case 0:
			v = field(v, s.idx)
		case 1:
			v = v.Index(s.idx)
		case 2:
			v = v.Elem()
		}
	}
	return v
}

// mutate changes the value at loc into a semantically different value of the
// same domain. It returns a short description.
func mutate(t *rapid.T, sp *spec, loc reflect.Value, path string) string {
	ty := loc.Type()
	g := &genCtx{t: t, sp: sp, k: 1000, bias: 1}
	switch {
	case ty == typBigIntPtr:
		cur := bigOrZero(loc)
		var nv *big.Int
		switch m := rapid.IntRange(0, 3).Draw(t, "mutBig"); {
		case cur.Sign() == 0:
			nv = big.NewInt(int64(1 + m))
		case m == 0:
			nv = nil
		case m == 1:
			nv = new(big.Int).Add(cur, big.NewInt(1))
		case m == 2:
			nv = new(big.Int).Lsh(cur, 8) // same leading bytes, longer
		default:
			nv = new(big.Int).Xor(cur, big.NewInt(1))
			if nv.Sign() == 0 {
				nv = big.NewInt(2)
			}
		}
		if nv == nil {
			loc.Set(reflect.Zero(ty))
		} else {
			loc.Set(reflect.ValueOf(nv))
		}
		return fmt.Sprintf("%v -> %v", cur, nv)
	case ty == typTime:
		cur := loc.Interface().(time.Time)
		loc.Set(reflect.ValueOf(cur.Add(time.Second)))
		return "time +1s"
	case ty == typError:
		if loc.IsNil() {
			loc.Set(reflect.ValueOf(errors.New("e")))
			return "nil -> error"
		}
		if rapid.Bool().Draw(t, "mutErr") {
			loc.Set(reflect.Zero(ty))
			return "error -> nil"
		}
		loc.Set(reflect.ValueOf(errors.New(loc.Interface().(error).Error() + "x")))
		return "error text"
	}
	switch ty.Kind() {
	case reflect.Bool:
		loc.SetBool(!loc.Bool())
		return "flip"
	case reflect.Uint, reflect.Uint8, reflect.Uint16, reflect.Uint32, reflect.Uint64:
		lo, hi := uint64(0), maxOfBits(ty.Bits())
		if r, ok := sp.ranges[path]; ok {
			lo, hi = r[0], r[1]
		}
		cur := loc.Uint()
		var nv uint64
		switch m := rapid.IntRange(0, 4).Draw(t, "mutUint"); {
		case m == 0 && cur != lo:
			nv = lo
		case m == 1 && cur != hi:
			nv = hi
		case m == 2:
			nv = cur ^ (uint64(1) << uint(rapid.IntRange(0, ty.Bits()-1).Draw(t, "bit")))
		case m == 3 && cur > lo:
			nv = cur - 1
		default:
			nv = cur + 1
		}
		if nv < lo || nv > hi || nv == cur {
			if cur < hi {
				nv = cur + 1
			} else {
				nv = cur - 1
			}
		}
		loc.SetUint(nv)
		return fmt.Sprintf("%d -> %d", cur, nv)
	case reflect.Int, reflect.Int8, reflect.Int16, reflect.Int32, reflect.Int64:
		cur := loc.Int()
		var nv int64
		switch m := rapid.IntRange(0, 3).Draw(t, "mutInt"); {
		case m == 0 && cur != 0:
			nv = 0
		case m == 1 && cur != -cur:
			nv = -cur
		case m == 2:
			nv = cur ^ (int64(1) << uint(rapid.IntRange(0, ty.Bits()-2).Draw(t, "bit")))
		default:
			nv = cur + 1
			if nv < cur { // overflow
				nv = cur - 1
			}
		}
		if ty.Bits() < 64 {
			max := int64(maxOfBits(ty.Bits() - 1))
			if nv > max || nv < -max-1 || nv == cur {
				nv = cur ^ 1
			}
		}
		loc.SetInt(nv)
		return fmt.Sprintf("%d -> %d", cur, nv)
	case reflect.String:
		cur := loc.String()
		switch m := rapid.IntRange(0, 2).Draw(t, "mutStr"); {
		case cur == "":
			loc.SetString("k")
		case m == 0:
			loc.SetString("")
		case m == 1:
			loc.SetString(cur + "x")
		default:
			loc.SetString("y" + cur)
		}
		return fmt.Sprintf("%q -> %q", cur, loc.String())
	case reflect.Array:
		i := rapid.IntRange(0, ty.Len()-1).Draw(t, "mutArrIdx")
		bit := rapid.IntRange(0, 7).Draw(t, "mutArrBit")
		e := loc.Index(i)
		e.SetUint(e.Uint() ^ (1 << uint(bit)))
		return fmt.Sprintf("byte %d bit %d", i, bit)
	case reflect.Slice:
		if isByteSlice(ty) {
			cur := append([]byte{}, loc.Bytes()...)
			var nv []byte
			switch m := rapid.IntRange(0, 4).Draw(t, "mutBytes"); {
			case len(cur) == 0:
				nv = []byte{byte(m)} // includes the single zero byte
			case m == 0:
				nv = nil
			case m == 1:
				nv = append(cur, 0)
			case m == 2:
				nv = cur[:len(cur)-1]
			case m == 3:
				nv = append([]byte{0}, cur...)
			default:
				i := rapid.IntRange(0, len(cur)-1).Draw(t, "mutByteIdx")
				cur[i] ^= 1 << uint(rapid.IntRange(0, 7).Draw(t, "mutByteBit"))
				nv = cur
			}
			if nv == nil {
				loc.Set(reflect.Zero(ty))
			} else {
				loc.SetBytes(nv)
			}
			return fmt.Sprintf("%s -> %s", short(cur), short(nv))
		}
		n := loc.Len()
		if n == 0 || rapid.Bool().Draw(t, "mutAppend") {
			e := reflect.New(ty.Elem()).Elem()
			g.fillElem(e, path+"[]", 3)
			ns := reflect.MakeSlice(ty, n, n+1)
			reflect.Copy(ns, loc)
			loc.Set(reflect.Append(ns, e))
			return "append element"
		}
		if n >= 2 && rapid.Bool().Draw(t, "mutRemoveFirst") {
			loc.Set(loc.Slice(1, n))
			return "remove first element"
		}
		loc.Set(loc.Slice(0, n-1))
		return "remove last element"
	case reflect.Ptr:
		if loc.IsNil() {
			nv := reflect.New(ty.Elem())
			g.fill(nv.Elem(), path, 3)
			loc.Set(nv)
			return "nil -> set"
		}
		loc.Set(reflect.Zero(ty))
		return "set -> nil"
	case reflect.Map:
		keys := []reflect.Value{}
		if !loc.IsNil() {
			keys = sortedKeys(loc)
		}
		free := !sp.valueOnlyMaps[path]
		m := rapid.IntRange(0, 2).Draw(t, "mutMap")
		if len(keys) == 0 && !free {
			return "" // nothing to change
		}
		if free && (len(keys) == 0 || m == 0) {
			if loc.IsNil() {
				loc.Set(reflect.MakeMap(ty))
			}
			for {
				key := reflect.New(ty.Key()).Elem()
				g.fillElem(key, path+"{key}", 3)
				if loc.MapIndex(key).IsValid() {
					continue
				}
				val := reflect.New(ty.Elem()).Elem()
				g.fillElem(val, path+"{}", 3)
				loc.SetMapIndex(key, val)
				return "add key"
			}
		}
		k := keys[rapid.IntRange(0, len(keys)-1).Draw(t, "mutMapKey")]
		if free && m == 1 {
			loc.SetMapIndex(k, reflect.Value{})
			return "remove key"
		}
		// change the value under k
		val := reflect.New(ty.Elem()).Elem()
		copyInto(sp, val, loc.MapIndex(k), path+"{}")
		box := reflect.New(ty.Elem())
		box.Elem().Set(val)
		sub := leavesOfValue(sp, box.Elem(), path+"{}")
		if len(sub) == 0 {
			return ""
		}
		l := sub[rapid.IntRange(0, len(sub)-1).Draw(t, "mutMapLeaf")]
		target := box.Elem()
		for _, s := range l.steps {
			switch s.kind {
			case 0:
				target = field(target, s.idx)
			case 1:
				target = target.Index(s.idx)
			case 2:
				target = target.Elem()
			}
		}
		d := mutate(t, sp, target, l.path)
		loc.SetMapIndex(k, box.Elem())
		return "value of key: " + d
	}
	panic("c18 engine: cannot mutate " + path)
}

// leavesOfValue enumerates the leaves below an arbitrary addressable value
// (used for map values).
func leavesOfValue(sp *spec, v reflect.Value, path string) []leaf {
	var out []leaf
	var walk func(v reflect.Value, steps []step, path string)
	walk = func(v reflect.Value, steps []step, path string) {
		t := v.Type()
		if t == typAtomicValue {
			return
		}
		if isOpaqueLeaf(t) {
			out = append(out, leaf{steps, path, path})
			return
		}
		switch t.Kind() {
		case reflect.Ptr:
			out = append(out, leaf{steps, path, path})
			if !v.IsNil() {
				walk(v.Elem(), appendStep(steps, step{2, 0}), path)
			}
		case reflect.Slice:
			out = append(out, leaf{steps, path, path})
			for i := 0; i < v.Len(); i++ {
				e, st := v.Index(i), appendStep(steps, step{1, i})
				if e.Kind() == reflect.Ptr && e.Type() != typBigIntPtr {
					walk(e.Elem(), appendStep(st, step{2, 0}), path+"[]")
					continue
				}
				walk(e, st, path+"[]")
			}
		case reflect.Struct:
			for i := 0; i < t.NumField(); i++ {
				walk(field(v, i), appendStep(steps, step{0, i}), path+"."+t.Field(i).Name)
			}
		}
	}
	walk(v, nil, path)
	return out
}

// ------------------------------------------------------------ presence masks

// optionalPaths lists the static paths of the optional fields of a type:
// pointers, lists, byte strings, amounts, strings, maps, errors. Fields inside
// list elements are not counted.
func optionalPaths(sp *spec) []string {
	var out []string
	var walk func(t reflect.Type, path string)
	walk = func(t reflect.Type, path string) {
		if _, ok := sp.skip[path]; ok {
			return
		}
		if t == typAtomicValue || t == typTime {
			return
		}
		if t == typBigIntPtr || t == typError {
			out = append(out, path)
			return
		}
		switch t.Kind() {
		case reflect.String, reflect.Slice, reflect.Map:
			out = append(out, path)
		case reflect.Ptr:
			if !sp.nonNil[path] {
				out = append(out, path)
			}
			walk(t.Elem(), path)
		case reflect.Struct:
			for i := 0; i < t.NumField(); i++ {
				walk(t.Field(i).Type, path+"."+t.Field(i).Name)
			}
		}
	}
	walk(sp.typ, "")
	// a pointer and its pointee share a path; keep one entry each
	seen := map[string]bool{}
	var uniq []string
	for _, p := range out {
		if !seen[p] {
			seen[p] = true
			uniq = append(uniq, p)
		}
	}
	return uniq
}

// presence returns, for every optional path, whether the field is present
// (non-nil, non-empty, non-zero amount) in obj.
func presence(sp *spec, obj interface{}, opt []string) (mask string, present int) {
	have := map[string]bool{}
	var walk func(v reflect.Value, path string)
	walk = func(v reflect.Value, path string) {
		if _, ok := sp.skip[path]; ok {
			return
		}
		t := v.Type()
		if t == typAtomicValue || t == typTime {
			return
		}
		if t == typBigIntPtr {
			have[path] = !v.IsNil() && v.Interface().(*big.Int).Sign() != 0
			return
		}
		if t == typError {
			have[path] = !v.IsNil()
			return
		}
		switch t.Kind() {
		case reflect.String, reflect.Slice, reflect.Map:
			have[path] = v.Len() > 0
		case reflect.Ptr:
			if !v.IsNil() {
				if !sp.nonNil[path] {
					have[path] = true
				}
				if isStructPtrWalkable(t) {
					walk(v.Elem(), path)
				}
			}
		case reflect.Struct:
			for i := 0; i < t.NumField(); i++ {
				walk(field(v, i), path+"."+t.Field(i).Name)
			}
		}
	}
	walk(reflect.ValueOf(obj).Elem(), "")
	var sb strings.Builder
	for _, p := range opt {
		if have[p] {
			sb.WriteByte('1')
			present++
		} else {
			sb.WriteByte('0')
		}
	}
	return sb.String(), present
}

func isStructPtrWalkable(t reflect.Type) bool {
	return t.Elem().Kind() == reflect.Struct || isByteArray(t.Elem())
}

// allFieldPaths lists every struct field below a type (static paths), marking
// the excluded ones; used for the evidence file.
func allFieldPaths(sp *spec) (covered []string, excluded map[string]string) {
	excluded = map[string]string{}
	seenT := map[string]bool{}
	var walk func(t reflect.Type, path string)
	walk = func(t reflect.Type, path string) {
		if r, ok := sp.skip[path]; ok {
			excluded[path] = r
			return
		}
		if t == typAtomicValue {
			excluded[path] = "node-local cache or annotation held in an atomic.Value (hash, recovered sender/public key, shard id, priority, proof-checked mark): derived from the encoded fields or from local state, never transmitted or stored"
			return
		}
		if isOpaqueLeaf(t) {
			covered = append(covered, path)
			return
		}
		switch t.Kind() {
		case reflect.Ptr:
			walk(t.Elem(), path)
		case reflect.Slice:
			walk(t.Elem(), path+"[]")
		case reflect.Map:
			walk(t.Elem(), path+"{}")
		case reflect.Struct:
			key := path + "|" + t.String()
			if seenT[key] {
				return
			}
			seenT[key] = true
			for i := 0; i < t.NumField(); i++ {
				walk(t.Field(i).Type, path+"."+t.Field(i).Name)
			}
		default:
			covered = append(covered, path+"!unsupported")
		}
	}
	walk(sp.typ, "")
	return
}

package c18

// Objects that have already been USED. Eight types of blockchain/types keep memo
// cells next to their encoded fields (hash, hash128, recovered sender / public
// key / voter, shard and priority annotations) that are filled lazily and never
// invalidated. The other tests of this package always look at objects nobody
// has touched yet. Here every object gets a generated usage history (accessors
// asked, encoded, annotated, signed before - possibly by another key or under
// the legacy flag) BEFORE the operation under test:
//   - encode / decode (all eight types),
//   - the signing APIs that return a NEW object (SignTx, SignFlipKey,
//     SignFlipKeysPackage), also chained (the result is used and signed again),
//   - building an object around used parts (block with used transactions, block
//     re-assembled from header and body, proposal around a used block, flip around
//     a used transaction, certificate compressed from used votes).
// Oracle: whatever the resulting object answers (Hash, Hash128, signer) is what a
// node answers that decodes the object's own encoding, hashes defined over the
// full encoding are the hash of ToBytes(), and the result of a signing API
// recovers the owner of the key it was given.

import (
	"bytes"
	"crypto/ecdsa"
	"fmt"
	"sort"
	"strings"
	"testing"

	"github.com/idena-network/idena-go/blockchain/types"
	"github.com/idena-network/idena-go/common"
	"github.com/idena-network/idena-go/crypto"
	"pgregory.net/rapid"

	"verifharness/internal/evid"
)

type memoAccessor struct {
	name  string
	fn    func(o interface{}) ([]byte, error)
	valid func(o interface{}) bool // nil = always defined
	// wire != nil: the answer is by definition this hash of the object's full encoding
	wire func(enc []byte) []byte
}

type memoUse struct {
	name string
	fn   func(t *rapid.T, o interface{})
}

type memoType struct {
	sp   *spec
	ss   *signSpec // nil: the type carries no signature of its own
	acc  []memoAccessor
	uses []memoUse // uses that answer nothing (encode, annotate)
	// derive is the repository's signing API that returns a NEW signed object
	derive func(o interface{}, key *ecdsa.PrivateKey) (interface{}, error)
	// inner lists the transactions nested in the object
	inner func(o interface{}) []*types.Transaction
}

func keccakOf(b []byte) []byte { h := crypto.Hash(b); return h[:] }
func shakeOf(b []byte) []byte  { h := crypto.Hash128(b); return h[:] }

func signSpecByName(name string) *signSpec {
	for _, ss := range signSpecs {
		if ss.sp.name == name {
			return ss
		}
	}
	return nil
}

var memoTypes = buildMemoTypes()

func buildMemoTypes() []*memoType {
	// hashes that are the hash of the full encoding by definition (types.go: Hash128 of every type,
	// Transaction.Hash, PublicFlipKey.Hash); Block.Hash is the header hash, Vote.Hash covers the voter
	wireHash := func(typ, h string) func([]byte) []byte {
		switch {
		case h == "Hash128":
			return shakeOf
		case h == "Hash" && (typ == "types.Transaction" || typ == "types.PublicFlipKey"):
			return keccakOf
		}
		return nil
	}
	mkType := func(name string) *memoType {
		mt := &memoType{sp: specByName(name), ss: signSpecByName(name)}
		for _, h := range mt.sp.hashes {
			h := h
			mt.acc = append(mt.acc, memoAccessor{name: h.name, valid: h.valid, wire: wireHash(name, h.name),
				fn: func(o interface{}) ([]byte, error) { return h.fn(o), nil }})
		}
		if mt.ss != nil {
			mt.sp = mt.ss.sp // the signed variant of the spec (a vote has a header, a proposal a block)
			mt.acc = append(mt.acc, memoAccessor{name: "signer", fn: mt.ss.signer})
		}
		enc := mt.sp.enc
		mt.uses = append(mt.uses, memoUse{"ToBytes", func(_ *rapid.T, o interface{}) { _, _ = enc(o) }})
		return mt
	}
	var l []*memoType

	tx := mkType("types.Transaction")
	tx.derive = func(o interface{}, k *ecdsa.PrivateKey) (interface{}, error) {
		return types.SignTx(o.(*types.Transaction), k)
	}
	tx.uses = append(tx.uses,
		memoUse{"Size", func(_ *rapid.T, o interface{}) { _ = o.(*types.Transaction).Size() }},
		memoUse{"ToSignatureBytes", func(_ *rapid.T, o interface{}) { _, _ = o.(*types.Transaction).ToSignatureBytes() }},
		memoUse{"SetShardId", func(t *rapid.T, o interface{}) {
			o.(*types.Transaction).SetShardId(common.ShardId(rapid.IntRange(0, 5).Draw(t, "shard")))
		}},
		memoUse{"SetHighPriority", func(t *rapid.T, o interface{}) {
			o.(*types.Transaction).SetHighPriority(rapid.Bool().Draw(t, "prio"))
		}},
		memoUse{"MarkAsValidLongSessionAnswers", func(_ *rapid.T, o interface{}) {
			types.MarkAsValidLongSessionAnswers(o.(*types.Transaction))
		}},
	)
	l = append(l, tx)

	fk := mkType("types.PublicFlipKey")
	fk.derive = func(o interface{}, k *ecdsa.PrivateKey) (interface{}, error) {
		return types.SignFlipKey(o.(*types.PublicFlipKey), k)
	}
	fk.uses = append(fk.uses,
		memoUse{"SetShardId", func(t *rapid.T, o interface{}) {
			o.(*types.PublicFlipKey).SetShardId(common.ShardId(rapid.IntRange(0, 5).Draw(t, "shard")))
		}},
		memoUse{"SetHighPriority", func(t *rapid.T, o interface{}) {
			o.(*types.PublicFlipKey).SetHighPriority(rapid.Bool().Draw(t, "prio"))
		}},
	)
	l = append(l, fk)

	pkg := mkType("types.PrivateFlipKeysPackage")
	pkg.derive = func(o interface{}, k *ecdsa.PrivateKey) (interface{}, error) {
		return types.SignFlipKeysPackage(o.(*types.PrivateFlipKeysPackage), k)
	}
	l = append(l, pkg)

	l = append(l, mkType("types.Vote"), mkType("types.ProofProposal"))

	blk := mkType("types.Block")
	blk.inner = func(o interface{}) []*types.Transaction {
		if b := o.(*types.Block); b.Body != nil {
			return b.Body.Transactions
		}
		return nil
	}
	l = append(l, blk)

	bp := mkType("types.BlockProposal")
	bp.acc = append(bp.acc,
		memoAccessor{name: "Block.Hash128", fn: func(o interface{}) ([]byte, error) {
			return h16(o.(*types.BlockProposal).Block.Hash128()), nil
		}},
		memoAccessor{name: "Block.Hash", fn: func(o interface{}) ([]byte, error) {
			return h32(o.(*types.BlockProposal).Block.Hash()), nil
		}, valid: func(o interface{}) bool { return headerValid(o.(*types.BlockProposal).Block.Header) }},
	)
	bp.inner = func(o interface{}) []*types.Transaction {
		if b := o.(*types.BlockProposal).Block; b != nil && b.Body != nil {
			return b.Body.Transactions
		}
		return nil
	}
	l = append(l, bp)

	fl := mkType("types.Flip")
	fl.inner = func(o interface{}) []*types.Transaction {
		if f := o.(*types.Flip); f.Tx != nil {
			return []*types.Transaction{f.Tx}
		}
		return nil
	}
	l = append(l, fl)
	return l
}

func memoTypeByName(name string) *memoType {
	for _, mt := range memoTypes {
		if mt.sp.name == name {
			return mt
		}
	}
	panic("no memo type " + name)
}

// ask returns the accessor's answer in comparable form ("ERR": it reports an error; which one is not compared).
func (a memoAccessor) ask(o interface{}) (s string) {
	defer func() {
		if r := recover(); r != nil {
			s = fmt.Sprintf("PANIC(%v)", r)
		}
	}()
	if a.valid != nil && !a.valid(o) {
		return "n/a"
	}
	b, err := a.fn(o)
	if err != nil {
		return "ERR"
	}
	return fmt.Sprintf("%x", b)
}

// history is what was done to an object before the operation under test.
type history struct {
	uses     []string
	memoised bool // at least one memoising accessor had a defined answer
}

func (h *history) String() string {
	if len(h.uses) == 0 {
		return "untouched"
	}
	return strings.Join(h.uses, ",")
}

func (h *history) set() string {
	u := append([]string{}, h.uses...)
	sort.Strings(u)
	var out []string
	for i, s := range u {
		if i == 0 || s != u[i-1] {
			out = append(out, s)
		}
	}
	return strings.Join(out, ",")
}

// use applies 0..max drawn uses to o.
func (mt *memoType) use(t *rapid.T, o interface{}, max int, h *history, prefix string) {
	n := rapid.IntRange(0, max).Draw(t, "uses")
	for i := 0; i < n; i++ {
		k := rapid.IntRange(0, len(mt.acc)+len(mt.uses)-1).Draw(t, "use")
		if k < len(mt.acc) {
			a := mt.acc[k]
			if r := a.ask(o); r != "n/a" && !strings.HasPrefix(r, "PANIC") {
				h.memoised = true
			}
			h.uses = append(h.uses, prefix+a.name)
			continue
		}
		u := mt.uses[k-len(mt.acc)]
		u.fn(t, o)
		h.uses = append(h.uses, prefix+u.name)
	}
}

// useAll draws a history for the object and for the transactions nested in it.
func (mt *memoType) useAll(t *rapid.T, o interface{}, h *history) {
	before := len(h.uses)
	if mt.inner != nil {
		txT := memoTypeByName("types.Transaction")
		for _, tx := range mt.inner(o) {
			txT.use(t, tx, 2, h, "tx.")
		}
	}
	mt.use(t, o, 4, h, "")
	for _, u := range h.uses[before:] {
		evid.Count("memo.used-before." + mt.sp.name + "." + u)
	}
	if len(h.uses) == 0 {
		evid.Count("memo.used-before." + mt.sp.name + ".(untouched)")
	}
}

// coherent is the oracle: every answer of o is the answer of the object a node decodes from o's own encoding
// (in a drawn order of asking, and asked twice), hashes over the full encoding are the hash of ToBytes(),
// and, when wantSigner is given, the recovered signer is wantSigner - here and on the decoding node.
func (mt *memoType) coherent(t *rapid.T, what string, o interface{}, wantEnc, wantSigner []byte, h *history) {
	sp := mt.sp
	enc, err := safeEnc(sp, o)
	if err != nil {
		t.Fatalf("%s (%s; before: %v): encode: %v", what, sp.name, h, err)
	}
	if wantEnc != nil && !bytes.Equal(enc, wantEnc) {
		t.Fatalf("%s (%s): using the object (%v) changed its encoding:\n before %x\n after  %x", what, sp.name, h, wantEnc, enc)
	}
	y, err := safeDec(sp, enc)
	if err != nil {
		t.Fatalf("%s (%s; before: %v): decoding its own encoding: %v", what, sp.name, h, err)
	}
	off := rapid.IntRange(0, len(mt.acc)-1).Draw(t, "askFirst")
	for i := range mt.acc {
		a := mt.acc[(i+off)%len(mt.acc)]
		got, ref := a.ask(o), a.ask(y)
		if got != ref {
			t.Fatalf("%s: %s.%s answers %s, the object decoded from its own encoding answers %s (before the operation: %v; encoding %s)",
				what, sp.name, a.name, got, ref, h, short(enc))
		}
		if a.wire != nil && got != "n/a" {
			if w := fmt.Sprintf("%x", a.wire(enc)); got != w {
				t.Fatalf("%s: %s.%s answers %s, the hash of its ToBytes() is %s (before the operation: %v)", what, sp.name, a.name, got, w, h)
			}
		}
		if a.name == "signer" && wantSigner != nil {
			if w := fmt.Sprintf("%x", wantSigner); got != w {
				t.Fatalf("%s: the signer recovered from %s is %s, the owner of the signing key is %s (before the operation: %v)", what, sp.name, got, w, h)
			}
		}
		if again := a.ask(o); again != got {
			t.Fatalf("%s: %s.%s answers %s, asked again %s", what, sp.name, a.name, got, again)
		}
	}
	if mt.inner != nil {
		txT := memoTypeByName("types.Transaction")
		xs, ys := mt.inner(o), mt.inner(y)
		if len(xs) != len(ys) {
			t.Fatalf("%s (%s): %d nested transactions, %d after decode", what, sp.name, len(xs), len(ys))
		}
		for i := range xs {
			for _, a := range txT.acc {
				if got, ref := a.ask(xs[i]), a.ask(ys[i]); got != ref {
					t.Fatalf("%s: nested transaction %d of %s: %s answers %s, after decoding the container %s (before the operation: %v)",
						what, i, sp.name, a.name, got, ref, h)
				}
			}
		}
	}
}

// presign signs a generated (cold) object the way the repository does; returns the expected signer or nil.
func (mt *memoType) presign(t *rapid.T, o interface{}) (signer []byte, label string) {
	if mt.inner != nil {
		txT := memoTypeByName("types.Transaction")
		for _, tx := range mt.inner(o) {
			if rapid.IntRange(0, 2).Draw(t, "innerSigned") > 0 {
				if err := txT.ss.sign(tx, keyFrom(t, "innerKey")); err != nil {
					t.Fatalf("sign nested tx: %v", err)
				}
			}
		}
	}
	if mt.ss == nil {
		return nil, "no-signature"
	}
	if rapid.IntRange(0, 3).Draw(t, "asGenerated") == 3 {
		return nil, "as-generated" // nil, empty or arbitrary signature bytes
	}
	key := keyFrom(t, "keyA")
	if err := mt.ss.sign(o, key); err != nil {
		t.Fatalf("%s: sign: %v", mt.sp.name, err)
	}
	return mt.ss.expected(key), "signed"
}

func txFlag(o interface{}) string {
	if tx, ok := o.(*types.Transaction); ok && tx.UseRlp {
		return "+UseRlp"
	}
	return ""
}

func checkUsed(t *rapid.T, mt *memoType) {
	evid.Eval()
	sp := mt.sp
	x := generate(t, sp)
	signer, signed := mt.presign(t, x)
	signed += txFlag(x)
	evid.Count("memo.case." + sp.name + "." + signed)
	coldEnc, err := safeEnc(sp, deepCopy(sp, x))
	if err != nil {
		t.Fatalf("%s: encode: %v", sp.name, err)
	}

	// (a) used, then encoded / decoded
	a := deepCopy(sp, x)
	ha := &history{}
	mt.useAll(t, a, ha)
	mt.coherent(t, "used object", a, coldEnc, signer, ha)
	if ha.memoised {
		evid.Count("memo.nontrivial.wire." + sp.name)
		evid.NonTrivial("memo|wire|" + sp.name + "|" + signed + "|" + ha.set())
	}

	// (b) used, then handed to the signing API, whose result is used and signed again
	if mt.derive == nil {
		return
	}
	in := deepCopy(sp, x)
	h := &history{}
	chain := rapid.IntRange(1, 3).Draw(t, "chain")
	for c := 1; c <= chain; c++ {
		mt.useAll(t, in, h)
		key := keyFrom(t, "keyB")
		out, err := mt.derive(in, key)
		if err != nil {
			t.Fatalf("%s: signing API: %v", sp.name, err)
		}
		state := signed
		if c > 1 {
			state = "signed-by-api" + txFlag(in)
		}
		evid.Count(fmt.Sprintf("memo.resign.%s.input=%s", sp.name, state))
		if h.memoised {
			evid.Count("memo.resign." + sp.name + ".input-answered-before")
		}
		mt.coherent(t, fmt.Sprintf("result of signing API call %d on a %s input", c, state), out, nil, mt.ss.expected(key), h)
		if h.memoised || state != "as-generated" {
			evid.Count("memo.nontrivial.resign." + sp.name)
			evid.NonTrivial(fmt.Sprintf("memo|resign|%s|%s|%d|%s", sp.name, state, c, h.set()))
		}
		// the result is now an object whose every accessor has been asked; it is the next input
		in = out
		h = &history{uses: []string{"(every accessor)"}, memoised: true}
	}
	evid.Count(fmt.Sprintf("memo.resign.chain=%d", chain))
}

// checkAssembled builds objects around parts that were used before.
func checkAssembled(t *rapid.T) {
	evid.Eval()
	blkT, bpT, flT, txT, voteT := memoTypeByName("types.Block"), memoTypeByName("types.BlockProposal"),
		memoTypeByName("types.Flip"), memoTypeByName("types.Transaction"), memoTypeByName("types.Vote")

	// a block whose parts were used, re-assembled from header and body (as the block store does) and wrapped into a proposal
	b := generate(t, blkT.sp).(*types.Block)
	blkT.presign(t, b)
	h := &history{}
	blkT.useAll(t, b, h)
	re := &types.Block{Header: b.Header, Body: b.Body}
	blkT.coherent(t, "block re-assembled from the header and body of a used block", re, nil, nil, h)
	for _, a := range blkT.acc {
		if x, y := a.ask(b), a.ask(re); x != y {
			t.Fatalf("Block.%s: %s for the used block, %s for the block re-assembled from its header and body (%v)", a.name, x, y, h)
		}
	}
	key := keyFrom(t, "proposer")
	p := &types.BlockProposal{Block: b, Proof: rapid.SliceOfN(rapid.Byte(), 0, 40).Draw(t, "proof")}
	if err := bpT.ss.sign(p, key); err != nil {
		t.Fatalf("sign proposal: %v", err)
	}
	bpT.coherent(t, "proposal around a used block", p, nil, bpT.ss.expected(key), h)
	evid.Count("memo.assembled.block+proposal")
	if h.memoised {
		evid.Count("memo.nontrivial.assembled.block")
		evid.NonTrivial("memo|assembled|block|" + h.set())
	}

	// a flip around a used transaction
	tx := generate(t, txT.sp).(*types.Transaction)
	txSigner, _ := txT.presign(t, tx)
	hf := &history{}
	txT.useAll(t, tx, hf)
	f := &types.Flip{Tx: tx, PublicPart: rapid.SliceOfN(rapid.Byte(), 0, 20).Draw(t, "pub"), PrivatePart: rapid.SliceOfN(rapid.Byte(), 0, 20).Draw(t, "priv")}
	flT.coherent(t, "flip around a used transaction", f, nil, nil, hf)
	txT.coherent(t, "used transaction put into a flip", f.Tx, nil, txSigner, hf)
	evid.Count("memo.assembled.flip")
	if hf.memoised {
		evid.Count("memo.nontrivial.assembled.flip")
		evid.NonTrivial("memo|assembled|flip|" + hf.set())
	}

	// a certificate compressed from votes that were used (hashed, voter recovered) before
	base := generate(t, voteT.sp).(*types.Vote).Header
	n := rapid.IntRange(1, 4).Draw(t, "votes")
	full := &types.FullBlockCert{}
	var voters [][]byte
	hv := &history{}
	for i := 0; i < n; i++ {
		k := keyFrom(t, "voter")
		v := &types.Vote{Header: &types.VoteHeader{Round: base.Round, Step: base.Step, ParentHash: base.ParentHash, VotedHash: base.VotedHash,
			TurnOffline: rapid.Bool().Draw(t, "turnOffline"), Upgrade: uint32(rapid.IntRange(0, 3).Draw(t, "upgrade"))}}
		if err := voteT.ss.sign(v, k); err != nil {
			t.Fatalf("sign vote: %v", err)
		}
		voteT.use(t, v, 3, hv, fmt.Sprintf("vote%d.", i))
		full.Votes = append(full.Votes, v)
		voters = append(voters, voteT.ss.expected(k))
	}
	cb, err := full.Compress().ToBytes()
	if err != nil {
		t.Fatalf("encode certificate: %v", err)
	}
	cert := new(types.BlockCert)
	if err := cert.FromBytes(cb); err != nil {
		t.Fatalf("decode certificate: %v", err)
	}
	if len(cert.Signatures) != n {
		t.Fatalf("certificate of %d used votes carries %d signatures", n, len(cert.Signatures))
	}
	for i, sig := range cert.Signatures {
		v := &types.Vote{Header: &types.VoteHeader{Step: cert.Step, Round: cert.Round, TurnOffline: sig.TurnOffline, Upgrade: sig.Upgrade,
			VotedHash: cert.VotedHash, ParentHash: base.ParentHash}, Signature: sig.Signature}
		voteT.coherent(t, fmt.Sprintf("vote %d rebuilt from a certificate of used votes", i), v, nil, voters[i], hv)
		if x, y := full.Votes[i].Hash(), v.Hash(); x != y {
			t.Fatalf("vote %d: hash %x before compression (vote used: %v), %x rebuilt from the certificate", i, x, hv, y)
		}
	}
	evid.Count("memo.assembled.cert")
	if hv.memoised {
		evid.Count("memo.nontrivial.assembled.cert")
		evid.NonTrivial(fmt.Sprintf("memo|assembled|cert|%d|%s", n, hv.set()))
	}
}

// Memoised answers never outlive the content they were computed from: objects with a generated usage history are
// encoded, signed again through the signing APIs, and built into other objects; the result always answers what a node
// answers that decodes the result's own encoding, and a signing API's result recovers the owner of the key given.
func TestUsedObjects(t *testing.T) {
	rapid.Check(t, func(t *rapid.T) {
		for _, mt := range memoTypes {
			checkUsed(t, mt)
		}
		checkAssembled(t)
	})
}

// Plain: the three fixed shapes of a transaction that was used before it is signed.
func TestSignTxOnUsedTransaction(t *testing.T) {
	keyA, _ := crypto.ToECDSA(crypto.Keccak256([]byte("c18-used-a")))
	keyB, _ := crypto.ToECDSA(crypto.Keccak256([]byte("c18-used-b")))
	mkTx := func() *types.Transaction {
		to := common.Address{0x11, 0x22, 0x33}
		return &types.Transaction{AccountNonce: 7, Epoch: 3, Type: types.SendTx, To: &to, Payload: []byte{1, 2, 3}}
	}
	check := func(name string, signed *types.Transaction, key *ecdsa.PrivateKey) {
		evid.Eval()
		evid.Count("regression.SignTx-on-used-tx." + name)
		enc, err := signed.ToBytes()
		if err != nil {
			t.Fatalf("%s: %v", name, err)
		}
		if got, want := signed.Hash(), common.Hash(crypto.Hash(enc)); got != want {
			t.Fatalf("%s: Hash() of the signed transaction is %x, the hash of its ToBytes() is %x", name, got, want)
		}
		if got, want := signed.Hash128(), common.Hash128(crypto.Hash128(enc)); got != want {
			t.Fatalf("%s: Hash128() of the signed transaction is %x, the hash of its ToBytes() is %x", name, got, want)
		}
		dec := new(types.Transaction)
		if err := dec.FromBytes(enc); err != nil {
			t.Fatalf("%s: %v", name, err)
		}
		want := crypto.PubkeyToAddress(key.PublicKey)
		s1, err1 := types.Sender(signed)
		s2, err2 := types.Sender(dec)
		if err1 != nil || err2 != nil || s1 != want || s2 != want {
			t.Fatalf("%s: signer of the signed transaction %x (err %v), of the transaction decoded from its bytes %x (err %v), owner of the key %x",
				name, s1, err1, s2, err2, want)
		}
	}
	// hashed before signing
	tx := mkTx()
	_, _ = tx.Hash(), tx.Hash128()
	s, err := types.SignTx(tx, keyA)
	if err != nil {
		t.Fatal(err)
	}
	check("hashed-before", s, keyA)
	// signed by A, sender recovered, signed again by B
	if a, _ := types.Sender(s); a != crypto.PubkeyToAddress(keyA.PublicKey) {
		t.Fatalf("unexpected signer %x", a)
	}
	s2, err := types.SignTx(s, keyB)
	if err != nil {
		t.Fatal(err)
	}
	check("signed-again", s2, keyB)
	// legacy flag on the input
	tx = mkTx()
	tx.UseRlp = true
	s3, err := types.SignTx(tx, keyA)
	if err != nil {
		t.Fatal(err)
	}
	check("legacy-flag", s3, keyA)
}

package c18

import (
	"bytes"
	"crypto/ecdsa"
	"fmt"
	"testing"

	"github.com/idena-network/idena-go/blockchain/types"
	"github.com/idena-network/idena-go/common"
	"github.com/idena-network/idena-go/crypto"
	"pgregory.net/rapid"

	"verifharness/internal/evid"
)

const maxSignedMutants = 32

// keyFrom derives a private key deterministically from drawn bytes.
func keyFrom(t *rapid.T, label string) *ecdsa.PrivateKey {
	seed := rapid.SliceOfN(rapid.Byte(), 1, 6).Draw(t, label)
	for i := 0; ; i++ {
		k, err := crypto.ToECDSA(crypto.Keccak256(seed, []byte{byte(i)}))
		if err == nil {
			return k
		}
	}
}

type signSpec struct {
	sp *spec
	// sign signs obj in place the way the repository does.
	sign func(obj interface{}, key *ecdsa.PrivateKey) error
	// signer recovers the signer (address or public key bytes) with the
	// repository's own function.
	signer func(obj interface{}) ([]byte, error)
	// expected returns what signer must give for key.
	expected func(key *ecdsa.PrivateKey) []byte
	// static path -> reason: fields that are NOT covered by the signature BY
	// DESIGN. Every other field has to be bound.
	unsigned map[string]string
}

func addrOf(key *ecdsa.PrivateKey) []byte {
	a := crypto.PubkeyToAddress(key.PublicKey)
	return a[:]
}
func pubOf(key *ecdsa.PrivateKey) []byte { return crypto.FromECDSAPub(&key.PublicKey) }

func signHash(h [32]byte, key *ecdsa.PrivateKey) ([]byte, error) { return crypto.Sign(h[:], key) }

var signSpecs = buildSignSpecs()

func buildSignSpecs() []*signSpec {
	var l []*signSpec
	const self = "the signature itself (ECDSA signatures are malleable by design: (r, n-s) verifies for the same signer; where the signature matters the object hash covers it)"

	l = append(l, &signSpec{
		sp: mk("types.Transaction", (*types.Transaction).ToBytes, (*types.Transaction).FromBytes),
		sign: func(o interface{}, key *ecdsa.PrivateKey) error {
			tx := o.(*types.Transaction)
			if tx.UseRlp {
				// legacy scheme: the signature is over the RLP list hash that Sender() uses when UseRlp is set
				sig, err := signHash(types.VerifLegacySignatureHash(tx), key)
				tx.Signature = sig
				return err
			}
			signed, err := types.SignTx(tx, key)
			if err != nil {
				return err
			}
			tx.Signature = signed.Signature
			return nil
		},
		signer: func(o interface{}) ([]byte, error) {
			tx := o.(*types.Transaction)
			a, err := types.Sender(tx)
			if err != nil {
				return nil, err
			}
			pk, err := types.SenderPubKey(tx)
			if err != nil {
				return nil, err
			}
			if a2, _ := crypto.PubKeyBytesToAddress(pk); a2 != a {
				return nil, fmt.Errorf("Sender %x and SenderPubKey %x disagree", a, a2)
			}
			return a[:], nil
		},
		expected: addrOf,
		unsigned: map[string]string{
			".Signature": self,
			".UseRlp":    "selects the hashing scheme (legacy RLP list vs protobuf) and is not inside the signed bytes; flipping it makes Sender() hash differently, so the recovered sender changes anyway (counted as evidence, not demanded)",
		},
	})
	l = append(l, &signSpec{
		sp: mk("types.Vote", (*types.Vote).ToBytes, (*types.Vote).FromBytes, nonNil(".Header")),
		sign: func(o interface{}, key *ecdsa.PrivateKey) error {
			v := o.(*types.Vote)
			sig, err := signHash(crypto.SignatureHash(v), key) // consensus/engine.go: secStore.Sign(SignatureHash(&vote))
			v.Signature = sig
			return err
		},
		signer: func(o interface{}) ([]byte, error) {
			v := o.(*types.Vote)
			pk, err := v.PubKey()
			if err != nil {
				return nil, err
			}
			a, _ := crypto.PubKeyBytesToAddress(pk)
			if va := v.VoterAddr(); va != a {
				return nil, fmt.Errorf("VoterAddr %x and PubKey %x disagree", va, a)
			}
			return pk, nil
		},
		expected: pubOf,
		unsigned: map[string]string{".Signature": self},
	})
	l = append(l, &signSpec{
		sp: mk("types.BlockProposal", (*types.BlockProposal).ToBytes, (*types.BlockProposal).FromBytes, nonNil(".Block")),
		sign: func(o interface{}, key *ecdsa.PrivateKey) error {
			p := o.(*types.BlockProposal)
			sig, err := signHash(crypto.SignatureHash(p), key) // blockchain.go ProposeBlock
			p.Signature = sig
			return err
		},
		signer:   func(o interface{}) ([]byte, error) { return types.BlockProposalPubKey(o.(*types.BlockProposal)) },
		expected: pubOf,
		unsigned: map[string]string{".Signature": self},
	})
	l = append(l, &signSpec{
		sp: mk("types.ProofProposal", (*types.ProofProposal).ToBytes, (*types.ProofProposal).FromBytes),
		sign: func(o interface{}, key *ecdsa.PrivateKey) error {
			p := o.(*types.ProofProposal)
			sig, err := signHash(crypto.SignatureHash(p), key) // consensus/engine.go
			p.Signature = sig
			return err
		},
		signer:   func(o interface{}) ([]byte, error) { return types.ProofProposalPubKey(o.(*types.ProofProposal)) },
		expected: pubOf,
		unsigned: map[string]string{".Signature": self},
	})
	l = append(l, &signSpec{
		sp: mk("types.PublicFlipKey", (*types.PublicFlipKey).ToBytes, (*types.PublicFlipKey).FromBytes),
		sign: func(o interface{}, key *ecdsa.PrivateKey) error {
			k := o.(*types.PublicFlipKey)
			s, err := types.SignFlipKey(k, key)
			if err != nil {
				return err
			}
			k.Signature = s.Signature
			return nil
		},
		signer: func(o interface{}) ([]byte, error) {
			a, err := types.SenderFlipKey(o.(*types.PublicFlipKey))
			return a[:], err
		},
		expected: addrOf,
		unsigned: map[string]string{".Signature": self},
	})
	l = append(l, &signSpec{
		sp: mk("types.PrivateFlipKeysPackage", (*types.PrivateFlipKeysPackage).ToBytes, (*types.PrivateFlipKeysPackage).FromBytes),
		sign: func(o interface{}, key *ecdsa.PrivateKey) error {
			k := o.(*types.PrivateFlipKeysPackage)
			s, err := types.SignFlipKeysPackage(k, key)
			if err != nil {
				return err
			}
			k.Signature = s.Signature
			return nil
		},
		signer: func(o interface{}) ([]byte, error) {
			a, err := types.SenderFlipKeysPackage(o.(*types.PrivateFlipKeysPackage))
			return a[:], err
		},
		expected: addrOf,
		unsigned: map[string]string{".Signature": self},
	})
	return l
}

func checkSigned(t *rapid.T, ss *signSpec) {
	evid.Eval()
	sp := ss.sp
	x := generate(t, sp)
	key := keyFrom(t, "key")
	if err := ss.sign(x, key); err != nil {
		t.Fatalf("%s: sign: %v", sp.name, err)
	}
	label := sp.name
	if tx, ok := x.(*types.Transaction); ok && tx.UseRlp {
		label += "(legacy-rlp)"
	}
	evid.Count("signed." + label)

	want := ss.expected(key)
	// signer is always asked on a fresh copy: the objects cache the recovered signer
	s0, err := ss.signer(deepCopy(sp, x))
	if err != nil || !bytes.Equal(s0, want) {
		t.Fatalf("%s: the signer recovered from a freshly signed object is %x (err %v), want %x", label, s0, err, want)
	}
	// the signer survives the wire
	b, err := safeEnc(sp, x)
	if err != nil {
		t.Fatalf("%s: encode: %v", label, err)
	}
	y, err := safeDec(sp, b)
	if err != nil {
		t.Fatalf("%s: decode: %v", label, err)
	}
	if s1, err := ss.signer(y); err != nil || !bytes.Equal(s1, want) {
		t.Fatalf("%s: after encode/decode the recovered signer is %x (err %v), want %x", label, s1, err, want)
	}

	var ls []leaf
	for _, l := range leaves(sp, x) {
		if _, ok := ss.unsigned[l.path]; ok {
			if l.path == ".UseRlp" {
				m := deepCopy(sp, x).(*types.Transaction)
				m.UseRlp = !m.UseRlp
				if s1, err := ss.signer(m); err != nil || !bytes.Equal(s1, want) {
					evid.Count("unsigned-by-design.tx.UseRlp.flip-changes-sender")
				} else {
					evid.Count("unsigned-by-design.tx.UseRlp.flip-keeps-sender")
				}
			}
			continue
		}
		ls = append(ls, l)
	}
	idx := make([]int, 0, maxSignedMutants)
	if len(ls) <= maxSignedMutants {
		for i := range ls {
			idx = append(idx, i)
		}
	} else {
		for i := 0; i < maxSignedMutants; i++ {
			idx = append(idx, rapid.IntRange(0, len(ls)-1).Draw(t, "leaf"))
		}
	}
	for _, i := range idx {
		l := ls[i]
		m := deepCopy(sp, x)
		desc := mutate(t, sp, navigate(m, l.steps), l.path)
		if desc == "" {
			continue
		}
		if semDiffObj(sp, x, m) == "" {
			t.Fatalf("harness error: mutation %q of %s did not change the value", desc, l.dyn)
		}
		s1, err := ss.signer(m)
		if err == nil && bytes.Equal(s1, want) {
			t.Fatalf("%s: field %s is not bound by the signature: after changing it (%s) the same signer %x is recovered", label, l.dyn, desc, s1)
		}
		if err != nil {
			evid.Count("signed-mutant.recovery-fails")
		} else {
			evid.Count("signed-mutant.other-signer")
		}
		evid.Count("signed-mutants." + label)
	}
	opt := optPaths(sp)
	mask, present := presence(sp, x, opt)
	if 2*present >= len(opt) {
		evid.NonTrivial("signed|" + label + "|" + mask)
	}
}

// Signed objects: the repository's own recovery functions return the signing
// key, also after encode/decode, and no field covered by ToSignatureBytes can
// be changed without changing the recovered signer.
func TestSignaturesBindFields(t *testing.T) {
	excl := map[string]string{}
	for _, ss := range signSpecs {
		for p, r := range ss.unsigned {
			excl[ss.sp.name+p] = r
		}
	}
	evid.Extra("unsigned_by_design", excl)
	rapid.Check(t, func(t *rapid.T) {
		for _, ss := range signSpecs {
			checkSigned(t, ss)
		}
	})
}

// A compressed certificate decodes to something from which block validation
// (Blockchain.ValidateBlockCert) rebuilds every vote with its original voter,
// offline flag and upgrade number.
func TestCertCompression(t *testing.T) {
	rapid.Check(t, func(t *rapid.T) {
		evid.Eval()
		voteSp := signSpecs[1].sp
		base := generate(t, voteSp).(*types.Vote).Header
		n := rapid.IntRange(0, 6).Draw(t, "votes")
		full := &types.FullBlockCert{}
		var voters []common.Address
		for i := 0; i < n; i++ {
			key := keyFrom(t, "voter")
			v := &types.Vote{Header: &types.VoteHeader{
				Round: base.Round, Step: base.Step, ParentHash: base.ParentHash, VotedHash: base.VotedHash,
				TurnOffline: rapid.Bool().Draw(t, "turnOffline"),
				Upgrade:     uint32(rapid.SampledFrom([]uint64{0, 1, 11, 0xffffffff, uint64(i) + 2}).Draw(t, "upgrade")),
			}}
			if err := signSpecs[1].sign(v, key); err != nil {
				t.Fatalf("sign: %v", err)
			}
			full.Votes = append(full.Votes, v)
			voters = append(voters, crypto.PubkeyToAddress(key.PublicKey))
		}
		evid.Count(fmt.Sprintf("cert.votes=%d", n))
		b, err := full.Compress().ToBytes()
		if err != nil {
			t.Fatalf("encode: %v", err)
		}
		cert := new(types.BlockCert)
		if err := cert.FromBytes(b); err != nil {
			t.Fatalf("decode: %v", err)
		}
		if n == 0 {
			if !cert.Empty() {
				t.Fatalf("certificate of no votes is not Empty()")
			}
			return
		}
		if len(cert.Signatures) != n {
			t.Fatalf("compressed certificate has %d signatures, want %d", len(cert.Signatures), n)
		}
		for i, sig := range cert.Signatures {
			// exactly the reconstruction of Blockchain.ValidateBlockCert (blockchain.go:2407)
			vote := types.Vote{
				Header: &types.VoteHeader{
					Step:        cert.Step,
					Round:       cert.Round,
					TurnOffline: sig.TurnOffline,
					Upgrade:     sig.Upgrade,
					VotedHash:   cert.VotedHash,
					ParentHash:  base.ParentHash, // prevBlock.Hash()
				},
				Signature: sig.Signature,
			}
			if got := vote.VoterAddr(); got != voters[i] {
				t.Fatalf("vote %d rebuilt from the compressed certificate recovers voter %x, original voter %x (round %d step %d)", i, got, voters[i], cert.Round, cert.Step)
			}
			o := full.Votes[i].Header
			if sig.TurnOffline != o.TurnOffline || sig.Upgrade != o.Upgrade || cert.Round != o.Round || cert.Step != o.Step || cert.VotedHash != o.VotedHash {
				t.Fatalf("vote %d: compressed certificate carries (%v,%d,%d,%d,%x), vote had (%v,%d,%d,%d,%x)", i,
					sig.TurnOffline, sig.Upgrade, cert.Round, cert.Step, cert.VotedHash, o.TurnOffline, o.Upgrade, o.Round, o.Step, o.VotedHash)
			}
		}
		evid.NonTrivial(fmt.Sprintf("cert|%d|%d", n, base.Step))
	})
}

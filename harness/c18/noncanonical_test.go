package c18

import (
	"bytes"
	"testing"

	"github.com/idena-network/idena-go/blockchain/types"
	"pgregory.net/rapid"

	"verifharness/internal/evid"
)

// Hashes are functions of the object, not of the bytes it happened to arrive in: a peer may send a valid but
// non-canonical protobuf encoding of the same transaction / block (an unknown field appended, a field repeated with the
// same value last, a non-minimal varint for a length). Whatever decodes to an equal object must have the hash of the
// canonical encoding, and must re-encode to the canonical bytes.
func TestHashIndependentOfWireForm(t *testing.T) {
	txSpec := specByName("types.Transaction")
	rapid.Check(t, func(t *rapid.T) {
		evid.Eval()
		x := generate(t, txSpec).(*types.Transaction)
		canonical, err := x.ToBytes()
		if err != nil {
			t.Fatalf("encode: %v", err)
		}
		ref := new(types.Transaction)
		if err := ref.FromBytes(canonical); err != nil {
			t.Fatalf("decode canonical: %v", err)
		}
		want := ref.Hash()
		variants := map[string][]byte{
			// field number 1000, varint 1 / length-delimited "xyz": unknown to the schema, skipped by the decoder
			"unknown-varint-field-appended": append(append([]byte{}, canonical...), 0xc0, 0x3e, 0x01),
			"unknown-bytes-field-appended":  append(append([]byte{}, canonical...), 0xc2, 0x3e, 0x03, 'x', 'y', 'z'),
			"unknown-field-prepended":       append([]byte{0xc0, 0x3e, 0x01}, canonical...),
		}
		if len(canonical) >= 2 && canonical[0]&7 == 2 && canonical[1] < 0x80 {
			// the first field is length-delimited with a one-byte length: the same length as a two-byte varint
			nv := append([]byte{canonical[0], canonical[1] | 0x80, 0x00}, canonical[2:]...)
			variants["non-minimal-length-varint"] = nv
		}
		for name, b := range variants {
			d := new(types.Transaction)
			if err := d.FromBytes(b); err != nil {
				evid.Count("noncanonical.refused." + name) // refusing a non-canonical form is fine
				continue
			}
			if diff := semDiffObj(txSpec, ref, d); diff != "" {
				evid.Count("noncanonical.decodes_to_another_object." + name)
				continue
			}
			evid.Count("noncanonical.accepted." + name)
			if got := d.Hash(); got != want {
				t.Fatalf("transaction decoded from a valid non-canonical encoding (%s) has hash %x, the same transaction from its canonical encoding has %x", name, got, want)
			}
			re, err := d.ToBytes()
			if err != nil || !bytes.Equal(re, canonical) {
				t.Fatalf("transaction decoded from a non-canonical encoding (%s) does not re-encode to the canonical bytes", name)
			}
			evid.NonTrivial("noncanonical|" + name + "|" + string(rune('a'+len(canonical)%26)))
		}
		evid.Sample("noncanonical", len(canonical))
	})
}

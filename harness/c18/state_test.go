package c18

// Oracle (5), state commitment, on the real trees: the bytes of an Account /
// Identity / Global / ApprovedIdentity put under its key are what the state
// database decodes on the next read, and a single-field change of the object
// changes the committed root. Plus the protobuf route: canonical messages built
// from the exported protobuf schema are decoded by the types' own FromBytes,
// observed through the getters, and re-encoded to identical bytes.

import (
	"bytes"
	"fmt"
	"math/big"
	"sort"
	"testing"

	"github.com/golang/protobuf/proto"
	"github.com/idena-network/idena-go/common"
	"github.com/idena-network/idena-go/core/state"
	models "github.com/idena-network/idena-go/protobuf"
	dbm "github.com/tendermint/tm-db"
	"google.golang.org/protobuf/reflect/protoreflect"
	"pgregory.net/rapid"

	"verifharness/internal/evid"
)

func specByName(name string) *spec {
	for _, s := range specs {
		if s.name == name {
			return s
		}
	}
	panic("no spec " + name)
}

// commitState puts value under key into a fresh state tree, commits version 1
// and returns the root and the database handle (caches are cleared by commit).
func commitState(t *rapid.T, key, value []byte) (*state.StateDB, []byte) {
	sdb, err := state.NewLazy(dbm.NewMemDB())
	if err != nil {
		t.Fatalf("NewLazy: %v", err)
	}
	sdb.AddDiff([]*state.StateTreeDiff{{Key: key, Value: value}})
	root, _, err := sdb.CommitTree(1)
	if err != nil {
		t.Fatalf("CommitTree: %v", err)
	}
	return sdb, root
}

func commitIdentityState(t *rapid.T, addr common.Address, value []byte) (*state.IdentityStateDB, []byte) {
	sdb, err := state.NewLazyIdentityState(dbm.NewMemDB())
	if err != nil {
		t.Fatalf("NewLazyIdentityState: %v", err)
	}
	sdb.AddDiff(1, &state.IdentityStateDiff{Values: []*state.IdentityStateDiffValue{{Address: addr, Value: value}}})
	root, _, err := sdb.CommitTree(1)
	if err != nil {
		t.Fatalf("CommitTree: %v", err)
	}
	return sdb, root
}

func TestStateTreeCommit(t *testing.T) {
	kinds := []string{"state.Account", "state.Identity", "state.Global", "state.ApprovedIdentity"}
	rapid.Check(t, func(t *rapid.T) {
		for _, kind := range kinds {
			evid.Eval()
			sp := specByName(kind)
			x := generate(t, sp)
			bx, err := sp.enc(x)
			if err != nil {
				t.Fatalf("%s encode: %v", kind, err)
			}
			if len(bx) == 0 {
				// the all-zero object has the empty encoding; the state database treats an
				// empty value as "no object" and creates the zero object on read
				evid.Count("tree.empty-encoding." + kind)
				continue
			}
			var addr common.Address
			copy(addr[:], rapid.SliceOfN(rapid.Byte(), 20, 20).Draw(t, "addr"))

			var rootOf func(value []byte) []byte
			var read interface{}
			switch kind {
			case "state.Account":
				sdb, _ := commitState(t, state.StateDbKeys.AddressKey(addr), bx)
				a := sdb.VerifC18Account(addr)
				read = &a
				rootOf = func(v []byte) []byte { _, r := commitState(t, state.StateDbKeys.AddressKey(addr), v); return r }
			case "state.Identity":
				sdb, _ := commitState(t, state.StateDbKeys.IdentityKey(addr), bx)
				i := sdb.GetIdentity(addr)
				read = &i
				rootOf = func(v []byte) []byte { _, r := commitState(t, state.StateDbKeys.IdentityKey(addr), v); return r }
			case "state.Global":
				sdb, _ := commitState(t, state.StateDbKeys.GlobalKey(), bx)
				g := sdb.VerifC18Global()
				read = &g
				rootOf = func(v []byte) []byte { _, r := commitState(t, state.StateDbKeys.GlobalKey(), v); return r }
			case "state.ApprovedIdentity":
				sdb, _ := commitIdentityState(t, addr, bx)
				a := sdb.VerifC18ApprovedIdentity(addr)
				read = &a
				rootOf = func(v []byte) []byte { _, r := commitIdentityState(t, addr, v); return r }
			}
			if d := semDiffObj(sp, x, read); d != "" {
				t.Fatalf("%s: the object the state database reads back from its tree differs from the committed one at %s", kind, d)
			}
			root := rootOf(bx)
			if again := rootOf(bx); !bytes.Equal(root, again) {
				t.Fatalf("%s: committing the same value twice gives roots %x and %x", kind, root, again)
			}
			ls := leaves(sp, x)
			for n := 0; n < 4 && len(ls) > 0; n++ {
				l := ls[rapid.IntRange(0, len(ls)-1).Draw(t, "leaf")]
				m := deepCopy(sp, x)
				desc := mutate(t, sp, navigate(m, l.steps), l.path)
				if desc == "" {
					continue
				}
				bm, err := sp.enc(m)
				if err != nil {
					t.Fatalf("%s encode mutant: %v", kind, err)
				}
				if len(bm) == 0 {
					continue
				}
				if rm := rootOf(bm); bytes.Equal(rm, root) {
					t.Fatalf("%s: the state root does not commit to field %s: changing it (%s) leaves the root %x", kind, l.dyn, desc, root)
				}
				evid.Count("tree.root-sensitive." + kind)
			}
			evid.Count("tree.read-back." + kind)
			opt := optPaths(sp)
			mask, present := presence(sp, x, opt)
			if 2*present >= len(opt) {
				evid.NonTrivial("tree|" + kind + "|" + mask)
			}
		}
	})
}

// ------------------------------------------------------------ protobuf route

// narrow lists the protobuf fields whose Go counterpart is narrower than the
// wire type (canonical messages stay inside the Go range), and the byte fields
// with a fixed shape.
var narrow = map[string]uint64{
	"ProtoStateAccount.epoch":              0xffff,
	"ProtoStateIdentity.invites":           0xff,
	"ProtoStateIdentity.birthday":          0xffff,
	"ProtoStateIdentity.state":             0xff,
	"ProtoStateIdentity.requiredFlips":     0xff,
	"ProtoStateIdentity.Flip.pair":         0xff,
	"ProtoStateIdentity.validationBits":    0xff,
	"ProtoStateIdentity.validationStatus":  0xffff,
	"ProtoStateIdentity.delegationEpoch":   0xffff,
	"ProtoStateIdentity.penaltySeconds":    0xffff,
	"ProtoStateIdentity.undelegationEpoch": 0xffff,
	"ProtoStateGlobal.epoch":               0xffff,
	"ProtoStateGlobal.godAddressInvites":   0xffff,
	"ProtoStateGlobal.shardsNum":           8,
	"ProtoStateApprovedIdentity.flags":     7,
}

// shape of byte fields: "big" minimal big-endian amount (optional), "addr?"
// optional 20 bytes, "addr" / "hash" always-present fixed size.
var byteShape = map[string]string{
	"ProtoStateAccount.balance":                      "big",
	"ProtoStateAccount.ProtoContractData.codeHash":   "hash",
	"ProtoStateAccount.ProtoContractData.stake":      "big",
	"ProtoStateIdentity.stake":                       "big",
	"ProtoStateIdentity.penalty":                     "big",
	"ProtoStateIdentity.replenishedStake":            "big",
	"ProtoStateIdentity.lockedStake":                 "big",
	"ProtoStateIdentity.delegatee":                   "addr?",
	"ProtoStateIdentity.TxAddr.hash":                 "hash",
	"ProtoStateIdentity.TxAddr.address":              "addr",
	"ProtoStateIdentity.Inviter.hash":                "hash",
	"ProtoStateIdentity.Inviter.address":             "addr",
	"ProtoStateGlobal.godAddress":                    "addr",
	"ProtoStateGlobal.wordsSeed":                     "hash",
	"ProtoStateGlobal.feePerGas":                     "big",
	"ProtoStateGlobal.emptyBlocksBits":               "big",
	"ProtoStateGlobal.discriminationStakeThreshold":  "big",
	"ProtoStateGlobal.EmptyBlocksByShards.proposers": "addr",
	"ProtoStateApprovedIdentity.delegatee":           "addr?",
}

type popCtx struct {
	t *rapid.T
	k uint64
}

func (p *popCtx) patt(n int) []byte {
	p.k++
	b := make([]byte, n)
	for i := range b {
		b[i] = byte(p.k)*19 + byte(i) + 1
	}
	b[0] |= 1
	return b
}

func (p *popCtx) bytesFor(name string) []byte {
	shape := byteShape[name]
	switch shape {
	case "hash":
		return p.patt(32)
	case "addr":
		return p.patt(20)
	}
	if rapid.IntRange(0, 4).Draw(p.t, "absent") == 0 {
		return nil
	}
	switch shape {
	case "addr?":
		return p.patt(20)
	case "big":
		return p.patt(rapid.IntRange(1, 33).Draw(p.t, "bigLen")) // leading byte non-zero: minimal
	}
	return p.patt(rapid.IntRange(1, 40).Draw(p.t, "len"))
}

func (p *popCtx) scalar(fd protoreflect.FieldDescriptor, name string) protoreflect.Value {
	switch fd.Kind() {
	case protoreflect.BoolKind:
		return protoreflect.ValueOfBool(rapid.Bool().Draw(p.t, "bool"))
	case protoreflect.Uint32Kind:
		max := uint64(0xffffffff)
		if m, ok := narrow[name]; ok {
			max = m
		}
		p.k++
		v := uint64(0)
		switch rapid.IntRange(0, 5).Draw(p.t, "u32mode") {
		case 0:
		case 1:
			v = max
		default:
			v = (p.k*0x9E3779B1)%max + 1
		}
		return protoreflect.ValueOfUint32(uint32(v))
	case protoreflect.Uint64Kind:
		p.k++
		switch rapid.IntRange(0, 5).Draw(p.t, "u64mode") {
		case 0:
			return protoreflect.ValueOfUint64(0)
		case 1:
			return protoreflect.ValueOfUint64(^uint64(0))
		}
		return protoreflect.ValueOfUint64(p.k*0x9E3779B97F4A7C15 | 1)
	case protoreflect.Int64Kind:
		p.k++
		switch rapid.IntRange(0, 5).Draw(p.t, "i64mode") {
		case 0:
			return protoreflect.ValueOfInt64(0)
		case 1:
			return protoreflect.ValueOfInt64(-1 << 63)
		case 2:
			return protoreflect.ValueOfInt64(1<<63 - 1)
		}
		return protoreflect.ValueOfInt64(int64(p.k*0x9E3779B97F4A7C15) >> 3)
	case protoreflect.BytesKind:
		return protoreflect.ValueOfBytes(p.bytesFor(name))
	case protoreflect.StringKind:
		p.k++
		return protoreflect.ValueOfString(fmt.Sprintf("s%d", p.k))
	}
	panic("populate: unsupported kind " + fd.Kind().String() + " at " + name)
}

func (p *popCtx) populate(m protoreflect.Message, prefix string) {
	fds := m.Descriptor().Fields()
	for i := 0; i < fds.Len(); i++ {
		fd := fds.Get(i)
		name := prefix + "." + string(fd.Name())
		switch {
		case fd.IsList():
			l := m.Mutable(fd).List()
			n := rapid.IntRange(0, 3).Draw(p.t, "listLen")
			for j := 0; j < n; j++ {
				if fd.Kind() == protoreflect.MessageKind {
					e := l.NewElement()
					p.populate(e.Message(), prefix+"."+string(fd.Message().Name()))
					l.Append(e)
				} else {
					v := p.scalar(fd, name)
					if fd.Kind() == protoreflect.BytesKind && len(v.Bytes()) == 0 {
						v = protoreflect.ValueOfBytes(p.patt(20))
					}
					l.Append(v)
				}
			}
		case fd.Kind() == protoreflect.MessageKind:
			if rapid.IntRange(0, 4).Draw(p.t, "msgAbsent") == 0 {
				continue
			}
			p.populate(m.Mutable(fd).Message(), prefix+"."+string(fd.Message().Name()))
		default:
			v := p.scalar(fd, name)
			if fd.Kind() == protoreflect.BytesKind && len(v.Bytes()) == 0 {
				continue
			}
			m.Set(fd, v)
		}
	}
}

func bigOf(b []byte) *big.Int { return new(big.Int).SetBytes(b) }

func eqBig(got *big.Int, wire []byte) bool {
	if got == nil {
		got = new(big.Int)
	}
	return got.Cmp(bigOf(wire)) == 0
}

func eqAddrPtr(got *common.Address, wire []byte) bool {
	if len(wire) == 0 {
		return got == nil
	}
	return got != nil && bytes.Equal(got[:], wire)
}

type protoCase struct {
	name   string
	newMsg func() proto.Message
	// canon adjusts the populated message to the canonical form ToBytes writes.
	canon func(m proto.Message)
	// check decodes b with the type's own FromBytes, compares getters with the
	// message and returns the re-encoding.
	check func(t *rapid.T, m proto.Message, b []byte) []byte
}

func need(t *rapid.T, ok bool, typ, fld string, got, want interface{}) {
	if !ok {
		t.Fatalf("%s: after FromBytes %s is %v, the encoded message says %v", typ, fld, got, want)
	}
}

var protoCases = []protoCase{
	{
		name:   "state.Account",
		newMsg: func() proto.Message { return new(models.ProtoStateAccount) },
		check: func(t *rapid.T, pm proto.Message, b []byte) []byte {
			m := pm.(*models.ProtoStateAccount)
			var a state.Account
			if err := a.FromBytes(b); err != nil {
				t.Fatalf("Account.FromBytes: %v", err)
			}
			need(t, a.Nonce == m.Nonce, "Account", "Nonce", a.Nonce, m.Nonce)
			need(t, uint32(a.Epoch) == m.Epoch, "Account", "Epoch", a.Epoch, m.Epoch)
			need(t, eqBig(a.Balance, m.Balance), "Account", "Balance", a.Balance, m.Balance)
			need(t, (a.Contract != nil) == (m.ContractData != nil), "Account", "Contract presence", a.Contract != nil, m.ContractData != nil)
			if a.Contract != nil {
				need(t, bytes.Equal(a.Contract.CodeHash[:], m.ContractData.CodeHash), "Account", "Contract.CodeHash", a.Contract.CodeHash, m.ContractData.CodeHash)
				need(t, eqBig(a.Contract.Stake, m.ContractData.Stake), "Account", "Contract.Stake", a.Contract.Stake, m.ContractData.Stake)
			}
			out, _ := a.ToBytes()
			return out
		},
	},
	{
		name:   "state.ApprovedIdentity",
		newMsg: func() proto.Message { return new(models.ProtoStateApprovedIdentity) },
		check: func(t *rapid.T, pm proto.Message, b []byte) []byte {
			m := pm.(*models.ProtoStateApprovedIdentity)
			var a state.ApprovedIdentity
			if err := a.FromBytes(b); err != nil {
				t.Fatalf("ApprovedIdentity.FromBytes: %v", err)
			}
			need(t, a.Validated == (m.Flags&1 != 0), "ApprovedIdentity", "Validated", a.Validated, m.Flags)
			need(t, a.Online == (m.Flags&2 != 0), "ApprovedIdentity", "Online", a.Online, m.Flags)
			need(t, a.Discriminated == (m.Flags&4 != 0), "ApprovedIdentity", "Discriminated", a.Discriminated, m.Flags)
			need(t, eqAddrPtr(a.Delegatee, m.Delegatee), "ApprovedIdentity", "Delegatee", a.Delegatee, m.Delegatee)
			out, _ := a.ToBytes()
			return out
		},
	},
	{
		name:   "state.Identity",
		newMsg: func() proto.Message { return new(models.ProtoStateIdentity) },
		check: func(t *rapid.T, pm proto.Message, b []byte) []byte {
			m := pm.(*models.ProtoStateIdentity)
			var i state.Identity
			if err := i.FromBytes(b); err != nil {
				t.Fatalf("Identity.FromBytes: %v", err)
			}
			const T = "Identity"
			need(t, eqBig(i.Stake, m.Stake), T, "Stake", i.Stake, m.Stake)
			need(t, uint32(i.Invites) == m.Invites, T, "Invites", i.Invites, m.Invites)
			need(t, uint32(i.Birthday) == m.Birthday, T, "Birthday", i.Birthday, m.Birthday)
			need(t, uint32(i.State) == m.State, T, "State", i.State, m.State)
			need(t, i.QualifiedFlips == m.QualifiedFlips, T, "QualifiedFlips", i.QualifiedFlips, m.QualifiedFlips)
			need(t, i.ShortFlipPoints == m.ShortFlipPoints, T, "ShortFlipPoints", i.ShortFlipPoints, m.ShortFlipPoints)
			need(t, i.GetShortFlipPoints() == float32(m.ShortFlipPoints)/2, T, "GetShortFlipPoints()", i.GetShortFlipPoints(), m.ShortFlipPoints)
			need(t, bytes.Equal(i.PubKey, m.PubKey), T, "PubKey", i.PubKey, m.PubKey)
			need(t, uint32(i.RequiredFlips) == m.RequiredFlips, T, "RequiredFlips", i.RequiredFlips, m.RequiredFlips)
			need(t, len(i.Flips) == len(m.Flips), T, "len(Flips)", len(i.Flips), len(m.Flips))
			for k := range m.Flips {
				need(t, bytes.Equal(i.Flips[k].Cid, m.Flips[k].Cid) && uint32(i.Flips[k].Pair) == m.Flips[k].Pair, T, fmt.Sprintf("Flips[%d]", k), i.Flips[k], m.Flips[k])
			}
			need(t, i.Generation == m.Generation, T, "Generation", i.Generation, m.Generation)
			need(t, bytes.Equal(i.Code, m.Code), T, "Code", i.Code, m.Code)
			need(t, len(i.Invitees) == len(m.Invitees), T, "len(Invitees)", len(i.Invitees), len(m.Invitees))
			for k := range m.Invitees {
				need(t, bytes.Equal(i.Invitees[k].TxHash[:], m.Invitees[k].Hash) && bytes.Equal(i.Invitees[k].Address[:], m.Invitees[k].Address), T, fmt.Sprintf("Invitees[%d]", k), i.Invitees[k], m.Invitees[k])
			}
			need(t, (i.Inviter != nil) == (m.Inviter != nil), T, "Inviter presence", i.Inviter != nil, m.Inviter != nil)
			if i.Inviter != nil {
				need(t, bytes.Equal(i.Inviter.TxHash[:], m.Inviter.Hash) && bytes.Equal(i.Inviter.Address[:], m.Inviter.Address) && i.Inviter.EpochHeight == m.Inviter.EpochHeight, T, "Inviter", i.Inviter, m.Inviter)
			}
			need(t, eqBig(i.Penalty, m.Penalty), T, "Penalty", i.Penalty, m.Penalty)
			need(t, uint32(i.ValidationTxsBits) == m.ValidationBits, T, "ValidationTxsBits", i.ValidationTxsBits, m.ValidationBits)
			need(t, uint32(i.LastValidationStatus) == m.ValidationStatus, T, "LastValidationStatus", i.LastValidationStatus, m.ValidationStatus)
			need(t, bytes.Equal(i.ProfileHash, m.ProfileHash), T, "ProfileHash", i.ProfileHash, m.ProfileHash)
			need(t, bytes.Equal(i.Scores, m.Scores), T, "Scores", i.Scores, m.Scores)
			// private fields through their getters
			if m.PendingUndelegation {
				need(t, i.Delegatee() == nil, T, "Delegatee() while undelegation is pending", i.Delegatee(), nil)
				need(t, eqAddrPtr(i.PendingUndelegation(), m.Delegatee), T, "PendingUndelegation()", i.PendingUndelegation(), m.Delegatee)
			} else {
				need(t, eqAddrPtr(i.Delegatee(), m.Delegatee), T, "Delegatee()", i.Delegatee(), m.Delegatee)
				need(t, i.PendingUndelegation() == nil, T, "PendingUndelegation() without pending flag", i.PendingUndelegation(), nil)
			}
			need(t, i.DelegationNonce == m.DelegationNonce, T, "DelegationNonce", i.DelegationNonce, m.DelegationNonce)
			need(t, uint32(i.DelegationEpoch) == m.DelegationEpoch, T, "DelegationEpoch", i.DelegationEpoch, m.DelegationEpoch)
			need(t, uint32(i.ShardId) == m.ShardId, T, "ShardId", i.ShardId, m.ShardId)
			need(t, eqBig(i.ReplenishedStake(), m.ReplenishedStake), T, "ReplenishedStake()", i.ReplenishedStake(), m.ReplenishedStake)
			need(t, uint32(i.PenaltySeconds()) == m.PenaltySeconds, T, "PenaltySeconds()", i.PenaltySeconds(), m.PenaltySeconds)
			need(t, i.PenaltyTimestamp() == m.PenaltyTimestamp, T, "PenaltyTimestamp()", i.PenaltyTimestamp(), m.PenaltyTimestamp)
			need(t, uint32(i.UndelegationEpoch()) == m.UndelegationEpoch, T, "UndelegationEpoch()", i.UndelegationEpoch(), m.UndelegationEpoch)
			need(t, eqBig(i.LockedStake(), m.LockedStake), T, "LockedStake()", i.LockedStake(), m.LockedStake)
			need(t, i.IsDiscriminatedDelegation() == ((m.PendingUndelegation && len(m.Delegatee) > 0) || m.UndelegationEpoch > 0), T, "IsDiscriminatedDelegation()", i.IsDiscriminatedDelegation(), m.UndelegationEpoch)
			out, _ := i.ToBytes()
			return out
		},
	},
	{
		name:   "state.Global",
		newMsg: func() proto.Message { return new(models.ProtoStateGlobal) },
		canon: func(pm proto.Message) {
			m := pm.(*models.ProtoStateGlobal)
			// ToBytes writes the shards with empty blocks in descending order, one entry per shard
			seen := map[uint32]bool{}
			var l []*models.ProtoStateGlobal_EmptyBlocksByShards
			for _, e := range m.EmptyBlocksByShards {
				if !seen[e.ShardId] {
					seen[e.ShardId] = true
					l = append(l, e)
				}
			}
			sort.SliceStable(l, func(i, j int) bool { return l[i].ShardId > l[j].ShardId })
			m.EmptyBlocksByShards = l
			// and the sizes of the shards 1..shardsNum
			var sizes []*models.ProtoStateGlobal_ShardSize
			for i := uint32(1); i <= m.ShardsNum; i++ {
				s := &models.ProtoStateGlobal_ShardSize{ShardId: i, Size: i * 100}
				if int(i) <= len(m.ShardSizes) {
					s.Size = m.ShardSizes[i-1].Size
				}
				sizes = append(sizes, s)
			}
			m.ShardSizes = sizes
		},
		check: func(t *rapid.T, pm proto.Message, b []byte) []byte {
			m := pm.(*models.ProtoStateGlobal)
			var g state.Global
			if err := g.FromBytes(b); err != nil {
				t.Fatalf("Global.FromBytes: %v", err)
			}
			const T = "Global"
			need(t, uint32(g.Epoch) == m.Epoch, T, "Epoch", g.Epoch, m.Epoch)
			need(t, g.NextValidationTime == m.NextValidationTime, T, "NextValidationTime", g.NextValidationTime, m.NextValidationTime)
			need(t, uint32(g.ValidationPeriod) == m.ValidationPeriod, T, "ValidationPeriod", g.ValidationPeriod, m.ValidationPeriod)
			need(t, bytes.Equal(g.GodAddress[:], m.GodAddress), T, "GodAddress", g.GodAddress, m.GodAddress)
			need(t, bytes.Equal(g.WordsSeed[:], m.WordsSeed), T, "WordsSeed", g.WordsSeed, m.WordsSeed)
			need(t, g.LastSnapshot == m.LastSnapshot, T, "LastSnapshot", g.LastSnapshot, m.LastSnapshot)
			need(t, g.EpochBlock == m.EpochBlock, T, "EpochBlock", g.EpochBlock, m.EpochBlock)
			need(t, fmt.Sprint(g.PrevEpochBlocks) == fmt.Sprint(m.PrevEpochBlocks) || len(g.PrevEpochBlocks)+len(m.PrevEpochBlocks) == 0, T, "PrevEpochBlocks", g.PrevEpochBlocks, m.PrevEpochBlocks)
			need(t, eqBig(g.FeePerGas, m.FeePerGas), T, "FeePerGas", g.FeePerGas, m.FeePerGas)
			need(t, g.VrfProposerThreshold == m.VrfProposerThreshold, T, "VrfProposerThreshold", g.VrfProposerThreshold, m.VrfProposerThreshold)
			need(t, eqBig(g.EmptyBlocksBits, m.EmptyBlocksBits), T, "EmptyBlocksBits", g.EmptyBlocksBits, m.EmptyBlocksBits)
			need(t, uint32(g.GodAddressInvites) == m.GodAddressInvites, T, "GodAddressInvites", g.GodAddressInvites, m.GodAddressInvites)
			need(t, g.BlocksCntWithoutCeremonialTxs == m.BlocksCntWithoutCeremonialTxs, T, "BlocksCntWithoutCeremonialTxs", g.BlocksCntWithoutCeremonialTxs, m.BlocksCntWithoutCeremonialTxs)
			need(t, g.ShardsNum == m.ShardsNum, T, "ShardsNum", g.ShardsNum, m.ShardsNum)
			need(t, eqBig(g.DiscriminationStakeThreshold, m.DiscriminationStakeThreshold), T, "DiscriminationStakeThreshold", g.DiscriminationStakeThreshold, m.DiscriminationStakeThreshold)
			need(t, len(g.EmptyBlocksByShards) == len(m.EmptyBlocksByShards), T, "len(EmptyBlocksByShards)", len(g.EmptyBlocksByShards), len(m.EmptyBlocksByShards))
			for _, e := range m.EmptyBlocksByShards {
				got := g.EmptyBlocksByShards[common.ShardId(e.ShardId)]
				need(t, len(got) == len(e.Proposers), T, fmt.Sprintf("EmptyBlocksByShards[%d]", e.ShardId), got, e.Proposers)
				for k := range got {
					need(t, bytes.Equal(got[k][:], e.Proposers[k]), T, fmt.Sprintf("EmptyBlocksByShards[%d][%d]", e.ShardId, k), got[k], e.Proposers[k])
				}
			}
			need(t, len(g.ShardSizes) == len(m.ShardSizes), T, "len(ShardSizes)", len(g.ShardSizes), len(m.ShardSizes))
			for _, e := range m.ShardSizes {
				need(t, g.ShardSizes[common.ShardId(e.ShardId)] == e.Size, T, fmt.Sprintf("ShardSizes[%d]", e.ShardId), g.ShardSizes[common.ShardId(e.ShardId)], e.Size)
			}
			out, _ := g.ToBytes()
			return out
		},
	},
}

// Canonical protobuf messages of the four state-tree objects: FromBytes gives
// an object whose getters return what the message says, ToBytes gives the
// message bytes back.
func TestStateProtoRoute(t *testing.T) {
	rapid.Check(t, func(t *rapid.T) {
		for _, pc := range protoCases {
			evid.Eval()
			m := pc.newMsg()
			pr := proto.MessageReflect(m)
			p := &popCtx{t: t}
			p.populate(pr, string(pr.Descriptor().Name()))
			if pc.canon != nil {
				pc.canon(m)
			}
			b, err := proto.Marshal(m)
			if err != nil {
				t.Fatalf("marshal: %v", err)
			}
			out := pc.check(t, m, b)
			if !bytes.Equal(out, b) {
				t.Fatalf("%s: encode(decode(b)) differs from the canonical message b:\n b   %x\n out %x\n message %v", pc.name, b, out, m)
			}
			evid.Count("proto-route." + pc.name)
			set := 0
			pr.Range(func(protoreflect.FieldDescriptor, protoreflect.Value) bool { set++; return true })
			if 2*set >= pr.Descriptor().Fields().Len() {
				evid.NonTrivial(fmt.Sprintf("proto|%s|%d|%d", pc.name, set, len(b)%7))
			}
		}
	})
}

// Package c20 checks property C20 (push/pull tracker): every announced item is
// fetched once, falling back to the next announcer after the pull delay.
//
// Part (a), this file: the harness owns the clock. The tracker's goroutines park
// in vclock.Sleep (stepped mode) and are released one at a time, so a case is a
// pure function of the rapid draws. The oracle is the list of clauses P1..P6 of
// the statement evaluated over the log of emitted pull requests; it is not a
// re-implementation of the tracker.
package c20

import (
	"fmt"
	"os"
	"runtime"
	"sort"
	"strings"
	"sync"
	"sync/atomic"
	"testing"
	"time"

	"github.com/idena-network/idena-go/common"
	"github.com/idena-network/idena-go/common/pushpull"
	"github.com/idena-network/idena-go/common/vclock"
	"github.com/idena-network/idena-go/protocol"
	"github.com/libp2p/go-libp2p-core/peer"
	"pgregory.net/rapid"

	"verifharness/internal/evid"
	"verifharness/internal/kf"
)

func TestMain(m *testing.M) { evid.Main(m) }

const (
	ppPkg    = "common/pushpull"
	pushTyp  = 4 // protocol.pushFlip; the value only selects the holder registered by the harness
	property = "C20"
	// the loop acts on index 0 of the pending list after its sleep, although another
	// entry may have been inserted ahead of the one it peeked before the sleep
	kfStaleHead = "c20.stale-head-index"
)

var epoch = time.Unix(1700000000, 0)

type tb interface {
	Fatalf(format string, args ...interface{})
	Helper()
}

// tap stands between the holder/manager and the real tracker at the
// PendingPushTracker interface. It forwards every call unchanged; the only thing
// it changes is that the manager's forwarding goroutine reads the tracker's
// requests from a channel the harness fills, so that the harness knows when that
// goroutine has finished handling a request (counter regs).
type tap struct {
	real *pushpull.DefaultPushTracker
	out  chan pushpull.PendingPulls
	regs int64
	// before runs between the emission of a request (makeRequest) and the registration of the pull: the place where
	// the answer to an earlier pull can arrive on another goroutine
	before func(h common.Hash128)
	// inHas runs at the start of every Has call the tracker makes
	inHas func(h common.Hash128)
}

func (w *tap) RegisterPull(h common.Hash128) {
	if w.before != nil {
		w.before(h)
	}
	w.real.RegisterPull(h)
	atomic.AddInt64(&w.regs, 1)
}
func (w *tap) AddPendingPush(id peer.ID, h common.Hash128) { w.real.AddPendingPush(id, h) }
func (w *tap) Requests() chan pushpull.PendingPulls        { return w.out }
func (w *tap) Run()                                        { w.real.Run() }
func (w *tap) SetHolder(h pushpull.Holder) {
	// the tracker looks items up through a wrapper that forwards every call; its Has is the place where an event on
	// another goroutine can fall inside the tracker loop's look-up
	w.real.SetHolder(&hasTap{Holder: h, tap: w})
}
func (w *tap) RemovePull(h common.Hash128) { w.real.RemovePull(h) }

// hasTap forwards to the holder; inHas (set by the harness) runs first when the tracker's loop asks.
type hasTap struct {
	pushpull.Holder
	tap *tap
}

func (h *hasTap) Has(hash common.Hash128) bool {
	if f := h.tap.inHas; f != nil {
		f(hash)
	}
	return h.Holder.Has(hash)
}

type annRec struct {
	peer, hash int
	at         time.Duration
	immediate  bool // answered by a request inside the announcing call
}

type reqRec struct {
	peer, hash int
	at         time.Duration
	followup   bool // emitted by the tracker (delayed path), not inside an announcing call
	skipped    bool // the attempt met a full outgoing queue (stalled sender): the manager skips it by design
}

type hstate struct {
	anns      []annRec // announcements made while the item was absent
	reqs      []reqRec
	arrived   bool
	arrivedAt time.Duration
	heldAnns  int
	// in-flight arrival: the item is stored after a request was emitted and before its pull is registered
	armInflight bool
	inflight    bool
	grace       int // requests emitted before the in-flight arrival that the harness has not collected yet
}

// poolHolder stores items the way the transaction pool does as a holder: Add is ignored (items get known when the pool
// accepts them) and the pull registry is never told about arrivals, so the tracker has to ask Has.
type poolHolder struct {
	mu  sync.Mutex
	set map[common.Hash128]interface{}
	tr  pushpull.PendingPushTracker
}

func (p *poolHolder) Add(hash common.Hash128, entry interface{}, shardId common.ShardId, highPriority bool) {
}
func (p *poolHolder) store(hash common.Hash128, entry interface{}) {
	p.mu.Lock()
	p.set[hash] = entry
	p.mu.Unlock()
}
func (p *poolHolder) Has(hash common.Hash128) bool {
	p.mu.Lock()
	defer p.mu.Unlock()
	_, ok := p.set[hash]
	return ok
}
func (p *poolHolder) Get(hash common.Hash128) (interface{}, common.ShardId, bool, bool) {
	p.mu.Lock()
	defer p.mu.Unlock()
	e, ok := p.set[hash]
	return e, common.MultiShard, false, ok
}
func (p *poolHolder) MaxParallelPulls() uint32                 { return 1 }
func (p *poolHolder) SupportPendingRequests() bool             { return true }
func (p *poolHolder) PushTracker() pushpull.PendingPushTracker { return p.tr }

type world struct {
	t       tb
	delay   time.Duration
	maxPar  int
	mgr     *protocol.PushPullManager
	tracker *pushpull.DefaultPushTracker
	tap     *tap
	holder  pushpull.Holder
	pool    *poolHolder // non-nil: the holder is pool-like
	hashes  []common.Hash128
	peers   []peer.ID
	hashIdx map[common.Hash128]int
	peerIdx map[peer.ID]int
	hs      []*hstate

	nAnn        int // announcements of absent items
	nPendingAnn int // of those, not answered immediately
	lastAction  time.Duration

	sleepOn  *pushpull.VerifC20Pending // entry the loop peeked before it parked; nil: idle sleep
	hazard   string                    // non-empty once an entry was inserted ahead of sleepOn
	overlap  bool                      // two hashes had pending announcers at the same time
	excluded bool
	trace    []string

	// stalled sender: the manager's outgoing queue is full of requests nobody reads
	stalled  bool
	nStalls  int
	nSkipped int
	// an event armed to happen on another goroutine while the tracker loop is inside holder.Has
	inStep   int32
	armed    *action
	firing   int32
	bg       sync.WaitGroup
	nInHas   int
	inHasAnn *annRec
	raceful  bool // an in-Has announcement was made: its position relative to the loop's next iteration is not owned
}

func inconclusive(msg string) {
	// the harness could not observe a quiescent tracker: never a verdict about idena-go
	fmt.Fprintln(os.Stderr, "INCONCLUSIVE (harness safety timeout): "+msg)
	evid.Count("a.inconclusive.safety-timeout")
	evid.Flush()
	os.Exit(2)
}

// waitParked blocks until exactly n goroutines are parked in stepped sleeps.
func waitParked(n int) {
	deadline := time.Now().Add(30 * time.Second)
	for i := 0; ; i++ {
		if vclock.Parked() == n {
			return
		}
		if i < 500 {
			runtime.Gosched()
			continue
		}
		time.Sleep(20 * time.Microsecond)
		if i%1000 == 0 && time.Now().After(deadline) {
			inconclusive(fmt.Sprintf("parked=%d, want %d", vclock.Parked(), n))
		}
	}
}

func newWorld(t tb, delay time.Duration, nHashes, nPeers int) *world {
	return newWorldWith(t, delay, nHashes, nPeers, false)
}

func newWorldWith(t tb, delay time.Duration, nHashes, nPeers int, poolLike bool) *world {
	vclock.Reset()
	vclock.DropWaiters() // goroutines of earlier cases stay blocked forever
	vclock.Set(epoch)
	vclock.SetMode(ppPkg, vclock.Stepped)

	w := &world{t: t, delay: delay, hashIdx: map[common.Hash128]int{}, peerIdx: map[peer.ID]int{}}
	for i := 0; i < nHashes; i++ {
		h := common.Hash128{byte(i + 1), 0xC2}
		w.hashes = append(w.hashes, h)
		w.hashIdx[h] = i
		w.hs = append(w.hs, &hstate{})
	}
	for i := 0; i < nPeers; i++ {
		p := peer.ID(fmt.Sprintf("P%d", i))
		w.peers = append(w.peers, p)
		w.peerIdx[p] = i
	}
	w.tracker = pushpull.NewDefaultPushTracker(delay)
	w.tap = &tap{real: w.tracker, out: make(chan pushpull.PendingPulls, 8)}
	if poolLike {
		// as core/mempool.NewTxPool + Initialize do
		w.pool = &poolHolder{set: map[common.Hash128]interface{}{}, tr: w.tap}
		w.holder = w.pool
		w.tap.SetHolder(w.pool)
		w.tap.Run()
	} else {
		w.holder = pushpull.NewDefaultHolder(1, w.tap) // starts loop and gc
	}
	w.tap.before = func(h common.Hash128) {
		hi, ok := w.hashIdx[h]
		if !ok {
			return
		}
		hs := w.hs[hi]
		if !hs.armInflight || hs.arrived {
			return
		}
		hs.armInflight = false
		w.logf("    arrive(h%d) in flight: after the request was emitted, before its pull is registered", hi)
		w.store(hi)
		hs.arrived, hs.inflight, hs.arrivedAt = true, true, w.now()
		hs.grace = 1
		evid.Count("a.arrival.in-flight")
	}
	w.tap.inHas = func(h common.Hash128) {
		if atomic.LoadInt32(&w.inStep) == 0 || w.armed == nil || !atomic.CompareAndSwapInt32(&w.firing, 0, 1) {
			return
		}
		a := *w.armed
		w.armed = nil
		w.fireInHas(a, h)
		atomic.StoreInt32(&w.firing, 0)
	}
	w.maxPar = int(w.holder.MaxParallelPulls())
	w.mgr = protocol.NewPushPullManager()
	w.mgr.AddEntryHolder(pushTyp, w.holder)
	w.mgr.Run() // forwarding goroutine, blocks on tap.out
	waitParked(2)
	return w
}

func (w *world) now() time.Duration { return vclock.Now().Sub(epoch) }

func (w *world) logf(format string, args ...interface{}) {
	w.trace = append(w.trace, fmt.Sprintf("  t=%-9v ", w.now())+fmt.Sprintf(format, args...))
}

func (w *world) fail(clause string, format string, args ...interface{}) {
	w.t.Helper()
	msg := fmt.Sprintf("%s violated (pullDelay=%v, max parallel pulls=%d): ", clause, w.delay, w.maxPar) +
		fmt.Sprintf(format, args...) + "\nschedule:\n" + strings.Join(w.trace, "\n")
	if w.hazard != "" {
		if kf.Report(w.t, property, kfStaleHead, "%s\nafter: %s", msg, w.hazard) {
			w.excluded = true
			return
		}
	}
	w.t.Fatalf("%s", msg)
}

func fmtPending(l []pushpull.VerifC20Pending) string {
	var sb strings.Builder
	for i, e := range l {
		if i > 0 {
			sb.WriteString(" ")
		}
		fmt.Fprintf(&sb, "(%s,h%d,pulled@%v)", string(e.Id), e.Hash[0]-1, e.Time.Sub(epoch))
	}
	return "[" + sb.String() + "]"
}

// collect takes everything the manager has emitted so far and evaluates the
// per-request clauses. inCall is the announcement being made (nil outside one).
func (w *world) collect(followup bool, inCall *annRec) int {
	n := 0
	if w.stalled {
		return 0 // nobody reads the outgoing queue
	}
	for {
		select {
		case r := <-w.mgr.Requests():
			id, typ, h := protocol.VerifC20Unpack(r)
			if typ == fillerTyp {
				continue
			}
			n++
			w.onRequest(id, typ, h, followup, inCall, false)
			if w.excluded {
				return n
			}
		default:
			return n
		}
	}
}

// skipped: the attempt was made while the outgoing queue was full (the manager drops it with a warning and still
// registers the pull); it is this announcer's turn all the same and is evaluated like an emitted request.
func (w *world) onRequest(id peer.ID, typ uint8, h common.Hash128, followup bool, inCall *annRec, skipped bool) {
	now := w.now()
	hi, okh := w.hashIdx[h]
	pi, okp := w.peerIdx[id]
	if typ != pushTyp || !okh || !okp {
		w.fail("P1", "request for something never announced: peer=%q type=%d hash=%x", id, typ, h[:2])
		return
	}
	hs := w.hs[hi]
	kind := "immediate"
	if followup {
		kind = "follow-up"
	}
	if skipped {
		kind += " (skipped: outgoing queue full)"
		w.nSkipped++
		evid.Count("a.req.skipped-by-full-queue")
	}
	w.logf("    -> %s request to P%d for h%d", kind, pi, hi)
	if inCall != nil && (inCall.peer != pi || inCall.hash != hi) {
		w.fail("P1", "announce(P%d,h%d) emitted a request to P%d for h%d", inCall.peer, inCall.hash, pi, hi)
		return
	}
	// P4: nothing after the item was stored
	if hs.arrived && hs.grace > 0 {
		// emitted before the in-flight arrival, collected after it
		hs.grace--
		hs.reqs = append(hs.reqs, reqRec{peer: pi, hash: hi, at: now, followup: followup, skipped: skipped})
		return
	}
	if hs.arrived {
		w.fail("P4", "request to P%d for h%d at %v, but Add(h%d) returned at %v", pi, hi, now, hi, hs.arrivedAt)
		return
	}
	// P5 (upper part): no peer more often than it announced
	nr, na := 1, 0
	for _, r := range hs.reqs {
		if r.peer == pi {
			nr++
		}
	}
	for _, a := range hs.anns {
		if a.peer == pi {
			na++
		}
	}
	if nr > na {
		w.fail("P5", "P%d is asked for h%d for the %d. time but announced it %d time(s)", pi, hi, nr, na)
		return
	}
	// P2: pulls in flight (issued less than pullDelay ago) never exceed the maximum
	inflight := 1
	for _, r := range hs.reqs {
		if now-r.at < w.delay {
			inflight++
		}
	}
	if inflight > w.maxPar {
		w.fail("P2", "%d pulls for h%d issued within one pull delay (at %v)", inflight, hi, now)
		return
	}
	// P3: the delayed path asks a further announcer only >= pullDelay after the previous pull
	if followup {
		if len(hs.reqs) == 0 {
			w.fail("P3", "follow-up request to P%d for h%d without any earlier pull", pi, hi)
			return
		}
		prev := hs.reqs[len(hs.reqs)-1]
		if now-prev.at < w.delay {
			w.fail("P3", "follow-up request to P%d for h%d at %v, only %v after the previous pull (P%d at %v)",
				pi, hi, now, now-prev.at, prev.peer, prev.at)
			return
		}
		evid.Count("a.req.followup")
	} else {
		evid.Count("a.req.immediate")
	}
	hs.reqs = append(hs.reqs, reqRec{peer: pi, hash: hi, at: now, followup: followup, skipped: skipped})
}

func (w *world) sizes() (pending, active, mgr int) {
	return w.tracker.VerifC20PendingLen(), len(w.tracker.VerifC20ActivePulls()), w.mgr.VerifC20PendingCount()
}

func (w *world) announce(pi, hi int) {
	if w.excluded {
		return
	}
	hs := w.hs[hi]
	w.lastAction = w.now()
	w.logf("announce(P%d,h%d)%s", pi, hi, map[bool]string{true: " [item held]", false: ""}[hs.arrived])
	p0, a0, m0 := w.sizes()
	var rec *annRec
	held := hs.arrived // an in-flight arrival may store the item inside the announcing call
	if !hs.arrived {
		for _, a := range hs.anns {
			if a.peer == pi {
				evid.Count("a.announce.same-peer-again")
				break
			}
		}
		hs.anns = append(hs.anns, annRec{peer: pi, hash: hi, at: w.now()})
		rec = &hs.anns[len(hs.anns)-1]
		w.nAnn++
	} else {
		hs.heldAnns++
		evid.Count("a.announce.held-item")
	}
	w.mgr.VerifC20AddPush(w.peers[pi], pushTyp, w.hashes[hi])
	probe := annRec{peer: pi, hash: hi}
	n := w.collect(false, &probe)
	if w.excluded {
		return
	}
	if len(w.tracker.Requests()) != 0 {
		w.fail("P3", "the tracker emitted a request while its loop was asleep")
		return
	}
	p1, a1, m1 := w.sizes()
	if held {
		// P4: announcements of known items are ignored
		if n != 0 || p1 != p0 || a1 != a0 || m1 != m0 {
			w.fail("P4", "announce(P%d,h%d) of a held item: %d request(s), pending %d->%d, active %d->%d, manager counters %d->%d",
				pi, hi, n, p0, p1, a0, a1, m0, m1)
		}
		return
	}
	if n > 1 {
		w.fail("P2", "announce(P%d,h%d) emitted %d requests", pi, hi, n)
		return
	}
	if w.stalled && n == 0 && p1 == p0 {
		// nothing emitted and nothing queued: the announcer's immediate turn fell into the stall (the manager skips the
		// request and registers the pull, so that later announcers are queued behind it) - or the announcer was lost
		if ts, ok := w.tracker.VerifC20ActivePulls()[w.hashes[hi]]; ok && ts.Equal(vclock.Now()) {
			w.onRequest(w.peers[pi], pushTyp, w.hashes[hi], false, &probe, true)
			if w.excluded {
				return
			}
			n = 1
			evid.Count("a.announce.immediate-turn-during-stall")
		} else {
			w.fail("P5", "announce(P%d,h%d) while the outgoing queue was full left no trace: no request, no queued announcer, no pull registered at %v - h%d is absent and this announcer can never be asked",
				pi, hi, w.now(), hi)
			return
		}
	}
	rec.immediate = n == 1
	if !rec.immediate {
		w.nPendingAnn++
		if w.stalled {
			evid.Count("a.announce.queued-during-stall")
		}
	}
	// P1: the first announcer of an absent item is asked within the call
	if len(hs.anns) == 1 && n != 1 {
		w.fail("P1", "first announcer P%d of absent h%d was not asked within the announcing call", pi, hi)
		return
	}
	// P6 (bounded): one pending entry per unanswered announcement at most
	if p1 > w.nPendingAnn {
		w.fail("P6", "pending list holds %d entries after %d unanswered announcements", p1, w.nPendingAnn)
		return
	}
	snap := w.tracker.VerifC20PendingSnapshot()
	seen := map[common.Hash128]bool{}
	for _, e := range snap {
		seen[e.Hash] = true
	}
	if len(seen) > 1 {
		w.overlap = true
	}
	if w.sleepOn != nil && w.hazard == "" {
		// only a correctly sorted insertion (strictly earlier pull time) is the known shape
		if len(snap) > 0 && snap[0].Time.Before(w.sleepOn.Time) {
			w.hazard = fmt.Sprintf("at t=%v the loop was sleeping on head (%s,h%d,pulled@%v) when announce(P%d,h%d) inserted an entry with an earlier pull time ahead of it; pending=%s",
				w.now(), string(w.sleepOn.Id), w.sleepOn.Hash[0]-1, w.sleepOn.Time.Sub(epoch), pi, hi, fmtPending(snap))
			w.logf("    (entry inserted ahead of the head the loop sleeps on)")
			evid.Count("a.hazard.insert-ahead-of-sleeping-head")
		}
	}
}

func (w *world) arrive(hi int) {
	if w.excluded {
		return
	}
	hs := w.hs[hi]
	w.lastAction = w.now()
	w.logf("arrive(h%d)", hi)
	w.store(hi)
	if !hs.arrived {
		hs.arrived = true
		hs.arrivedAt = w.now()
	}
	if n := w.collect(false, nil); n != 0 && !w.excluded {
		w.fail("P4", "Add(h%d) emitted %d request(s)", hi, n)
		return
	}
	if w.excluded {
		return
	}
	if !w.holder.Has(w.hashes[hi]) {
		w.fail("P4", "Has(h%d) is false right after Add", hi)
		return
	}
	if _, ok := w.tracker.VerifC20ActivePulls()[w.hashes[hi]]; ok && w.pool == nil && !hs.inflight {
		w.fail("P6", "active pull registry still holds h%d after Add(h%d) returned", hi, hi)
	}
}

const fillerTyp = 0xEE

// stall fills the manager's outgoing queue the way a sender that stopped reading leaves it; resume empties it.
func (w *world) stall() {
	if w.stalled || w.excluded {
		return
	}
	w.collect(false, nil)
	ch := w.mgr.Requests()
	for i := 0; len(ch) < cap(ch); i++ {
		select {
		case ch <- protocol.VerifC20Request(peer.ID("filler"), fillerTyp, common.Hash128{byte(i), byte(i >> 8), 0xEE}):
		default:
		}
	}
	w.stalled = true
	w.nStalls++
	w.logf("stall: the outgoing queue is full (%d requests nobody reads)", len(ch))
}

func (w *world) resume() {
	if !w.stalled {
		return
	}
	w.stalled = false
	w.logf("resume: the sender reads the outgoing queue again")
	if n := w.collect(false, nil); n != 0 && !w.excluded {
		w.fail("P3", "%d request(s) sat in the full outgoing queue", n)
	}
}

// fireInHas runs on the tracker's loop goroutine at the start of a look-up of loopHash.
func (w *world) fireInHas(a action, loopHash common.Hash128) {
	hs := w.hs[a.hash]
	switch a.kind {
	case 0:
		if hs.arrived || len(hs.anns) == 0 || len(hs.anns)+1 < w.maxPar || w.stalled {
			evid.Count("a.inhas.dropped")
			return // would not take the queued path
		}
		w.logf("    announce(P%d,h%d) on another goroutine while the loop looks h%d up", a.peer, a.hash, w.hashIdx[loopHash])
		hs.anns = append(hs.anns, annRec{peer: a.peer, hash: a.hash, at: w.now()})
		w.inHasAnn = &hs.anns[len(hs.anns)-1]
		w.nAnn++
		w.nPendingAnn++
		w.lastAction = w.now()
		w.raceful = true
		w.nInHas++
		done := make(chan struct{})
		w.bg.Add(1)
		go func() {
			defer w.bg.Done()
			w.mgr.VerifC20AddPush(w.peers[a.peer], pushTyp, w.hashes[a.hash])
			close(done)
		}()
		// the caller either gets through at once or waits for the loop's mutex; the harness does not wait for the latter
		t0 := time.Now()
		for {
			select {
			case <-done:
				evid.Count("a.inhas.announce.returned-inside-lookup")
				return
			default:
			}
			if time.Since(t0) > 2*time.Millisecond {
				evid.Count("a.inhas.announce.waited-for-the-loop")
				return
			}
			runtime.Gosched()
		}
	case 1:
		if hs.arrived {
			evid.Count("a.inhas.dropped")
			return
		}
		w.logf("    arrive(h%d) while the loop looks h%d up", a.hash, w.hashIdx[loopHash])
		w.store(a.hash)
		hs.arrived, hs.arrivedAt = true, w.now()
		w.lastAction = w.now()
		w.nInHas++
		evid.Count("a.inhas.arrival")
	}
}

// store makes the item known to the holder.
func (w *world) store(hi int) {
	if w.pool != nil {
		w.pool.store(w.hashes[hi], hi)
		return
	}
	w.holder.Add(w.hashes[hi], hi, common.MultiShard, false)
}

// step releases the earliest parked goroutine at instant t, lets it run until it
// parks again, then lets the manager forward what the tracker emitted.
func (w *world) step(t time.Time) {
	atomic.StoreInt32(&w.inStep, 1)
	defer atomic.StoreInt32(&w.inStep, 0)
	if !vclock.StepTo(t) {
		return
	}
	waitParked(2)
	w.bg.Wait() // an announcement made inside the loop's look-up has returned
	if w.inHasAnn != nil {
		// should that announcement have been answered at once, the request is in the queue by now
		rec := w.inHasAnn
		w.inHasAnn = nil
		probe := annRec{peer: rec.peer, hash: rec.hash}
		if n := w.collect(false, &probe); n == 1 {
			rec.immediate = true
			w.nPendingAnn--
		}
		if w.excluded {
			return
		}
	}
	for fwd := true; fwd; {
		select {
		case r := <-w.tracker.Requests():
			before := atomic.LoadInt64(&w.tap.regs)
			w.tap.out <- r
			deadline := time.Now().Add(30 * time.Second)
			for i := 0; atomic.LoadInt64(&w.tap.regs) != before+1; i++ {
				if i < 500 {
					runtime.Gosched()
					continue
				}
				time.Sleep(20 * time.Microsecond)
				if i%1000 == 0 && time.Now().After(deadline) {
					inconclusive("manager loop did not forward a tracker request")
				}
			}
			if w.stalled {
				w.onRequest(r.Id, pushTyp, r.Hash, true, nil, true)
			} else {
				w.collect(true, nil)
			}
			if w.excluded {
				return
			}
		default:
			fwd = false
		}
	}
	if n := w.collect(true, nil); n != 0 && !w.excluded {
		w.fail("P3", "%d request(s) appeared without the tracker emitting any", n)
	}
	snap := w.tracker.VerifC20PendingSnapshot()
	if len(snap) > 0 {
		w.sleepOn = &snap[0]
	} else {
		w.sleepOn = nil
	}
}

// advanceTo moves virtual time to target, waking every sleeper exactly at its
// wake-up time. While the pending list is empty only the 10 ms idle poll and the
// one-minute gc are parked; those are woken once, late (a sleep may overshoot),
// instead of thousands of times.
func (w *world) advanceTo(target time.Time) {
	for !w.excluded {
		nw, ok := vclock.NextWake()
		if !ok || nw.After(target) {
			break
		}
		t := nw
		if w.tracker.VerifC20PendingLen() == 0 {
			t = target
		}
		w.step(t)
	}
	if d := target.Sub(vclock.Now()); d > 0 {
		vclock.Advance(d)
	}
}

func (w *world) advance(dt time.Duration) {
	if w.excluded {
		return
	}
	w.logf("advance(%v)", dt)
	w.advanceTo(vclock.Now().Add(dt))
}

// finish lets (#announcements+2)*pullDelay pass and evaluates P5 and P6.
func (w *world) finish() {
	if w.excluded {
		return
	}
	if w.stalled {
		w.resume()
	}
	budget := time.Duration(w.nAnn+2) * w.delay
	w.logf("drain(%v)", budget)
	w.advanceTo(epoch.Add(w.lastAction + budget))
	if w.excluded {
		return
	}
	for hi, hs := range w.hs {
		if hs.arrived {
			continue
		}
		asked := map[int]bool{}
		for _, r := range hs.reqs {
			asked[r.peer] = true
		}
		for _, a := range hs.anns {
			if !asked[a.peer] {
				w.fail("P5", "h%d never arrived; P%d announced it at %v and could still serve it, but was never asked within %v after the last action (asked: %v)",
					hi, a.peer, a.at, budget, keys(asked))
				return
			}
		}
	}
	// P6: quiescence
	snap := w.tracker.VerifC20PendingSnapshot()
	if len(snap) != 0 {
		w.fail("P6", "pending list not empty at quiescence: %s", fmtPending(snap))
		return
	}
	for h := range w.tracker.VerifC20ActivePulls() {
		hi, ok := w.hashIdx[h]
		if ok && (w.pool != nil || w.hs[hi].inflight) {
			// registry entries of held items are only aged out (gc after 5 minutes) when the holder does not remove them
			// (pool-like holder) or the pull was registered after the arrival (in-flight arrival): bounded, not a leak
			continue
		}
		if !ok || w.hs[hi].arrived || len(w.hs[hi].anns) == 0 {
			w.fail("P6", "active pull registry holds %x (h%d) which is held or was never pulled", h[:2], hi)
			return
		}
	}
	announced := 0
	for _, hs := range w.hs {
		if len(hs.anns) > 0 {
			announced++
		}
	}
	if _, _, m := w.sizes(); m != announced {
		w.fail("P6", "manager keeps %d pull counters for %d announced absent items", m, announced)
		return
	}
	if len(w.tracker.Requests()) != 0 || len(w.mgr.Requests()) != 0 {
		w.fail("P6", "request queues not empty at quiescence")
	}
}

func keys(m map[int]bool) []int {
	var r []int
	for k := range m {
		r = append(r, k)
	}
	sort.Ints(r)
	return r
}

// classify records the distribution of generated shapes and the non-trivial ones.
func (w *world) classify() {
	evid.Count("a.case.delay=" + w.delay.String())
	if w.overlap {
		evid.Count("a.case.two-hashes-pending-together")
	}
	if w.hazard != "" {
		evid.Count("a.case.hazard-armed")
	}
	for hi, hs := range w.hs {
		if len(hs.anns) == 0 {
			if hs.arrived {
				evid.Count("a.hash.arrived-unannounced")
			}
			continue
		}
		distinct := map[int]bool{}
		for _, a := range hs.anns {
			distinct[a.peer] = true
		}
		d := len(distinct)
		evid.Count(fmt.Sprintf("a.hash.announcers=%s", capN(d, 5)))
		fu := 0
		for _, r := range hs.reqs {
			if r.followup {
				fu++
			}
		}
		evid.Count(fmt.Sprintf("a.hash.followups=%s", capN(fu, 4)))
		fate := "never-arrives"
		if hs.arrived {
			fate = fmt.Sprintf("arrives-after-%s-pulls", capN(len(hs.reqs), 3))
		}
		evid.Count("a.hash." + fate)
		if d >= 3 && (!hs.arrived || len(hs.reqs) >= 2) {
			evid.Count("a.hash.nontrivial." + fate)
			var sb strings.Builder
			fmt.Fprintf(&sb, "a|d=%v|", w.delay)
			t0 := hs.anns[0].at
			for _, a := range hs.anns {
				fmt.Fprintf(&sb, "A%d@%d;", a.peer, (a.at-t0)/time.Millisecond)
			}
			for _, r := range hs.reqs {
				fmt.Fprintf(&sb, "R%d@%d;", r.peer, (r.at-t0)/time.Millisecond)
			}
			if hs.arrived {
				fmt.Fprintf(&sb, "X@%d", (hs.arrivedAt-t0)/time.Millisecond)
			}
			evid.NonTrivial(sb.String())
			evid.Sample("a.nontrivial."+fate, map[string]interface{}{"hash": hi, "events": sb.String()})
		}
	}
}

func capN(n, c int) string {
	if n >= c {
		return fmt.Sprintf("%d+", c)
	}
	return fmt.Sprintf("%d", n)
}

type action struct {
	kind       int // 0 announce, 1 arrive, 2 advance, 3 arm an in-flight arrival, 4 stall/resume, 5 arm an event inside the loop's look-up
	sub        int // kind 5: 0 announce, 1 arrive
	peer, hash int
	dt         time.Duration
}

func runActions(t tb, delay time.Duration, nH, nP int, acts []action) *world {
	return runActionsWith(t, delay, nH, nP, acts, false)
}

func runActionsWith(t tb, delay time.Duration, nH, nP int, acts []action, poolLike bool) *world {
	w := newWorldWith(t, delay, nH, nP, poolLike)
	for _, a := range acts {
		if w.excluded {
			break
		}
		switch a.kind {
		case 0:
			w.announce(a.peer, a.hash)
		case 1:
			w.arrive(a.hash)
		case 3:
			if !w.hs[a.hash].arrived {
				w.logf("arm in-flight arrival of h%d", a.hash)
				w.hs[a.hash].armInflight = true
			}
		case 4:
			if w.stalled {
				w.resume()
			} else {
				w.stall()
			}
		case 5:
			w.logf("arm: next look-up of the loop meets %s(h%d)", map[int]string{0: "an announcement", 1: "the arrival"}[a.sub], a.hash)
			w.armed = &action{kind: a.sub, peer: a.peer, hash: a.hash}
		default:
			if w.now()+a.dt < 58*time.Second {
				w.advance(a.dt)
			}
		}
	}
	w.finish()
	return w
}

func TestSteppedSchedule(t *testing.T) {
	rapid.Check(t, func(t *rapid.T) {
		evid.Eval()
		delay := rapid.SampledFrom([]time.Duration{300 * time.Millisecond, 500 * time.Millisecond, time.Second, 3 * time.Second}).Draw(t, "pullDelay")
		nH := rapid.IntRange(1, 4).Draw(t, "hashes")
		nP := rapid.IntRange(3, 7).Draw(t, "peers")
		never := make([]bool, nH)
		for i := range never {
			never[i] = rapid.IntRange(0, 2).Draw(t, "neverArrives") == 0
		}
		dts := []time.Duration{time.Millisecond, 5 * time.Millisecond, 10 * time.Millisecond, 11 * time.Millisecond,
			delay / 3, delay / 2, delay - time.Millisecond, delay, delay + time.Millisecond, delay + 10*time.Millisecond, 2*delay + 5*time.Millisecond}
		n := rapid.IntRange(1, 45).Draw(t, "actions")
		stalls := rapid.IntRange(0, 2).Draw(t, "stalledSenderPeriods") == 0
		var acts []action
		for i := 0; i < n; i++ {
			switch k := rapid.IntRange(0, 11).Draw(t, "kind"); {
			case k == 10 && stalls:
				acts = append(acts, action{kind: 4})
			case k == 11:
				a := action{kind: 5, sub: rapid.IntRange(0, 2).Draw(t, "inLookup") / 2, peer: rapid.IntRange(0, nP-1).Draw(t, "peer"), hash: rapid.IntRange(0, nH-1).Draw(t, "hash")}
				if a.sub == 0 || !never[a.hash] {
					acts = append(acts, a)
				}
			case k <= 5:
				acts = append(acts, action{kind: 0, peer: rapid.IntRange(0, nP-1).Draw(t, "peer"), hash: rapid.IntRange(0, nH-1).Draw(t, "hash")})
			case k == 6:
				if h := rapid.IntRange(0, nH-1).Draw(t, "hash"); !never[h] {
					kind := 1
					if rapid.IntRange(0, 2).Draw(t, "inFlight") == 0 {
						kind = 3
					}
					acts = append(acts, action{kind: kind, hash: h})
				}
			default:
				acts = append(acts, action{kind: 2, dt: rapid.SampledFrom(dts).Draw(t, "dt")})
			}
		}
		poolLike := rapid.IntRange(0, 2).Draw(t, "poolLikeHolder") == 0
		w := runActionsWith(t, delay, nH, nP, acts, poolLike)
		if poolLike {
			evid.Count("a.case.pool-like-holder")
		}
		if w.excluded {
			evid.Count("a.case.excluded-known-finding")
			return
		}
		w.classify()
		evid.Count("a.case.completed")
		// harness self-check: the schedule is a function of the draws only
		if w.nStalls > 0 {
			evid.Count("a.case.with-stalled-sender")
		}
		if w.nInHas > 0 {
			evid.Count("a.case.with-event-inside-lookup")
		}
		if rapid.IntRange(0, 15).Draw(t, "replay") == 0 && !w.raceful {
			w2 := runActionsWith(t, delay, nH, nP, acts, poolLike)
			if a, b := strings.Join(w.trace, "\n"), strings.Join(w2.trace, "\n"); a != b {
				t.Fatalf("harness: the same actions produced two different request logs:\n%s\n--- second run ---\n%s", a, b)
			}
			evid.Count("a.selfcheck.replayed-identically")
		}
	})
}

package c20

import (
	"fmt"
	"sync"
	"testing"
	"time"

	"github.com/idena-network/idena-go/common"
	"github.com/idena-network/idena-go/common/pushpull"
	"github.com/idena-network/idena-go/common/vclock"
	"github.com/idena-network/idena-go/protocol"
	"github.com/libp2p/go-libp2p-core/peer"
	"pgregory.net/rapid"

	"verifharness/internal/evid"
)

// gateHolder is the default holder with a rendezvous at MaxParallelPulls(): concurrent announcers of one hash that
// are inside PushPullManager.addPush are lined up at that call and released together. The harness thereby owns one
// family of schedules ("k peers announce the same unknown hash at the same instant") instead of hoping for it.
type gateHolder struct {
	pushpull.Holder
	mu      sync.Mutex
	expect  int
	arrived int
	release chan struct{}
}

func (g *gateHolder) MaxParallelPulls() uint32 {
	g.mu.Lock()
	if g.expect == 0 {
		g.mu.Unlock()
		return g.Holder.MaxParallelPulls()
	}
	g.arrived++
	ch := g.release
	if g.arrived >= g.expect {
		g.expect, g.arrived = 0, 0
		close(ch)
	}
	g.mu.Unlock()
	select {
	case <-ch:
	case <-time.After(2 * time.Second): // an announcer took a path without this call: let the others go
	}
	return g.Holder.MaxParallelPulls()
}

func (g *gateHolder) arm(n int) {
	g.mu.Lock()
	g.expect, g.arrived, g.release = n, 0, make(chan struct{})
	g.mu.Unlock()
}

// k peers announce one missing hash simultaneously (after 0-2 earlier announcers): within one pull delay the item is
// requested from at most the configured number of peers.
func TestGatedSimultaneousAnnouncers(t *testing.T) {
	rapid.Check(t, func(t *rapid.T) {
		evid.Eval()
		vclock.Reset()
		vclock.DropWaiters()
		vclock.SetMode(ppPkg, vclock.Stepped) // the tracker's loops park for good: no fallback pulls inside the case
		earlier := rapid.IntRange(1, 2).Draw(t, "earlierAnnouncers")
		k := rapid.IntRange(2, 8).Draw(t, "simultaneousAnnouncers")
		tracker := pushpull.NewDefaultPushTracker(time.Hour) // no fallback pulls inside the case
		g := &gateHolder{Holder: pushpull.NewDefaultHolder(1, tracker)}
		maxPar := int(g.Holder.MaxParallelPulls())
		mgr := protocol.NewPushPullManager()
		mgr.AddEntryHolder(pushTyp, g)
		h := common.Hash128{0x6a, 0x7e, byte(k), byte(earlier)}
		for i := 0; i < earlier; i++ {
			mgr.VerifC20AddPush(peer.ID(fmt.Sprintf("E%d", i)), pushTyp, h)
		}
		g.arm(k)
		var wg sync.WaitGroup
		for i := 0; i < k; i++ {
			wg.Add(1)
			go func(i int) {
				defer wg.Done()
				mgr.VerifC20AddPush(peer.ID(fmt.Sprintf("S%d", i)), pushTyp, h)
			}(i)
		}
		wg.Wait()
		requested := 0
		for len(mgr.Requests()) > 0 {
			<-mgr.Requests()
			requested++
		}
		if requested > maxPar {
			t.Fatalf("P2 violated: %d earlier and %d simultaneous announcers of one missing item: it was requested from %d peers at a time, the holder allows %d", earlier, k, requested, maxPar)
		}
		if requested < 1 {
			t.Fatalf("P1 violated: nobody was asked for a missing item with %d announcers", earlier+k)
		}
		evid.Count(fmt.Sprintf("gated.requests=%d", requested))
		evid.NonTrivial(fmt.Sprintf("gated|%d|%d|%d", earlier, k, requested))
		evid.Sample("gated", fmt.Sprintf("earlier=%d simultaneous=%d requested=%d cap=%d", earlier, k, requested, maxPar))
	})
}

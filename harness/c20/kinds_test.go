package c20

// Part (c): SEVERAL item kinds in one manager, and the manager the node itself builds.
//
// The stepped harness of part (a) registers one holder under one kind on a manager it wires itself (with a forwarding
// tap at the tracker interface). Here nothing stands between the parts:
//
//   - wiring "node": protocol.NewIdenaGossipHandler builds, fills and starts the manager exactly as the node does, with
//     the real transaction pool and flip key pool as holders of two of the six kinds (their items arrive through the
//     pools' own admission, AddExternalTxs / AddPrivateKeysPackage, on a small real state);
//   - wiring "own": a manager with 2-6 drawn kinds, each with a default holder or a pool-like holder and its own drawn
//     pull delay, registered in drawn order, started with PushPullManager.Run.
//
// One schedule holds items of several kinds. An item is the pair (kind, hash), which is what goes on the wire in a
// Pull and what the serving peer looks up; every emitted request is matched against the announcements of exactly that
// pair. The trackers run on the virtual clock in stepped mode; the manager's forwarding goroutines are the real ones.
// The harness learns that a forwarding goroutine has finished by passing a marker request through the tracker's
// request queue (FIFO): when the marker leaves the manager, everything the tracker queued before it has been handled.

import (
	"crypto/ecdsa"
	"fmt"
	"math/big"
	"runtime"
	"sort"
	"strings"
	"sync"
	"testing"
	"time"

	"github.com/idena-network/idena-go/blockchain/types"
	"github.com/idena-network/idena-go/blockchain/validation"
	"github.com/idena-network/idena-go/common"
	"github.com/idena-network/idena-go/common/eventbus"
	"github.com/idena-network/idena-go/common/pushpull"
	"github.com/idena-network/idena-go/common/vclock"
	"github.com/idena-network/idena-go/config"
	"github.com/idena-network/idena-go/core/appstate"
	"github.com/idena-network/idena-go/core/mempool"
	"github.com/idena-network/idena-go/crypto"
	"github.com/idena-network/idena-go/protocol"
	"github.com/idena-network/idena-go/secstore"
	"github.com/idena-network/idena-go/stats/collector"
	"github.com/libp2p/go-libp2p-core/peer"
	dbm "github.com/tendermint/tm-db"
	"pgregory.net/rapid"

	"verifharness/internal/evid"
)

// the item kinds of the protocol (protocol/types.go pushVote..pushTx; pushPullHash.IsValid admits nothing else)
const (
	kVote uint8 = 1 + iota
	kBlock
	kProof
	kFlip
	kKeyPackage
	kTx
)

var kindName = [...]string{"?", "vote", "block", "proof", "flip", "keypackage", "tx"}

const (
	kMaxItems = 6
	kSyncPeer = peer.ID("~c20-marker~")
)

func kSyncHash(typ uint8) common.Hash128 { return common.Hash128{0xFF, 0x5E, 0x17, typ} }

// ---------------------------------------------------------------------------
// payloads of the pool-kept kinds: signed transactions / key packages of fixed senders (the state of the node wiring
// is the same in every case, so they are made once per process and copied per case as they come off the wire)

var (
	kPayOnce sync.Once
	kKeys    [kMaxItems]*ecdsa.PrivateKey
	kNodeKey *ecdsa.PrivateKey
	kTxs     [kMaxItems]*types.Transaction
	kPkgs    [kMaxItems]*types.PrivateFlipKeysPackage
	kTxWire  [kMaxItems][]byte // as the messages come off the wire
	kPkgWire [kMaxItems][]byte
)

func kDeriveKey(tag byte, i int) *ecdsa.PrivateKey {
	for n := 0; ; n++ {
		var b [32]byte
		b[0], b[1], b[2], b[3], b[31] = 0xC2, 0x20, tag, byte(i+1), byte(n+1)
		if k, err := crypto.ToECDSA(b[:]); err == nil {
			return k
		}
	}
}

func kPayloads() {
	kPayOnce.Do(func() {
		kNodeKey = kDeriveKey('n', 0)
		for i := range kKeys {
			kKeys[i] = kDeriveKey('s', i)
			addr := crypto.PubkeyToAddress(kKeys[i].PublicKey)
			tx, err := types.SignTx(&types.Transaction{AccountNonce: 1, Epoch: 0, Type: types.SendTx, To: &addr,
				Amount: big.NewInt(1), MaxFee: new(big.Int).Mul(common.DnaBase, big.NewInt(10))}, kKeys[i])
			if err != nil {
				panic(err)
			}
			kTxs[i] = tx
			if kTxWire[i], err = tx.ToBytes(); err != nil {
				panic(err)
			}
			pkg, err := types.SignFlipKeysPackage(&types.PrivateFlipKeysPackage{Data: []byte{0xC2, 0x20, byte(i)}, Epoch: 0}, kKeys[i])
			if err != nil {
				panic(err)
			}
			kPkgs[i] = pkg
			if kPkgWire[i], err = pkg.ToBytes(); err != nil {
				panic(err)
			}
		}
	})
}

type kNoCeremony struct{}

func (kNoCeremony) IsRunning() bool { return false }

// ---------------------------------------------------------------------------

type kkind struct {
	typ     uint8
	name    string
	class   string // default | pool-like | txpool | keyspool
	delay   time.Duration
	maxPar  int
	holder  pushpull.Holder
	tracker *pushpull.DefaultPushTracker
	pool    *poolHolder // class pool-like
	// the holder takes the pull out of the registry when the item arrives (default holder, key pool); the transaction
	// pool and the pool-like holder leave that to the tracker's look-up and the gc
	registryFollowsArrival bool
	deaf                   bool // a marker never came back: nothing reads this tracker's request queue
	nAnn, nPendingAnn      int
}

type kitem struct {
	idx       int
	k         *kkind
	hash      common.Hash128
	twinOf    int // >=0: same hash bytes as that item (of another kind)
	anns      []annRec
	reqs      []reqRec
	arrived   bool
	arrivedAt time.Duration
}

type kkey struct {
	typ  uint8
	hash common.Hash128
}

type kworld struct {
	t          tb
	wiring     string
	mgr        *protocol.PushPullManager
	kinds      []*kkind // ascending kind
	byTyp      map[uint8]*kkind
	items      []*kitem
	byKey      map[kkey]*kitem
	peers      []peer.ID
	peerIdx    map[peer.ID]int
	parked     int
	txPool     *mempool.TxPool
	keysPool   *mempool.KeysPool
	lastAction time.Duration
	trace      []string
	nFollowup  int
}

// kKindSpec describes one registered kind of the "own" wiring.
type kKindSpec struct {
	typ      uint8
	poolLike bool
	delay    time.Duration
}

// kItemSpec describes one item of a schedule.
type kItemSpec struct {
	typ  uint8
	twin int // >=0: takes the hash bytes of that (earlier) item
}

func (w *kworld) now() time.Duration { return vclock.Now().Sub(epoch) }

func (w *kworld) logf(format string, args ...interface{}) {
	w.trace = append(w.trace, fmt.Sprintf("  t=%-9v ", w.now())+fmt.Sprintf(format, args...))
}

func (w *kworld) describe() string {
	var sb strings.Builder
	fmt.Fprintf(&sb, "wiring=%s; kinds:", w.wiring)
	for _, k := range w.kinds {
		fmt.Fprintf(&sb, " %s(%d)=%s/pullDelay %v/max parallel %d", k.name, k.typ, k.class, k.delay, k.maxPar)
	}
	sb.WriteString("; items:")
	for _, it := range w.items {
		fmt.Fprintf(&sb, " i%d=(%s,%x)", it.idx, it.k.name, it.hash[:3])
	}
	return sb.String()
}

func (w *kworld) fail(clause string, format string, args ...interface{}) {
	w.t.Helper()
	w.t.Fatalf("%s violated: %s\n%s\nschedule:\n%s", clause, fmt.Sprintf(format, args...), w.describe(), strings.Join(w.trace, "\n"))
}

func kResetClock() {
	vclock.Reset()
	vclock.DropWaiters() // goroutines of earlier cases stay blocked forever
	vclock.Set(epoch)
	vclock.SetMode(ppPkg, vclock.Stepped)
}

func (w *kworld) addKind(typ uint8, class string) *kkind {
	holder := w.mgr.VerifC20bHolder(typ)
	if holder == nil {
		w.t.Fatalf("P1 violated: no holder is registered for kind %s(%d): an announcement of such an item cannot be served (%s)", kindName[typ], typ, w.wiring)
	}
	tr, ok := holder.PushTracker().(*pushpull.DefaultPushTracker)
	if !ok || !holder.SupportPendingRequests() {
		w.t.Fatalf("harness: holder of kind %s has no default tracker", kindName[typ])
	}
	k := &kkind{typ: typ, name: kindName[typ], class: class, delay: tr.VerifC20bPullDelay(), maxPar: int(holder.MaxParallelPulls()),
		holder: holder, tracker: tr, registryFollowsArrival: class == "default" || class == "keyspool"}
	w.kinds = append(w.kinds, k)
	w.byTyp[typ] = k
	return k
}

func newKWorld(t tb, wiring string, nPeers int) *kworld {
	w := &kworld{t: t, wiring: wiring, byTyp: map[uint8]*kkind{}, byKey: map[kkey]*kitem{}, peerIdx: map[peer.ID]int{}}
	for i := 0; i < nPeers; i++ {
		p := peer.ID(fmt.Sprintf("P%d", i))
		w.peers = append(w.peers, p)
		w.peerIdx[p] = i
	}
	return w
}

// newNodeWorld builds the manager through protocol.NewIdenaGossipHandler, the way node.NewNodeWithInjections does, over
// a real TxPool / KeysPool on a small committed state (funded senders, authors with a flip). poolsFirst: the pools are
// initialized (which starts their trackers) before the handler is built; the node does it afterwards.
func newNodeWorld(t tb, nPeers int, poolsFirst bool) *kworld {
	kPayloads()
	kResetClock()
	w := newKWorld(t, "node", nPeers)
	if poolsFirst {
		w.wiring = "node(pools initialized first)"
	}
	bus := eventbus.New()
	db := dbm.NewMemDB()
	as, err := appstate.NewAppState(db, bus)
	if err != nil {
		t.Fatalf("harness: NewAppState: %v", err)
	}
	if err := as.Initialize(0); err != nil {
		t.Fatalf("harness: appState.Initialize: %v", err)
	}
	for i, key := range kKeys {
		addr := crypto.PubkeyToAddress(key.PublicKey)
		as.State.SetBalance(addr, new(big.Int).Mul(common.DnaBase, big.NewInt(1000)))
		as.State.AddFlip(addr, []byte{0x01, 0x55, 0xC2, 0x20, byte(i)}, 0)
	}
	if err := as.Commit(nil); err != nil {
		t.Fatalf("harness: commit: %v", err)
	}
	head := &types.Header{ProposedHeader: &types.ProposedHeader{Height: 1}}
	cfg := &config.Config{Mempool: config.GetDefaultMempoolConfig(), Consensus: config.GetDefaultConsensusConfig()}
	w.txPool = mempool.NewTxPool(as, bus, cfg, collector.NewStatsCollector())
	sec := secstore.NewSecStore()
	sec.AddKey(crypto.FromECDSA(kNodeKey))
	w.keysPool = mempool.NewKeysPool(db, as, bus, sec)
	initPools := func() {
		w.txPool.Initialize(head, sec.GetAddress(), false)
		w.keysPool.Initialize(head)
	}
	if poolsFirst {
		initPools()
	}
	h := protocol.NewIdenaGossipHandler(nil, nil, config.P2P{}, nil, nil, nil, w.txPool, nil, bus, w.keysPool, "0.0.0", kNoCeremony{})
	if !poolsFirst {
		initPools()
	}
	w.mgr = h.VerifC20bManager()
	for typ := kVote; typ <= kTx; typ++ {
		class := "default"
		switch typ {
		case kTx:
			class = "txpool"
		case kKeyPackage:
			class = "keyspool"
		}
		k := w.addKind(typ, class)
		if (typ == kTx && k.holder != pushpull.Holder(w.txPool)) || (typ == kKeyPackage && k.holder != pushpull.Holder(w.keysPool)) {
			t.Fatalf("harness: kind %s is not kept by the node's pool", k.name)
		}
	}
	w.parked = 2 * len(w.kinds)
	waitParked(w.parked)
	return w
}

// newOwnWorld registers the drawn kinds on a manager of its own, in the given order, and starts it.
func newOwnWorld(t tb, nPeers int, specs []kKindSpec) *kworld {
	kResetClock()
	w := newKWorld(t, "own", nPeers)
	w.mgr = protocol.NewPushPullManager()
	pools := map[uint8]*poolHolder{}
	for _, s := range specs {
		tr := pushpull.NewDefaultPushTracker(s.delay)
		if s.poolLike {
			// as core/mempool.NewTxPool + Initialize do
			p := &poolHolder{set: map[common.Hash128]interface{}{}, tr: tr}
			tr.SetHolder(p)
			tr.Run()
			pools[s.typ] = p
			w.mgr.AddEntryHolder(protocol.VerifPushType(s.typ), p)
		} else {
			w.mgr.AddEntryHolder(protocol.VerifPushType(s.typ), pushpull.NewDefaultHolder(1, tr))
		}
	}
	w.mgr.Run()
	sorted := append([]kKindSpec(nil), specs...)
	sort.Slice(sorted, func(i, j int) bool { return sorted[i].typ < sorted[j].typ })
	for _, s := range sorted {
		class := "default"
		if s.poolLike {
			class = "pool-like"
		}
		k := w.addKind(s.typ, class)
		k.pool = pools[s.typ]
	}
	w.parked = 2 * len(w.kinds)
	waitParked(w.parked)
	return w
}

func (w *kworld) addItems(specs []kItemSpec) {
	for i, s := range specs {
		k := w.byTyp[s.typ]
		if k == nil {
			w.t.Fatalf("harness: item of unregistered kind %d", s.typ)
		}
		it := &kitem{idx: i, k: k, twinOf: -1}
		switch k.class {
		case "txpool":
			it.hash = kTxs[i].Hash128()
		case "keyspool":
			it.hash = kPkgs[i].Hash128()
		default:
			it.hash = common.Hash128{byte(i + 1), 0xC2, 0x20}
			if s.twin >= 0 && s.twin < i && w.items[s.twin].k != k {
				if _, taken := w.byKey[kkey{k.typ, w.items[s.twin].hash}]; !taken {
					it.hash = w.items[s.twin].hash
					it.twinOf = s.twin
				}
			}
		}
		w.items = append(w.items, it)
		w.byKey[kkey{k.typ, it.hash}] = it
	}
}

// ---------------------------------------------------------------------------
// observation

func (w *kworld) sizes(k *kkind) (pending, active, mgr int) {
	for h := range k.tracker.VerifC20ActivePulls() {
		if h != kSyncHash(k.typ) { // the pull of the harness' marker is registered after the marker has left the manager
			active++
		}
	}
	return k.tracker.VerifC20PendingLen(), active, w.mgr.VerifC20PendingCount()
}

// collect takes everything the manager has emitted so far. from is the kind whose tracker made the requests due (nil:
// requests emitted inside an announcing call).
func (w *kworld) collect(followup bool, inCall *kitem, inCallPeer int, from *kkind) int {
	n := 0
	for {
		select {
		case r := <-w.mgr.Requests():
			id, typ, h := protocol.VerifC20Unpack(r)
			if id == kSyncPeer {
				continue // marker of a synchronization that had been given up
			}
			n++
			w.onRequest(id, typ, h, followup, inCall, inCallPeer, from)
		default:
			return n
		}
	}
}

func (w *kworld) onRequest(id peer.ID, typ uint8, h common.Hash128, followup bool, inCall *kitem, inCallPeer int, from *kkind) {
	now := w.now()
	pi, okp := w.peerIdx[id]
	it := w.byKey[kkey{typ, h}]
	origin := ""
	if from != nil {
		origin = fmt.Sprintf(" (made due by the tracker of kind %s)", from.name)
	}
	if it == nil || !okp {
		// name what was announced under these hash bytes, if anything
		var same []string
		for _, o := range w.items {
			if o.hash == h {
				same = append(same, fmt.Sprintf("i%d=(%s,%x)", o.idx, o.k.name, o.hash[:3]))
			}
		}
		nm := fmt.Sprintf("%d", typ)
		if int(typ) < len(kindName) {
			nm = kindName[typ]
		}
		w.logf("    -> request to %q for (%s,%x)%s", string(id), nm, h[:3], origin)
		w.fail("P1", "request to %q for (kind %s, hash %x)%s: nobody announced that item (announced under these hash bytes: %v); the peer cannot serve it and its turn is used up",
			string(id), nm, h[:3], origin, same)
		return
	}
	k := it.k
	kind := "immediate"
	if followup {
		kind = "follow-up"
	}
	w.logf("    -> %s request to P%d for i%d=(%s,%x)%s", kind, pi, it.idx, k.name, h[:3], origin)
	if from != nil && from != k {
		w.fail("P1", "the tracker of kind %s made a pull due, the request that left the manager asks P%d for (kind %s, hash %x): a tracker only knows announcements of its own kind, so this is not the announced item",
			from.name, pi, k.name, h[:3])
		return
	}
	if inCall != nil && (inCall != it || inCallPeer != pi) {
		w.fail("P1", "announce(P%d,i%d) emitted a request to P%d for i%d", inCallPeer, inCall.idx, pi, it.idx)
		return
	}
	if followup && inCall == nil && from == nil {
		w.fail("P3", "request to P%d for i%d appeared although no tracker had queued one", pi, it.idx)
		return
	}
	// P4: nothing after the item was stored
	if it.arrived {
		w.fail("P4", "request to P%d for i%d at %v, but the item was stored at %v", pi, it.idx, now, it.arrivedAt)
		return
	}
	// P5 (upper part): no peer more often than it announced
	nr, na := 1, 0
	for _, r := range it.reqs {
		if r.peer == pi {
			nr++
		}
	}
	for _, a := range it.anns {
		if a.peer == pi {
			na++
		}
	}
	if nr > na {
		w.fail("P5", "P%d is asked for i%d=(%s,%x) for the %d. time but announced it %d time(s)", pi, it.idx, k.name, h[:3], nr, na)
		return
	}
	// P2: pulls in flight (issued less than pullDelay ago) never exceed the maximum
	inflight := 1
	for _, r := range it.reqs {
		if now-r.at < k.delay {
			inflight++
		}
	}
	if inflight > k.maxPar {
		w.fail("P2", "%d pulls for i%d issued within one pull delay of %v (at %v), the holder allows %d", inflight, it.idx, k.delay, now, k.maxPar)
		return
	}
	// P3: the delayed path asks a further announcer only >= pullDelay after the previous pull
	if followup {
		if len(it.reqs) == 0 {
			w.fail("P3", "follow-up request to P%d for i%d without any earlier pull", pi, it.idx)
			return
		}
		prev := it.reqs[len(it.reqs)-1]
		if now-prev.at < k.delay {
			w.fail("P3", "follow-up request to P%d for i%d at %v, only %v after the previous pull (P%d at %v), pull delay of kind %s is %v",
				pi, it.idx, now, now-prev.at, prev.peer, prev.at, k.name, k.delay)
			return
		}
		w.nFollowup++
		evid.Count("c.req.followup.kind-checked")
		evid.Count("c.req.followup." + w.shortWiring() + "." + k.class)
		if w.shortWiring() == "node" {
			evid.Count("c.req.followup.node.kind=" + k.name)
		}
	} else {
		evid.Count("c.req.immediate")
	}
	it.reqs = append(it.reqs, reqRec{peer: pi, hash: it.idx, at: now, followup: followup})
}

func (w *kworld) shortWiring() string {
	if strings.HasPrefix(w.wiring, "node") {
		return "node"
	}
	return "own"
}

// ---------------------------------------------------------------------------
// actions

func (w *kworld) announce(pi int, it *kitem) {
	k := it.k
	w.lastAction = w.now()
	w.logf("announce(P%d,i%d=(%s,%x))%s", pi, it.idx, k.name, it.hash[:3], map[bool]string{true: " [item held]", false: ""}[it.arrived])
	p0, a0, m0 := w.sizes(k)
	held := it.arrived
	var rec *annRec
	if !held {
		it.anns = append(it.anns, annRec{peer: pi, hash: it.idx, at: w.now()})
		rec = &it.anns[len(it.anns)-1]
		k.nAnn++
	} else {
		evid.Count("c.announce.held-item")
	}
	w.mgr.VerifC20AddPush(w.peers[pi], k.typ, it.hash)
	n := w.collect(false, it, pi, nil)
	for _, o := range w.kinds {
		if !o.deaf && len(o.tracker.Requests()) != 0 {
			w.fail("P3", "the tracker of kind %s emitted a request while its loop was asleep", o.name)
			return
		}
	}
	p1, a1, m1 := w.sizes(k)
	if held {
		// P4: announcements of known items are ignored
		if n != 0 || p1 != p0 || a1 != a0 || m1 != m0 {
			w.fail("P4", "announce(P%d,i%d) of a held item: %d request(s), pending %d->%d, active %d->%d, manager counters %d->%d",
				pi, it.idx, n, p0, p1, a0, a1, m0, m1)
		}
		return
	}
	if n > 1 {
		w.fail("P2", "announce(P%d,i%d) emitted %d requests", pi, it.idx, n)
		return
	}
	rec.immediate = n == 1
	if !rec.immediate {
		k.nPendingAnn++
	}
	// P1: the first announcer of an absent item is asked within the call
	if len(it.anns) == 1 && n != 1 {
		w.fail("P1", "first announcer P%d of absent i%d=(%s,%x) was not asked within the announcing call", pi, it.idx, k.name, it.hash[:3])
		return
	}
	// P6 (bounded): one pending entry per unanswered announcement at most
	if p1 > k.nPendingAnn {
		w.fail("P6", "pending list of kind %s holds %d entries after %d unanswered announcements", k.name, p1, k.nPendingAnn)
	}
}

// store makes the item known to its holder the way the node does.
func (w *kworld) store(it *kitem) {
	k := it.k
	switch k.class {
	case "txpool":
		tx := new(types.Transaction)
		if err := tx.FromBytes(kTxWire[it.idx]); err != nil || tx.Hash128() != it.hash {
			w.t.Fatalf("harness: transaction of i%d does not survive the wire: %v", it.idx, err)
		}
		if err := w.txPool.AddExternalTxs(validation.MempoolTx, tx); err != nil {
			w.t.Fatalf("harness: the transaction pool refused the transaction of i%d: %v", it.idx, err)
		}
	case "keyspool":
		pkg := new(types.PrivateFlipKeysPackage)
		if err := pkg.FromBytes(kPkgWire[it.idx]); err != nil || pkg.Hash128() != it.hash {
			w.t.Fatalf("harness: keys package of i%d does not survive the wire: %v", it.idx, err)
		}
		if err := w.keysPool.AddPrivateKeysPackage(pkg, false); err != nil {
			w.t.Fatalf("harness: the key pool refused the keys package of i%d: %v", it.idx, err)
		}
	case "pool-like":
		k.pool.store(it.hash, it.idx)
	default:
		// what the handler does with a received vote / block / proof / flip
		w.mgr.AddEntry(protocol.VerifPushPullHash{Type: protocol.VerifPushType(k.typ), Hash: it.hash}, it.idx, common.MultiShard, false)
	}
}

func (w *kworld) arrive(it *kitem) {
	k := it.k
	if it.arrived && (k.class == "txpool" || k.class == "keyspool") {
		return // the pools refuse a second copy
	}
	w.lastAction = w.now()
	w.logf("arrive(i%d=(%s,%x))", it.idx, k.name, it.hash[:3])
	w.store(it)
	if !it.arrived {
		it.arrived, it.arrivedAt = true, w.now()
		evid.Count("c.arrival." + w.shortWiring() + "." + k.class)
		if len(it.anns) > 0 && len(it.reqs) < len(it.anns) {
			evid.Count("c.arrival.with-announcers-still-waiting")
		}
	}
	if n := w.collect(false, nil, 0, nil); n != 0 {
		w.fail("P4", "storing i%d emitted %d request(s)", it.idx, n)
		return
	}
	if !k.holder.Has(it.hash) {
		w.fail("P4", "Has(i%d) is false right after the item was stored", it.idx)
		return
	}
	if got, _, _, ok := w.mgr.GetEntry(protocol.VerifPushPullHash{Type: protocol.VerifPushType(k.typ), Hash: it.hash}); !ok || got == nil {
		w.fail("P4", "the manager cannot serve i%d=(%s,%x) right after it was stored", it.idx, k.name, it.hash[:3])
		return
	}
	if _, ok := k.tracker.VerifC20ActivePulls()[it.hash]; ok && k.registryFollowsArrival {
		w.fail("P6", "active pull registry of kind %s still holds i%d after it was stored", k.name, it.idx)
	}
}

// sync waits until the forwarding goroutine of kind k has handled everything k's tracker has queued: a marker is put
// behind it into the tracker's request queue; the queue is FIFO and has one reader, so once the marker has left the
// manager the requests queued before it have left it too (and their pulls are registered).
func (w *kworld) sync(k *kkind) {
	sent := false
	select {
	case k.tracker.Requests() <- pushpull.PendingPulls{Id: kSyncPeer, Hash: kSyncHash(k.typ)}:
		sent = true
	default:
	}
	// the wait is counted in scheduler rounds as well as in time: in every round the harness goes to sleep and a control
	// goroutine that is woken through a channel, just like a forwarding goroutine, has to answer. A forwarding goroutine
	// that exists is runnable from the moment the tracker queued the request and gets the processor many times over
	// before the harness gives up.
	minRounds, minWait := 1500, 2*time.Second
	if k.deaf {
		minRounds, minWait = 300, 200*time.Millisecond
	}
	var ping, pong chan struct{}
	defer func() {
		if ping != nil {
			close(ping)
		}
	}()
	t0 := time.Now()
	for rounds := 0; sent; rounds++ {
		select {
		case r := <-w.mgr.Requests():
			id, typ, h := protocol.VerifC20Unpack(r)
			if id == kSyncPeer {
				if h == kSyncHash(k.typ) {
					k.deaf = false
					return
				}
				continue
			}
			w.onRequest(id, typ, h, true, nil, 0, k)
			continue
		default:
		}
		if rounds < 300 {
			runtime.Gosched()
			continue
		}
		if ping == nil {
			ping, pong = make(chan struct{}), make(chan struct{})
			go func(ping, pong chan struct{}) {
				for range ping {
					pong <- struct{}{}
				}
			}(ping, pong)
		}
		ping <- struct{}{}
		<-pong
		time.Sleep(50 * time.Microsecond)
		if rounds > minRounds && time.Since(t0) > minWait {
			break
		}
	}
	// nobody reads the tracker's queue: take out what is in it
	k.deaf = true
	var stuck []string
	for more := true; more; {
		select {
		case r := <-k.tracker.Requests():
			if r.Id == kSyncPeer {
				continue
			}
			it := w.byKey[kkey{k.typ, r.Hash}]
			name := fmt.Sprintf("(%s,%x)", k.name, r.Hash[:3])
			if it != nil {
				name = fmt.Sprintf("i%d=", it.idx) + name
			}
			stuck = append(stuck, fmt.Sprintf("%s from P%d", name, w.peerIdx[r.Id]))
		default:
			more = false
		}
	}
	if len(stuck) > 0 {
		w.fail("P5", "the tracker of kind %s found the next announcer due and queued the pull(s) %v at %v, but nothing forwards them: they were still in the tracker's request queue after %v of real time (%d scheduler rounds, in each of which a control goroutine woken through a channel did run), while the tracker counts the pull as made. The next announcer is never asked; the item is lost if the first one does not deliver",
			k.name, stuck, w.now(), time.Since(t0).Round(time.Millisecond), minRounds)
	}
}

// step releases the earliest parked goroutine whose wake-up time is not after instant t, lets it run until it parks
// again, then lets the manager forward what the tracker queued. It reports whether there was such a goroutine.
func (w *kworld) step(t time.Time) bool {
	before := make([]int, len(w.kinds))
	for i, k := range w.kinds {
		before[i] = k.tracker.VerifC20PendingLen()
	}
	if !vclock.StepTo(t) {
		return false
	}
	waitParked(w.parked)
	for i, k := range w.kinds {
		// a tracker takes an entry off its pending list before it queues the request
		if k.tracker.VerifC20PendingLen() < before[i] || len(k.tracker.Requests()) > 0 {
			w.sync(k)
		}
	}
	if n := w.collect(true, nil, 0, nil); n != 0 {
		w.fail("P3", "%d request(s) appeared without a tracker queueing any", n)
	}
	return true
}

// busyWake is the earliest instant at which a tracker with pending announcers wants to act (last pull of its head entry
// plus its pull delay).
func (w *kworld) busyWake() (time.Time, bool) {
	var best time.Time
	any := false
	for _, k := range w.kinds {
		snap := k.tracker.VerifC20PendingSnapshot()
		if len(snap) == 0 {
			continue
		}
		at := snap[0].Time.Add(k.delay)
		if !any || at.Before(best) {
			best, any = at, true
		}
	}
	return best, any
}

// advanceTo moves virtual time to target. Every sleeper is woken at or after its wake-up time (a sleep may overshoot,
// never undershoot). A tracker with pending announcers is woken exactly when its head entry falls due; the 10 ms idle
// polls of the other trackers and the one-minute gc loops are woken late, together with it, instead of thousands of
// times in between. At every instant the harness stops at, ALL sleepers that are due are released (one at a time), so
// that what a tracker sees does not depend on the order in which the goroutines of different trackers went to sleep
// (that order is not owned by the harness; trackers of different kinds share no state).
func (w *kworld) advanceTo(target time.Time) {
	for {
		nw, ok := vclock.NextWake()
		if !ok || nw.After(target) {
			break
		}
		t := nw
		if bw, busy := w.busyWake(); !busy {
			t = target
		} else if bw.After(t) {
			t = bw
			if t.After(target) {
				t = target
			}
		}
		for w.step(t) {
		}
	}
	if d := target.Sub(vclock.Now()); d > 0 {
		vclock.Advance(d)
	}
}

func (w *kworld) advance(dt time.Duration) {
	w.logf("advance(%v)", dt)
	w.advanceTo(vclock.Now().Add(dt))
}

// finish lets max over kinds of (#announcements+2)*pullDelay pass and evaluates P5 and P6.
func (w *kworld) finish() {
	var budget time.Duration
	for _, k := range w.kinds {
		if b := time.Duration(k.nAnn+2) * k.delay; k.nAnn > 0 && b > budget {
			budget = b
		}
	}
	w.logf("drain(%v)", budget)
	w.advanceTo(epoch.Add(w.lastAction + budget))
	for _, it := range w.items {
		if it.arrived {
			continue
		}
		asked := map[int]bool{}
		for _, r := range it.reqs {
			asked[r.peer] = true
		}
		for _, a := range it.anns {
			if !asked[a.peer] {
				w.fail("P5", "i%d=(%s,%x) never arrived; P%d announced it at %v and could still serve it, but was never asked within %v after the last action (asked: %v)",
					it.idx, it.k.name, it.hash[:3], a.peer, a.at, budget, keys(asked))
				return
			}
		}
	}
	// P6: quiescence
	announced := 0
	for _, it := range w.items {
		if len(it.anns) > 0 {
			announced++
		}
	}
	for _, k := range w.kinds {
		if snap := k.tracker.VerifC20PendingSnapshot(); len(snap) != 0 {
			w.fail("P6", "pending list of kind %s not empty at quiescence: %d entries, head (%s,%x)", k.name, len(snap), string(snap[0].Id), snap[0].Hash[:3])
			return
		}
		for h := range k.tracker.VerifC20ActivePulls() {
			if h == kSyncHash(k.typ) {
				continue // the harness' marker
			}
			it := w.byKey[kkey{k.typ, h}]
			if it != nil && !k.registryFollowsArrival {
				continue // aged out by the gc only: bounded, not a leak
			}
			if it == nil || it.arrived || len(it.anns) == 0 {
				w.fail("P6", "active pull registry of kind %s holds %x, which is held or was never pulled", k.name, h[:3])
				return
			}
		}
		if len(k.tracker.Requests()) != 0 {
			w.fail("P6", "request queue of the tracker of kind %s not empty at quiescence", k.name)
			return
		}
	}
	if m := w.mgr.VerifC20PendingCount(); m != announced {
		w.fail("P6", "manager keeps %d pull counters for %d announced absent items", m, announced)
		return
	}
	if len(w.mgr.Requests()) != 0 {
		w.fail("P6", "the manager's request queue is not empty at quiescence")
	}
}

// classify records the distribution of generated shapes; non-trivial = an item whose further announcer was asked by the
// delayed path (at least one follow-up pull) in a manager with at least two kinds.
func (w *kworld) classify() {
	sw := w.shortWiring()
	evid.Count("c.case.wiring=" + sw)
	evid.Count(fmt.Sprintf("c.case.%s.kinds=%d", sw, len(w.kinds)))
	kindsWithFollowup := map[uint8]bool{}
	kindsWithItems := map[uint8]bool{}
	for _, it := range w.items {
		kindsWithItems[it.k.typ] = true
		evid.Count("c.item." + sw + ".class=" + it.k.class)
		if it.twinOf >= 0 {
			evid.Count("c.item.same-hash-as-item-of-another-kind")
		}
		if len(it.anns) == 0 {
			continue
		}
		fu := 0
		for _, r := range it.reqs {
			if r.followup {
				fu++
			}
		}
		fate := "never-arrives"
		if it.arrived {
			fate = fmt.Sprintf("arrives-after-%s-pulls", capN(len(it.reqs), 3))
		}
		evid.Count("c.item." + fate)
		evid.Count("c.item.followups=" + capN(fu, 4))
		if fu > 0 {
			kindsWithFollowup[it.k.typ] = true
			var sb strings.Builder
			fmt.Fprintf(&sb, "c|%s|%s|%s|d=%v|", sw, it.k.name, it.k.class, it.k.delay)
			t0 := it.anns[0].at
			for _, a := range it.anns {
				fmt.Fprintf(&sb, "A%d@%d;", a.peer, (a.at-t0)/time.Millisecond)
			}
			for _, r := range it.reqs {
				fmt.Fprintf(&sb, "R%d@%d;", r.peer, (r.at-t0)/time.Millisecond)
			}
			if it.arrived {
				fmt.Fprintf(&sb, "X@%d", (it.arrivedAt-t0)/time.Millisecond)
			}
			evid.Count("c.item.nontrivial." + sw)
			evid.NonTrivial(sb.String())
			evid.Sample("c.nontrivial."+sw, map[string]interface{}{"item": it.idx, "events": sb.String()})
		}
	}
	evid.Count("c.case.kinds-with-items=" + capN(len(kindsWithItems), 4))
	evid.Count("c.case.kinds-with-followup=" + capN(len(kindsWithFollowup), 4))
}

// canon is the outcome of a schedule item by item (announcements, requests, arrival with their virtual times). Trackers
// of different kinds that fall due at the same virtual instant are released in the order in which their goroutines
// went to sleep, which the harness does not own; they share no state, so the per-item logs do not depend on it.
func (w *kworld) canon() string {
	var sb strings.Builder
	for _, it := range w.items {
		fmt.Fprintf(&sb, "i%d=(%s,%x):", it.idx, it.k.name, it.hash[:3])
		for _, a := range it.anns {
			fmt.Fprintf(&sb, " A%d@%v/%v", a.peer, a.at, a.immediate)
		}
		for _, r := range it.reqs {
			fmt.Fprintf(&sb, " R%d@%v/%v", r.peer, r.at, r.followup)
		}
		if it.arrived {
			fmt.Fprintf(&sb, " X@%v", it.arrivedAt)
		}
		sb.WriteString("\n")
	}
	return sb.String()
}

// ---------------------------------------------------------------------------

type kaction struct {
	kind int // 0 announce, 1 arrive, 2 advance
	peer int
	item int
	dt   time.Duration
}

func (w *kworld) run(acts []kaction) {
	for _, a := range acts {
		switch a.kind {
		case 0:
			w.announce(a.peer, w.items[a.item])
		case 1:
			w.arrive(w.items[a.item])
		default:
			if w.now()+a.dt < 45*time.Second {
				w.advance(a.dt)
			}
		}
	}
	w.finish()
}

// drawKActions draws a schedule over the given items. Time steps are taken around the 10 ms idle poll and around
// 1/3..2x the pull delay of a drawn item's kind.
func drawKActions(t *rapid.T, nP int, delays []time.Duration, never []bool) []kaction {
	nI := len(delays)
	n := rapid.IntRange(1, 40).Draw(t, "actions")
	var acts []kaction
	for i := 0; i < n; i++ {
		switch k := rapid.IntRange(0, 9).Draw(t, "kind"); {
		case k <= 5:
			acts = append(acts, kaction{kind: 0, peer: rapid.IntRange(0, nP-1).Draw(t, "peer"), item: rapid.IntRange(0, nI-1).Draw(t, "item")})
		case k == 6:
			if it := rapid.IntRange(0, nI-1).Draw(t, "item"); !never[it] {
				acts = append(acts, kaction{kind: 1, item: it})
			}
		default:
			d := delays[rapid.IntRange(0, nI-1).Draw(t, "delayOfItem")]
			dts := []time.Duration{d + time.Millisecond, d, d - time.Millisecond, d / 2, d / 3, 10 * time.Millisecond, 11 * time.Millisecond, time.Millisecond,
				d + 10*time.Millisecond, 2*d + 5*time.Millisecond}
			acts = append(acts, kaction{kind: 2, dt: rapid.SampledFrom(dts).Draw(t, "dt")})
		}
	}
	return acts
}

func drawNever(t *rapid.T, n int) []bool {
	never := make([]bool, n)
	for i := range never {
		never[i] = rapid.IntRange(0, 1).Draw(t, "neverArrives") == 0
	}
	return never
}

// TestNodeManagerSchedule: the manager of the gossip handler the node builds, the real pools as holders, items of all
// six kinds in one schedule.
func TestNodeManagerSchedule(t *testing.T) {
	rapid.Check(t, func(t *rapid.T) {
		evid.Eval()
		nP := rapid.IntRange(2, 6).Draw(t, "peers")
		poolsFirst := rapid.IntRange(0, 3).Draw(t, "poolsInitializedFirst") == 3
		nI := rapid.IntRange(1, kMaxItems).Draw(t, "items")
		specs := make([]kItemSpec, nI)
		for i := range specs {
			specs[i] = kItemSpec{typ: uint8(rapid.IntRange(int(kVote), int(kTx)).Draw(t, "itemKind")), twin: rapid.IntRange(-2, nI-1).Draw(t, "sameHashAs")}
		}
		never := drawNever(t, nI)
		build := func() *kworld {
			w := newNodeWorld(t, nP, poolsFirst)
			w.addItems(specs)
			return w
		}
		w := build()
		delays := make([]time.Duration, nI)
		for i, it := range w.items {
			delays[i] = it.k.delay
		}
		acts := drawKActions(t, nP, delays, never)
		w.run(acts)
		w.classify()
		evid.Count("c.case.completed")
		if poolsFirst {
			evid.Count("c.case.node.pools-initialized-before-the-handler")
		}
		if rapid.IntRange(0, 15).Draw(t, "replay") == 0 {
			w2 := build()
			w2.run(acts)
			if a, b := w.canon(), w2.canon(); a != b {
				t.Fatalf("harness: the same actions produced two different request logs:\n%s\n--- second run ---\n%s\n--- schedules ---\n%s\n--- second run ---\n%s",
					a, b, strings.Join(w.trace, "\n"), strings.Join(w2.trace, "\n"))
			}
			evid.Count("c.selfcheck.replayed-identically")
		}
	})
}

// TestSeveralKindsSchedule: a manager with 2-6 kinds (default and pool-like holders, a pull delay per kind) registered
// in drawn order and started with Run; items of several kinds in one schedule.
func TestSeveralKindsSchedule(t *testing.T) {
	rapid.Check(t, func(t *rapid.T) {
		evid.Eval()
		nP := rapid.IntRange(2, 6).Draw(t, "peers")
		order := rapid.Permutation([]uint8{kVote, kBlock, kProof, kFlip, kKeyPackage, kTx}).Draw(t, "registrationOrder")
		nK := rapid.IntRange(2, 6).Draw(t, "kinds")
		kspecs := make([]kKindSpec, nK)
		for i := range kspecs {
			kspecs[i] = kKindSpec{typ: order[i], poolLike: rapid.IntRange(0, 2).Draw(t, "poolLikeHolder") == 0,
				delay: rapid.SampledFrom([]time.Duration{300 * time.Millisecond, 500 * time.Millisecond, time.Second, 3 * time.Second}).Draw(t, "pullDelay")}
		}
		nI := rapid.IntRange(1, kMaxItems).Draw(t, "items")
		specs := make([]kItemSpec, nI)
		for i := range specs {
			specs[i] = kItemSpec{typ: kspecs[rapid.IntRange(0, nK-1).Draw(t, "itemKind")].typ, twin: rapid.IntRange(-2, nI-1).Draw(t, "sameHashAs")}
		}
		never := drawNever(t, nI)
		build := func() *kworld {
			w := newOwnWorld(t, nP, kspecs)
			w.addItems(specs)
			return w
		}
		w := build()
		delays := make([]time.Duration, nI)
		for i, it := range w.items {
			delays[i] = it.k.delay
		}
		acts := drawKActions(t, nP, delays, never)
		w.run(acts)
		w.classify()
		evid.Count("c.case.completed")
		if rapid.IntRange(0, 15).Draw(t, "replay") == 0 {
			w2 := build()
			w2.run(acts)
			if a, b := w.canon(), w2.canon(); a != b {
				t.Fatalf("harness: the same actions produced two different request logs:\n%s\n--- second run ---\n%s\n--- schedules ---\n%s\n--- second run ---\n%s",
					a, b, strings.Join(w.trace, "\n"), strings.Join(w2.trace, "\n"))
			}
			evid.Count("c.selfcheck.replayed-identically")
		}
	})
}

// TestNodeFallsBackForEveryKind (plain): on the node's own manager, for each of the six kinds, one announcer more than
// the holder pulls from at once announces an item that nobody delivers; the last announcer has to be asked for that
// very (kind, hash) one pull delay later.
func TestNodeFallsBackForEveryKind(t *testing.T) {
	evid.Eval()
	w := newNodeWorld(t, 4, false)
	specs := make([]kItemSpec, 0, 6)
	for typ := kVote; typ <= kTx; typ++ {
		specs = append(specs, kItemSpec{typ: typ, twin: -1})
	}
	w.addItems(specs)
	var acts []kaction
	for i, it := range w.items {
		n := it.k.maxPar // the holder pulls from max(1, maxPar-1) announcers at once
		if n < 2 {
			n = 2
		}
		for p := 0; p < n; p++ {
			acts = append(acts, kaction{kind: 0, peer: p, item: i})
		}
	}
	w.run(acts)
	for _, it := range w.items {
		if len(it.reqs) != len(it.anns) || !it.reqs[len(it.reqs)-1].followup {
			t.Fatalf("i%d=(%s): %d announcers, %d pulls, last one a follow-up: %v\n%s", it.idx, it.k.name, len(it.anns), len(it.reqs),
				len(it.reqs) > 0 && it.reqs[len(it.reqs)-1].followup, strings.Join(w.trace, "\n"))
		}
	}
	evid.Count("c.regression.node-falls-back-for-every-kind")
	evid.NonTrivial("c.regression.node-falls-back-for-every-kind")
}

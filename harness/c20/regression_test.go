package c20

import (
	"fmt"
	"testing"
	"time"

	"github.com/idena-network/idena-go/common"
	"github.com/libp2p/go-libp2p-core/peer"

	"verifharness/internal/evid"
)

// Shrunk form of the failure TestSteppedSchedule finds on idena-go 's tracker:
// two items are being pulled; P2 announces the later-pulled one (h1) first, the
// loop goes to sleep on that entry; P2 then announces the earlier-pulled one
// (h0), whose entry is sorted in front. After its sleep the loop treats index 0
// as the entry it had peeked: it asks P2 for h1 but deletes P2's announcement of
// h0 (never asked although it could serve h0) and keeps the h1 entry (P2 is asked
// for h1 a second time).
func TestStaleHeadIndexRegression(t *testing.T) {
	evid.Eval()
	w := newWorld(t, time.Second, 2, 3)
	w.announce(0, 0) // t=0: h0 pulled from P0, P1
	w.announce(1, 0)
	w.advance(500 * time.Millisecond)
	w.announce(0, 1) // t=0.5: h1 pulled from P0, P1
	w.announce(1, 1)
	w.advance(100 * time.Millisecond)
	w.announce(2, 1)                 // t=0.6: P2 pending for h1 (last pull 0.5)
	w.advance(10 * time.Millisecond) // the idle poll sees it and sleeps until 1.5
	w.announce(2, 0)                 // t=0.61: P2 pending for h0 (last pull 0) -> sorted ahead
	w.finish()
	if w.excluded {
		evid.Count("a.regression.stale-head.known")
		return
	}
	evid.Count("a.regression.stale-head.held")
}

// The pending list is capped (maxPendingPushes = 20000, one entry of slack): a
// flood of announcers for an item that never arrives cannot grow it further.
func TestPendingListIsCapped(t *testing.T) {
	evid.Eval()
	w := newWorld(t, 3*time.Second, 1, 1)
	h := w.hashes[0]
	sizeAt := map[int]int{}
	for i := 0; i < 26000; i++ {
		w.mgr.VerifC20AddPush(peer.ID(fmt.Sprintf("flood-%d", i)), pushTyp, h)
		for len(w.mgr.Requests()) > 0 {
			<-w.mgr.Requests()
		}
		if i == 22000 || i == 25999 {
			sizeAt[i] = w.tracker.VerifC20PendingLen()
		}
	}
	if sizeAt[25999] > 20001 || sizeAt[25999] != sizeAt[22000] {
		t.Fatalf("P6 violated: pending list keeps growing: %d entries after 22000 announcers, %d after 26000", sizeAt[22000], sizeAt[25999])
	}
	if n := len(w.tracker.VerifC20ActivePulls()); n != 1 {
		t.Fatalf("P6 violated: %d active pulls for one item", n)
	}
	_ = common.Hash128{}
	evid.Count("a.regression.pending-cap")
}

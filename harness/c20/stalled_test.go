package c20

import (
	"fmt"
	"testing"
	"time"

	"github.com/idena-network/idena-go/common"
	"github.com/idena-network/idena-go/common/pushpull"
	"github.com/idena-network/idena-go/common/vclock"
	"github.com/libp2p/go-libp2p-core/peer"

	"verifharness/internal/evid"
)

// Back-pressure on the tracker's request queue (real clock, plain test): more fallback pulls become due than the
// queue holds (1000) while its reader is stalled. "No announcement sequence makes the tracker lose an item that some
// announcer could still serve": once the reader resumes, every missing item must still be requested from its queued
// announcer. The verdict does not depend on timing: a run counts as lost only when the tracker is quiescent (pending
// list and queue empty) with requests missing; a tracker that is merely slow is reported as inconclusive.
func TestStalledRequestsReader(t *testing.T) {
	vclock.Reset()
	vclock.DropWaiters()
	const n = 1100
	delay := 100 * time.Millisecond
	tr := pushpull.NewDefaultPushTracker(delay)
	holder := pushpull.NewDefaultHolder(1, tr) // starts the loop
	_ = holder
	hashes := make([]common.Hash128, n)
	for i := range hashes {
		hashes[i] = common.Hash128{byte(i), byte(i >> 8), 0xC2, 0x20}
		tr.RegisterPull(hashes[i])                  // the first announcer was asked directly
		tr.AddPendingPush(peer.ID("B"), hashes[i]) // the second one waits for the pull delay
	}
	if got := tr.VerifC20PendingLen(); got != n {
		t.Fatalf("scenario: %d of %d announcers queued", got, n)
	}
	// stall: nobody reads Requests() until the queue is full (or nothing moves any more)
	deadline := time.Now().Add(30 * time.Second)
	for len(tr.Requests()) < cap(tr.Requests()) && time.Now().Before(deadline) {
		time.Sleep(5 * time.Millisecond)
	}
	full := len(tr.Requests()) == cap(tr.Requests())
	time.Sleep(3 * delay)
	// the reader resumes
	got := map[common.Hash128]int{}
	quietSince := time.Time{}
	deadline = time.Now().Add(60 * time.Second)
	for len(got) < n {
		select {
		case r := <-tr.Requests():
			if r.Id != peer.ID("B") {
				t.Fatalf("request to %q, only B announced", r.Id)
			}
			got[r.Hash]++
			quietSince = time.Time{}
		case <-time.After(20 * time.Millisecond):
			if tr.VerifC20PendingLen() == 0 && len(tr.Requests()) == 0 {
				if quietSince.IsZero() {
					quietSince = time.Now()
				} else if time.Since(quietSince) > 2*time.Second {
					t.Fatalf("P5 violated: the tracker is quiescent (pending list and request queue empty) but %d of %d missing items were never requested from their queued announcer (request queue was full during the stall: %v)", n-len(got), n, full)
				}
			} else {
				quietSince = time.Time{}
			}
			if time.Now().After(deadline) {
				inconclusive(fmt.Sprintf("stalled-reader scenario: %d of %d requests after 60 s, pending=%d", len(got), n, tr.VerifC20PendingLen()))
			}
		}
	}
	for h, c := range got {
		if c != 1 {
			t.Fatalf("P5 violated: B asked %d times for %x", c, h[:2])
		}
	}
	evid.Eval()
	evid.Count("a.regression.stalled-reader")
	if full {
		evid.Count("a.regression.stalled-reader.queue-was-full")
	}
	evid.NonTrivial("stalled-reader")
}

package c20

// Part (b): real clock, real goroutines, built with -race. The manager, holder
// and tracker are wired exactly as in gossip.go (no tap). Eight goroutines, one
// per peer, announce and deliver items concurrently with a 20 ms pull delay.
//
// Only bounds that scheduling delays cannot break are asserted:
//   - the race detector and panics (process level);
//   - lower bounds on time: the stamp of an earlier event is taken BEFORE the
//     event can have happened (start of the announcing call), the stamp of the
//     later request AFTER it happened (when it is collected);
//   - causal facts that need no clock (a peer whose every announcement started
//     after Add returned is never asked);
//   - a request collected later than a grace period (10 pull delays) after Add
//     returned, judged only when neither the collector nor three canary
//     goroutines ever overslept by more than 20 ms during the run;
//   - static size bounds.
// A pull that does not show up within the run is never a violation here.

import (
	"fmt"
	"strings"
	"sync"
	"sync/atomic"
	"testing"
	"time"

	"github.com/idena-network/idena-go/common"
	"github.com/idena-network/idena-go/common/pushpull"
	"github.com/idena-network/idena-go/common/vclock"
	"github.com/idena-network/idena-go/protocol"
	"github.com/libp2p/go-libp2p-core/peer"
	"pgregory.net/rapid"

	"verifharness/internal/evid"
	"verifharness/internal/kf"
)

const (
	bDelay      = 20 * time.Millisecond
	bTolerance  = time.Millisecond
	bGrace      = 10 * bDelay
	bStallLimit = 20 * time.Millisecond
	bWorkers    = 8
)

type bOp struct {
	kind  int // 0 announce, 1 arrive
	hash  int
	pause time.Duration
}

type bAnn struct {
	peer, hash  int
	start       time.Time
	postArrival bool // Add(hash) had returned before the call started
}

type bReq struct {
	peer, hash int
	at         time.Time // taken after the request left the manager
}

func TestConcurrentRealClock(t *testing.T) {
	rapid.Check(t, func(t *rapid.T) {
		evid.Eval()
		vclock.Reset()
		vclock.DropWaiters()

		nH := rapid.IntRange(2, 6).Draw(t, "hashes")
		never := make([]bool, nH)
		for i := range never {
			never[i] = rapid.IntRange(0, 2).Draw(t, "neverArrives") > 0
		}
		// several item kinds in one manager (each hash belongs to one kind; a kind has its own holder and tracker, as in
		// the node): every request has to name the kind under which the hash was announced
		kindPool := []uint8{pushTyp, kVote, kBlock, kTx}
		nK := rapid.IntRange(1, 4).Draw(t, "kinds")
		kindOf := make([]int, nH)
		for i := range kindOf {
			kindOf[i] = rapid.IntRange(0, nK-1).Draw(t, "kindOfHash")
		}
		pauses := []time.Duration{0, 0, 50 * time.Microsecond, 500 * time.Microsecond, 2 * time.Millisecond, 8 * time.Millisecond, 25 * time.Millisecond}
		scripts := make([][]bOp, bWorkers)
		totalAnn := 0
		var desc strings.Builder
		for g := range scripts {
			n := rapid.IntRange(2, 10).Draw(t, "ops")
			for i := 0; i < n; i++ {
				op := bOp{hash: rapid.IntRange(0, nH-1).Draw(t, "hash"), pause: rapid.SampledFrom(pauses).Draw(t, "pause")}
				if rapid.IntRange(0, 7).Draw(t, "kind") == 0 {
					op.kind = 1
					if never[op.hash] {
						continue
					}
				} else {
					totalAnn++
				}
				scripts[g] = append(scripts[g], op)
				fmt.Fprintf(&desc, "%d:%d:%d:%d;", g, op.kind, op.hash, op.pause/time.Microsecond)
			}
		}

		hashes := make([]common.Hash128, nH)
		hashIdx := map[common.Hash128]int{}
		for i := range hashes {
			hashes[i] = common.Hash128{byte(i + 1), 0xB2}
			hashIdx[hashes[i]] = i
		}
		peers := make([]peer.ID, bWorkers)
		peerIdx := map[peer.ID]int{}
		for i := range peers {
			peers[i] = peer.ID(fmt.Sprintf("P%d", i))
			peerIdx[peers[i]] = i
		}

		trackers := make([]*pushpull.DefaultPushTracker, nK)
		holders := make([]pushpull.Holder, nK)
		mgr := protocol.NewPushPullManager()
		for i := 0; i < nK; i++ {
			trackers[i] = pushpull.NewDefaultPushTracker(bDelay)
			holders[i] = pushpull.NewDefaultHolder(1, trackers[i])
			mgr.AddEntryHolder(protocol.VerifPushType(kindPool[i]), holders[i])
		}
		maxPar := int(holders[0].MaxParallelPulls())
		mgr.Run()
		pendingLen := func() (n int) {
			for _, tr := range trackers {
				n += tr.VerifC20PendingLen()
			}
			return n
		}
		activeLen := func() (n int) {
			for _, tr := range trackers {
				n += len(tr.VerifC20ActivePulls())
			}
			return n
		}

		var (
			mu         sync.Mutex
			arrivedAt  = make([]time.Time, nH) // earliest stamp taken after an Add(h) returned
			arrivedAck = make([]int32, nH)
			violations []string
		)
		violate := func(format string, args ...interface{}) {
			mu.Lock()
			violations = append(violations, fmt.Sprintf(format, args...))
			mu.Unlock()
		}

		// collector: polls the manager's output; its own heartbeat bounds how late a stamp can be
		var reqs []bReq
		var maxBeat time.Duration
		var maxPending, maxActive int
		stop := make(chan struct{})
		collected := make(chan struct{})
		go func() {
			defer close(collected)
			last := time.Now()
			for tick := 0; ; tick++ {
				for more := true; more; {
					select {
					case r := <-mgr.Requests():
						id, typ, h := protocol.VerifC20Unpack(r)
						now := time.Now()
						hi, okh := hashIdx[h]
						pi, okp := peerIdx[id]
						if !okh || !okp {
							violate("request for something never announced: peer=%q type=%d hash=%x", id, typ, h[:2])
							continue
						}
						if typ != kindPool[kindOf[hi]] {
							violate("P1 violated: P%d is asked for (kind %d, h%d), but h%d was announced under kind %d only: the peer cannot serve that item", pi, typ, hi, hi, kindPool[kindOf[hi]])
							continue
						}
						reqs = append(reqs, bReq{peer: pi, hash: hi, at: now})
					default:
						more = false
					}
				}
				now := time.Now()
				if d := now.Sub(last); d > maxBeat {
					maxBeat = d
				}
				last = now
				if tick%8 == 0 {
					if n := pendingLen(); n > maxPending {
						maxPending = n
					}
					if n := activeLen(); n > maxActive {
						maxActive = n
					}
				}
				select {
				case <-stop:
					return
				default:
				}
				time.Sleep(100 * time.Microsecond)
			}
		}()

		// canaries: if any goroutine of this process oversleeps by more than the stall limit, the run is
		// treated as starved and the grace-period clause is not judged
		var canaryMax int64
		var cwg sync.WaitGroup
		for c := 0; c < 3; c++ {
			cwg.Add(1)
			go func() {
				defer cwg.Done()
				last := time.Now()
				for {
					select {
					case <-stop:
						return
					default:
					}
					time.Sleep(time.Millisecond)
					now := time.Now()
					for d := int64(now.Sub(last)); ; {
						if old := atomic.LoadInt64(&canaryMax); d <= old || atomic.CompareAndSwapInt64(&canaryMax, old, d) {
							break
						}
					}
					last = now
				}
			}()
		}

		anns := make([][]bAnn, bWorkers)
		var wg sync.WaitGroup
		startGate := make(chan struct{})
		for g := 0; g < bWorkers; g++ {
			wg.Add(1)
			go func(g int) {
				defer wg.Done()
				<-startGate
				for _, op := range scripts[g] {
					if op.kind == 0 {
						post := atomic.LoadInt32(&arrivedAck[op.hash]) == 1
						anns[g] = append(anns[g], bAnn{peer: g, hash: op.hash, start: time.Now(), postArrival: post})
						mgr.VerifC20AddPush(peers[g], kindPool[kindOf[op.hash]], hashes[op.hash])
					} else {
						holders[kindOf[op.hash]].Add(hashes[op.hash], op.hash, common.MultiShard, false)
						after := time.Now()
						mu.Lock()
						if arrivedAt[op.hash].IsZero() || after.Before(arrivedAt[op.hash]) {
							arrivedAt[op.hash] = after
						}
						mu.Unlock()
						atomic.StoreInt32(&arrivedAck[op.hash], 1)
					}
					if op.pause > 0 {
						time.Sleep(op.pause)
					}
				}
			}(g)
		}
		close(startGate)
		wg.Wait()
		// let the follow-up chains of the items that have not arrived run, then deliver everything
		time.Sleep(8 * bDelay)
		windowEnd := time.Now()
		for hi := range hashes {
			holders[kindOf[hi]].Add(hashes[hi], hi, common.MultiShard, false)
			after := time.Now()
			if arrivedAt[hi].IsZero() {
				arrivedAt[hi] = after
			}
		}
		time.Sleep(bGrace + 3*bDelay)
		close(stop)
		<-collected
		cwg.Wait()
		if d := time.Duration(atomic.LoadInt64(&canaryMax)); d > maxBeat {
			maxBeat = d
		}
		endPending, endActive := pendingLen(), activeLen()

		// ---- oracle (single goroutine from here on) ----
		for _, v := range violations {
			t.Fatalf("%s", v)
		}
		stalled := maxBeat > bStallLimit
		if stalled {
			evid.Count("b.run.collector-stalled")
		}
		type key struct{ p, h int }
		annCnt := map[key]int{}
		preCnt := map[key]int{}
		firstStart := map[key]time.Time{}
		hashStart := make([]time.Time, nH)
		announcers := make([]map[int]bool, nH)
		for i := range announcers {
			announcers[i] = map[int]bool{}
		}
		for _, l := range anns {
			for _, a := range l {
				k := key{a.peer, a.hash}
				annCnt[k]++
				if !a.postArrival {
					preCnt[k]++
				} else {
					evid.Count("b.announce.after-arrival-acknowledged")
				}
				if s, ok := firstStart[k]; !ok || a.start.Before(s) {
					firstStart[k] = a.start
				}
				if hashStart[a.hash].IsZero() || a.start.Before(hashStart[a.hash]) {
					hashStart[a.hash] = a.start
				}
				announcers[a.hash][a.peer] = true
			}
		}
		perHash := make([][]bReq, nH)
		reqCnt := map[key]int{}
		for _, r := range reqs {
			perHash[r.hash] = append(perHash[r.hash], r)
			reqCnt[key{r.peer, r.hash}]++
		}
		evid.CountN("b.req.total", len(reqs))
		for k, n := range reqCnt {
			if annCnt[k] == 0 {
				t.Fatalf("P1 violated: P%d was asked for h%d which it never announced", k.p, k.h)
			}
			// causal form of P4: all of this peer's announcements started after Add had returned
			if preCnt[k] == 0 {
				t.Fatalf("P4 violated: P%d was asked for h%d although each of its announcements started after Add(h%d) had returned", k.p, k.h, k.h)
			}
			if n > annCnt[k] {
				// only the stale-head defect can re-issue a request (see part (a))
				if kf.Report(t, property, kfStaleHead, "concurrent run: P%d was asked for h%d %d times but announced it %d time(s)", k.p, k.h, n, annCnt[k]) {
					evid.Count("b.run.excluded-known-finding")
					return
				}
			}
		}
		for hi, l := range perHash {
			if len(announcers[hi]) == 0 {
				continue
			}
			// P2/P3 as a lower bound. At most maxPar pulls run in parallel (the first one plus maxPar-1 that do
			// not wait); every other request comes at least one pull delay after the previous one. Hence between
			// request i and a later request j lie at least (j-i)-(maxPar-1) full delays. lower <= e_i is the
			// start of the call in which request i's peer first announced the item.
			for i := 0; i < len(l); i++ {
				lower := hashStart[hi]
				if s := firstStart[key{l[i].peer, hi}]; s.After(lower) {
					lower = s
				}
				for j := i + maxPar; j < len(l); j++ {
					need := time.Duration(j-i-(maxPar-1))*bDelay - bTolerance
					if got := l[j].at.Sub(lower); got < need {
						t.Fatalf("P3 violated: request #%d for h%d (to P%d) was collected only %v after the start of the call in which P%d (request #%d) announced it; with at most %d parallel pulls at least %d pull delays of %v lie between them",
							j+1, hi, l[j].peer, got, l[i].peer, i+1, maxPar, j-i-(maxPar-1), bDelay)
					}
					evid.Count("b.check.lower-bound-pairs")
				}
			}
			// P4 with grace: nothing collected long after Add returned (only if the collector never stalled)
			late := 0
			var lateBy []string
			for _, r := range l {
				if d := r.at.Sub(arrivedAt[hi]); d > bGrace {
					late++
					lateBy = append(lateBy, d.String())
				}
			}
			if late > 0 {
				if stalled {
					evid.Count("b.inconclusive.late-request-but-collector-stalled")
					evid.Sample("b.late-but-stalled", map[string]interface{}{"late_by": lateBy, "max_oversleep": maxBeat.String()})
				} else {
					t.Fatalf("P4 violated: %d request(s) for h%d were issued more than %v after Add(h%d) had returned (collector heartbeat <= %v)", late, hi, bGrace, hi, maxBeat)
				}
			}
			// classes
			before := 0
			for _, r := range l {
				if r.at.Before(arrivedAt[hi]) {
					before++
				}
			}
			inWindow := arrivedAt[hi].Before(windowEnd)
			d := len(announcers[hi])
			evid.Count("b.hash.announcers=" + capN(d, 4))
			evid.Count("b.hash.requests=" + capN(len(l), 5))
			fate := "not-delivered-during-run"
			if inWindow {
				fate = "delivered-after-" + capN(before, 3) + "-pulls"
			}
			evid.Count("b.hash." + fate)
			if len(l) > maxPar-1 {
				evid.Count("b.hash.with-follow-up-pull")
				if nK > 1 {
					evid.Count("b.hash.with-follow-up-pull.manager-with-several-kinds")
				}
			}
			if d >= 3 && (!inWindow || before >= 2) {
				evid.Count("b.hash.nontrivial")
				evid.NonTrivial(fmt.Sprintf("b|%d|%s", hi, desc.String()))
			}
		}
		// P6: sizes
		if maxPending > totalAnn || endPending > totalAnn {
			t.Fatalf("P6 violated: pending list reached %d entries with %d announcements in total", maxPending, totalAnn)
		}
		if maxActive > nH || endActive > nH {
			t.Fatalf("P6 violated: %d active pulls for %d items", maxActive, nH)
		}
		if endPending != 0 {
			evid.Count("b.inconclusive.pending-not-drained-within-budget")
		}
		if endActive != 0 {
			evid.Count("b.note.active-entry-left-after-delivery")
		}
		evid.Count(fmt.Sprintf("b.run.kinds=%d", nK))
		evid.Count("b.run.completed")
	})
}

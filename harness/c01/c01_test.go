package c01

import (
	"bytes"
	"fmt"
	"testing"
	"time"

	"github.com/idena-network/idena-go/blockchain/types"
	"github.com/idena-network/idena-go/common"
	"github.com/idena-network/idena-go/config"
	"github.com/idena-network/idena-go/core/validators"
	"github.com/idena-network/idena-go/stats/collector"
	"pgregory.net/rapid"

	"verifharness/internal/evid"
	"verifharness/internal/kf"
	"verifharness/internal/sim"
)

func TestMain(m *testing.M) { evid.Main(m) }

var zoneOffsets = []int{0, 14 * 3600, -12 * 3600, 9 * 3600, -10 * 3600, 5*3600 + 45*60, 3600, -3600}

// The next validation time (a consensus value stored in the global state) is a
// function of the previous validation instant and the network size only; the
// host time zone must not matter.
func TestNextValidationTimeZoneIndependent(t *testing.T) {
	defer func() { time.Local = time.UTC }()
	rapid.Check(t, func(t *rapid.T) {
		evid.Eval()
		// any instant between 2019 and 2040, biased to the top of an hour
		base := rapid.Int64Range(1546300800, 2208988800).Draw(t, "unix")
		if rapid.Bool().Draw(t, "roundToCeremonyHour") {
			base = base - base%86400 + int64(rapid.SampledFrom([]int{13*3600 + 1800, 15 * 3600, 0, 23*3600 + 3599}).Draw(t, "tod"))
		}
		size := rapid.SampledFrom([]int{0, 1, 5, 100, 299, 300, 340, 1000, 5000, 9999, 10000, 17000, 30000, 50000}).Draw(t, "networkSize")
		if rapid.Bool().Draw(t, "anySize") {
			size = rapid.IntRange(0, 50000).Draw(t, "size")
		}
		up12 := rapid.Bool().Draw(t, "upgrade12")
		cfg := &config.ValidationConfig{}
		var ref time.Time
		var refDur time.Duration
		for i, off := range zoneOffsets {
			// the node reads the instant back from its state as time.Unix(...), i.e. in the host zone
			time.Local = time.FixedZone(fmt.Sprintf("z%d", off), off)
			got := cfg.GetNextValidationTime(time.Unix(base, 0), size, up12)
			dur := common.NormalizedEpochDuration(time.Unix(base, 0), size, up12)
			if i == 0 {
				ref, refDur = got, dur
				continue
			}
			if !got.Equal(ref) || dur != refDur {
				time.Local = time.UTC
				if kf.Report(t, "C01", "c01.next-validation-time-depends-on-host-zone",
					"next validation time after %s (unix %d), network size %d, upgrade12=%v: %s under UTC but %s under UTC%+d s (epoch length %v vs %v)",
					time.Unix(base, 0).UTC(), base, size, up12, ref.UTC(), got.UTC(), off, refDur, dur) {
					return
				}
			}
		}
		time.Local = time.UTC
		epochDays, _ := common.NetworkParams(size)
		if up12 && epochDays >= 7 || !up12 && epochDays >= 21 {
			evid.Count("pure.weekday_branch")
			evid.NonTrivial(fmt.Sprintf("nvt|%d|%d|%v", base/3600, size, up12))
			evid.Sample("next-validation-time", map[string]interface{}{"unix": base, "networkSize": size, "upgrade12": up12, "next": ref.UTC().String()})
		} else {
			evid.Count("pure.short_epoch_branch")
		}
	})
}

const reexec = 5

// Applying the same block gives the same roots, receipts and global
// parameters on every replica (different host zones, restarted, rolled back
// and re-applied) and on every re-execution inside one process (each
// re-execution sees fresh map iteration orders).
func TestTransitionDeterministic(t *testing.T) {
	rapid.Check(t, func(t *rapid.T) {
		opt := sim.Options{MinActors: 3, MaxActors: 12, Replicas: 3, MaxReplicas: 5, Steps: 24, MaxTxPerStep: 8, Zones: true, Restarts: true}
		opt.BeforeDeliver = func(h *sim.History, proposer *sim.Replica, blk *types.Block) bool {
			w := h.W
			// rollback history: one replica rolls back k blocks and re-applies them before this block
			if len(w.Replicas) > 2 && len(h.Blocks) > 3 && rapid.IntRange(0, 5).Draw(t, "rollback") == 0 {
				r := w.Replicas[2]
				k := rapid.IntRange(1, 3).Draw(t, "rollbackDepth")
				target := r.Head().Height() - uint64(k)
				if r.AppState.State.HasVersion(target) && r.AppState.IdentityState.HasVersion(target) {
					if _, err := r.Chain.ResetTo(target); err != nil {
						t.Fatalf("ResetTo(%d) on %s: %v", target, r.Name, err)
					}
					for _, old := range h.Blocks[len(h.Blocks)-k:] {
						if err := r.AddBlock(old); err != nil {
							// diagnostics: run the block on an own check state and compare with what replica 0 committed
							diag := ""
							if cs, e := r.AppState.ForCheck(r.Head().Height()); e == nil {
								r0 := w.Replicas[0]
								cs0, _ := r0.AppState.ForCheckWithOverwrite(old.Height() - 1)
								d0, _, _, e0 := r0.Chain.VerifValidateBlock(cs0, old, r0.Chain.GetBlockHeaderByHeight(old.Height()-1))
								cs2, _ := r.AppState.ForCheck(r.Head().Height())
								diag += fmt.Sprintf("pre-state roots: rolled-back check=%x main=%x header=%x canonical check=%x; versions main=%d check=%d\n", cs2.State.Root(), r.AppState.State.Root(), r.Head().Root(), cs0.State.Root(), r.AppState.State.Version(), cs2.State.Version())
								d2, _, _, e2 := r.Chain.VerifValidateBlock(cs2, old, r.Head())
								diag += fmt.Sprintf("canonical replica err=%v diff keys:", e0)
								for _, d := range d0 {
									diag += fmt.Sprintf(" %x(del=%v,len=%d)", d.Key, d.Deleted, len(d.Value))
								}
								diag += fmt.Sprintf("\n rolled-back replica err=%v diff keys:", e2)
								for _, d := range d2 {
									diag += fmt.Sprintf(" %x(del=%v,len=%d)", d.Key, d.Deleted, len(d.Value))
								}
								diag += "\n"
								cs3, _ := r.AppState.ForCheckWithOverwrite(r.Head().Height())
								_, _, _, e3 := r.Chain.VerifValidateBlock(cs3, old, r.Head())
								cs4, _ := r0.AppState.ForCheck(old.Height() - 1)
								_, _, _, e4 := r0.Chain.VerifValidateBlock(cs4, old, r0.Chain.GetBlockHeaderByHeight(old.Height()-1))
								// the rolled-back replica's chain object validating on the canonical replica's state, and vice versa
								cs5, _ := r0.AppState.ForCheck(old.Height() - 1)
								_, _, _, e5 := r.Chain.VerifValidateBlock(cs5, old, r.Head())
								cs6, _ := r.AppState.ForCheck(r.Head().Height())
								_, _, _, e6 := r0.Chain.VerifValidateBlock(cs6, old, r.Head())
								// compare the rolled-back replica's database with a fresh replica that only ever applied the same prefix
								fresh, ferr := w.AddReplica("fresh", w.Actors[1].Key, nil)
								if ferr == nil {
									w.Replicas = w.Replicas[:len(w.Replicas)-1]
									for _, b := range h.Blocks {
										if b.Height() >= old.Height() {
											break
										}
										if e := fresh.AddBlock(b); e != nil {
											diag += fmt.Sprintf("fresh replica refuses %s: %v\n", sim.BlockDesc(b), e)
										}
									}
									diag += "db diff (rolled-back vs fresh-prefix):\n" + sim.DiffDB(r.DB, fresh.DB)
								}
								if ro6, e := r0.AppState.Readonly(old.Height() - 1); e == nil {
									diag += fmt.Sprintf("validator view rolled-back vs canonical@%d: %v\n", old.Height()-1, sim.DiffLines(w.DescribeVC(r.AppState.ValidatorsCache), w.DescribeVC(ro6.ValidatorsCache)))
								}
								cs7, _ := r.AppState.ForCheck(r.Head().Height())
								cs7.ValidatorsCache = validators.NewValidatorsCache(cs7.IdentityState, cs7.State.GodAddress())
								cs7.ValidatorsCache.Load()
								_, _, _, e7 := r.Chain.VerifValidateBlock(cs7, old, r.Head())
								cs8, _ := r.AppState.ForCheckWithOverwrite(r.Head().Height())
								cs8.ValidatorsCache = r.AppState.ValidatorsCache.Clone()
								_, _, _, e8 := r.Chain.VerifValidateBlock(cs8, old, r.Head())
								diag += fmt.Sprintf("ForCheck+fresh cache: %v; FCWO+cloned cache: %v\n", e7 != nil, e8 != nil)
								for _, st := range []uint8{1, 2, 255} {
									a1 := r.AppState.ValidatorsCache.GetOnlineValidators(r.Head().Seed(), old.Height(), st, 3)
									diag += fmt.Sprintf("step %d committee(3) on rolled-back: %v\n", st, a1)
									diag += fmt.Sprintf("step %d committee(3) on fresh: %v; state god=%x\n", st, cs7.ValidatorsCache.GetOnlineValidators(r.Head().Seed(), old.Height(), st, 3), cs7.State.GodAddress())
								}
								diag += fmt.Sprintf("rolled-back+FCWO: %v\ncanonical+ForCheck: %v\nrolledback chain on canonical state: %v\ncanonical chain on rolledback state: %v\n", e3 != nil, e4 != nil, e5 != nil, e6 != nil)
								r.Chain.ValidateBlock(old, cs, collector.NewStatsCollector())
								if ro, e := w.Replicas[0].AppState.Readonly(old.Height()); e == nil {
									diag += fmt.Sprintf("%v", sim.DiffImages(sim.Image(cs), sim.Image(ro), w.Name))
								}
							}
							t.Fatalf("re-applying %s after rollback of %d on %s: %v\n rolled-back replica vs canonical: %s\nhistory:\n%s", sim.BlockDesc(old), k, r.Name, err, diag, h.Summary())
						}
					}
					if r.Head().Hash() != w.Replicas[0].Head().Hash() {
						t.Fatalf("rollback+reapply reached a different head")
					}
					h.Note("rollback")
				}
			}
			// K re-executions on fresh check states on every replica: each must reproduce the
			// proposer's roots, bloom and receipts cid (validation compares all of them)
			interesting := len(blk.Body.Transactions) > 0 || blk.Header.Flags() != 0
			n := 1
			if interesting {
				n = reexec
			}
			for _, r := range w.Replicas {
				for i := 0; i < n; i++ {
					evid.Eval()
					if err := r.Validate(blk); err != nil {
						t.Fatalf("re-execution %d of %s on %s (zone %s) disagrees with the proposer: %v", i, sim.BlockDesc(blk), r.Name, r.Loc, err)
					}
				}
			}
			if interesting {
				evid.Count("transition.interesting")
				d := fmt.Sprintf("%s|%s|n=%d|replicas=%d", w.P.Profile, sim.FlagNames(blk.Header.Flags()), len(blk.Body.Transactions), len(w.Replicas))
				mix := map[string]int{}
				for _, tx := range blk.Body.Transactions {
					mix[sim.TxTypeNames[tx.Type]]++
				}
				d += fmt.Sprintf("|%v", mix)
				evid.NonTrivial(d)
				evid.Sample("transition", d)
			}
			return true
		}
		opt.AfterBlock = func(h *sim.History, blk *types.Block) {
			r0 := h.W.Replicas[0]
			g0 := r0.AppState.State.RawGlobal()
			var rc0 []byte
			if blk.Header.ProposedHeader != nil {
				rc0 = blk.Header.ProposedHeader.TxReceiptsCid
			}
			for _, r := range h.W.Replicas[1:] {
				if r.Head().Hash() != r0.Head().Hash() || r.AppState.State.Root() != r0.AppState.State.Root() || r.AppState.IdentityState.Root() != r0.AppState.IdentityState.Root() {
					t.Fatalf("replicas diverged after %s: %s vs %s", sim.BlockDesc(blk), r0.Name, r.Name)
				}
				if !bytes.Equal(r.AppState.State.RawGlobal(), g0) {
					t.Fatalf("next-block parameters (global state) differ after %s between %s and %s (zone %s)", sim.BlockDesc(blk), r0.Name, r.Name, r.Loc)
				}
			}
			// receipts stored by every replica are byte-identical
			if len(rc0) > 0 {
				for _, tx := range blk.Body.Transactions {
					a := r0.Chain.GetReceipt(tx.Hash())
					for _, r := range h.W.Replicas[1:] {
						b := r.Chain.GetReceipt(tx.Hash())
						if (a == nil) != (b == nil) {
							t.Fatalf("receipt presence differs for tx %x", tx.Hash())
						}
						if a != nil {
							ab, _ := a.ToBytes()
							bb, _ := b.ToBytes()
							if !bytes.Equal(ab, bb) {
								t.Fatalf("receipt bytes differ for tx %x", tx.Hash())
							}
						}
					}
				}
			}
			for _, f := range []string{"IdUpd", "ValFin", "Snap"} {
				if blk.Header.Flags() != 0 && bytes.Contains([]byte(sim.FlagNames(blk.Header.Flags())), []byte(f)) {
					evid.Count("flag." + f)
				}
			}
		}
		h := sim.RunHistory(t, opt)
		for k, v := range h.Flags {
			if k == "restart" || k == "rollback" {
				evid.CountN("history."+k, v)
			}
		}
	})
}

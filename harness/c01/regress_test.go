package c01

import (
	"math/big"
	"testing"
	"time"

	"github.com/idena-network/idena-go/blockchain/types"
	"github.com/idena-network/idena-go/config"
	"github.com/idena-network/idena-go/core/state"

	"verifharness/internal/evid"
	"verifharness/internal/sim"
)

// Plain regression checks for shrunk failures found by the generated checks
// (they bypass the property library; see known_findings.json).

func TestRegressionNextValidationTimeZone(t *testing.T) {
	defer func() { time.Local = time.UTC }()
	cfg := &config.ValidationConfig{}
	for _, c := range []struct {
		unix int64
		size int
		up12 bool
	}{{1546349400, 299, true}, {1546349400, 17000, false}, {1893510000, 300, true}} {
		time.Local = time.UTC
		ref := cfg.GetNextValidationTime(time.Unix(c.unix, 0), c.size, c.up12)
		for _, off := range zoneOffsets {
			evid.Eval()
			time.Local = time.FixedZone("z", off)
			if got := cfg.GetNextValidationTime(time.Unix(c.unix, 0), c.size, c.up12); !got.Equal(ref) {
				t.Fatalf("next validation time after unix %d size %d up12=%v: %s under UTC, %s under offset %d", c.unix, c.size, c.up12, ref.UTC(), got.UTC(), off)
			}
		}
	}
}

// Rollback across a god-address change while nobody is online, then re-apply.
func TestRegressionRollbackAcrossGodChange(t *testing.T) {
	p := sim.Params{KeySeed: 7, NActors: 3, Profile: "v12", SwitchRng: 3, DelegRng: 3, DiscrRng: 3, SnapRng: 50,
		Start: time.Date(2030, 1, 5, 12, 0, 0, 0, time.UTC).Unix(), CeremonyIn: 100000, Interval: 3600, LotteryDur: 30, ShortDur: 30, LongDur: 30}
	p.States = []state.IdentityState{state.Verified, state.Verified, state.Undefined}
	p.Balances = []*big.Int{sim.Dna(1000), sim.Dna(1000), sim.Dna(10)}
	p.Stakes = []*big.Int{sim.Dna(10), sim.Dna(10), big.NewInt(0)}
	w := sim.NewWorld(p)
	a, err := w.AddReplica("A", w.God.Key, nil)
	if err != nil {
		t.Fatal(err)
	}
	b, err := w.AddReplica("B", w.Actors[1].Key, nil)
	if err != nil {
		t.Fatal(err)
	}
	var blocks []*types.Block
	step := func(tx *types.Transaction) {
		w.Advance(20 * time.Second)
		if tx != nil {
			if err := a.Pool.AddInternalTx(tx); err != nil {
				t.Fatalf("add tx: %v", err)
			}
		}
		// the current god proposes (nobody is online)
		var pr *sim.Replica
		for _, r := range w.Replicas {
			if r.CanPropose() {
				pr = r
			}
		}
		if pr == nil {
			t.Fatalf("no proposer")
		}
		if pr != a && tx != nil {
			pr.Pool.AddInternalTx(tx)
		}
		blk := pr.Propose().Block
		for _, r := range w.Replicas {
			if err := r.AddBlock(blk); err != nil {
				t.Fatalf("%s refuses block %d: %v", r.Name, blk.Height(), err)
			}
		}
		blocks = append(blocks, blk)
	}
	for i := 0; i < 3; i++ {
		step(nil)
	}
	to := w.Actors[1].Addr
	tx, _ := types.SignTx(&types.Transaction{Type: types.ChangeGodAddressTx, AccountNonce: 1, To: &to, MaxFee: sim.Dna(100)}, w.God.Key)
	step(tx)
	if a.ReadState().State.GodAddress() != to {
		t.Fatalf("god address did not change (tx not included)")
	}
	step(nil)
	// roll B back across the god change and re-apply
	evid.Eval()
	target := b.Head().Height() - 3
	if _, err := b.Chain.ResetTo(target); err != nil {
		t.Fatalf("ResetTo: %v", err)
	}
	for _, blk := range blocks[len(blocks)-3:] {
		if err := b.AddBlock(blk); err != nil {
			t.Fatalf("re-applying block %d after rollback across a god-address change: %v", blk.Height(), err)
		}
	}
	if b.Head().Hash() != a.Head().Hash() {
		t.Fatalf("heads differ after re-apply")
	}
}

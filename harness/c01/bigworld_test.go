package c01

import (
	"math/big"
	"testing"
	"time"

	"github.com/idena-network/idena-go/blockchain/types"
	"github.com/idena-network/idena-go/blockchain/validation"
	"github.com/idena-network/idena-go/core/state"
	"pgregory.net/rapid"

	"verifharness/internal/evid"
	"verifharness/internal/sim"
)

// A network big enough to be split into several shards (more than 5000 validated identities; the thresholds are
// constants of the node): the world passes its first validation, which splits it into two shards, and then mines
// blocks with invitations and activations (every new candidate is placed into the currently smallest shard). Two
// nodes in different host zones, one of them restarted, re-execute every block; roots must coincide.
func TestMultiShardWorld(t *testing.T) {
	rapid.Check(t, func(t *rapid.T) {
		const n = 5200
		start := time.Now()
		opt := sim.Options{MinActors: n, MaxActors: n, Replicas: 2, MaxReplicas: 2, Steps: 0, Zones: true, Params: func(p *sim.Params) {
			p.Profile, p.CeremonyIn, p.Interval, p.WellBehaved = "v12", 120, 100000, 97
			p.LotteryDur, p.ShortDur, p.LongDur = 20, 20, 20
			for i := range p.States {
				p.States[i] = state.Newbie // (a newbie stays one with the 6 flips of a first validation)
				p.Stakes[i] = sim.Dna(1)
				p.Balances[i] = big.NewInt(0)
			}
			p.Balances[0] = sim.Dna(100000)
		}}
		h := sim.RunHistory(t, opt)
		w := h.W
		a, b := w.Replicas[0], w.Replicas[1]
		block := func() *types.Block {
			s := a.ReadState()
			if bd := w.NextBoundary(s); !bd.IsZero() && bd.After(w.Now()) && s.State.Epoch() == 0 {
				w.SetNow(bd.Add(time.Second))
			} else {
				w.Advance(20 * time.Second)
			}
			if min := time.Unix(a.Head().Time(), 0).Add(10 * time.Second); w.Now().Before(min) {
				w.SetNow(min)
			}
			var blk *types.Block
			if a.CanPropose() {
				blk = a.Propose().Block
			} else {
				blk = a.EmptyBlock()
			}
			if err := b.Validate(blk); err != nil {
				t.Fatalf("block %s of one node fails validation on the other: %v", sim.BlockDesc(blk), err)
			}
			for _, r := range w.Replicas {
				if err := r.AddBlock(blk); err != nil {
					t.Fatalf("block %s refused by %s: %v", sim.BlockDesc(blk), r.Name, err)
				}
			}
			evid.Eval()
			return blk
		}
		for a.ReadState().State.Epoch() == 0 {
			block()
			if a.Head().Height() > 40 {
				t.Fatalf("scenario: the first validation never finished")
			}
		}
		shards := a.ReadState().State.ShardsNum()
		t.Logf("epoch 1 at height %d after %v: %d shards, network size %d", a.Head().Height(), time.Since(start), shards, a.ReadState().ValidatorsCache.NetworkSize())
		if shards < 2 {
			t.Fatalf("scenario: the network of %d was not split (shards=%d)", n, shards)
		}
		evid.Count("multishard.worlds")
		// invitations and activations on the split network, a restart of the second node in between
		nonce := map[*sim.Actor]uint32{}
		var invited []*sim.Actor
		sign := func(from *sim.Actor, tx *types.Transaction) *types.Transaction {
			st := a.ReadState().State
			if nonce[from] == 0 && st.GetEpoch(from.Addr) == st.Epoch() {
				nonce[from] = st.GetNonce(from.Addr)
			}
			nonce[from]++
			tx.Epoch, tx.AccountNonce = st.Epoch(), nonce[from]
			signed, err := types.SignTx(tx, from.Key)
			if err != nil {
				t.Fatal(err)
			}
			return signed
		}
		rounds := rapid.IntRange(4, 9).Draw(t, "rounds")
		activations := 0
		for r := 0; r < rounds; r++ {
			var txs []*types.Transaction
			for i := rapid.IntRange(0, 3).Draw(t, "invites"); i > 0; i-- {
				x := w.NewActor()
				to := x.Addr
				txs = append(txs, sign(w.God, &types.Transaction{Type: types.InviteTx, To: &to, Amount: sim.Dna(20), MaxFee: sim.Dna(5)}))
				invited = append(invited, x)
			}
			st := a.ReadState().State
			var waiting []*sim.Actor
			for _, x := range invited {
				if st.GetIdentityState(x.Addr) != state.Invite || !rapid.Bool().Draw(t, "activatesNow") {
					waiting = append(waiting, x)
					continue
				}
				target := x
				if rapid.Bool().Draw(t, "toFreshAddress") {
					target = w.NewActor()
				}
				to := target.Addr
				txs = append(txs, sign(x, &types.Transaction{Type: types.ActivationTx, To: &to, Payload: target.Pub, MaxFee: sim.Dna(5)}))
				if st.GetIdentityState(x.Addr) != state.Invite {
					waiting = append(waiting, x)
				}
			}
			invited = waiting
			for _, tx := range txs {
				for _, x := range w.Replicas {
					x.Pool.AddExternalTxs(validation.InboundTx, sim.WireCopyTx(tx))
				}
			}
			if r == rounds/2 {
				if err := b.Restart(); err != nil {
					t.Fatalf("restart: %v", err)
				}
			}
			blk := block()
			sizes := a.ReadState().State.ShardSizes()
			for _, tx := range blk.Body.Transactions {
				if tx.Type == types.ActivationTx {
					activations++
					evid.Count("multishard.activation")
				}
			}
			if len(sizes) >= 2 && sizes[1] == sizes[2] {
				evid.Count("multishard.block_leaves_shards_tied")
			}
		}
		if activations > 0 {
			evid.NonTrivial(h.W.P.String()[:20] + "|" + string(rune('0'+activations%10)))
			evid.Sample("multishard", map[string]interface{}{"shards": shards, "activations": activations, "rounds": rounds})
		}
	})
}

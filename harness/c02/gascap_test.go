package c02

import (
	"fmt"
	"math/big"
	"sort"
	"strings"
	"testing"
	"time"

	"github.com/idena-network/idena-go/blockchain/fee"
	"github.com/idena-network/idena-go/blockchain/types"
	"pgregory.net/rapid"

	"verifharness/internal/evid"
	"verifharness/internal/sim"
)

// Pools steered to the block gas cap.
//
// The gas of a block is the size-based gas of its transactions plus what contract transactions burn in the VM; the
// candidate list of the pool is cut by the size-based part only, the builder's filter and the validator's strict
// processing count both, each with its own comparison against the cap (and a different rule before / after upgrade 10).
// Here the proposer's pool is filled by 1-6 senders with contract transactions (VM gas) and payments carrying kilobytes
// up to a drawn distance below the cap of the version in force; the node proposes once (the running total of that
// proposal is measured from its receipts); then the sender with the longest lane adds one payment sized to the byte so
// that the running total lands on cap+delta (delta drawn around 0, mostly 0), followed by 0-3 more small transactions.
// The second proposal of the node, built from that pool, has to pass on every other node.
func TestBlockGasAtTheCap(t *testing.T) {
	rapid.Check(t, func(t *rapid.T) {
		e := newContractEnv(t, 6, 8)
		w := e.w
		e.warmUp()
		cons := e.base.Cfg.Consensus
		gasCap := types.MaxBlockSize(cons.EnableUpgrade11)
		maxPayload := 3 * 1024
		if cons.EnableUpgrade11 {
			maxPayload = 600 * 1024
		}

		// the lane sender deploys a few contracts in an earlier block (calls need a mined contract)
		lane := w.Actors[rapid.IntRange(0, len(w.Actors)-1).Draw(t, "laneSender")]
		if pre := rapid.IntRange(0, 3).Draw(t, "minedDeployments"); pre > 0 {
			w.Advance(time.Duration(rapid.IntRange(10, 30).Draw(t, "dt")) * time.Second)
			p := e.pickProposer()
			for i := 0; i < pre; i++ {
				tx := e.deployTx(lane)
				if e.offer(tx, p) != nil {
					e.releaseNonce(tx)
				}
			}
			e.roundBy("deployments", p)
		}

		w.Advance(time.Duration(rapid.IntRange(10, 30).Draw(t, "dt")) * time.Second)
		proposer := e.pickProposer()
		if proposer == nil {
			evid.Count("gascap.nobody_eligible")
			return
		}
		add := func(tx *types.Transaction) bool {
			if err := e.offer(tx, proposer); err != nil {
				e.releaseNonce(tx)
				evid.Count("gascap.offer_refused_by_pool")
				return false
			}
			return true
		}

		// body: contract transactions of the lane sender ...
		var kinds []string
		sizeGas := uint64(0)
		e.gasHungry = true
		nContract := rapid.SampledFrom([]int{3, 4, 2, 5, 3, 4, 1, 0}).Draw(t, "contractTxs")
		for i := 0; i < nContract; i++ {
			tx := e.contractTx(lane)
			if from, _ := types.Sender(tx); from != lane.Addr {
				// (a call by the contract's owner: another sender's lane; the closing transaction must stay the last one)
				e.releaseNonce(tx)
				continue
			}
			if add(tx) {
				sizeGas += uint64(fee.CalculateGas(tx))
				kinds = append(kinds, sim.TxTypeNames[tx.Type])
			}
		}
		// ... and payments with payloads from the lane sender and 0-2 more senders (5 while payloads are limited to 3 KB),
		// up to `reserve` below the cap
		reserve := uint64(rapid.IntRange(40000, 90000).Draw(t, "reserve"))
		if cons.EnableUpgrade11 && rapid.Bool().Draw(t, "wideReserve") {
			reserve = uint64(rapid.IntRange(40000, 400000).Draw(t, "wideReserveGas"))
		}
		var others []*sim.Actor
		nOthers := rapid.IntRange(0, 2).Draw(t, "otherSenders")
		if !cons.EnableUpgrade11 {
			nOthers = 5 // (payloads are limited to 3 KB and pools hold 32 transactions per sender)
		}
		for _, a := range w.Actors {
			if a != lane && len(others) < nOthers {
				others = append(others, a)
			}
		}
		counts := map[*sim.Actor]int{}
		// another sender may add a payment as long as its lane stays shorter than the lane sender's (the closing
		// transaction and what follows it must come last in nonce order, whatever the order among equal nonces is)
		mayAdd := func(o *sim.Actor) bool { return e.peekNonce(o) < e.peekNonce(lane) && counts[o] < 28 }
		for guard := 0; guard < 250 && sizeGas+reserve+15000 < gasCap; guard++ {
			room := gasCap - reserve - sizeGas
			var size int
			if cons.EnableUpgrade11 {
				size = rapid.SampledFrom([]int{30000, 60000, 100000, 150000, 250000, 8000}).Draw(t, "fatFillerPayload")
			} else {
				size = rapid.IntRange(2700, 3072).Draw(t, "fillerPayload")
			}
			if uint64(size+200)*10 > room {
				size = int(room/10) - 200
			}
			sender := lane
			if len(others) > 0 {
				if who := rapid.IntRange(0, len(others)).Draw(t, "fillerSender"); who > 0 && mayAdd(others[who-1]) {
					sender = others[who-1]
				}
			}
			if sender == lane && counts[lane] >= 20 {
				sender = nil
				for _, o := range others {
					if mayAdd(o) {
						sender = o
						break
					}
				}
				if sender == nil {
					evid.Count("gascap.pool_limits_reached_below_the_cap")
					break
				}
			}
			tx := e.sign(e.sendTx(sender, e.nextNonce(sender), size, 1, nil), sender)
			if add(tx) {
				sizeGas += uint64(fee.CalculateGas(tx))
				counts[sender]++
			}
		}

		// first proposal: what does the block hold so far? (gas burnt in the VM comes in units of 5, payloads in units of
		// 10: when the distance to the target is not a multiple of 10 the lane sender adds another contract transaction
		// and the node proposes again, as it does round after round while no block gets committed)
		delta := int64(rapid.SampledFrom([]int{0, 0, 0, 0, 0, -10, 10, -20, 20, -1000, 1000, 5}).Draw(t, "delta"))
		var blk0 *types.Block
		var used0, vmGas uint64
		for try := 0; ; try++ {
			blk0 = proposer.Propose().Block
			cs, err := proposer.AppState.ForCheck(proposer.Head().Height())
			if err != nil {
				t.Fatalf("check state: %v", err)
			}
			_, _, receipts0, err := proposer.Chain.VerifValidateBlock(cs, blk0, proposer.Head())
			if err != nil {
				t.Fatalf("consensus version %d: %s does not accept its own proposal %s: %v\npool:%s", e.ver, proposer.Name, sim.BlockDesc(blk0), err, e.poolDesc(proposer))
			}
			used0, vmGas = 0, 0
			for _, tx := range blk0.Body.Transactions {
				used0 += uint64(fee.CalculateGas(tx))
			}
			for _, r := range receipts0 {
				used0 += r.GasUsed
				vmGas += r.GasUsed
			}
			// (and as long as the VM gas is below the gas of a small payment the pool will not offer anything behind an
			// exactly full block)
			if ((int64(gasCap)+delta-int64(used0))%10 == 0 && (vmGas >= 1500 || try >= 2)) || try == 4 {
				break
			}
			evid.Count("gascap.extra_contract_tx_before_closing")
			tx := e.contractTx(lane)
			if from, _ := types.Sender(tx); from != lane.Addr {
				e.releaseNonce(tx)
			} else if add(tx) {
				kinds = append(kinds, sim.TxTypeNames[tx.Type])
			}
		}
		if pend := len(proposer.Pool.GetPendingTransaction(true, true, 0, false)); len(blk0.Body.Transactions) != pend {
			evid.Count("gascap.first_proposal_left_txs_out")
		}

		// closing payment of the lane sender: running total = cap + delta
		rest := int64(gasCap) + delta - int64(used0)
		exactWanted := false
		if rest < 1300 {
			evid.Count("gascap.no_room_for_a_closing_tx")
		} else {
			for rest > int64(maxPayload+100)*10 {
				// (3 KB payloads: more payments are needed to come close)
				size := maxPayload - 200
				if rest < int64(2*maxPayload)*10 {
					size = int(rest/20) - 150
				}
				tx := e.sign(e.sendTx(lane, e.nextNonce(lane), size, 1, nil), lane)
				if add(tx) {
					rest -= int64(fee.CalculateGas(tx))
				} else {
					break
				}
			}
			if tx := e.sizedPayment(lane, uint64(rest), maxPayload); tx != nil && add(tx) {
				exactWanted = true
				evid.Count("gascap.closing_tx_sized_to_the_byte")
			} else {
				evid.Count("gascap.closing_size_not_reachable")
			}
		}
		// and what follows it
		tail := rapid.SampledFrom([]int{1, 1, 2, 0, 3, 1, 2}).Draw(t, "tail")
		for i := 0; i < tail; i++ {
			var tx *types.Transaction
			if rapid.IntRange(0, 3).Draw(t, "tailContractTx") == 3 {
				tx = e.contractTx(lane)
				if from, _ := types.Sender(tx); from != lane.Addr {
					e.releaseNonce(tx)
					continue
				}
			} else {
				tx = e.sign(e.sendTx(lane, e.nextNonce(lane), rapid.SampledFrom([]int{0, 0, 1, 40}).Draw(t, "tailPayload"), 1, nil), lane)
			}
			add(tx)
		}

		evid.Eval()
		poolSize := len(proposer.Pool.GetPendingTransaction(true, true, 0, false))
		blk := e.roundBy("block at the gas cap", proposer)

		// what was reached?
		running, hitAt, nearAt := uint64(0), -1, -1
		for i, tx := range blk.Body.Transactions {
			running += uint64(fee.CalculateGas(tx))
			if tx.Type == types.DeployContractTx || tx.Type == types.CallContractTx || tx.Type == types.TerminateContractTx {
				rec := e.base.Chain.GetReceipt(tx.Hash())
				if rec == nil {
					t.Fatalf("no receipt for the included contract transaction %x", tx.Hash())
				}
				running += rec.GasUsed
			}
			if running == gasCap && hitAt < 0 {
				hitAt = i
			}
			if d := int64(running) - int64(gasCap); d >= -1000 && d <= 1000 && nearAt < 0 {
				nearAt = i
			}
		}
		last := len(blk.Body.Transactions) - 1
		evid.Count(fmt.Sprintf("gascap.block.version_%d", e.ver))
		switch {
		case hitAt >= 0 && hitAt < last:
			evid.Count("gascap.cap_hit_exactly_then_more_txs")
			evid.Count(fmt.Sprintf("gascap.cap_hit_exactly_then_more_txs.version_%d", e.ver))
		case hitAt == last && last >= 0:
			evid.Count("gascap.cap_hit_exactly_by_last_tx")
		}
		if running > gasCap {
			evid.Count("gascap.block_over_the_cap")
		}
		if len(blk.Body.Transactions) < poolSize {
			evid.Count("gascap.pool_txs_left_out")
		}
		if vmGas > 0 {
			evid.Count("gascap.vm_gas_in_block")
		}
		if exactWanted && delta == 0 && hitAt < 0 {
			evid.Count("gascap.exact_hit_missed")
		}
		if nearAt >= 0 {
			sort.Strings(kinds)
			d := fmt.Sprintf("v%d|delta=%d|hit=%v|followed=%d|contracts=%s|senders=%d|left=%d", e.ver, delta, hitAt >= 0, last-nearAt, strings.Join(kinds, "+"), 1+len(others), poolSize-len(blk.Body.Transactions))
			evid.NonTrivial(d)
			evid.Sample("gascap", d)
		}
	})
}

// sizedPayment builds a payment of the sender whose size-based gas is exactly wantGas (payload length and, across the
// steps of the length prefixes, the byte length of the amount are the knobs); nil when no such payment exists.
func (e *contractEnv) sizedPayment(sender *sim.Actor, wantGas uint64, maxPayload int) *types.Transaction {
	nonce := e.nextNonce(sender)
	// the max fee does not depend on the knobs (its own length is part of the size)
	upper := e.sendTx(sender, nonce, int(wantGas/10)+64, 1<<24, nil)
	maxFee := new(big.Int).Set(upper.MaxFee)
	for _, amount := range []int64{1, 1 << 8, 1 << 16, 1 << 24} {
		size := int(wantGas/10) - 125
		for it := 0; it < 8; it++ {
			if size < 0 {
				size = 0
			}
			if size > maxPayload {
				break
			}
			tx := e.sendTx(sender, nonce, size, amount, maxFee)
			g := uint64(fee.CalculateGas(tx))
			if g == wantGas {
				signed := e.sign(tx, sender)
				if uint64(fee.CalculateGas(signed)) != wantGas {
					e.t.Fatalf("harness: signed size differs from the estimate")
				}
				return signed
			}
			d := (int64(wantGas) - int64(g)) / 10
			if d == 0 || size == 0 && d < 0 {
				break
			}
			size += int(d)
		}
	}
	e.pending[sender.Addr] = nonce - 1
	return nil
}

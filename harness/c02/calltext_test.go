package c02

import (
	"fmt"
	"sort"
	"strings"
	"testing"
	"time"

	"github.com/idena-network/idena-go/blockchain/types"
	"pgregory.net/rapid"

	"verifharness/internal/evid"
	"verifharness/internal/sim"
)

// Contract transactions with sender-chosen texts, on every consensus version.
//
// Worlds of rich senders on consensus version 9, 10, 11 or 12. Contracts of all five embedded types are deployed through
// the pools; then the pools hold calls and terminations whose method names and text arguments are drawn from: the
// contract's own method table, other contracts' tables, odd strings, and the texts the block-processing code itself
// searches receipt errors for (blockchain.SkipError, as it is and inside longer strings, plus near misses). A call that
// fails in the VM pays its gas and is ordinary block content: whatever the text says, the block the drawn proposer
// builds has to pass on every other node, as on the proposer itself.
func TestContractCallTextsOnEveryVersion(t *testing.T) {
	rapid.Check(t, func(t *rapid.T) {
		e := newContractEnv(t, 4, 7)
		w := e.w
		e.warmUp()
		rounds := rapid.IntRange(2, 6).Draw(t, "rounds")
		classes := map[string]bool{}
		nontrivial := false
		for k := 0; k < rounds; k++ {
			w.Advance(time.Duration(rapid.IntRange(10, 30).Draw(t, "dt")) * time.Second)
			proposer := e.pickProposer()
			n := rapid.IntRange(1, 6).Draw(t, "txs")
			if k == 0 {
				n = rapid.IntRange(2, 5).Draw(t, "deployments") // (nothing to call yet)
			}
			for i := 0; i < n; i++ {
				sender := w.Actors[rapid.IntRange(0, len(w.Actors)-1).Draw(t, "sender")]
				var tx *types.Transaction
				if k > 0 && rapid.IntRange(0, 6).Draw(t, "plainPayment") == 6 {
					tx = e.sign(e.sendTx(sender, e.nextNonce(sender), rapid.IntRange(0, 200).Draw(t, "payload"), 1, nil), sender)
				} else {
					tx = e.contractTx(sender)
				}
				if err := e.offer(tx, proposer); err != nil {
					evid.Count("calltext.offer_refused_by_pool")
					e.releaseNonce(tx) // (later transactions of this sender would wait in the queue behind the gap)
				} else {
					evid.Count("calltext.offer_accepted_by_pool")
				}
			}
			evid.Eval()
			blk := e.roundBy(fmt.Sprintf("round %d", k), proposer)
			if blk.IsEmpty() {
				evid.Count("round.empty")
			} else {
				evid.Count("round.proposed")
			}
			for _, tx := range blk.Body.Transactions {
				evid.Count("included." + sim.TxTypeNames[tx.Type])
				if tx.Type != types.CallContractTx && tx.Type != types.TerminateContractTx {
					continue
				}
				rec := e.base.Chain.GetReceipt(tx.Hash())
				if rec == nil {
					t.Fatalf("no receipt for the included contract transaction %x", tx.Hash())
				}
				kind := e.callKind[tx.Hash()]
				if tx.Type == types.TerminateContractTx {
					if rec.Success {
						evid.Count("calltext.terminate_included.done")
						for i, c := range e.contracts {
							if c.addr == *tx.To {
								e.contracts = append(e.contracts[:i:i], e.contracts[i+1:]...)
								break
							}
						}
					} else {
						evid.Count("calltext.terminate_included.failed")
					}
					continue
				}
				class := e.textClass[tx.Hash()]
				outcome := "failed"
				if rec.Success {
					outcome = "done"
				}
				evid.Count(fmt.Sprintf("calltext.call_included.method_%s.%s", class, outcome))
				evid.Count(fmt.Sprintf("calltext.call_included.version_%d", e.ver))
				if class != "own" && kind != nil {
					// a method the contract does not have: the call fails in the VM and is mined
					nontrivial = true
					classes[kind.name+":"+class] = true
					if e.ver < 12 {
						evid.Count("calltext.foreign_method_call_included_below_version_12")
					}
					if class == "looked_for" {
						evid.Count(fmt.Sprintf("calltext.looked_for_text_call_included.version_%d", e.ver))
						if e.ver < 12 {
							evid.Count("calltext.looked_for_text_call_included_below_version_12")
						}
					}
				}
			}
		}
		if nontrivial {
			var cs []string
			for c := range classes {
				cs = append(cs, c)
			}
			sort.Strings(cs)
			d := fmt.Sprintf("v%d|nodes=%d|%s", e.ver, e.nodes, strings.Join(cs, ","))
			evid.NonTrivial(d)
			evid.Sample("calltext", d)
		}
	})
}

package c02

import (
	"fmt"
	"math/big"
	"os"
	"syscall"
	"testing"

	"github.com/idena-network/idena-go/blockchain/fee"
	"github.com/idena-network/idena-go/blockchain/types"
	"github.com/idena-network/idena-go/core/state"
	"pgregory.net/rapid"

	"verifharness/internal/evid"
	"verifharness/internal/sim"
)

func TestMain(m *testing.M) {
	// The WASM binaries bundled with the repository import the debug host function and instantiate only on nodes that run
	// with the debug switch; with it the prebuilt runtime prints traces straight to file descriptor 1. The test's own
	// output stays on the real stdout, descriptor 1 goes to /dev/null.
	if fd, err := syscall.Dup(1); err == nil {
		if null, err := os.OpenFile(os.DevNull, os.O_WRONLY, 0); err == nil {
			if syscall.Dup2(int(null.Fd()), 1) == nil {
				os.Stdout = os.NewFile(uintptr(fd), "stdout")
			}
		}
	}
	evid.Main(m)
}

// Every block built by an honest proposer is accepted by every honest
// validator with the same head, is insertable, and all agree afterwards.
func TestHonestProposalAccepted(t *testing.T) { honestProposal(t, nil) }

// The same with a mempool dominated by identity transactions (conflicting
// delegations, kills, status switches from the same senders).
func TestHonestProposalAcceptedIdentityHeavy(t *testing.T) {
	honestProposal(t, []types.TxType{types.OnlineStatusTx, types.OnlineStatusTx, types.DelegateTx, types.DelegateTx, types.DelegateTx, types.UndelegateTx, types.UndelegateTx,
		types.KillTx, types.KillInviteeTx, types.KillDelegatorTx, types.KillDelegatorTx, types.ReplenishStakeTx, types.InviteTx, types.InviteTx, types.ActivationTx,
		types.SendTx, types.SubmitFlipTx, types.DeleteFlipTx, types.ChangeGodAddressTx, types.SubmitAnswersHashTx, types.SubmitShortAnswersTx, types.SubmitLongAnswersTx, types.EvidenceTx})
}

// Long histories with validations in quick succession, so that proposals are built in the ceremony periods of
// epochs >= 1 (VRF-checked long answers, invitations of validated identities, dust clearing behind them), with a
// mempool dominated by ceremony transactions incl. several of one sender.
func TestHonestProposalAcceptedLaterEpochs(t *testing.T) {
	honestProposalOpt(t, []types.TxType{types.SubmitAnswersHashTx, types.SubmitShortAnswersTx, types.SubmitLongAnswersTx, types.SubmitLongAnswersTx, types.EvidenceTx,
		types.SendTx, types.SubmitFlipTx, types.InviteTx, types.ActivationTx, types.OnlineStatusTx, types.KillTx}, 70, func(p *sim.Params) {
		p.CeremonyIn, p.Interval = 150, 420
		for i := range p.States {
			if i > 0 && p.States[i] == state.Undefined {
				p.States[i] = state.Verified
				p.Stakes[i] = sim.Dna(int64(5 + i))
			}
		}
	})
}

func honestProposal(t *testing.T, only []types.TxType) { honestProposalOpt(t, only, 25, nil) }

// Worlds that start on consensus version 9 and activate versions 10, 11 and 12 at drawn block boundaries (every running
// node transforms its configuration in place, nodes restarted or created afterwards build theirs afresh), with rich
// senders and payments carrying tens of kilobytes, so that blocks are filled up to the gas cap of the version in force:
// proposals of nodes that lived through an activation and of nodes that did not must be accepted by both kinds.
func TestHonestProposalAcrossUpgrades(t *testing.T) {
	honestProposalWith(t, []types.TxType{types.SendTx, types.SendTx, types.SendTx, types.SendTx, types.SendTx, types.SendTx, types.SendTx, types.SendTx, types.SendTx, types.SendTx, types.OnlineStatusTx, types.OnlineStatusTx, types.DelegateTx, types.KillTx, types.BurnTx,
		types.DeployContractTx, types.CallContractTx, types.ReplenishStakeTx, types.InviteTx}, 40, func(p *sim.Params) {
		p.Profile = "v9"
		p.CeremonyIn = 100000
		for i := range p.States {
			p.Balances[i] = new(big.Int).Lsh(big.NewInt(1), 80)
			if i > 0 && p.States[i] == state.Undefined {
				p.States[i] = state.Verified
				p.Stakes[i] = sim.Dna(int64(5 + i))
			}
		}
	}, func(opt *sim.Options) { opt.Upgrades, opt.FatTxs, opt.MaxTxPerStep = true, true, 16 })
}

func honestProposalOpt(t *testing.T, only []types.TxType, steps int, params func(*sim.Params)) {
	honestProposalWith(t, only, steps, params, nil)
}

func honestProposalWith(t *testing.T, only []types.TxType, steps int, params func(*sim.Params), tune func(*sim.Options)) {
	rapid.Check(t, func(t *rapid.T) {
		nontrivialProposals := 0
		opt := sim.Options{MinActors: 3, MaxActors: 10, Replicas: 2, MaxReplicas: 5, Steps: steps, MaxTxPerStep: 8, Zones: true, Restarts: true, OnlyTypes: only, Params: params}
		opt.LateBatches = true
		if tune != nil {
			tune(&opt)
		}
		opt.BeforeDeliver = func(h *sim.History, proposer *sim.Replica, blk *types.Block) bool {
			evid.Eval()
			if opt.Upgrades {
				gas := 0
				for _, tx := range blk.Body.Transactions {
					gas += fee.CalculateGas(tx)
				}
				evid.Count(fmt.Sprintf("upgrade.block_at_version_%d", h.W.Version))
				if gas > 1500000 {
					evid.Count(fmt.Sprintf("upgrade.block_over_1500K_gas_at_version_%d", h.W.Version))
				}
				if gas > 3000000 {
					evid.Count(fmt.Sprintf("upgrade.block_over_3000K_gas_at_version_%d", h.W.Version))
				}
			}
			if proposer == nil {
				evid.Count("round.empty")
				return true
			}
			evid.Count("round.proposed")
			// what did the proposer's pool hold?
			pending := proposer.Pool.GetPendingTransaction(true, true, 0, false)
			included := map[string]bool{}
			for _, tx := range blk.Body.Transactions {
				included[string(tx.Hash().Bytes())] = true
			}
			leftOut := 0
			for _, tx := range pending {
				if !included[string(tx.Hash().Bytes())] {
					leftOut++
				}
			}
			for _, r := range h.W.Replicas {
				if r == proposer {
					continue
				}
				if err := r.Validate(blk); err != nil {
					t.Fatalf("proposal of %s (%s, pool=%d, included=%d) fails validation on %s: %v", proposer.Name, sim.BlockDesc(blk), len(pending), len(blk.Body.Transactions), r.Name, err)
				}
			}
			if leftOut > 0 && len(blk.Body.Transactions) > 0 {
				nontrivialProposals++
				mix := map[string]int{}
				for _, tx := range blk.Body.Transactions {
					mix[sim.TxTypeNames[tx.Type]]++
				}
				period := sim.PeriodName(proposer.ReadState().State.ValidationPeriod())
				if proposer.ReadState().State.Epoch() > 0 {
					evid.Count("proposal.nontrivial_in_epoch_ge_1")
					period += "@e" + fmt.Sprint(proposer.ReadState().State.Epoch())
				}
				d := fmt.Sprintf("%s|%s|%s|mix=%v|leftOut=%d", h.W.P.Profile, period, sim.FlagNames(blk.Header.Flags()), mix, leftOut)
				evid.NonTrivial(d)
				evid.Count("proposal.nontrivial")
				evid.Sample("proposal", d)
			}
			if leftOut > 0 {
				evid.Count("proposal.with_left_out_txs")
			}
			return true
		}
		opt.AfterBlock = func(h *sim.History, blk *types.Block) {
			r0 := h.W.Replicas[0]
			for _, r := range h.W.Replicas[1:] {
				if r.Head().Hash() != r0.Head().Hash() {
					t.Fatalf("heads differ after %s: %s=%x %s=%x", sim.BlockDesc(blk), r0.Name, r0.Head().Hash(), r.Name, r.Head().Hash())
				}
				if r.AppState.State.Root() != r0.AppState.State.Root() || r.AppState.IdentityState.Root() != r0.AppState.IdentityState.Root() {
					t.Fatalf("state differs after %s between %s and %s", sim.BlockDesc(blk), r0.Name, r.Name)
				}
			}
			if r0.Head().Root() != r0.AppState.State.Root() || r0.Head().IdentityRoot() != r0.AppState.IdentityState.Root() {
				t.Fatalf("head roots differ from state after %s", sim.BlockDesc(blk))
			}
			for _, f := range []string{"IdUpd", "ValFin", "Snap", "Lottery", "Short", "Long", "AfterLong"} {
				if blk.Header.Flags() != 0 && containsFlag(sim.FlagNames(blk.Header.Flags()), f) {
					evid.Count("flag." + f)
				}
			}
			for _, tx := range blk.Body.Transactions {
				evid.Count("included." + sim.TxTypeNames[tx.Type])
			}
		}
		h := sim.RunHistory(t, opt)
		for _, o := range h.Offered {
			if o.Err != nil {
				evid.Count("offer.rejected_by_pool")
			} else {
				evid.Count("offer.accepted_by_pool")
			}
			if o.Info.Hostile != "" {
				evid.Count("offer.hostile." + o.Info.Hostile)
			}
		}
		_ = nontrivialProposals
	})
}

func containsFlag(s, f string) bool {
	for i := 0; i+len(f) <= len(s); i++ {
		if s[i:i+len(f)] == f && (i == 0 || s[i-1] == '+') && (i+len(f) == len(s) || s[i+len(f)] == '+') {
			return true
		}
	}
	return false
}

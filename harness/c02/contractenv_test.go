package c02

import (
	"fmt"
	"math/big"
	"strings"
	"time"

	"github.com/idena-network/idena-go/blockchain"
	"github.com/idena-network/idena-go/blockchain/attachments"
	"github.com/idena-network/idena-go/blockchain/fee"
	"github.com/idena-network/idena-go/blockchain/types"
	"github.com/idena-network/idena-go/blockchain/validation"
	"github.com/idena-network/idena-go/common"
	"github.com/idena-network/idena-go/config"
	"github.com/idena-network/idena-go/core/state"
	"github.com/idena-network/idena-go/vm/embedded"
	"pgregory.net/rapid"

	"verifharness/internal/evid"
	"verifharness/internal/sim"
)

// Shared by the gas-cap and the call-text checks: a world of rich senders on a drawn consensus version (9-12; reached
// either by nodes that build their configuration for that version, or by version-9 nodes that transform it in place at a
// block boundary), rounds in which a drawn eligible node proposes and every other node validates the wire copy, and a
// generator of deploy / call / terminate transactions for the five embedded contract types.

type embKind struct {
	name    string
	hash    common.Hash
	methods []string // the contract's own method table
}

var embKinds = []*embKind{
	{"TimeLock", embedded.TimeLockContract, []string{"transfer"}},
	{"Multisig", embedded.MultisigContract, []string{"add", "send", "push"}},
	{"OracleVoting", embedded.OracleVotingContract, []string{"startVoting", "sendVoteProof", "sendVote", "finishVoting", "prolongVoting", "addStake"}},
	{"OracleLock", embedded.OracleLockContract, []string{"push", "checkOracleVoting"}},
	{"RefundableOracleLock", embedded.RefundableOracleLockContract, []string{"deposit", "push", "refund"}},
}

type deployedContract struct {
	addr  common.Address
	kind  *embKind
	owner *sim.Actor
}

type contractEnv struct {
	t         *rapid.T
	h         *sim.History
	w         *sim.World
	base      *sim.Replica
	ver       config.ConsensusVerson
	nodes     int
	contracts []*deployedContract
	gasHungry bool                              // prefer contract transactions that burn gas in the VM (deployments, calls of existing methods)
	pending   map[common.Address]uint32         // nonces handed out since the last block
	deploys   map[common.Hash]*deployedContract // deployments offered, by tx hash
	textClass map[common.Hash]string            // class of the method name of offered calls, by tx hash
	callKind  map[common.Hash]*embKind          // contract type an offered call / termination aims at
}

func newContractEnv(t *rapid.T, minActors, maxActors int) *contractEnv {
	return newContractEnvAt(t, minActors, maxActors, []int{11, 10, 12, 9, 11, 10, 12})
}

// newContractEnvAt: the consensus version is drawn from the given list.
func newContractEnvAt(t *rapid.T, minActors, maxActors int, versions []int) *contractEnv {
	ver := config.ConsensusVerson(rapid.SampledFrom(versions).Draw(t, "consensusVersion"))
	fresh := rapid.IntRange(0, 3).Draw(t, "configBuiltForVersion") < 2 // else: version-9 nodes upgraded in place
	if ver == config.ConsensusV9 {
		fresh = true
	}
	nodes := rapid.IntRange(2, 3).Draw(t, "nodes")
	opt := sim.Options{MinActors: minActors, MaxActors: maxActors, Replicas: nodes, MaxReplicas: nodes + 1, Steps: 0, Zones: true, Params: func(p *sim.Params) {
		p.Profile = "v9"
		if ver == config.ConsensusV12 && fresh {
			p.Profile = "v12"
		}
		p.CeremonyIn = 100000
		for i := range p.States {
			p.Balances[i] = new(big.Int).Lsh(big.NewInt(1), 80)
			if i > 0 && !p.States[i].NewbieOrBetter() {
				p.States[i] = state.Verified
				p.Stakes[i] = sim.Dna(int64(5 + i))
			}
		}
	}}
	var h *sim.History
	if fresh && ver != config.ConsensusV12 && ver != config.ConsensusV9 {
		// nodes whose configuration is built for the version from the start: the world has to know the version before the
		// first node is created
		opt.Replicas = 0
		h = runHistoryAtVersion(t, opt, ver, nodes)
	} else {
		h = sim.RunHistory(t, opt)
		if h.W.Version != ver {
			h.W.UpgradeTo(ver)
		}
	}
	e := &contractEnv{t: t, h: h, w: h.W, base: h.W.Replicas[0], ver: ver, nodes: nodes, pending: map[common.Address]uint32{},
		deploys: map[common.Hash]*deployedContract{}, textClass: map[common.Hash]string{}, callKind: map[common.Hash]*embKind{}}
	for _, r := range e.w.Replicas {
		if r.Cfg.Consensus.Version != ver {
			t.Fatalf("harness: node %s runs consensus version %d, wanted %d", r.Name, r.Cfg.Consensus.Version, ver)
		}
	}
	evid.Count(fmt.Sprintf("contractworld.version_%d", ver))
	if fresh {
		evid.Count("contractworld.config_built_for_version")
	} else {
		evid.Count("contractworld.config_upgraded_in_place")
	}
	return e
}

// runHistoryAtVersion is sim.RunHistory with Steps == 0 for a world whose version is set before its nodes exist.
func runHistoryAtVersion(t *rapid.T, opt sim.Options, ver config.ConsensusVerson, nodes int) *sim.History {
	p := sim.GenParams(t, opt.MinActors, opt.MaxActors)
	opt.Params(&p)
	w := sim.NewWorld(p)
	w.UpgradeTo(ver) // no nodes yet: only the world's version (and the process-wide validation config) changes
	h := &sim.History{T: t, W: w, Opt: opt, Flags: map[string]int{}, TxMix: map[string]int{}}
	zones := []*time.Location{time.UTC, time.FixedZone("UTC+14", 14*3600), time.FixedZone("UTC-12", -12*3600), time.FixedZone("UTC+5:45", 5*3600+45*60)}
	for i := 0; i < nodes; i++ {
		r, err := w.AddReplica(fmt.Sprintf("R%d(a%d)", i, i), w.Actors[i].Key, nil)
		if err != nil {
			t.Fatalf("replica %d: %v", i, err)
		}
		if i > 0 {
			r.Loc = zones[rapid.IntRange(0, len(zones)-1).Draw(t, "zone")]
		}
	}
	return h
}

// nextNonce hands out consecutive nonces per sender on top of the head state.
func (e *contractEnv) nextNonce(a *sim.Actor) uint32 {
	if n, ok := e.pending[a.Addr]; ok {
		e.pending[a.Addr] = n + 1
		return n + 1
	}
	s := e.base.ReadState()
	n := uint32(0)
	if s.State.GetEpoch(a.Addr) == s.State.Epoch() {
		n = s.State.GetNonce(a.Addr)
	}
	e.pending[a.Addr] = n + 1
	return n + 1
}

// peekNonce is the nonce the sender's next transaction will get.
func (e *contractEnv) peekNonce(a *sim.Actor) uint32 {
	n := e.nextNonce(a)
	e.pending[a.Addr] = n - 1
	return n
}

// releaseNonce takes back the nonce of the transaction handed out last for its sender (a pool refused it).
func (e *contractEnv) releaseNonce(tx *types.Transaction) {
	from, _ := types.Sender(tx)
	if n, ok := e.pending[from]; ok && n == tx.AccountNonce {
		e.pending[from] = n - 1
	}
}

func (e *contractEnv) feePerGas() *big.Int {
	s := e.base.ReadState()
	cur := s.State.FeePerGas()
	min := fee.GetFeePerGasForNetwork(s.ValidatorsCache.NetworkSize())
	if cur == nil || cur.Cmp(min) < 0 {
		cur = min
	}
	return cur
}

// maxFeeFor: twice the fee of the transaction at the current rate plus the cost of vmGas units of gas, not above what a
// pool admits since upgrade 10 (max fee / minimal rate <= block gas cap).
func (e *contractEnv) maxFeeFor(tx *types.Transaction, vmGas int64) *big.Int {
	s := e.base.ReadState()
	netSize := s.ValidatorsCache.NetworkSize()
	fpg := e.feePerGas()
	f := fee.CalculateFee(netSize, fpg, tx)
	res := new(big.Int).Mul(f, big.NewInt(2))
	res.Add(res, new(big.Int).Mul(fpg, big.NewInt(vmGas)))
	if e.base.Cfg.Consensus.EnableUpgrade10 {
		top := new(big.Int).Mul(fee.GetFeePerGasForNetwork(netSize), big.NewInt(int64(types.MaxBlockSize(e.base.Cfg.Consensus.EnableUpgrade11))-10))
		if res.Cmp(top) > 0 {
			res = top
		}
	}
	return res
}

func (e *contractEnv) sign(tx *types.Transaction, a *sim.Actor) *types.Transaction {
	signed, err := types.SignTx(tx, a.Key)
	if err != nil {
		e.t.Fatalf("sign: %v", err)
	}
	return signed
}

// offer delivers the transaction to the pools: the given node always gets it, the others lose one delivery in five.
func (e *contractEnv) offer(tx *types.Transaction, surely *sim.Replica) error {
	var res error
	for _, r := range e.w.Replicas {
		if r != surely && rapid.IntRange(0, 4).Draw(e.t, "gossipLost") == 4 {
			continue
		}
		err := r.Pool.AddExternalTxs(validation.InboundTx, sim.WireCopyTx(tx))
		if r == surely || surely == nil && r == e.base {
			res = err
		}
	}
	return res
}

func (e *contractEnv) pickProposer() *sim.Replica {
	if min := time.Unix(e.base.Head().Time(), 0).Add(10 * time.Second); e.w.Now().Before(min) {
		e.w.SetNow(min)
	}
	return e.w.Proposer(e.t, e.nodes+1)
}

func (e *contractEnv) poolDesc(r *sim.Replica) string {
	if r == nil {
		return ""
	}
	var sb strings.Builder
	for _, tx := range r.Pool.GetPendingTransaction(true, true, 0, false) {
		from, _ := types.Sender(tx)
		to := "-"
		if tx.To != nil {
			to = e.w.Name(*tx.To)
		}
		fmt.Fprintf(&sb, " %s(%s->%s,nonce=%d,payload=%d,gas=%d", sim.TxTypeNames[tx.Type], e.w.Name(from), to, tx.AccountNonce, len(tx.Payload), fee.CalculateGas(tx))
		if tx.Type == types.CallContractTx {
			if a := attachments.ParseCallContractAttachment(tx); a != nil {
				fmt.Fprintf(&sb, ",method=%q", a.Method)
			}
		}
		if tx.Type == types.DeployContractTx {
			if a := attachments.ParseDeployContractAttachment(tx); a != nil && len(a.Code) > 0 {
				fmt.Fprintf(&sb, ",wasm code=%d bytes", len(a.Code))
			}
		}
		if tx.AmountOrZero().Sign() > 0 && (tx.Type == types.CallContractTx || tx.Type == types.DeployContractTx) {
			fmt.Fprintf(&sb, ",amount=%v", tx.Amount)
		}
		sb.WriteString(")")
	}
	return sb.String()
}

// deliver: every other node validates the proposal as it arrives from the wire, every node inserts it, all agree.
func (e *contractEnv) deliver(what string, proposer *sim.Replica, blk *types.Block) {
	t, w := e.t, e.w
	for _, r := range w.Replicas {
		if r == proposer {
			continue
		}
		if err := r.Validate(blk); err != nil {
			t.Fatalf("%s (consensus version %d): proposal of %s (%s) fails validation on %s: %v\nproposer pool:%s\n%s", what, e.ver, nameOf(proposer), sim.BlockDesc(blk), r.Name, err, e.poolDesc(proposer), e.h.Summary())
		}
	}
	for _, r := range w.Replicas {
		if err := r.AddBlock(blk); err != nil {
			t.Fatalf("%s (consensus version %d): block %s built by %s refused by %s: %v\nproposer pool:%s\n%s", what, e.ver, sim.BlockDesc(blk), nameOf(proposer), r.Name, err, e.poolDesc(proposer), e.h.Summary())
		}
	}
	e.h.Blocks = append(e.h.Blocks, blk)
	for _, r := range w.Replicas[1:] {
		if r.Head().Hash() != e.base.Head().Hash() {
			t.Fatalf("%s: heads differ after %s between %s and %s", what, sim.BlockDesc(blk), e.base.Name, r.Name)
		}
		if r.AppState.State.Root() != e.base.AppState.State.Root() || r.AppState.IdentityState.Root() != e.base.AppState.IdentityState.Root() {
			t.Fatalf("%s: state differs after %s between %s and %s", what, sim.BlockDesc(blk), e.base.Name, r.Name)
		}
	}
	e.pending = map[common.Address]uint32{}
	for _, tx := range blk.Body.Transactions {
		if d, ok := e.deploys[tx.Hash()]; ok {
			if rec := e.base.Chain.GetReceipt(tx.Hash()); rec != nil && rec.Success {
				d.addr = rec.ContractAddress
				e.contracts = append(e.contracts, d)
				evid.Count("contractworld.deployed." + d.kind.name)
			} else {
				evid.Count("contractworld.deploy_failed." + d.kind.name)
			}
		}
	}
}

func nameOf(r *sim.Replica) string {
	if r == nil {
		return "nobody (empty block)"
	}
	return r.Name
}

// round: a drawn eligible node proposes (nobody eligible: empty block).
func (e *contractEnv) round(what string) *types.Block {
	proposer := e.pickProposer()
	return e.roundBy(what, proposer)
}

func (e *contractEnv) roundBy(what string, proposer *sim.Replica) *types.Block {
	var blk *types.Block
	if proposer != nil {
		blk = proposer.Propose().Block
	} else {
		blk = e.base.EmptyBlock()
	}
	e.deliver(what, proposer, blk)
	return blk
}

// warmUp: a first block (sets the fee rate), optionally with the node keys going online so that later proposers are
// other nodes than the one holding the god key.
func (e *contractEnv) warmUp() {
	t, w := e.t, e.w
	w.Advance(20 * time.Second)
	online := rapid.IntRange(0, 1).Draw(t, "nodeKeysGoOnline") == 1
	if online {
		for i := 1; i < e.nodes; i++ {
			a := w.Actors[i]
			tx := &types.Transaction{Type: types.OnlineStatusTx, AccountNonce: e.nextNonce(a), Payload: attachments.CreateOnlineStatusAttachment(true)}
			tx.MaxFee = e.maxFeeFor(tx, 0)
			e.offer(e.sign(tx, a), nil)
		}
	}
	e.round("warm-up")
	if online {
		for i := uint64(0); i <= w.P.SwitchRng; i++ {
			w.Advance(time.Duration(rapid.IntRange(10, 20).Draw(t, "dt")) * time.Second)
			e.round("warm-up")
		}
		if len(w.Eligible()) > 0 && !w.Replicas[0].CanPropose() {
			evid.Count("contractworld.proposers_are_online_identities")
		}
	}
}

// ---- sender-chosen texts ----

// lookedForTexts: the texts the block-processing code itself searches receipt errors for (blockchain.SkipError), as they
// are and inside longer strings, plus near misses.
func lookedForTexts() []string {
	s := blockchain.SkipError
	return []string{s, s, "x " + s, s + "!", "unknown method: " + s, strings.ToUpper(s), s[1:], s[:len(s)-1], strings.Replace(s, " ", "_", -1)}
}

var oddTexts = []string{"", "nosuch", "Transfer", "transfer ", "deploy", "terminate", strings.Repeat("m", 300), "üñî", "push\x00", "%v%s%d", "unknown method",
	"out of gas", "destination is not a contract", "block can't contain skipped tx"}

// drawText draws a method name (or a text argument): mostly from the contract's own table, else another contract's
// method, an odd string, or a text the node's code looks for.
func (e *contractEnv) drawText(label string, own []string) (string, string) {
	t := e.t
	k := rapid.IntRange(0, 9).Draw(t, label+"Class")
	switch {
	case k <= 3 && len(own) > 0:
		return own[rapid.IntRange(0, len(own)-1).Draw(t, label+"Own")], "own"
	case k == 4:
		o := embKinds[rapid.IntRange(0, len(embKinds)-1).Draw(t, label+"OtherKind")].methods
		return o[rapid.IntRange(0, len(o)-1).Draw(t, label+"Other")], "other_contracts"
	case k == 5 || k == 6:
		return oddTexts[rapid.IntRange(0, len(oddTexts)-1).Draw(t, label+"Odd")], "odd"
	default:
		l := lookedForTexts()
		return l[rapid.IntRange(0, len(l)-1).Draw(t, label+"LookedFor")], "looked_for"
	}
}

func (e *contractEnv) someAddr(label string) common.Address {
	t := e.t
	switch rapid.IntRange(0, 5).Draw(t, label+"Class") {
	case 4:
		if len(e.contracts) > 0 {
			return e.contracts[rapid.IntRange(0, len(e.contracts)-1).Draw(t, label+"Contract")].addr
		}
	case 5:
		return common.Address{}
	}
	return e.w.Actors[rapid.IntRange(0, len(e.w.Actors)-1).Draw(t, label)].Addr
}

func (e *contractEnv) looseArg(label string) []byte {
	t := e.t
	switch rapid.IntRange(0, 7).Draw(t, label+"ArgClass") {
	case 0:
		return e.someAddr(label + "Addr").Bytes()
	case 1:
		return common.ToBytes(uint64(e.w.Now().Unix() + int64(rapid.IntRange(-1000, 1000).Draw(t, label+"Time"))))
	case 2:
		return []byte{byte(rapid.IntRange(0, 255).Draw(t, label+"Byte"))}
	case 3:
		return sim.Dna(int64(rapid.IntRange(0, 50).Draw(t, label+"Dna"))).Bytes()
	case 4:
		s, _ := e.drawText(label+"Text", nil)
		return []byte(s)
	case 5:
		return nil
	case 6:
		return common.ToBytes(^uint64(0))
	default:
		return []byte{}
	}
}

func (e *contractEnv) looseArgs(label string) [][]byte {
	n := rapid.IntRange(0, 4).Draw(e.t, label+"N")
	var res [][]byte
	for i := 0; i < n; i++ {
		res = append(res, e.looseArg(label))
	}
	return res
}

// ---- contract transactions ----

func (e *contractEnv) deployArgs(k *embKind) [][]byte {
	t := e.t
	if rapid.IntRange(0, 7).Draw(t, "looseDeployArgs") == 7 {
		return e.looseArgs("deployArg")
	}
	now := e.w.Now().Unix()
	switch k.name {
	case "TimeLock":
		return [][]byte{common.ToBytes(uint64(now + int64(rapid.IntRange(-100, 1000).Draw(t, "lockDelta"))))}
	case "Multisig":
		max := rapid.IntRange(1, 4).Draw(t, "maxVotes")
		return [][]byte{{byte(max)}, {byte(rapid.IntRange(1, max).Draw(t, "minVotes"))}}
	case "OracleVoting":
		fact, _ := e.drawText("fact", []string{"is it?", "fact"})
		args := [][]byte{[]byte(fact), common.ToBytes(uint64(now + int64(rapid.IntRange(-100, 300).Draw(t, "startDelta"))))}
		if rapid.Bool().Draw(t, "votingOptions") {
			args = append(args, common.ToBytes(uint64(rapid.IntRange(1, 20).Draw(t, "votingDuration"))), common.ToBytes(uint64(rapid.IntRange(1, 200).Draw(t, "publicVotingDuration"))),
				[]byte{byte(rapid.IntRange(40, 100).Draw(t, "winnerThreshold"))}, []byte{byte(rapid.IntRange(0, 100).Draw(t, "quorum"))}, common.ToBytes(uint64(rapid.IntRange(0, 10).Draw(t, "committeeSize"))))
		}
		return args
	case "OracleLock":
		return [][]byte{e.someAddr("lockVoting").Bytes(), {byte(rapid.IntRange(0, 3).Draw(t, "lockValue"))}, e.someAddr("lockSuccess").Bytes(), e.someAddr("lockFail").Bytes()}
	default: // RefundableOracleLock
		return [][]byte{e.someAddr("lockVoting").Bytes(), {byte(rapid.IntRange(0, 3).Draw(t, "lockValue"))}, e.someAddr("lockSuccess").Bytes(), e.someAddr("lockFail").Bytes(),
			common.ToBytes(uint64(rapid.IntRange(0, 100).Draw(t, "refundDelay"))), common.ToBytes(uint64(now + int64(rapid.IntRange(-100, 1000).Draw(t, "depositDeadline")))),
			common.ToBytes(uint64(rapid.IntRange(0, 100).Draw(t, "votingFee")))}
	}
}

// vmGasBudget: what the sender is ready to pay for on top of the size-based fee; mostly ample, sometimes tight or nothing.
func (e *contractEnv) vmGasBudget() int64 {
	switch rapid.IntRange(0, 9).Draw(e.t, "vmGasBudget") {
	case 8:
		return int64(rapid.IntRange(1, 2000).Draw(e.t, "tightVmGas"))
	case 9:
		return 0
	}
	return 300000
}

func (e *contractEnv) deployTx(sender *sim.Actor) *types.Transaction {
	t := e.t
	k := embKinds[rapid.IntRange(0, len(embKinds)-1).Draw(t, "deployKind")]
	att := attachments.CreateDeployContractAttachment(k.hash, nil, nil, e.deployArgs(k)...)
	payload, _ := att.ToBytes()
	stake := new(big.Int).Mul(e.feePerGas(), big.NewInt(3000000))
	switch rapid.IntRange(0, 5).Draw(t, "deployAmount") {
	case 4:
		stake.Add(stake, sim.Dna(int64(rapid.IntRange(1, 20).Draw(t, "extraStake"))))
	case 5:
		stake.Sub(stake, big.NewInt(1)) // below the minimal stake: refused by pools, never in a block
	default:
		stake.Mul(stake, big.NewInt(2)) // (the rate may move before the tx is mined)
	}
	tx := &types.Transaction{Type: types.DeployContractTx, AccountNonce: e.nextNonce(sender), Amount: stake, Payload: payload}
	tx.MaxFee = e.maxFeeFor(tx, e.vmGasBudget())
	signed := e.sign(tx, sender)
	e.deploys[signed.Hash()] = &deployedContract{kind: k, owner: sender}
	evid.Count("contracttx.deploy." + k.name)
	return signed
}

func (e *contractEnv) callTx(sender *sim.Actor) *types.Transaction {
	t := e.t
	c := e.contracts[rapid.IntRange(0, len(e.contracts)-1).Draw(t, "callTarget")]
	if rapid.IntRange(0, 2).Draw(t, "ownerCalls") != 0 {
		sender = c.owner
	}
	method, class := e.drawText("method", c.kind.methods)
	if e.gasHungry && class != "own" && rapid.IntRange(0, 3).Draw(t, "keepForeignMethod") != 3 {
		method, class = c.kind.methods[rapid.IntRange(0, len(c.kind.methods)-1).Draw(t, "ownMethod")], "own"
	}
	var args [][]byte
	if class == "own" && rapid.IntRange(0, 3).Draw(t, "typedArgs") != 3 {
		amount := sim.Dna(int64(rapid.IntRange(0, 5).Draw(t, "callAmt"))).Bytes()
		switch c.kind.name + "." + method {
		case "TimeLock.transfer", "Multisig.send", "Multisig.push":
			args = [][]byte{e.someAddr("callDest").Bytes(), amount}
		case "Multisig.add":
			args = [][]byte{e.someAddr("voter").Bytes()}
		case "OracleVoting.sendVoteProof":
			args = [][]byte{common.ToBytes(uint64(rapid.IntRange(0, 1<<20).Draw(t, "voteHash")))}
		case "OracleVoting.sendVote":
			args = [][]byte{{byte(rapid.IntRange(0, 3).Draw(t, "vote"))}, {1, 2, 3}}
		case "OracleVoting.addStake", "OracleVoting.startVoting", "OracleVoting.finishVoting", "OracleVoting.prolongVoting":
		default:
			args = e.looseArgs("callArg")
		}
	} else {
		args = e.looseArgs("callArg")
	}
	att := attachments.CreateCallContractAttachment(method, args...)
	payload, _ := att.ToBytes()
	to := c.addr
	tx := &types.Transaction{Type: types.CallContractTx, AccountNonce: e.nextNonce(sender), To: &to, Payload: payload}
	if rapid.IntRange(0, 2).Draw(t, "callWithAmount") == 0 {
		tx.Amount = sim.Dna(int64(rapid.IntRange(1, 30).Draw(t, "callAmount")))
	}
	tx.MaxFee = e.maxFeeFor(tx, e.vmGasBudget())
	signed := e.sign(tx, sender)
	e.textClass[signed.Hash()] = class
	e.callKind[signed.Hash()] = c.kind
	evid.Count("contracttx.call.method_" + class)
	return signed
}

func (e *contractEnv) terminateTx(sender *sim.Actor) *types.Transaction {
	t := e.t
	c := e.contracts[rapid.IntRange(0, len(e.contracts)-1).Draw(t, "terminateTarget")]
	if rapid.IntRange(0, 2).Draw(t, "ownerTerminates") != 0 {
		sender = c.owner
	}
	var args [][]byte
	if rapid.IntRange(0, 3).Draw(t, "typedTerminateArgs") != 3 {
		args = [][]byte{e.someAddr("terminateDest").Bytes()}
	} else {
		args = e.looseArgs("terminateArg")
	}
	att := attachments.CreateTerminateContractAttachment(args...)
	payload, _ := att.ToBytes()
	to := c.addr
	tx := &types.Transaction{Type: types.TerminateContractTx, AccountNonce: e.nextNonce(sender), To: &to, Payload: payload}
	tx.MaxFee = e.maxFeeFor(tx, e.vmGasBudget())
	signed := e.sign(tx, sender)
	e.callKind[signed.Hash()] = c.kind
	evid.Count("contracttx.terminate")
	return signed
}

// contractTx draws a deployment, a call or a termination (the latter two need a contract deployed in an earlier block:
// pools refuse calls of addresses without code).
func (e *contractEnv) contractTx(sender *sim.Actor) *types.Transaction {
	if len(e.contracts) == 0 {
		return e.deployTx(sender)
	}
	if e.gasHungry {
		// (no terminations: a call behind the termination of its contract is not valid block content any more, and
		// everything behind it in the sender's lane would wait)
		if rapid.IntRange(0, 1).Draw(e.t, "hungryDeploy") == 0 {
			return e.deployTx(sender)
		}
		return e.callTx(sender)
	}
	switch rapid.IntRange(0, 9).Draw(e.t, "contractTxKind") {
	case 7, 8:
		return e.deployTx(sender)
	case 9:
		return e.terminateTx(sender)
	default:
		return e.callTx(sender)
	}
}

// sendTx: a payment of 1 wei (or `amount`) carrying `payload` bytes.
func (e *contractEnv) sendTx(sender *sim.Actor, nonce uint32, payload int, amount int64, maxFee *big.Int) *types.Transaction {
	to := common.Address{0xfa, byte(sender.Idx)}
	tx := &types.Transaction{Type: types.SendTx, AccountNonce: nonce, To: &to, Amount: big.NewInt(amount)}
	if payload > 0 {
		tx.Payload = make([]byte, payload)
		tx.Payload[0], tx.Payload[payload-1] = byte(nonce), byte(sender.Idx)
	}
	if maxFee != nil {
		tx.MaxFee = maxFee
	} else {
		tx.MaxFee = e.maxFeeFor(tx, 0)
	}
	return tx
}

package c02

import (
	"math/big"
	"testing"
	"time"

	"github.com/idena-network/idena-go/blockchain/types"
	"github.com/idena-network/idena-go/core/state"

	"verifharness/internal/evid"
	"verifharness/internal/sim"
)

// Shrunk failure: two DelegateTx of one sender with consecutive nonces, the
// second to an address without identity. Both enter the pool; the builder
// includes the first and skips the second, whose validation used to leave an
// empty identity object in the builder's check state.
func TestRegressionSkippedTxPollutesBuilder(t *testing.T) {
	p := sim.Params{KeySeed: 11, NActors: 4, Profile: "v12", SwitchRng: 50, DelegRng: 50, DiscrRng: 50, SnapRng: 1000,
		Start: time.Date(2030, 1, 5, 12, 0, 0, 0, time.UTC).Unix(), CeremonyIn: 100000, Interval: 3600, LotteryDur: 30, ShortDur: 30, LongDur: 30}
	p.States = []state.IdentityState{state.Verified, state.Verified, state.Verified, state.Undefined}
	p.Balances = []*big.Int{sim.Dna(1000), sim.Dna(1000), sim.Dna(1000), big.NewInt(0)}
	p.Stakes = []*big.Int{sim.Dna(10), sim.Dna(10), sim.Dna(10), big.NewInt(0)}
	w := sim.NewWorld(p)
	a, err := w.AddReplica("A", w.God.Key, nil)
	if err != nil {
		t.Fatal(err)
	}
	b, err := w.AddReplica("B", w.Actors[1].Key, nil)
	if err != nil {
		t.Fatal(err)
	}
	w.Advance(20 * time.Second)
	sender := w.Actors[2]
	to1, to2 := w.Actors[1].Addr, w.Actors[3].Addr // the second target has no identity
	tx1, _ := types.SignTx(&types.Transaction{Type: types.DelegateTx, AccountNonce: 1, To: &to1, MaxFee: sim.Dna(100)}, sender.Key)
	tx2, _ := types.SignTx(&types.Transaction{Type: types.DelegateTx, AccountNonce: 2, To: &to2, MaxFee: sim.Dna(100)}, sender.Key)
	for _, tx := range []*types.Transaction{tx1, tx2} {
		if err := a.Pool.AddInternalTx(tx); err != nil {
			t.Fatalf("pool refuses tx: %v", err)
		}
	}
	evid.Eval()
	blk := a.Propose().Block
	if len(blk.Body.Transactions) != 1 {
		t.Fatalf("expected the builder to include exactly the first delegation, got %d txs", len(blk.Body.Transactions))
	}
	if err := b.Validate(blk); err != nil {
		t.Fatalf("honest proposal refused by another node: %v", err)
	}
	if err := a.AddBlock(blk); err != nil {
		t.Fatalf("honest proposal refused by its own builder: %v", err)
	}
}

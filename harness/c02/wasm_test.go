package c02

import (
	"fmt"
	"math/big"
	"sort"
	"strings"
	"testing"
	"time"

	"github.com/idena-network/idena-go/blockchain"
	"github.com/idena-network/idena-go/blockchain/attachments"
	"github.com/idena-network/idena-go/blockchain/fee"
	"github.com/idena-network/idena-go/blockchain/types"
	"github.com/idena-network/idena-go/blockchain/validation"
	"github.com/idena-network/idena-go/common"
	"github.com/idena-network/idena-go/config"
	"github.com/idena-network/idena-go/core/state"
	"github.com/idena-network/idena-go/vm/wasm/testdata"
	"pgregory.net/rapid"

	"verifharness/internal/evid"
	"verifharness/internal/sim"
)

// WASM contract transactions on the consensus versions where the block builder dry-runs them.
//
// Since upgrade 11 pools and blocks hold deployments and calls of WASM contracts. While upgrade 12 is not active the
// node that BUILDS a block executes every such transaction twice on its check state: a dry run (to keep "transaction
// should be skipped" transactions out of the block) and then the real application; the nodes that VALIDATE the block
// apply it once. A WASM transaction that fails in the VM (the contract panics, unknown export, wrong arguments, module
// that does not instantiate, address already taken, out of gas) pays its gas and is ordinary block content; attached
// coins travel to the contract before the run and back after a failure. Whatever the outcome of either run, the block
// has to pass on every other node and on the proposer itself.
//
// Worlds of rich senders on consensus version 11 (mostly; configuration built for the version or version-9 nodes
// upgraded in place) or 12 (no dry run: the control group). The pools hold deployments of the five bundled WASM
// binaries (intact, truncated, empty or garbage code; typed or loose arguments; fresh or already used address nonce)
// and calls of the deployed ones (typed calls by the owner and by strangers, foreign / odd / looked-for method names,
// loose arguments), each with or without attached coins and with an ample, small, tiny or zero gas budget, mixed with
// transactions of the embedded contracts and plain payments, several per sender and block.

type wasmKind struct {
	name    string
	code    []byte
	methods []string // exported functions
}

var wasmKinds []*wasmKind

func init() {
	for _, b := range []struct {
		name string
		load func() ([]byte, error)
	}{
		{"inc_func", testdata.IncFunc}, {"sum_func", testdata.SumFunc}, {"erc20", testdata.Erc20},
		{"shared-fungible-token-wallet", testdata.SharedFungibleToken}, {"test-cases", testdata.TestCases},
	} {
		code, err := b.load()
		if err != nil {
			panic(err)
		}
		k := &wasmKind{name: b.name, code: code}
		for _, x := range wasmExportedFuncs(code) {
			if x != "allocate" && x != "deploy" {
				k.methods = append(k.methods, x)
			}
		}
		wasmKinds = append(wasmKinds, k)
	}
}

func uleb(b []byte, i int) (uint64, int) {
	var r uint64
	var s uint
	for i < len(b) {
		x := b[i]
		i++
		r |= uint64(x&0x7f) << s
		s += 7
		if x < 0x80 {
			break
		}
	}
	return r, i
}

// wasmExportedFuncs lists the exported functions of a WASM module (export section, id 7).
func wasmExportedFuncs(b []byte) []string {
	var out []string
	i := 8
	for i < len(b) {
		id := b[i]
		i++
		sz, j := uleb(b, i)
		end := j + int(sz)
		if id == 7 {
			n, k := uleb(b, j)
			for x := uint64(0); x < n && k < end; x++ {
				l, k2 := uleb(b, k)
				name := string(b[k2 : k2+int(l)])
				k = k2 + int(l)
				kind := b[k]
				k++
				_, k = uleb(b, k)
				if kind == 0 {
					out = append(out, name)
				}
			}
		}
		i = end
	}
	return out
}

type wasmContract struct {
	addr  common.Address
	kind  *wasmKind
	owner *sim.Actor
}

// wasmOffer: what the generator knows about a WASM transaction it handed to the pools.
type wasmOffer struct {
	op      string // deploy | call
	kind    string
	shape   string // how it was generated (typed, stranger, foreign_method, loose_args, truncated_code, ...)
	coins   bool
	gas     string // ample | small | tiny | none
	created *wasmContract
}

type wasmEnv struct {
	*contractEnv
	debug  bool // the nodes run with the debug switch (the bundled binaries import the debug host function)
	dryRun bool // the builder dry-runs WASM transactions (upgrade 12 not active)
	wasm   []*wasmContract
	offers map[common.Hash]*wasmOffer
	serial int
	seen   map[string]bool
}

func newWasmEnv(t *rapid.T) *wasmEnv {
	e := &wasmEnv{contractEnv: newContractEnvAt(t, 4, 7, []int{11, 11, 11, 12}), offers: map[common.Hash]*wasmOffer{}, seen: map[string]bool{}}
	e.debug = rapid.IntRange(0, 4).Draw(t, "nodesWithoutDebugSwitch") != 4
	e.dryRun = e.ver < config.ConsensusV12
	if !e.base.Cfg.Consensus.EnableUpgrade11 || e.dryRun == e.base.Cfg.Consensus.EnableUpgrade12 {
		t.Fatalf("harness: upgrade flags of version %d are not what the check assumes", e.ver)
	}
	if e.debug {
		evid.Count("wasm.world.debug_switch_on")
	} else {
		evid.Count("wasm.world.debug_switch_off")
	}
	e.setDebug()
	return e
}

// setDebug: every node of the world (also the ones created since the last call) runs with the same switch.
func (e *wasmEnv) setDebug() {
	for _, r := range e.w.Replicas {
		r.Cfg.IsDebug = e.debug
	}
}

// wasmGasBudget: what the sender is ready to pay for on top of the size-based fee.
func (e *wasmEnv) wasmGasBudget() (int64, string) {
	t := e.t
	switch rapid.IntRange(0, 11).Draw(t, "wasmGasBudget") {
	case 8:
		return int64(rapid.IntRange(2000, 40000).Draw(t, "smallWasmGas")), "small"
	case 9, 10:
		return int64(rapid.IntRange(1, 2000).Draw(t, "tinyWasmGas")), "tiny"
	case 11:
		return 0, "none"
	}
	return 1500000, "ample"
}

// wasmMaxFee: an ample budget comes on top of twice the size-based fee; a small, tiny or zero one on top of exactly the
// size-based fee at the current rate (the code of a deployment weighs hundreds of thousands of gas units, so a multiple
// of it would be an ample budget again).
func (e *wasmEnv) wasmMaxFee(tx *types.Transaction) string {
	budget, class := e.wasmGasBudget()
	if class == "ample" {
		tx.MaxFee = e.maxFeeFor(tx, budget)
		return class
	}
	fpg := e.feePerGas()
	tx.MaxFee = e.maxFeeFor(tx, budget) // (the bytes of the max fee are part of the size: measure with a value that is not shorter)
	res := fee.CalculateFee(e.base.ReadState().ValidatorsCache.NetworkSize(), fpg, tx)
	tx.MaxFee = res.Add(res, new(big.Int).Mul(fpg, big.NewInt(budget)))
	return class
}

// attachedCoins: nothing (two of five), whole coins, or a few wei.
func (e *wasmEnv) attachedCoins(label string) *big.Int {
	t := e.t
	switch rapid.IntRange(0, 4).Draw(t, label+"Class") {
	case 0, 1:
		return nil
	case 4:
		return big.NewInt(int64(rapid.IntRange(1, 1000).Draw(t, label+"Wei")))
	}
	return sim.Dna(int64(rapid.IntRange(1, 30).Draw(t, label+"Dna")))
}

func (e *wasmEnv) anyAddr(label string) common.Address {
	t := e.t
	switch rapid.IntRange(0, 6).Draw(t, label+"Class") {
	case 4:
		if len(e.wasm) > 0 {
			return e.wasm[rapid.IntRange(0, len(e.wasm)-1).Draw(t, label+"Wasm")].addr
		}
	case 5:
		return common.Address{}
	case 6:
		return common.Address{0xee, byte(rapid.IntRange(0, 3).Draw(t, label+"Fresh"))}
	}
	return e.w.Actors[rapid.IntRange(0, len(e.w.Actors)-1).Draw(t, label)].Addr
}

func (e *wasmEnv) u64(label string, vals ...uint64) []byte {
	return common.ToBytes(vals[rapid.IntRange(0, len(vals)-1).Draw(e.t, label)])
}

var tokenAmounts = []*big.Int{big.NewInt(777), big.NewInt(1), big.NewInt(1000000000), big.NewInt(0), new(big.Int).Lsh(big.NewInt(1), 100)}

func (e *wasmEnv) tokens(label string) []byte {
	return tokenAmounts[rapid.IntRange(0, len(tokenAmounts)-1).Draw(e.t, label)].Bytes()
}

func (e *wasmEnv) findWasm(kind string) []*wasmContract {
	var res []*wasmContract
	for _, c := range e.wasm {
		if c.kind.name == kind {
			res = append(res, c)
		}
	}
	return res
}

func (e *wasmEnv) wasmDeployTx(sender *sim.Actor) *types.Transaction {
	t := e.t
	k := wasmKinds[rapid.IntRange(0, len(wasmKinds)-1).Draw(t, "wasmDeployKind")]
	shape := "typed"
	var args [][]byte
	switch k.name {
	case "sum_func":
		if incs := e.findWasm("inc_func"); len(incs) > 0 && rapid.IntRange(0, 4).Draw(t, "sumUsesInc") != 4 {
			args = [][]byte{incs[rapid.IntRange(0, len(incs)-1).Draw(t, "sumInc")].addr.Bytes()}
		} else {
			args = [][]byte{e.anyAddr("sumFuncAddr").Bytes()}
		}
	case "shared-fungible-token-wallet":
		args = [][]byte{sender.Addr.Bytes(), e.anyAddr("sftRoot").Bytes()}
	}
	if rapid.IntRange(0, 5).Draw(t, "looseWasmDeployArgs") == 5 {
		args, shape = e.looseArgs("wasmDeployArg"), "loose_args"
	}
	// the address of a WASM contract follows from code, arguments and this nonce: mostly a fresh one, sometimes one that
	// was used before (the address is taken: the deployment fails in the VM)
	e.serial++
	nonce := []byte{byte(e.serial), byte(rapid.IntRange(0, 250).Draw(t, "wasmAddrNonce"))}
	switch rapid.IntRange(0, 7).Draw(t, "wasmAddrNonceClass") {
	case 6:
		nonce = nil
		shape += "+no_addr_nonce"
	case 7:
		nonce = []byte{1}
		shape += "+fixed_addr_nonce"
	}
	code := k.code
	hash := common.Hash{}
	switch rapid.IntRange(0, 15).Draw(t, "wasmCodeClass") {
	case 11:
		code, shape = append([]byte{}, k.code[:len(k.code)/2]...), "truncated_code"
	case 12:
		code, shape = []byte{0, 0x61, 0x73, 0x6d, 1, 0, 0, 0}, "empty_module"
	case 13:
		code, shape = []byte("this is not a module"), "garbage_code"
	case 14:
		code, shape = append(append([]byte{}, k.code...), 0), "trailing_byte"
	case 15:
		hash = embKinds[0].hash // an embedded code hash next to code
		shape += "+embedded_hash"
	}
	att := attachments.CreateDeployContractAttachment(hash, code, nonce, args...)
	payload, _ := att.ToBytes()
	tx := &types.Transaction{Type: types.DeployContractTx, AccountNonce: e.nextNonce(sender), Amount: e.attachedCoins("wasmDeployCoins"), Payload: payload}
	if hash != (common.Hash{}) && tx.Amount == nil {
		tx.Amount = new(big.Int).Mul(e.feePerGas(), big.NewInt(6000000)) // (pools ask the stake of an embedded contract for such a deployment)
	}
	gas := e.wasmMaxFee(tx)
	signed := e.sign(tx, sender)
	e.offers[signed.Hash()] = &wasmOffer{op: "deploy", kind: k.name, shape: shape, coins: tx.Amount != nil && tx.Amount.Sign() > 0, gas: gas,
		created: &wasmContract{kind: k, owner: sender}}
	evid.Count("wasmtx.deploy." + k.name)
	return signed
}

func (e *wasmEnv) wasmCallTx(sender *sim.Actor) *types.Transaction {
	t := e.t
	c := e.wasm[rapid.IntRange(0, len(e.wasm)-1).Draw(t, "wasmCallTarget")]
	shape := "stranger"
	if rapid.IntRange(0, 2).Draw(t, "wasmOwnerCalls") != 0 || sender == c.owner {
		sender, shape = c.owner, "owner"
	}
	var m string
	var args [][]byte
	switch c.kind.name {
	case "inc_func":
		m, args = "inc", [][]byte{e.u64("incX", 5, 0, 1<<63)}
	case "sum_func":
		m, args = "invoke", [][]byte{e.u64("sumX", 1, 2, 0), e.u64("sumY", 5, 1<<62)}
	case "erc20":
		switch rapid.IntRange(0, 5).Draw(t, "ercMethod") {
		case 0, 1:
			m, args = "transfer", [][]byte{e.anyAddr("ercTo").Bytes(), e.tokens("ercAmount")}
		case 2:
			m, args = "approve", [][]byte{e.anyAddr("ercSpender").Bytes(), e.tokens("ercAllow")}
		case 3:
			m, args = "transferFrom", [][]byte{c.owner.Addr.Bytes(), e.anyAddr("ercTo2").Bytes(), e.tokens("ercAmount2")}
		case 4:
			m, args = "getBalance", [][]byte{e.anyAddr("ercOf").Bytes()}
		default:
			m, args = "allowance", [][]byte{e.anyAddr("ercOwner").Bytes(), e.anyAddr("ercSpender2").Bytes()}
		}
	case "shared-fungible-token-wallet":
		switch rapid.IntRange(0, 3).Draw(t, "sftMethod") {
		case 0, 1:
			m, args = "transferTo", [][]byte{e.anyAddr("sftTo").Bytes(), e.tokens("sftAmount")}
		case 2:
			m, args = "getBalance", nil
		default:
			m, args = "receive", [][]byte{e.tokens("sftRecvAmount"), e.anyAddr("sftSenderOwner").Bytes()}
		}
	default: // test-cases
		data := []byte{1, 2, 3}
		if rapid.IntRange(0, 2).Draw(t, "tcRealCode") != 0 {
			data = wasmKinds[rapid.IntRange(0, 1).Draw(t, "tcCode")].code
		}
		m, args = "test", [][]byte{common.ToBytes([]uint32{1, 1, 1, 0, 2, 3, 4, 5, 1 << 31}[rapid.IntRange(0, 8).Draw(t, "tcCase")]), data}
	}
	// the method name: mostly the typed one; else an export of the module, a method of an embedded contract, an odd string
	// or a text the node's code looks for in receipt errors
	switch rapid.IntRange(0, 9).Draw(t, "wasmMethodClass") {
	case 6:
		if len(c.kind.methods) > 0 {
			m = c.kind.methods[rapid.IntRange(0, len(c.kind.methods)-1).Draw(t, "wasmExport")]
			shape += "+other_export"
		}
	case 7:
		o := embKinds[rapid.IntRange(0, len(embKinds)-1).Draw(t, "wasmForeignKind")].methods
		m = o[rapid.IntRange(0, len(o)-1).Draw(t, "wasmForeign")]
		shape += "+foreign_method"
	case 8:
		m = oddTexts[rapid.IntRange(0, len(oddTexts)-1).Draw(t, "wasmOdd")]
		shape += "+odd_method"
	case 9:
		l := lookedForTexts()
		m = l[rapid.IntRange(0, len(l)-1).Draw(t, "wasmLookedFor")]
		shape += "+looked_for_method"
	}
	if rapid.IntRange(0, 6).Draw(t, "looseWasmArgs") == 6 {
		args = e.looseArgs("wasmArg")
		shape += "+loose_args"
	}
	att := attachments.CreateCallContractAttachment(m, args...)
	payload, _ := att.ToBytes()
	to := c.addr
	tx := &types.Transaction{Type: types.CallContractTx, AccountNonce: e.nextNonce(sender), To: &to, Amount: e.attachedCoins("wasmCallCoins"), Payload: payload}
	gas := e.wasmMaxFee(tx)
	signed := e.sign(tx, sender)
	e.offers[signed.Hash()] = &wasmOffer{op: "call", kind: c.kind.name, shape: shape, coins: tx.Amount != nil && tx.Amount.Sign() > 0, gas: gas}
	evid.Count("wasmtx.call." + c.kind.name)
	return signed
}

// someTx: mostly a WASM transaction; else one of the embedded contracts or a plain payment.
func (e *wasmEnv) someTx(sender *sim.Actor, firstRound bool) *types.Transaction {
	t := e.t
	switch k := rapid.IntRange(0, 9).Draw(t, "txKind"); {
	case k == 8 && !firstRound:
		return e.contractTx(sender)
	case k == 9 && !firstRound:
		return e.sign(e.sendTx(sender, e.nextNonce(sender), rapid.IntRange(0, 200).Draw(t, "payload"), 1, nil), sender)
	case len(e.wasm) == 0 || k >= 6:
		return e.wasmDeployTx(sender)
	}
	return e.wasmCallTx(sender)
}

func wasmOutcome(rec *types.TxReceipt) string {
	switch {
	case rec.Success:
		return "done"
	case rec.Error != nil && strings.Contains(strings.ToLower(rec.Error.Error()), "gas"):
		return "out_of_gas"
	}
	return "failed"
}

// account looks at what the block holds: registers the contracts it created and counts the WASM transactions it
// included by outcome. It reports whether the block included a WASM transaction that failed in the VM.
func (e *wasmEnv) account(blk *types.Block) (failed, failedWithCoins bool) {
	t := e.t
	for _, tx := range blk.Body.Transactions {
		evid.Count("included." + sim.TxTypeNames[tx.Type])
		o := e.offers[tx.Hash()]
		if o == nil {
			if tx.Type == types.TerminateContractTx {
				if rec := e.base.Chain.GetReceipt(tx.Hash()); rec != nil && rec.Success {
					for i, c := range e.contracts {
						if c.addr == *tx.To {
							e.contracts = append(e.contracts[:i:i], e.contracts[i+1:]...)
							break
						}
					}
				}
			}
			continue
		}
		rec := e.base.Chain.GetReceipt(tx.Hash())
		if rec == nil {
			t.Fatalf("no receipt for the included contract transaction %x", tx.Hash())
		}
		out := wasmOutcome(rec)
		if o.op == "deploy" && rec.Success {
			o.created.addr = rec.ContractAddress
			e.wasm = append(e.wasm, o.created)
		}
		coins := "no_coins"
		if o.coins {
			coins = "with_coins"
		}
		evid.Count(fmt.Sprintf("wasm.%s_included.%s.%s", o.op, out, coins))
		evid.Count(fmt.Sprintf("wasm.%s_included.version_%d", o.op, e.ver))
		evid.Count(fmt.Sprintf("wasm.included.%s.gas_budget_%s", out, o.gas))
		if rec.Error != nil && strings.Contains(rec.Error.Error(), blockchain.SkipError) {
			evid.Count("wasm.included_with_the_looked_for_error_text")
		}
		if !rec.Success {
			failed = true
			failedWithCoins = failedWithCoins || o.coins
			if e.dryRun {
				evid.Count("wasm.failed_tx_included_where_builder_dry_runs")
				if o.coins {
					evid.Count("wasm.failed_tx_with_coins_included_where_builder_dry_runs")
				}
			}
		} else if o.coins && e.dryRun {
			evid.Count("wasm.done_tx_with_coins_included_where_builder_dry_runs")
		}
		shape := o.shape
		if i := strings.IndexByte(shape, '+'); i >= 0 && o.op == "call" {
			shape = shape[i+1:]
		}
		e.seen[fmt.Sprintf("%s:%s:%s:%s:%s", o.op, o.kind, shape, out, coins)] = true
	}
	return
}

func TestWasmContractTxsWhereBuilderDryRuns(t *testing.T) {
	rapid.Check(t, func(t *rapid.T) {
		e := newWasmEnv(t)
		w := e.w
		e.warmUp()
		rounds := rapid.IntRange(2, 6).Draw(t, "rounds")
		nontrivial := false
		for k := 0; k < rounds; k++ {
			w.Advance(time.Duration(rapid.IntRange(10, 30).Draw(t, "dt")) * time.Second)
			proposer := e.pickProposer()
			e.setDebug()
			n := rapid.IntRange(1, 6).Draw(t, "txs")
			if k == 0 {
				n = rapid.IntRange(2, 5).Draw(t, "deployments") // (nothing to call yet)
			}
			for i := 0; i < n; i++ {
				sender := w.Actors[rapid.IntRange(0, len(w.Actors)-1).Draw(t, "sender")]
				tx := e.someTx(sender, k == 0)
				if err := e.offer(tx, proposer); err != nil {
					evid.Count("wasm.offer_refused_by_pool")
					e.releaseNonce(tx) // (later transactions of this sender would wait in the queue behind the gap)
				} else {
					evid.Count("wasm.offer_accepted_by_pool")
				}
			}
			evid.Eval()
			blk := e.roundBy(fmt.Sprintf("round %d (nodes with debug switch: %v)", k, e.debug), proposer)
			if blk.IsEmpty() {
				evid.Count("round.empty")
			} else {
				evid.Count("round.proposed")
			}
			failed, _ := e.account(blk)
			if failed && e.dryRun {
				nontrivial = true
			}
		}
		if nontrivial {
			var cs []string
			for c := range e.seen {
				cs = append(cs, c)
			}
			sort.Strings(cs)
			d := fmt.Sprintf("v%d|debug=%v|nodes=%d|%s", e.ver, e.debug, e.nodes, strings.Join(cs, ","))
			evid.NonTrivial(d)
			evid.Sample("wasm", d)
		}
	})
}

// The shape the generated check met first, as a fixed history: nodes on consensus version 11; a token contract is
// deployed with 3 coins attached (succeeds); then an account that owns no tokens calls `transfer` with 7 coins attached:
// the contract panics and the call is mined as failed. Every block is built by node A and
// has to pass on node B and on A itself.
func TestRegressionFailingPayableWasmCallBeforeUpgrade12(t *testing.T) {
	rich := new(big.Int).Lsh(big.NewInt(1), 80)
	p := sim.Params{KeySeed: 12, NActors: 4, Profile: "v9", SwitchRng: 50, DelegRng: 50, DiscrRng: 50, SnapRng: 1000,
		Start: time.Date(2030, 1, 5, 12, 0, 0, 0, time.UTC).Unix(), CeremonyIn: 100000, Interval: 3600, LotteryDur: 30, ShortDur: 30, LongDur: 30}
	for i := 0; i < p.NActors; i++ {
		p.States = append(p.States, state.Verified)
		p.Balances = append(p.Balances, rich)
		p.Stakes = append(p.Stakes, sim.Dna(10))
	}
	w := sim.NewWorld(p)
	w.UpgradeTo(config.ConsensusV11) // (no nodes yet: they build their configuration for version 11)
	a, err := w.AddReplica("A", w.God.Key, nil)
	if err != nil {
		t.Fatal(err)
	}
	b, err := w.AddReplica("B", w.Actors[1].Key, nil)
	if err != nil {
		t.Fatal(err)
	}
	a.Cfg.IsDebug, b.Cfg.IsDebug = true, true // the bundled binaries import the debug host function
	if c := a.Cfg.Consensus; !c.EnableUpgrade11 || c.EnableUpgrade12 {
		t.Fatalf("harness: not a version-11 configuration")
	}
	step := func(what string, want int) *types.Block {
		w.Advance(20 * time.Second)
		evid.Eval()
		blk := a.Propose().Block
		if len(blk.Body.Transactions) != want {
			t.Fatalf("%s: expected a block with %d transactions, got %d", what, want, len(blk.Body.Transactions))
		}
		if err := b.Validate(blk); err != nil {
			t.Fatalf("%s: honest proposal refused by another node: %v", what, err)
		}
		for _, r := range []*sim.Replica{b, a} {
			if err := r.AddBlock(blk); err != nil {
				t.Fatalf("%s: honest proposal refused by %s: %v", what, r.Name, err)
			}
		}
		if a.AppState.State.Root() != b.AppState.State.Root() {
			t.Fatalf("%s: states differ", what)
		}
		return blk
	}
	step("first block", 0) // sets the fee rate
	maxFee := new(big.Int).Mul(fee.GetFeePerGasForNetwork(a.ReadState().ValidatorsCache.NetworkSize()), big.NewInt(5000000))
	owner, caller := w.Actors[2], w.Actors[3]

	payload, _ := attachments.CreateDeployContractAttachment(common.Hash{}, wasmKinds[2].code, nil).ToBytes()
	deploy, _ := types.SignTx(&types.Transaction{Type: types.DeployContractTx, AccountNonce: 1, Amount: sim.Dna(3), MaxFee: maxFee, Payload: payload}, owner.Key)
	if err := a.Pool.AddExternalTxs(validation.InboundTx, deploy); err != nil {
		t.Fatalf("pool refuses the deployment: %v", err)
	}
	step("deployment", 1)
	rec := b.Chain.GetReceipt(deploy.Hash())
	if rec == nil || !rec.Success {
		t.Fatalf("harness: the token contract was not deployed: %+v", rec)
	}
	token := rec.ContractAddress

	payload, _ = attachments.CreateCallContractAttachment("transfer", common.Address{0x1}.Bytes(), big.NewInt(777).Bytes()).ToBytes()
	call, _ := types.SignTx(&types.Transaction{Type: types.CallContractTx, AccountNonce: 1, To: &token, Amount: sim.Dna(7), MaxFee: maxFee, Payload: payload}, caller.Key)
	if err := a.Pool.AddExternalTxs(validation.InboundTx, call); err != nil {
		t.Fatalf("pool refuses the call: %v", err)
	}
	step("failing call with coins attached", 1)
	if rec := b.Chain.GetReceipt(call.Hash()); rec == nil || rec.Success {
		t.Fatalf("harness: the call was expected to fail in the VM: %+v", rec)
	}
}

package c02

import (
	"fmt"
	"math/big"
	"testing"
	"time"

	"github.com/idena-network/idena-go/blockchain/attachments"
	"github.com/idena-network/idena-go/blockchain/fee"
	"github.com/idena-network/idena-go/blockchain/types"
	"github.com/idena-network/idena-go/blockchain/validation"
	"github.com/idena-network/idena-go/common"
	"github.com/idena-network/idena-go/core/state"
	"github.com/idena-network/idena-go/crypto"
	"github.com/idena-network/idena-go/crypto/ecies"
	"github.com/idena-network/idena-go/crypto/vrf/p256"
	"pgregory.net/rapid"

	"verifharness/internal/evid"
	"verifharness/internal/sim"
)

// Proposals built inside the validation sessions of epochs >= 1 from pools that differ between nodes.
//
// The world is driven (without transactions other than the status switches that put the node keys online) to a drawn
// (epoch, ceremony period). There, groups of ceremony transactions of one sender -- several of the same kind with
// consecutive or equal nonces, different content, VRF-proved long answers -- are delivered to every node separately, in
// a drawn order, with losses, each as its own decoded object. Then a drawn eligible node proposes; every other node
// must accept the proposal as it arrives from the wire.
func TestCeremonyPoolsDiverge(t *testing.T) {
	rapid.Check(t, func(t *rapid.T) {
		targetEpoch := uint16(rapid.SampledFrom([]int{1, 1, 1, 2, 0}).Draw(t, "targetEpoch"))
		targetPeriod := rapid.SampledFrom([]state.ValidationPeriod{state.LongSessionPeriod, state.LongSessionPeriod, state.ShortSessionPeriod,
			state.AfterLongSessionPeriod, state.FlipLotteryPeriod}).Draw(t, "targetPeriod")
		nodes := rapid.IntRange(2, 4).Draw(t, "nodes")
		opt := sim.Options{MinActors: 5, MaxActors: 9, Replicas: nodes, MaxReplicas: nodes, Steps: 0, Zones: true, Params: func(p *sim.Params) {
			p.CeremonyIn, p.Interval = 150, 420
			for i := range p.States {
				if i > 0 && (p.States[i] == state.Undefined || p.States[i] == state.Invite || p.States[i] == state.Killed) {
					p.States[i] = state.Verified
					p.Stakes[i] = sim.Dna(int64(5 + i))
				}
				if p.Balances[i] == nil || p.Balances[i].Cmp(sim.Dna(100)) < 0 {
					p.Balances[i] = sim.Dna(1000)
				}
			}
		}}
		h := sim.RunHistory(t, opt)
		w := h.W
		base := w.Replicas[0]

		round := func(what string) *types.Block {
			if min := time.Unix(base.Head().Time(), 0).Add(10 * time.Second); w.Now().Before(min) {
				w.SetNow(min)
			}
			var proposer *sim.Replica
			if el := w.Eligible(); len(el) > 0 {
				proposer = el[rapid.IntRange(0, len(el)-1).Draw(t, "proposerIdx")]
			}
			var blk *types.Block
			if proposer != nil {
				blk = proposer.Propose().Block
			} else {
				blk = base.EmptyBlock()
			}
			for _, r := range w.Replicas {
				if r == proposer {
					continue
				}
				if err := r.Validate(blk); err != nil {
					pool := ""
					if proposer != nil {
						for _, tx := range proposer.Pool.GetPendingTransaction(true, true, 0, false) {
							from, _ := types.Sender(tx)
							pool += fmt.Sprintf(" %s(%s,nonce=%d,epoch=%d)", sim.TxTypeNames[tx.Type], w.Name(from), tx.AccountNonce, tx.Epoch)
						}
					}
					t.Fatalf("%s: proposal (%s) fails validation on %s: %v\nproposer pool:%s\n%s", what, sim.BlockDesc(blk), r.Name, err, pool, h.Summary())
				}
			}
			for _, r := range w.Replicas {
				if err := r.AddBlock(blk); err != nil {
					t.Fatalf("%s: block %s refused by %s: %v", what, sim.BlockDesc(blk), r.Name, err)
				}
			}
			h.Blocks = append(h.Blocks, blk)
			w.NoteBlock(base, blk)
			for _, r := range w.Replicas[1:] {
				if r.AppState.State.Root() != base.AppState.State.Root() || r.AppState.IdentityState.Root() != base.AppState.IdentityState.Root() {
					t.Fatalf("%s: state differs after %s between %s and %s", what, sim.BlockDesc(blk), base.Name, r.Name)
				}
			}
			return blk
		}

		// the node keys go online first (the god node proposes only while nobody is online)
		for i := 1; i < nodes; i++ {
			a := w.Actors[i]
			tx := &types.Transaction{Type: types.OnlineStatusTx, Epoch: 0, AccountNonce: 1, Payload: attachments.CreateOnlineStatusAttachment(true)}
			setFee(base, tx)
			signed, _ := types.SignTx(tx, a.Key)
			for _, r := range w.Replicas {
				r.Pool.AddExternalTxs(validation.InboundTx, sim.WireCopyTx(signed))
			}
		}
		// prelude: to the drawn (epoch, period)
		reached := false
		for guard := 0; guard < 120; guard++ {
			s := base.ReadState()
			if s.State.Epoch() == targetEpoch && s.State.ValidationPeriod() == targetPeriod {
				reached = true
				break
			}
			if s.State.Epoch() > targetEpoch {
				break
			}
			if b := w.NextBoundary(s); !b.IsZero() && b.After(w.Now()) && (s.State.Epoch() < targetEpoch || s.State.ValidationPeriod() < targetPeriod) && guard > 3 {
				w.SetNow(b.Add(time.Second))
			} else {
				w.Advance(time.Duration(rapid.IntRange(10, 30).Draw(t, "dt")) * time.Second)
			}
			round("prelude")
		}
		if !reached {
			evid.Count("ceremony.target_not_reached")
			return
		}
		evid.Count(fmt.Sprintf("ceremony.reached.e%d.%s", targetEpoch, sim.PeriodName(targetPeriod)))

		kinds := []types.TxType{types.SubmitLongAnswersTx, types.SubmitLongAnswersTx, types.SubmitShortAnswersTx, types.SubmitAnswersHashTx, types.EvidenceTx, types.SendTx}
		rounds := rapid.IntRange(2, 7).Draw(t, "rounds")
		nontrivial := false
		desc := fmt.Sprintf("e%d|%s|nodes=%d", targetEpoch, sim.PeriodName(targetPeriod), nodes)
		for k := 0; k < rounds; k++ {
			w.Advance(time.Duration(rapid.IntRange(10, 25).Draw(t, "dt")) * time.Second)
			s := base.ReadState()
			epoch := s.State.Epoch()
			var cands []*sim.Actor
			for _, a := range w.Actors {
				if state.IsCeremonyCandidate(s.State.GetIdentity(a.Addr)) {
					cands = append(cands, a)
				}
			}
			if len(cands) == 0 {
				evid.Count("ceremony.no_candidates")
				break
			}
			type delivery struct {
				tx *types.Transaction
				r  *sim.Replica
			}
			var ds []delivery
			groups := rapid.IntRange(0, 3).Draw(t, "groups")
			for g := 0; g < groups; g++ {
				sender := cands[rapid.IntRange(0, len(cands)-1).Draw(t, "sender")]
				n0 := uint32(0)
				if s.State.GetEpoch(sender.Addr) == epoch {
					n0 = s.State.GetNonce(sender.Addr)
				}
				cnt := rapid.IntRange(1, 3).Draw(t, "txsInGroup")
				sameKind := rapid.IntRange(0, 2).Draw(t, "sameKind") != 2
				kind := kinds[rapid.IntRange(0, len(kinds)-1).Draw(t, "kind")]
				for i := 0; i < cnt; i++ {
					if !sameKind {
						kind = kinds[rapid.IntRange(0, len(kinds)-1).Draw(t, "kind")]
					}
					nonce := n0 + uint32(i) + 1
					if rapid.IntRange(0, 5).Draw(t, "sameNonce") == 5 && i > 0 {
						nonce = n0 + uint32(i)
					}
					tx := ceremonyTx(t, w, base, sender, kind, epoch, nonce, byte(16*k+4*g+i))
					evid.Count("ceremony.tx." + sim.TxTypeNames[kind])
					for _, r := range w.Replicas {
						if rapid.IntRange(0, 3).Draw(t, "lost") != 3 {
							ds = append(ds, delivery{tx, r})
						} else {
							evid.Count("ceremony.delivery_lost")
						}
					}
				}
				if cnt > 1 && sameKind && kind != types.SendTx {
					evid.Count("ceremony.group.several_of_one_kind")
					nontrivial = true
					desc += "|" + sim.TxTypeNames[kind] + fmt.Sprint(cnt)
				}
			}
			for _, i := range rapid.Permutation(indices(len(ds))).Draw(t, "order") {
				d := ds[i]
				if err := d.r.Pool.AddExternalTxs(validation.InboundTx, sim.WireCopyTx(d.tx)); err != nil {
					evid.Count("ceremony.delivery_refused")
				} else {
					evid.Count("ceremony.delivery_accepted")
				}
			}
			evid.Eval()
			blk := round(fmt.Sprintf("round %d", k))
			for _, tx := range blk.Body.Transactions {
				evid.Count("ceremony.included." + sim.TxTypeNames[tx.Type])
			}
			if !blk.IsEmpty() {
				evid.Count("round.proposed")
			} else {
				evid.Count("round.empty")
			}
		}
		if nontrivial {
			evid.NonTrivial(desc)
			evid.Sample("ceremony", desc)
		}
	})
}

func indices(n int) []int {
	res := make([]int, n)
	for i := range res {
		res[i] = i
	}
	return res
}

func setFee(r *sim.Replica, tx *types.Transaction) {
	s := r.ReadState()
	netSize := s.ValidatorsCache.NetworkSize()
	cur := fee.CalculateFee(netSize, s.State.FeePerGas(), tx)
	if min := fee.CalculateFee(netSize, fee.GetFeePerGasForNetwork(netSize), tx); min.Cmp(cur) > 0 {
		cur = min
	}
	tx.MaxFee = new(big.Int).Mul(cur, big.NewInt(2))
}

func ceremonyTx(t *rapid.T, w *sim.World, r *sim.Replica, sender *sim.Actor, kind types.TxType, epoch uint16, nonce uint32, variant byte) *types.Transaction {
	st := r.ReadState().State
	tx := &types.Transaction{Type: kind, Epoch: epoch, AccountNonce: nonce}
	switch kind {
	case types.SubmitAnswersHashTx:
		tx.Payload = crypto.Keccak256([]byte{sender.Addr[0], byte(epoch), variant})
	case types.SubmitShortAnswersTx:
		ans := types.NewAnswers(uint(1 + variant%7))
		ans.Left(0)
		tx.Payload = attachments.CreateShortAnswerAttachment(ans.Bytes(), uint64(variant), 0)
	case types.SubmitLongAnswersTx:
		ans := types.NewAnswers(uint(1 + variant%19))
		ans.Right(0)
		seed := st.FlipWordsSeed()
		var proof []byte
		if rapid.IntRange(0, 9).Draw(t, "badProof") != 9 {
			if signer, err := p256.NewVRFSigner(sender.Key); err == nil {
				_, proof = signer.Evaluate(seed[:])
			}
		} else {
			proof = []byte{1, 2, 3}
		}
		key := ecies.ImportECDSA(sim.DeriveKey(w.P.KeySeed^0x5a5a, sender.Idx))
		tx.Payload = attachments.CreateLongAnswerAttachment(ans.Bytes(), proof, []byte{1, 2, variant}, key)
	case types.EvidenceTx:
		tx.Payload = []byte{variant}
	case types.SendTx:
		to := common.Address{0xee, variant}
		tx.To = &to
		tx.Amount = big.NewInt(int64(variant) + 1)
	}
	setFee(r, tx)
	signed, err := types.SignTx(tx, sender.Key)
	if err != nil {
		t.Fatalf("sign: %v", err)
	}
	return signed
}

package c10

import (
	"fmt"
	"math/big"
	"os"
	"testing"
	"time"

	"github.com/idena-network/idena-go/blockchain/attachments"
	"github.com/idena-network/idena-go/blockchain/fee"
	"github.com/idena-network/idena-go/blockchain/types"
	"github.com/idena-network/idena-go/blockchain/validation"
	"github.com/idena-network/idena-go/common"
	"github.com/idena-network/idena-go/core/state"
	"pgregory.net/rapid"

	"verifharness/internal/evid"
	"verifharness/internal/sim"
)

// Life cycles of pools, including pools around addresses that are not validated identities.
//
// The undirected histories reach "an invited address that became a pool, went online and is then terminated by its
// inviter" (and its siblings) a handful of times per thousand blocks, because every step needs the relationship built
// by the step before. Here the sequence of *intents* is generated - invite, activate, delegate to (validated /
// invited / candidate / pool owner), undelegate, switch online/offline (identity or pool owner), kill, kill invitee,
// kill delegator, replenish, change god address, let blocks pass - each realised as a real signed transaction by a
// drawn actor for which it is enabled on the current state, mixed with undirected transactions. The oracle after every
// block is the one of the undirected histories.
func TestPoolLifeCycles(t *testing.T) {
	rapid.Check(t, func(t *rapid.T) {
		opt := sim.Options{MinActors: 6, MaxActors: 10, Replicas: 1, MaxReplicas: 1, Steps: 0, Params: func(p *sim.Params) {
			p.CeremonyIn = int64(rapid.SampledFrom([]int{100000, 100000, 600}).Draw(t, "ceremonyIn"))
			// share of identities that pass a validation with full marks (0 = the simulator's default third): delegators and
			// pool owners have to survive an epoch change for undelegations to become possible at all
			p.WellBehaved = rapid.SampledFrom([]int{85, 60, 0, 100}).Draw(t, "wellBehaved")
			for i := range p.States {
				if i > 0 && i%4 != 0 {
					p.States[i] = rapid.SampledFrom([]state.IdentityState{state.Verified, state.Verified, state.Human, state.Newbie}).Draw(t, "genesisState")
					p.Stakes[i] = sim.Dna(int64(10 + i))
				}
				if p.Balances[i] == nil || p.Balances[i].Cmp(sim.Dna(200)) < 0 {
					p.Balances[i] = sim.Dna(1000)
				}
			}
		}}
		h := sim.RunHistory(t, opt)
		w := h.W
		r := w.Replicas[0]
		sawPoolDiff := false
		type nonceKey struct {
			addr  common.Address
			epoch uint16
		}
		nonces := map[nonceKey]uint32{} // (account nonces start again in every epoch)
		desc := ""

		mkTx := func(a *sim.Actor, typ types.TxType, to *common.Address, payload []byte, amount *big.Int) *types.Transaction {
			s := r.ReadState()
			epoch := s.State.Epoch()
			n := nonces[nonceKey{a.Addr, epoch}]
			if sn := r.AppState.NonceCache.GetNonce(a.Addr, epoch); sn > n {
				n = sn
			}
			tx := &types.Transaction{Type: typ, Epoch: epoch, AccountNonce: n + 1, To: to, Payload: payload, Amount: amount}
			netSize := s.ValidatorsCache.NetworkSize()
			cur := fee.CalculateFee(netSize, s.State.FeePerGas(), tx)
			if min := fee.CalculateFee(netSize, fee.GetFeePerGasForNetwork(netSize), tx); min.Cmp(cur) > 0 {
				cur = min
			}
			tx.MaxFee = new(big.Int).Mul(cur, big.NewInt(2))
			signed, err := types.SignTx(tx, a.Key)
			if err != nil {
				t.Fatalf("sign: %v", err)
			}
			return signed
		}
		submit := func(what string, tx *types.Transaction, a *sim.Actor) {
			if err := r.Pool.AddExternalTxs(validation.InboundTx, tx); err != nil {
				evid.Count("intent.refused." + what)
				if os.Getenv("C10_TRACE") != "" {
					evid.Count("intent.refused." + what + ": " + err.Error())
				}
				return
			}
			nonces[nonceKey{a.Addr, tx.Epoch}] = tx.AccountNonce
			evid.Count("intent.accepted." + what)
			desc += what + ";"
		}
		pick := func(label string, ok func(a *sim.Actor, id state.Identity) bool) *sim.Actor {
			s := r.ReadState()
			var xs []*sim.Actor
			for _, a := range w.Actors {
				if ok(a, s.State.GetIdentity(a.Addr)) {
					xs = append(xs, a)
				}
			}
			if len(xs) == 0 {
				return nil
			}
			return xs[rapid.IntRange(0, len(xs)-1).Draw(t, label)]
		}
		block := func() {
			w.Advance(time.Duration(rapid.IntRange(10, 30).Draw(t, "dt")) * time.Second)
			if min := time.Unix(r.Head().Time(), 0).Add(10 * time.Second); w.Now().Before(min) {
				w.SetNow(min)
			}
			// A round may end without an accepted proposal: the block is then an EMPTY block, which runs its own copy of the
			// identity steps (status / delegation / discrimination switches, delayed penalties, epoch result, switching pools
			// that lost their members off). One round in ten is drawn empty; a round whose height is a switch height with
			// entries pending - the empty block will be an identity-update block - every other one.
			rv := viewRound(r)
			emptyOdds := 9
			if rv.due {
				emptyOdds = 1
			}
			var proposer *sim.Replica
			if rapid.IntRange(0, emptyOdds).Draw(t, "emptyRound") != emptyOdds {
				proposer = w.Proposer(t, 4)
			} else {
				evid.Count("round.drawn_empty")
			}
			var blk *types.Block
			if proposer != nil {
				if proposer != r {
					// the proposer works from the pool of the main node
					for _, tx := range r.Pool.GetPendingTransaction(true, true, 0, false) {
						proposer.Pool.AddExternalTxs(validation.MempoolTx, sim.WireCopyTx(tx))
					}
				}
				blk = proposer.Propose().Block
			} else {
				blk = r.EmptyBlock()
			}
			for _, x := range w.Replicas {
				if err := x.AddBlock(blk); err != nil {
					t.Fatalf("honest block %s refused by %s: %v\n%s", sim.BlockDesc(blk), x.Name, err, h.Summary())
				}
			}
			h.Blocks = append(h.Blocks, blk)
			w.NoteBlock(r, blk)
			rv.classify(blk)
			if checkRegistryAfterBlock(t, h, blk) {
				sawPoolDiff = true
			}
		}

		// An epoch change in the middle of the life cycles: the chain is driven through a whole validation ceremony (clock
		// jumps to the period boundaries, blocks - empty rounds included - until the epoch counter moves), with the
		// scripted epoch result deciding who stays validated. Only afterwards can delegators that joined a pool before
		// leave it by UndelegateTx (not allowed in the epoch of the delegation), so undelegations pending at identity-update
		// blocks exist only in cases that passed an epoch.
		epochsLeft := rapid.SampledFrom([]int{1, 1, 0, 2}).Draw(t, "epochBudget")
		passEpoch := func() {
			start := r.ReadState().State.Epoch()
			for k := 0; k < 40; k++ {
				s := r.ReadState()
				if s.State.Epoch() != start {
					evid.Count("epoch.passed")
					desc += "epoch;"
					pools, notValidated, online := 0, 0, 0
					for _, a := range w.Actors {
						if s.ValidatorsCache.IsPool(a.Addr) {
							pools++
							if !s.ValidatorsCache.IsValidated(a.Addr) {
								notValidated++
								if s.ValidatorsCache.IsOnlineIdentity(a.Addr) {
									online++
								}
							}
						}
					}
					if pools > 0 {
						evid.Count("epoch.passed_with_pools")
					}
					if notValidated > 0 {
						evid.Count("epoch.passed_with_pool_owner_not_validated")
					}
					if online > 0 {
						evid.Count("epoch.passed_with_online_pool_owner_not_validated")
					}
					return
				}
				if b := w.NextBoundary(s); !b.IsZero() && b.After(w.Now()) {
					w.SetNow(b.Add(time.Duration(rapid.IntRange(0, 5).Draw(t, "pastBoundary")) * time.Second))
				}
				if s.State.ValidationPeriod() != state.AfterLongSessionPeriod {
					// ceremony transactions (and whatever else the period admits)
					for n := rapid.IntRange(0, 2).Draw(t, "ceremonyTxs"); n > 0; n-- {
						tx, _ := w.GenTx(t, r, identityHeavy)
						r.Pool.AddExternalTxs(validation.InboundTx, tx)
					}
				}
				block()
			}
			evid.Count("epoch.not_completed")
		}

		steps := rapid.IntRange(8, 40).Draw(t, "intents")
		for i := 0; i < steps; i++ {
			s := r.ReadState()
			vc := s.ValidatorsCache
			intent := rapid.SampledFrom([]string{"invite", "invite", "activate", "delegate", "delegate", "delegate", "undelegate", "online", "online", "online", "offline",
				"kill", "killInvitee", "killInvitee", "killDelegator", "replenish", "changeGod", "noise", "blocks", "blocks", "blocks"}).Draw(t, "intent")
			// follow up on a relationship that took several steps to build, in a third of the steps
			if rapid.IntRange(0, 2).Draw(t, "followUp") == 0 {
				poolOffline, inviteePoolOnline := false, false
				for _, a := range w.Actors {
					if vc.IsPool(a.Addr) && !vc.IsValidated(a.Addr) {
						if !vc.IsOnlineIdentity(a.Addr) {
							poolOffline = true
						} else if x := s.State.GetIdentity(a.Addr); x.Inviter != nil && (x.State == state.Invite || x.State == state.Candidate) {
							inviteePoolOnline = true
						}
					}
				}
				bigPoolOnline, smallPool := false, false
				boundPool, freePoolOnline := false, false // a pool whose delegators cannot / can leave by UndelegateTx in this epoch
				for _, a := range w.Actors {
					if vc.IsPool(a.Addr) {
						for _, d := range w.Actors {
							did := s.State.GetIdentity(d.Addr)
							if x := did.Delegatee(); x != nil && *x == a.Addr && vc.Delegator(d.Addr) == a.Addr {
								if did.DelegationEpoch == s.State.Epoch() {
									boundPool = true
								} else if !vc.IsValidated(a.Addr) && vc.IsOnlineIdentity(a.Addr) {
									freePoolOnline = true
								}
							}
						}
					}
					if vc.IsPool(a.Addr) && !vc.IsValidated(a.Addr) {
						n := 0
						for _, d := range w.Actors {
							did := s.State.GetIdentity(d.Addr)
							if x := did.Delegatee(); x != nil && *x == a.Addr && vc.Delegator(d.Addr) == a.Addr {
								n++
							}
						}
						if n >= 2 && vc.IsOnlineIdentity(a.Addr) {
							bigPoolOnline = true
						}
						if n == 1 {
							smallPool = true
						}
					}
				}
				switch {
				case freePoolOnline && rapid.IntRange(0, 2).Draw(t, "walkoutNow") != 0:
					intent = "walkout"
				case bigPoolOnline && rapid.Bool().Draw(t, "exodusNow"):
					intent = "exodus"
				case inviteePoolOnline:
					intent = "killInvitee"
				case boundPool && epochsLeft > 0 && s.State.ValidationPeriod() == state.NonePeriod && rapid.IntRange(0, 2).Draw(t, "epochNow") == 0:
					intent = "epoch"
				case smallPool && rapid.Bool().Draw(t, "growPool"):
					intent = "growPool"
				case poolOffline:
					intent = "online"
				}
			}
			switch intent {
			case "invite":
				a := pick("inviter", func(a *sim.Actor, id state.Identity) bool {
					return id.Invites > 0 || a.Addr == s.State.GodAddress() && s.State.GodAddressInvites() > 0
				})
				if a != nil {
					to := w.NewActor().Addr
					submit(intent, mkTx(a, types.InviteTx, &to, nil, sim.Dna(int64(rapid.IntRange(40, 120).Draw(t, "inviteAmount")))), a)
				}
			case "activate":
				a := pick("invited", func(a *sim.Actor, id state.Identity) bool { return id.State == state.Invite })
				if a != nil {
					target := a
					if rapid.Bool().Draw(t, "activateToFresh") {
						target = w.NewActor()
					}
					to := target.Addr
					submit(intent, mkTx(a, types.ActivationTx, &to, target.Pub, nil), a)
				}
			case "delegate":
				a := pick("delegator", func(a *sim.Actor, id state.Identity) bool {
					return id.State != state.Undefined && id.State != state.Killed && id.Delegatee() == nil && !vc.IsPool(a.Addr)
				})
				class := rapid.SampledFrom([]string{"invited", "invited", "candidate", "pool", "validated", "any"}).Draw(t, "delegateeClass")
				b := pick("delegatee", func(b *sim.Actor, id state.Identity) bool {
					if a == nil || b == a {
						return false
					}
					switch class {
					case "invited":
						return id.State == state.Invite
					case "candidate":
						return id.State == state.Candidate
					case "pool":
						return vc.IsPool(b.Addr)
					case "validated":
						return id.State.NewbieOrBetter() && id.Delegatee() == nil
					}
					return true
				})
				if a != nil && b != nil {
					to := b.Addr
					submit(intent+"."+class, mkTx(a, types.DelegateTx, &to, nil, nil), a)
				}
			case "undelegate":
				a := pick("undelegator", func(a *sim.Actor, id state.Identity) bool {
					return id.Delegatee() != nil || s.State.DelegationSwitch(a.Addr) != nil
				})
				if a != nil {
					submit(intent, mkTx(a, types.UndelegateTx, nil, nil, nil), a)
				}
			case "online", "offline":
				on := intent == "online"
				var a *sim.Actor
				if rapid.Bool().Draw(t, "preferPoolOwnerNotValidated") {
					a = pick("poolSwitcher", func(a *sim.Actor, id state.Identity) bool {
						return vc.IsPool(a.Addr) && !vc.IsValidated(a.Addr) && vc.IsOnlineIdentity(a.Addr) != on
					})
				}
				if a == nil {
					a = pick("switcher", func(a *sim.Actor, id state.Identity) bool {
						return (vc.IsValidated(a.Addr) || vc.IsPool(a.Addr)) && id.Delegatee() == nil && vc.IsOnlineIdentity(a.Addr) != on
					})
				}
				if a != nil {
					what := intent
					if vc.IsPool(a.Addr) && !vc.IsValidated(a.Addr) {
						what += ".pool_owner_not_validated"
					}
					submit(what, mkTx(a, types.OnlineStatusTx, nil, attachments.CreateOnlineStatusAttachment(on), nil), a)
				}
			case "kill":
				a := pick("suicide", func(a *sim.Actor, id state.Identity) bool {
					return id.State == state.Verified || id.State == state.Human || id.State == state.Suspended || id.State == state.Zombie
				})
				if a != nil && a.Addr != s.State.GodAddress() {
					submit(intent, mkTx(a, types.KillTx, nil, nil, nil), a)
				}
			case "killInvitee":
				type pair struct{ inviter, invitee *sim.Actor }
				var ps []pair
				for _, a := range w.Actors {
					for _, inv := range s.State.GetIdentity(a.Addr).Invitees {
						if x := s.State.GetIdentityState(inv.Address); (x == state.Invite || x == state.Candidate) && w.ByAddr[inv.Address] != nil {
							ps = append(ps, pair{a, w.ByAddr[inv.Address]})
						}
					}
				}
				// prefer invitees that have become pools
				var pools []pair
				for _, p := range ps {
					if vc.IsPool(p.invitee.Addr) {
						pools = append(pools, p)
					}
				}
				var onlinePools []pair
				for _, p := range pools {
					if vc.IsOnlineIdentity(p.invitee.Addr) {
						onlinePools = append(onlinePools, p)
					}
				}
				if len(onlinePools) > 0 && rapid.IntRange(0, 3).Draw(t, "preferOnlinePoolInvitee") != 0 {
					ps = onlinePools
				} else if len(pools) > 0 && rapid.IntRange(0, 3).Draw(t, "preferPoolInvitee") == 0 {
					ps = pools
				} else if len(pools) > 0 && rapid.IntRange(0, 2).Draw(t, "letPoolGoOnline") != 0 {
					ps = nil // give the pool time to go online
				} else if len(pools) == 0 && len(ps) > 0 && rapid.IntRange(0, 2).Draw(t, "letInviteeLive") != 0 {
					ps = nil // give the invitee time to become a pool
				}
				if len(ps) > 0 {
					p := ps[rapid.IntRange(0, len(ps)-1).Draw(t, "inviteePair")]
					to := p.invitee.Addr
					what := intent
					if vc.IsPool(to) {
						what += ".pool"
						if vc.IsOnlineIdentity(to) {
							what += ".online"
						}
					}
					submit(what, mkTx(p.inviter, types.KillInviteeTx, &to, nil, nil), p.inviter)
				}
			case "epoch":
				if epochsLeft > 0 && s.State.ValidationPeriod() == state.NonePeriod {
					epochsLeft--
					passEpoch()
					steps += rapid.IntRange(4, 16).Draw(t, "intentsAfterEpoch") // what the new epoch allows needs some steps, too
				}
				continue
			case "walkout":
				// every delegator of one online pool around a non-validated address that may leave by UndelegateTx does so;
				// the undelegations stay pending until the next identity-update block, proposed or empty
				var pools []*sim.Actor
				for _, a := range w.Actors {
					if vc.IsPool(a.Addr) && !vc.IsValidated(a.Addr) && vc.IsOnlineIdentity(a.Addr) {
						pools = append(pools, a)
					}
				}
				if len(pools) == 0 {
					break
				}
				pool := pools[rapid.IntRange(0, len(pools)-1).Draw(t, "walkoutPool")]
				n := 0
				for _, d := range w.Actors {
					did := s.State.GetIdentity(d.Addr)
					if x := did.Delegatee(); x != nil && *x == pool.Addr && vc.Delegator(d.Addr) == pool.Addr {
						n++
						if sw := s.State.DelegationSwitch(d.Addr); sw == nil || !sw.Delegatee.IsEmpty() {
							submit("walkout.undelegate", mkTx(d, types.UndelegateTx, nil, nil, nil), d)
						}
					}
				}
				evid.Count(fmt.Sprintf("walkout.delegators=%d", n))
				block()
				continue
			case "growPool":
				// a second delegator for a pool around a non-validated address
				b := pick("smallPool", func(b *sim.Actor, id state.Identity) bool { return vc.IsPool(b.Addr) && !vc.IsValidated(b.Addr) })
				a := pick("joiner", func(a *sim.Actor, id state.Identity) bool {
					return id.State.NewbieOrBetter() && id.Delegatee() == nil && !vc.IsPool(a.Addr) && s.State.DelegationSwitch(a.Addr) == nil && (b == nil || a != b)
				})
				if a != nil && b != nil {
					to := b.Addr
					submit(intent, mkTx(a, types.DelegateTx, &to, nil, nil), a)
				}
			case "exodus":
				// every delegator of one online pool around a non-validated address leaves in the same block: by
				// terminating itself, by undelegating, or terminated by the pool
				var pools []*sim.Actor
				for _, a := range w.Actors {
					if vc.IsPool(a.Addr) && !vc.IsValidated(a.Addr) && vc.IsOnlineIdentity(a.Addr) {
						pools = append(pools, a)
					}
				}
				if len(pools) == 0 {
					break
				}
				pool := pools[rapid.IntRange(0, len(pools)-1).Draw(t, "exodusPool")]
				n := 0
				for _, d := range w.Actors {
					did := s.State.GetIdentity(d.Addr)
					x := did.Delegatee()
					if x == nil || *x != pool.Addr || vc.Delegator(d.Addr) != pool.Addr {
						continue
					}
					n++
					switch rapid.SampledFrom([]string{"kill", "killDelegator", "undelegate"}).Draw(t, "leaves") {
					case "kill":
						submit("exodus.kill", mkTx(d, types.KillTx, nil, nil, nil), d)
					case "killDelegator":
						to := d.Addr
						submit("exodus.killDelegator", mkTx(pool, types.KillDelegatorTx, &to, nil, nil), pool)
					default:
						submit("exodus.undelegate", mkTx(d, types.UndelegateTx, nil, nil, nil), d)
					}
				}
				evid.Count(fmt.Sprintf("exodus.delegators=%d", n))
				block()
				continue
			case "killDelegator":
				a := pick("poolOwner", func(a *sim.Actor, id state.Identity) bool { return vc.IsPool(a.Addr) })
				if a != nil {
					d := pick("victim", func(d *sim.Actor, id state.Identity) bool { x := id.Delegatee(); return x != nil && *x == a.Addr })
					if d != nil {
						to := d.Addr
						submit(intent, mkTx(a, types.KillDelegatorTx, &to, nil, nil), a)
					}
				}
			case "replenish":
				a := pick("replenisher", func(a *sim.Actor, id state.Identity) bool { return s.State.GetBalance(a.Addr).Cmp(sim.Dna(50)) > 0 })
				b := pick("replenished", func(b *sim.Actor, id state.Identity) bool { return id.State != state.Undefined && id.State != state.Killed })
				if a != nil && b != nil {
					to := b.Addr
					submit(intent, mkTx(a, types.ReplenishStakeTx, &to, nil, sim.Dna(int64(rapid.IntRange(1, 30).Draw(t, "replenishAmount")))), a)
				}
			case "changeGod":
				if rapid.IntRange(0, 2).Draw(t, "reallyChangeGod") == 0 {
					a := w.ByAddr[s.State.GodAddress()]
					b := pick("newGod", func(b *sim.Actor, id state.Identity) bool { return true })
					if a != nil && b != nil {
						to := b.Addr
						submit(intent, mkTx(a, types.ChangeGodAddressTx, &to, nil, nil), a)
					}
				}
			case "noise":
				for k := rapid.IntRange(1, 3).Draw(t, "noiseTxs"); k > 0; k-- {
					tx, _ := w.GenTx(t, r, identityHeavy)
					r.Pool.AddExternalTxs(validation.InboundTx, tx)
				}
			case "blocks":
				for k := rapid.IntRange(1, 4).Draw(t, "blocks"); k > 0; k-- {
					block()
				}
				continue
			}
			if rapid.IntRange(0, 2).Draw(t, "blockAfterIntent") == 0 {
				block()
			}
		}
		for k := 0; k < 6; k++ {
			block()
		}
		if sawPoolDiff {
			evid.NonTrivial("lifecycle|" + desc)
			evid.Sample("lifecycle", fmt.Sprintf("blocks=%d intents=%s", len(h.Blocks), desc))
		}
	})
}

// roundView is what is pending before a round, taken from the head state, so that the block of the round - an empty one
// in particular - can be classified afterwards.
type roundView struct {
	due        bool                   // the next height is a switch height with entries pending for it
	leaving    map[common.Address]int // pool -> delegators with an undelegation pending
	lastLeave  int                    // pools all of whose delegators have an undelegation pending
	lastOnline int                    // ... that are online and not validated identities themselves
	switches   int                    // pending status switches
	poolTxs    int                    // transactions waiting in the main node's pool
	killTxs    int                    // terminations among them
}

func viewRound(r *sim.Replica) *roundView {
	pre := r.ReadState()
	next := r.Head().Height() + 1
	cons := r.Cfg.Consensus
	rv := &roundView{leaving: map[common.Address]int{}}
	rv.switches = len(pre.State.StatusSwitchAddresses())
	rv.due = next%cons.DelegationSwitchRange == 0 && len(pre.State.Delegations()) > 0 ||
		next%cons.StatusSwitchRange == 0 && (rv.switches > 0 || len(pre.State.DelayedOfflinePenalties()) > 0) ||
		next%cons.DiscriminationSwitchRange == 0 && len(pre.State.DiscriminationStatusSwitchAddresses()) > 0
	vc := pre.ValidatorsCache
	for _, d := range pre.State.Delegations() {
		if !d.Delegatee.IsEmpty() {
			continue
		}
		id := pre.State.GetIdentity(d.Delegator)
		if x := id.Delegatee(); x != nil && vc.Delegator(d.Delegator) == *x {
			rv.leaving[*x]++
		}
	}
	for pool, n := range rv.leaving {
		members := vc.PoolSize(pool)
		if vc.IsValidated(pool) {
			members--
		}
		if n >= members {
			rv.lastLeave++
			if vc.IsOnlineIdentity(pool) && !vc.IsValidated(pool) {
				rv.lastOnline++
			}
		}
	}
	for _, tx := range r.Pool.GetPendingTransaction(true, true, 0, false) {
		rv.poolTxs++
		if tx.Type == types.KillTx || tx.Type == types.KillDelegatorTx || tx.Type == types.KillInviteeTx {
			rv.killTxs++
		}
	}
	return rv
}

// classify counts the classes of identity-update blocks reached, separately for empty and proposed blocks.
func (rv *roundView) classify(blk *types.Block) {
	kind := "proposed"
	if blk.IsEmpty() {
		kind = "empty"
		evid.Count("empty.block")
		if rv.poolTxs > 0 {
			evid.Count("empty.with_txs_waiting")
		}
		if rv.killTxs > 0 {
			evid.Count("empty.with_terminations_waiting")
		}
	}
	if !blk.Header.Flags().HasFlag(types.IdentityUpdate) {
		return
	}
	evid.Count(kind + ".identity_update")
	if blk.Header.Flags().HasFlag(types.ValidationFinished) {
		evid.Count(kind + ".epoch_result")
	}
	if rv.switches > 0 {
		evid.Count(kind + ".applies_status_switch")
	}
	if len(rv.leaving) > 0 {
		evid.Count(kind + ".applies_undelegation")
	}
	if rv.lastLeave > 0 {
		evid.Count(kind + ".undelegation_of_all_delegators_of_a_pool")
	}
	if rv.lastOnline > 0 {
		evid.Count(kind + ".undelegation_of_all_delegators_of_an_online_pool_not_validated")
	}
}

package c10

import (
	"bytes"
	"fmt"
	"sort"
	"testing"
	"time"

	"github.com/idena-network/idena-go/blockchain/types"
	"github.com/idena-network/idena-go/common"
	"github.com/idena-network/idena-go/core/state"
	"github.com/idena-network/idena-go/core/validators"
	dbm "github.com/tendermint/tm-db"
	"pgregory.net/rapid"

	"verifharness/internal/evid"
	"verifharness/internal/kf"
	"verifharness/internal/sim"
)

func TestMain(m *testing.M) { evid.Main(m) }

var identityHeavy = []types.TxType{
	types.OnlineStatusTx, types.OnlineStatusTx, types.OnlineStatusTx, types.DelegateTx, types.DelegateTx, types.DelegateTx, types.UndelegateTx, types.UndelegateTx,
	types.KillTx, types.KillInviteeTx, types.KillDelegatorTx, types.KillDelegatorTx, types.ReplenishStakeTx, types.ReplenishStakeTx, types.InviteTx, types.ActivationTx,
	types.SendTx, types.SubmitAnswersHashTx, types.SubmitShortAnswersTx, types.SubmitLongAnswersTx, types.EvidenceTx, types.ChangeGodAddressTx,
}

func seeds() []types.Seed {
	var res []types.Seed
	for i := byte(1); i <= 3; i++ {
		var s types.Seed
		for j := range s {
			s[j] = i*31 + byte(j)
		}
		res = append(res, s)
	}
	return res
}

// After every block the incrementally maintained validator view equals a view
// rebuilt from stored state, and the stored registry agrees with the ledger.
func TestRegistryConsistentAlongHistories(t *testing.T) {
	rapid.Check(t, func(t *rapid.T) {
		opt := sim.Options{MinActors: 5, MaxActors: 12, Replicas: 1, MaxReplicas: 4, Steps: 40, MaxTxPerStep: 6, OnlyTypes: identityHeavy}
		opt.Params = func(p *sim.Params) {
			// more validated identities and stakes near each other so that delegation / discrimination happen
			for i := range p.States {
				if i > 0 && i%3 != 0 && p.States[i] == state.Undefined {
					p.States[i] = state.Verified
					p.Stakes[i] = sim.Dna(int64(10 + i))
				}
			}
		}
		sawPoolDiff := false
		opt.AfterBlock = func(h *sim.History, blk *types.Block) {
			if checkRegistryAfterBlock(t, h, blk) {
				sawPoolDiff = true
			}
		}
		h := sim.RunHistory(t, opt)
		if sawPoolDiff {
			evid.NonTrivial(h.Descriptor())
			evid.Sample("history", h.Descriptor())
		}
	})
}

const kfStalePoolSwitch = "c10.status-switch-applied-with-stale-pool-view"

// addresses left online by the known finding, per world (one world per generated case)
var staleOnline = map[*sim.World]map[common.Address]bool{}

// switchedInBlock: blk carries a status-switch transaction of addr (the switch may be applied by the same block).
func switchedInBlock(blk *types.Block, addr common.Address) bool {
	for _, tx := range blk.Body.Transactions {
		if from, _ := types.Sender(tx); tx.Type == types.OnlineStatusTx && from == addr {
			return true
		}
	}
	return false
}

// checkRegistryAfterBlock is the oracle of the history-based variants: incremental view == rebuilt view, registry ==
// ledger. It returns true when the block's identity diff touched a pool or a delegator together with another address.
func checkRegistryAfterBlock(t *rapid.T, h *sim.History, blk *types.Block) (sawPoolDiff bool) {
	{
		{
			evid.Eval()
			w := h.W
			r := w.Replicas[0]
			s := r.ReadState()
			var addrs []common.Address
			for _, a := range w.Actors {
				addrs = append(addrs, a.Addr)
			}
			fresh := validators.NewValidatorsCache(r.AppState.IdentityState, r.AppState.State.GodAddress())
			fresh.Load()
			if d := sim.CompareVC(r.AppState.ValidatorsCache, fresh, addrs, w.Name, seeds()); len(d) > 0 {
				t.Fatalf("after %s the incremental validator view differs from a rebuilt one (incremental vs rebuilt): %v\nhistory:\n%s", sim.BlockDesc(blk), d, h.Summary())
			}
			if d := comparePoolOrder(r.AppState.ValidatorsCache, fresh, addrs, w.Name); len(d) > 0 {
				t.Fatalf("after %s the member order of a pool in the incremental validator view differs from a rebuilt one (incremental vs rebuilt): %v\nhistory:\n%s", sim.BlockDesc(blk), d, h.Summary())
			}
			// ledger agreement
			vc := fresh
			for _, a := range w.Actors {
				id := s.State.GetIdentity(a.Addr)
				regValidated := s.IdentityState.IsValidated(a.Addr)
				if regValidated != id.State.NewbieOrBetter() {
					t.Fatalf("after %s: %s is registered validated=%v but its ledger status is %d\nhistory:\n%s", sim.BlockDesc(blk), a, regValidated, id.State, h.Summary())
				}
				if regValidated {
					rd, ld := s.IdentityState.Delegatee(a.Addr), id.Delegatee()
					if (rd == nil) != (ld == nil) || rd != nil && *rd != *ld {
						t.Fatalf("after %s: delegatee of validated %s differs: registry %v ledger %v\nhistory:\n%s", sim.BlockDesc(blk), a, rd, ld, h.Summary())
					}
				}
				if s.IdentityState.IsOnline(a.Addr) && !regValidated && !vc.IsPool(a.Addr) {
					if staleOnline[w][a.Addr] {
						continue // consequence of the known finding met earlier in this history
					}
					// known finding: a pending status switch of an address that WAS a pool AND a validated identity before
					// this block, is terminated inside this very block and loses its last delegator in it as well, is
					// applied against the one-block-old pool view (switched online), and the switch-off step at the end
					// of the block still counts the terminated owner as a member of its own pool. A pool whose owner was
					// not validated before the block is NOT this finding (the switch-off step takes such a pool back).
					if prev, err := r.AppState.Readonly(blk.Height() - 1); err == nil && blk.Header.Flags().HasFlag(types.IdentityUpdate) &&
						prev.ValidatorsCache.IsPool(a.Addr) && prev.IdentityState.IsValidated(a.Addr) && (prev.State.HasStatusSwitchAddresses(a.Addr) || switchedInBlock(blk, a.Addr)) {
						if kf.Report(t, "C10", kfStalePoolSwitch, "after %s: %s is online but neither validated nor a pool (it was a pool before this block and had a status switch pending)\nhistory:\n%s", sim.BlockDesc(blk), a, h.Summary()) {
							if staleOnline[w] == nil {
								staleOnline = map[*sim.World]map[common.Address]bool{w: {}}
							}
							staleOnline[w][a.Addr] = true
							continue
						}
					}
					t.Fatalf("after %s: %s is online but neither validated nor a pool\nhistory:\n%s", sim.BlockDesc(blk), a, h.Summary())
				}
			}
			if blk.Header.Flags().HasFlag(types.IdentityUpdate) {
				evid.Count("block.identity_update")
				if prev, err := r.AppState.Readonly(blk.Height() - 1); err == nil {
					countDepartures(prev.ValidatorsCache, vc, addrs, "pool.")
				}
				if diff := r.Chain.GetIdentityDiff(blk.Height()); diff != nil && len(diff.Values) >= 2 {
					pools := 0
					for _, v := range diff.Values {
						if vc.IsPool(v.Address) || vc.Delegator(v.Address) != (common.Address{}) {
							pools++
						}
					}
					if pools > 0 {
						sawPoolDiff = true
						evid.Count("diff.multi_address_with_pool_or_delegator")
					}
				}
			}
			if vc.OnlineSize() > 0 {
				evid.Count("state.somebody_online")
			}
			for _, tx := range blk.Body.Transactions {
				evid.Count("included." + sim.TxTypeNames[tx.Type])
				if tx.Type == types.KillInviteeTx && tx.To != nil {
					if prev, err := r.AppState.Readonly(blk.Height() - 1); err == nil && prev.ValidatorsCache.IsPool(*tx.To) {
						evid.Count("kill.invitee_that_is_a_pool")
						if prev.ValidatorsCache.IsOnlineIdentity(*tx.To) {
							evid.Count("kill.invitee_that_is_an_online_pool")
						}
					}
				}
			}
			for _, a := range w.Actors {
				if vc.IsPool(a.Addr) && !s.IdentityState.IsValidated(a.Addr) {
					evid.Count("state.pool_owner_not_validated")
					if s.IdentityState.IsOnline(a.Addr) {
						evid.Count("state.pool_owner_not_validated_online")
					}
					break
				}
			}
			for _, a := range w.Actors {
				if vc.IsPool(a.Addr) {
					evid.Count("state.pool_exists")
					break
				}
			}
		}
	}
	return sawPoolDiff
}

// comparePoolOrder compares everything that depends on the ORDER of a pool's member list (sim.CompareVC samples the
// first four positions only): FindSubIdentity at every position of the pool and one past it, and the rotation the reward
// step performs (the returned nonce fed back in) twice around the pool.
func comparePoolOrder(a, b *validators.ValidatorsCache, addrs []common.Address, name func(common.Address) string) []string {
	var out []string
	for _, x := range addrs {
		if !a.IsPool(x) || !b.IsPool(x) {
			continue
		}
		n := a.PoolSize(x)
		if m := b.PoolSize(x); m > n {
			n = m
		}
		for i := uint32(0); i <= uint32(n)+1; i++ {
			s1, n1 := a.FindSubIdentity(x, i)
			s2, n2 := b.FindSubIdentity(x, i)
			if s1 != s2 || n1 != n2 {
				out = append(out, fmt.Sprintf("FindSubIdentity(%s,%d) %s,%d vs %s,%d", name(x), i, name(s1), n1, name(s2), n2))
			}
		}
		na, nb := uint32(0), uint32(0)
		for i := 0; i < 2*n+2; i++ {
			var s1, s2 common.Address
			s1, na = a.FindSubIdentity(x, na)
			s2, nb = b.FindSubIdentity(x, nb)
			if s1 != s2 || na != nb {
				out = append(out, fmt.Sprintf("rotation through %s, round %d: %s,%d vs %s,%d", name(x), i, name(s1), na, name(s2), nb))
				break
			}
		}
	}
	return out
}

// countDepartures counts, between two views, delegators that left their pool, by the position they held in the pool's
// address-ordered member list (a departure from the middle of a list is where list maintenance can go wrong).
func countDepartures(before, after *validators.ValidatorsCache, addrs []common.Address, prefix string) (nonLastOfBig bool) {
	members := map[common.Address][]common.Address{}
	for _, d := range addrs {
		if p := before.Delegator(d); p != (common.Address{}) {
			members[p] = append(members[p], d)
		}
	}
	for _, d := range addrs {
		p := before.Delegator(d)
		if p == (common.Address{}) || after.Delegator(d) == p {
			continue
		}
		evid.Count(prefix + "delegator_left")
		last := true
		for _, m := range members[p] {
			if string(m[:]) > string(d[:]) {
				last = false
			}
		}
		if len(members[p]) >= 3 {
			evid.Count(prefix + "delegator_left_pool_of_3_or_more")
			if !last {
				evid.Count(prefix + "delegator_left_pool_of_3_or_more_not_from_the_end")
				nonLastOfBig = true
				if after.IsPool(p) {
					evid.Count(prefix + "delegator_left_pool_of_3_or_more_not_from_the_end_pool_remains")
				}
			}
		}
	}
	return nonLastOfBig
}

// Chain-free variant: batches of registry changes (shapes the chain produces:
// a delegatee is never itself a delegator) applied incrementally vs. a full load.
func TestRegistryIncrementalVsLoad(t *testing.T) {
	rapid.Check(t, func(t *rapid.T) {
		evid.Eval()
		n := rapid.IntRange(2, 14).Draw(t, "n")
		nPools := rapid.IntRange(0, 3).Draw(t, "nPools")
		if nPools >= n {
			nPools = n - 1
		}
		var addrs []common.Address
		for i := 0; i < n; i++ {
			var a common.Address
			a[0] = byte(rapid.IntRange(1, 250).Draw(t, "addrByte"))
			a[19] = byte(i + 1)
			addrs = append(addrs, a)
		}
		poolOwners := addrs[:nPools]
		members := addrs[nPools:]
		god := addrs[0]
		db := dbm.NewMemDB()
		ids, err := state.NewLazyIdentityState(db)
		if err != nil {
			t.Fatal(err)
		}
		ids.Load(0)
		inc := validators.NewValidatorsCache(ids, god)
		inc.Load()
		name := func(a common.Address) string { return fmt.Sprintf("%x..%x", a[0], a[19]) }
		batches := rapid.IntRange(1, 8).Draw(t, "batches")
		sawPoolOrder, sawMulti, sawInnerDeparture := false, false, false
		var trace []string
		// model of the stored registry, used only to keep generated shapes reachable:
		// an identity goes online only while validated (or owning a non-empty pool) and not delegated;
		// delegating switches it offline; losing validation switches a non-pool offline.
		mValidated, mOnline, mDelegatee := map[common.Address]bool{}, map[common.Address]bool{}, map[common.Address]*common.Address{}
		poolMembers := func(p common.Address) int {
			c := 0
			for _, d := range mDelegatee {
				if d != nil && *d == p {
					c++
				}
			}
			return c
		}
		for b := 0; b < batches; b++ {
			ops := rapid.IntRange(1, 6).Draw(t, "ops")
			for o := 0; o < ops; o++ {
				var a common.Address
				if rapid.Bool().Draw(t, "anyAddr") || len(members) == 0 {
					a = addrs[rapid.IntRange(0, len(addrs)-1).Draw(t, "addr")]
				} else {
					a = members[rapid.IntRange(0, len(members)-1).Draw(t, "member")]
				}
				isOwner := false
				for _, p := range poolOwners {
					if p == a {
						isOwner = true
					}
				}
				undelegate := func(a common.Address) {
					d := mDelegatee[a]
					ids.RemoveDelegatee(a)
					mDelegatee[a] = nil
					// the chain switches a pool that lost its last member (and is not validated itself) offline
					if poolMembers(*d) == 0 && !mValidated[*d] {
						ids.SetOnline(*d, false)
						mOnline[*d] = false
					}
					trace = append(trace, fmt.Sprintf("undelegate(%s)", name(a)))
				}
				remove := func(a common.Address) {
					d := mDelegatee[a]
					ids.Remove(a)
					mValidated[a], mOnline[a], mDelegatee[a] = false, false, nil
					if d != nil && poolMembers(*d) == 0 && !mValidated[*d] {
						ids.SetOnline(*d, false)
						mOnline[*d] = false
					}
					// (a removed (killed) pool owner keeps its pool; it may stay online as a pool)
					trace = append(trace, fmt.Sprintf("remove(%s)", name(a)))
				}
				switch rapid.IntRange(0, 8).Draw(t, "op") {
				case 7:
					// several members join one pool in the same batch: pools of three and more members
					if len(poolOwners) == 0 {
						continue
					}
					p := poolOwners[rapid.IntRange(0, len(poolOwners)-1).Draw(t, "pool")]
					k := rapid.IntRange(2, 5).Draw(t, "joiners")
					for _, m := range members {
						if k == 0 {
							break
						}
						if mDelegatee[m] != nil || !rapid.Bool().Draw(t, "joins") {
							continue
						}
						ids.SetValidated(m, true)
						mValidated[m] = true
						ids.SetDelegatee(m, p)
						ids.SetOnline(m, false)
						mOnline[m] = false
						pp := p
						mDelegatee[m] = &pp
						trace = append(trace, fmt.Sprintf("join(%s->%s)", name(m), name(p)))
						k--
					}
				case 8:
					// a member leaves its pool - chosen by its position in the pool's address order - by undelegating,
					// by being removed, or by losing its validation
					if len(poolOwners) == 0 {
						continue
					}
					p := poolOwners[rapid.IntRange(0, len(poolOwners)-1).Draw(t, "pool")]
					var ms []common.Address
					for _, m := range addrs {
						if d := mDelegatee[m]; d != nil && *d == p {
							ms = append(ms, m)
						}
					}
					if len(ms) == 0 {
						continue
					}
					sort.Slice(ms, func(i, j int) bool { return bytes.Compare(ms[i][:], ms[j][:]) < 0 })
					m := ms[0]
					switch rapid.SampledFrom([]string{"first", "inner", "last"}).Draw(t, "position") {
					case "inner":
						m = ms[rapid.IntRange(0, len(ms)-1).Draw(t, "memberIdx")]
					case "last":
						m = ms[len(ms)-1]
					}
					switch rapid.SampledFrom([]string{"undelegate", "remove", "invalidate"}).Draw(t, "leavesBy") {
					case "undelegate":
						undelegate(m)
					case "remove":
						remove(m)
					default:
						ids.SetValidated(m, false)
						mValidated[m] = false
						trace = append(trace, fmt.Sprintf("validated(%s,false)", name(m)))
					}
				case 0:
					v := rapid.Bool().Draw(t, "v")
					ids.SetValidated(a, v)
					mValidated[a] = v
					if !v && poolMembers(a) == 0 {
						ids.SetOnline(a, false)
						mOnline[a] = false
					}
					trace = append(trace, fmt.Sprintf("validated(%s,%v)", name(a), v))
				case 1:
					v := rapid.Bool().Draw(t, "v")
					if v && (mDelegatee[a] != nil || !(mValidated[a] || poolMembers(a) > 0)) {
						continue
					}
					ids.SetOnline(a, v)
					mOnline[a] = v
					trace = append(trace, fmt.Sprintf("online(%s,%v)", name(a), v))
				case 2:
					v := rapid.Bool().Draw(t, "v")
					if !mValidated[a] {
						continue
					}
					ids.SetDiscriminated(a, v)
					trace = append(trace, fmt.Sprintf("discr(%s,%v)", name(a), v))
				case 3, 4:
					if !isOwner && len(poolOwners) > 0 && mDelegatee[a] == nil {
						p := poolOwners[rapid.IntRange(0, len(poolOwners)-1).Draw(t, "pool")]
						ids.SetDelegatee(a, p)
						ids.SetOnline(a, false)
						mOnline[a] = false
						pp := p
						mDelegatee[a] = &pp
						trace = append(trace, fmt.Sprintf("delegate(%s->%s)", name(a), name(p)))
					}
				case 5:
					if mDelegatee[a] != nil {
						undelegate(a)
					}
				case 6:
					remove(a)
				}
			}
			// entries that are neither validated nor online are deleted by the commit, with their delegatee
			for _, a := range addrs {
				if !mValidated[a] && !mOnline[a] {
					mDelegatee[a] = nil
				}
			}
			for _, p := range poolOwners {
				if poolMembers(p) == 0 && !mValidated[p] && mOnline[p] {
					ids.SetOnline(p, false)
					mOnline[p] = false
				}
			}
			_, _, diff, err := ids.Commit(true)
			if err != nil {
				t.Fatalf("commit: %v", err)
			}
			trace = append(trace, "commit")
			if diff != nil && len(diff.Values) >= 2 {
				sawMulti = true
				for _, v := range diff.Values {
					for _, p := range poolOwners {
						if v.Address == p {
							sawPoolOrder = true
						}
					}
				}
			}
			before := inc.Clone()
			inc.UpdateFromIdentityStateDiff(diff)
			fresh := validators.NewValidatorsCache(ids, god)
			fresh.Load()
			if d := sim.CompareVC(inc, fresh, addrs, name, seeds()); len(d) > 0 {
				t.Fatalf("incremental view differs from loaded view after batch %d: %v\ntrace: %v", b, d, trace)
			}
			if d := comparePoolOrder(inc, fresh, addrs, name); len(d) > 0 {
				t.Fatalf("member order of a pool in the incremental view differs from the loaded view after batch %d: %v\ntrace: %v", b, d, trace)
			}
			if countDepartures(before, fresh, addrs, "diffseq.") {
				sawInnerDeparture = true
			}
		}
		if sawInnerDeparture {
			evid.Count("diffseq.with_departure_from_inside_a_pool_of_3_or_more")
		}
		if sawMulti && sawPoolOrder {
			evid.Count("diffseq.multi_with_pool_owner")
			evid.NonTrivial(fmt.Sprintf("diffseq|%v", trace))
			evid.Sample("diff-sequence", trace)
		}
	})
}

// A fast-synced node: identity diffs replayed, state snapshot imported, atomic
// switch. Its validator view must equal a rebuilt one and the view of the node
// that executed every block, and it must then follow the chain.
func TestFastSyncedNodeView(t *testing.T) {
	rapid.Check(t, func(t *rapid.T) {
		evid.Eval()
		steps := rapid.IntRange(8, 30).Draw(t, "steps")
		var early dbm.DB
		earlyAt := rapid.IntRange(0, 5).Draw(t, "syncFrom")
		opt := sim.Options{MinActors: 5, MaxActors: 10, Replicas: 1, MaxReplicas: 3, Steps: steps, MaxTxPerStep: 6, OnlyTypes: identityHeavy}
		opt.Params = func(p *sim.Params) {
			for i := range p.States {
				if i > 0 && i%3 != 0 && p.States[i] == state.Undefined {
					p.States[i] = state.Verified
					p.Stakes[i] = sim.Dna(int64(10 + i))
				}
			}
		}
		opt.BetweenBlocks = func(h *sim.History) {
			if len(h.Blocks) == earlyAt && early == nil {
				early = sim.CopyDB(h.W.Replicas[0].DB)
			}
		}
		h := sim.RunHistory(t, opt)
		w := h.W
		src := w.Replicas[0]
		if early == nil {
			t.Fatalf("no early image")
		}
		dst := &sim.Replica{W: w, Name: "fast-synced", Key: w.Actors[1].Key, Addr: w.Actors[1].Addr, DB: early, Ipfs: src.Ipfs, Loc: time.UTC}
		if err := dst.Start(); err != nil {
			t.Fatalf("start: %v", err)
		}
		back := rapid.IntRange(0, 3).Draw(t, "snapshotBack")
		target := src.Head().Height() - uint64(back)
		if target <= dst.Head().Height() {
			return
		}
		fsView, err := sim.FastSync(src, dst, target, nil)
		if err != nil {
			t.Fatalf("fast sync from %d to %d fails against an honest source: %v\nhistory:\n%s", dst.Head().Height(), target, err, h.Summary())
		}
		if dst.Head().Height() != target || dst.Head().Root() != dst.AppState.State.Root() || dst.Head().IdentityRoot() != dst.AppState.IdentityState.Root() {
			t.Fatalf("after the switch head %d / roots do not match the loaded state", dst.Head().Height())
		}
		var addrs []common.Address
		for _, a := range w.Actors {
			addrs = append(addrs, a.Addr)
		}
		srcAt, err := src.AppState.Readonly(target)
		if err != nil {
			t.Fatal(err)
		}
		fresh := validators.NewValidatorsCache(dst.AppState.IdentityState, dst.AppState.State.GodAddress())
		fresh.Load()
		if d := sim.CompareVC(dst.AppState.ValidatorsCache, fresh, addrs, w.Name, seeds()); len(d) > 0 {
			t.Fatalf("validator view of the fast-synced node differs from a rebuilt one: %v\nhistory:\n%s", d, h.Summary())
		}
		if d := sim.CompareVC(dst.AppState.ValidatorsCache, srcAt.ValidatorsCache, addrs, w.Name, seeds()); len(d) > 0 {
			t.Fatalf("validator view of the fast-synced node differs from the node that executed every block: %v\nhistory:\n%s", d, h.Summary())
		}
		if d := append(comparePoolOrder(dst.AppState.ValidatorsCache, fresh, addrs, w.Name), comparePoolOrder(dst.AppState.ValidatorsCache, srcAt.ValidatorsCache, addrs, w.Name)...); len(d) > 0 {
			t.Fatalf("member order of a pool in the validator view of the fast-synced node differs from a rebuilt one / from the node that executed every block: %v\nhistory:\n%s", d, h.Summary())
		}
		// the view fast sync itself maintained from the diffs (used for certificate checks while syncing). The god
		// address is not part of the identity state, so committees in god-only mode are not compared for it.
		fsSeeds := seeds()
		if fsView.OnlineSize() == 0 {
			fsSeeds = nil
		}
		if d := sim.CompareVC(fsView, srcAt.ValidatorsCache, addrs, w.Name, fsSeeds); len(d) > 0 {
			t.Fatalf("validator view maintained from the identity diffs during fast sync differs from the node that executed every block: %v\nhistory:\n%s", d, h.Summary())
		}
		if d := comparePoolOrder(fsView, srcAt.ValidatorsCache, addrs, w.Name); len(d) > 0 {
			t.Fatalf("member order of a pool in the validator view maintained from the identity diffs during fast sync differs from the node that executed every block: %v\nhistory:\n%s", d, h.Summary())
		}
		// and it follows the chain from there
		for x := target + 1; x <= src.Head().Height(); x++ {
			if err := dst.AddBlock(src.Chain.GetBlockByHeight(x)); err != nil {
				t.Fatalf("fast-synced node refuses block %d: %v\nhistory:\n%s", x, err, h.Summary())
			}
		}
		if dst.Head().Hash() != src.Head().Hash() || dst.AppState.State.Root() != src.AppState.State.Root() || dst.AppState.IdentityState.Root() != src.AppState.IdentityState.Root() {
			t.Fatalf("fast-synced node does not reach the source's head/state")
		}
		evid.Count("fastsync.ok")
		if h.Flags["IdUpd"] > 0 {
			evid.Count("fastsync.across_identity_update")
			evid.NonTrivial("fs|" + h.Descriptor())
		}
		if back > 0 {
			evid.Count("fastsync.then_followed_blocks")
		}
	})
}

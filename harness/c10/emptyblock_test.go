package c10

import (
	"math/big"
	"testing"
	"time"

	"github.com/idena-network/idena-go/blockchain/attachments"
	"github.com/idena-network/idena-go/blockchain/types"
	"github.com/idena-network/idena-go/core/state"
	"pgregory.net/rapid"

	"verifharness/internal/evid"
	"verifharness/internal/sim"
)

// A fixed history of the class "an EMPTY identity-update block applies the pending undelegations" (the generated
// form of the class lives in TestPoolLifeCycles; this is the smallest member, kept as a regression): a1 delegates to
// a2 - an address that is no identity -, the pool a2 goes online, a validation ceremony passes (everybody passes), a1
// undelegates, and the round of the next delegation switch height ends without a proposal. The empty block applies the
// undelegation; a2 is no pool any more and must not stay online. For comparison the same history with a proposed block
// at the switch height runs first. The oracle is the one of the generated histories.
func TestUndelegationAppliedByEmptyBlock(t *testing.T) {
	rapid.Check(t, func(t *rapid.T) {
		for _, emptyAtSwitch := range []bool{false, true} {
			undelegationAtSwitchHeight(t, emptyAtSwitch)
		}
		evid.Eval()
		evid.Count("fixed.undelegation_applied_by_empty_block_history_replayed")
		evid.NonTrivial("fixed.undelegation_applied_by_empty_block")
	})
}

func undelegationAtSwitchHeight(t *rapid.T, emptyAtSwitch bool) {
	const rng = 4
	opt := sim.Options{MinActors: 4, MaxActors: 4, Replicas: 1, MaxReplicas: 1, Steps: 0, Params: func(p *sim.Params) {
		*p = sim.Params{KeySeed: 78, NActors: 4, Profile: "v12", SwitchRng: rng, DelegRng: rng, DiscrRng: rng, SnapRng: 1000, WellBehaved: 100,
			Start: time.Date(2030, 1, 5, 12, 0, 0, 0, time.UTC).Unix(), CeremonyIn: 100000, Interval: 3600, LotteryDur: 30, ShortDur: 30, LongDur: 30,
			States:   []state.IdentityState{state.Verified, state.Verified, state.Undefined, state.Verified},
			Balances: []*big.Int{sim.Dna(1000), sim.Dna(1000), sim.Dna(1000), sim.Dna(1000)},
			Stakes:   []*big.Int{sim.Dna(10), sim.Dna(10), big.NewInt(0), sim.Dna(10)}}
	}}
	h := sim.RunHistory(t, opt)
	w := h.W
	r := w.Replicas[0]
	a1, a2 := w.Actors[1], w.Actors[2]
	type key struct {
		a     *sim.Actor
		epoch uint16
	}
	nonce := map[key]uint32{}
	mk := func(a *sim.Actor, typ types.TxType, to *sim.Actor, payload []byte) *types.Transaction {
		epoch := r.AppState.State.Epoch()
		nonce[key{a, epoch}]++
		tx := &types.Transaction{Type: typ, Epoch: epoch, AccountNonce: nonce[key{a, epoch}], MaxFee: sim.Dna(100), Payload: payload}
		if to != nil {
			x := to.Addr
			tx.To = &x
		}
		s, err := types.SignTx(tx, a.Key)
		if err != nil {
			t.Fatal(err)
		}
		return s
	}
	block := func(empty bool, txs ...*types.Transaction) *types.Block {
		w.Advance(20 * time.Second)
		var proposer *sim.Actor
		vc := r.AppState.ValidatorsCache
		for _, a := range w.Actors {
			if vc.IsOnlineIdentity(a.Addr) || r.AppState.State.GodAddress() == a.Addr && vc.OnlineSize() == 0 {
				proposer = a
				break
			}
		}
		var blk *types.Block
		if proposer == nil || empty {
			blk = r.EmptyBlock()
		} else {
			tmp := &sim.Replica{W: w, Name: "proposer", Key: proposer.Key, Addr: proposer.Addr, Loc: time.UTC, DB: sim.CopyDB(r.DB), Ipfs: r.Ipfs}
			if err := tmp.Start(); err != nil {
				t.Fatal(err)
			}
			for _, tx := range txs {
				if err := tmp.Pool.AddInternalTx(tx); err != nil {
					t.Fatalf("scenario: the pool refuses %s: %v", sim.TxTypeNames[tx.Type], err)
				}
			}
			blk = tmp.Propose().Block
			if len(blk.Body.Transactions) != len(txs) {
				t.Fatalf("scenario: block %d holds %d of %d txs", blk.Height(), len(blk.Body.Transactions), len(txs))
			}
		}
		if err := r.AddBlock(blk); err != nil {
			t.Fatalf("block %s refused: %v", sim.BlockDesc(blk), err)
		}
		h.Blocks = append(h.Blocks, blk)
		w.NoteBlock(r, blk)
		checkRegistryAfterBlock(t, h, blk)
		return blk
	}
	wait := func(what string, max int, cond func() bool) {
		for i := 0; !cond(); i++ {
			if i > max {
				t.Fatalf("scenario: %s never happened\n%s", what, h.Summary())
			}
			block(false)
		}
	}
	block(false, mk(a1, types.DelegateTx, a2, nil))
	wait("a2 becomes a pool", 12, func() bool { return r.AppState.ValidatorsCache.IsPool(a2.Addr) })
	block(false, mk(a2, types.OnlineStatusTx, nil, attachments.CreateOnlineStatusAttachment(true)))
	wait("a2 goes online", 12, func() bool { return r.AppState.ValidatorsCache.IsOnlineIdentity(a2.Addr) })
	// the validation ceremony: the clock is put on every period boundary in turn
	wait("the epoch changes", 40, func() bool {
		if r.AppState.State.Epoch() > 0 {
			return true
		}
		if b := w.NextBoundary(r.ReadState()); !b.IsZero() && b.After(w.Now()) {
			w.SetNow(b)
		}
		return false
	})
	vc := r.AppState.ValidatorsCache
	if !vc.IsPool(a2.Addr) || !vc.IsOnlineIdentity(a2.Addr) || vc.IsValidated(a2.Addr) || vc.Delegator(a1.Addr) != a2.Addr {
		t.Fatalf("scenario: after the epoch change a2 is not an online pool of a1 any more\n%s", h.Summary())
	}
	// the undelegation is mined right after a switch height, so that it stays pending until the next one
	wait("a height right after a switch height", rng+1, func() bool { return r.Head().Height()%rng == 0 })
	block(false, mk(a1, types.UndelegateTx, nil, nil))
	if len(r.AppState.State.Delegations()) != 1 {
		t.Fatalf("scenario: the undelegation is not pending\n%s", h.Summary())
	}
	wait("the round of the switch height", rng+1, func() bool { return (r.Head().Height()+1)%rng == 0 })
	if !r.AppState.ValidatorsCache.IsOnlineIdentity(a2.Addr) {
		t.Fatalf("scenario: a2 went offline before the switch height\n%s", h.Summary())
	}
	blk := block(emptyAtSwitch)
	if blk.IsEmpty() != emptyAtSwitch || !blk.Header.Flags().HasFlag(types.IdentityUpdate) || r.AppState.ValidatorsCache.IsPool(a2.Addr) {
		t.Fatalf("scenario: %s does not apply the undelegation\n%s", sim.BlockDesc(blk), h.Summary())
	}
	for i := 0; i < 3; i++ {
		block(false)
	}
}

package c10

import (
	"math/big"
	"testing"
	"time"

	"github.com/idena-network/idena-go/blockchain/attachments"
	"github.com/idena-network/idena-go/blockchain/types"
	"github.com/idena-network/idena-go/core/state"
	"pgregory.net/rapid"

	"verifharness/internal/evid"
	"verifharness/internal/sim"
)

// The recorded finding c10.status-switch-applied-with-stale-pool-view as a fixed history (shrunk from a thorough run of
// TestRegistryConsistentAlongHistories): a0 delegates to a1, the pool a1 goes online, then ONE block carries
// KillDelegator(a1->a0), Kill(a1) and OnlineStatus(a1): a1 is terminated and has lost its only delegator, yet its
// status switch is applied against the pool view of the previous block and a1 ends up online. The oracle is the one of
// the generated histories; while the finding is listed as known it is reported as such, and the test fails again if the
// same history ever breaks the registry in another way.
func TestKnownStalePoolSwitch(t *testing.T) {
	rapid.Check(t, func(t *rapid.T) {
		opt := sim.Options{MinActors: 3, MaxActors: 3, Replicas: 1, MaxReplicas: 1, Steps: 0, Params: func(p *sim.Params) {
			*p = sim.Params{KeySeed: 77, NActors: 3, Profile: "v12", SwitchRng: 2, DelegRng: 2, DiscrRng: 3, SnapRng: 1000,
				Start: time.Date(2030, 1, 5, 12, 0, 0, 0, time.UTC).Unix(), CeremonyIn: 100000, Interval: 3600, LotteryDur: 30, ShortDur: 30, LongDur: 30,
				States:   []state.IdentityState{state.Verified, state.Verified, state.Verified},
				Balances: []*big.Int{sim.Dna(1000), sim.Dna(1000), sim.Dna(1000)},
				Stakes:   []*big.Int{sim.Dna(10), sim.Dna(10), sim.Dna(10)}}
		}}
		h := sim.RunHistory(t, opt)
		w := h.W
		r := w.Replicas[0]
		a0, a1 := w.Actors[0], w.Actors[1]
		nonce := map[*sim.Actor]uint32{}
		mk := func(a *sim.Actor, typ types.TxType, to *sim.Actor, payload []byte) *types.Transaction {
			nonce[a]++
			tx := &types.Transaction{Type: typ, AccountNonce: nonce[a], MaxFee: sim.Dna(100), Payload: payload}
			if to != nil {
				x := to.Addr
				tx.To = &x
			}
			s, err := types.SignTx(tx, a.Key)
			if err != nil {
				t.Fatal(err)
			}
			return s
		}
		block := func(txs ...*types.Transaction) {
			w.Advance(20 * time.Second)
			var proposer *sim.Actor
			vc := r.AppState.ValidatorsCache
			for _, a := range w.Actors {
				if vc.IsOnlineIdentity(a.Addr) || r.AppState.State.GodAddress() == a.Addr && vc.OnlineSize() == 0 {
					proposer = a
					break
				}
			}
			var blk *types.Block
			if proposer == nil {
				blk = r.EmptyBlock()
			} else {
				tmp := &sim.Replica{W: w, Name: "proposer", Key: proposer.Key, Addr: proposer.Addr, Loc: time.UTC, DB: sim.CopyDB(r.DB), Ipfs: r.Ipfs}
				if err := tmp.Start(); err != nil {
					t.Fatal(err)
				}
				for _, tx := range txs {
					if err := tmp.Pool.AddInternalTx(tx); err != nil {
						t.Fatalf("scenario: the pool refuses %s: %v", sim.TxTypeNames[tx.Type], err)
					}
				}
				blk = tmp.Propose().Block
				if len(blk.Body.Transactions) != len(txs) {
					t.Fatalf("scenario: block %d holds %d of %d txs", blk.Height(), len(blk.Body.Transactions), len(txs))
				}
			}
			if err := r.AddBlock(blk); err != nil {
				t.Fatalf("block %s refused: %v", sim.BlockDesc(blk), err)
			}
			h.Blocks = append(h.Blocks, blk)
			w.NoteBlock(r, blk)
			checkRegistryAfterBlock(t, h, blk)
		}
		wait := func(what string, cond func() bool) {
			for i := 0; !cond(); i++ {
				if i > 12 {
					t.Fatalf("scenario: %s never happened", what)
				}
				block()
			}
		}
		block(mk(a0, types.DelegateTx, a1, nil))
		wait("a1 becomes a pool", func() bool { return r.AppState.ValidatorsCache.IsPool(a1.Addr) })
		block(mk(a1, types.OnlineStatusTx, nil, attachments.CreateOnlineStatusAttachment(true)))
		wait("a1 goes online", func() bool { return r.AppState.ValidatorsCache.IsOnlineIdentity(a1.Addr) })
		block(mk(a1, types.KillDelegatorTx, a0, nil), mk(a1, types.KillTx, nil, nil), mk(a1, types.OnlineStatusTx, nil, attachments.CreateOnlineStatusAttachment(false)))
		for i := 0; i < 5; i++ {
			block()
		}
		evid.Eval()
		evid.Count("known.stale_pool_switch_history_replayed")
		evid.NonTrivial("known.stale_pool_switch_history")
	})
}

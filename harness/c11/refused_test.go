package c11

import (
	"bytes"
	"fmt"
	"testing"
	"time"

	"github.com/idena-network/idena-go/blockchain/types"
	"github.com/idena-network/idena-go/core/state"
	"github.com/idena-network/idena-go/core/state/snapshot"
	dbm "github.com/tendermint/tm-db"
	"pgregory.net/rapid"

	"verifharness/internal/evid"
	"verifharness/internal/sim"
)

// installFaults are the things that go wrong at the installation stage of a fast sync on a LIVE node (headers and
// diffs of the range already consumed): the downloaded archive is cut short / has a flipped bit / has a zeroed run /
// is the snapshot of another height than the manifest says (all to be refused by the tree import), or the forced
// identity-state version of the snapshot height is not saved (fastSync.postConsuming ignores the error of
// SaveForcedVersion), which the switch has to refuse after the tree import already succeeded.
var installFaults = []string{"forced-version-lost", "forced-version-lost", "forced-version-lost", "archive-cut", "archive-flip", "archive-zero-run", "other-snapshot"}

// consumeRange is the first part of sim.FastSync (fastSync.preConsuming + processBatch/applyDeferredBlocks without the
// network): preliminary copy of the identity state (or the stored one, when a preliminary head exists), then per
// header of (from, target]: header validation, replay of the diff the source serves with the root check, commit when
// non-empty, AddHeaderUnsafe, diff stored.
func consumeRange(src, dst *sim.Replica, target uint64) (*state.IdentityStateDB, string, error) {
	from, prev, how := dst.Head().Height(), dst.Head(), "fresh"
	var ids *state.IdentityStateDB
	var err error
	if ph := dst.Chain.PreliminaryHead; ph != nil {
		if ids, err = dst.AppState.IdentityState.LoadPreliminary(ph.Height()); err != nil {
			// fastSync.dropPreliminaries
			dst.Chain.RemovePreliminaryHead(nil)
			dst.AppState.IdentityState.DropPreliminary()
			ids, how = nil, "dropped"
		} else {
			prev, from, how = ph, ph.Height(), "resumed"
			if target < from {
				return nil, how, fmt.Errorf("preliminary head %d is above the target %d", from, target)
			}
		}
	}
	if ids == nil {
		dst.Chain.PreliminaryHead = dst.Head()
		if ids, err = dst.AppState.IdentityState.CreatePreliminaryCopy(from); err != nil {
			return nil, how, fmt.Errorf("CreatePreliminaryCopy: %w", err)
		}
	}
	for h := from + 1; h <= target; h++ {
		hdr := src.Chain.GetBlockHeaderByHeight(h)
		if hdr == nil {
			return nil, how, fmt.Errorf("source has no header %d", h)
		}
		if err := dst.Chain.ValidateHeader(hdr, prev); err != nil {
			return nil, how, fmt.Errorf("header %d: %w", h, err)
		}
		diff := src.Chain.GetIdentityDiff(h)
		ids.AddDiff(h, diff)
		if ids.Root() != hdr.IdentityRoot() {
			ids.Reset()
			return nil, how, fmt.Errorf("identity root is invalid at %d", h)
		}
		if !diff.Empty() {
			ids.CommitTree(int64(h))
		}
		if err := dst.Chain.AddHeaderUnsafe(hdr); err != nil {
			return nil, how, err
		}
		dst.Chain.WriteIdentityStateDiff(h, diff)
		prev = hdr
	}
	return ids, how, nil
}

// addedOrChanged lists the records of db that are not in the image before (deletions are not listed: the cleanup
// of the state a COMPLETED earlier sync replaced runs in the background of the node and may still be deleting).
func addedOrChanged(before map[string]string, db dbm.DB) []string {
	var ks []string
	for k, v := range fullImage(db) {
		if w, ok := before[k]; !ok || w != v {
			ks = append(ks, fmt.Sprintf("%x", k))
		}
	}
	sortStrings(ks)
	return ks
}

// A refused installation on a live node leaves no partial state behind. One node syncs fast up to four times in a row;
// before two thirds of the syncs an installation attempt with a drawn fault (installFaults) runs first. Whatever stage
// refuses it - the tree import or, after a complete tree import, the switch - the node's database must hold no record
// that was not there before the import began, head and roots must be untouched (also after reopening the node from its
// database, in half of the cases), and the honest installation that follows (the same snapshot, resumed from the
// stored preliminary head) must succeed and give the source's head, roots and, in the end, ledger. An attempt whose
// fault turns out harmless (damage in padding, version present anyway) must end like an honest sync.
func TestRefusedInstallations(t *testing.T) {
	rapid.Check(t, func(t *rapid.T) {
		steps := rapid.IntRange(8, 18).Draw(t, "steps")
		earlyAt := rapid.IntRange(0, 3).Draw(t, "syncFrom")
		var early dbm.DB
		opt := sim.Options{MinActors: 4, MaxActors: 8, Replicas: 1, MaxReplicas: 3, Steps: steps, MaxTxPerStep: 6,
			OnlyTypes: []types.TxType{types.OnlineStatusTx, types.OnlineStatusTx, types.DelegateTx, types.UndelegateTx, types.KillTx, types.KillDelegatorTx,
				types.InviteTx, types.ActivationTx, types.SendTx, types.SendTx, types.SendTx, types.ReplenishStakeTx, types.ChangeGodAddressTx, types.DeployContractTx}}
		opt.BetweenBlocks = func(h *sim.History) {
			if len(h.Blocks) == earlyAt && early == nil {
				early = sim.CopyDB(h.W.Replicas[0].DB)
			}
		}
		h := sim.RunHistory(t, opt)
		w := h.W
		src := w.Replicas[0]
		n := &sim.Replica{W: w, Name: "syncing", Key: w.Actors[1].Key, Addr: w.Actors[1].Addr, DB: early, Ipfs: src.Ipfs, Loc: time.UTC}
		if err := n.Start(); err != nil {
			t.Fatalf("start: %v", err)
		}
		syncs, desc := 0, ""
		for n.Head().Height() < src.Head().Height() && syncs < 4 {
			head := n.Head()
			target := head.Height() + uint64(rapid.SampledFrom([]int{1, 2, 3, 5, 8}).Draw(t, "gap"))
			if target > src.Head().Height() {
				target = src.Head().Height()
			}
			if rapid.IntRange(0, 2).Draw(t, "faultFirst") != 0 {
				fault := rapid.SampledFrom(installFaults).Draw(t, "fault")
				if fault == "forced-version-lost" {
					// a snapshot height whose block changes identities has its version in the preliminary tree anyway:
					// prefer the nearest height below without a diff
					for x := target; x > head.Height(); x-- {
						if src.Chain.GetIdentityDiff(x).Empty() {
							target = x
							break
						}
					}
				}
				evid.Eval()
				ids, how, err := consumeRange(src, n, target)
				if err != nil {
					t.Fatalf("fast sync %d -> %d (sync #%d, %s): consuming the honest range fails: %v\nhistory:\n%s", head.Height(), target, syncs+1, how, err, h.Summary())
				}
				var buf bytes.Buffer
				snapHeight := target
				if fault == "other-snapshot" {
					// the manifest lies about what the archive is
					for x := target - 1; x >= 1 && x+3 > target; x-- {
						if src.AppState.State.HasVersion(x) && src.Chain.GetBlockHeaderByHeight(x).Root() != src.Chain.GetBlockHeaderByHeight(target).Root() {
							snapHeight = x
							break
						}
					}
				}
				root, err := src.AppState.State.WriteSnapshot2(snapHeight, &buf)
				if err != nil {
					t.Fatalf("WriteSnapshot2(%d): %v", snapHeight, err)
				}
				archive := buf.Bytes()
				switch fault {
				case "archive-cut":
					archive = archive[:rapid.IntRange(0, len(archive)-1).Draw(t, "cutAt")]
				case "archive-flip":
					archive = append([]byte{}, archive...)
					archive[rapid.IntRange(0, len(archive)-1).Draw(t, "flipAt")] ^= byte(1 << uint(rapid.IntRange(0, 7).Draw(t, "bit")))
				case "archive-zero-run":
					archive = append([]byte{}, archive...)
					off := rapid.IntRange(0, len(archive)-1).Draw(t, "zeroAt")
					for j, run := off, rapid.IntRange(1, 64).Draw(t, "run"); j < len(archive) && j < off+run; j++ {
						archive[j] = 0
					}
				}
				before := fullImage(n.DB)
				where := fmt.Sprintf("installation %d -> %d (sync #%d of this node, range %s, fault %s)", head.Height(), target, syncs+1, how, fault)
				stage := ""
				err = n.AppState.State.RecoverSnapshot2(target, n.Chain.PreliminaryHead.Root(), bytes.NewReader(archive))
				if err != nil {
					stage = "import"
				} else {
					if fault != "forced-version-lost" {
						ids.SaveForcedVersion(target) // fastSync.postConsuming does not look at its error either
					}
					if err = n.Chain.AtomicSwitchToPreliminary(&snapshot.Manifest{Height: target, Root: root}); err != nil {
						stage = "switch"
					}
				}
				hdr := src.Chain.GetBlockHeaderByHeight(target)
				if stage == "" {
					// the fault was harmless: this was an honest installation
					if n.Head().Hash() != hdr.Hash() || n.AppState.State.Root() != hdr.Root() || n.AppState.IdentityState.Root() != hdr.IdentityRoot() {
						t.Fatalf("%s was accepted but head/roots differ from the source's header %d", where, target)
					}
					evid.Count("refused.fault_harmless." + fault)
					syncs++
					desc += "h;"
					continue
				}
				if stage == "switch" && fault != "forced-version-lost" {
					t.Fatalf("%s: the switch refuses an installation whose tree import was accepted and whose forced version was saved: %v", where, err)
				}
				if left := addedOrChanged(before, n.DB); len(left) > 0 {
					t.Fatalf("%s was refused at the %s stage (%v) but left %d records in the database of the node that were not there before the import began, e.g. %s",
						where, stage, err, len(left), left[0])
				}
				intact := func(when string) {
					if n.Head().Hash() != head.Hash() || n.Head().Root() != n.AppState.State.Root() || n.Head().IdentityRoot() != n.AppState.IdentityState.Root() {
						t.Fatalf("%s was refused at the %s stage (%v) but %s the node is not where it was (head %d, wanted %d; state root matches head: %v; identity root matches head: %v)",
							where, stage, err, when, n.Head().Height(), head.Height(), n.Head().Root() == n.AppState.State.Root(), n.Head().IdentityRoot() == n.AppState.IdentityState.Root())
					}
				}
				intact("right after it")
				evid.Count("refused.at_" + stage + "." + fault)
				if rapid.Bool().Draw(t, "reopen") {
					if err := n.Restart(); err != nil {
						t.Fatalf("%s was refused at the %s stage; the node does not start any more: %v", where, stage, err)
					}
					intact("after reopening it from its database")
					evid.Count("refused.then_reopened")
				}
				desc += fmt.Sprintf("r-%s-%s;", stage, fault)
				if stage == "switch" {
					evid.Count("refused.at_switch_after_complete_tree_import")
					evid.NonTrivial(fmt.Sprintf("refused|%s|%d|%d|%s", h.Descriptor(), syncs, target-head.Height(), how))
				}
			}
			if _, err := sim.FastSync(src, n, target, nil); err != nil {
				t.Fatalf("fast sync %d -> %d (sync #%d of this node; before it: %s) fails against the honest source: %v\nhistory:\n%s", head.Height(), target, syncs+1, desc, err, h.Summary())
			}
			syncs++
			desc += "s;"
			hdr := src.Chain.GetBlockHeaderByHeight(target)
			check := func(when string) {
				if n.Head().Hash() != hdr.Hash() || n.AppState.State.Root() != hdr.Root() || n.AppState.IdentityState.Root() != hdr.IdentityRoot() {
					t.Fatalf("%s fast sync #%d (%d -> %d; history of this node: %s) head/roots differ from the source's header", when, syncs, head.Height(), target, desc)
				}
			}
			check("after")
			if err := n.Restart(); err != nil {
				t.Fatalf("the node does not start after its fast sync #%d (%d -> %d; %s): %v", syncs, head.Height(), target, desc, err)
			}
			check("after a restart following")
		}
		for x := n.Head().Height() + 1; x <= src.Head().Height(); x++ {
			if err := n.AddBlock(src.Chain.GetBlockByHeight(x)); err != nil {
				t.Fatalf("the node refuses block %d after %d fast syncs (%s): %v", x, syncs, desc, err)
			}
		}
		if d := sim.DiffImages(sim.Image(src.ReadState()), sim.Image(n.ReadState()), w.Name); len(d) > 0 {
			t.Fatalf("ledger differs from the source after %d fast syncs with refused installations (%s): %v", syncs, desc, d)
		}
		evid.Sample("refused", desc)
	})
}

package c11

import (
	"bytes"
	"context"
	"errors"
	"fmt"
	"io"
	"math/big"
	"os"
	"testing"
	"time"

	mapset "github.com/deckarep/golang-set"
	"github.com/idena-network/idena-go/blockchain/attachments"
	"github.com/idena-network/idena-go/blockchain/types"
	"github.com/idena-network/idena-go/blockchain/validation"
	"github.com/idena-network/idena-go/common"
	"github.com/idena-network/idena-go/common/eventbus"
	"github.com/idena-network/idena-go/config"
	"github.com/idena-network/idena-go/core/state"
	"github.com/idena-network/idena-go/core/state/snapshot"
	"github.com/idena-network/idena-go/core/upgrade"
	"github.com/idena-network/idena-go/ipfs"
	"github.com/idena-network/idena-go/keystore"
	"github.com/idena-network/idena-go/log"
	"github.com/idena-network/idena-go/protocol"
	"github.com/idena-network/idena-go/subscriptions"
	dbm "github.com/tendermint/tm-db"
	"pgregory.net/rapid"

	"verifharness/internal/evid"
	"verifharness/internal/sim"
)

// snapIpfs is the ipfs proxy of the syncing node's snapshot manager: snapshot archives are found by the cid of
// their manifest; a transfer can break after a number of bytes. Everything else is the in-memory proxy.
type snapIpfs struct {
	ipfs.Proxy
	files   map[string][]byte
	breakAt map[string]int
}

func (p *snapIpfs) LoadTo(key []byte, to io.Writer, ctx context.Context, onLoading func(size, loaded int64)) error {
	data, ok := p.files[string(key)]
	if !ok {
		return os.ErrNotExist
	}
	if n, ok := p.breakAt[string(key)]; ok {
		to.Write(data[:n])
		return errors.New("transfer interrupted")
	}
	_, err := to.Write(data)
	return err
}

func (p *snapIpfs) Unpin(key []byte) error { return nil }

// manifestKinds: who announces the snapshot the node is going to install, and what the archive behind the cid is.
// A manifest (cid, root, height) is an unauthenticated message of a peer; the only thing that ties the installed state
// to the chain is the state root of the canonical header of that height, which the node has verified itself.
//
//	other-branch   an honest node that is on another branch at the manifest height (its own blocks above a common
//	               ancestor): intact archive of ITS state, announced with ITS root
//	other-height   intact archive of the canonical state of a neighbouring height, announced with that state's root
//	               under the manifest height
//	hostile-edit   intact archive of the canonical parent state plus the publisher's own edits (coins minted, an
//	               account emptied, an identity killed), committed as the manifest height, announced with its own root
//	lying-root     the canonical archive announced with another root
//	damaged        the canonical archive, honestly announced, damaged in transit (cut, bit flip, zero run, altered key
//	               of an inner node)
//	transfer-fails the canonical archive, honestly announced; the download breaks
var manifestKinds = []string{"other-branch", "other-branch", "other-branch", "other-height", "other-height", "hostile-edit", "hostile-edit", "lying-root", "damaged", "transfer-fails"}

var manifestTxTypes = []types.TxType{types.OnlineStatusTx, types.OnlineStatusTx, types.OnlineStatusTx, types.DelegateTx, types.UndelegateTx, types.KillTx, types.InviteTx,
	types.SendTx, types.SendTx, types.SendTx, types.KillDelegatorTx, types.ReplenishStakeTx, types.BurnTx}

type announced struct {
	kind     string
	manifest *snapshot.Manifest
	archive  []byte
	breakAt  int  // >= 0: the transfer breaks after so many bytes
	foreign  bool // an intact archive of a state that is NOT the canonical state of the manifest height
}

type fataler interface {
	Fatalf(format string, args ...interface{})
}

// manifestRig is a syncing node n next to its honest source a (which holds the canonical chain and the certificates
// of its blocks), the store the node's snapshot manager downloads from, and the objects a fast sync applier needs.
type manifestRig struct {
	t        fataler
	w        *sim.World
	a, n     *sim.Replica
	certs    map[common.Hash]*types.BlockCert
	store    *snapIpfs
	smCfg    config.Config
	smDb     dbm.DB
	ks       *keystore.KeyStore
	subs     *subscriptions.Manager
	head0    uint64
	summary  func() string
	dropCert func() bool // whether the source withholds the certificate of an ordinary block
	reopen   func() bool // whether the node is reopened from its database after a refusal
	desc     string
}

func newManifestRig(t fataler, w *sim.World, a, n *sim.Replica, certs map[common.Hash]*types.BlockCert, summary func() string) *manifestRig {
	tmp := os.Getenv("VERIF_TMP")
	if tmp == "" {
		tmp = os.TempDir()
	}
	g := &manifestRig{t: t, w: w, a: a, n: n, certs: certs, summary: summary, head0: n.Head().Height(), smDb: dbm.NewMemDB(),
		store:    &snapIpfs{Proxy: a.Ipfs, files: map[string][]byte{}, breakAt: map[string]int{}},
		dropCert: func() bool { return false }, reopen: func() bool { return false }}
	g.smCfg = *n.Cfg
	g.smCfg.DataDir = tmp + "/c11-manifests"
	g.ks = keystore.NewKeyStore(tmp+"/ks-c11-manifests", keystore.StandardScryptN, keystore.StandardScryptP)
	g.subs, _ = subscriptions.NewManager(tmp + "/subs-c11-manifests")
	return g
}

func (g *manifestRig) hasCert(x uint64) bool {
	hdr := g.a.Chain.GetBlockHeaderByHeight(x)
	return hdr != nil && !g.certs[hdr.Hash()].Empty()
}

// needsCert: blocks the applier does not take without a certificate.
func (g *manifestRig) needsCert(x uint64) bool {
	hdr := g.a.Chain.GetBlockHeaderByHeight(x)
	return hdr != nil && (hdr.Flags().HasFlag(types.IdentityUpdate|types.Snapshot|types.NewGenesis) || hdr.ProposedHeader != nil && hdr.ProposedHeader.Upgrade > 0)
}

// canonical is the source's export of its state at height x.
func (g *manifestRig) canonical(x uint64) (common.Hash, []byte) {
	var buf bytes.Buffer
	root, err := g.a.AppState.State.WriteSnapshot2(x, &buf)
	if err != nil {
		g.t.Fatalf("source: WriteSnapshot2(%d): %v", x, err)
	}
	if hr := g.a.Chain.GetBlockHeaderByHeight(x).Root(); root != hr {
		g.t.Fatalf("source: export of height %d has root %x, header has %x", x, root, hr)
	}
	return root, buf.Bytes()
}

// announce makes the manifest known to the node (through the wire encoding) and the archive downloadable.
func (g *manifestRig) announce(p *announced) {
	wire, err := p.manifest.ToBytes()
	dec := new(snapshot.Manifest)
	if err != nil || dec.FromBytes(wire) != nil {
		g.t.Fatalf("manifest encoding: %v", err)
	}
	p.manifest = dec
	g.store.files[string(dec.CidV2)] = p.archive
	if p.breakAt >= 0 {
		g.store.breakAt[string(dec.CidV2)] = p.breakAt
	}
}

// attempt is one Downloader.Load with a fast sync applier for the given manifest, followed by the oracle: installed
// exactly the canonical state of the manifest height, or refused without a trace.
func (g *manifestRig) attempt(i int, p *announced) (installed bool) {
	t, a, n := g.t, g.a, g.n
	evid.Eval()
	headBefore := n.Head()
	canonHdr := a.Chain.GetBlockHeaderByHeight(p.manifest.Height)
	where := fmt.Sprintf("attempt #%d: fast sync %d -> %d with a manifest of kind %s (root %x, canonical root of that height %x)", i+1, g.head0, p.manifest.Height, p.kind, p.manifest.Root[:6], canonHdr.Root().Bytes()[:6])
	sm := state.NewSnapshotManager(g.smDb, n.AppState.State, eventbus.New(), g.store, &g.smCfg)
	fs := protocol.NewFastSync(nil, log.New(), n.Chain, n.Ipfs, n.AppState, mapset.NewSet(), p.manifest, sm, n.Bus, n.Addr, g.ks, g.subs, upgrade.NewUpgrader(n.Cfg, n.AppState, n.DB))
	from, err := fs.VerifC12PreConsuming(n.Head())
	if err != nil {
		t.Fatalf("%s: preConsuming: %v", where, err)
	}
	if from > g.head0+1 {
		evid.Count("manifest.attempt_resumed_from_preliminary_head")
	}
	if from <= p.manifest.Height {
		r := &protocol.VerifBlockRange{BatchId: 1}
		for hh := from; hh <= p.manifest.Height; hh++ {
			hdr := a.Chain.GetBlockHeaderByHeight(hh)
			cert := g.certs[hdr.Hash()]
			required := g.needsCert(hh) || hh == p.manifest.Height
			if !required && g.dropCert() {
				cert = nil // certificates of ordinary blocks are not kept forever
			}
			if required && cert.Empty() {
				t.Fatalf("%s: no certificate for block %d (%s)", where, hh, sim.FlagNames(hdr.Flags()))
			}
			r.Blocks = append(r.Blocks, protocol.VerifC12NewRangeItem(hdr, cert, a.Chain.GetIdentityDiff(hh)))
		}
		wire, err := r.ToBytes()
		dec := new(protocol.VerifBlockRange)
		if err != nil || dec.FromBytes(wire) != nil || !dec.IsValid() || len(dec.Blocks) != len(r.Blocks) {
			t.Fatalf("%s: the source's range does not pass its own encoding and the gate: %v", where, err)
		}
		func() {
			defer func() {
				if r := recover(); r != nil {
					t.Fatalf("%s: the applier panics on the honest canonical range (it bans the serving peer when it refuses a block): %v\n%s", where, r, g.summary())
				}
			}()
			for j, it := range dec.Blocks {
				if err := fs.VerifC12ValidateHeader(it); err != nil {
					t.Fatalf("%s: fast sync refuses the honest header %d: %v\n%s", where, from+uint64(j), err, g.summary())
				}
				fs.VerifC11Defer(it)
				if _, cert, _ := protocol.VerifC12RangeItem(it); !cert.Empty() {
					if at, err := fs.VerifC12ApplyDeferredBlocks(); err != nil {
						t.Fatalf("%s: fast sync fails to apply the honest range at %d: %v\n%s", where, at, err, g.summary())
					}
				}
			}
		}()
	}
	if n.Chain.PreliminaryHead == nil || n.Chain.PreliminaryHead.Hash() != canonHdr.Hash() {
		t.Fatalf("%s: after the honest range the preliminary head is not the canonical header %d", where, p.manifest.Height)
	}
	before := fullImage(n.DB)
	err = fs.VerifC11PostConsuming()
	if err == nil {
		// installed: it must be exactly the canonical state of that height
		if n.Head().Hash() != canonHdr.Hash() {
			t.Fatalf("%s: the snapshot was installed but the head of the node (%d) is not the canonical header %d", where, n.Head().Height(), canonHdr.Height())
		}
		if n.AppState.State.Root() != n.Head().Root() {
			t.Fatalf("%s: the snapshot was installed (no error, fast sync completed), but it does not reproduce the canonical state: the node is at head %d whose header commits to state root %x, its state has root %x (intact archive of another state: %v)",
				where, n.Head().Height(), n.Head().Root(), n.AppState.State.Root(), p.foreign)
		}
		if n.AppState.IdentityState.Root() != n.Head().IdentityRoot() {
			t.Fatalf("%s: the snapshot was installed, but the identity state root %x is not the one of the head %x", where, n.AppState.IdentityState.Root(), n.Head().IdentityRoot())
		}
		ro, err := a.AppState.State.Readonly(int64(canonHdr.Height()))
		if err != nil {
			t.Fatalf("source: Readonly(%d): %v", canonHdr.Height(), err)
		}
		if got, want := stateDump(n.AppState.State), stateDump(ro); got != want {
			t.Fatalf("%s: the snapshot was installed but the records of the node differ from the source's at height %d:\n--- node\n%s--- source\n%s", where, canonHdr.Height(), got, want)
		}
		_, wantArchive := g.canonical(canonHdr.Height())
		var again bytes.Buffer
		if _, err := n.AppState.State.WriteSnapshot2(canonHdr.Height(), &again); err != nil {
			t.Fatalf("%s: the node cannot export the state it installed: %v", where, err)
		}
		if !bytes.Equal(again.Bytes(), wantArchive) {
			t.Fatalf("%s: the snapshot was installed with the canonical root and records, but the installed tree is not the canonical one: the node's own export of height %d differs from the source's; %s",
				where, canonHdr.Height(), archiveDiff(again.Bytes(), wantArchive))
		}
		evid.Count("manifest." + p.kind + ".installed_canonical_state")
		g.desc += "i-" + p.kind + ";"
		return true
	}
	// refused: nothing may have changed
	intact := func(when string) {
		if n.Head().Hash() != headBefore.Hash() || n.Head().Root() != n.AppState.State.Root() || n.Head().IdentityRoot() != n.AppState.IdentityState.Root() {
			t.Fatalf("%s was refused (%v) but %s the node is not where it was (head %d, wanted %d; state root matches head: %v; identity root matches head: %v)",
				where, err, when, n.Head().Height(), headBefore.Height(), n.Head().Root() == n.AppState.State.Root(), n.Head().IdentityRoot() == n.AppState.IdentityState.Root())
		}
	}
	intact("right after it")
	if left := addedOrChanged(before, n.DB); len(left) > 0 {
		t.Fatalf("%s was refused (%v) but left %d records in the database of the node that were not there before the import began, e.g. %s", where, err, len(left), left[0])
	}
	if p.kind == "honest" {
		t.Fatalf("%s: the honest manifest with the intact canonical archive is refused: %v\n%s", where, err, g.summary())
	}
	evid.Count("manifest." + p.kind + ".refused_clean")
	if p.foreign {
		evid.Count("manifest.foreign_intact_snapshot_refused")
	}
	g.desc += "r-" + p.kind + ";"
	if g.reopen() {
		if err := n.Restart(); err != nil {
			t.Fatalf("%s was refused; the node does not start any more: %v", where, err)
		}
		intact("after reopening it from its database")
		evid.Count("manifest.refused_then_reopened")
	}
	return false
}

// finish: the node, reopened, is where the installation left it and follows the rest of the chain to the source's ledger.
func (g *manifestRig) finish() {
	t, a, n := g.t, g.a, g.n
	final := n.Head().Height()
	if err := n.Restart(); err != nil {
		t.Fatalf("the node does not start after the installation (%s): %v", g.desc, err)
	}
	if n.Head().Height() != final || n.Head().Root() != n.AppState.State.Root() || n.Head().IdentityRoot() != n.AppState.IdentityState.Root() {
		t.Fatalf("after the installation (%s) and a restart the node is at %d (installed %d), state root matches head: %v, identity root matches head: %v",
			g.desc, n.Head().Height(), final, n.Head().Root() == n.AppState.State.Root(), n.Head().IdentityRoot() == n.AppState.IdentityState.Root())
	}
	for x := n.Head().Height() + 1; x <= a.Head().Height(); x++ {
		if err := n.AddBlock(a.Chain.GetBlockByHeight(x)); err != nil {
			t.Fatalf("the node refuses the canonical block %d after the installation (%s): %v", x, g.desc, err)
		}
		evid.Count("manifest.blocks_followed_after_installation")
	}
	if d := sim.DiffImages(sim.Image(a.ReadState()), sim.Image(n.ReadState()), g.w.Name); len(d) > 0 {
		t.Fatalf("ledger differs from the source after the installation (%s): %v", g.desc, d)
	}
}

// TestFastSyncForeignManifests drives the real installation route of protocol/fast.go (a new applier per attempt as
// Downloader.Load makes one: preConsuming, the honest canonical range through the wire encoding, the gate,
// validateHeader, applyDeferredBlocks, then postConsuming = SnapshotManager.DownloadSnapshot, RecoverSnapshot2,
// SaveForcedVersion, AtomicSwitchToPreliminary) with manifests that are not the canonical ones. Whatever is announced:
// after postConsuming the node either has installed exactly the canonical state of the manifest height (head = the
// canonical header, state root and identity root = the roots in that header, records = the source's records at that
// height, a new export = the source's export) or it has refused: head, roots untouched and no record in its database
// that was not there before the import began. The honest manifest that follows (same or a later height, resumed from
// the stored preliminary head) must be installed, and the node must follow the rest of the chain to the source's ledger.
func TestFastSyncForeignManifests(t *testing.T) {
	rapid.Check(t, func(t *rapid.T) {
		evid.Eval()
		splitAt := rapid.IntRange(1, 4).Draw(t, "splitAfterBlocks")
		var early dbm.DB
		certs := map[common.Hash]*types.BlockCert{}
		h := sim.RunHistory(t, sim.Options{MinActors: 4, MaxActors: 8, Replicas: 1, MaxReplicas: 3, Steps: splitAt + rapid.IntRange(4, 12).Draw(t, "rangeLen"), MaxTxPerStep: 4, OnlyTypes: manifestTxTypes,
			Params: func(p *sim.Params) {
				if rapid.IntRange(0, 3).Draw(t, "ceremonySoon") != 3 {
					p.CeremonyIn = 100000
				}
				for i := range p.States {
					if i > 0 && i < 5 {
						p.States[i] = state.Verified
						p.Stakes[i] = sim.Dna(int64(10 + i))
						p.Balances[i] = sim.Dna(1000)
					}
				}
			},
			BetweenBlocks: func(h *sim.History) {
				if len(h.Blocks) != 0 {
					return
				}
				base := h.W.Replicas[0]
				st := base.ReadState()
				for _, a := range h.W.Actors {
					if !st.ValidatorsCache.IsValidated(a.Addr) || rapid.IntRange(0, 2).Draw(t, "onlineAtStart") == 2 {
						continue
					}
					tx, err := types.SignTx(&types.Transaction{Type: types.OnlineStatusTx, Epoch: st.State.Epoch(), AccountNonce: base.AppState.NonceCache.GetNonce(a.Addr, st.State.Epoch()) + 1,
						MaxFee: sim.Dna(100), Payload: attachments.CreateOnlineStatusAttachment(true)}, a.Key)
					if err == nil {
						for _, r := range h.W.Replicas {
							r.Pool.AddExternalTxs(validation.MempoolTx, tx)
						}
					}
				}
			},
			BeforeDeliver: func(h *sim.History, proposer *sim.Replica, blk *types.Block) bool {
				// the committee certifies every block (votes are cast before the block is inserted)
				certs[blk.Hash()] = h.W.MakeCert(h.W.Replicas[0], blk, sim.CertValid)
				return true
			},
			AfterBlock: func(h *sim.History, blk *types.Block) {
				if len(h.Blocks) == splitAt {
					early = sim.CopyDB(h.W.Replicas[0].DB)
				}
			}})
		w := h.W
		a := w.Replicas[0]
		if early == nil {
			t.Fatalf("no early copy taken")
		}
		n := &sim.Replica{W: w, Name: "syncing", Key: w.Actors[1].Key, Addr: w.Actors[1].Addr, DB: sim.CopyDB(early), Ipfs: a.Ipfs, Loc: time.UTC}
		if err := n.Start(); err != nil {
			t.Fatalf("start: %v", err)
		}
		g := newManifestRig(t, w, a, n, certs, h.Summary)
		g.dropCert = func() bool { return rapid.IntRange(0, 2).Draw(t, "serveCert") == 0 }
		g.reopen = func() bool { return rapid.IntRange(0, 2).Draw(t, "reopen") == 0 }
		head0, top := n.Head().Height(), a.Head().Height()
		// what the source can serve: the simulator inserts blocks without asking a committee, so a generated history may
		// contain a block that needs a certificate (identity update, snapshot, new genesis, upgrade) for which the
		// actors' keys do not make a quorum; a real chain does not continue over such a block, the range ends before it
		servable := head0
		for x := head0 + 1; x <= top && (!g.needsCert(x) || g.hasCert(x)); x++ {
			servable = x
		}
		if servable < top {
			evid.Count("manifest.range_ends_before_uncertifiable_block")
		}
		// the manifest height: near the top, a block whose certificate the source can serve (the applier applies what it
		// has collected when a certified block arrives)
		target := servable - uint64(rapid.IntRange(0, 2).Draw(t, "snapshotBack"))
		if servable < head0+3 {
			target = servable
		}
		for target > head0 && !g.hasCert(target) {
			target--
		}
		if target <= head0 {
			evid.Count("manifest.skipped_no_certified_block_in_range")
			return
		}
		canonical := g.canonical
		canonRoot, canonArchive := canonical(target)

		// ---- publishers ----
		publish := func(i int, kind string) *announced {
			p := &announced{kind: kind, breakAt: -1, manifest: &snapshot.Manifest{Height: target, CidV2: []byte(fmt.Sprintf("snapshot-%d-%s", i, kind))}}
			export := func(r *sim.Replica) bool {
				var buf bytes.Buffer
				root, err := r.AppState.State.WriteSnapshot2(target, &buf)
				if err != nil {
					t.Fatalf("%s publisher: WriteSnapshot2(%d): %v", kind, target, err)
				}
				p.manifest.Root, p.archive = root, buf.Bytes()
				p.foreign = root != canonRoot
				return p.foreign
			}
			back := func(r *sim.Replica, to uint64) bool {
				if to < 1 || !r.AppState.State.HasVersion(to) || !r.AppState.IdentityState.HasVersion(to) {
					return false
				}
				if _, err := r.Chain.ResetTo(to); err != nil {
					t.Fatalf("%s publisher: ResetTo(%d): %v", kind, to, err)
				}
				return true
			}
			switch kind {
			case "other-branch":
				f := w.CopyOf(t, a, "publisher-on-another-branch", w.God)
				k := uint64(rapid.IntRange(1, 3).Draw(t, "branchLen"))
				if k > target-1 {
					k = target - 1
				}
				if k == 0 || !back(f, target-k) {
					return nil
				}
				for f.Head().Height() < target {
					w.Extend(t, f, manifestTxTypes, nil)
				}
				if f.Head().Hash() == a.Chain.GetBlockHeaderByHeight(target).Hash() {
					return nil
				}
				if !export(f) {
					p.kind = "other-branch-with-equal-state"
				}
			case "hostile-edit":
				f := w.CopyOf(t, a, "hostile-publisher", w.God)
				if !back(f, target-1) {
					return nil
				}
				st := f.AppState.State
				victim := w.Actors[rapid.IntRange(0, len(w.Actors)-1).Draw(t, "victim")].Addr
				switch rapid.IntRange(0, 3).Draw(t, "edit") {
				case 0:
					st.SetBalance(common.Address{0xba, 0xd0, 0x01}, sim.Dna(1000000))
				case 1:
					st.SetBalance(victim, sim.Dna(0))
				case 2:
					st.SetState(victim, state.Killed)
				default:
					st.AddBalance(victim, sim.Dna(1))
				}
				if _, _, ver, err := st.Commit(true); err != nil || uint64(ver) != target {
					t.Fatalf("hostile publisher: commit gives version %d (%v), wanted %d", ver, err, target)
				}
				if !export(f) {
					return nil
				}
			case "other-height":
				var xs []uint64
				for _, x := range []uint64{target - 1, target - 2, target + 1} {
					if x >= 1 && x <= top && a.AppState.State.HasVersion(x) && a.Chain.GetBlockHeaderByHeight(x).Root() != canonRoot {
						xs = append(xs, x)
					}
				}
				if len(xs) == 0 {
					return nil
				}
				x := xs[rapid.IntRange(0, len(xs)-1).Draw(t, "otherHeight")]
				p.manifest.Root, p.archive = canonical(x)
				p.foreign = true
				p.kind = fmt.Sprintf("other-height%+d", int(x)-int(target))
			case "lying-root":
				p.archive = canonArchive
				switch rapid.IntRange(0, 2).Draw(t, "lie") {
				case 0:
					p.manifest.Root = common.Hash{}
				case 1:
					p.manifest.Root = canonRoot
					p.manifest.Root[rapid.IntRange(0, 31).Draw(t, "lieByte")] ^= byte(1 << uint(rapid.IntRange(0, 7).Draw(t, "lieBit")))
				default:
					p.manifest.Root = a.Chain.GetBlockHeaderByHeight(target - 1).Root()
				}
			case "damaged":
				p.manifest.Root = canonRoot
				c := append([]byte{}, canonArchive...)
				how := rapid.SampledFrom([]string{"cut", "flip", "zero-run", "inner-key", "inner-key"}).Draw(t, "damage")
				switch how {
				case "cut":
					c = c[:rapid.IntRange(0, len(c)-1).Draw(t, "cutAt")]
				case "flip":
					c[rapid.IntRange(0, len(c)-1).Draw(t, "flipAt")] ^= byte(1 << uint(rapid.IntRange(0, 7).Draw(t, "bit")))
				case "zero-run":
					off := rapid.IntRange(0, len(c)-1).Draw(t, "zeroAt")
					for j, run := off, rapid.IntRange(1, 64).Draw(t, "run"); j < len(c) && j < off+run; j++ {
						c[j] = 0
					}
				case "inner-key":
					altered, _, _, edit := alterInnerKey(t, canonArchive)
					if altered == nil {
						return nil
					}
					c, how = altered, how+"."+edit
				}
				p.archive, p.kind = c, "damaged."+how
			case "transfer-fails":
				p.manifest.Root, p.archive = canonRoot, canonArchive
				p.breakAt = rapid.IntRange(0, len(canonArchive)-1).Draw(t, "breakAt")
			case "honest":
				p.manifest.Root, p.archive = canonRoot, canonArchive
			}
			g.announce(p)
			return p
		}

		installed, foreign := false, 0
		attempts := rapid.SampledFrom([]int{1, 1, 2, 3, 0}).Draw(t, "foreignAttempts")
		for i := 0; i < attempts && !installed; i++ {
			kind := rapid.SampledFrom(manifestKinds).Draw(t, "manifestKind")
			p := publish(i, kind)
			if p == nil {
				evid.Count("manifest." + kind + ".not_constructible")
				continue
			}
			if p.foreign {
				foreign++
			}
			installed = g.attempt(i, p)
		}
		if !installed {
			// the honest manifest: of the same height, or of a later one (the applier resumes from the preliminary head)
			if later := servable - target; later > 0 && rapid.Bool().Draw(t, "honestManifestIsLater") {
				x := target + uint64(rapid.IntRange(1, int(later)).Draw(t, "laterBy"))
				for x > target && !g.hasCert(x) {
					x--
				}
				if x > target {
					evid.Count("manifest.honest_manifest_of_a_later_height")
					target = x
					canonRoot, canonArchive = canonical(target)
				}
			}
			if !g.attempt(attempts, publish(attempts, "honest")) {
				t.Fatalf("harness: honest attempt neither installed nor failed")
			}
		}
		g.finish()
		desc := g.desc
		if foreign > 0 {
			evid.NonTrivial(fmt.Sprintf("manifest|%s|%s", desc, h.Descriptor()))
		}
		evid.Sample("manifests", desc)
	})
}

// Fixed shape of the class TestFastSyncForeignManifests generates: node F shares the chain with the source up to the
// block before the manifest height and has its own block (one more transaction) at that height; it announces the
// intact snapshot of ITS state with ITS root. The syncing node has verified the canonical headers up to that height:
// the snapshot does not reproduce the state root of the canonical header and must be refused; the honest manifest is
// installed afterwards.
func TestRegressionSnapshotOfAnotherBranch(t *testing.T) {
	p := sim.Params{KeySeed: 31, NActors: 3, Profile: "v12", SwitchRng: 50, DelegRng: 50, DiscrRng: 50, SnapRng: 1000,
		Start: time.Date(2030, 1, 5, 12, 0, 0, 0, time.UTC).Unix(), CeremonyIn: 100000, Interval: 3600, LotteryDur: 30, ShortDur: 30, LongDur: 30}
	p.States = []state.IdentityState{state.Verified, state.Verified, state.Verified}
	p.Balances = []*big.Int{sim.Dna(1000), sim.Dna(1000), sim.Dna(1000)}
	p.Stakes = []*big.Int{sim.Dna(10), sim.Dna(10), sim.Dna(10)}
	w := sim.NewWorld(p)
	a, err := w.AddReplica("A", w.God.Key, nil)
	if err != nil {
		t.Fatal(err)
	}
	certs := map[common.Hash]*types.BlockCert{}
	step := func(r *sim.Replica, tx *types.Transaction) {
		w.Advance(20 * time.Second)
		if tx != nil {
			if err := r.Pool.AddInternalTx(tx); err != nil {
				t.Fatalf("pool: %v", err)
			}
		}
		blk := r.Propose().Block
		if tx != nil && len(blk.Body.Transactions) != 1 {
			t.Fatalf("setup: the transaction is not in the block")
		}
		if r == a {
			certs[blk.Hash()] = w.MakeCert(r, blk, sim.CertValid)
		}
		if err := r.AddBlock(blk); err != nil {
			t.Fatalf("add: %v", err)
		}
	}
	send := func(nonce uint32) *types.Transaction {
		to := w.Actors[2].Addr
		tx, err := types.SignTx(&types.Transaction{Type: types.SendTx, AccountNonce: nonce, To: &to, Amount: sim.Dna(5), MaxFee: sim.Dna(100)}, w.Actors[1].Key)
		if err != nil {
			t.Fatal(err)
		}
		return tx
	}
	start := func(name string, db dbm.DB) *sim.Replica {
		r := &sim.Replica{W: w, Name: name, Key: w.God.Key, Addr: w.God.Addr, DB: db, Ipfs: a.Ipfs, Loc: time.UTC}
		if err := r.Start(); err != nil {
			t.Fatalf("start %s: %v", name, err)
		}
		return r
	}
	step(a, nil)
	step(a, nil)
	early := sim.CopyDB(a.DB)
	step(a, send(1))
	step(a, nil)
	f := start("F", sim.CopyDB(a.DB))
	step(a, nil)     // the canonical block of the manifest height
	step(f, send(2)) // F's own block of that height
	target := a.Head().Height()
	if f.Head().Height() != target || f.Head().Hash() == a.Head().Hash() || f.Head().Root() == a.Head().Root() {
		t.Fatalf("setup: F is not on another branch with another state at height %d", target)
	}
	step(a, send(2))
	n := start("syncing", early)
	g := newManifestRig(t, w, a, n, certs, func() string { return "" })
	var buf bytes.Buffer
	rootF, err := f.AppState.State.WriteSnapshot2(target, &buf)
	if err != nil || rootF != f.Head().Root() {
		t.Fatalf("export of F: %x, %v", rootF, err)
	}
	foreign := &announced{kind: "other-branch", breakAt: -1, foreign: true, archive: buf.Bytes(), manifest: &snapshot.Manifest{Height: target, Root: rootF, CidV2: []byte("snapshot-of-F")}}
	g.announce(foreign)
	if g.attempt(0, foreign) {
		t.Fatalf("harness: the snapshot of F cannot be the canonical state")
	}
	root, archive := g.canonical(target)
	honest := &announced{kind: "honest", breakAt: -1, archive: archive, manifest: &snapshot.Manifest{Height: target, Root: root, CidV2: []byte("snapshot-of-A")}}
	g.announce(honest)
	if !g.attempt(1, honest) {
		t.Fatalf("the honest manifest is not installed")
	}
	g.finish()
}

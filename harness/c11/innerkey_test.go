package c11

import (
	"archive/tar"
	"bytes"
	"fmt"
	"io"
	"math/big"
	"testing"

	"github.com/golang/protobuf/proto"
	"github.com/idena-network/idena-go/common"
	"github.com/idena-network/idena-go/core/state"
	models "github.com/idena-network/idena-go/protobuf"
	dbm "github.com/tendermint/tm-db"

	"verifharness/internal/evid"
)

// repack rewrites a snapshot archive after applying f to its decoded node list.
func repack(archive []byte, f func(nodes []*models.ProtoSnapshotNodes_Node)) ([]byte, error) {
	tr := tar.NewReader(bytes.NewReader(archive))
	var out bytes.Buffer
	tw := tar.NewWriter(&out)
	for {
		hdr, err := tr.Next()
		if err == io.EOF {
			break
		}
		if err != nil {
			return nil, err
		}
		data, err := io.ReadAll(tr)
		if err != nil {
			return nil, err
		}
		sb := new(models.ProtoSnapshotNodes)
		if err := proto.Unmarshal(data, sb); err != nil {
			return nil, err
		}
		f(sb.Nodes)
		nd, _ := proto.Marshal(sb)
		h := *hdr
		h.Size = int64(len(nd))
		if err := tw.WriteHeader(&h); err != nil {
			return nil, err
		}
		tw.Write(nd)
	}
	tw.Close()
	return out.Bytes(), nil
}

// Shrunk failure of TestSnapshotRoundTripAndCorruption: the tree hash does not
// cover the search key stored in inner nodes, so an archive with an altered
// inner key reproduces the advertised root although lookups then take a wrong
// branch. Such an archive must be refused.
func TestRegressionAlteredInnerKey(t *testing.T) {
	db := dbm.NewMemDB()
	s, _ := state.NewLazy(db)
	s.Load(0)
	var addrs []common.Address
	for i := 1; i <= 9; i++ {
		var a common.Address
		a[0], a[19] = byte(i*20), byte(i)
		addrs = append(addrs, a)
		s.SetBalance(a, big.NewInt(int64(1000+i)))
	}
	if _, _, _, err := s.Commit(true); err != nil {
		t.Fatal(err)
	}
	var buf bytes.Buffer
	root, err := s.WriteSnapshot2(1, &buf)
	if err != nil {
		t.Fatal(err)
	}
	inner := 0
	for pick := 0; ; pick++ {
		seen := 0
		changed := false
		tampered, err := repack(buf.Bytes(), func(nodes []*models.ProtoSnapshotNodes_Node) {
			for _, n := range nodes {
				if n.Height > 0 {
					if seen == pick {
						// move the search key upwards: lookups of the smallest key of the right subtree now go left
						k := append([]byte{}, n.Key...)
						k[len(k)-1]++
						n.Key = k
						changed = true
					}
					seen++
				}
			}
		})
		if err != nil {
			t.Fatalf("repack: %v", err)
		}
		inner = seen
		if !changed {
			break
		}
		evid.Eval()
		dst := dbm.NewMemDB()
		ds, _ := state.NewLazy(dst)
		ds.Load(0)
		if err := ds.RecoverSnapshot2(1, root, bytes.NewReader(tampered)); err != nil {
			continue // refused: fine
		}
		ds.CommitSnapshot(1, nil)
		for _, a := range addrs {
			if got, want := ds.GetBalance(a), s.GetBalance(a); got.Cmp(want) != 0 {
				t.Fatalf("archive with altered key of inner node #%d accepted (root %x as advertised) but balance of %x reads %v instead of %v", pick, ds.Root(), a, got, want)
			}
		}
		t.Fatalf("archive with altered key of inner node #%d accepted", pick)
	}
	if inner == 0 {
		t.Fatalf("no inner nodes in the archive")
	}
	fmt.Println("inner nodes tampered:", inner)
}

// Fixed shape of the class TestSnapshotRoundTripAndCorruption generates with its "inner-key" damage: the key of an
// inner node is LOWERED (last byte - 1), so that it still separates the two subtrees: every lookup and the iteration
// of the imported tree still work and the root is the advertised one. Such an archive must be refused as well; when it
// is accepted, the imported tree must at least be the exported one: a new export equals the archive and the next
// block (here: the account whose key is the altered key) gives the same root on both sides.
func TestRegressionLoweredInnerKey(t *testing.T) {
	db := dbm.NewMemDB()
	s, _ := state.NewLazy(db)
	s.Load(0)
	for i := 1; i <= 9; i++ {
		var a common.Address
		a[0], a[19] = byte(i*20), byte(i)
		s.SetBalance(a, big.NewInt(int64(1000+i)))
	}
	if _, _, _, err := s.Commit(true); err != nil {
		t.Fatal(err)
	}
	var buf bytes.Buffer
	root, err := s.WriteSnapshot2(1, &buf)
	if err != nil {
		t.Fatal(err)
	}
	inner := 0
	for pick := 0; ; pick++ {
		seen := 0
		var genuine, lowered []byte
		tampered, err := repack(buf.Bytes(), func(nodes []*models.ProtoSnapshotNodes_Node) {
			for _, n := range nodes {
				if n.Height > 0 {
					if seen == pick {
						genuine = n.Key
						lowered = append([]byte{}, n.Key...)
						lowered[len(lowered)-1]--
						n.Key = lowered
					}
					seen++
				}
			}
		})
		if err != nil {
			t.Fatalf("repack: %v", err)
		}
		inner = seen
		if lowered == nil {
			break
		}
		evid.Eval()
		dst := dbm.NewMemDB()
		ds, _ := state.NewLazy(dst)
		ds.Load(0)
		if err := ds.RecoverSnapshot2(1, root, bytes.NewReader(tampered)); err != nil {
			continue // refused: fine
		}
		ds.CommitSnapshot(1, nil)
		var again bytes.Buffer
		if _, err := ds.WriteSnapshot2(1, &again); err != nil {
			t.Fatal(err)
		}
		if !bytes.Equal(again.Bytes(), buf.Bytes()) {
			t.Fatalf("archive with the key of inner node #%d lowered (%x -> %x) accepted with root %x as advertised, but the imported tree is not the exported one: a new export gives another archive; %s",
				pick, genuine, lowered, ds.Root(), archiveDiff(again.Bytes(), buf.Bytes()))
		}
		ref, err := copyState(db, 1)
		if err != nil {
			t.Fatal(err)
		}
		w := contWrite{key: lowered, salt: 1}
		applyWrite(ref, w)
		applyWrite(ds, w)
		_, r1, _, _ := ref.Commit(true)
		_, r2, _, _ := ds.Commit(true)
		if !bytes.Equal(r1, r2) {
			t.Fatalf("archive with the key of inner node #%d lowered (%x -> %x) accepted: after the next block (new account %x) the importing state has root %x, the exporting state %x", pick, genuine, lowered, lowered[1:], r2, r1)
		}
	}
	if inner == 0 {
		t.Fatalf("no inner nodes in the archive")
	}
	fmt.Println("inner nodes tampered:", inner)
}

package c11

import (
	"bytes"
	"fmt"
	"testing"

	"github.com/idena-network/idena-go/common"
	"github.com/idena-network/idena-go/core/state"
	dbm "github.com/tendermint/tm-db"
	"pgregory.net/rapid"

	"verifharness/internal/evid"
)

// A node whose identity state was installed from a snapshot at its head G (what the bundled genesis loader does:
// RecoverSnapshot2 + CommitSnapshot) - or that built it from blocks, as control - fast syncs from there: preliminary
// copy at G, replay of the served diffs with a root check per header, then the sync is either abandoned
// (DropPreliminary) or completed (SaveForcedVersion, SwitchToPreliminary, batch, clearing of the replaced db). After
// every flow the identity state is reopened from the database: it must load, have the canonical root of the height it
// should be at, and exactly the canonical contents.
func TestIdentityStateSyncFlows(t *testing.T) {
	rapid.Check(t, func(t *rapid.T) {
		evid.Eval()
		top := rapid.IntRange(6, 14).Draw(t, "heights")
		canonDb := dbm.NewMemDB()
		canon, err := state.NewLazyIdentityState(canonDb)
		if err != nil {
			t.Fatal(err)
		}
		addr := func(i int) common.Address { return common.Address{0xb0, byte(i)} }
		type blk struct {
			diff     *state.IdentityStateDiff
			root     common.Hash
			contents map[string]string
		}
		contentsOf := func(s *state.IdentityStateDB) map[string]string {
			res := map[string]string{}
			s.IterateIdentities(func(key []byte, value []byte) bool { res[string(key)] = string(value); return false })
			return res
		}
		blocks := map[uint64]blk{}
		for h := 1; h <= top; h++ {
			for i := rapid.IntRange(0, 3).Draw(t, "changes"); i > 0 || h == 1; i-- {
				a := addr(rapid.IntRange(0, 9).Draw(t, "who"))
				switch rapid.IntRange(0, 3).Draw(t, "change") {
				case 0:
					canon.SetValidated(a, true)
				case 1:
					canon.SetOnline(a, rapid.Bool().Draw(t, "online"))
				case 2:
					canon.Remove(a)
				case 3:
					canon.SetDelegatee(a, addr(rapid.IntRange(0, 9).Draw(t, "delegatee")))
				}
				if h == 1 {
					canon.SetValidated(addr(0), true)
					break
				}
			}
			d := canon.Precommit(true)
			root := canon.Root()
			if _, _, err := canon.CommitTree(int64(h)); err != nil {
				t.Fatal(err)
			}
			// as served: through the wire encoding
			served := new(state.IdentityStateDiff)
			if b, err := d.ToBytes(); err != nil || served.FromBytes(b) != nil {
				t.Fatalf("diff encoding: %v", err)
			}
			blocks[uint64(h)] = blk{served, root, contentsOf(canon)}
		}
		g := uint64(rapid.IntRange(1, top-2).Draw(t, "nodeHead"))
		installed := rapid.SampledFrom([]string{"from-snapshot", "from-snapshot", "from-blocks"}).Draw(t, "installed")
		nodeDb := dbm.NewMemDB()
		node, err := state.NewLazyIdentityState(nodeDb)
		if err != nil {
			t.Fatal(err)
		}
		if installed == "from-snapshot" {
			canonDbPrefix, err := state.IdentityStateDbKeys.LoadDbPrefix(canonDb, false)
			if err != nil {
				t.Fatal(err)
			}
			var buf bytes.Buffer
			if root, err := state.WriteTreeTo2(dbm.NewPrefixDB(canonDb, canonDbPrefix), g, &buf); err != nil || root != blocks[g].root {
				t.Fatalf("export at %d: %v", g, err)
			}
			if err := node.RecoverSnapshot2(g, blocks[g].root, &buf); err != nil {
				t.Fatalf("import: %v", err)
			}
			common.ClearDb(node.CommitSnapshot(g))
		} else {
			for h := uint64(1); h <= g; h++ {
				node.AddDiff(h, blocks[h].diff)
				if _, _, err := node.CommitTree(int64(h)); err != nil {
					t.Fatal(err)
				}
			}
		}
		reopen := func(height uint64, after string) {
			r, err := state.NewLazyIdentityState(nodeDb)
			if err == nil {
				err = r.Load(height)
			}
			if err != nil {
				t.Fatalf("identity state (%s at %d) cannot be reopened at %d after %s: %v", installed, g, height, after, err)
			}
			if r.Root() != blocks[height].root {
				t.Fatalf("identity state (%s at %d) reopened after %s has another root than the canonical header %d", installed, g, after, height)
			}
			if got, want := contentsOf(r), blocks[height].contents; fmt.Sprint(len(got)) != fmt.Sprint(len(want)) || fmt.Sprint(got) != fmt.Sprint(want) {
				t.Fatalf("identity state (%s at %d) reopened after %s differs in contents from the canonical state of %d", installed, g, after, height)
			}
			node = r
		}
		head := g
		flows := rapid.IntRange(1, 3).Draw(t, "flows")
		desc := installed
		for f := 0; f < flows && head < uint64(top); f++ {
			to := head + uint64(rapid.IntRange(1, top-int(head)).Draw(t, "syncTo"))
			complete := rapid.IntRange(0, 2).Draw(t, "complete") != 0
			pre, err := node.CreatePreliminaryCopy(head)
			if err != nil {
				t.Fatalf("CreatePreliminaryCopy(%d): %v", head, err)
			}
			upTo := to
			if !complete {
				upTo = head + uint64(rapid.IntRange(0, int(to-head)).Draw(t, "abandonAfter"))
			}
			for h := head + 1; h <= upTo; h++ {
				pre.AddDiff(h, blocks[h].diff)
				if pre.Root() != blocks[h].root {
					t.Fatalf("replaying the served diff of %d on the preliminary copy taken at %d (%s) does not reproduce the header's identity root", h, head, installed)
				}
				if !blocks[h].diff.Empty() {
					if _, _, err := pre.CommitTree(int64(h)); err != nil {
						t.Fatal(err)
					}
				}
			}
			if !complete {
				node.DropPreliminary()
				reopen(head, fmt.Sprintf("an abandoned sync %d -> %d", head, to))
				evid.Count("idflow.abandoned." + installed)
				desc += fmt.Sprintf("|a%d", to-head)
				continue
			}
			if err := pre.SaveForcedVersion(to); err != nil {
				t.Fatalf("SaveForcedVersion: %v", err)
			}
			batch, dropDb, err := node.SwitchToPreliminary(to)
			if err != nil {
				t.Fatalf("SwitchToPreliminary(%d): %v", to, err)
			}
			if err := batch.WriteSync(); err != nil {
				t.Fatal(err)
			}
			common.ClearDb(dropDb)
			reopen(to, fmt.Sprintf("a completed sync %d -> %d", head, to))
			evid.Count("idflow.completed." + installed)
			desc += fmt.Sprintf("|c%d", to-head)
			head = to
		}
		evid.NonTrivial("idflow|" + desc)
		evid.Sample("idflow", desc)
	})
}

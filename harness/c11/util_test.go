package c11

import (
	"bytes"
	"sort"

	"github.com/idena-network/idena-go/common"
)

func sortAddrs(a []common.Address) {
	sort.Slice(a, func(i, j int) bool { return bytes.Compare(a[i][:], a[j][:]) < 0 })
}
func sortStrings(s []string) { sort.Strings(s) }

package c11

import (
	"fmt"
	"testing"
	"time"

	"github.com/idena-network/idena-go/blockchain/types"
	dbm "github.com/tendermint/tm-db"
	"pgregory.net/rapid"

	"verifharness/internal/evid"
	"verifharness/internal/sim"
)

// One node syncs fast several times in a row (gaps of one block included), some attempts being abandoned right before
// their switch (everything preliminary dropped, as fastSync.dropPreliminaries does). After every attempt - completed or
// abandoned - the node, reopened from its database, must be intact: after an abandoned attempt it is exactly where it
// was, after a completed one it has the source's head, roots and ledger. (The identity state a node ends a fast sync
// with lives under the database prefix the preliminary copy was created with: the next preliminary copy must not
// collide with it.)
func TestChainedFastSyncs(t *testing.T) {
	rapid.Check(t, func(t *rapid.T) {
		steps := rapid.IntRange(8, 18).Draw(t, "steps")
		earlyAt := rapid.IntRange(0, 3).Draw(t, "syncFrom")
		var early dbm.DB
		opt := sim.Options{MinActors: 4, MaxActors: 8, Replicas: 1, MaxReplicas: 3, Steps: steps, MaxTxPerStep: 6,
			OnlyTypes: []types.TxType{types.OnlineStatusTx, types.OnlineStatusTx, types.OnlineStatusTx, types.DelegateTx, types.DelegateTx, types.UndelegateTx, types.KillTx, types.KillDelegatorTx,
				types.InviteTx, types.ActivationTx, types.SendTx, types.ReplenishStakeTx, types.ChangeGodAddressTx}}
		opt.BetweenBlocks = func(h *sim.History) {
			if len(h.Blocks) == earlyAt && early == nil {
				early = sim.CopyDB(h.W.Replicas[0].DB)
			}
		}
		h := sim.RunHistory(t, opt)
		w := h.W
		src := w.Replicas[0]
		n := &sim.Replica{W: w, Name: "syncing", Key: w.Actors[1].Key, Addr: w.Actors[1].Addr, DB: early, Ipfs: src.Ipfs, Loc: time.UTC}
		if err := n.Start(); err != nil {
			t.Fatalf("start: %v", err)
		}
		syncs, desc := 0, ""
		for n.Head().Height() < src.Head().Height() && syncs < 4 {
			head := n.Head().Height()
			gap := rapid.SampledFrom([]int{1, 1, 2, 3, 5, 8}).Draw(t, "gap")
			target := head + uint64(gap)
			if target > src.Head().Height() {
				target = src.Head().Height()
			}
			abandon := rapid.IntRange(0, 2).Draw(t, "abandonFirst") == 0
			evid.Eval()
			if abandon {
				aborted := func() (aborted bool) {
					defer func() {
						if r := recover(); r != nil {
							if r == "abandon" {
								aborted = true
								return
							}
							panic(r)
						}
					}()
					sim.FastSync(src, n, target, func() { panic("abandon") })
					return false
				}()
				if !aborted {
					t.Fatalf("harness: the abandoned attempt was not abandoned")
				}
				// fastSync.dropPreliminaries
				n.Chain.RemovePreliminaryHead(nil)
				n.AppState.IdentityState.DropPreliminary()
				if err := n.Restart(); err != nil {
					t.Fatalf("after an abandoned fast sync %d -> %d (sync #%d of this node) the node does not start any more: %v", head, target, syncs+1, err)
				}
				if n.Head().Height() != head || n.Head().Root() != n.AppState.State.Root() || n.Head().IdentityRoot() != n.AppState.IdentityState.Root() {
					t.Fatalf("an abandoned fast sync %d -> %d changed the node (head %d)", head, target, n.Head().Height())
				}
				evid.Count("chained.abandoned_attempt")
				desc += fmt.Sprintf("a%d;", gap)
			}
			if _, err := sim.FastSync(src, n, target, nil); err != nil {
				t.Fatalf("fast sync %d -> %d (sync #%d of this node, abandoned attempt before: %v) fails against the honest source: %v\nhistory:\n%s", head, target, syncs+1, abandon, err, h.Summary())
			}
			syncs++
			desc += fmt.Sprintf("s%d;", gap)
			hdr := src.Chain.GetBlockHeaderByHeight(target)
			check := func(when string) {
				if n.Head().Hash() != hdr.Hash() || n.AppState.State.Root() != hdr.Root() || n.AppState.IdentityState.Root() != hdr.IdentityRoot() {
					t.Fatalf("%s fast sync #%d (%d -> %d) head/roots differ from the source's header", when, syncs, head, target)
				}
			}
			check("after")
			if err := n.Restart(); err != nil {
				t.Fatalf("the node does not start after its fast sync #%d (%d -> %d): %v", syncs, head, target, err)
			}
			check("after a restart following")
			if gap == 1 {
				evid.Count("chained.gap_of_one_block")
			}
		}
		for x := n.Head().Height() + 1; x <= src.Head().Height(); x++ {
			if err := n.AddBlock(src.Chain.GetBlockByHeight(x)); err != nil {
				t.Fatalf("the node refuses block %d after %d fast syncs: %v", x, syncs, err)
			}
		}
		if d := sim.DiffImages(sim.Image(src.ReadState()), sim.Image(n.ReadState()), w.Name); len(d) > 0 {
			t.Fatalf("ledger differs from the source after %d chained fast syncs: %v", syncs, d)
		}
		evid.Count(fmt.Sprintf("chained.syncs=%d", syncs))
		if syncs >= 2 {
			evid.NonTrivial("chained|" + desc)
			evid.Sample("chained", desc)
		}
	})
}

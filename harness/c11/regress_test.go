package c11

import (
	"bytes"
	"math/big"
	"testing"
	"time"

	"github.com/idena-network/idena-go/blockchain"
	"github.com/idena-network/idena-go/blockchain/types"
	"github.com/idena-network/idena-go/core/state"
	"github.com/idena-network/idena-go/core/state/snapshot"
	pkgerrors "github.com/pkg/errors"
	dbm "github.com/tendermint/tm-db"

	"verifharness/internal/evid"
	"verifharness/internal/sim"
)

// Shrunk failure of TestIdentityDiffReplay: a block with a non-empty identity
// diff (KillTx) is abandoned in a reorg and replaced by a plain block. The
// node must not keep serving the abandoned block's diff for that height.
func TestRegressionStaleIdentityDiffAfterReorg(t *testing.T) {
	p := sim.Params{KeySeed: 31, NActors: 3, Profile: "v12", SwitchRng: 50, DelegRng: 50, DiscrRng: 50, SnapRng: 1000,
		Start: time.Date(2030, 1, 5, 12, 0, 0, 0, time.UTC).Unix(), CeremonyIn: 100000, Interval: 3600, LotteryDur: 30, ShortDur: 30, LongDur: 30}
	p.States = []state.IdentityState{state.Verified, state.Verified, state.Verified}
	p.Balances = []*big.Int{sim.Dna(1000), sim.Dna(1000), sim.Dna(1000)}
	p.Stakes = []*big.Int{sim.Dna(10), sim.Dna(10), sim.Dna(10)}
	w := sim.NewWorld(p)
	n, err := w.AddReplica("node", w.God.Key, nil)
	if err != nil {
		t.Fatal(err)
	}
	step := func(tx *types.Transaction) *types.Block {
		w.Advance(20 * time.Second)
		if tx != nil {
			if err := n.Pool.AddInternalTx(tx); err != nil {
				t.Fatalf("pool: %v", err)
			}
		}
		blk := n.Propose().Block
		if err := n.AddBlock(blk); err != nil {
			t.Fatalf("add: %v", err)
		}
		return blk
	}
	step(nil)
	step(nil)
	kill, _ := types.SignTx(&types.Transaction{Type: types.KillTx, AccountNonce: 1, MaxFee: sim.Dna(100)}, w.Actors[1].Key)
	b := step(kill)
	if len(b.Body.Transactions) != 1 || n.Chain.GetIdentityDiff(b.Height()).Empty() {
		t.Fatalf("setup: the kill block has no identity diff")
	}
	evid.Eval()
	if _, err := n.Chain.ResetTo(b.Height() - 1); err != nil {
		t.Fatal(err)
	}
	// drop the reverted kill tx from the pool so that the replacing block is plain
	w.Advance(20 * time.Second)
	blk := n.EmptyBlock()
	if err := n.AddBlock(blk); err != nil {
		t.Fatalf("add replacing block: %v", err)
	}
	if d := n.Chain.GetIdentityDiff(blk.Height()); !d.Empty() {
		t.Fatalf("after the reorg the node still serves the identity diff of the abandoned block at height %d (%d entries)", blk.Height(), len(d.Values))
	}
}

func regressionWorld(t *testing.T) (*sim.World, *sim.Replica, *faultyIpfs) {
	p := sim.Params{KeySeed: 31, NActors: 3, Profile: "v12", SwitchRng: 50, DelegRng: 50, DiscrRng: 50, SnapRng: 1000,
		Start: time.Date(2030, 1, 5, 12, 0, 0, 0, time.UTC).Unix(), CeremonyIn: 100000, Interval: 3600, LotteryDur: 30, ShortDur: 30, LongDur: 30}
	p.States = []state.IdentityState{state.Verified, state.Verified, state.Verified}
	p.Balances = []*big.Int{sim.Dna(1000), sim.Dna(1000), sim.Dna(1000)}
	p.Stakes = []*big.Int{sim.Dna(10), sim.Dna(10), sim.Dna(10)}
	w := sim.NewWorld(p)
	fi := &faultyIpfs{Proxy: sim.NewIpfs()}
	n := &sim.Replica{W: w, Name: "node", Key: w.God.Key, Addr: w.God.Addr, DB: dbm.NewMemDB(), Ipfs: fi, Loc: time.UTC}
	if err := n.Start(); err != nil {
		t.Fatal(err)
	}
	w.Replicas = append(w.Replicas, n)
	return w, n, fi
}

// Shrunk failure of TestIdentityDiffReplayInsertionFaults (seeded change C11-m7): a valid block with a non-empty
// identity diff (KillTx) fails to be inserted because the local ipfs node cannot store its body; the node rolls its
// state back as full sync does and the round goes to the empty block. The node must not serve the diff of the block
// that was never inserted for the canonical (empty) block of that height.
func TestRegressionDiffOfBlockThatFailedToInsert(t *testing.T) {
	w, n, fi := regressionWorld(t)
	for i := 0; i < 2; i++ {
		w.Advance(20 * time.Second)
		if err := n.AddBlock(n.Propose().Block); err != nil {
			t.Fatalf("add: %v", err)
		}
	}
	kill, _ := types.SignTx(&types.Transaction{Type: types.KillTx, AccountNonce: 1, MaxFee: sim.Dna(100)}, w.Actors[1].Key)
	w.Advance(20 * time.Second)
	if err := n.Pool.AddInternalTx(kill); err != nil {
		t.Fatalf("pool: %v", err)
	}
	x := n.Propose().Block
	if len(x.Body.Transactions) != 1 || !x.Header.Flags().HasFlag(types.IdentityUpdate) {
		t.Fatalf("setup: the kill block does not update identities")
	}
	evid.Eval()
	fi.arm(0)
	err := n.AddBlock(x)
	if !fi.heal() || pkgerrors.Cause(err) != blockchain.BlockInsertionErr {
		t.Fatalf("setup: the insertion did not fail with BlockInsertionErr: %v", err)
	}
	if err := n.AppState.ResetTo(n.Head().Height()); err != nil {
		t.Fatal(err)
	}
	y := n.EmptyBlock()
	if err := n.AddBlock(y); err != nil {
		t.Fatalf("add the empty block of the round: %v", err)
	}
	if d := n.Chain.GetIdentityDiff(y.Height()); !d.Empty() {
		t.Fatalf("the node serves the identity diff of a block it failed to insert (%d entries) for the canonical empty block at height %d", len(d.Values), y.Height())
	}
}

// Shrunk failure of TestRefusedInstallations (seeded change C11-m8): the tree of a snapshot is imported completely,
// the switch refuses the installation (no identity-state version of the snapshot height); nothing of the imported
// tree may stay in the database of the node.
func TestRegressionRefusedSwitchLeavesNoState(t *testing.T) {
	w, src, _ := regressionWorld(t)
	early := sim.CopyDB(src.DB)
	for i := 0; i < 3; i++ {
		w.Advance(20 * time.Second)
		if err := src.AddBlock(src.Propose().Block); err != nil {
			t.Fatalf("add: %v", err)
		}
	}
	n := &sim.Replica{W: w, Name: "syncing", Key: w.Actors[1].Key, Addr: w.Actors[1].Addr, DB: early, Ipfs: src.Ipfs, Loc: time.UTC}
	if err := n.Start(); err != nil {
		t.Fatal(err)
	}
	target := src.Head().Height()
	if !src.Chain.GetIdentityDiff(target).Empty() {
		t.Fatalf("setup: block %d changes identities", target)
	}
	if _, _, err := consumeRange(src, n, target); err != nil {
		t.Fatalf("setup: %v", err)
	}
	var buf bytes.Buffer
	root, err := src.AppState.State.WriteSnapshot2(target, &buf)
	if err != nil {
		t.Fatal(err)
	}
	evid.Eval()
	before := fullImage(n.DB)
	if err := n.AppState.State.RecoverSnapshot2(target, n.Chain.PreliminaryHead.Root(), &buf); err != nil {
		t.Fatalf("setup: tree import refused: %v", err)
	}
	err = n.Chain.AtomicSwitchToPreliminary(&snapshot.Manifest{Height: target, Root: root})
	if err == nil {
		t.Fatalf("setup: the switch was not refused")
	}
	if left := addedOrChanged(before, n.DB); len(left) > 0 {
		t.Fatalf("the installation was refused at the switch (%v) but left %d records of the imported tree in the database of the node, e.g. %s", err, len(left), left[0])
	}
}

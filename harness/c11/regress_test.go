package c11

import (
	"math/big"
	"testing"
	"time"

	"github.com/idena-network/idena-go/blockchain/types"
	"github.com/idena-network/idena-go/core/state"

	"verifharness/internal/evid"
	"verifharness/internal/sim"
)

// Shrunk failure of TestIdentityDiffReplay: a block with a non-empty identity
// diff (KillTx) is abandoned in a reorg and replaced by a plain block. The
// node must not keep serving the abandoned block's diff for that height.
func TestRegressionStaleIdentityDiffAfterReorg(t *testing.T) {
	p := sim.Params{KeySeed: 31, NActors: 3, Profile: "v12", SwitchRng: 50, DelegRng: 50, DiscrRng: 50, SnapRng: 1000,
		Start: time.Date(2030, 1, 5, 12, 0, 0, 0, time.UTC).Unix(), CeremonyIn: 100000, Interval: 3600, LotteryDur: 30, ShortDur: 30, LongDur: 30}
	p.States = []state.IdentityState{state.Verified, state.Verified, state.Verified}
	p.Balances = []*big.Int{sim.Dna(1000), sim.Dna(1000), sim.Dna(1000)}
	p.Stakes = []*big.Int{sim.Dna(10), sim.Dna(10), sim.Dna(10)}
	w := sim.NewWorld(p)
	n, err := w.AddReplica("node", w.God.Key, nil)
	if err != nil {
		t.Fatal(err)
	}
	step := func(tx *types.Transaction) *types.Block {
		w.Advance(20 * time.Second)
		if tx != nil {
			if err := n.Pool.AddInternalTx(tx); err != nil {
				t.Fatalf("pool: %v", err)
			}
		}
		blk := n.Propose().Block
		if err := n.AddBlock(blk); err != nil {
			t.Fatalf("add: %v", err)
		}
		return blk
	}
	step(nil)
	step(nil)
	kill, _ := types.SignTx(&types.Transaction{Type: types.KillTx, AccountNonce: 1, MaxFee: sim.Dna(100)}, w.Actors[1].Key)
	b := step(kill)
	if len(b.Body.Transactions) != 1 || n.Chain.GetIdentityDiff(b.Height()).Empty() {
		t.Fatalf("setup: the kill block has no identity diff")
	}
	evid.Eval()
	if _, err := n.Chain.ResetTo(b.Height() - 1); err != nil {
		t.Fatal(err)
	}
	// drop the reverted kill tx from the pool so that the replacing block is plain
	w.Advance(20 * time.Second)
	blk := n.EmptyBlock()
	if err := n.AddBlock(blk); err != nil {
		t.Fatalf("add replacing block: %v", err)
	}
	if d := n.Chain.GetIdentityDiff(blk.Height()); !d.Empty() {
		t.Fatalf("after the reorg the node still serves the identity diff of the abandoned block at height %d (%d entries)", blk.Height(), len(d.Values))
	}
}

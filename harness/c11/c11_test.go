package c11

import (
	"bytes"
	"fmt"
	"math/big"
	"testing"

	"github.com/idena-network/idena-go/blockchain/types"
	"github.com/idena-network/idena-go/common"
	"github.com/idena-network/idena-go/core/appstate"
	"github.com/idena-network/idena-go/core/state"
	dbm "github.com/tendermint/tm-db"
	"pgregory.net/rapid"

	"verifharness/internal/evid"
	"verifharness/internal/kf"
	"verifharness/internal/sim"
)

func TestMain(m *testing.M) { evid.Main(m) }

// replayDiffs does what a fast-syncing peer does with the diffs this node
// serves: starting from the genesis identity state, add each stored diff,
// compare the root with the canonical header, commit when non-empty.
func replayDiffs(t *rapid.T, h *sim.History, r *sim.Replica, reorged bool) (nonEmpty int) {
	w := h.W
	shadowNode, err := w.AddReplica("shadow", w.Actors[1%len(w.Actors)].Key, nil)
	if err != nil {
		t.Fatalf("shadow: %v", err)
	}
	w.Replicas = w.Replicas[:len(w.Replicas)-1]
	shadow := shadowNode.AppState.IdentityState
	for height := uint64(2); height <= r.Head().Height(); height++ {
		hdr := r.Chain.GetBlockHeaderByHeight(height)
		if hdr == nil {
			t.Fatalf("no canonical header at %d", height)
		}
		diff := r.Chain.GetIdentityDiff(height)
		shadow.AddDiff(height, diff)
		if shadow.Root() != hdr.IdentityRoot() {
			msg := fmt.Sprintf("replaying the stored identity diffs of %s gives root %x at height %d, canonical header has %x (stored diff has %d entries, block flags %s, node went through a reorg: %v)",
				r.Name, shadow.Root(), height, hdr.IdentityRoot(), lenDiff(diff), sim.FlagNames(hdr.Flags()), reorged)
			t.Fatalf("%s\nhistory:\n%s", msg, h.Summary())
		}
		if !diff.Empty() {
			nonEmpty++
			if _, _, err := shadow.CommitTree(int64(height)); err != nil {
				t.Fatalf("shadow commit: %v", err)
			}
		}
	}
	return nonEmpty
}

func lenDiff(d *state.IdentityStateDiff) int {
	if d == nil {
		return 0
	}
	return len(d.Values)
}

// (a) Replaying the per-block identity diffs a node stores reproduces the
// identity root of every canonical header, also after reorganisations.
func TestIdentityDiffReplay(t *testing.T) {
	rapid.Check(t, func(t *rapid.T) {
		reorgs, reorgAcrossUpdate := 0, 0
		opt := sim.Options{MinActors: 4, MaxActors: 10, Replicas: 2, MaxReplicas: 4, Steps: 30, MaxTxPerStep: 6, OnlyTypes: identityTxMix}
		opt.Params = identityWorld
		opt.BetweenBlocks = reorgHook(t, &reorgs, &reorgAcrossUpdate)
		h := sim.RunHistory(t, opt)
		evid.Eval()
		r := h.W.Replicas[rapid.IntRange(0, len(h.W.Replicas)-1).Draw(t, "servingReplica")]
		nonEmpty := replayDiffs(t, h, r, reorgs > 0)
		evid.CountN("a.replayed_heights", int(r.Head().Height())-1)
		evid.CountN("a.nonempty_diffs", nonEmpty)
		if reorgs > 0 {
			evid.Count("a.history_with_reorg")
		}
		if reorgAcrossUpdate > 0 {
			evid.Count("a.history_with_reorg_across_identity_diff")
		}
		if nonEmpty > 0 && (reorgs == 0 || reorgAcrossUpdate > 0) {
			evid.NonTrivial("a|" + h.Descriptor())
			evid.Sample("diff-replay", fmt.Sprintf("heights=%d nonEmptyDiffs=%d reorgs=%d acrossDiff=%d", r.Head().Height(), nonEmpty, reorgs, reorgAcrossUpdate))
		}
	})
}

// identityTxMix weights the histories of the diff-replay checks to identity events.
var identityTxMix = []types.TxType{types.OnlineStatusTx, types.OnlineStatusTx, types.OnlineStatusTx, types.DelegateTx, types.DelegateTx, types.UndelegateTx, types.KillTx, types.KillDelegatorTx,
	types.KillInviteeTx, types.InviteTx, types.ActivationTx, types.SendTx, types.ReplenishStakeTx, types.SubmitAnswersHashTx, types.SubmitShortAnswersTx, types.SubmitLongAnswersTx, types.EvidenceTx}

// identityWorld makes every second actor a validated identity.
func identityWorld(p *sim.Params) {
	for i := range p.States {
		if i%2 == 1 && p.States[i] == state.Undefined {
			p.States[i] = state.Verified
			p.Stakes[i] = sim.Dna(int64(20 + i))
		}
	}
}

// reorgHook is the BetweenBlocks hook of the diff-replay checks: at drawn points every replica abandons its last k
// blocks (as the fork resolver does) and the history continues from there with different blocks.
func reorgHook(t *rapid.T, reorgs, reorgAcrossUpdate *int) func(h *sim.History) {
	return func(h *sim.History) {
		if len(h.Blocks) < 4 {
			return
		}
		w := h.W
		// an abandoned EMPTY block that carried an identity diff (status switches are applied by empty blocks
		// too) is the rare shape: take the opportunity in half of the cases
		k := 0
		for j := 1; j <= 3; j++ {
			b := h.Blocks[len(h.Blocks)-j]
			if b.IsEmpty() && !w.Replicas[0].Chain.GetIdentityDiff(b.Height()).Empty() {
				evid.Count("a.empty_block_with_identity_diff_near_head")
				if rapid.Bool().Draw(t, "reorgOverEmptyDiffBlock") {
					// deeper than the block itself, so that the transactions that caused the diff are abandoned too
					// and the replacement block at that height may have no diff at all
					k = j + rapid.IntRange(0, 4).Draw(t, "deeperBy")
					if k > len(h.Blocks)-1 {
						k = len(h.Blocks) - 1
					}
				}
				break
			}
		}
		if k == 0 {
			if rapid.IntRange(0, 6).Draw(t, "reorg") != 0 {
				return
			}
			k = rapid.IntRange(1, 3).Draw(t, "reorgDepth")
		}
		target := w.Replicas[0].Head().Height() - uint64(k)
		for _, r := range w.Replicas {
			if !r.AppState.State.HasVersion(target) || !r.AppState.IdentityState.HasVersion(target) {
				return
			}
		}
		across := false
		for _, b := range h.Blocks[len(h.Blocks)-k:] {
			if d := w.Replicas[0].Chain.GetIdentityDiff(b.Height()); !d.Empty() {
				across = true
				if b.IsEmpty() {
					evid.Count("a.reorg_over_empty_block_with_identity_diff")
				}
			}
		}
		for _, r := range w.Replicas {
			if _, err := r.Chain.ResetTo(target); err != nil {
				t.Fatalf("ResetTo(%d) on %s: %v", target, r.Name, err)
			}
		}
		h.Blocks = h.Blocks[:len(h.Blocks)-k]
		h.Note("reorg")
		*reorgs++
		if across {
			*reorgAcrossUpdate++
			h.Note("reorgAcrossIdentityDiff")
		}
	}
}

// ---- snapshots ----

func fullImage(d dbm.DB) map[string]string {
	res := map[string]string{}
	it, err := d.Iterator(nil, nil)
	if err != nil {
		panic(err)
	}
	defer it.Close()
	for ; it.Valid(); it.Next() {
		res[string(it.Key())] = string(it.Value())
	}
	return res
}

// genState builds a state with accounts, identities carrying optional fields,
// contract stores with empty values and long keys, over several versions.
func genState(t *rapid.T) (*state.StateDB, uint64, string) {
	s, _, versions, desc := genStateDB(t)
	return s, versions, desc
}

func genStateDB(t *rapid.T) (*state.StateDB, dbm.DB, uint64, string) {
	db := dbm.NewMemDB()
	s, err := state.NewLazy(db)
	if err != nil {
		t.Fatal(err)
	}
	s.Load(0)
	versions := rapid.IntRange(1, 4).Draw(t, "versions")
	desc := ""
	addr := func(i int) common.Address {
		var a common.Address
		a[0], a[19] = byte(i*37+1), byte(i)
		return a
	}
	for v := 0; v < versions; v++ {
		n := rapid.IntRange(0, 12).Draw(t, "objects")
		for i := 0; i < n; i++ {
			a := addr(rapid.IntRange(0, 15).Draw(t, "addr"))
			switch rapid.IntRange(0, 9).Draw(t, "kind") {
			case 0, 1:
				s.SetBalance(a, new(big.Int).Lsh(big.NewInt(int64(rapid.IntRange(0, 1000).Draw(t, "bal"))), uint(rapid.IntRange(0, 90).Draw(t, "shift"))))
				s.SetNonce(a, uint32(rapid.IntRange(0, 70000).Draw(t, "nonce")))
				desc += "A"
			case 2, 3:
				s.SetState(a, state.IdentityState(rapid.IntRange(1, 8).Draw(t, "st")))
				s.AddStake(a, big.NewInt(int64(rapid.IntRange(0, 1<<40).Draw(t, "stake"))))
				if rapid.Bool().Draw(t, "flips") {
					s.AddFlip(a, []byte{1, 2, byte(i)}, uint8(i))
				}
				if rapid.Bool().Draw(t, "deleg") {
					s.SetDelegatee(a, addr(rapid.IntRange(0, 15).Draw(t, "delegatee")))
				}
				if rapid.Bool().Draw(t, "pen") {
					s.SetPenaltySeconds(a, uint16(rapid.IntRange(0, 65535).Draw(t, "pensec")))
				}
				desc += "I"
			case 4, 5:
				key := rapid.SliceOfN(rapid.Byte(), 0, 70).Draw(t, "ckey")
				var val []byte
				switch rapid.IntRange(0, 2).Draw(t, "cvalKind") {
				case 0:
					val = []byte{} // empty value must survive the round trip
					desc += "e"
				default:
					val = rapid.SliceOfN(rapid.Byte(), 1, 200).Draw(t, "cval")
					desc += "c"
				}
				s.SetContractValue(a, key, val)
			case 6:
				s.DeployContract(a, common.Hash{byte(i + 1)}, big.NewInt(int64(rapid.IntRange(0, 1<<30).Draw(t, "cstake"))))
				desc += "D"
			case 7:
				s.DeployWasmContract(a, rapid.SliceOfN(rapid.Byte(), 1, 300).Draw(t, "code"))
				desc += "W"
			case 8:
				s.RemoveContractValue(a, rapid.SliceOfN(rapid.Byte(), 0, 4).Draw(t, "rkey"))
				desc += "r"
			case 9:
				s.SetFeePerGas(big.NewInt(int64(rapid.IntRange(0, 1<<50).Draw(t, "fpg"))))
				s.SetGodAddress(a)
				desc += "G"
			}
		}
		if _, _, _, err := s.Commit(true); err != nil {
			t.Fatalf("commit: %v", err)
		}
		desc += "|"
	}
	return s, db, uint64(versions), desc
}

func stateDump(s *state.StateDB) string {
	as := &appstate.AppState{State: s}
	img := sim.Image(as)
	var sb bytes.Buffer
	var addrs []common.Address
	for a := range img.Accounts {
		addrs = append(addrs, a)
	}
	for a := range img.RawIds {
		if _, ok := img.Accounts[a]; !ok {
			addrs = append(addrs, a)
		}
	}
	sortAddrs(addrs)
	for _, a := range addrs {
		acc := img.Accounts[a]
		ab, _ := acc.ToBytes()
		fmt.Fprintf(&sb, "%x acc=%x id=%x code=%x\n", a, ab, img.RawIds[a], s.GetContractCode(a))
	}
	var keys []string
	for k := range img.Misc {
		keys = append(keys, k)
	}
	sortStrings(keys)
	for _, k := range keys {
		fmt.Fprintf(&sb, "%s=%s\n", k, img.Misc[k])
	}
	fmt.Fprintf(&sb, "global=%x\n", img.Global)
	return sb.String()
}

// importInto imports an archive into a fresh store and returns the store, the
// raw database, and the error. A panic is converted into a test failure by rapid.
func importInto(archive []byte, height uint64, root common.Hash) (*state.StateDB, dbm.DB, error) {
	db := dbm.NewMemDB()
	s, err := state.NewLazy(db)
	if err != nil {
		return nil, nil, err
	}
	s.Load(0)
	// what a fresh, empty store holds by itself (its own prefix pointer); a refused import must leave exactly this
	freshStore = fullImage(db)
	err = s.RecoverSnapshot2(height, root, bytes.NewReader(archive))
	return s, db, err
}

var freshStore map[string]string

func leftBehind(db dbm.DB) []string {
	var ks []string
	for k, v := range fullImage(db) {
		if w, ok := freshStore[k]; !ok || w != v {
			ks = append(ks, fmt.Sprintf("%x", k))
		}
	}
	return ks
}

func checkImport(t *rapid.T, what string, archive []byte, height uint64, root common.Hash, wantDump string) (accepted bool) {
	return checkImportDeep(t, what, archive, height, root, wantDump, nil)
}

// deepCheck is what an accepted import is checked against beyond root and records (see contd_test.go).
type deepCheck struct {
	pristine []byte                         // the archive as exported
	ref      func() (*state.StateDB, error) // a private copy of the exporting state at the exported version
	leaves   [][]byte                       // record keys of the exported state
	gaps     [][2][]byte                    // (genuine, altered) keys of inner nodes the damage is known to have touched
}

func newDeepCheck(t *rapid.T, pristine []byte, ref func() (*state.StateDB, error)) *deepCheck {
	nodes, err := archiveNodes(pristine)
	if err != nil {
		t.Fatalf("own archive does not decode: %v", err)
	}
	return &deepCheck{pristine: pristine, ref: ref, leaves: leafKeys(nodes)}
}

func (d *deepCheck) withGap(genuine, altered []byte) *deepCheck {
	c := *d
	c.gaps = [][2][]byte{{genuine, altered}}
	return &c
}

// archiveDiff names the first node in which two archives differ.
func archiveDiff(got, want []byte) string {
	g, err1 := archiveNodes(got)
	w, err2 := archiveNodes(want)
	if err1 != nil || err2 != nil {
		return fmt.Sprintf("(archives do not decode: %v, %v)", err1, err2)
	}
	for i := 0; i < len(g) && i < len(w); i++ {
		if !bytes.Equal(g[i].Key, w[i].Key) || !bytes.Equal(g[i].Value, w[i].Value) || g[i].Height != w[i].Height || g[i].Version != w[i].Version || g[i].EmptyValue != w[i].EmptyValue {
			return fmt.Sprintf("node #%d of %d: new export has {height %d version %d key %x value %x}, original archive has {height %d version %d key %x value %x}",
				i, len(w), g[i].Height, g[i].Version, g[i].Key, g[i].Value, w[i].Height, w[i].Version, w[i].Key, w[i].Value)
		}
	}
	return fmt.Sprintf("new export has %d nodes, original archive %d (framing or node count differs)", len(g), len(w))
}

func checkImportDeep(t *rapid.T, what string, archive []byte, height uint64, root common.Hash, wantDump string, deep *deepCheck) (accepted bool) {
	s, db, err := importInto(archive, height, root)
	if err != nil {
		if ks := leftBehind(db); len(ks) != 0 {
			t.Fatalf("%s: import refused (%v) but left %d keys behind, e.g. %s", what, err, len(ks), ks[0])
		}
		return false
	}
	s.CommitSnapshot(height, nil)
	if s.Root() != root {
		t.Fatalf("%s: import accepted with root %x, advertised %x", what, s.Root(), root)
	}
	if got := stateDump(s); got != wantDump {
		t.Fatalf("%s: import accepted but contents differ from the exported state:\n--- imported\n%s--- exported\n%s", what, got, wantDump)
	}
	if deep == nil {
		return true
	}
	// the imported tree is the exported one: a new export is the original archive ...
	var again bytes.Buffer
	if r, err := s.WriteSnapshot2(height, &again); err != nil || r != root {
		t.Fatalf("%s: import accepted, but the imported state cannot be exported again with the same root: %x, %v", what, r, err)
	}
	evid.Count("cont.reexports_compared")
	if !bytes.Equal(again.Bytes(), deep.pristine) {
		t.Fatalf("%s: import accepted with the advertised root and the exported records, but the imported tree is not the exported one: a new export of it is another archive; %s",
			what, archiveDiff(again.Bytes(), deep.pristine))
	}
	// ... and the chain continues on it exactly as on the exporting node
	ref, err := deep.ref()
	if err != nil {
		t.Fatalf("copy of the exporting state: %v", err)
	}
	if ref.Root() != root {
		t.Fatalf("copy of the exporting state has root %x, exported %x", ref.Root(), root)
	}
	blocks := genContinuation(t, deep.leaves, deep.gaps)
	continueBoth(t, what, ref, s, blocks)
	return true
}

// (b) export/import reproduces root and contents; (c) any corruption of the
// archive is refused without leaving state behind, or still yields exactly
// the advertised root and contents.
func TestSnapshotRoundTripAndCorruption(t *testing.T) {
	rapid.Check(t, func(t *rapid.T) {
		evid.Eval()
		src, srcDb, height, desc := genStateDB(t)
		var buf bytes.Buffer
		root, err := src.WriteSnapshot2(height, &buf)
		if err != nil {
			t.Fatalf("export: %v", err)
		}
		if root != src.Root() {
			t.Fatalf("export returned root %x, state root is %x", root, src.Root())
		}
		archive := buf.Bytes()
		want := stateDump(src)
		deep := newDeepCheck(t, archive, func() (*state.StateDB, error) { return copyState(srcDb, height) })
		if !checkImportDeep(t, "pristine archive", archive, height, root, want, deep) {
			t.Fatalf("pristine archive refused (state %s)", desc)
		}
		evid.Count("b.roundtrip_ok")
		if bytes.Contains([]byte(desc), []byte("e")) {
			evid.Count("b.with_empty_contract_value")
		}
		// (c) corruptions
		n := rapid.IntRange(1, 12).Draw(t, "corruptions")
		for i := 0; i < n; i++ {
			evid.Eval()
			c := append([]byte{}, archive...)
			kind := rapid.SampledFrom([]string{"flip", "flip", "flip", "truncate", "truncate-block", "garbage", "drop-block", "dup-block", "zero-run", "inner-key", "inner-key", "inner-key", "node-field"}).Draw(t, "corruption")
			label, dc := kind, deep
			switch kind {
			case "inner-key":
				// structure-aware: the key of a drawn inner node (not covered by the tree hashes) is altered
				altered, genuine, changed, how := alterInnerKey(t, archive)
				if altered == nil {
					evid.Count("c.inner-key.no_inner_node")
					continue
				}
				c, label, dc = altered, kind+"."+how, deep.withGap(genuine, changed)
				evid.Sample("inner-key", fmt.Sprintf("%s: %x -> %x", how, genuine, changed))
			case "node-field":
				// structure-aware: another field of a drawn node, or the node sequence itself
				altered, how := alterNode(t, archive)
				if altered == nil {
					continue
				}
				c, label = altered, kind+"."+how
			case "flip":
				off := rapid.IntRange(0, len(c)-1).Draw(t, "off")
				c[off] ^= byte(1 << uint(rapid.IntRange(0, 7).Draw(t, "bit")))
			case "truncate":
				c = c[:rapid.IntRange(0, len(c)-1).Draw(t, "len")]
			case "truncate-block":
				blocks := len(c) / 512
				c = c[:512*rapid.IntRange(0, blocks).Draw(t, "blocks")]
			case "garbage":
				c = append(c, rapid.SliceOfN(rapid.Byte(), 1, 1024).Draw(t, "garbage")...)
			case "drop-block":
				blocks := len(c) / 512
				if blocks < 2 {
					continue
				}
				b := rapid.IntRange(0, blocks-1).Draw(t, "block")
				c = append(append([]byte{}, c[:b*512]...), c[(b+1)*512:]...)
			case "dup-block":
				blocks := len(c) / 512
				if blocks < 1 {
					continue
				}
				b := rapid.IntRange(0, blocks-1).Draw(t, "block")
				c = append(append(append([]byte{}, c[:(b+1)*512]...), c[b*512:(b+1)*512]...), c[(b+1)*512:]...)
			case "zero-run":
				off := rapid.IntRange(0, len(c)-1).Draw(t, "off")
				for j := off; j < len(c) && j < off+rapid.IntRange(1, 64).Draw(t, "run"); j++ {
					c[j] = 0
				}
			}
			if bytes.Equal(c, archive) {
				continue
			}
			accepted := checkImportDeep(t, "corrupted archive ("+label+")", c, height, root, want, dc)
			if accepted {
				evid.Count("c." + label + ".accepted_with_exact_contents")
			} else {
				evid.Count("c." + label + ".refused_clean")
			}
			if kind == "inner-key" {
				evid.Count("c.inner-key.evaluated")
			}
			evid.NonTrivial(fmt.Sprintf("c|%s|%d|%v", kind, len(c), accepted))
		}
		// a wrong advertised root must be refused as well
		wrong := root
		wrong[3] ^= 0x10
		if s, db, err := importInto(archive, height, wrong); err == nil {
			_ = s
			t.Fatalf("archive accepted under a wrong advertised root")
		} else if len(leftBehind(db)) != 0 {
			t.Fatalf("import refused for a wrong root but left keys behind")
		}
		evid.Sample("snapshot", fmt.Sprintf("state=%s archive=%dB", desc, len(archive)))
		_ = kf.Listed
	})
}

// (b') snapshots of states produced by world histories round-trip as well.
func TestSnapshotOfHistoryState(t *testing.T) {
	rapid.Check(t, func(t *rapid.T) {
		h := sim.RunHistory(t, sim.Options{MinActors: 3, MaxActors: 8, Replicas: 1, MaxReplicas: 3, Steps: 18, MaxTxPerStep: 6})
		evid.Eval()
		r := h.W.Replicas[0]
		height := r.Head().Height()
		var buf bytes.Buffer
		root, err := r.AppState.State.WriteSnapshot2(height, &buf)
		if err != nil {
			t.Fatalf("export: %v", err)
		}
		if root != r.Head().Root() {
			t.Fatalf("exported root %x differs from the header root %x", root, r.Head().Root())
		}
		ro, err := r.AppState.State.Readonly(int64(height))
		if err != nil {
			t.Fatal(err)
		}
		deep := newDeepCheck(t, buf.Bytes(), func() (*state.StateDB, error) { return copyState(r.DB, height) })
		if !checkImportDeep(t, "history snapshot", buf.Bytes(), height, root, stateDump(ro), deep) {
			t.Fatalf("snapshot of a history state refused")
		}
		evid.Count("b.history_snapshot_ok")
		// the same archive with altered keys of inner nodes: refused, or accepted as exactly the exported tree
		for i := rapid.IntRange(1, 4).Draw(t, "innerKeyEdits"); i > 0; i-- {
			altered, genuine, changed, how := alterInnerKey(t, buf.Bytes())
			if altered == nil {
				break
			}
			evid.Eval()
			if checkImportDeep(t, "history snapshot with the key of an inner node altered ("+how+")", altered, height, root, stateDump(ro), deep.withGap(genuine, changed)) {
				evid.Count("bh.inner-key." + how + ".accepted_with_exact_contents")
			} else {
				evid.Count("bh.inner-key." + how + ".refused_clean")
			}
			evid.Count("bh.inner-key.evaluated")
		}
		evid.NonTrivial("bh|" + h.Descriptor())
	})
}

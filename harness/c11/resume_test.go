package c11

import (
	"fmt"
	"testing"
	"time"

	"github.com/idena-network/idena-go/blockchain/types"
	dbm "github.com/tendermint/tm-db"
	"pgregory.net/rapid"

	"verifharness/internal/crashdb"
	"verifharness/internal/evid"
	"verifharness/internal/sim"
)

// A fast sync that is interrupted (process death at a drawn storage write before the switch) and resumed after the
// restart from its stored preliminary head: the identity diffs the honest source serves, replayed on top of the
// preliminary identity state the node kept, must keep reproducing the header identity roots, and the node must end
// with exactly the source's head, roots and ledger.
func TestResumedFastSync(t *testing.T) {
	rapid.Check(t, func(t *rapid.T) {
		steps := rapid.IntRange(8, 22).Draw(t, "steps")
		earlyAt := rapid.IntRange(0, 3).Draw(t, "syncFrom")
		var early dbm.DB
		opt := sim.Options{MinActors: 4, MaxActors: 8, Replicas: 1, MaxReplicas: 3, Steps: steps, MaxTxPerStep: 6,
			OnlyTypes: []types.TxType{types.OnlineStatusTx, types.OnlineStatusTx, types.OnlineStatusTx, types.DelegateTx, types.DelegateTx, types.UndelegateTx, types.KillTx, types.KillDelegatorTx,
				types.InviteTx, types.ActivationTx, types.SendTx, types.ReplenishStakeTx, types.ChangeGodAddressTx}}
		opt.BetweenBlocks = func(h *sim.History) {
			if len(h.Blocks) == earlyAt && early == nil {
				early = sim.CopyDB(h.W.Replicas[0].DB)
			}
		}
		h := sim.RunHistory(t, opt)
		w := h.W
		src := w.Replicas[0]
		target := src.Head().Height() - uint64(rapid.IntRange(0, 2).Draw(t, "snapshotBack"))
		mk := func(name string, db *crashdb.DB) *sim.Replica {
			r := &sim.Replica{W: w, Name: name, Key: w.Actors[1].Key, Addr: w.Actors[1].Addr, DB: db, Ipfs: src.Ipfs, Loc: time.UTC}
			if err := r.Start(); err != nil {
				t.Fatalf("start %s: %v", name, err)
			}
			return r
		}
		dry := crashdb.New(early)
		n0 := mk("dry", dry)
		if target <= n0.Head().Height()+1 {
			return
		}
		oldHead := n0.Head().Height()
		dry.Arm(0)
		switchAt := 0
		if _, err := sim.FastSync(src, n0, target, func() { switchAt = dry.Writes() }); err != nil {
			t.Fatalf("fast sync against an honest source fails: %v\nhistory:\n%s", err, h.Summary())
		}
		if switchAt < 2 {
			return
		}
		diffs := 0
		for x := oldHead + 1; x <= target; x++ {
			if d := src.Chain.GetIdentityDiff(x); d != nil && !d.Empty() {
				diffs++
			}
		}
		points := rapid.IntRange(1, 6).Draw(t, "crashPoints")
		for i := 0; i < points; i++ {
			// spread over the whole run (rapid's integers are biased to small values)
			k := 1 + (switchAt-1)*rapid.IntRange(0, 24).Draw(t, "crashAt24ths")/24
			if rapid.IntRange(0, 3).Draw(t, "exactPoint") == 0 {
				k = switchAt - rapid.IntRange(0, switchAt-1).Draw(t, "crashBeforeSwitchBy")
			}
			evid.Eval()
			cdb := crashdb.New(early)
			n := mk("crash", cdb)
			cdb.Arm(k)
			crashed := func() (crashed bool) {
				defer func() {
					if r := recover(); r != nil {
						if _, ok := r.(crashdb.Crash); ok {
							crashed = true
							return
						}
						panic(r)
					}
				}()
				if _, err := sim.FastSync(src, n, target, nil); err != nil {
					t.Fatalf("fast sync on the crash node: %v", err)
				}
				return false
			}()
			if !crashed {
				t.Fatalf("crash point %d of %d did not fire", k, switchAt)
			}
			img := crashdb.New(sim.CopyDB(cdb.Image()))
			r := mk("resumed", img)
			if r.Head().Height() != oldHead {
				t.Fatalf("a fast sync interrupted before its switch moved the head from %d to %d", oldHead, r.Head().Height())
			}
			where := fmt.Sprintf("fast sync %d -> %d interrupted before write %d of %d (switch after %d), %d blocks with identity diffs", oldHead, target, k, switchAt, switchAt, diffs)
			if _, err := sim.FastSync(src, r, target, nil); err != nil {
				t.Fatalf("resumed fast sync against the honest source fails (%s; %s): %v\nhistory:\n%s", where, sim.Resumed, err, h.Summary())
			}
			how := sim.Resumed
			if r.Head().Height() != target {
				t.Fatalf("resumed fast sync ended at %d, target %d (%s)", r.Head().Height(), target, where)
			}
			hdr := src.Chain.GetBlockHeaderByHeight(target)
			if r.Head().Hash() != hdr.Hash() || r.AppState.State.Root() != hdr.Root() || r.AppState.IdentityState.Root() != hdr.IdentityRoot() {
				t.Fatalf("resumed fast sync: head/roots differ from the source's header %d (%s; %s)", target, where, how)
			}
			for x := target + 1; x <= src.Head().Height(); x++ {
				if err := r.AddBlock(src.Chain.GetBlockByHeight(x)); err != nil {
					t.Fatalf("node refuses block %d after the resumed fast sync (%s; %s): %v", x, where, how, err)
				}
			}
			if d := sim.DiffImages(sim.Image(src.ReadState()), sim.Image(r.ReadState()), w.Name); len(d) > 0 {
				t.Fatalf("ledger of the node differs from the source after the resumed fast sync (%s; %s): %v", where, how, d)
			}
			class := "fresh"
			if len(how) >= 7 && how[:7] == "resumed" {
				class = "resumed"
			} else if how != "" {
				class = "dropped"
			}
			evid.Count("resume." + class)
			if class == "resumed" && diffs > 0 {
				evid.Count("resume.resumed_with_identity_diffs")
				evid.NonTrivial(fmt.Sprintf("resume|%s|diffs=%d|k=%d/%d", class, diffs, (k*6)/switchAt, 6))
				evid.Sample("resume", where+"; "+how)
			}
		}
	})
}

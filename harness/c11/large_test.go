package c11

import (
	"bytes"
	"fmt"
	"math/big"
	"strconv"
	"strings"
	"sync"
	"testing"

	"github.com/idena-network/idena-go/common"
	"github.com/idena-network/idena-go/core/state"
	dbm "github.com/tendermint/tm-db"
	"pgregory.net/rapid"

	"verifharness/internal/evid"
)

// A snapshot of a state with more nodes than one archive block and one importer batch hold (10000 each): the importer
// has then flushed nodes to the database before the damaged place is reached, so "a refused import leaves no partial
// state behind" is only exercised on archives of this size. The state is a fixed fixture (built once per process); the
// generated part is the damage, which is structure-aware: bytes of the tar headers, of the end-of-archive marker, of
// the data of a chosen block, truncations inside headers / at block boundaries / anywhere, dropped, doubled and
// swapped archive members.
type largeFixture struct {
	archive []byte
	height  uint64
	root    common.Hash
	dump    string
	headers []int // offsets of the member headers
	sizes   []int // data sizes of the members
	trailer int   // offset of the end-of-archive marker
	db      dbm.DB
	leaves  [][]byte // record keys
}

var (
	largeOnce sync.Once
	large     *largeFixture
	largeErr  error
)

func buildLarge() (*largeFixture, error) {
	db := dbm.NewMemDB()
	s, err := state.NewLazy(db)
	if err != nil {
		return nil, err
	}
	s.Load(0)
	const accounts = 11000
	for v := 0; v < 2; v++ {
		for i := v * accounts / 2; i < (v+1)*accounts/2; i++ {
			var a common.Address
			a[0], a[1], a[2], a[19] = byte(i), byte(i>>8), byte(i*7), byte(i%5)
			s.SetBalance(a, big.NewInt(int64(i)*1000+1))
			if i%97 == 0 {
				s.SetState(a, state.Verified)
				s.AddStake(a, big.NewInt(int64(i)))
			}
			if i%501 == 0 {
				s.SetContractValue(a, []byte{byte(i)}, []byte{})
			}
		}
		if _, _, _, err := s.Commit(true); err != nil {
			return nil, err
		}
	}
	f := &largeFixture{height: 2, db: db}
	var buf bytes.Buffer
	if f.root, err = s.WriteSnapshot2(f.height, &buf); err != nil {
		return nil, err
	}
	f.archive = buf.Bytes()
	f.dump = stateDump(s)
	nodes, err := archiveNodes(f.archive)
	if err != nil {
		return nil, err
	}
	f.leaves = leafKeys(nodes)
	// walk the ustar framing
	off := 0
	for off+512 <= len(f.archive) {
		h := f.archive[off : off+512]
		if bytes.Equal(h, make([]byte, 512)) {
			break
		}
		sz, err := strconv.ParseInt(strings.Trim(string(h[124:136]), " \x00"), 8, 64)
		if err != nil {
			return nil, fmt.Errorf("cannot parse the member size at %d: %v", off, err)
		}
		f.headers = append(f.headers, off)
		f.sizes = append(f.sizes, int(sz))
		off += 512 + (int(sz)+511)/512*512
	}
	f.trailer = off
	if len(f.headers) < 2 {
		return nil, fmt.Errorf("fixture has only %d archive members", len(f.headers))
	}
	return f, nil
}

func TestLargeSnapshotCorruption(t *testing.T) {
	largeOnce.Do(func() { large, largeErr = buildLarge() })
	if largeErr != nil {
		t.Fatalf("fixture: %v", largeErr)
	}
	f := large
	rapid.Check(t, func(t *rapid.T) {
		evid.Eval()
		c := append([]byte{}, f.archive...)
		member := rapid.IntRange(0, len(f.headers)-1).Draw(t, "member")
		// later members are the interesting ones: something has been flushed before them
		if member == 0 && rapid.Bool().Draw(t, "preferLater") {
			member = len(f.headers) - 1
		}
		kind := rapid.SampledFrom([]string{"header-byte", "header-byte", "trailer-byte", "data-byte", "cut-in-header", "cut-at-member", "cut-anywhere", "cut-in-trailer",
			"drop-member", "dup-member", "swap-members", "pristine", "inner-key"}).Draw(t, "damage")
		hdr, end := f.headers[member], f.trailer
		if member+1 < len(f.headers) {
			end = f.headers[member+1]
		}
		// an accepted import must also be the exported TREE: new export = the archive, same roots after the same next blocks
		deep := &deepCheck{pristine: f.archive, leaves: f.leaves, ref: func() (*state.StateDB, error) { return copyState(f.db, f.height) }}
		switch kind {
		case "inner-key":
			// the key of a drawn inner node (any member) is altered: not covered by the tree hashes
			altered, genuine, changed, how := alterInnerKey(t, f.archive)
			if altered == nil {
				t.Fatalf("fixture has no inner node")
			}
			c, deep = altered, deep.withGap(genuine, changed)
			kind += "." + how
		case "header-byte":
			off := hdr + rapid.IntRange(0, 511).Draw(t, "off")
			c[off] ^= byte(1 << uint(rapid.IntRange(0, 7).Draw(t, "bit")))
		case "trailer-byte":
			if f.trailer >= len(c) {
				return
			}
			off := f.trailer + rapid.IntRange(0, len(c)-f.trailer-1).Draw(t, "off")
			c[off] ^= byte(1 << uint(rapid.IntRange(0, 7).Draw(t, "bit")))
		case "data-byte":
			off := hdr + 512 + rapid.IntRange(0, f.sizes[member]-1).Draw(t, "off")
			c[off] ^= byte(1 << uint(rapid.IntRange(0, 7).Draw(t, "bit")))
		case "cut-in-header":
			c = c[:hdr+rapid.IntRange(1, 511).Draw(t, "off")]
		case "cut-at-member":
			c = c[:hdr]
		case "cut-anywhere":
			c = c[:hdr+rapid.IntRange(0, end-hdr-1).Draw(t, "off")]
		case "cut-in-trailer":
			if f.trailer >= len(c) {
				return
			}
			c = c[:f.trailer+rapid.IntRange(0, len(c)-f.trailer-1).Draw(t, "off")]
		case "drop-member":
			c = append(append([]byte{}, c[:hdr]...), c[end:]...)
		case "dup-member":
			c = append(append(append([]byte{}, c[:end]...), c[hdr:end]...), c[end:]...)
		case "swap-members":
			if member == 0 {
				member = 1
				hdr, end = f.headers[1], f.trailer
				if 2 < len(f.headers) {
					end = f.headers[2]
				}
			}
			prev := f.headers[member-1]
			c = append(append(append(append([]byte{}, c[:prev]...), c[hdr:end]...), c[prev:hdr]...), c[end:]...)
		}
		accepted := checkImportDeep(t, fmt.Sprintf("large archive (%d members), %s at member %d", len(f.headers), kind, member), c, f.height, f.root, f.dump, deep)
		if kind == "pristine" && !accepted {
			t.Fatalf("pristine large archive refused")
		}
		if accepted {
			evid.Count("large." + kind + ".accepted_with_exact_contents")
		} else {
			evid.Count("large." + kind + ".refused_clean")
		}
		if member > 0 && kind != "pristine" && !strings.HasPrefix(kind, "inner-key") {
			evid.Count("large.damage_behind_flushed_nodes")
			evid.NonTrivial(fmt.Sprintf("large|%s|m%d|%v|%d", kind, member, accepted, len(c)%4096))
		}
		evid.Sample("large", fmt.Sprintf("%s member=%d/%d accepted=%v", kind, member, len(f.headers), accepted))
	})
}

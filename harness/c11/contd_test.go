package c11

import (
	"archive/tar"
	"bytes"
	"fmt"
	"io"
	"math/big"

	"github.com/golang/protobuf/proto"
	"github.com/idena-network/idena-go/common"
	"github.com/idena-network/idena-go/core/state"
	models "github.com/idena-network/idena-go/protobuf"
	dbm "github.com/tendermint/tm-db"
	"pgregory.net/rapid"

	"verifharness/internal/evid"
	"verifharness/internal/sim"
)

// What an ACCEPTED import is checked for beyond the root and the readable records: the imported tree has to be the
// exported one. Two observations decide that:
//   - a new export of the imported state is the original archive, byte for byte;
//   - the chain continues on it: the same next blocks (generated writes: updates and removals of existing records, new
//     records next to existing ones, and - when the damage is known to sit in the key of an inner node - new records
//     whose keys fall between the genuine and the altered key) applied to the exporting and to the importing state give
//     the same state roots, version after version.
// Keys of inner nodes route every later insertion and are not covered by the tree hashes, so root + records cannot
// see a tree that differs in them.

// archiveNodes decodes the node list of a snapshot archive (post-order, as exported).
func archiveNodes(archive []byte) ([]*models.ProtoSnapshotNodes_Node, error) {
	var res []*models.ProtoSnapshotNodes_Node
	tr := tar.NewReader(bytes.NewReader(archive))
	for {
		_, err := tr.Next()
		if err == io.EOF {
			return res, nil
		}
		if err != nil {
			return nil, err
		}
		data, err := io.ReadAll(tr)
		if err != nil {
			return nil, err
		}
		sb := new(models.ProtoSnapshotNodes)
		if err := proto.Unmarshal(data, sb); err != nil {
			return nil, err
		}
		res = append(res, sb.Nodes...)
	}
}

func leafKeys(nodes []*models.ProtoSnapshotNodes_Node) [][]byte {
	var res [][]byte
	for _, n := range nodes {
		if n.Height == 0 {
			res = append(res, n.Key)
		}
	}
	return res
}

// contWrite is one write of a continuation block, addressed by the raw tree key: 0x01|address = account,
// 0x02|address = identity, 0x05|address|key = contract store value. Other keys cannot be written by a block.
type contWrite struct {
	key    []byte
	salt   int
	remove bool
}

func (w contWrite) String() string {
	if w.remove {
		return fmt.Sprintf("del %x", w.key)
	}
	return fmt.Sprintf("set %x", w.key)
}

func writable(k []byte) bool {
	if len(k) < 1+common.AddressLength {
		return false
	}
	switch k[0] {
	case 1, 2:
		return len(k) == 1+common.AddressLength
	case 5:
		return true
	}
	return false
}

func applyWrite(s *state.StateDB, w contWrite) {
	var a common.Address
	copy(a[:], w.key[1:1+common.AddressLength])
	switch w.key[0] {
	case 1:
		if w.remove {
			s.SetBalance(a, new(big.Int))
			s.SetNonce(a, 0)
			return
		}
		s.SetBalance(a, big.NewInt(int64(100000+w.salt)))
	case 2:
		if w.remove {
			s.SetState(a, state.Killed)
			return
		}
		s.SetState(a, state.Candidate)
		s.AddStake(a, big.NewInt(int64(1+w.salt)))
	case 5:
		if w.remove {
			s.RemoveContractValue(a, w.key[1+common.AddressLength:])
			return
		}
		s.SetContractValue(a, w.key[1+common.AddressLength:], []byte{byte(w.salt), 0xc1})
	}
}

// shiftKey adds delta*256^pos (pos counted from the end) to the key read as a big-endian number of fixed length;
// nil when that leaves the key space of the record kind (first byte) or the length.
func shiftKey(k []byte, pos int, delta int64) []byte {
	if len(k) == 0 {
		return nil
	}
	if pos > len(k)-1 {
		pos = len(k) - 1
	}
	v := new(big.Int).SetBytes(k)
	d := new(big.Int).Lsh(big.NewInt(1), uint(8*pos))
	v.Add(v, d.Mul(d, big.NewInt(delta)))
	if v.Sign() < 0 || v.BitLen() > 8*len(k) {
		return nil
	}
	res := v.FillBytes(make([]byte, len(k)))
	if res[0] != k[0] {
		return nil
	}
	return res
}

// between lists keys inside [lo, hi) for two keys of one record kind: lo itself, its successor, the predecessor of hi
// and the midpoint (byte strings of the length of the longer key).
func between(lo, hi []byte) [][]byte {
	if bytes.Compare(lo, hi) > 0 {
		lo, hi = hi, lo
	}
	n := len(lo)
	if len(hi) > n {
		n = len(hi)
	}
	pad := func(k []byte) *big.Int {
		return new(big.Int).SetBytes(append(append([]byte{}, k...), make([]byte, n-len(k))...))
	}
	l, h := pad(lo), pad(hi)
	var res [][]byte
	add := func(v *big.Int) {
		if v.Cmp(l) < 0 || v.Cmp(h) >= 0 || len(v.Bytes()) > n {
			return
		}
		k := v.FillBytes(make([]byte, n))
		if bytes.Compare(k, lo) >= 0 && bytes.Compare(k, hi) < 0 {
			res = append(res, k)
		}
	}
	res = append(res, lo)
	add(new(big.Int).Add(l, big.NewInt(1)))
	add(new(big.Int).Sub(h, big.NewInt(1)))
	add(new(big.Int).Rsh(new(big.Int).Add(l, h), 1))
	var uniq [][]byte
	for _, k := range res {
		dup := false
		for _, u := range uniq {
			dup = dup || bytes.Equal(u, k)
		}
		if !dup {
			uniq = append(uniq, k)
		}
	}
	return uniq
}

// genContinuation draws 1-2 continuation blocks. leaves are the record keys of the exported state, gaps are key
// pairs (genuine, altered) of inner nodes the damage is known to have touched: every key between them is written in
// the first block, the rest is drawn around existing records.
func genContinuation(t *rapid.T, leaves [][]byte, gaps [][2][]byte) [][]contWrite {
	var blocks [][]contWrite
	var first []contWrite
	for _, g := range gaps {
		for i, k := range between(g[0], g[1]) {
			if writable(k) {
				first = append(first, contWrite{key: k, salt: i})
			}
		}
	}
	var bases [][]byte
	for _, k := range leaves {
		if writable(k) {
			bases = append(bases, k)
		}
	}
	rounds := rapid.IntRange(1, 2).Draw(t, "contBlocks")
	for r := 0; r < rounds; r++ {
		var ws []contWrite
		if r == 0 {
			ws = first
		}
		n := rapid.IntRange(1, 6).Draw(t, "contWrites")
		for i := 0; i < n && len(bases) > 0; i++ {
			k := bases[rapid.IntRange(0, len(bases)-1).Draw(t, "contBase")]
			w := contWrite{salt: r*16 + i}
			switch rapid.IntRange(0, 7).Draw(t, "contOp") {
			case 0, 1, 2: // a new record right below / above an existing one, in a drawn byte
				delta := int64(rapid.IntRange(1, 3).Draw(t, "contDelta"))
				if rapid.Bool().Draw(t, "contBelow") {
					delta = -delta
				}
				pos := 0
				if rapid.IntRange(0, 2).Draw(t, "contHighByte") == 0 {
					pos = rapid.IntRange(1, len(k)-2).Draw(t, "contPos")
				}
				w.key = shiftKey(k, pos, delta)
			case 3: // a contract store key that is a prefix / an extension of an existing one
				if k[0] == 5 {
					if len(k) > 1+common.AddressLength && rapid.Bool().Draw(t, "contShorter") {
						w.key = k[:len(k)-1]
					} else {
						w.key = append(append([]byte{}, k...), byte(rapid.IntRange(0, 255).Draw(t, "contExt")))
					}
				}
			case 4: // the midpoint to another record of the same kind
				o := bases[rapid.IntRange(0, len(bases)-1).Draw(t, "contOther")]
				if o[0] == k[0] && !bytes.Equal(o, k) {
					if b := between(k, o); len(b) > 0 {
						w.key = b[len(b)-1]
					}
				}
			case 5:
				w.key, w.remove = k, true
			default:
				w.key = k // update
			}
			if w.key != nil && writable(w.key) {
				ws = append(ws, w)
			}
		}
		blocks = append(blocks, ws)
	}
	return blocks
}

// copyState opens a second state object on a copy of the database of s at its current version.
func copyState(db dbm.DB, version uint64) (*state.StateDB, error) {
	c, err := state.NewLazy(sim.CopyDB(db))
	if err != nil {
		return nil, err
	}
	if err := c.Load(version); err != nil {
		return nil, err
	}
	return c, nil
}

// continueBoth applies the continuation blocks to the exporting state (ref, a private copy) and to the importing one
// and compares the roots after every block.
func continueBoth(t *rapid.T, what string, ref, imported *state.StateDB, blocks [][]contWrite) {
	for i, ws := range blocks {
		for _, w := range ws {
			applyWrite(ref, w)
			applyWrite(imported, w)
		}
		_, r1, _, err1 := ref.Commit(true)
		_, r2, _, err2 := imported.Commit(true)
		if err1 != nil || err2 != nil {
			t.Fatalf("%s: commit of continuation block %d: exporting state %v, importing state %v", what, i+1, err1, err2)
		}
		evid.Count("cont.blocks_applied_on_imported_state")
		if !bytes.Equal(r1, r2) {
			t.Fatalf("%s: import accepted with the advertised root and the exported records, but the imported tree is not the exported one: after the same next block #%d (%v) the importing state has root %x, the exporting state %x",
				what, i+1, ws, r2, r1)
		}
	}
}

// innerKeyEdits: what happens to the key of an inner node. The lowering ones keep the key a separator of the two
// subtrees (greater than every key on the left, not greater than any key on the right) in nearly all cases, because
// neighbouring record keys are far apart.
var innerKeyEdits = []string{"lower-last-byte", "lower-last-byte", "lower-byte", "lower-byte", "raise-last-byte", "raise-byte", "shorter", "longer", "just-above-left", "midpoint", "left-max", "random"}

// alterInnerKey rewrites the archive with the key of a drawn inner node altered in a drawn way. It returns the
// genuine and the altered key (nil when the archive has no inner node).
func alterInnerKey(t *rapid.T, archive []byte) (altered []byte, genuine, changed []byte, how string) {
	nodes, err := archiveNodes(archive)
	if err != nil {
		t.Fatalf("own archive does not decode: %v", err)
	}
	var inner []int
	for i, n := range nodes {
		if n.Height > 0 {
			inner = append(inner, i)
		}
	}
	if len(inner) == 0 {
		return nil, nil, nil, ""
	}
	at := inner[rapid.IntRange(0, len(inner)-1).Draw(t, "innerNode")]
	genuine = nodes[at].Key
	// the largest record key below the genuine one (= largest key of the left subtree)
	var below []byte
	for _, n := range nodes {
		if n.Height == 0 && bytes.Compare(n.Key, genuine) < 0 && (below == nil || bytes.Compare(n.Key, below) > 0) {
			below = n.Key
		}
	}
	if len(genuine) < 3 {
		// the one-byte keys of the singleton records: only the length can change
		how = rapid.SampledFrom([]string{"longer", "random", "left-max"}).Draw(t, "innerKeyEditShort")
	} else {
		how = rapid.SampledFrom(innerKeyEdits).Draw(t, "innerKeyEdit")
	}
	switch how {
	case "lower-last-byte":
		changed = shiftKey(genuine, 0, -int64(rapid.IntRange(1, 4).Draw(t, "by")))
	case "raise-last-byte":
		changed = shiftKey(genuine, 0, int64(rapid.IntRange(1, 4).Draw(t, "by")))
	case "lower-byte":
		changed = shiftKey(genuine, rapid.IntRange(0, len(genuine)-2).Draw(t, "pos"), -int64(rapid.IntRange(1, 255).Draw(t, "by")))
	case "raise-byte":
		changed = shiftKey(genuine, rapid.IntRange(0, len(genuine)-2).Draw(t, "pos"), int64(rapid.IntRange(1, 255).Draw(t, "by")))
	case "shorter":
		changed = append([]byte{}, genuine[:len(genuine)-rapid.IntRange(1, len(genuine)-1).Draw(t, "cut")]...)
	case "longer":
		changed = append(append([]byte{}, genuine...), rapid.SliceOfN(rapid.Byte(), 1, 3).Draw(t, "ext")...)
	case "just-above-left":
		if below != nil {
			changed = append(append([]byte{}, below...), 0)
		}
	case "midpoint":
		if below != nil {
			if b := between(below, genuine); len(b) > 0 {
				changed = b[len(b)-1]
			}
		}
	case "left-max":
		changed = below
	case "random":
		changed = rapid.SliceOfN(rapid.Byte(), 0, 24).Draw(t, "key")
	}
	if changed == nil || bytes.Equal(changed, genuine) {
		changed = shiftKey(genuine, 0, -1)
		how = "lower-last-byte"
		if changed == nil {
			return nil, nil, nil, ""
		}
	}
	seen := 0
	altered, err = repack(archive, func(ns []*models.ProtoSnapshotNodes_Node) {
		for _, n := range ns {
			if seen == at {
				n.Key = changed
			}
			seen++
		}
	})
	if err != nil {
		t.Fatalf("repack: %v", err)
	}
	return altered, genuine, changed, how
}

// alterNode rewrites the archive with another field of a drawn node altered (version, height, value, the empty-value
// mark), or with the node sequence altered (a node dropped, doubled, swapped with its successor).
func alterNode(t *rapid.T, archive []byte) (altered []byte, how string) {
	nodes, err := archiveNodes(archive)
	if err != nil {
		t.Fatalf("own archive does not decode: %v", err)
	}
	if len(nodes) == 0 {
		return nil, ""
	}
	at := rapid.IntRange(0, len(nodes)-1).Draw(t, "node")
	how = rapid.SampledFrom([]string{"version-down", "version-up", "height-up", "height-down", "value-bit", "value-on-inner-node", "empty-mark", "leaf-key-byte", "drop-node", "double-node", "swap-nodes"}).Draw(t, "nodeEdit")
	seen := 0
	altered, err = repack(archive, func(ns []*models.ProtoSnapshotNodes_Node) {
		for i, n := range ns {
			if seen == at {
				switch how {
				case "version-down":
					if n.Version > 0 {
						n.Version--
					}
				case "version-up":
					n.Version++
				case "height-up":
					n.Height++
				case "height-down":
					if n.Height > 0 {
						n.Height--
					}
				case "value-bit":
					if len(n.Value) > 0 {
						v := append([]byte{}, n.Value...)
						v[len(v)/2] ^= 1
						n.Value = v
					}
				case "value-on-inner-node":
					if n.Height > 0 {
						n.Value = []byte{1}
					}
				case "empty-mark":
					n.EmptyValue = !n.EmptyValue
				case "leaf-key-byte":
					if n.Height == 0 && len(n.Key) > 0 {
						k := append([]byte{}, n.Key...)
						k[len(k)-1] ^= 1
						n.Key = k
					}
				case "swap-nodes":
					if i+1 < len(ns) {
						ns[i], ns[i+1] = ns[i+1], ns[i]
					}
				}
			}
			seen++
		}
	})
	if err != nil {
		t.Fatalf("repack: %v", err)
	}
	if how == "drop-node" || how == "double-node" {
		seen = 0
		altered, err = repackList(archive, func(ns []*models.ProtoSnapshotNodes_Node) []*models.ProtoSnapshotNodes_Node {
			var res []*models.ProtoSnapshotNodes_Node
			for _, n := range ns {
				if seen == at {
					if how == "double-node" {
						res = append(res, n, n)
					}
				} else {
					res = append(res, n)
				}
				seen++
			}
			return res
		})
		if err != nil {
			t.Fatalf("repack: %v", err)
		}
	}
	return altered, how
}

// repackList is repack with an edit that may change the number of nodes of a member.
func repackList(archive []byte, f func(nodes []*models.ProtoSnapshotNodes_Node) []*models.ProtoSnapshotNodes_Node) ([]byte, error) {
	tr := tar.NewReader(bytes.NewReader(archive))
	var out bytes.Buffer
	tw := tar.NewWriter(&out)
	for {
		hdr, err := tr.Next()
		if err == io.EOF {
			break
		}
		if err != nil {
			return nil, err
		}
		data, err := io.ReadAll(tr)
		if err != nil {
			return nil, err
		}
		sb := new(models.ProtoSnapshotNodes)
		if err := proto.Unmarshal(data, sb); err != nil {
			return nil, err
		}
		sb.Nodes = f(sb.Nodes)
		nd, _ := proto.Marshal(sb)
		h := *hdr
		h.Size = int64(len(nd))
		if err := tw.WriteHeader(&h); err != nil {
			return nil, err
		}
		tw.Write(nd)
	}
	tw.Close()
	return out.Bytes(), nil
}

package c11

import (
	"errors"
	"fmt"
	"testing"
	"time"

	"github.com/idena-network/idena-go/blockchain"
	"github.com/idena-network/idena-go/blockchain/types"
	"github.com/idena-network/idena-go/ipfs"
	"github.com/ipfs/go-cid"
	pkgerrors "github.com/pkg/errors"
	dbm "github.com/tendermint/tm-db"
	"pgregory.net/rapid"

	"verifharness/internal/evid"
	"verifharness/internal/sim"
)

// faultyIpfs is a node's local ipfs proxy whose storage can become unavailable: once armed, the failAt-th Add from
// then on (0 = the next one) and every later one fails until the proxy is healed. Everything else passes through.
type faultyIpfs struct {
	ipfs.Proxy
	armed  bool
	failAt int
	fired  int
}

func (p *faultyIpfs) Add(data []byte, pin bool) (cid.Cid, error) {
	if p.armed {
		if p.failAt <= 0 {
			p.fired++
			return ipfs.EmptyCid, errors.New("ipfs node is unavailable")
		}
		p.failAt--
	}
	return p.Proxy.Add(data, pin)
}

func (p *faultyIpfs) arm(failAt int) { p.armed, p.failAt, p.fired = true, failAt, 0 }
func (p *faultyIpfs) heal() (fired bool) {
	p.armed = false
	return p.fired > 0
}

// faultWorld is sim.RunHistory's set-up with every initial node on a faultyIpfs (nodes the simulator starts later for
// new proposers share the proxy object of node 0; faults are armed around single AddBlock calls, so they stay per node).
func faultWorld(t *rapid.T, opt sim.Options) *sim.History {
	p := sim.GenParams(t, opt.MinActors, opt.MaxActors)
	if opt.Params != nil {
		opt.Params(&p)
	}
	w := sim.NewWorld(p)
	h := &sim.History{T: t, W: w, Opt: opt, Flags: map[string]int{}, TxMix: map[string]int{}}
	for i := 0; i < opt.Replicas; i++ {
		a := w.Actors[i%len(w.Actors)]
		r := &sim.Replica{W: w, Name: fmt.Sprintf("R%d(a%d)", i, i%len(w.Actors)), Key: a.Key, Addr: a.Addr, DB: dbm.NewMemDB(),
			Ipfs: &faultyIpfs{Proxy: sim.NewIpfs()}, Loc: time.UTC}
		if err := r.Start(); err != nil {
			t.Fatalf("replica %d: %v", i, err)
		}
		w.Replicas = append(w.Replicas, r)
	}
	for _, r := range w.Replicas[1:] {
		if r.Head().Hash() != w.Replicas[0].Head().Hash() {
			t.Fatalf("genesis differs between replicas")
		}
	}
	return h
}

// (a') The same replay oracle over histories in which block insertions FAIL: at drawn rounds the local ipfs node of a
// drawn set of nodes is unavailable at the first or second thing insertBlock stores there (block body, receipts), so
// AddBlock returns BlockInsertionErr after the block was validated and its trees committed. The node then does what
// full sync does for this error (AppState.ResetTo(head), no ban) and the round ends in one of two drawn ways: the
// fault heals and the same block is delivered again, or the block loses the round and a different block (the empty
// block, or a fresh proposal) becomes canonical at that height on every node. Reorganisations as in (a) are mixed in.
// At the end the stored diffs of EVERY node are replayed against its canonical headers.
func TestIdentityDiffReplayInsertionFaults(t *testing.T) {
	rapid.Check(t, func(t *rapid.T) {
		reorgs, reorgAcrossUpdate := 0, 0
		failed, lostRounds, lostUpdateToPlain := 0, 0, 0
		opt := sim.Options{MinActors: 4, MaxActors: 10, Replicas: rapid.IntRange(1, 3).Draw(t, "nodes"), MaxReplicas: 4, Steps: 24, MaxTxPerStep: 6,
			OnlyTypes: append(append([]types.TxType{}, identityTxMix...), types.DeployContractTx, types.DeployContractTx, types.CallContractTx, types.CallContractTx, types.KillTx)}
		opt.Params = identityWorld
		opt.BetweenBlocks = reorgHook(t, &reorgs, &reorgAcrossUpdate)
		var replacement *types.Block
		opt.BeforeDeliver = func(h *sim.History, proposer *sim.Replica, blk *types.Block) bool {
			w := h.W
			// blocks that change identities are a minority: take the opportunity in half of the cases
			// (so are blocks with receipts, the only ones with a second thing to store)
			odds := 3
			hasReceipts := blk.Header.ProposedHeader != nil && len(blk.Header.ProposedHeader.TxReceiptsCid) > 0
			if blk.Header.Flags().HasFlag(types.IdentityUpdate) || hasReceipts {
				odds = 1
			}
			if rapid.IntRange(0, odds).Draw(t, "insertionFault") != 0 {
				return true
			}
			var hit []*sim.Replica
			for _, r := range w.Replicas {
				if rapid.Bool().Draw(t, "ipfsDownOn"+r.Name) {
					hit = append(hit, r)
				}
			}
			if len(hit) == 0 {
				hit = []*sim.Replica{w.Replicas[rapid.IntRange(0, len(w.Replicas)-1).Draw(t, "ipfsDownOnIdx")]}
			}
			// a block that loses the round is never stored by anybody: the fault is at the body then (always reached)
			lost := rapid.Bool().Draw(t, "blockLosesTheRound")
			failAt := 0
			if !lost && hasReceipts {
				failAt = rapid.IntRange(0, 1).Draw(t, "failAtAdd")
			}
			evid.Eval()
			inserted := map[*sim.Replica]bool{}
			for _, r := range hit {
				fi, ok := r.Ipfs.(*faultyIpfs)
				if !ok {
					t.Fatalf("harness: %s has no fault-injecting ipfs proxy", r.Name)
				}
				head := r.Head()
				fi.arm(failAt)
				err := r.AddBlock(blk)
				fired := fi.heal()
				if err == nil {
					// the fault point was not reached (no receipts to store): an ordinary insertion
					if fired {
						t.Fatalf("harness: ipfs Add failed on %s but AddBlock succeeded", r.Name)
					}
					inserted[r] = true
					evid.Count("fault.point_not_reached")
					continue
				}
				if !fired || pkgerrors.Cause(err) != blockchain.BlockInsertionErr {
					t.Fatalf("honest block %s refused by %s (ipfs fault fired: %v): %v\nhistory:\n%s", sim.BlockDesc(blk), r.Name, fired, err, h.Summary())
				}
				if r.Head().Hash() != head.Hash() {
					t.Fatalf("a failed insertion moved the head of %s", r.Name)
				}
				// fullSync.applyDeferredBlocks: the state is rolled back to the head, the peer is not banned
				if err := r.AppState.ResetTo(r.Head().Height()); err != nil {
					t.Fatalf("AppState.ResetTo(head) on %s after a failed insertion: %v", r.Name, err)
				}
				failed++
				evid.Count(fmt.Sprintf("fault.insertion_failed_at_add_%d", failAt))
			}
			final := blk
			if lost {
				// the round goes to a different block
				if rapid.IntRange(0, 2).Draw(t, "roundGoesTo") < 2 {
					final = w.Replicas[0].EmptyBlock()
				} else if p := w.Proposer(t, opt.MaxReplicas); p != nil {
					final = p.Propose().Block
				} else {
					final = w.Replicas[0].EmptyBlock()
				}
				if final.Hash() == blk.Hash() {
					lost = false
				}
			}
			for _, r := range w.Replicas {
				if !lost && inserted[r] {
					continue
				}
				if err := r.AddBlock(final); err != nil {
					t.Fatalf("after an insertion fault on this round (block %s, lost the round: %v) %s refuses the honest block %s: %v\nhistory:\n%s",
						sim.BlockDesc(blk), lost, r.Name, sim.BlockDesc(final), err, h.Summary())
				}
			}
			if lost {
				replacement = final
				lostRounds++
				h.Note("blockLostAfterInsertionFault")
				evid.Count("fault.block_lost_the_round")
				if blk.Header.Flags().HasFlag(types.IdentityUpdate) {
					evid.Count("fault.lost_block_had_identity_update")
					if w.Replicas[0].Chain.GetIdentityDiff(final.Height()).Empty() || !final.Header.Flags().HasFlag(types.IdentityUpdate) {
						lostUpdateToPlain++
						evid.Count("fault.lost_identity_update_block_replaced_by_block_without")
						h.Note("lostIdentityUpdateReplacedByPlain")
					}
				}
			} else {
				h.Note("blockRetriedAfterInsertionFault")
				evid.Count("fault.same_block_retried")
			}
			return false
		}
		opt.AfterBlock = func(h *sim.History, blk *types.Block) {
			if replacement != nil {
				h.Blocks[len(h.Blocks)-1] = replacement
				replacement = nil
			}
		}
		h := faultWorld(t, opt)
		for step := 0; step < opt.Steps; step++ {
			h.Step()
		}
		evid.Eval()
		nonEmpty := 0
		for _, r := range append([]*sim.Replica{}, h.W.Replicas...) {
			if r.Head().Hash() != h.W.Replicas[0].Head().Hash() {
				t.Fatalf("harness: heads of the nodes differ at the end")
			}
			nonEmpty = replayDiffs(t, h, r, reorgs > 0)
		}
		evid.CountN("fault.replayed_heights", (int(h.W.Replicas[0].Head().Height())-1)*len(h.W.Replicas))
		if failed > 0 {
			evid.Count("fault.history_with_failed_insertion")
		}
		if lostRounds > 0 && reorgs > 0 {
			evid.Count("fault.history_with_lost_block_and_reorg")
		}
		if lostUpdateToPlain > 0 {
			evid.Count("fault.history_with_lost_identity_update_replaced_by_plain")
			evid.NonTrivial("fault|" + h.Descriptor())
			evid.Sample("diff-replay-faults", fmt.Sprintf("heights=%d nonEmptyDiffs=%d failedInsertions=%d lostRounds=%d lostUpdateToPlain=%d reorgs=%d",
				h.W.Replicas[0].Head().Height(), nonEmpty, failed, lostRounds, lostUpdateToPlain, reorgs))
		}
	})
}

// Package evid collects what a check process actually explored and writes it,
// at process exit, to the file named by $VERIF_STATS (one JSON object). The
// driver merges the files of all processes into /verif/evidence/<ID>.json.
package evid

import (
	"encoding/json"
	"fmt"
	"hash/fnv"
	"os"
	"sort"
	"sync"
	"testing"
)

type knownHit struct {
	Property string `json:"property"`
	Key      string `json:"key"`
	What     string `json:"what"`
	Count    int    `json:"count"`
}

type stats struct {
	Evaluations int                    `json:"evaluations"`
	Hashes      []uint64               `json:"hashes"`
	Samples     []interface{}          `json:"samples"`
	Counters    map[string]int         `json:"counters"`
	Known       map[string]*knownHit   `json:"known"`
	Extra       map[string]interface{} `json:"extra,omitempty"`
}

var (
	mu         sync.Mutex
	st         = stats{Counters: map[string]int{}, Known: map[string]*knownHit{}, Extra: map[string]interface{}{}}
	seen       = map[uint64]struct{}{}
	maxSamples = 6
	sampleTick = map[string]int{}
)

// Eval counts one generated case (evaluation of the oracle).
func Eval() { mu.Lock(); st.Evaluations++; mu.Unlock() }

// EvalN counts n evaluations.
func EvalN(n int) { mu.Lock(); st.Evaluations += n; mu.Unlock() }

// Count increments a labelled counter (distribution of generated classes).
func Count(label string) { mu.Lock(); st.Counters[label]++; mu.Unlock() }

func CountN(label string, n int) { mu.Lock(); st.Counters[label] += n; mu.Unlock() }

// NonTrivial records a case that is non-trivial by the check's stated rule.
// desc is the case descriptor; distinctness is by its 64-bit FNV hash.
func NonTrivial(desc string) {
	h := fnv.New64a()
	h.Write([]byte(desc))
	v := h.Sum64()
	mu.Lock()
	if _, ok := seen[v]; !ok {
		seen[v] = struct{}{}
		st.Hashes = append(st.Hashes, v)
	}
	mu.Unlock()
}

// Sample keeps up to maxSamples examples per class (first few, then sparse).
func Sample(class string, v interface{}) {
	mu.Lock()
	defer mu.Unlock()
	sampleTick[class]++
	n := sampleTick[class]
	if n <= 2 || (n&(n-1)) == 0 && len(st.Samples) < maxSamples*4 {
		if len(st.Samples) < maxSamples*4 {
			st.Samples = append(st.Samples, map[string]interface{}{"class": class, "case": v})
		}
	}
}

// Extra stores a free-form value under key (last write wins).
func Extra(key string, v interface{}) { mu.Lock(); st.Extra[key] = v; mu.Unlock() }

// KnownHit records that a listed known finding was met (and excluded).
func KnownHit(property, key, what string) {
	mu.Lock()
	k := st.Known[key]
	if k == nil {
		k = &knownHit{Property: property, Key: key, What: what}
		st.Known[key] = k
	}
	k.Count++
	mu.Unlock()
}

// Flush writes the stats file.
func Flush() {
	path := os.Getenv("VERIF_STATS")
	if path == "" {
		return
	}
	mu.Lock()
	defer mu.Unlock()
	sort.Slice(st.Hashes, func(i, j int) bool { return st.Hashes[i] < st.Hashes[j] })
	b, err := json.Marshal(&st)
	if err != nil {
		fmt.Fprintln(os.Stderr, "evid: marshal:", err)
		// samples may hold something unmarshalable; drop them
		st.Samples = nil
		b, _ = json.Marshal(&st)
	}
	tmp := path + ".tmp"
	if err := os.WriteFile(tmp, b, 0o644); err == nil {
		os.Rename(tmp, path)
	}
}

// Main is the TestMain body every check package uses.
func Main(m *testing.M) {
	code := m.Run()
	Flush()
	os.Exit(code)
}

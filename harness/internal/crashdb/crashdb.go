// Package crashdb is a dbm.DB over MemDB that numbers every mutating call
// (Set/SetSync/Delete/DeleteSync, and Batch.Write/WriteSync as ONE atomic
// unit) and, when armed with k, panics with a sentinel BEFORE applying the
// k-th write. The surviving MemDB image is "the disk" after a process crash.
// Torn single-key writes and lost-but-acknowledged writes are outside the model.
package crashdb

import (
	"bytes"
	"fmt"
	"runtime"
	"strconv"
	"sync"

	dbm "github.com/tendermint/tm-db"
)

// Crash is the sentinel panic value.
type Crash struct{ At int }

func (c Crash) Error() string { return fmt.Sprintf("injected crash before write %d", c.At) }

type DB struct {
	inner  *dbm.MemDB
	writes int      // mutating calls so far
	armed  int      // 0 = never crash
	Log    []string // kind of every write (for evidence)
	dead   bool
	owner  uint64 // goroutine that armed the database: only its writes are numbered
	mu     sync.Mutex
}

func goid() uint64 {
	var buf [64]byte
	n := runtime.Stack(buf[:], false)
	f := bytes.Fields(buf[:n])
	if len(f) < 2 {
		return 0
	}
	id, _ := strconv.ParseUint(string(f[1]), 10, 64)
	return id
}

func New(image dbm.DB) *DB {
	d := &DB{inner: dbm.NewMemDB()}
	if image != nil {
		it, err := image.Iterator(nil, nil)
		if err != nil {
			panic(err)
		}
		for ; it.Valid(); it.Next() {
			d.inner.Set(append([]byte{}, it.Key()...), append([]byte{}, it.Value()...))
		}
		it.Close()
	}
	return d
}

// Arm makes the k-th write from now crash (k >= 1); 0 disarms.
func (d *DB) Arm(k int) { d.armed = k; d.writes = 0; d.Log = nil; d.owner = goid() }

func (d *DB) Writes() int { return d.writes }

// Image is the surviving database content.
func (d *DB) Image() *dbm.MemDB { return d.inner }

// before returns false when the write must be dropped: the process is dead and the caller is a background
// goroutine of the node (e.g. the old-state cleanup started by the fast-sync switch), which simply never gets
// to write. Background writes before the crash are applied but not numbered, so that crash points are a
// function of the operation alone.
func (d *DB) before(kind string, key []byte) bool {
	d.mu.Lock()
	defer d.mu.Unlock()
	mine := d.owner == 0 || goid() == d.owner
	if d.dead {
		if mine {
			panic(Crash{d.writes})
		}
		return false
	}
	if !mine {
		return true
	}
	d.writes++
	tag := kind
	if len(key) > 0 {
		n := len(key)
		if n > 6 {
			n = 6
		}
		tag = fmt.Sprintf("%s(%x)", kind, key[:n])
	}
	d.Log = append(d.Log, tag)
	if d.armed != 0 && d.writes == d.armed {
		d.dead = true // nothing is written after the crash point
		panic(Crash{d.writes})
	}
	return true
}

func (d *DB) Get(key []byte) ([]byte, error) { return d.inner.Get(key) }
func (d *DB) Has(key []byte) (bool, error)   { return d.inner.Has(key) }
func (d *DB) Set(key, value []byte) error    { d.before("set", key); return d.inner.Set(key, value) }
func (d *DB) SetSync(key, value []byte) error {
	d.before("setsync", key)
	return d.inner.SetSync(key, value)
}
func (d *DB) Delete(key []byte) error     { d.before("del", key); return d.inner.Delete(key) }
func (d *DB) DeleteSync(key []byte) error { d.before("delsync", key); return d.inner.DeleteSync(key) }
func (d *DB) Iterator(start, end []byte) (dbm.Iterator, error) {
	return d.inner.Iterator(start, end)
}
func (d *DB) ReverseIterator(start, end []byte) (dbm.Iterator, error) {
	return d.inner.ReverseIterator(start, end)
}
func (d *DB) Close() error             { return nil }
func (d *DB) Print() error             { return nil }
func (d *DB) Stats() map[string]string { return map[string]string{} }
func (d *DB) NewBatch() dbm.Batch      { return &batch{db: d} }

type op struct {
	del  bool
	k, v []byte
}

type batch struct {
	db  *DB
	ops []op
}

func (b *batch) Set(key, value []byte) error {
	b.ops = append(b.ops, op{false, append([]byte{}, key...), append([]byte{}, value...)})
	return nil
}
func (b *batch) Delete(key []byte) error {
	b.ops = append(b.ops, op{true, append([]byte{}, key...), nil})
	return nil
}
func (b *batch) write(kind string) error {
	if len(b.ops) == 0 {
		return nil
	}
	if !b.db.before(fmt.Sprintf("%s[%d]", kind, len(b.ops)), b.ops[0].k) {
		return nil
	}
	for _, o := range b.ops {
		if o.del {
			b.db.inner.Delete(o.k)
		} else {
			b.db.inner.Set(o.k, o.v)
		}
	}
	b.ops = nil
	return nil
}
func (b *batch) Write() error     { return b.write("batch") }
func (b *batch) WriteSync() error { return b.write("batchsync") }
func (b *batch) Close() error     { b.ops = nil; return nil }

package sim

import (
	"fmt"
	"sort"
	"strings"
	"time"

	"github.com/idena-network/idena-go/blockchain/types"
	"github.com/idena-network/idena-go/blockchain/validation"
	"github.com/idena-network/idena-go/config"
	"github.com/idena-network/idena-go/core/state"
	"pgregory.net/rapid"
)

// Options configures a generated history.
type Options struct {
	MinActors, MaxActors int
	Replicas             int // initial replicas (>=1); replica 0 holds the god key
	MaxReplicas          int
	Steps                int // number of block-producing steps
	MaxTxPerStep         int
	OnlyTypes            []types.TxType
	Zones                bool // give replicas different host time zones
	Restarts             bool // restart replicas from their DB at drawn points
	LateBatches          bool // some offers are admitted one block late against the view of the previous head (see Step)
	FatTxs               bool // see World.FatTxs
	Upgrades             bool // worlds that start on consensus version 9 activate 10, 11, 12 at drawn block boundaries
	Params               func(*Params)

	// BeforeDeliver is called with the proposer and its proposal (nil proposer for an empty block)
	// before any replica inserts it. Returning false skips the built-in delivery.
	BeforeDeliver func(h *History, proposer *Replica, blk *types.Block) bool
	// AfterBlock runs after every replica inserted the block.
	AfterBlock func(h *History, blk *types.Block)
	// BetweenBlocks runs before each step (after clock advance and offers).
	BetweenBlocks func(h *History)
}

type delayedOffer struct {
	tx     *types.Transaction
	height uint64
}

type History struct {
	delayed []delayedOffer
	T       *rapid.T
	W       *World
	Opt     Options
	Blocks  []*types.Block
	Offered []Offered
	Events  []string
	Flags   map[string]int // counters of flags / tx types / events reached
	TxMix   map[string]int
}

func (h *History) Note(ev string) {
	h.Events = append(h.Events, ev)
	h.Flags[ev]++
}

// Descriptor is the case descriptor used for distinct / non-trivial counting:
// the multiset of (block flag class, tx type) and events reached.
func (h *History) Descriptor() string {
	var parts []string
	for k, v := range h.Flags {
		parts = append(parts, fmt.Sprintf("%s=%d", k, v))
	}
	for k, v := range h.TxMix {
		parts = append(parts, fmt.Sprintf("tx.%s=%d", k, v))
	}
	sort.Strings(parts)
	return h.W.P.Profile + "|" + strings.Join(parts, ",")
}

var zones = []*time.Location{time.UTC, time.FixedZone("UTC+14", 14*3600), time.FixedZone("UTC-12", -12*3600), time.FixedZone("UTC+9", 9*3600), time.FixedZone("UTC+5:45", 5*3600+45*60)}

// RunHistory generates and executes one history. Every replica receives every
// block; the harness fails the case if an honest block is refused (that is
// property C02, which every history-based check relies on).
func RunHistory(t *rapid.T, opt Options) *History {
	p := GenParams(t, opt.MinActors, opt.MaxActors)
	if opt.Params != nil {
		opt.Params(&p)
	}
	w := NewWorld(p)
	w.FatTxs = opt.FatTxs
	h := &History{T: t, W: w, Opt: opt, Flags: map[string]int{}, TxMix: map[string]int{}}
	if opt.Replicas < 1 {
		opt.Replicas = 1
	}
	if opt.MaxReplicas < opt.Replicas {
		opt.MaxReplicas = opt.Replicas + 2
	}
	for i := 0; i < opt.Replicas; i++ {
		key := w.Actors[i%len(w.Actors)].Key
		r, err := w.AddReplica(fmt.Sprintf("R%d(a%d)", i, i%len(w.Actors)), key, nil)
		if err != nil {
			t.Fatalf("replica %d: %v", i, err)
		}
		if opt.Zones && i > 0 {
			r.Loc = zones[rapid.IntRange(0, len(zones)-1).Draw(t, "zone")]
		}
	}
	for _, r := range w.Replicas[1:] {
		if r.Head().Hash() != w.Replicas[0].Head().Hash() {
			t.Fatalf("genesis differs between replicas")
		}
	}
	for step := 0; step < opt.Steps; step++ {
		h.Step()
	}
	return h
}

// Step = advance clock, offer transactions, optionally restart, produce one block.
func (h *History) Step() {
	t, w, opt := h.T, h.W, h.Opt
	base := w.Replicas[0]
	// clock: inside a ceremony jump to the next period boundary often, outside rarely
	s := base.ReadState()
	jumpOdds := 12
	if s.State.ValidationPeriod() != state.NonePeriod {
		jumpOdds = 3
	}
	jumped := false
	if rapid.IntRange(1, jumpOdds).Draw(t, "jumpToBoundary") == 1 {
		if b := w.NextBoundary(s); !b.IsZero() && b.After(w.Now()) && b.Sub(w.Now()) < 400*24*time.Hour {
			w.SetNow(b.Add(time.Duration(rapid.IntRange(0, 5).Draw(t, "pastBoundary")) * time.Second))
			jumped = true
		}
	}
	if !jumped {
		w.Advance(time.Duration(rapid.IntRange(10, 45).Draw(t, "dt")) * time.Second)
	}
	// never let the head be in the future of the clock by more than the allowed window
	if min := time.Unix(base.Head().Time(), 0).Add(10 * time.Second); w.Now().Before(min) {
		w.SetNow(min)
	}
	// the rest of a network batch whose admission overlapped the insertion of the previous block: the pool validates
	// it against the view of the head it took when the batch arrived (TxPool.AddExternalTxs), i.e. the previous head
	for _, d := range h.delayed {
		for _, r := range w.Replicas {
			if view, err := r.AppState.Readonly(d.height); err == nil && r.Head().Height() > d.height {
				if r.Pool.VerifAddAgainst(WireCopyTx(d.tx), view, validation.InboundTx) == nil {
					h.Flags["lateBatchTxAdmitted"]++
				}
			}
		}
	}
	h.delayed = nil
	// offers
	n := rapid.IntRange(0, opt.MaxTxPerStep).Draw(t, "nOffers")
	for i := 0; i < n; i++ {
		tx, info := w.GenTx(t, base, opt.OnlyTypes)
		if opt.LateBatches && rapid.IntRange(0, 5).Draw(t, "lateBatch") == 0 {
			h.delayed = append(h.delayed, delayedOffer{tx, base.Head().Height()})
			continue
		}
		if opt.LateBatches && info.Hostile == "" && info.Sender != nil && rapid.IntRange(0, 3).Draw(t, "lateSibling") == 0 {
			// a second transaction of the same sender and kind with the next nonce, in the late part of the batch: valid
			// on the view it is admitted against, stale once its elder sibling has been mined
			for try := 0; try < 3; try++ {
				sib, sinfo := w.GenTx(t, base, []types.TxType{tx.Type})
				if sinfo.Sender != info.Sender || sinfo.Hostile != "" {
					continue
				}
				c := *WireCopyTx(sib)
				c.AccountNonce, c.Signature = tx.AccountNonce+1, nil
				if signed, err := types.SignTx(&c, info.Sender.Key); err == nil {
					h.delayed = append(h.delayed, delayedOffer{signed, base.Head().Height()})
				}
				break
			}
		}
		var firstErr error
		for j, r := range w.Replicas {
			kind := validation.InboundTx
			if j == 0 && rapid.IntRange(0, 3).Draw(t, "asMempoolTx") == 0 {
				kind = validation.MempoolTx
			}
			wireTx := tx
			if j > 0 {
				// gossip is lossy and unordered: a node may not get a transaction at all (pools differ between nodes)
				if rapid.IntRange(0, 4).Draw(t, "gossipLost") == 4 {
					continue
				}
				wireTx = WireCopyTx(tx) // every node holds its own decoded object
			}
			err := r.Pool.AddExternalTxs(kind, wireTx)
			if j == 0 {
				firstErr = err
			}
		}
		h.Offered = append(h.Offered, Offered{tx, info, firstErr})
	}
	if opt.Restarts && len(w.Replicas) > 1 && rapid.IntRange(0, 7).Draw(t, "restart") == 0 {
		r := w.Replicas[rapid.IntRange(1, len(w.Replicas)-1).Draw(t, "restartIdx")]
		head := r.Head().Hash()
		if err := r.Restart(); err != nil {
			t.Fatalf("clean restart of %s failed: %v", r.Name, err)
		}
		if r.Head().Hash() != head {
			t.Fatalf("clean restart of %s changed the head", r.Name)
		}
		h.Note("restart")
	}
	if opt.Upgrades && w.Version < config.ConsensusV12 && rapid.IntRange(0, 7).Draw(t, "upgrade") == 0 {
		w.UpgradeTo(w.Version + 1)
		h.Note(fmt.Sprintf("upgrade-to-%d", w.Version))
	}
	if opt.BetweenBlocks != nil {
		opt.BetweenBlocks(h)
	}
	// block
	var blk *types.Block
	var proposer *Replica
	if rapid.IntRange(0, 9).Draw(t, "emptyRound") != 0 {
		proposer = w.Proposer(t, opt.MaxReplicas)
	}
	if proposer != nil {
		blk = proposer.Propose().Block
	} else {
		blk = base.EmptyBlock()
	}
	deliver := true
	if opt.BeforeDeliver != nil {
		deliver = opt.BeforeDeliver(h, proposer, blk)
	}
	if deliver {
		for _, r := range w.Replicas {
			if err := r.AddBlock(blk); err != nil {
				who := "empty-block generator"
				if proposer != nil {
					who = proposer.Name
				}
				h.Blocks = append(h.Blocks, blk)
				poolDesc := ""
				if proposer != nil {
					for _, tx := range proposer.Pool.GetPendingTransaction(true, true, 0, false) {
						from, _ := types.Sender(tx)
						to := "-"
						if tx.To != nil {
							to = w.Name(*tx.To)
						}
						poolDesc += fmt.Sprintf(" %s(%s->%s,nonce=%d,epoch=%d,amount=%v,maxFee=%v,tips=%v)", TxTypeNames[tx.Type], w.Name(from), to, tx.AccountNonce, tx.Epoch, tx.Amount, tx.MaxFee, tx.Tips)
					}
				}
				if proposer != nil {
					// diagnostics: the same proposer key on a copy of its database with a pool holding only the included txs
					clean := &Replica{W: w, Name: "clean", Key: proposer.Key, Addr: proposer.Addr, DB: CopyDB(proposer.DB), Ipfs: proposer.Ipfs, Loc: time.UTC}
					if e := clean.Start(); e == nil {
						for _, tx := range blk.Body.Transactions {
							clean.Pool.AddExternalTxs(validation.MempoolTx, tx)
						}
						cb := clean.Propose().Block
						poolDesc += fmt.Sprintf("\nclean-pool proposal: txs=%d root=%x (original proposal root=%x); validates on refusing replica: %v", len(cb.Body.Transactions), cb.Root(), blk.Root(), r.Validate(cb))
						// which single left-out pool tx makes the proposal invalid?
						inBlock := map[[32]byte]bool{}
						for _, tx := range blk.Body.Transactions {
							inBlock[tx.Hash()] = true
						}
						for _, extra := range proposer.Pool.GetPendingTransaction(true, true, 0, false) {
							if inBlock[extra.Hash()] {
								continue
							}
							c2 := &Replica{W: w, Name: "clean2", Key: proposer.Key, Addr: proposer.Addr, DB: CopyDB(proposer.DB), Ipfs: proposer.Ipfs, Loc: time.UTC}
							if e := c2.Start(); e != nil {
								continue
							}
							for _, tx := range blk.Body.Transactions {
								c2.Pool.AddExternalTxs(validation.MempoolTx, tx)
							}
							addErr := c2.Pool.AddExternalTxs(validation.MempoolTx, extra)
							b2 := c2.Propose().Block
							from, _ := types.Sender(extra)
							verdict := r.Validate(b2)
							poolDesc += fmt.Sprintf("\n  with extra %s(%s,nonce=%d,epoch=%d) [pool add err=%v]: txs=%d validates: %v", TxTypeNames[extra.Type], w.Name(from), extra.AccountNonce, extra.Epoch, addErr, len(b2.Body.Transactions), verdict)
							if verdict != nil {
								hdr := &types.ProposedHeader{Height: blk.Height(), ParentHash: blk.Header.ParentHash(), Time: blk.Header.Time(), ProposerPubKey: blk.Header.ProposedHeader.ProposerPubKey, FeePerGas: blk.Header.ProposedHeader.FeePerGas}
								csA, _ := c2.AppState.ForCheck(c2.Head().Height())
								c2.Chain.VerifFilterTxs(csA, blk.Body.Transactions, hdr)
								dA := csA.State.Precommit(true)
								csB, _ := c2.AppState.ForCheck(c2.Head().Height())
								c2.Chain.VerifFilterTxs(csB, append(append([]*types.Transaction{}, blk.Body.Transactions...), extra), hdr)
								dB := csB.State.Precommit(true)
								poolDesc += "\n    state writes of the builder's filter, included txs only:"
								for _, d := range dA {
									poolDesc += fmt.Sprintf(" %x(del=%v,%x)", d.Key, d.Deleted, d.Value)
								}
								poolDesc += "\n    state writes with the extra tx offered as well:"
								for _, d := range dB {
									poolDesc += fmt.Sprintf(" %x(del=%v,%x)", d.Key, d.Deleted, d.Value)
								}
							}
						}
					}
				}
				t.Fatalf("honest block refused: %s built by %s, refused by %s: %v\nproposer pool:%s\nhistory (last block is the refused one):\n%s", BlockDesc(blk), who, r.Name, err, poolDesc, h.Summary())
			}
		}
	}
	h.Blocks = append(h.Blocks, blk)
	w.NoteBlock(base, blk)
	fl := FlagNames(blk.Header.Flags())
	if blk.IsEmpty() {
		h.Flags["emptyBlock"]++
	}
	for _, f := range strings.Split(fl, "+") {
		h.Flags[f]++
	}
	for _, tx := range blk.Body.Transactions {
		h.TxMix[TxTypeNames[tx.Type]]++
	}
	if opt.AfterBlock != nil {
		opt.AfterBlock(h, blk)
	}
}

// PeriodName is used in labels.
func PeriodName(p state.ValidationPeriod) string {
	switch p {
	case state.NonePeriod:
		return "None"
	case state.FlipLotteryPeriod:
		return "Lottery"
	case state.ShortSessionPeriod:
		return "Short"
	case state.LongSessionPeriod:
		return "Long"
	case state.AfterLongSessionPeriod:
		return "AfterLong"
	}
	return "?"
}

// Summary lists the blocks of the history with their transactions (for failure messages).
func (h *History) Summary() string {
	var sb strings.Builder
	for _, b := range h.Blocks {
		sb.WriteString(BlockDesc(b))
		for _, tx := range b.Body.Transactions {
			from, _ := types.Sender(tx)
			to := "-"
			if tx.To != nil {
				to = h.W.Name(*tx.To)
			}
			fmt.Fprintf(&sb, " %s(%s->%s)", TxTypeNames[tx.Type], h.W.Name(from), to)
		}
		sb.WriteString("\n")
	}
	return sb.String()
}

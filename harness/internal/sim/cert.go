package sim

import (
	"github.com/idena-network/idena-go/blockchain/types"
	"github.com/idena-network/idena-go/common"
	"github.com/idena-network/idena-go/crypto"
)

// CertMode selects the shape of a generated certificate.
type CertMode string

const (
	CertValid       CertMode = "valid"
	CertNil         CertMode = "nil"
	CertEmpty       CertMode = "empty"
	CertUnderQuorum CertMode = "under-quorum"
	CertForged      CertMode = "forged"
	CertWrongHash   CertMode = "wrong-hash"
	CertDuplicated  CertMode = "duplicated-vote"
	CertValidAll    CertMode = "valid-all" // like valid, signed by every approved committee member instead of a bare quorum
)

// MakeCert builds a certificate for blk on top of r's current head (r must not
// have inserted blk yet): real votes of the committee the node derives for the
// round, signed with the actors' keys.
func (w *World) MakeCert(r *Replica, blk *types.Block, mode CertMode) *types.BlockCert {
	switch mode {
	case CertNil:
		return nil
	case CertEmpty:
		return &types.BlockCert{}
	}
	prev := r.Head()
	vc := r.AppState.ValidatorsCache
	step := uint8(types.Final)
	size := r.Chain.GetCommitteeSize(vc, true)
	committee := vc.GetOnlineValidators(prev.Seed(), blk.Height(), step, size)
	if committee == nil {
		return &types.BlockCert{}
	}
	need := r.Chain.GetCommitteeVotesThreshold(vc, true) - committee.VotesCountSubtrahend(r.Cfg.Consensus.AgreementThreshold)
	if need < 1 {
		need = 1
	}
	var voters []*Actor
	for _, a := range w.Actors {
		if committee.Approved(a.Addr) {
			voters = append(voters, a)
		}
	}
	voted := blk.Hash()
	if mode == CertWrongHash {
		voted[0] ^= 1
	}
	var votes []*types.Vote
	sign := func(a *Actor) {
		v := &types.Vote{Header: &types.VoteHeader{Round: blk.Height(), Step: step, ParentHash: prev.Hash(), VotedHash: voted}}
		h := crypto.SignatureHash(v)
		sig, err := crypto.Sign(h[:], a.Key)
		if err != nil {
			panic(err)
		}
		v.Signature = sig
		votes = append(votes, v)
	}
	switch mode {
	case CertUnderQuorum:
		for i := 0; i < need-1 && i < len(voters); i++ {
			sign(voters[i])
		}
		if len(votes) == 0 {
			return &types.BlockCert{}
		}
	case CertDuplicated:
		// one vote short of the quorum, filled up by repeating a genuine vote (needs a threshold above one)
		if need < 2 || len(voters) == 0 {
			return w.MakeCert(r, blk, CertUnderQuorum)
		}
		for i := 0; i < need-1 && i < len(voters); i++ {
			sign(voters[i])
		}
		for len(votes) < need {
			votes = append(votes, votes[0])
		}
	case CertForged:
		// enough signatures, but from keys outside the committee
		for i := 0; i < need; i++ {
			k := DeriveKey(w.P.KeySeed^0xf00d, 5000+i)
			sign(&Actor{Key: k, Addr: crypto.PubkeyToAddress(k.PublicKey)})
		}
	default:
		n := need
		if mode == CertValidAll {
			n = len(voters) // every approved member of the committee signs
		}
		for i := 0; i < n && i < len(voters); i++ {
			sign(voters[i])
		}
		if len(votes) < need {
			return &types.BlockCert{} // the harness does not own enough committee keys (cannot happen: all identities are actors)
		}
	}
	full := types.FullBlockCert{Votes: votes}
	return full.Compress()
}

// CommitteeHasQuorum reports whether MakeCert can produce a valid certificate.
func (w *World) CommitteeHasQuorum(r *Replica, blk *types.Block) bool {
	c := w.MakeCert(r, blk, CertValid)
	return c != nil && !c.Empty()
}

var _ = common.Address{}

// MakeCertBy builds a final-step certificate for blk (on top of r's head)
// signed by exactly the given actors.
func (w *World) MakeCertBy(r *Replica, blk *types.Block, voters []*Actor) *types.BlockCert {
	prev := r.Head()
	var votes []*types.Vote
	for _, a := range voters {
		v := &types.Vote{Header: &types.VoteHeader{Round: blk.Height(), Step: uint8(types.Final), ParentHash: prev.Hash(), VotedHash: blk.Hash()}}
		h := crypto.SignatureHash(v)
		sig, err := crypto.Sign(h[:], a.Key)
		if err != nil {
			panic(err)
		}
		v.Signature = sig
		votes = append(votes, v)
	}
	full := types.FullBlockCert{Votes: votes}
	return full.Compress()
}

package sim

import (
	"time"

	"github.com/idena-network/idena-go/blockchain/types"
	"github.com/idena-network/idena-go/blockchain/validation"
	"pgregory.net/rapid"
)

// CopyOf starts a new node with the given actor's key on a copy of src's database
// (a node that synced to the same head). It is not added to w.Replicas.
func (w *World) CopyOf(t *rapid.T, src *Replica, name string, key *Actor) *Replica {
	r := &Replica{W: w, Name: name, Key: key.Key, Addr: key.Addr, DB: CopyDB(src.DB), Ipfs: src.Ipfs, Loc: time.UTC}
	if err := r.Start(); err != nil {
		t.Fatalf("start %s: %v", name, err)
	}
	return r
}

// Extend builds one more block on side's head: proposed by an eligible actor
// through a temporary node holding that actor's key (with 0-4 generated txs in
// its pool), or empty. certify is called with the block BEFORE side inserts it
// (so that side's validator view is the one the committee is drawn from).
func (w *World) Extend(t *rapid.T, side *Replica, only []types.TxType, certify func(blk *types.Block) *types.BlockCert) (*types.Block, *types.BlockCert) {
	w.Advance(time.Duration(rapid.IntRange(10, 40).Draw(t, "dt")) * time.Second)
	if min := time.Unix(side.Head().Time(), 0).Add(10 * time.Second); w.Now().Before(min) {
		w.SetNow(min)
	}
	var blk *types.Block
	var eligible []*Actor
	vc := side.AppState.ValidatorsCache
	for _, a := range w.Actors {
		if vc.IsOnlineIdentity(a.Addr) || side.AppState.State.GodAddress() == a.Addr && vc.OnlineSize() == 0 {
			eligible = append(eligible, a)
		}
	}
	if len(eligible) > 0 && rapid.IntRange(0, 5).Draw(t, "emptyBlock") != 5 {
		a := eligible[rapid.IntRange(0, len(eligible)-1).Draw(t, "proposer")]
		tmp := w.CopyOf(t, side, "tmp-proposer", a)
		for i := rapid.IntRange(0, 4).Draw(t, "nTx"); i > 0; i-- {
			tx, _ := w.GenTx(t, tmp, only)
			tmp.Pool.AddExternalTxs(validation.MempoolTx, tx)
		}
		blk = tmp.Propose().Block
	} else {
		blk = side.EmptyBlock()
	}
	var cert *types.BlockCert
	if certify != nil {
		cert = certify(blk)
	}
	if err := side.AddBlock(blk); err != nil {
		t.Fatalf("%s refuses its own honest block %s: %v", side.Name, BlockDesc(blk), err)
	}
	return blk, cert
}
